import LyModel.Val.LemmasBin
/-!
# C03 — the built-in type `binary` (RFC 7950 §9.8; base64 of RFC 4648 §4)

Model: `Val/Binary.lean` — `lyplg_type_store_binary`, `_compare_`, `_sort_`, `_print_`, `_dup_binary` of `plugins_types/binary.c` with its
`binary_base64_validate` / `_newlines` / `_decode` / `_encode`; the two tables are generated from the source (`Generated/ValBin.lean`); compared
with the implementation on every run (`tools/checks/valbin.py`).

The specification side (`Val/LemmasBin.lean`): `IsB64 t o k` — the text `t` is base64 of the octets `o` per RFC 4648 §4 (24-bit groups = three
octets = four sextets, characters of Table 1, final group of 16 / 8 bits padded with `=` / `==`), `k` the value of the surplus bits of the last
sextet; the canonical text has `k = 0`.  `Lines64 s t` — `s` is `t` in lines of exactly 64 bytes, each followed by `\n`, the last one (≤ 64
bytes) not; `Unfold64 s t` — what `binary_base64_newlines` makes of a value: `t = s` unless byte 64 of `s` is a newline, then `Lines64 s t`.

A value is the pair of its octets (`data`) and its canonical text (`canon`).

The theorems are about `storeWith r` / `unlybWith c` for BOTH values of the two switches the translator reads off the source
(`Generated.binCanonReencoded`: the canonical value is the encoding of the octets — the repair of F418 — instead of the text that was read;
`Generated.binLybLengthChecked`: the `length` restriction is applied to LYB input — the repair of F420); the model that is compared with the
implementation is `store = storeWith Generated.binCanonReencoded`, `unlyb = unlybWith Generated.binLybLengthChecked`.  The `_fails` theorems are
stated for the pinned variant (`false`), the `_repaired` ones for the repaired variant (`true`).
-/
namespace LyModel.Props.C03Bin
open LyModel LyModel.Val LyModel.Val.Bin

/-- bytes of a literal -/
def b (s : String) : Bytes := s.toUTF8.toList

/-- hints of a data value -/
abbrev H := Generated.LYD_HINT_DATA

/-! ## the codec -/

/-- `b64_decode_encode`: decoding the encoder's output gives the octets back, for every octet string. -/
theorem b64_decode_encode (octets : Bytes) : decode (encode octets) = octets := decode_encode octets

example : encode [0x14, 0xfb, 0x9c, 0x03, 0xd9, 0x7e] = b "FPucA9l+" ∧ encode [0x14, 0xfb, 0x9c, 0x03, 0xd9] = b "FPucA9k=" ∧
    encode [0x14, 0xfb, 0x9c, 0x03] = b "FPucAw==" ∧ decode (b "FPucAw==") = [0x14, 0xfb, 0x9c, 0x03] := by decide +kernel

/-- `b64_encode_canonical`: the encoder's output is in the lexical space of RFC 4648 §4 with zero surplus bits (so: characters of the
    alphabet, `=` only as the padding of the last group, no line breaks), its length is `4 * ⌈n / 3⌉`, and it is the ONLY such text for
    the octets. -/
theorem b64_encode_canonical (octets : Bytes) :
    IsB64 (encode octets) octets 0 ∧ (encode octets).length = (octets.length + 2) / 3 * 4 ∧ (∀ c ∈ encode octets, isAlpha c = true ∨ c = PAD) ∧
      ∀ t, IsB64 t octets 0 → t = encode octets :=
  ⟨encode_isB64 octets, (isB64_length (encode_isB64 octets)).2, isB64_chars (encode_isB64 octets), fun _ h => eq_encode_of_isB64_zero h rfl⟩

example : IsB64 (b "QQ==") [0x41] 0 ∧ IsB64 (b "QR==") [0x41] 1 := by
  have e1 : b "QQ==" = encode [0x41] := by decide +kernel
  have e2 : b "QR==" = [eChar 16, eChar 17, PAD, PAD] := by decide +kernel
  rw [e1, e2]
  exact ⟨encode_isB64 [0x41], IsB64.final8 (x := 0x41) (k := 1) (by decide) (by decide) (by decide) (by decide)⟩

/-! ## acceptance -/

/-- `bin_accept_iff`: a lexical value `s` is stored as the value `v` ⇔ the hints allow a string-encoded value, AND — after the only white
    space the plug-in removes: the newlines of a value laid out in lines of exactly 64 bytes, looked for only when byte 64 is a newline —
    the text `t` is base64 of RFC 4648 §4 for the octets `v.data`: alphabet characters, length a multiple of four, `=` / `==` only as
    the padding of the last group; the surplus bits `k` of the last sextet are NOT required to be zero; AND the number of OCTETS is inside
    the `length` parts.  The canonical value is the text `t` that was read (pinned), the encoding of the octets (repaired). -/
theorem bin_accept_iff (r : Bool) (len : List (Int × Int)) (hints : Nat) (s : Bytes) (v : BVal) :
    storeWith r len hints s = .ok v ↔
      (checkHints hints "binary").isSome = true ∧ ∃ t, Unfold64 s t ∧ (∃ k, IsB64 t v.data k) ∧ v.canon = (if r then encode v.data else t) ∧
        validateRange (rangeIsUnsigned "binary") len (v.data.length : Nat) = true := by
  rw [storeWith_ok_iff]
  constructor
  · rintro ⟨h, t, hs, hv, hd, hc, hr⟩
    obtain ⟨o, k, hb⟩ := (validate_iff_isB64 _).mp hv
    have : o = v.data := by rw [hd, decode_of_isB64 hb]
    exact ⟨h, t, (stripNl_ok_iff s t).mp hs, ⟨k, this ▸ hb⟩, hc, hr⟩
  · rintro ⟨h, t, hs, ⟨k, hb⟩, hc, hr⟩
    exact ⟨h, t, (stripNl_ok_iff s t).mpr hs, validate_of_isB64 hb, (decode_of_isB64 hb).symm, hc, hr⟩

example : storeWith false [] H (b "QUJD") = .ok ⟨b "ABC", b "QUJD"⟩ ∧ storeWith true [] H [] = .ok ⟨[], []⟩ ∧ storeWith false [(2, 4)] H (b "QUI=") = .ok ⟨b "AB", b "QUI="⟩ ∧
    storeWith false [(2, 4)] H (b "QQ==") = .error .Length ∧ storeWith true [] H (b "QUJ") = .error .Len ∧ storeWith false [] H (b "QU J") = .error .Char ∧
    storeWith false [] H (b "Q===") = .error .Char ∧ storeWith true [] H (b "QUJD\n") = .error .Char ∧ storeWith false [] H (b "QU-_") = .error .Char ∧
    storeWith false [] 2 (b "QUJD") = .error .Hint := by
  decide +kernel
-- 48 octets = 64 characters: a newline after them is removed, also when a second line follows; a second line without the first newline is refused
example : storeWith false [] H (encode (List.replicate 48 0x41) ++ [NL]) = .ok ⟨List.replicate 48 0x41, encode (List.replicate 48 0x41)⟩ ∧
    storeWith false [] H (encode (List.replicate 48 0x41) ++ NL :: b "QUI=") = .ok ⟨List.replicate 48 0x41 ++ b "AB", encode (List.replicate 48 0x41) ++ b "QUI="⟩ ∧
    storeWith true [] H (encode (List.replicate 48 0x41) ++ NL :: encode (List.replicate 48 0x41) ++ b "QUI=") = .error .Newline ∧
    storeWith true [] H (b "QUI=\n") = .error .Char := by decide +kernel
-- the theorem used left to right
example : ∃ t k, IsB64 t (b "ABC") k := by
  obtain ⟨_, t, _, ⟨k, h⟩, _⟩ := (bin_accept_iff false [] H (b "QUJD") ⟨b "ABC", b "QUJD"⟩).mp (by decide +kernel)
  exact ⟨t, k, h⟩

/-- Full strength (RFC 4648 §3.5: "pad bits MUST be set to zero by conforming encoders"; a decoder "MAY" reject other values): the text of a
    stored value has zero surplus bits.  False, with and without the repair of the canonical value — `QR==` (sextets 16, 17: the octet 0x41 and
    the surplus bits 0001) is accepted. -/
theorem bin_accept_zero_pad_bits_fails (r : Bool) :
    ¬ ∀ (len : List (Int × Int)) (hints : Nat) (s : Bytes) (v : BVal), storeWith r len hints s = .ok v → ∃ t, Unfold64 s t ∧ IsB64 t v.data 0 := by
  intro h
  have hs : storeWith r [] H (b "QR==") = .ok ⟨[0x41], if r then b "QQ==" else b "QR=="⟩ := by cases r <;> decide +kernel
  obtain ⟨t, hu, hz⟩ := h [] H (b "QR==") _ hs
  have ht := unfold64_short (by decide +kernel) hu
  subst ht
  have e : b "QR==" = encode [0x41] := eq_encode_of_isB64_zero hz rfl
  exact absurd e (by decide +kernel)

/-! ## canonical form -/

/-- `bin_canonical`, full strength: the canonical value of a stored value is the base64 encoding of its octets.  False in the pinned tree — the
    plug-in keeps the text it read: `QR==` is stored with the canonical value `QR==`, the encoding of its octet is `QQ==` (F418). -/
theorem bin_canonical_fails :
    ¬ ∀ (len : List (Int × Int)) (hints : Nat) (s : Bytes) (v : BVal), storeWith false len hints s = .ok v → canon v = encode v.data := by
  intro h
  exact absurd (h [] H (b "QR==") ⟨[0x41], b "QR=="⟩ (by decide +kernel)) (by decide +kernel)

/-- `bin_canonical_repaired`: with the repair it holds for every stored value. -/
theorem bin_canonical_repaired (len : List (Int × Int)) (hints : Nat) (s : Bytes) (v : BVal) (h : storeWith true len hints s = .ok v) :
    canon v = encode v.data := by
  obtain ⟨_, t, _, _, _, hc, _⟩ := (storeWith_ok_iff true len hints s v).mp h
  exact hc

example : storeWith true [] H (b "QR==") = .ok ⟨[0x41], b "QQ=="⟩ := by decide +kernel

/-- …in both variants: it holds exactly for the values whose canonical text has zero surplus bits, and for every value stored from LYB (whose
    canonical value is generated by `binary_base64_encode`); in every case the canonical value has no line break and decodes to the octets. -/
theorem bin_canonical_partial (r : Bool) (len : List (Int × Int)) (hints : Nat) (s : Bytes) (v : BVal) (h : storeWith r len hints s = .ok v) :
    (canon v = encode v.data ↔ IsB64 v.canon v.data 0) ∧ decode (canon v) = v.data ∧ (∀ c ∈ canon v, c ≠ NL) ∧
      ∀ (c : Bool) (octets : Bytes) (w : BVal), unlybWith c len octets = .ok w → canon w = encode w.data := by
  obtain ⟨_, t, _, ⟨k, hb0⟩, hc, _⟩ := (bin_accept_iff r len hints s v).mp h
  have hb : ∃ k, IsB64 v.canon v.data k := by
    cases r
    · rw [hc]; exact ⟨k, hb0⟩
    · rw [hc]; exact ⟨0, encode_isB64 v.data⟩
  obtain ⟨k', hb⟩ := hb
  refine ⟨⟨fun e => ?_, fun z => eq_encode_of_isB64_zero z rfl⟩, decode_of_isB64 hb, fun c hc e => ?_, fun c o w hw => ?_⟩
  · have := encode_isB64 v.data
    unfold Bin.canon at e
    rw [← e] at this; exact this
  · subst e
    rcases isB64_chars hb _ hc with h1 | h1
    · rw [nl_not_alpha] at h1; cases h1
    · exact absurd h1 (by decide)
  · obtain ⟨rfl, _⟩ := (unlybWith_ok_iff c len o w).mp hw
    rfl

example : storeWith false [] H (b "QUI=") = .ok ⟨b "AB", b "QUI="⟩ ∧ canon ⟨b "AB", b "QUI="⟩ = encode (b "AB") ∧
    unlybWith false [] (b "AB") = .ok ⟨b "AB", b "QUI="⟩ := by decide +kernel

/-- `bin_canon_idempotent`: the canonical value of a stored value is stored as the same value (same octets, same canonical value), and so
    is the base64 encoding of its octets — with that encoding as its canonical value. -/
theorem bin_canon_idempotent (r : Bool) (len : List (Int × Int)) (hints : Nat) (s : Bytes) (v : BVal) (h : storeWith r len hints s = .ok v) :
    storeWith r len hints (canon v) = .ok v ∧ storeWith r len hints (encode v.data) = .ok ⟨v.data, encode v.data⟩ := by
  obtain ⟨hh, t, hs, hv, hd, hc, hr⟩ := (storeWith_ok_iff r len hints s v).mp h
  have he := validate_of_isB64 (encode_isB64 v.data)
  have h2 : storeWith r len hints (encode v.data) = .ok ⟨v.data, encode v.data⟩ :=
    (storeWith_ok_iff r len hints (encode v.data) ⟨v.data, encode v.data⟩).mpr
      ⟨hh, encode v.data, stripNl_of_validate he, he, (decode_encode v.data).symm, by cases r <;> rfl, hr⟩
  refine ⟨?_, h2⟩
  cases r
  · have hc' : v.canon = t := hc
    unfold Bin.canon
    rw [hc']
    exact (storeWith_ok_iff false len hints t v).mpr ⟨hh, t, stripNl_of_validate hv, hv, hd, hc, hr⟩
  · have hc' : v.canon = encode v.data := hc
    unfold Bin.canon
    rw [hc', h2]
    cases v with
    | mk d c => simp only at hc'; rw [hc']

example : storeWith false [] H (canon ⟨[0x41], b "QR=="⟩) = .ok ⟨[0x41], b "QR=="⟩ ∧ storeWith false [] H (encode [0x41]) = .ok ⟨[0x41], b "QQ=="⟩ := by decide +kernel

/-! ## equality -/

/-- `bin_eq_iff_canon_eq`, full strength: two stored values are equal (compare callback) ⇔ their canonical values are equal.  False in the
    pinned tree — `QQ==` and `QR==` are the same octet (compare callback: equal, sort callback: 0) with the canonical values `QQ==` and `QR==`;
    `lyd_compare_single`, which compares the texts, calls the two nodes different (F418). -/
theorem bin_eq_iff_canon_eq_fails :
    ¬ ∀ (len : List (Int × Int)) (h1 h2 : Nat) (s1 s2 : Bytes) (x y : BVal), storeWith false len h1 s1 = .ok x → storeWith false len h2 s2 = .ok y →
      (cmpEq x y = true ↔ canon x = canon y) := by
  intro h
  have := h [] H H (b "QQ==") (b "QR==") ⟨[0x41], b "QQ=="⟩ ⟨[0x41], b "QR=="⟩ (by decide +kernel) (by decide +kernel)
  exact absurd (this.mp (by decide +kernel)) (by decide +kernel)

/-- …true parts, in both variants: the compare callback is equality of the OCTETS; equal canonical values are equal values; and for two
    values whose canonical text has zero surplus bits (e.g. every value a conforming encoder wrote, with or without the 64-column line breaks)
    equality is equality of the canonical values. -/
theorem bin_eq_iff_canon_eq_partial (r : Bool) (len : List (Int × Int)) (h1 h2 : Nat) (s1 s2 : Bytes) (x y : BVal)
    (hx : storeWith r len h1 s1 = .ok x) (hy : storeWith r len h2 s2 = .ok y) :
    (cmpEq x y = true ↔ x.data = y.data) ∧ (canon x = canon y → cmpEq x y = true) ∧
      (IsB64 x.canon x.data 0 → IsB64 y.canon y.data 0 → (cmpEq x y = true ↔ canon x = canon y)) := by
  have dx := (bin_canonical_partial r len h1 s1 x hx).2.1
  have dy := (bin_canonical_partial r len h2 s2 y hy).2.1
  refine ⟨cmpEq_iff x y, fun e => (cmpEq_iff x y).mpr ?_, fun zx zy => ?_⟩
  · rw [← dx, ← dy, e]
  · rw [cmpEq_iff]
    unfold Bin.canon
    rw [eq_encode_of_isB64_zero zx rfl, eq_encode_of_isB64_zero zy rfl]
    constructor
    · intro e; rw [e]
    · intro e; rw [← decode_encode x.data, e, decode_encode]

/-- `bin_eq_iff_canon_eq_repaired`: with the repair, two stored values are equal ⇔ their canonical values are equal. -/
theorem bin_eq_iff_canon_eq_repaired (len : List (Int × Int)) (h1 h2 : Nat) (s1 s2 : Bytes) (x y : BVal)
    (hx : storeWith true len h1 s1 = .ok x) (hy : storeWith true len h2 s2 = .ok y) : cmpEq x y = true ↔ canon x = canon y := by
  have cx := bin_canonical_repaired len h1 s1 x hx
  have cy := bin_canonical_repaired len h2 s2 y hy
  exact (bin_eq_iff_canon_eq_partial true len h1 h2 s1 s2 x y hx hy).2.2
    (((bin_canonical_partial true len h1 s1 x hx).1).mp cx) (((bin_canonical_partial true len h2 s2 y hy).1).mp cy)

example : storeWith false [] H (b "QQ==") = .ok ⟨[0x41], b "QQ=="⟩ ∧ storeWith false [] H (b "QR==") = .ok ⟨[0x41], b "QR=="⟩ ∧
    cmpEq ⟨[0x41], b "QQ=="⟩ ⟨[0x41], b "QR=="⟩ = true ∧ nodeEq ⟨[0x41], b "QQ=="⟩ ⟨[0x41], b "QR=="⟩ = false ∧
    cmpEq ⟨[0x41], b "QQ=="⟩ ⟨[0x42], b "Qg=="⟩ = false ∧ storeWith true [] H (b "QR==") = storeWith true [] H (b "QQ==") := by decide +kernel

/-! ## order -/

/-- `bin_sort_total_order`: the sort callback is a total preorder — antisymmetric in sign, transitive, total — and it is the order by SIZE
    first, then by the octets (`memcmp`): a shorter value sorts before a longer one whatever the bytes are. -/
theorem bin_sort_total_order (x y z : BVal) :
    sort x y = -sort y x ∧ (sort x y ≤ 0 → sort y z ≤ 0 → sort x z ≤ 0) ∧ (sort x y ≤ 0 ∨ sort y x ≤ 0) ∧
      (x.data.length < y.data.length → sort x y = -1) ∧ (x.data.length = y.data.length → sort x y = memcmp x.data y.data) := by
  refine ⟨sort_antisymm x y, sort_trans x y z, sort_total x y, fun h => ?_, fun h => ?_⟩
  · unfold Bin.sort; rw [if_pos h]
  · unfold Bin.sort; rw [if_neg (by omega), if_neg (by omega)]

example : sort ⟨[0xff], b "/w=="⟩ ⟨[0, 0], b "AAA="⟩ = -1 ∧ sort ⟨[0, 1], b "AAE="⟩ ⟨[0, 0], b "AAA="⟩ = 1 ∧ memcmp [0xff] [0, 0] = 1 := by decide +kernel

/-- `bin_sort_consistent_with_eq`: the sort callback returns 0 exactly for the values the compare callback calls equal. -/
theorem bin_sort_consistent_with_eq (x y : BVal) : sort x y = 0 ↔ cmpEq x y = true := by
  rw [sort_zero_iff, cmpEq_iff]

example : sort ⟨[0x41], b "QQ=="⟩ ⟨[0x41], b "QR=="⟩ = 0 ∧ sort ⟨[0x41], b "QQ=="⟩ ⟨[0x42], b "Qg=="⟩ = -1 := by decide +kernel

/-! ## LYB -/

/-- `bin_lyb_roundtrip` (all four variants): the LYB form of a stored value is its octet string; storing it from LYB gives a value with the
    same octets — an equal value — whose canonical value is the base64 encoding of the octets (so it is the SAME value exactly when the
    canonical text of the original had zero surplus bits: always, with the repair of F418), and whose octet count satisfies the `length`
    restriction. -/
theorem bin_lyb_roundtrip (r c : Bool) (len : List (Int × Int)) (hints : Nat) (s : Bytes) (v : BVal) (h : storeWith r len hints s = .ok v) :
    lyb v = v.data ∧ unlybWith c len (lyb v) = .ok ⟨v.data, encode v.data⟩ ∧ cmpEq v ⟨v.data, encode v.data⟩ = true ∧
      (unlybWith c len (lyb v) = .ok v ↔ IsB64 v.canon v.data 0) ∧ validateRange (rangeIsUnsigned "binary") len (v.data.length : Nat) = true := by
  have hr := ((storeWith_ok_iff r len hints s v).mp h).2.choose_spec.2.2.2.2
  have hu : unlybWith c len (lyb v) = .ok ⟨v.data, encode v.data⟩ := (unlybWith_ok_iff c len v.data _).mpr ⟨rfl, Or.inr hr⟩
  refine ⟨rfl, hu, (cmpEq_iff _ _).mpr rfl, ?_, hr⟩
  rw [← (bin_canonical_partial r len hints s v h).1, hu]
  unfold Bin.canon
  cases v with
  | mk d c =>
    simp only [Except.ok.injEq, BVal.mk.injEq, true_and]
    exact eq_comm

example : unlybWith false [] (lyb ⟨[0x41], b "QR=="⟩) = .ok ⟨[0x41], b "QQ=="⟩ ∧ unlybWith true [] (lyb ⟨[0x41], b "QQ=="⟩) = .ok ⟨[0x41], b "QQ=="⟩ := by
  decide +kernel

/-- Full strength: a value stored from LYB satisfies the `length` restriction of its type.  False in the pinned tree — the LYB branch of the
    store callback returns before the restriction is looked at: 8 octets are a value of `type binary { length "2..4"; }` (F420). -/
theorem bin_lyb_length_checked_fails :
    ¬ ∀ (len : List (Int × Int)) (octets : Bytes) (v : BVal), unlybWith false len octets = .ok v →
      validateRange (rangeIsUnsigned "binary") len (v.data.length : Nat) = true := by
  intro h
  exact absurd (h [(2, 4)] (b "ABCDEFGH") ⟨b "ABCDEFGH", encode (b "ABCDEFGH")⟩ rfl) (by decide +kernel)

/-- `bin_lyb_length_checked_repaired`: with the repair an octet string is a LYB value ⇔ its size is inside the `length` parts. -/
theorem bin_lyb_length_checked_repaired (len : List (Int × Int)) (octets : Bytes) (v : BVal) :
    unlybWith true len octets = .ok v ↔ v = ⟨octets, encode octets⟩ ∧ validateRange (rangeIsUnsigned "binary") len (octets.length : Nat) = true := by
  rw [unlybWith_ok_iff]
  simp

example : unlybWith true [(2, 4)] (b "ABCDEFGH") = .error .Length ∧ unlybWith true [(2, 4)] (b "ABC") = .ok ⟨b "ABC", b "QUJD"⟩ := by decide +kernel

/-- …what holds in the pinned tree: every octet string is a LYB value, with its base64 encoding as the canonical value; and (both variants of
    the text side) that canonical value is accepted as text exactly when the size is inside the `length` parts. -/
theorem bin_lyb_length_checked_partial (r : Bool) (len : List (Int × Int)) (hints : Nat) (octets : Bytes) (hh : (checkHints hints "binary").isSome = true) :
    unlybWith false len octets = .ok ⟨octets, encode octets⟩ ∧
      (storeWith r len hints (encode octets) = .ok ⟨octets, encode octets⟩ ↔ validateRange (rangeIsUnsigned "binary") len (octets.length : Nat) = true) := by
  refine ⟨rfl, ?_⟩
  have he := validate_of_isB64 (encode_isB64 octets)
  rw [storeWith_ok_iff]
  constructor
  · rintro ⟨_, t, _, _, _, _, h⟩; exact h
  · intro h; exact ⟨hh, encode octets, stripNl_of_validate he, he, (decode_encode octets).symm, by cases r <;> rfl, h⟩

example : (checkHints H "binary").isSome = true ∧ storeWith false [(2, 4)] H (encode (b "ABCDEFGH")) = .error .Length ∧
    storeWith true [(2, 4)] H (encode (b "ABCD")) = .ok ⟨b "ABCD", b "QUJDRA=="⟩ := by decide +kernel

/-! ## the model that is compared with the implementation -/

/-- `bin_model_is_variant`: the store functions of the driver are the variants the switches of the translator select. -/
theorem bin_model_is_variant (len : List (Int × Int)) (hints : Nat) (s : Bytes) :
    store len hints s = storeWith Generated.binCanonReencoded len hints s ∧ unlyb len s = unlybWith Generated.binLybLengthChecked len s := ⟨rfl, rfl⟩

end LyModel.Props.C03Bin
