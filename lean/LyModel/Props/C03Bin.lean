import LyModel.Val.LemmasBin
/-!
# C03 — the built-in type `binary` (RFC 7950 §9.8; base64 of RFC 4648 §4)

Model: `Val/Binary.lean` — `lyplg_type_store_binary`, `_compare_`, `_sort_`, `_print_`, `_dup_binary` of `plugins_types/binary.c` with its
`binary_base64_validate` / `_newlines` / `_decode` / `_encode`; the two tables are generated from the source (`Generated/ValBin.lean`); compared
with the implementation on every run (`tools/checks/valbin.py`).

The specification side (`Val/LemmasBin.lean`): `IsB64 t o k` — the text `t` is base64 of the octets `o` per RFC 4648 §4 (24-bit groups = three
octets = four sextets, characters of Table 1, final group of 16 / 8 bits padded with `=` / `==`), `k` the value of the surplus bits of the last
sextet; the canonical text has `k = 0`.  `Lines64 s t` — `s` is `t` in lines of exactly 64 bytes, each followed by `\n`, the last one (≤ 64
bytes) not; `Unfold64 s t` — what `binary_base64_newlines` makes of a value: `t = s` unless byte 64 of `s` is a newline, then `Lines64 s t`.

A value is the pair of its octets (`data`) and its canonical text (`canon`).
-/
namespace LyModel.Props.C03Bin
open LyModel LyModel.Val LyModel.Val.Bin

/-- bytes of a literal -/
def b (s : String) : Bytes := s.toUTF8.toList

/-- hints of a data value -/
abbrev H := Generated.LYD_HINT_DATA

/-! ## the codec -/

/-- `b64_decode_encode`: decoding the encoder's output gives the octets back, for every octet string. -/
theorem b64_decode_encode (octets : Bytes) : decode (encode octets) = octets := decode_encode octets

example : encode [0x14, 0xfb, 0x9c, 0x03, 0xd9, 0x7e] = b "FPucA9l+" ∧ encode [0x14, 0xfb, 0x9c, 0x03, 0xd9] = b "FPucA9k=" ∧
    encode [0x14, 0xfb, 0x9c, 0x03] = b "FPucAw==" ∧ decode (b "FPucAw==") = [0x14, 0xfb, 0x9c, 0x03] := by decide +kernel

/-- `b64_encode_canonical`: the encoder's output is in the lexical space of RFC 4648 §4 with zero surplus bits (so: characters of the
    alphabet, `=` only as the padding of the last group, no line breaks), its length is `4 * ⌈n / 3⌉`, and it is the ONLY such text for
    the octets. -/
theorem b64_encode_canonical (octets : Bytes) :
    IsB64 (encode octets) octets 0 ∧ (encode octets).length = (octets.length + 2) / 3 * 4 ∧ (∀ c ∈ encode octets, isAlpha c = true ∨ c = PAD) ∧
      ∀ t, IsB64 t octets 0 → t = encode octets :=
  ⟨encode_isB64 octets, (isB64_length (encode_isB64 octets)).2, isB64_chars (encode_isB64 octets), fun _ h => eq_encode_of_isB64_zero h rfl⟩

example : IsB64 (b "QQ==") [0x41] 0 ∧ IsB64 (b "QR==") [0x41] 1 := by
  have e1 : b "QQ==" = encode [0x41] := by decide +kernel
  have e2 : b "QR==" = [eChar 16, eChar 17, PAD, PAD] := by decide +kernel
  rw [e1, e2]
  exact ⟨encode_isB64 [0x41], IsB64.final8 (x := 0x41) (k := 1) (by decide) (by decide) (by decide) (by decide)⟩

/-! ## acceptance -/

/-- `bin_accept_iff`: a lexical value `s` is stored as the value `v` ⇔ the hints allow a string-encoded value, AND — after the only white
    space the plug-in removes: the newlines of a value laid out in lines of exactly 64 bytes, looked for only when byte 64 is a newline —
    the text `v.canon` is base64 of RFC 4648 §4 for the octets `v.data`: alphabet characters, length a multiple of four, `=` / `==` only as
    the padding of the last group; the surplus bits `k` of the last sextet are NOT required to be zero; AND the number of OCTETS is inside
    the `length` parts.  The text that was read, not its re-encoding, becomes the canonical value. -/
theorem bin_accept_iff (len : List (Int × Int)) (hints : Nat) (s : Bytes) (v : BVal) :
    store len hints s = .ok v ↔
      (checkHints hints "binary").isSome = true ∧ Unfold64 s v.canon ∧ (∃ k, IsB64 v.canon v.data k) ∧
        validateRange (rangeIsUnsigned "binary") len (v.data.length : Nat) = true := by
  rw [store_ok_iff, stripNl_ok_iff]
  constructor
  · rintro ⟨h, hs, hv, hd, hr⟩
    obtain ⟨o, k, hb⟩ := (validate_iff_isB64 _).mp hv
    have : o = v.data := by rw [hd, decode_of_isB64 hb]
    exact ⟨h, hs, ⟨k, this ▸ hb⟩, hr⟩
  · rintro ⟨h, hs, ⟨k, hb⟩, hr⟩
    exact ⟨h, hs, validate_of_isB64 hb, (decode_of_isB64 hb).symm, hr⟩

example : store [] H (b "QUJD") = .ok ⟨b "ABC", b "QUJD"⟩ ∧ store [] H [] = .ok ⟨[], []⟩ ∧ store [(2, 4)] H (b "QUI=") = .ok ⟨b "AB", b "QUI="⟩ ∧
    store [(2, 4)] H (b "QQ==") = .error .Length ∧ store [] H (b "QUJ") = .error .Len ∧ store [] H (b "QU J") = .error .Char ∧
    store [] H (b "Q===") = .error .Char ∧ store [] H (b "QUJD\n") = .error .Char ∧ store [] H (b "QU-_") = .error .Char ∧ store [] 2 (b "QUJD") = .error .Hint := by
  decide +kernel
-- 48 octets = 64 characters: a newline after them is removed, also when a second line follows; a second line without the first newline is refused
example : store [] H (encode (List.replicate 48 0x41) ++ [NL]) = .ok ⟨List.replicate 48 0x41, encode (List.replicate 48 0x41)⟩ ∧
    store [] H (encode (List.replicate 48 0x41) ++ NL :: b "QUI=") = .ok ⟨List.replicate 48 0x41 ++ b "AB", encode (List.replicate 48 0x41) ++ b "QUI="⟩ ∧
    store [] H (encode (List.replicate 48 0x41) ++ NL :: encode (List.replicate 48 0x41) ++ b "QUI=") = .error .Newline ∧
    store [] H (b "QUI=\n") = .error .Char := by decide +kernel
-- the theorem used left to right
example : ∃ k, IsB64 (b "QUJD") (b "ABC") k := ((bin_accept_iff [] H (b "QUJD") ⟨b "ABC", b "QUJD"⟩).mp (by decide +kernel)).2.2.1

/-- Full strength (RFC 4648 §3.5: "pad bits MUST be set to zero by conforming encoders"; a decoder "MAY" reject other values): a stored
    text has zero surplus bits.  False — `QR==` (sextets 16, 17: the octet 0x41 and the surplus bits 0001) is accepted. -/
theorem bin_accept_zero_pad_bits_fails :
    ¬ ∀ (len : List (Int × Int)) (hints : Nat) (s : Bytes) (v : BVal), store len hints s = .ok v → IsB64 v.canon v.data 0 := by
  intro h
  have h1 := h [] H (b "QR==") ⟨[0x41], b "QR=="⟩ (by decide +kernel)
  have := eq_encode_of_isB64_zero h1 rfl
  exact absurd this (by decide +kernel)

/-! ## canonical form -/

/-- `bin_canonical`, full strength: the canonical value of a stored value is the base64 encoding of its octets.  False — the plug-in keeps
    the text it read: `QR==` is stored with the canonical value `QR==`, the encoding of its octet is `QQ==`. -/
theorem bin_canonical_fails :
    ¬ ∀ (len : List (Int × Int)) (hints : Nat) (s : Bytes) (v : BVal), store len hints s = .ok v → canon v = encode v.data := by
  intro h
  exact absurd (h [] H (b "QR==") ⟨[0x41], b "QR=="⟩ (by decide +kernel)) (by decide +kernel)

/-- …true exactly for the values whose text has zero surplus bits, and for every value stored from LYB (whose canonical value is
    generated by `binary_base64_encode`); in every case the canonical value has no line break and decodes to the octets. -/
theorem bin_canonical_partial (len : List (Int × Int)) (hints : Nat) (s : Bytes) (v : BVal) (h : store len hints s = .ok v) :
    (canon v = encode v.data ↔ IsB64 v.canon v.data 0) ∧ decode (canon v) = v.data ∧ (∀ c ∈ canon v, c ≠ NL) ∧
      ∀ (octets : Bytes) (w : BVal), unlyb len octets = .ok w → canon w = encode w.data := by
  obtain ⟨_, _, ⟨k, hb⟩, _⟩ := (bin_accept_iff len hints s v).mp h
  refine ⟨⟨fun e => ?_, fun z => eq_encode_of_isB64_zero z rfl⟩, decode_of_isB64 hb, fun c hc e => ?_, fun o w hw => ?_⟩
  · have := encode_isB64 v.data
    unfold Bin.canon at e
    rw [← e] at this; exact this
  · subst e
    rcases isB64_chars hb _ hc with h1 | h1
    · rw [nl_not_alpha] at h1; cases h1
    · exact absurd h1 (by decide)
  · unfold Bin.unlyb at hw
    cases hw; rfl

example : store [] H (b "QUI=") = .ok ⟨b "AB", b "QUI="⟩ ∧ canon ⟨b "AB", b "QUI="⟩ = encode (b "AB") ∧
    unlyb [] (b "AB") = .ok ⟨b "AB", b "QUI="⟩ := by decide +kernel

/-- `bin_canon_idempotent`: the canonical value of a stored value is stored as the same value (same octets, same canonical value), and so
    is the base64 encoding of its octets — with that encoding as its canonical value. -/
theorem bin_canon_idempotent (len : List (Int × Int)) (hints : Nat) (s : Bytes) (v : BVal) (h : store len hints s = .ok v) :
    store len hints (canon v) = .ok v ∧ store len hints (encode v.data) = .ok ⟨v.data, encode v.data⟩ := by
  obtain ⟨hh, hs, hv, hd, hr⟩ := (store_ok_iff len hints s v).mp h
  constructor
  · exact (store_ok_iff len hints v.canon v).mpr ⟨hh, stripNl_of_validate hv, hv, hd, hr⟩
  · have he := validate_of_isB64 (encode_isB64 v.data)
    exact (store_ok_iff len hints (encode v.data) ⟨v.data, encode v.data⟩).mpr ⟨hh, stripNl_of_validate he, he, (decode_encode v.data).symm, hr⟩

example : store [] H (canon ⟨[0x41], b "QR=="⟩) = .ok ⟨[0x41], b "QR=="⟩ ∧ store [] H (encode [0x41]) = .ok ⟨[0x41], b "QQ=="⟩ := by decide +kernel

/-! ## equality -/

/-- `bin_eq_iff_canon_eq`, full strength: two stored values are equal (compare callback) ⇔ their canonical values are equal.  False — `QQ==`
    and `QR==` are the same octet (compare callback: equal, sort callback: 0) with the canonical values `QQ==` and `QR==`;
    `lyd_compare_single`, which compares the texts, calls the two nodes different. -/
theorem bin_eq_iff_canon_eq_fails :
    ¬ ∀ (len : List (Int × Int)) (h1 h2 : Nat) (s1 s2 : Bytes) (x y : BVal), store len h1 s1 = .ok x → store len h2 s2 = .ok y →
      (cmpEq x y = true ↔ canon x = canon y) := by
  intro h
  have := h [] H H (b "QQ==") (b "QR==") ⟨[0x41], b "QQ=="⟩ ⟨[0x41], b "QR=="⟩ (by decide +kernel) (by decide +kernel)
  exact absurd (this.mp (by decide +kernel)) (by decide +kernel)

/-- …true parts: the compare callback is equality of the OCTETS; equal canonical values are equal values; and for two values with zero
    surplus bits (e.g. every value a conforming encoder wrote, with or without the 64-column line breaks) equality is equality of the
    canonical values. -/
theorem bin_eq_iff_canon_eq_partial (len : List (Int × Int)) (h1 h2 : Nat) (s1 s2 : Bytes) (x y : BVal) (hx : store len h1 s1 = .ok x)
    (hy : store len h2 s2 = .ok y) :
    (cmpEq x y = true ↔ x.data = y.data) ∧ (canon x = canon y → cmpEq x y = true) ∧
      (IsB64 x.canon x.data 0 → IsB64 y.canon y.data 0 → (cmpEq x y = true ↔ canon x = canon y)) := by
  have dx := ((store_ok_iff len h1 s1 x).mp hx).2.2.2.1
  have dy := ((store_ok_iff len h2 s2 y).mp hy).2.2.2.1
  refine ⟨cmpEq_iff x y, fun e => (cmpEq_iff x y).mpr ?_, fun zx zy => ?_⟩
  · unfold Bin.canon at e
    rw [dx, dy, e]
  · rw [cmpEq_iff]
    unfold Bin.canon
    rw [eq_encode_of_isB64_zero zx rfl, eq_encode_of_isB64_zero zy rfl]
    constructor
    · intro e; rw [e]
    · intro e; rw [← decode_encode x.data, e, decode_encode]

example : store [] H (b "QQ==") = .ok ⟨[0x41], b "QQ=="⟩ ∧ store [] H (b "QR==") = .ok ⟨[0x41], b "QR=="⟩ ∧
    cmpEq ⟨[0x41], b "QQ=="⟩ ⟨[0x41], b "QR=="⟩ = true ∧ nodeEq ⟨[0x41], b "QQ=="⟩ ⟨[0x41], b "QR=="⟩ = false ∧
    cmpEq ⟨[0x41], b "QQ=="⟩ ⟨[0x42], b "Qg=="⟩ = false := by decide +kernel

/-! ## order -/

/-- `bin_sort_total_order`: the sort callback is a total preorder — antisymmetric in sign, transitive, total — and it is the order by SIZE
    first, then by the octets (`memcmp`): a shorter value sorts before a longer one whatever the bytes are. -/
theorem bin_sort_total_order (x y z : BVal) :
    sort x y = -sort y x ∧ (sort x y ≤ 0 → sort y z ≤ 0 → sort x z ≤ 0) ∧ (sort x y ≤ 0 ∨ sort y x ≤ 0) ∧
      (x.data.length < y.data.length → sort x y = -1) ∧ (x.data.length = y.data.length → sort x y = memcmp x.data y.data) := by
  refine ⟨sort_antisymm x y, sort_trans x y z, sort_total x y, fun h => ?_, fun h => ?_⟩
  · unfold Bin.sort; rw [if_pos h]
  · unfold Bin.sort; rw [if_neg (by omega), if_neg (by omega)]

example : sort ⟨[0xff], b "/w=="⟩ ⟨[0, 0], b "AAA="⟩ = -1 ∧ sort ⟨[0, 1], b "AAE="⟩ ⟨[0, 0], b "AAA="⟩ = 1 ∧ memcmp [0xff] [0, 0] = 1 := by decide +kernel

/-- `bin_sort_consistent_with_eq`: the sort callback returns 0 exactly for the values the compare callback calls equal. -/
theorem bin_sort_consistent_with_eq (x y : BVal) : sort x y = 0 ↔ cmpEq x y = true := by
  rw [sort_zero_iff, cmpEq_iff]

example : sort ⟨[0x41], b "QQ=="⟩ ⟨[0x41], b "QR=="⟩ = 0 ∧ sort ⟨[0x41], b "QQ=="⟩ ⟨[0x42], b "Qg=="⟩ = -1 := by decide +kernel

/-! ## LYB -/

/-- `bin_lyb_roundtrip`: the LYB form of a stored value is its octet string; storing it from LYB gives a value with the same octets — an
    equal value — whose canonical value is the base64 encoding of the octets (so it is the SAME value exactly when the original had zero
    surplus bits), and whose octet count satisfies the `length` restriction. -/
theorem bin_lyb_roundtrip (len : List (Int × Int)) (hints : Nat) (s : Bytes) (v : BVal) (h : store len hints s = .ok v) :
    lyb v = v.data ∧ unlyb len (lyb v) = .ok ⟨v.data, encode v.data⟩ ∧ cmpEq v ⟨v.data, encode v.data⟩ = true ∧
      (unlyb len (lyb v) = .ok v ↔ IsB64 v.canon v.data 0) ∧ validateRange (rangeIsUnsigned "binary") len (v.data.length : Nat) = true := by
  refine ⟨rfl, rfl, (cmpEq_iff _ _).mpr rfl, ?_, ((store_ok_iff len hints s v).mp h).2.2.2.2⟩
  rw [← (bin_canonical_partial len hints s v h).1]
  unfold Bin.unlyb Bin.lyb Bin.canon
  cases v with
  | mk d c =>
    simp only [Except.ok.injEq, BVal.mk.injEq, true_and]
    exact eq_comm

example : unlyb [] (lyb ⟨[0x41], b "QR=="⟩) = .ok ⟨[0x41], b "QQ=="⟩ ∧ unlyb [] (lyb ⟨[0x41], b "QQ=="⟩) = .ok ⟨[0x41], b "QQ=="⟩ := by decide +kernel

/-- Full strength: a value stored from LYB satisfies the `length` restriction of its type.  False — the LYB branch of the store callback
    returns before the restriction is looked at: 8 octets are a value of `type binary { length "2..4"; }`. -/
theorem bin_lyb_length_checked_fails :
    ¬ ∀ (len : List (Int × Int)) (octets : Bytes) (v : BVal), unlyb len octets = .ok v →
      validateRange (rangeIsUnsigned "binary") len (v.data.length : Nat) = true := by
  intro h
  exact absurd (h [(2, 4)] (b "ABCDEFGH") ⟨b "ABCDEFGH", encode (b "ABCDEFGH")⟩ rfl) (by decide +kernel)

/-- …what does hold: every octet string is a LYB value, with its base64 encoding as the canonical value; and that canonical value is
    accepted as text exactly when the size is inside the `length` parts. -/
theorem bin_lyb_length_checked_partial (len : List (Int × Int)) (hints : Nat) (octets : Bytes) (hh : (checkHints hints "binary").isSome = true) :
    unlyb len octets = .ok ⟨octets, encode octets⟩ ∧
      (store len hints (encode octets) = .ok ⟨octets, encode octets⟩ ↔ validateRange (rangeIsUnsigned "binary") len (octets.length : Nat) = true) := by
  refine ⟨rfl, ?_⟩
  have he := validate_of_isB64 (encode_isB64 octets)
  rw [store_ok_iff]
  constructor
  · intro h; exact h.2.2.2.2
  · intro h; exact ⟨hh, stripNl_of_validate he, he, (decode_encode octets).symm, h⟩

example : (checkHints H "binary").isSome = true ∧ store [(2, 4)] H (encode (b "ABCDEFGH")) = .error .Length ∧
    store [(2, 4)] H (encode (b "ABCD")) = .ok ⟨b "ABCD", b "QUJDRA=="⟩ := by decide +kernel

end LyModel.Props.C03Bin
