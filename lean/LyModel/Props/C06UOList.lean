import LyModel.Diff.UOBridgeKLDec
import LyModel.Diff.UOBridgeMKDec
/-!
# C06 — user-ordered keyed LISTS inside the tree model: apply(A, diff(A, B)) = B   (Stage 2a)

Property theorems (statements only; lemmas in `LyModel/Diff/UOBridgeKL*.lean`), about the executable model `lydrv` runs against
libyang: `diffFull` / `diffFromPtr` (`lyd_diff_siblings`) and `apply` (`lyd_diff_apply_all`).

The sibling lists are the instances of ONE user-ordered list with a single key (configuration or state), the instances having
no children but the key (`klForest s keys`).  The moves are encoded as diff.c does: `yang:key` = the key predicate
`[k='v']` of the instance placed before (`lyd_path_list_predicate`), parsed back by `lyd_create_list2` in `lyd_diff_insert` —
which needs key values without BOTH quote characters (`QOk`; hypothesis, decidable).
* `diff_userord_flat_kl_sim` — the diff = the encodings of `UOG.diffU` on the key values; `*diff` = first sibling.
* `apply_userord_flat_kl_sim` — apply with such encodings = `UOG.applyU` on the key values.
* `apply_diff_userord_flat_kl`, `apply_diff_userord_flat_kl_dec` — hence apply(A, diff(A, B)) = B up to `LYD_NEW`.
OPEN (not proved here): several keys; instances with non-key content, changed by the same diff (`addExisting` / `reuseNode` /
`moveToGroupEnd`); other schema nodes among the siblings; nesting.
-/
namespace LyModel.Props.C06UO
open LyModel LyModel.Tree LyModel.Diff LyModel.Diff.UOB LyModel.Diff.UOB.KL

/-- `s` is a user-ordered list of `S` whose only key is the leaf `s + 1` (its first child in the schema table) -/
def IsUserOrdKeyList (S : Schema) (s : Nat) : Prop :=
  S.kind? s = some .list ∧ S.isUserOrd s = true ∧ S.nkeys s = 1 ∧ S.isKey (s + 1) = true ∧
    S.kind? (s + 1) = some .leaf ∧ 61 ∉ bs (S.name (s + 1))      -- no `=` in the key's name (a YANG identifier)

theorem IsUserOrdKeyList.ctx {S : Schema} {s : Nat} (h : IsUserOrdKeyList S s) : KLCtx S s := by
  obtain ⟨h1, h2, h3, h4, h5, h6⟩ := h
  refine ⟨h1, h2, h3, h4, ?_, ?_, h6⟩
  · unfold Schema.kind? at h5
    unfold Schema.isUserOrd
    cases hg : S.get? (s + 1) with
    | none => rfl
    | some n =>
      simp only [hg, Option.map_some, Option.some.injEq] at h5
      simp [h5]
  · unfold Schema.kind? at h1
    unfold Schema.nkeys at h3
    unfold Schema.isDupInst
    cases hg : S.get? s with
    | none => rfl
    | some n =>
      simp only [hg, Option.map_some, Option.some.injEq] at h1 h3
      simp [h1, h3]

/-- **Simulation, diff side.**  `A`, `B` = the key-only instances with keys `va`, `vb` of one single-key user-ordered list
(`klForest`), keys duplicate-free, the keys of `B` quotable.  `lyd_diff_siblings(A, B, LYD_DIFF_DEFAULTS)` returns its first
sibling and the diff consists, node for node, of the encodings (`KL.IsOpNode`: `delNode` / `createNode` / `moveNode` with
`yang:key` = the predicate of the anchor) of the operations the core generates for the key lists. -/
theorem diff_userord_flat_kl_sim (S : Schema) (fx : Fixes) (s : Nat) (hs : IsUserOrdKeyList S s) (va vb : List Bytes)
    (nda : va.Nodup) (ndb : vb.Nodup) (hq : ∀ z ∈ vb, QOk z) :
    ∃ nodes, diffFull S true (klForest s va) (klForest s vb) fx = (nodes, 0) ∧ KL.OpNodes S s nodes (UOG.diffU va vb) :=
  diffFull_kl hs.ctx fx va vb nda ndb hq

/-- **Simulation, apply side.**  Data siblings holding exactly the instances with keys `l` (`DataKL`; `LYD_NEW` may be set) and
diff nodes encoding the core operations `ops`: `lyd_diff_apply_all` succeeds exactly as `UOG.applyU` does, with the same
resulting keys — the anchors are found through `parsePreds (keyPredicate …)`. -/
theorem apply_userord_flat_kl_sim (S : Schema) (fx : Fixes) (s : Nat) (hs : IsUserOrdKeyList S s) (nodes : List DNode)
    (ops : List (UOG.UOp Bytes)) (hops : KL.OpNodes S s nodes ops) (sibs : List DNode) (l l' : List Bytes)
    (hd : DataKL s sibs l) (hap : UOG.applyU l ops = some l') :
    ∃ sibs', apply S sibs nodes fx = .ok sibs' ∧ DataKL s sibs' l' :=
  KL.apply_ops hs.ctx fx (heightL nodes) hops sibs l l' hd hap

/-- **apply_diff_userord_flat_kl.**  For one single-key user-ordered list at the top level, key-only instances, all
duplicate-free key lists `va`, `vb` (any lengths; the keys of `vb` without both quote characters), any combination of the
repaired findings: `lyd_diff_apply_all(A, lyd_diff_siblings(A, B, LYD_DIFF_DEFAULTS))` succeeds and yields `B` up to `LYD_NEW`. -/
theorem apply_diff_userord_flat_kl (S : Schema) (fx : Fixes) (s : Nat) (hs : IsUserOrdKeyList S s) (va vb : List Bytes)
    (nda : va.Nodup) (ndb : vb.Nodup) (hq : ∀ z ∈ vb, QOk z) :
    ∃ B', apply S (klForest s va) (diffFromPtr S true (klForest s va) (klForest s vb) fx) fx = .ok B' ∧
      normL S B' = normL S (klForest s vb) := by
  obtain ⟨nodes, hd, hops⟩ := diff_userord_flat_kl_sim S fx s hs va vb nda ndb hq
  obtain ⟨B', h1, h2⟩ := apply_userord_flat_kl_sim S fx s hs nodes _ hops (klForest s va) va vb (dataKL_klForest s va)
    (UOG.userord_apply_diff va vb nda ndb)
  refine ⟨B', ?_, ?_⟩
  · simp only [diffFromPtr, hd, List.drop_zero]; exact h1
  · rw [normL_dataKL hs.ctx B' vb h2, normL_dataKL hs.ctx _ vb (dataKL_klForest s vb)]

/-- **The same, from the decidable hypothesis the check evaluates per generated case** (`flatKL`, driver op `uohyp`). -/
theorem apply_diff_userord_flat_kl_dec (S : Schema) (fx : Fixes) (A B : List DNode) (s : Nat) (h : flatKL S A B = some s) :
    ∃ B', apply S A (diffFromPtr S true A B fx) fx = .ok B' ∧ normL S B' = normL S B := by
  obtain ⟨hs, hA, hB, nda, ndb, hq⟩ := flatKL_spec h
  rw [hA, hB]
  exact apply_diff_userord_flat_kl S fx s hs _ _ nda ndb hq

/-! ## non-vacuity -/

/-- `list ul { key k; ordered-by user; leaf k { type string; } }` -/
def exK : Schema :=
  { modName := "uo2", nodes := [{ depth := 0, kind := .list, name := "ul", nkeys := 1, userord := true },
                                { depth := 1, kind := .leaf, name := "k", iskey := true }] }

theorem exK_ok : IsUserOrdKeyList exK 0 := ⟨by decide, by decide, by decide, by decide, by decide, by decide +kernel⟩

-- a rotation with a delete and a create: `[a b c d] → [d a e' b]` (one key with a quote)
example : ∃ B', apply exK (klForest 0 [[97], [98], [99], [100]])
      (diffFromPtr exK true (klForest 0 [[97], [98], [99], [100]]) (klForest 0 [[100], [97], [101, 39], [98]])) = .ok B' ∧
    normL exK B' = normL exK (klForest 0 [[100], [97], [101, 39], [98]]) :=
  apply_diff_userord_flat_kl exK {} 0 exK_ok _ _ (by decide) (by decide) (by intro z hz; unfold QOk; revert z; decide)

-- the diff of that example: delete c, move d to the front, create e' (behind `[k='a']`)
example : (diff exK true (klForest 0 [[97], [98], [99], [100]]) (klForest 0 [[100], [97], [101, 39], [98]])).map
      (fun n => (keyOf n, (n.metas.map (·.2)).head?)) =
    [([99], some Op.delete.bytes), ([100], some Op.replace.bytes), ([101, 39], some Op.create.bytes)] := by
  decide +kernel
example : pred exK 0 [101, 39] = bs "[k=\"e'\"]" := by decide +kernel

example : flatKL exK (klForest 0 [[97], [98], [99], [100]]) (klForest 0 [[100], [97], [101, 39], [98]]) = some 0 := by
  decide +kernel


/-! ## several keys -/
section MultiKey
open LyModel.Diff.UOB.MK

/-- `s` is a user-ordered list of `S` with `nk ≥ 1` keys, the leaves `s+1 … s+nk` (its first children in the schema table), no
`=` in their names (YANG identifiers) -/
def IsUserOrdMultiKeyList (S : Schema) (s nk : Nat) : Prop :=
  S.kind? s = some .list ∧ S.isUserOrd s = true ∧ S.nkeys s = nk ∧ 0 < nk ∧
    ∀ i, i < nk → S.isKey (s + 1 + i) = true ∧ S.kind? (s + 1 + i) = some .leaf ∧ 61 ∉ bs (S.name (s + 1 + i))

theorem IsUserOrdMultiKeyList.ctx {S : Schema} {s nk : Nat} (h : IsUserOrdMultiKeyList S s nk) : MKCtx S s nk := by
  obtain ⟨h1, h2, h3, h4, h5⟩ := h
  refine ⟨h1, h2, h3, h4, fun i hi => (h5 i hi).1, ?_, ?_, fun i hi => (h5 i hi).2.2⟩
  · intro i hi
    have h6 := (h5 i hi).2.1
    unfold Schema.kind? at h6
    unfold Schema.isUserOrd
    cases hg : S.get? (s + 1 + i) with
    | none => rfl
    | some n =>
      simp only [hg, Option.map_some, Option.some.injEq] at h6
      simp [h6]
  · unfold Schema.kind? at h1
    unfold Schema.nkeys at h3
    unfold Schema.isDupInst
    cases hg : S.get? s with
    | none => rfl
    | some n =>
      simp only [hg, Option.map_some, Option.some.injEq] at h1 h3
      have : n.nkeys ≠ 0 := by omega
      simp [h1, this]

/-- **The key-predicate round trip, any number of keys.**  For a list instance `n` whose key values contain not both quote
characters and whose key names contain no `=`: `lyd_create_list2` (`parsePreds`) on what `lyd_path_list_predicate`
(`keyPredicate`) printed gives the key values back. -/
theorem keyPredicate_roundtrip (S : Schema) (n : DNode) (hk : ∀ k ∈ keysOf S n.kids, KeyOk S k) :
    parsePreds ((keyPredicate S n).length + 1) (keyPredicate S n) = some (keyVals S n) :=
  parsePreds_keyPredicate S n hk

/-- **apply_diff_userord_flat_kl_multikey.**  For one user-ordered list with ANY number `nk ≥ 1` of keys at the top level,
key-only instances identified by their `nk` key values (`KeyN nk`; `MK.klForest s keys`), all duplicate-free lists of
identities `va`, `vb` (the key values of `vb` without both quote characters: `QOkN`), any combination of the repaired findings:
`lyd_diff_apply_all(A, lyd_diff_siblings(A, B, LYD_DIFF_DEFAULTS))` succeeds and yields `B` up to `LYD_NEW`.  The moves are
encoded as diff.c does (`yang:key` = the concatenated key predicates of the instance placed before, parsed back in
`lyd_diff_insert`); obtained from the generic core theorem by the same simulation as the single-key case. -/
theorem apply_diff_userord_flat_kl_multikey (S : Schema) (fx : Fixes) (s nk : Nat) (hs : IsUserOrdMultiKeyList S s nk)
    (va vb : List (KeyN nk)) (nda : va.Nodup) (ndb : vb.Nodup) (hq : ∀ z ∈ vb, QOkN z) :
    ∃ B', apply S (MK.klForest s va) (diffFromPtr S true (MK.klForest s va) (MK.klForest s vb) fx) fx = .ok B' ∧
      normL S B' = normL S (MK.klForest s vb) :=
  apply_diff_mk hs.ctx fx va vb nda ndb hq

/-- **The same, from the decidable hypothesis the check evaluates per generated case** (`flatMK`, driver op `uohyp`): for ALL
trees `A`, `B` that consist of plain key-only instances of one user-ordered list with `nk ≥ 1` keys, identities duplicate-free,
the key values in `B` quotable. -/
theorem apply_diff_userord_flat_kl_multikey_dec (S : Schema) (fx : Fixes) (A B : List DNode) (s nk : Nat)
    (h : flatMK S A B = some (s, nk)) :
    ∃ B', apply S A (diffFromPtr S true A B fx) fx = .ok B' ∧ normL S B' = normL S B := by
  obtain ⟨hs, va, vb, hA, hB, nda, ndb, hq⟩ := flatMK_spec h
  rw [hA, hB]
  exact apply_diff_userord_flat_kl_multikey S fx s nk hs va vb nda ndb hq

/-- `list ul { key "k1 k2"; ordered-by user; leaf k1; leaf k2 }` -/
def exK2 : Schema :=
  { modName := "uo4", nodes := [{ depth := 0, kind := .list, name := "ul", nkeys := 2, userord := true },
                                { depth := 1, kind := .leaf, name := "k1", iskey := true },
                                { depth := 1, kind := .leaf, name := "k2", iskey := true }] }

theorem exK2_ok : IsUserOrdMultiKeyList exK2 0 2 := by
  refine ⟨by decide, by decide, by decide, by decide, ?_⟩
  intro i hi
  have : i = 0 ∨ i = 1 := by omega
  rcases this with rfl | rfl
  · exact ⟨by decide, by decide, by decide +kernel⟩
  · exact ⟨by decide, by decide, by decide +kernel⟩

def k2 (a b : Bytes) : KeyN 2 := ⟨[a, b], rfl⟩

-- `[(a,x) (a,y) (b,x)] → [(b,x) (a,x) (c',x)]`: delete (a,y), move (b,x) to the front, create (c',x) behind (a,x)
example : ∃ B', apply exK2 (MK.klForest 0 [k2 [97] [120], k2 [97] [121], k2 [98] [120]])
      (diffFromPtr exK2 true (MK.klForest 0 [k2 [97] [120], k2 [97] [121], k2 [98] [120]])
        (MK.klForest 0 [k2 [98] [120], k2 [97] [120], k2 [99, 39] [120]])) = .ok B' ∧
    normL exK2 B' = normL exK2 (MK.klForest 0 [k2 [98] [120], k2 [97] [120], k2 [99, 39] [120]]) :=
  apply_diff_userord_flat_kl_multikey exK2 {} 0 2 exK2_ok _ _ (by decide) (by decide)
    (by intro z hz; unfold QOkN KL.QOk; revert z; decide)

example : (diff exK2 true (MK.klForest 0 [k2 [97] [120], k2 [97] [121], k2 [98] [120]])
      (MK.klForest 0 [k2 [98] [120], k2 [97] [120], k2 [99, 39] [120]])).map
      (fun n => (MK.keyOf n, (n.metas.map (·.2)).head?)) =
    [([[97], [121]], some Op.delete.bytes), ([[98], [120]], some Op.replace.bytes), ([[99, 39], [120]], some Op.create.bytes)] := by
  decide +kernel

example : flatMK exK2 (MK.klForest 0 [k2 [97] [120], k2 [97] [121], k2 [98] [120]])
    (MK.klForest 0 [k2 [98] [120], k2 [97] [120], k2 [99, 39] [120]]) = some (0, 2) := by decide +kernel

end MultiKey

end LyModel.Props.C06UO
