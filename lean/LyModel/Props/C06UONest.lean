import LyModel.Diff.UOBridgeNestDec
import LyModel.Props.C06UONb
/-!
# C06 — the user-ordered leaf-list ONE LEVEL DOWN, inside a container: apply(A, diff(A, B)) = B   (Stage 3b)

Property theorems (statements only; lemmas in `LyModel/Diff/UOBridgeNest*.lean`), about the executable model `lydrv` runs against
libyang.  Both trees are one instance of a container `c` whose children are `P ++ instances ++ Q` (Stage 3a: the instances of one
user-ordered configuration leaf-list between the same inert neighbours) — the NESTED pairs of the exhaustive leaf-list family of
`tools/checks/c06.py` (`container c { leaf a; leaf-list ul; leaf z }`).  First step of the tree induction: the recursion of
`lyd_diff_siblings_r` into a matched pair, the parent copy `lyd_diff_add` creates (`wrapParent`: `operation=none` on the topmost
created parent), and on the apply side `lyd_diff_apply_r` descending through an `operation=none` node with `hasParent` and the
inherited operation.
* `diff_userord_ll_in_container_sim` — the diff is one copy of `c` with `operation=none` holding the encodings of `UOG.diffU`.
* `apply_diff_userord_ll_in_container`, `…_dec` — apply(A, diff(A, B)) = B up to `LYD_NEW` / np-container default flags.
OPEN: arbitrary depth and arbitrary (changing) other content — the general tree induction.
-/
namespace LyModel.Props.C06UO
open LyModel LyModel.Tree LyModel.Diff LyModel.Diff.UOB LyModel.Diff.UOB.NB

/-- **Simulation, diff side, one level down.**  `lyd_diff_siblings([c{P ++ va ++ Q}], [c{P ++ vb ++ Q}])`: nothing if the core
generates nothing, otherwise ONE node — the copy of `c` (no children of its own: a container has no keys) with
`yang:operation=none`, default flag cleared, whose children are the encodings of `UOG.diffU va vb`; `*diff` is that node. -/
theorem diff_userord_ll_in_container_sim (S : Schema) (fx : Fixes) (s c : Nat) (hs : IsUserOrdLeafList S s) (P Q : List DNode)
    (hN : NBCtx S s P Q) (hc : ContCtx S c) (hks : S.isKey s = false) (hkP : ∀ n ∈ P ++ Q, S.isKey n.sid = false) (f : Flags)
    (va vb : List Bytes) (nda : va.Nodup) (ndb : vb.Nodup) (hne : [] ∉ vb) :
    ∃ nodes, OpNodes s nodes (UOG.diffU va vb) ∧
      diffFull S true [cNode c f (nbForest s P Q va)] [cNode c f (nbForest s P Q vb)] fx =
        (if nodes.isEmpty then [] else [.inner c { f with dflt := false } [("operation", Op.none.bytes)] nodes], 0) :=
  diffFull_cont hs.ctx hN hc (nb_nokeys hks hkP) f fx va vb nda ndb hne

/-- **apply_diff_userord_ll_in_container.**  `A = [c { P ++ instances va ++ Q }]`, `B = [c { P ++ instances vb ++ Q }]`, values
duplicate-free, no empty value in `vb` (F122), any repaired findings: `lyd_diff_apply_all(A, lyd_diff_siblings(A, B,
LYD_DIFF_DEFAULTS))` succeeds and yields `B` up to `normL`. -/
theorem apply_diff_userord_ll_in_container (S : Schema) (fx : Fixes) (s c : Nat) (hs : IsUserOrdLeafList S s) (P Q : List DNode)
    (hN : NBCtx S s P Q) (hc : ContCtx S c) (hks : S.isKey s = false) (hkP : ∀ n ∈ P ++ Q, S.isKey n.sid = false) (f : Flags)
    (va vb : List Bytes) (nda : va.Nodup) (ndb : vb.Nodup) (hne : [] ∉ vb) :
    ∃ B', apply S [cNode c f (nbForest s P Q va)]
        (diffFromPtr S true [cNode c f (nbForest s P Q va)] [cNode c f (nbForest s P Q vb)] fx) fx = .ok B' ∧
      normL S B' = normL S [cNode c f (nbForest s P Q vb)] :=
  apply_diff_cont hs.ctx hN hc hks hkP f fx va vb nda ndb hne

/-- **The same, from the decidable hypothesis the check evaluates per generated case** (`contLL`, driver op `uohyp`). -/
theorem apply_diff_userord_ll_in_container_dec (S : Schema) (fx : Fixes) (A B : List DNode) (s : Nat)
    (h : contLL S A B = some s) :
    ∃ B', apply S A (diffFromPtr S true A B fx) fx = .ok B' ∧ normL S B' = normL S B := by
  obtain ⟨c, f, P, Q, va, vb, hs, hN, hc, hks, hkP, hA, hB, nda, ndb, hne⟩ := contLL_spec h
  rw [hA, hB]
  exact apply_diff_userord_ll_in_container S fx s c hs P Q hN hc hks hkP f va vb nda ndb hne

/-! ## non-vacuity: the nested pairs of the exhaustive leaf-list family (`exN` of C06UONb.lean) -/

def exNA : List DNode := [cNode 0 {} (nbForest 2 [.term 1 {} [] [120]] [.term 3 {} [] [121]] [[49], [50], [51]])]
def exNB : List DNode := [cNode 0 {} (nbForest 2 [.term 1 {} [] [120]] [.term 3 {} [] [121]] [[51], [52], [49]])]

example : contLL exN exNA exNB = some 2 := by decide

example : ∃ B', apply exN exNA (diffFromPtr exN true exNA exNB) = .ok B' ∧ normL exN B' = normL exN exNB :=
  apply_diff_userord_ll_in_container_dec exN {} _ _ 2 (by decide)

example : diff exN true exNA exNB =
    [.inner 0 {} [("operation", Op.none.bytes)] [delNode 2 [49] [50], moveNode 2 [49] [] [51], createNode 2 [51] [52]]] := by rfl

end LyModel.Props.C06UO
