import LyModel.Val.LemmasUnion
import LyModel.XsdRe.Lemmas
/-!
# C03 — string `pattern` restrictions (RFC 7950 §9.4.5): acceptance

Model: `storePStr` in `Val/Union.lean` — `lyplg_type_store_string` with `lyplg_type_validate_patterns` over the compiled pattern array of
the WHOLE typedef chain (base typedefs first).  The matcher is the specification matcher of C18 (`XsdRe.Regex.matches`, equal to the
denotation `XsdRe.Regex.L` of an XML Schema regular expression: `matches_iff_L`); libyang's PCRE2 translation is compared with it on
every run (`tools/checks/valunion.py`, `tools/checks/c18.py`).
-/
namespace LyModel.Props.C03Pattern
open LyModel LyModel.Val LyModel.XsdRe LyModel.XsdRe.Regex

theorem validate_iff (ps : List (Regex Char × Bool)) (cs : List Char) :
    validatePatterns ps cs = true ↔ ∀ p ∈ ps, (L p.1 cs ↔ p.2 = false) := by
  unfold validatePatterns
  simp only [List.all_eq_true]
  constructor
  · intro h p hp
    have := h p hp
    unfold satisfies at this
    rw [← matches_iff_L]
    cases hm : p.1.matches cs <;> cases hi : p.2 <;> simp [hm, hi] at this ⊢
  · intro h p hp
    have := h p hp
    rw [← matches_iff_L] at this
    unfold satisfies
    cases hm : p.1.matches cs <;> cases hi : p.2 <;> simp [hm, hi] at this ⊢

/-- `string_accept_iff`: a string type with patterns stores `s` (as itself) ⇔ the plain string type with the same length restriction
    stores it (legal UTF-8, hints, length in characters) AND every pattern of the type — with `invert-match`: no pattern — denotes a
    language that contains the WHOLE value (implicit anchoring at both ends). -/
theorem string_accept_iff (t : PStrTy) (hints : Nat) (s x : Bytes) :
    storePStr t hints s = .ok x ↔
      x = s ∧ storeStr t.length hints s = .ok s ∧
        ∃ cs, decodeUtf8 s = some cs ∧ ∀ p ∈ t.pats, (L p.1 cs ↔ p.2 = false) := by
  unfold storePStr
  cases hs : storeStr t.length hints s with
  | error e =>
    simp only [reduceCtorEq, false_and, and_false]
  | ok y =>
    have hy : y = s := (storeStr_ok hs).1
    subst hy
    simp only [true_and]
    cases hd : decodeUtf8 y with
    | none => simp
    | some cs =>
      simp only [Option.some.injEq, exists_eq_left']
      rw [← validate_iff]
      by_cases hv : validatePatterns t.pats cs = true
      · rw [if_pos hv]
        simp only [Except.ok.injEq, hv, and_true]
        exact eq_comm
      · rw [if_neg hv]
        simp only [reduceCtorEq, hv, Bool.false_eq_true, and_false]

/-- The patterns of the whole typedef chain are all applied: the compiled array of `typedef t2 { type t1 { pattern P2…; } }` is the array
    of `t1` followed by `P2…`, and a value of the derived type satisfies both parts — in particular it is a value of the base typedef
    (a restriction only narrows; the miss of exactly this was finding F106 for date-and-time). -/
theorem string_chain_all_applied (len : List (Int × Int)) (base derived : List (Regex Char × Bool)) (hints : Nat) (s x : Bytes) :
    storePStr ⟨len, base ++ derived⟩ hints s = .ok x ↔
      storePStr ⟨len, base⟩ hints s = .ok x ∧ storePStr ⟨len, derived⟩ hints s = .ok x := by
  simp only [string_accept_iff, List.mem_append]
  constructor
  · rintro ⟨hx, hst, cs, hd, hp⟩
    exact ⟨⟨hx, hst, cs, hd, fun p hp' => hp p (Or.inl hp')⟩, ⟨hx, hst, cs, hd, fun p hp' => hp p (Or.inr hp')⟩⟩
  · rintro ⟨⟨hx, hst, cs, hd, hp1⟩, ⟨_, _, cs', hd', hp2⟩⟩
    rw [hd] at hd'
    injection hd' with hcs
    subst hcs
    exact ⟨hx, hst, cs, hd, fun p hp' => hp'.elim (hp1 p) (hp2 p)⟩

/-- `[ab]*` -/
def rAB : Regex Char := star (alt (sym (· == 'a')) (sym (· == 'b')))
/-- `aa` -/
def rAA : Regex Char := cat (sym (· == 'a')) (sym (· == 'a'))

-- non-vacuity: `typedef t1 { type string { pattern "[ab]*"; } }  type t1 { length 1..3; pattern "aa" { modifier invert-match; } }`:
-- "ab" is accepted; "aa" violates the inverted pattern, "abc" the pattern of the base typedef, "abab" the length
example : storePStr ⟨[(1, 3)], [(rAB, false)] ++ [(rAA, true)]⟩ Generated.LYD_HINT_DATA [97, 98] = .ok [97, 98] ∧
    storePStr ⟨[(1, 3)], [(rAB, false)] ++ [(rAA, true)]⟩ Generated.LYD_HINT_DATA [97, 97] = .error .Pattern ∧
    storePStr ⟨[(1, 3)], [(rAB, false)] ++ [(rAA, true)]⟩ Generated.LYD_HINT_DATA [97, 98, 99] = .error .Pattern ∧
    storePStr ⟨[(1, 3)], [(rAB, false)] ++ [(rAA, true)]⟩ Generated.LYD_HINT_DATA [97, 98, 97, 98] = .error (.val .Length) := by decide
-- the theorems used left to right: "ab" is in the language of `[ab]*` (whole value) and not in the language of `aa`
example : L rAB "ab".toList ∧ ¬ L rAA "ab".toList := by
  obtain ⟨_, _, cs, hd, hp⟩ := (string_accept_iff ⟨[(1, 3)], [(rAB, false)] ++ [(rAA, true)]⟩ Generated.LYD_HINT_DATA [97, 98] [97, 98]).mp (by decide)
  have hcs : cs = "ab".toList := by
    have : decodeUtf8 [97, 98] = some "ab".toList := by decide
    rw [this] at hd; injection hd with hd; exact hd.symm
  subst hcs
  exact ⟨(hp (rAB, false) (by simp)).mpr rfl, fun h => absurd ((hp (rAA, true) (by simp)).mp h) (by decide)⟩
-- a partial match is not enough: "abc" has the prefix "ab" in `[ab]*`, the value is refused
example : storePStr ⟨[], [(rAB, false)]⟩ Generated.LYD_HINT_DATA [97, 98, 99] = .error .Pattern := by decide

end LyModel.Props.C03Pattern
