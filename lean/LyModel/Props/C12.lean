import LyModel.Text.SpecLemmas
import LyModel.XmlTree.Roundtrip
import LyModel.XmlTree.OpaqTag
import LyModel.XmlTree.OpaqFaithful
import LyModel.XmlTree.DataFaithful
import LyModel.XmlTree.ScopeFaithful
import LyModel.XmlTree.SpecScopeLemmas
import LyModel.Generated.JsonTyping
import LyModel.JsonTree.Refine
import LyModel.JsonTree.Faithful
/-!
# C12 — printed XML and JSON mean the same to any parser: property theorems (character-data level)

The readers `XmlSpec.read` and `JsonSpec.readString` are written from XML 1.0 and RFC 8259 and share nothing with
libyang or with the model of libyang's own lexers.  The printers are the functions read off the C source by the
translator.  Success of the reader is well-formedness of the printed text (no `<`, no bare `&`, no `]]>`, no raw
delimiter, no raw control character in JSON); the returned value is what a conformant parser hands to its user.
-/
namespace LyModel.Props.C12
open LyModel LyModel.Utf8 LyModel.XmlText

/-- XML: for EVERY string libyang can hold after parsing (`YangText`), in element content and in attribute values, a
    conformant XML processor — including §2.11 line-end and §3.3.3 attribute-value normalisation — recovers exactly
    the stored bytes.  (True of the tree since the `fix:` commit that prints CR, and TAB/LF in attribute values, as
    character references: finding F6; on the pinned tree `[13]` was a counter-example.) -/
theorem xml_chardata_faithful (attr : Bool) (s : Bytes) (hs : YangText s) :
    XmlSpec.readAll attr (dumpText attr s) = some s :=
  spec_read_dump attr s (fun b hb => (yangText_bytes hs b hb).2) _ (by simp [XmlSpec.readAll])

/-- JSON: the token `json_print_string` writes is a valid RFC 8259 string and denotes exactly the stored bytes. -/
theorem json_string_faithful (s rest : Bytes) (hs : YangText s) :
    JsonSpec.readToken (JsonText.printString s ++ rest) = some (s, rest) := by
  have := JsonText.spec_read_print s (fun b hb => (yangText_bytes hs b hb).1) rest
    ((s.flatMap JsonText.esc ++ 34 :: rest).length + 1) (by simp [List.length_append])
  simpa [JsonSpec.readToken, JsonText.printString] using this

/-- the spec reader does normalise: a *literal* CR would not have come back (why F6 was a defect) -/
example : XmlSpec.readAll false [97, 13, 98] = some [97, 10, 98] := by decide
example : XmlSpec.readAll true [97, 9, 98] = some [97, 32, 98] := by decide
/-- non-vacuity: CR, TAB, LF, quotes, markup, DEL and multi-byte characters are all `YangText` -/
example : YangText [13, 9, 10, 34, 39, 38, 60, 62, 93, 93, 62, 127, 0xC3, 0xA9, 0xF0, 0x9F, 0x98, 0x80] :=
  isYangText_sound _ (by decide)

/-- non-vacuity (audit): both character-data theorems instantiated at that string; the printed forms differ from the
    string and from each other (attribute values escape TAB, LF and `"` in addition), and both read back to it -/
def exS : Bytes := [13, 9, 10, 34, 39, 38, 60, 62, 93, 93, 62, 127, 0xC3, 0xA9, 0xF0, 0x9F, 0x98, 0x80]

example : XmlSpec.readAll true (dumpText true exS) = some exS ∧ XmlSpec.readAll false (dumpText false exS) = some exS :=
  ⟨xml_chardata_faithful true exS (isYangText_sound _ (by decide)),
   xml_chardata_faithful false exS (isYangText_sound _ (by decide))⟩

example : dumpText true exS ≠ dumpText false exS ∧ dumpText false exS ≠ exS := by decide

example : JsonSpec.readToken (JsonText.printString exS ++ [44, 49]) = some (exS, [44, 49]) :=
  json_string_faithful exS [44, 49] (isYangText_sound _ (by decide))

/-- XML, tree level: for EVERY forest of printed nodes (any depth, any number of siblings, any mix of namespaces, names that are
    XML names, namespace and value strings without forbidden control characters — every `YangText` string; v1: nodes without
    metadata), the document `xml_print_data` emits in shrink mode is well-formed XML 1.0 with namespaces, and a namespace-aware
    reader written from the standards recovers exactly the elements in order, each with the namespace of its module and its
    character data.  The printer model (namespace stack of `xml_print_ns`, `/>` for empty content, escaping through the
    generated table) is compared byte for byte with libyang's output on every generated tree. -/
theorem xml_document_faithful (forest : List XmlTree.XNode) (h : XmlTree.ListOk forest) :
    XmlDoc.parseDoc (XmlTree.printData forest) = some (XmlTree.viewList forest) :=
  XmlTree.parseDoc_printData forest h

/-- non-vacuity: two modules, nested default-namespace switches back and forth, empty and escaped content -/
example : XmlTree.ListOk
    [.inner [117, 49] [99] [] [.term [117, 49] [97] [] [60, 38, 13], .inner [117, 38, 50] [100] [] [.term [117, 49] [101] [] []],
      .term [117, 49] [102] [] [120]], .term [117, 38, 50] [103] [] [93, 93, 62]] := by
  simp [XmlTree.ListOk, XmlTree.NodeOk, XmlTree.NameOk, XmlDoc.isNameByte, XmlText.NoCtl]

/-- non-vacuity (audit): the theorem instantiated at that forest, with the reader's result written out: depth 3, two
    namespaces switching back and forth, escaped, empty and `]]>` content -/
def exForest : List XmlTree.XNode :=
    [.inner [117, 49] [99] [] [.term [117, 49] [97] [] [60, 38, 13], .inner [117, 38, 50] [100] [] [.term [117, 49] [101] [] []],
      .term [117, 49] [102] [] [120]], .term [117, 38, 50] [103] [] [93, 93, 62]]

example : XmlDoc.parseDoc (XmlTree.printData exForest) = some
    [.mk [117, 49] [99] [] [] [.mk [117, 49] [97] [] [60, 38, 13] [], .mk [117, 38, 50] [100] [] [] [.mk [117, 49] [101] [] [] []],
      .mk [117, 49] [102] [] [120] []], .mk [117, 38, 50] [103] [] [93, 93, 62] []] :=
  xml_document_faithful exForest
    (by simp [exForest, XmlTree.ListOk, XmlTree.NodeOk, XmlTree.NameOk, XmlDoc.isNameByte, XmlText.NoCtl])
/-- what is printed for (part of) it: `<c xmlns="u1"><a>&lt;&amp;&#xD;</a><d xmlns="u&amp;2"><e xmlns="u1"/></d></c>` -/
example : XmlTree.printData
    [.inner [117, 49] [99] [] [.term [117, 49] [97] [] [60, 38, 13], .inner [117, 38, 50] [100] [] [.term [117, 49] [101] [] []]]]
    = [60, 99, 32, 120, 109, 108, 110, 115, 61, 34, 117, 49, 34, 62, 60, 97, 62, 38, 108, 116, 59, 38, 97, 109, 112, 59, 38, 35, 120, 68, 59, 60, 47, 97, 62, 60, 100, 32, 120, 109, 108, 110, 115, 61, 34, 117, 38, 97, 109, 112, 59, 50, 34, 62, 60, 101, 32, 120, 109, 108, 110, 115, 61, 34, 117, 49, 34, 47, 62, 60, 47, 100, 62, 60, 47, 99, 62] := by
  decide

/-! ## Opaque nodes: the namespace declarations of a start tag (`xml_print_ns` v2, `xml_print_attr`, `xml_print_opaq_open`)

The model (`XmlTree/Ns2.lean`, `XmlTree/Opaq.lean`) is parametrised by which of the two repairs of `xml_print_ns` the source has
(`Fixes`: numbered prefixes for suggestions that are already bound, a170b92; prefixes needed by values kept free, f1b607e — the
findings F195 / F196); `XmlTree.Fixes.current`, read off the C source by `tools/extractors/xmlns.py`, is what the driver prints
with and is compared byte for byte with libyang on every generated document.  The theorems are about the variant with both
repairs, for ANY opaque node (any attributes, any value prefix data) under ANY namespace stack; the `_fails` theorems show that
neither repair can be dropped. -/

open XmlTree in
/-- **(a) A start tag binds each prefix at most once.**  In the start tag the model prints for any opaque node under any
    namespace stack, the namespace declarations have pairwise different prefixes (`xmlns:p` at most once, `xmlns` at most once)
    — so the duplicate-declaration check of a namespace-aware reader (`XmlDoc.noDupDecls`) passes —, and the stack handed to
    the content of the element is exactly these declarations, innermost first, on top of the inherited stack.  Hypothesis: the
    value prefix data of the node and of its attributes are consistent, one uri per prefix (`XmlTree.consistent`, decidable;
    what a well-formed source element guarantees, since all its values are resolved in one scope). -/
theorem start_tag_binds_each_prefix_once (fx : Fixes) (hn : fx.numbered = true) (hr : fx.reserved = true) (st : NsStack)
    (ns : Option Bytes) (value : Bytes) (valPfx : PfxData) (attrs : List OAttr)
    (hcons : consistent (reservedOf valPfx attrs) = true) :
    ((declared (startTagItems fx st ns value valPfx attrs).1).map (·.1)).Nodup ∧
    XmlDoc.noDupDecls (declared (startTagItems fx st ns value valPfx attrs).1) = true ∧
    (startTagItems fx st ns value valPfx attrs).2 = (declared (startTagItems fx st ns value valPfx attrs).1).reverse ++ st :=
  have h := startTag_nodup fx hn hr st ns value valPfx attrs hcons
  ⟨h.1, noDupDecls_of_nodup _ h.1, h.2⟩

open XmlTree in
/-- without the consistency hypothesis the statement is false: two attributes whose values need `p` for two namespaces (a tree
    built through the API, not a parsed element) make the printer write `xmlns:p` twice -/
theorem start_tag_binds_each_prefix_once_fails_without_consistency :
    ¬ ∀ (st : NsStack) (ns : Option Bytes) (value : Bytes) (valPfx : PfxData) (attrs : List OAttr),
      ((declared (startTagItems Fixes.all st ns value valPfx attrs).1).map (·.1)).Nodup := by
  intro h
  have := h [] none [] [] [⟨none, none, [97], [112, 58, 120], [(some [112], [49])]⟩, ⟨none, none, [98], [112, 58, 121], [(some [112], [50])]⟩]
  revert this
  decide

open XmlTree in
/-- … and it was false of the code before the numbered prefixes (F195): the value of the first attribute needs `p` for one
    namespace, the name of the second one suggests `p` for another -/
theorem start_tag_binds_each_prefix_once_fails_without_numbered_prefixes :
    ¬ ∀ (fx : Fixes) (st : NsStack) (ns : Option Bytes) (value : Bytes) (valPfx : PfxData) (attrs : List OAttr),
      fx.reserved = true → consistent (reservedOf valPfx attrs) = true →
      ((declared (startTagItems fx st ns value valPfx attrs).1).map (·.1)).Nodup := by
  intro h
  have := h ⟨false, true, true, true⟩ [] none [] []
    [⟨none, none, [97], [112, 58, 120], [(some [112], [50])]⟩, ⟨some [112], some [49], [98], [118], []⟩] rfl (by decide)
  revert this
  decide

open XmlTree in
/-- **(b) The prefixes of a start tag mean what the tree says.**  For any opaque node under any namespace stack: what is written
    for the attributes is their names and values in order, a prefix is written exactly in front of an attribute that has a
    prefix and a module_ns, and that prefix resolves — by the innermost-binding rule of Namespaces in XML (`XmlDoc.lookup`, the
    resolution function of the independent reader) applied to the stack AS IT IS AT THE END OF THE START TAG, i.e. with every
    declaration of the tag in force — to the attribute's module_ns (`XmlTree.AttrsResolve`); no hypothesis on the values is
    needed for this part.  If the values are consistent, every (prefix, uri) of the value prefix data of every attribute — and
    of the node itself when its value is printed — resolves to its uri in that stack, so QName-like values keep their meaning. -/
theorem attr_prefix_resolves (fx : Fixes) (hn : fx.numbered = true) (hr : fx.reserved = true) (st : NsStack)
    (ns : Option Bytes) (value : Bytes) (valPfx : PfxData) (attrs : List OAttr) :
    AttrsResolve (startTagItems fx st ns value valPfx attrs).2 attrs (attrsOf (startTagItems fx st ns value valPfx attrs).1) ∧
    (consistent (reservedOf valPfx attrs) = true →
      (∀ a ∈ attrs, ∀ e ∈ pairsOf a.valPfx,
        XmlDoc.lookup (startTagItems fx st ns value valPfx attrs).2 (some e.1) = some e.2) ∧
      (value.isEmpty = false → ∀ e ∈ pairsOf valPfx,
        XmlDoc.lookup (startTagItems fx st ns value valPfx attrs).2 (some e.1) = some e.2)) :=
  ⟨startTag_attrs_resolve fx hn hr st ns value valPfx attrs, startTag_values_resolve fx hn hr st ns value valPfx attrs⟩

open XmlTree in
/-- F196: without `xml_prefix_is_reserved` the statement is false.  An ancestor binds `q` to `u1`; the attribute `p:a` of
    namespace `u1` reuses `q`; its value needs `q` for `u2`, which is then declared in the same start tag:
    `<e q:a="q:x" xmlns:q="u2"/>` — the attribute name is read in `u2`. -/
theorem attr_prefix_resolves_fails_without_reserved_check :
    ¬ ∀ (fx : Fixes) (st : NsStack) (ns : Option Bytes) (value : Bytes) (valPfx : PfxData) (attrs : List OAttr),
      fx.numbered = true →
      AttrsResolve (startTagItems fx st ns value valPfx attrs).2 attrs (attrsOf (startTagItems fx st ns value valPfx attrs).1) := by
  intro h
  have := h ⟨true, false, true, true⟩ [(some [113], [117, 49])] none [] []
    [⟨some [112], some [117, 49], [97], [113, 58, 120], [(some [113], [117, 50])]⟩] rfl
  have e : startTagItems ⟨true, false, true, true⟩ [(some [113], [117, 49])] none [] []
      [⟨some [112], some [117, 49], [97], [113, 58, 120], [(some [113], [117, 50])]⟩] =
      ([.decl (some [113]) [117, 50], .attr (some [113]) [97] [113, 58, 120]],
       [(some [113], [117, 50]), (some [113], [117, 49])]) := by decide
  rw [e] at this
  simp [attrsOf, AttrsResolve, XmlDoc.lookup] at this

open XmlTree in
/-- F195: without the numbered prefixes the statement is false.  An ancestor binds `p` to `u2`; the first attribute (of
    namespace `u2`) reuses `p`; the second one suggests `p` for `u1`, which is declared in the same start tag:
    `<e p:a="v" xmlns:p="u1" p:b="w"/>` — the first attribute is read in `u1`. -/
theorem attr_prefix_resolves_fails_without_numbered_prefixes :
    ¬ ∀ (fx : Fixes) (st : NsStack) (ns : Option Bytes) (value : Bytes) (valPfx : PfxData) (attrs : List OAttr),
      fx.reserved = true →
      AttrsResolve (startTagItems fx st ns value valPfx attrs).2 attrs (attrsOf (startTagItems fx st ns value valPfx attrs).1) := by
  intro h
  have := h ⟨false, true, true, true⟩ [(some [112], [117, 50])] none [] []
    [⟨some [120], some [117, 50], [97], [118], []⟩, ⟨some [112], some [117, 49], [98], [119], []⟩] rfl
  have e : startTagItems ⟨false, true, true, true⟩ [(some [112], [117, 50])] none [] []
      [⟨some [120], some [117, 50], [97], [118], []⟩, ⟨some [112], some [117, 49], [98], [119], []⟩] =
      ([.attr (some [112]) [97] [118], .decl (some [112]) [117, 49], .attr (some [112]) [98] [119]],
       [(some [112], [117, 49]), (some [112], [117, 50])]) := by decide
  rw [e] at this
  simp [attrsOf, AttrsResolve, XmlDoc.lookup] at this

/-- non-vacuity: a three-level forest — `config` binds `n` to namespace `1` and uses it for an attribute whose value is a QName
    (`n:operation="n:m"`), `server` re-binds `n` to namespace `2` (`n:tag="n:b"`), `port` has an attribute of namespace `1` under
    another prefix (`x:operation="d"`, the attribute of the seeded defect C12r3), an attribute in no namespace and a QName value
    (`x:t`); `o` is the namespace of the elements -/
def exOpaq : List XmlTree.ONode :=
  [.mk [99] none (some [111]) [] [(none, [111])]
    [⟨some [110], some [49], [111, 112], [110, 58, 109], [(none, [111]), (some [110], [49])]⟩]
    [.mk [115] none (some [111]) [] [(none, [111])]
      [⟨some [110], some [50], [116], [110, 58, 98], [(none, [111]), (some [110], [50])]⟩]
      [.mk [112] none (some [111]) [120, 58, 116] [(none, [111]), (some [120], [49])]
        [⟨some [120], some [49], [111, 112], [100], [(none, [111])]⟩, ⟨none, none, [97], [49], [(none, [111])]⟩] []]]]

/-- what the model prints for it (and libyang, byte for byte, for the same tree with longer names — `OPAQ_HAND[0]` in
    `tools/checks/rtxcomp.py`): `<c xmlns="o" xmlns:n="1" n:op="n:m"><s xmlns:n1="2" xmlns:n="2" n1:t="n:b"><p xmlns:x="1"
    x:op="d" a="1">x:t</p></s></c>` — the suggestion `n` of `server` is bound further out (numbered prefix `n1`), and `port` may
    not reuse `n` for namespace `1` because `server` re-bound it (the shadow check) -/
example : XmlTree.printOpaqData XmlTree.Fixes.all exOpaq = bytesOfString
    "<c xmlns=\"o\" xmlns:n=\"1\" n:op=\"n:m\"><s xmlns:n1=\"2\" xmlns:n=\"2\" n1:t=\"n:b\"><p xmlns:x=\"1\" x:op=\"d\" a=\"1\">x:t</p></s></c>" := by
  decide +kernel

/-- the stack under which the start tag of `port` is printed -/
def exPortStack : XmlTree.NsStack := [(some [110], [50]), (some [110, 49], [50]), (some [110], [49]), (none, [111])]

/-- the hypotheses hold of each of the three start tags … -/
example : XmlTree.consistent (XmlTree.reservedOf [(none, [111])] [⟨some [110], some [49], [111, 112], [110, 58, 109], [(none, [111]), (some [110], [49])]⟩]) = true ∧
    XmlTree.consistent (XmlTree.reservedOf [(none, [111])] [⟨some [110], some [50], [116], [110, 58, 98], [(none, [111]), (some [110], [50])]⟩]) = true ∧
    XmlTree.consistent (XmlTree.reservedOf [(none, [111]), (some [120], [49])]
      [⟨some [120], some [49], [111, 112], [100], [(none, [111])]⟩, ⟨none, none, [97], [49], [(none, [111])]⟩]) = true := by decide

/-- the start tag of `server`, printed under the stack `config` leaves -/
def exServerAttrs : List XmlTree.OAttr := [⟨some [110], some [50], [116], [110, 58, 98], [(none, [111]), (some [110], [50])]⟩]

/-- … and the theorems instantiated at the start tag of `server` (prefix `n` re-bound: one declaration of `n1` for the attribute
    name, one of `n` for the value): what is written, the stack it leaves for `port`, and the three conclusions -/
example :
    let tag := XmlTree.startTagItems XmlTree.Fixes.all [(some [110], [49]), (none, [111])] (some [111]) [] [(none, [111])] exServerAttrs
    tag = ([.decl (some [110, 49]) [50], .decl (some [110]) [50], .attr (some [110, 49]) [116] [110, 58, 98]], exPortStack) ∧
    ((XmlTree.declared tag.1).map (·.1)).Nodup ∧
    XmlTree.AttrsResolve tag.2 exServerAttrs (XmlTree.attrsOf tag.1) ∧
    (∀ a ∈ exServerAttrs, ∀ e ∈ XmlTree.pairsOf a.valPfx, XmlDoc.lookup tag.2 (some e.1) = some e.2) :=
  ⟨by decide,
   (start_tag_binds_each_prefix_once XmlTree.Fixes.all rfl rfl _ _ _ _ _ (by decide)).1,
   (attr_prefix_resolves XmlTree.Fixes.all rfl rfl _ _ _ _ _).1,
   ((attr_prefix_resolves XmlTree.Fixes.all rfl rfl _ _ _ _ _).2 (by decide)).1⟩

/-! ## Opaque nodes: the whole document -/

open XmlTree in
/-- **(c) A printed forest of opaque nodes means the forest to any namespace-aware XML reader.**  For EVERY forest of opaque
    nodes — any depth, any number of siblings and attributes, any prefixes and namespaces, prefixes re-bound and shadowed at any
    level, default namespaces changing on the way down, values and value prefix data of any kind, character data next to child
    elements — that satisfies the decidable well-formedness predicate `XmlTree.opaqOk` (names and prefixes are XML names other
    than `xmlns`; no forbidden control characters; an attribute has a prefix exactly when it has a namespace; the attributes of
    an element differ by expanded name; an element without namespace has no ancestor with one — finding F300, see (c′) below;
    per start tag the values need one uri per prefix), the document the model of `xml_print_data` / `xml_print_opaq` / `xml_print_attr` / `xml_print_ns`
    emits (shrink mode; every variant with both repairs of `xml_print_ns`, with or without the repair of F300) is well-formed XML 1.0 with namespaces, and the
    independent reader written from the two standards (`XmlDoc.parseDoc`: attribute syntax and normalisation, declarations
    scoped to the element and its content, the innermost binding wins, the default namespace applies to elements only, a
    prefix must be declared, no declaration and no expanded attribute name twice in a start tag) recovers EXACTLY
    `XmlTree.oviewList forest`: the elements in order, each with its expanded name (module_ns + name), its attributes in order
    with expanded names (module_ns + name) and values, and its character data.  The printer model is compared byte for byte
    with libyang on every generated forest, and `opaqOk` is evaluated on every one of them (driver op `opaqcheck`). -/
theorem opaque_document_faithful (fx : Fixes) (hn : fx.numbered = true) (hr : fx.reserved = true) (forest : List ONode)
    (h : opaqOk forest = true) :
    XmlDoc.parseDoc (printOpaqData fx forest) = some (oviewList forest) :=
  parseDoc_printOpaqData fx hn hr true (fun h => nomatch h) forest (opaqOk_sound forest h)

open XmlTree in
/-- **(c′) … for elements in no namespace anywhere** — the statement at full strength, `opaqOkAnyNs`: `opaqOk` without the
    conjunct "an element without namespace has no ancestor with one".  True of the variant of the printer that writes
    `xmlns=""` for an element in no namespace when a non-empty default namespace is in scope (`Fixes.undeclare`, the candidate
    repair of finding F300; `tools/extractors/xmlns.py` reads off `xml_print_opaq_open` whether the source has it, and
    `opaque_document_faithful` is the part that holds of both variants). -/
theorem opaque_document_faithful_any_namespace (fx : Fixes) (hn : fx.numbered = true) (hr : fx.reserved = true)
    (hu : fx.undeclare = true) (forest : List ONode) (h : opaqOkAnyNs forest = true) :
    XmlDoc.parseDoc (printOpaqData fx forest) = some (oviewList forest) :=
  parseDoc_printOpaqData fx hn hr false (fun _ => hu) forest (opaqOkAnyNs_sound forest h)

/-- the namespace and name the reader reports for the only child of the only top-level element -/
def innerName : Option (List XmlDoc.XElem) → Bytes × Bytes
  | some [.mk _ _ _ _ [.mk ns n _ _ _]] => (ns, n)
  | _ => ([], [])

open XmlTree in
/-- F300: of the code as it is (no undeclaration) the full statement is false.  The tree libyang builds for `<a xmlns="o"><b
    xmlns="">t</b></a>` (`b` in no namespace) is printed as `<a xmlns="o"><b>t</b></a>`: every reader puts `b` into `o`.
    The check replays this document on libyang on every run. -/
theorem opaque_document_faithful_any_namespace_fails_without_undeclaration :
    ¬ ∀ (fx : Fixes) (forest : List ONode), fx.numbered = true → fx.reserved = true → opaqOkAnyNs forest = true →
      XmlDoc.parseDoc (printOpaqData fx forest) = some (oviewList forest) := by
  intro h
  have := h ⟨true, true, false, true⟩ [.mk [97] none (some [111]) [] [] [] [.mk [98] none none [116] [(none, [])] [] []]] rfl rfl (by decide)
  have := congrArg innerName this
  revert this
  decide +kernel

/-- non-vacuity of (c′): the same tree and a deeper one — `b` in no namespace below `a` in `o`, `c` in `o` again below `b`, `d`
    in no namespace below `c` — are `opaqOkAnyNs` but not `opaqOk`; the repaired variant prints `xmlns=""` where needed and only
    there (`e`, in no namespace below `d`, inherits the undeclaration) -/
def exOpaqNoNs : List XmlTree.ONode :=
  [.mk [97] none (some [111]) [] [] []
    [.mk [98] none none [] [] [⟨some [112], some [49], [107], [118], []⟩]
      [.mk [99] none (some [111]) [] [] [] [.mk [100] none none [] [] [] [.mk [101] none none [116] [(none, [])] [] []]]]]]

example : XmlTree.opaqOkAnyNs exOpaqNoNs = true ∧ XmlTree.opaqOk exOpaqNoNs = false := by decide

example : XmlTree.printOpaqData XmlTree.Fixes.all exOpaqNoNs = bytesOfString
    "<a xmlns=\"o\"><b xmlns=\"\" xmlns:p=\"1\" p:k=\"v\"><c xmlns=\"o\"><d xmlns=\"\"><e>t</e></d></c></b></a>" := by
  decide +kernel

example : XmlDoc.parseDoc (XmlTree.printOpaqData XmlTree.Fixes.all exOpaqNoNs) = some (XmlTree.oviewList exOpaqNoNs) :=
  opaque_document_faithful_any_namespace XmlTree.Fixes.all rfl rfl rfl exOpaqNoNs (by decide)

/-- the attributes the reader reports for the only child of the only top-level element -/
def innerAttrs : Option (List XmlDoc.XElem) → List (Bytes × Bytes × Bytes)
  | some [.mk _ _ _ _ [.mk _ _ as _ _]] => as
  | _ => []

open XmlTree in
/-- F195 at document level: without the numbered prefixes the statement is false.  `<r xmlns="o" xmlns:p="2" p:k="1"><e p:a="v"
    xmlns:p="1" p:b="w"/></r>` is printed for a tree whose attribute `a` is in namespace `2`: every reader puts it in `1`. -/
theorem opaque_document_faithful_fails_without_numbered_prefixes :
    ¬ ∀ (fx : Fixes) (forest : List ONode), fx.reserved = true → opaqOk forest = true →
      XmlDoc.parseDoc (printOpaqData fx forest) = some (oviewList forest) := by
  intro h
  have := h ⟨false, true, true, true⟩
    [.mk [114] none (some [111]) [] [] [⟨some [112], some [50], [107], [49], []⟩]
      [.mk [101] none (some [111]) [] [] [⟨some [120], some [50], [97], [118], []⟩, ⟨some [112], some [49], [98], [119], []⟩] []]]
    rfl (by decide)
  have := congrArg innerAttrs this
  revert this
  decide +kernel

open XmlTree in
/-- F196 at document level: without `xml_prefix_is_reserved` the statement is false.  `<r xmlns="o" xmlns:q="1" q:k="1"><e
    q:a="q:x" xmlns:q="2"/></r>` is printed for a tree whose attribute `a` is in namespace `1`: every reader puts it in `2`. -/
theorem opaque_document_faithful_fails_without_reserved_check :
    ¬ ∀ (fx : Fixes) (forest : List ONode), fx.numbered = true → opaqOk forest = true →
      XmlDoc.parseDoc (printOpaqData fx forest) = some (oviewList forest) := by
  intro h
  have := h ⟨true, false, true, true⟩
    [.mk [114] none (some [111]) [] [] [⟨some [113], some [49], [107], [49], []⟩]
      [.mk [101] none (some [111]) [] [] [⟨some [112], some [49], [97], [113, 58, 120], [(some [113], [50])]⟩] []]]
    rfl (by decide)
  have := congrArg innerAttrs this
  revert this
  decide +kernel

/-- non-vacuity: the three-level forest `exOpaq` above (prefix `n` bound by `config`, re-bound by `server`, namespace `1` under
    another prefix in `port`, an attribute in no namespace, QName values) satisfies the hypothesis … -/
example : XmlTree.opaqOk exOpaq = true := by decide

/-- … and the theorem instantiated at it, with the reader's result written out: `c`, `s`, `p` in namespace `o`; `op` in
    namespace `1` with value `n:m`; `t` in namespace `2` (printed under the numbered prefix `n1`); `op` in namespace `1`
    (printed under `x`) and `a` in no namespace; the character data `x:t` -/
example : XmlDoc.parseDoc (XmlTree.printOpaqData XmlTree.Fixes.all exOpaq) = some
    [.mk [111] [99] [([49], [111, 112], [110, 58, 109])] []
      [.mk [111] [115] [([50], [116], [110, 58, 98])] []
        [.mk [111] [112] [([49], [111, 112], [100]), ([], [97], [49])] [120, 58, 116] []]]] :=
  opaque_document_faithful XmlTree.Fixes.all rfl rfl exOpaq (by decide)

/-- non-vacuity, second forest: four levels, two top-level siblings, the default namespace changing twice on the way down and
    back (`o` → `u` → `o`), an element without any namespace at the top, prefix `p` bound to three namespaces at three levels,
    the same namespace under two prefixes, three attributes of three namespaces on one element, character data in front of a
    child element, values that need escaping -/
def exOpaq2 : List XmlTree.ONode :=
  [.mk [122] none none [] [] [⟨none, none, [107], [60, 38], []⟩] [],
   .mk [97] none (some [111]) [] [] [⟨some [112], some [49], [120], [112, 58, 118], [(some [112], [49])]⟩]
    [.mk [98] none (some [117]) [116, 9] []
        [⟨some [112], some [50], [120], [49], []⟩, ⟨some [113], some [49], [120], [50], []⟩, ⟨some [112], some [51], [121], [34], []⟩]
      [.mk [99] none (some [111]) [] [] [⟨some [112], some [51], [119], [112, 58, 107], [(some [112], [52])]⟩]
        [.mk [100] none (some [111]) [112, 58, 101] [(some [112], [49])] [] []]],
     .mk [101] none (some [111]) [] [] [] []]]

example : XmlTree.opaqOk exOpaq2 = true := by decide

/-- what the model prints for it: `<z k="&lt;&amp;"/><a xmlns="o" xmlns:p="1" p:x="p:v"><b xmlns="u" xmlns:p1="2" p1:x="1"
    p:x="2" xmlns:p2="3" p2:y="&quot;">t<TAB><c xmlns="o" xmlns:p="4" p2:w="p:k"><d xmlns:p="1">p:e</d></c></b><e/></a>` — the
    suggestion `q` of the second attribute of `b` is dropped for the prefix `p` that `a` bound to namespace `1`, `c` reuses `p2`
    of `b` for namespace `3` because its own value needs `p` for namespace `4`, `d` re-binds `p` to `1` for its character data -/
example : XmlTree.printOpaqData XmlTree.Fixes.all exOpaq2 = bytesOfString
    "<z k=\"&lt;&amp;\"/><a xmlns=\"o\" xmlns:p=\"1\" p:x=\"p:v\"><b xmlns=\"u\" xmlns:p1=\"2\" p1:x=\"1\" p:x=\"2\" xmlns:p2=\"3\" p2:y=\"&quot;\">t\t<c xmlns=\"o\" xmlns:p=\"4\" p2:w=\"p:k\"><d xmlns:p=\"1\">p:e</d></c></b><e/></a>" := by
  decide +kernel

example : XmlDoc.parseDoc (XmlTree.printOpaqData XmlTree.Fixes.all exOpaq2) = some (XmlTree.oviewList exOpaq2) :=
  opaque_document_faithful XmlTree.Fixes.all rfl rfl exOpaq2 (by decide)

/-! ## Data nodes WITH metadata, opaque nodes below them: one theorem for the XML printer -/

open XmlTree in
/-- **(d) A printed data tree with metadata means the tree to any namespace-aware XML reader.**  For EVERY forest as the XML
    printer reads it under any print options (`XmlTree.DNode`: the nodes `lyd_node_should_print` lets through; terminal nodes
    with the with-defaults attribute when it is written, their value and the modules of the prefixes inside it — identityref,
    instance-identifier; inner nodes; on every node the printable annotations with the modules of the prefixes inside THEIR
    values; opaque nodes with their attributes and subtrees below inner nodes or at the top) that satisfies the decidable
    predicate `XmlTree.dataOk` — names and prefixes are XML names, no forbidden control characters, the attributes of an element
    differ by expanded name, the opaque parts are `onodeOkB`, and **per start tag ONE namespace per prefix** among the prefix the
    printer uses for the with-defaults attribute, the annotation modules, the modules inside annotation values and inside the
    element value (the exclusion of finding F49) —, the document the model of `xml_print_data` / `xml_print_node` /
    `xml_print_inner` / `xml_print_term` / `xml_print_node_open` / `xml_print_meta` / `xml_print_opaq` / `xml_print_ns` emits
    (shrink mode) is well-formed XML 1.0 with namespaces and the independent reader recovers EXACTLY `XmlTree.dviewList forest`:
    the elements in order with the namespace of their module, their attributes in order — `default="true"` in the namespace of
    ietf-netconf-with-defaults first, then each annotation in the namespace of its module — with their values, and the
    character data.  For the code before the repair of finding F301 (`Fixes.termNs = false`: `xml_print_term` writes the
    declarations for the value's prefixes itself) `dataOk` also requires that a terminal value has no prefixes of other modules
    (`xml_document_faithful_meta_fails_before_F301_repair` shows why).  The model is compared byte for byte with libyang under
    each of the five with-defaults modes, and `dataOk` is evaluated on every generated view (driver op `dcheck`). -/
theorem xml_document_faithful_meta (fx : Fixes) (hn : fx.numbered = true) (hr : fx.reserved = true) (forest : List DNode)
    (h : dataOk fx forest = true) :
    XmlDoc.parseDoc (printDData fx forest) = some (dviewList forest) :=
  parseDoc_printDData fx hn hr forest h

open XmlTree in
/-- **(d′) … and the prefixes inside values mean what the tree says — as part of what the reader returns.**  `XmlDoc.parseDocS` is
    the independent reader reporting, with every element, its [in-scope namespaces] (XML Infoset 2.2: the element's own
    declarations on top of the inherited ones — `SpecScope.lean`, the reader of (d) plus that one field; `eraseL` forgets it).  For
    every forest satisfying `dataOk`: the scoped reader accepts the printed document; what it returns, without the scopes, is
    `dviewList forest` (the conclusion of (d)); and the scopes it returns satisfy `DScopeOkL forest`: looking a prefix up in the
    scope reported for an element (`XmlDoc.lookup scope (some prefix)`, the innermost-binding rule) gives
    * for every annotation of a data node, every prefix inside the annotation's value the namespace of the module the value
      refers to (`DMeta.valMods`: identityref, instance-identifier annotations);
    * for every terminal node, every prefix inside its value the namespace of the module (`valMods`);
    * for every opaque node, every prefix its attribute values and (when it has a value) its own value were parsed with
      (`val_prefix_data`) the namespace it had there —
    at every depth.  An identityref or instance-identifier read from the printed document by ANY namespace-aware application
    denotes the identity / the nodes the tree holds. -/
theorem xml_document_faithful_meta_scoped (fx : Fixes) (hn : fx.numbered = true) (hr : fx.reserved = true) (forest : List DNode)
    (h : dataOk fx forest = true) :
    ∃ es, XmlDoc.parseDocS (printDData fx forest) = some es ∧ XmlDoc.eraseL es = dviewList forest ∧ DScopeOkL forest es :=
  parseDocS_printDData_scoped fx hn hr forest h

/-- **The scoped reader is the plain reader plus one field** — for EVERY byte string, well-formed or not, no printer involved: the
    plain reader's verdict and result are the scoped reader's with the in-scope namespaces erased.  So (d′) implies (d), whatever
    `parseDocS` accepts `parseDoc` accepts with the same elements, and the cross-check of `parseDoc` against expat on every run
    covers `parseDocS` as well. -/
theorem scoped_reader_erases_to_plain (d : Bytes) : XmlDoc.parseDoc d = (XmlDoc.parseDocS d).map XmlDoc.eraseL :=
  XmlDoc.parseDoc_eq_erase d

/-- non-vacuity: an accepted document with a re-bound prefix, and a rejected one (undeclared prefix): both readers agree -/
example : (XmlDoc.parseDocS (bytesOfString "<a xmlns=\"o\" xmlns:p=\"1\"><b xmlns:p=\"2\" p:k=\"p:v\"/></a>")).isSome = true ∧
    (XmlDoc.parseDocS (bytesOfString "<a q:k=\"1\"/>")).isSome = false ∧
    (XmlDoc.parseDoc (bytesOfString "<a q:k=\"1\"/>")).isSome = false := by decide +kernel

open XmlTree in
/-- **(e) Prefixes inside values keep their meaning.**  In the start tag of any data node satisfying `tagOkB` (the per-tag part
    of `dataOk`), under any reader environment `env` that resolves like the printer's stack `st`: in the environment the
    independent reader uses for this element — its own declarations on top of the inherited ones, `declared items ++ env` —
    every prefix inside an annotation value resolves to the namespace of the module the value refers to, and (when the value
    modules go through `xml_print_ns`, F301 repaired) so does every prefix inside the element value: identityref and
    instance-identifier values denote, to the reader, the identities and nodes the tree holds. -/
theorem value_prefixes_resolve_in_scope (fx : Fixes) (hn : fx.numbered = true) (env st : NsStack)
    (heq : ∀ p, XmlDoc.lookup env p = XmlDoc.lookup st p) (hst : StackOk st) (ns name : Bytes) (wd : Option (Bytes × Bytes))
    (metas : List DMeta) (value : Bytes) (valMods : ValMods) (hok : tagOkB fx st ns name wd metas value valMods = true) :
    let items := (termTagItems fx st ns wd metas valMods).1
    (∀ m ∈ metas, ∀ e ∈ m.valMods, XmlDoc.lookup (declared items ++ env) (some e.1) = some e.2) ∧
    (fx.termNs = true → ∀ e ∈ valMods, XmlDoc.lookup (declared items ++ env) (some e.1) = some e.2) := by
  have := dataTag fx hn env st heq hst ns name wd metas value valMods hok _ _ rfl
  exact ⟨this.2.2.2.2.2.2.2.2.2.2.1, this.2.2.2.2.2.2.2.2.2.2.2⟩

/-- F49: a leaf with annotations of two modules that share the prefix `a` -/
def exF49 : List XmlTree.DNode := [.term [52] [99] none [⟨[49], [97], [104], [104], []⟩, ⟨[50], [97], [116], [116], []⟩] [] []]

open XmlTree in
/-- F49 in the model: the only conjunct of `dataOk` that fails for `exF49` is the one-namespace-per-prefix exclusion, and the
    document printed for it — `<c xmlns="4" xmlns:a="1" a:h="h" xmlns:a="2" a:t="t"/>`, also by libyang (replayed on every run) —
    is not well-formed: the exclusion cannot be dropped from (d). -/
theorem xml_document_faithful_meta_fails_for_shared_prefix :
    dlistWhy Fixes.all [] exF49 = ["F49:two-namespaces-for-one-prefix-in-a-start-tag"] ∧
    printDData Fixes.all exF49 = bytesOfString "<c xmlns=\"4\" xmlns:a=\"1\" a:h=\"h\" xmlns:a=\"2\" a:t=\"t\"/>" ∧
    (XmlDoc.parseDoc (printDData Fixes.all exF49)).isNone = true := by decide +kernel

/-- F301: a leaf whose identityref value is of the module (prefix `a`, namespace `1`) an annotation of the leaf belongs to -/
def exF301 : List XmlTree.DNode := [.term [52] [99] none [⟨[49], [97], [104], [104], []⟩] [97, 58, 114] [([97], [49])]]

open XmlTree in
/-- F301 in the model: before the repair `<c xmlns="4" xmlns:a="1" a:h="h" xmlns:a="1">a:r</c>` is printed (also by libyang,
    replayed on every run) — `xmlns:a` twice, not well-formed; with the repair (`Fixes.all`) the tree satisfies `dataOk`, so (d)
    applies: `<c xmlns="4" xmlns:a="1" a:h="h">a:r</c>`. -/
theorem xml_document_faithful_meta_fails_before_F301_repair :
    (XmlDoc.parseDoc (printDData ⟨true, true, true, false⟩ exF301)).isNone = true ∧
    printDData ⟨true, true, true, false⟩ exF301 = bytesOfString "<c xmlns=\"4\" xmlns:a=\"1\" a:h=\"h\" xmlns:a=\"1\">a:r</c>" ∧
    dataOk Fixes.all exF301 = true ∧
    printDData Fixes.all exF301 = bytesOfString "<c xmlns=\"4\" xmlns:a=\"1\" a:h=\"h\">a:r</c>" := by decide +kernel

/-- non-vacuity of (d) and (e): three levels of data nodes — `b` (module `4`) with an instance-identifier annotation of its own
    module (`d:p="/d:b"`) and an identityref annotation of module `1` (`a:o="a:r"`); a leaf `c` with a string annotation of
    module `1` (prefix `a` inherited) whose identityref value is of module `3`; a container `i` with an annotation of module `2`,
    which shares the prefix `a` with module `1` (re-bound, on ANOTHER element: no defect); below it a default leaf `d` with the
    with-defaults attribute, an annotation whose value needs `a` for module `1` again, and a value of module `3`; and an opaque
    subtree `z` (namespace `o`, attribute of namespace `9` under the numbered prefix `a1`, its value needing `a` for `9`) -/
def exData : List XmlTree.DNode :=
  [.inner [52] [98] [⟨[52], [100], [112], [47, 100, 58, 98], [([100], [52])]⟩, ⟨[49], [97], [111], [97, 58, 114], [([97], [49])]⟩]
    [.term [52] [99] none [⟨[49], [97], [104], [60, 38], []⟩] [99, 58, 103] [([99], [51])],
     .inner [52] [105] [⟨[50], [97], [116], [116], []⟩]
       [.term [52] [100] (some ([119], [110, 99, 119, 100])) [⟨[52], [100], [119], [97, 58, 114], [([97], [49])]⟩] [99, 58, 103] [([99], [51])],
        .opaq (.mk [122] none (some [111]) [] [(none, [111])] [⟨some [97], some [57], [107], [97, 58, 118], [(some [97], [57])]⟩]
          [.mk [121] none (some [111]) [120] [] [] []])]]]

example : XmlTree.dataOk XmlTree.Fixes.all exData = true := by decide +kernel

example : XmlTree.printDData XmlTree.Fixes.all exData = bytesOfString
    "<b xmlns=\"4\" xmlns:d=\"4\" d:p=\"/d:b\" xmlns:a=\"1\" a:o=\"a:r\"><c a:h=\"&lt;&amp;\" xmlns:c=\"3\">c:g</c><i xmlns:a=\"2\" a:t=\"t\"><d xmlns:ncwd=\"w\" ncwd:default=\"true\" xmlns:a=\"1\" d:w=\"a:r\" xmlns:c=\"3\">c:g</d><z xmlns=\"o\" xmlns:a1=\"9\" xmlns:a=\"9\" a1:k=\"a:v\"><y>x</y></z></i></b>" := by
  decide +kernel

/-- (d) instantiated, the reader's result written out -/
example : XmlDoc.parseDoc (XmlTree.printDData XmlTree.Fixes.all exData) = some
    [.mk [52] [98] [([52], [112], [47, 100, 58, 98]), ([49], [111], [97, 58, 114])] []
      [.mk [52] [99] [([49], [104], [60, 38])] [99, 58, 103] [],
       .mk [52] [105] [([50], [116], [116])] []
        [.mk [52] [100] [([119], [100, 101, 102, 97, 117, 108, 116], [116, 114, 117, 101]), ([52], [119], [97, 58, 114])] [99, 58, 103] [],
         .mk [111] [122] [([57], [107], [97, 58, 118])] [] [.mk [111] [121] [] [120] []]]]] :=
  xml_document_faithful_meta XmlTree.Fixes.all rfl rfl exData (by decide +kernel)

/-- (d′) instantiated at `exData`: the scope the reader reports for the default leaf `d` (fourth element in document order) resolves
    `a` to module `1` (needed by its annotation value `a:r`, although the parent `i` had re-bound `a` to module `2`), `c` to module
    `3` (its own value `c:g`) and `d` to module `4` (inherited from `b`) -/
example : ∃ es, XmlDoc.parseDocS (XmlTree.printDData XmlTree.Fixes.all exData) = some es ∧
    XmlDoc.eraseL es = XmlTree.dviewList exData ∧ XmlTree.DScopeOkL exData es :=
  xml_document_faithful_meta_scoped XmlTree.Fixes.all rfl rfl exData (by decide +kernel)

example : ((XmlDoc.parseDocS (XmlTree.printDData XmlTree.Fixes.all exData)).map fun es =>
    match es with
    | [.mk _ _ _ _ [_, .mk _ _ _ _ [d, _] _] _] => [XmlDoc.lookup d.scope (some [97]), XmlDoc.lookup d.scope (some [99]), XmlDoc.lookup d.scope (some [100])]
    | _ => []) = some [some [49], some [51], some [52]] := by decide +kernel

/-- RFC 7951 sec. 6 as a table: how an instance of each YANG base type is written in JSON -/
def rfc7951Kind : String → String
  | "LY_TYPE_INT8" | "LY_TYPE_INT16" | "LY_TYPE_INT32" | "LY_TYPE_UINT8" | "LY_TYPE_UINT16" | "LY_TYPE_UINT32" => "lit"   -- 6.1 number
  | "LY_TYPE_INT64" | "LY_TYPE_UINT64" | "LY_TYPE_DEC64" => "str"                                                   -- 6.1 string
  | "LY_TYPE_STRING" | "LY_TYPE_ENUM" | "LY_TYPE_BITS" | "LY_TYPE_BINARY" | "LY_TYPE_IDENT" | "LY_TYPE_INST" => "str"     -- 6.2-6.8, 6.11
  | "LY_TYPE_BOOL" => "lit"                                                                                          -- 6.3 true / false
  | "LY_TYPE_EMPTY" => "empty"                                                                                       -- 6.9 [null]
  | "LY_TYPE_UNION" => "union"                                                                                       -- 6.10 as the member type
  | _ => "error"                                   -- leafref is never a real type of a stored value; unknown

/-- `json_print_value`: every row of the base-type switch read off the C source by the translator (the GENERATED table
    `Generated.jsonTyping`) agrees with the RFC 7951 table — 64-bit integers and decimal64 as strings, the other numbers and
    booleans as literals, `empty` as `[null]`, a union as its member type.  This is a statement about the rows that are there: by
    itself it is true of an empty or a partial table (an extractor that finds no `case` label).  That each of the 18 base types
    of RFC 7951 sec. 6 (and the two error cases) has exactly one row is `json_typing_covers_rfc7951` below; the claim "the
    switch IS the RFC 7951 table" is the PAIR of the two theorems. -/
theorem json_typing_rfc7951 : ∀ e ∈ Generated.jsonTyping, e.2.2 = rfc7951Kind e.2.1 := by decide

-- AUDIT (resolved): docstring of `json_typing_rfc7951` says "every row found agrees"; with `json_typing_covers_rfc7951` the pair is the claim.
/-- the converse of `json_typing_rfc7951`: each of the 18 base types of RFC 7951 sec. 6 (and the two that must be errors: unknown,
    leafref) has exactly one row in the table read off the source, and the table has no other rows; with it a lost row breaks the
    build instead of weakening `json_typing_rfc7951` silently -/
theorem json_typing_covers_rfc7951 :
    (∀ n ∈ ["LY_TYPE_BINARY", "LY_TYPE_UINT8", "LY_TYPE_UINT16", "LY_TYPE_UINT32", "LY_TYPE_UINT64", "LY_TYPE_STRING",
            "LY_TYPE_BITS", "LY_TYPE_BOOL", "LY_TYPE_DEC64", "LY_TYPE_EMPTY", "LY_TYPE_ENUM", "LY_TYPE_IDENT", "LY_TYPE_INST",
            "LY_TYPE_UNION", "LY_TYPE_INT8", "LY_TYPE_INT16", "LY_TYPE_INT32", "LY_TYPE_INT64", "LY_TYPE_UNKNOWN",
            "LY_TYPE_LEAFREF"],
        (Generated.jsonTyping.filter fun e => e.2.1 == n).length = 1)
    ∧ Generated.jsonTyping.length = 20 := by decide

/-- non-vacuity (audit): the table has rows of all five kinds, so `json_typing_rfc7951` compares something in each -/
example : ∀ k ∈ ["str", "lit", "empty", "union", "error"], ∃ e ∈ Generated.jsonTyping, e.2.2 = k ∧ rfc7951Kind e.2.1 = k := by
  decide

/-- **The JSON tree printer lays a data tree out as RFC 7951 sec. 4/5 prescribe, whatever the tree**: for every forest without
    metadata (v1) — any depth, any mix of printed and unprinted (`lyd_node_should_print` = false: trimmed defaults, implicit
    nodes) instances, any run lengths — the output of the model of `json_print_data` (the C printer's bookkeeping of `level`,
    `level_printed`, the stack of open arrays and the early return for skipped nodes, `JsonTree/Model.lean`, tied to libyang
    byte for byte on every run) equals the state-free specification `JsonTree.specData`: one member per printed leaf /
    container, ONE array member per run of leaf-list / list instances holding exactly the printed ones and no member when none
    is printed, members and items separated by single commas, names qualified at the top level and where the module changes.
    Hypotheses: a node's schema node differs from its ancestors' (true of every YANG data tree; `matching_node` compares schema
    pointers) and adjacent instances of one schema node are of one kind.  A stray or missing comma / bracket for ANY tree
    shape (finding F16 was one, for a trailing skipped instance) contradicts this theorem. -/
theorem json_tree_refines_spec (forest : List JsonTree.JNode) (hok : JsonTree.OkL [] forest) (hadj : JsonTree.AdjKind forest) :
    JsonTree.printData forest = JsonTree.specData forest :=
  JsonTree.printData_eq_spec forest hok hadj

/-- non-vacuity: a list with a skipped trailing instance next to a leaf-list whose instances are all skipped, then a leaf
    (`{"m:l":[{"k":"a"}],"m:z":1}`) -/
example :
    let k (v : Bytes) := JsonTree.JNode.mk .leaf 2 [109] [107] true [] .str v []
    let forest := [JsonTree.JNode.mk .list 1 [109] [108] true [] .str [] [k [97]],
                   JsonTree.JNode.mk .list 1 [109] [108] false [] .str [] [k [98]],
                   JsonTree.JNode.mk .leaflist 3 [109] [113] false [] .lit [55] [],
                   JsonTree.JNode.mk .leaf 4 [109] [122] true [] .lit [49] []]
    JsonTree.OkL [] forest ∧ JsonTree.AdjKind forest ∧
      JsonTree.printData forest = [123,34,109,58,108,34,58,91,123,34,107,34,58,34,97,34,125,93,44,34,109,58,122,34,58,49,125] := by
  refine ⟨by simp [JsonTree.OkL, JsonTree.Ok, JsonTree.AdjKind], by simp [JsonTree.AdjKind, JsonTree.JNode.sid, JsonTree.JNode.kind], by decide⟩

/-- **Printed JSON means the tree to any RFC 8259 reader** (tree level, metadata-free trees): an independent JSON document
    reader (`JsonDoc.parseDoc`: objects, arrays, strings with escapes and surrogate pairs, the number grammar, literal names,
    insignificant white space — written from the RFC, cross-checked against Python's `json` on every run) applied to the output
    of the model of `json_print_data` succeeds and reports exactly `JsonTree.jsonView forest`: one member per printed leaf /
    container and one array member per run of printed leaf-list / list instances, in order, names module-qualified as RFC 7951
    sec. 4 says, strings decoded to the stored bytes, numbers and booleans as the stored literal tokens, `empty` as `[null]`.
    Hypotheses beyond `json_tree_refines_spec`: names are YANG identifiers, string values contain no NUL, literal values are JSON
    number / boolean tokens (what the type plugins store as canonical values). -/
theorem json_document_faithful (forest : List JsonTree.JNode) (hok : JsonTree.OkL [] forest) (hadj : JsonTree.AdjKind forest)
    (hval : JsonTree.OkJL forest) :
    JsonDoc.parseDoc (JsonTree.printData forest) = some (JsonTree.jsonView forest) := by
  rw [JsonTree.printData_eq_spec forest hok hadj]
  exact JsonTree.parseDoc_specData forest hval

/-- non-vacuity: the forest of the example above (list with a skipped trailing instance, skipped leaf-list, leaf) -/
example :
    let k (v : Bytes) := JsonTree.JNode.mk .leaf 2 [109] [107] true [] .str v []
    let forest := [JsonTree.JNode.mk .list 1 [109] [108] true [] .str [] [k [97]],
                   JsonTree.JNode.mk .list 1 [109] [108] false [] .str [] [k [98]],
                   JsonTree.JNode.mk .leaflist 3 [109] [113] false [] .lit [55] [],
                   JsonTree.JNode.mk .leaf 4 [109] [122] true [] .lit [49] []]
    JsonTree.OkJL forest := by
  simp [JsonTree.OkJL, JsonTree.OkJ, JsonTree.ValueOk, JsonDoc.KeyOk, JsonDoc.LitOk]
  decide

/-- non-vacuity (audit): a deeper forest with every kind of member — a container holding a string leaf that needs escapes,
    a leaf-list run with a skipped middle instance, a container of another module (qualified name) with an `empty` leaf, a
    list with two instances (string key, boolean literal), then a skipped and a printed top-level leaf of a second module:
    `{"m:c":{"s":"a\"\u000Aé","q":[7,-9],"n:d":{"e":[null]},"l":[{"k":"18","b":true},{"k":"2"}]},"n:y":1}` -/
def exJ : List JsonTree.JNode :=
  [ .mk .cont 1 [109] [99] true [] .str []
      [ .mk .leaf 2 [109] [115] true [] .str [97, 34, 10, 0xC3, 0xA9] [],
        .mk .leaflist 3 [109] [113] true [] .lit [55] [],
        .mk .leaflist 3 [109] [113] false [] .lit [56] [],
        .mk .leaflist 3 [109] [113] true [] .lit [45, 57] [],
        .mk .cont 4 [110] [100] true [] .str [] [ .mk .leaf 5 [110] [101] true [] .empty [] [] ],
        .mk .list 6 [109] [108] true [] .str []
          [ .mk .leaf 7 [109] [107] true [] .str [49, 56] [], .mk .leaf 8 [109] [98] true [] .lit [116, 114, 117, 101] [] ],
        .mk .list 6 [109] [108] true [] .str [] [ .mk .leaf 7 [109] [107] true [] .str [50] [] ] ],
    .mk .leaf 9 [110] [122] false [] .lit [49] [],
    .mk .leaf 10 [110] [121] true [] .lit [49] [] ]

theorem exJ_ok : JsonTree.OkL [] exJ ∧ JsonTree.AdjKind exJ :=
  ⟨by simp [exJ, JsonTree.OkL, JsonTree.Ok, JsonTree.AdjKind, JsonTree.JNode.sid, JsonTree.JNode.kind],
   by simp [exJ, JsonTree.AdjKind, JsonTree.JNode.sid, JsonTree.JNode.kind]⟩

theorem exJ_okj : JsonTree.OkJL exJ := by
  simp [exJ, JsonTree.OkJL, JsonTree.OkJ, JsonTree.ValueOk, JsonDoc.KeyOk, JsonDoc.LitOk]
  decide

example : JsonTree.printData exJ = JsonTree.specData exJ := json_tree_refines_spec exJ exJ_ok.1 exJ_ok.2

example : JsonDoc.parseDoc (JsonTree.printData exJ) = some (JsonTree.jsonView exJ) :=
  json_document_faithful exJ exJ_ok.1 exJ_ok.2 exJ_okj

/-- … and what is printed for it (kernel evaluation) -/
example : JsonTree.printData exJ =
    [123, 34, 109, 58, 99, 34, 58, 123, 34, 115, 34, 58, 34, 97, 92, 34, 92, 117, 48, 48, 48, 65, 195, 169, 34, 44, 34, 113,
     34, 58, 91, 55, 44, 45, 57, 93, 44, 34, 110, 58, 100, 34, 58, 123, 34, 101, 34, 58, 91, 110, 117, 108, 108, 93, 125, 44,
     34, 108, 34, 58, 91, 123, 34, 107, 34, 58, 34, 49, 56, 34, 44, 34, 98, 34, 58, 116, 114, 117, 101, 125, 44, 123, 34, 107,
     34, 58, 34, 50, 34, 125, 93, 125, 44, 34, 110, 58, 121, 34, 58, 49, 125] := by decide +kernel

/-- **JSON metadata (RFC 7952 sec. 5.2): annotations of leaves, containers and list entries.**  `json_tree_refines_spec` and
    `json_document_faithful` hold for trees in which leaves, containers and list entries carry annotations — the decidable
    hypothesis `JsonTree.OkL` only requires LEAF-LIST instances to be without (the `@name` ARRAY of a leaf-list is modelled and
    compared with libyang and with the state-free expectation `jsonViewM` on every run, but is the one form not yet under the
    theorem).  Restated for such a tree: the model of `json_print_data` / `json_print_leaf` / `json_print_inner` /
    `json_print_attributes` / `json_print_metadata` writes, and the independent RFC 8259 reader recovers,
    * every leaf with annotations as its member `name: value` IMMEDIATELY followed by the member `@name: {metadata object}`, the
      `@name` qualified with the module exactly when `name` is;
    * every container and list entry with annotations as an object whose FIRST member is `"@": {metadata object}`, followed by
      the children;
    * the metadata object with one member `module:annotation` per annotation, values typed as RFC 7951 sec. 6 says —
    so every annotation stays attached to the node (the list entry, the leaf) it belongs to. -/
theorem json_document_faithful_meta (forest : List JsonTree.JNode) (hok : JsonTree.OkL [] forest)
    (hadj : JsonTree.AdjKind forest) (hval : JsonTree.OkJL forest) :
    JsonTree.printData forest = JsonTree.specData forest ∧
    JsonDoc.parseDoc (JsonTree.printData forest) = some (JsonTree.jsonView forest) :=
  ⟨json_tree_refines_spec forest hok hadj, json_document_faithful forest hok hadj hval⟩

/-- non-vacuity: a container with two annotations (a string that needs escaping, a number) holding an annotated leaf, a plain
    leaf of another module and a list with two entries, the second of which carries an annotation, the first none:
    `{"m:c":{"@":{"m:h":"a\"","n:k":7},"x":1,"@x":{"n:k":2},"n:y":true,"l":[{"k":"a"},{"@":{"m:h":"e"},"k":"b","@k":{"m:h":"f"}}]}}` -/
def exJM : List JsonTree.JNode :=
  [ .mk .cont 1 [109] [99] true [⟨[109], [104], .str, [97, 34]⟩, ⟨[110], [107], .lit, [55]⟩] .str []
      [ .mk .leaf 2 [109] [120] true [⟨[110], [107], .lit, [50]⟩] .lit [49] [],
        .mk .leaf 5 [110] [121] true [] .lit [116, 114, 117, 101] [],
        .mk .list 3 [109] [108] true [] .str [] [ .mk .leaf 4 [109] [107] true [] .str [97] [] ],
        .mk .list 3 [109] [108] true [⟨[109], [104], .str, [101]⟩] .str []
          [ .mk .leaf 4 [109] [107] true [⟨[109], [104], .str, [102]⟩] .str [98] [] ] ] ]

theorem exJM_ok : JsonTree.OkL [] exJM ∧ JsonTree.AdjKind exJM ∧ JsonTree.OkJL exJM := by
  refine ⟨by simp [exJM, JsonTree.OkL, JsonTree.Ok, JsonTree.AdjKind, JsonTree.JNode.sid, JsonTree.JNode.kind],
    by simp [exJM, JsonTree.AdjKind], ?_⟩
  simp [exJM, JsonTree.OkJL, JsonTree.OkJ, JsonTree.ValueOk, JsonDoc.KeyOk, JsonDoc.LitOk]
  decide

example : JsonTree.printData exJM = bytesOfString
    "{\"m:c\":{\"@\":{\"m:h\":\"a\\\"\",\"n:k\":7},\"x\":1,\"@x\":{\"n:k\":2},\"n:y\":true,\"l\":[{\"k\":\"a\"},{\"@\":{\"m:h\":\"e\"},\"k\":\"b\",\"@k\":{\"m:h\":\"f\"}}]}}" := by
  decide +kernel

example : JsonDoc.parseDoc (JsonTree.printData exJM) = some (JsonTree.jsonView exJM) :=
  (json_document_faithful_meta exJM exJM_ok.1 exJM_ok.2.1 exJM_ok.2.2).2

end LyModel.Props.C12
