import LyModel.Text.SpecLemmas
/-!
# C12 — printed XML and JSON mean the same to any parser: property theorems (character-data level)

The readers `XmlSpec.read` and `JsonSpec.readString` are written from XML 1.0 and RFC 8259 and share nothing with
libyang or with the model of libyang's own lexers.  The printers are the functions read off the C source by the
translator.  Success of the reader is well-formedness of the printed text (no `<`, no bare `&`, no `]]>`, no raw
delimiter, no raw control character in JSON); the returned value is what a conformant parser hands to its user.
-/
namespace LyModel.Props.C12
open LyModel LyModel.Utf8 LyModel.XmlText

/-- XML: for EVERY string libyang can hold after parsing (`YangText`), in element content and in attribute values, a
    conformant XML processor — including §2.11 line-end and §3.3.3 attribute-value normalisation — recovers exactly
    the stored bytes.  (True of the tree since the `fix:` commit that prints CR, and TAB/LF in attribute values, as
    character references: finding F6; on the pinned tree `[13]` was a counter-example.) -/
theorem xml_chardata_faithful (attr : Bool) (s : Bytes) (hs : YangText s) :
    XmlSpec.readAll attr (dumpText attr s) = some s :=
  spec_read_dump attr s (fun b hb => (yangText_bytes hs b hb).2) _ (by simp [XmlSpec.readAll])

/-- JSON: the token `json_print_string` writes is a valid RFC 8259 string and denotes exactly the stored bytes. -/
theorem json_string_faithful (s rest : Bytes) (hs : YangText s) :
    JsonSpec.readToken (JsonText.printString s ++ rest) = some (s, rest) := by
  have := JsonText.spec_read_print s (fun b hb => (yangText_bytes hs b hb).1) rest
    ((s.flatMap JsonText.esc ++ 34 :: rest).length + 1) (by simp [List.length_append])
  simpa [JsonSpec.readToken, JsonText.printString] using this

/-- the spec reader does normalise: a *literal* CR would not have come back (why F6 was a defect) -/
example : XmlSpec.readAll false [97, 13, 98] = some [97, 10, 98] := by decide
example : XmlSpec.readAll true [97, 9, 98] = some [97, 32, 98] := by decide
/-- non-vacuity: CR, TAB, LF, quotes, markup, DEL and multi-byte characters are all `YangText` -/
example : YangText [13, 9, 10, 34, 39, 38, 60, 62, 93, 93, 62, 127, 0xC3, 0xA9, 0xF0, 0x9F, 0x98, 0x80] :=
  isYangText_sound _ (by decide)

end LyModel.Props.C12
