import LyModel.Diff.Obs13
/-! # C13 — placeholder while the component is being built -/
namespace LyModel.Props.C13
theorem placeholder : True := trivial
end LyModel.Props.C13
