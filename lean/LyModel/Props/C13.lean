import LyModel.Diff.Lemmas13Merge
import LyModel.Diff.Lemmas13Inv
import LyModel.Diff.LemmasExact
import LyModel.Diff.LemmasRevLit
import LyModel.Diff.K13Canon
/-!
# C13 — diffs can be reversed and composed (`src/diff.c`: `lyd_diff_reverse_all`, `lyd_diff_merge_all`)

Model: `Diff.reverse` (Diff/Reverse.lean), `Diff.mergeDiff` (Diff/MergeDiff.lean), `Diff.apply` / `Diff.diff` of the Diff
component (C06); observation `dataEqL true` = `lyd_compare_siblings(FULL_RECURSION | DEFAULTS)`.
Fragment predicates (executable, Diff/Exact13.lean): `goodT S A` — a tree of leaves, containers, choices, system-ordered
lists and leaf-lists in libyang's sibling order; `exactDiff S A D` — `D` is an exact diff for `A` (what
`lyd_diff_siblings(…, LYD_DIFF_DEFAULTS)` produces on the fragment; checked on every generated pair by the check module).
Order hypothesis.  `KeyOrder S` (Diff/Lemmas13Ord.lean) — the `sort` callbacks order ALL nodes of the right shape strictly and
totally — is the hypothesis of the first round of theorems (`reverse_apply*`, `merge_cell_apply`, `merge_apply_reverse`); it is
UNSATISFIABLE for a schema with a keyed list (`keyOrder_no_keyed_list`: a list instance without its key children is a node of the
right shape, and `rb_compare_lists` cannot order it), so those theorems are vacuous exactly for keyed lists.  They are SUPERSEDED
by the `_on` / `_keyed` theorems of the section "keyed lists" below: `K13.KeyOrderOn S P` (Diff/K13Ord.lean) asks the same axioms
only of the nodes satisfying a predicate `P` that every node of the trees / diffs has to satisfy (`K13.goodT S P`,
`K13.exactDiff S P`, `K13.allPL P`), and for `P = K13.keyedOK S` — a list instance carries exactly its key leaves, key and
leaf-list values are canonical for their type — it is PROVED for every schema whose keys are leaves and whose enum values are
distinct (`K13.keyOrderOn_keyed`, hypothesis `K13.schemaOK S`: decidable, true of every YANG module).  The final statements
`reverse_apply_keyed`, `merge_apply_reverse_keyed` assume no order hypothesis at all.  (`diff_exact`, `reverse_involutive_diff`,
`merge_cancel*` in Props/C13Merge.lean, `Diff.apply_congr` never assumed one.)

Every computed diff is exact: `diff_exact` (for the well-formed trees `wfForest` of C06 — `goodT` alone is not enough:
`diff_exact_goodT_fails`); with it `reverse_apply_diff`, `reverse_apply` (the law as the check evaluates it, with the literal
second tree) and `reverse_involutive_diff` hold without a hypothesis on the diff.
-/
namespace LyModel.Props.C13
open LyModel LyModel.Tree LyModel.Diff

/-! ## reverse -/

/-- `reverse_apply`, the true part: for trees of leaves, containers, choices, system-ordered lists and leaf-lists at any depth
(`goodT`), the reversed diff of an exact diff `D` applied to the tree `D` leads to gives the original tree back — structure,
values and the default flags of all leaves / leaf-list instances (`dataEqL true`, the comparison with `LYD_COMPARE_DEFAULTS`).
No bound on depth, width or the number of changes.  (`KeyOrder S` excludes schemas with keyed lists: `keyOrder_no_keyed_list`;
the hypothesis `hD` holds for every computed diff: `diff_exact`.)  SUPERSEDED by `reverse_apply_partial_on` (same statement under
`KeyOrderOn S P`, which keyed lists satisfy); this one is its instance `P = fun _ => true`. -/
theorem reverse_apply_partial {S : Schema} {fx : Fixes} (K : KeyOrder S) {A D : List DNode} (hA : goodT S A = true)
    (hD : exactDiff S A D = true) :
    ∃ B R A', apply S A D fx = .ok B ∧ reverse S D = .ok R ∧ apply S B R fx = .ok A' ∧ dataEqL true A' A = true := by
  obtain ⟨B, R, A', h1, _, h2, _, h3, h4⟩ := reverse_roundtrip K hA hD
  exact ⟨B, R, A', h1, h2, h3, (dataEqL_iff_norm A' A).mpr h4⟩

/-- … stated for the diff of two trees.  SUPERSEDED by `reverse_apply_diff_partial_on`. -/
theorem reverse_apply_diff_partial {S : Schema} {fx : Fixes} (K : KeyOrder S) {A B₀ : List DNode} (hA : goodT S A = true)
    (hD : exactDiff S A (diff S true A B₀) = true) :
    ∃ B R A', apply S A (diff S true A B₀) fx = .ok B ∧ reverse S (diff S true A B₀) = .ok R ∧ apply S B R fx = .ok A' ∧
      dataEqL true A' A = true :=
  reverse_apply_partial K hA hD

/-! ### every computed diff is exact -/

/-- `diff_exact`: for well-formed trees over the fragment (`wfForest`, the trees of C06 `apply_diff_partial`: leaves, containers,
system-ordered keyed lists and leaf-lists in libyang's order, list keys where the schema puts them, no metadata, any depth),
what `lyd_diff_siblings(A, B, LYD_DIFF_DEFAULTS)` computes is an exact diff for `A`: every diff node addresses a different
instance and says the truth about it (`exactDiff`).  This discharges the hypothesis of `reverse_apply_partial` /
`reverse_involutive` for every computed diff.  No hypothesis on the `sort` callbacks is needed. -/
theorem diff_exact (S : Schema) (A B : List DNode) (hA : wfForest S A = true) (hB : wfForest S B = true) :
    exactDiff S A (diff S true A B) = true :=
  exactDiff_diff S A B hA hB

/-- the trees of C06 are trees of the C13 fragment -/
theorem wfForest_goodT (S : Schema) (A : List DNode) (hA : wfForest S A = true) : goodT S A = true :=
  goodT_of_wfForest S A hA

/-- `diff_exact` is false as written for `goodT` alone: `goodT` does not say where list-key leaves may occur, and a diff node
for a key leaf is never exact (`exactE` demands `!S.isKey`; apply skips the leading keys of a diff level).  A = one key leaf
at the top level (not a data tree libyang can build), B = empty: the diff is `delete` of that leaf. -/
def keyS : Schema := { modName := "keytop", nodes := [ { depth := 0, kind := .leaf, name := "k", iskey := true } ] }

theorem diff_exact_goodT_fails :
    ¬ ∀ (S : Schema) (A B : List DNode), goodT S A = true → goodT S B = true → exactDiff S A (diff S true A B) = true := by
  intro h
  have h1 := h keyS [.term 0 {} [] (bs "x")] [] (by decide +kernel) (by decide +kernel)
  have h2 : exactDiff keyS [.term 0 {} [] (bs "x")] (diff keyS true [.term 0 {} [] (bs "x")] []) = false := by decide +kernel
  rw [h1] at h2
  exact absurd h2 (by decide)

/-- C06 `apply_diff_partial` in the observation of C13: applying the computed diff to `A` gives `B` (`dataEqL true`) -/
theorem apply_diff_obs (S : Schema) (fx : Fixes) (A B : List DNode) (hA : wfForest S A = true) (hB : wfForest S B = true)
    (hk : KeysDistinguished S (A ++ B)) :
    ∃ B', apply S A (diff S true A B) fx = .ok B' ∧ goodT S B' = true ∧ dataEqL true B' B = true := by
  obtain ⟨B', h1, h2, h3, _⟩ := Diff.diff_chain_exact S fx A B B hA hB hB hk
  exact ⟨B', h1, h2, (dataEqL_iff_norm B' B).mpr h3⟩

/-- `reverse_apply` on the fragment: for well-formed `A`, `B` the reversed diff of `diff(A, B)`, applied to the
tree the diff leads to, gives `A` back (structure, values, default flags of leaves / leaf-list instances).  SUPERSEDED by
`reverse_apply_diff_on` / `reverse_apply_diff_keyed` (`KeyOrder S` cannot hold when `S` has a keyed list). -/
theorem reverse_apply_diff {S : Schema} {fx : Fixes} (K : KeyOrder S) {A B₀ : List DNode} (hA : wfForest S A = true)
    (hB : wfForest S B₀ = true) :
    ∃ B R A', apply S A (diff S true A B₀) fx = .ok B ∧ reverse S (diff S true A B₀) = .ok R ∧ apply S B R fx = .ok A' ∧
      dataEqL true A' A = true :=
  reverse_apply_partial K (goodT_of_wfForest S A hA) (diff_exact S A B₀ hA hB)

/-- `reverse_apply` on the fragment, with the literal second tree — the law as the check evaluates it (`reverseApply` =
`lyd_diff_apply_all(B, lyd_diff_reverse_all(lyd_diff_siblings(A, B, DEFAULTS)))`): for well-formed `A`, `B` it succeeds and
gives `A` back (structure, values, default flags of leaves / leaf-list instances).  Combines C06 `apply_diff_partial` (its
hypothesis `KeysDistinguished` follows from `KeyOrder`: `keysDistinguished_of_keyOrder`), `diff_exact`, `reverse_apply_partial`
and `apply_congr` (Diff/LemmasCongr.lean): `lyd_diff_apply_all` respects the observation in its data argument, for every diff
and every schema.  SUPERSEDED by `reverse_apply_on` and the hypothesis-free `reverse_apply_keyed` below (`KeyOrder S` cannot hold
when `S` has a keyed list: `keyOrder_no_keyed_list`). -/
theorem reverse_apply {S : Schema} {fx : Fixes} (K : KeyOrder S) (A B : List DNode) (hA : wfForest S A = true)
    (hB : wfForest S B = true) :
    ∃ A', reverseApply S true A B fx = .ok A' ∧ dataEqL true A' A = true := by
  obtain ⟨R, A', hR, hA', hn⟩ := reverse_apply_literal (fx := fx) K A B hA hB
  refine ⟨A', ?_, (dataEqL_iff_norm A' A).mpr hn⟩
  simp [reverseApply, hR, Except.bind, applyD, hA']

/-- LIMITATION of every theorem here that assumes `KeyOrder S` (repaired by the `_on` / `_keyed` theorems of the section "keyed
lists"): the hypothesis cannot hold for a schema with a keyed system-ordered list that has a key leaf.  `KeyOrder` quantifies over all nodes of the right shape (`Dom`), also list instances
whose key children are missing: `x` = an instance without key children, `y` = one with a key child are not the same instance
(`sameInst`) and `cmpInst` (`rb_compare_lists` stops at the shorter key list) cannot order them, against `KeyOrder.total`.  So
the `KeyOrder` versions of `reverse_apply*` / `merge_cell_apply` speak about leaves, containers and system-ordered leaf-lists
(`keyOrder_of_stringLL`); `K13.KeyOrderOn S (K13.keyedOK S)` restricts the axioms to instances with all their keys and canonical
values, and holds (`K13.keyOrderOn_keyed`).
`diff_exact`, `reverse_involutive_diff` and `apply_congr` do not assume `KeyOrder` and cover keyed lists. -/
theorem keyOrder_no_keyed_list {S : Schema} (K : KeyOrder S) {s k : Nat} (hs : S.isSorted s = true)
    (hl : S.isKind s .list = true) (hk : S.isKey k = true) : False :=
  keyOrder_no_keyed_list' K hs hl hk

/-! ### a non-trivial instance: leaf replace with default-flag change, leaf delete, leaf-list create / delete, container delete -/

def exS : Schema := { modName := "c13ex", nodes := [
  { depth := 0, kind := .container, name := "c" },
  { depth := 1, kind := .leaf, name := "f", dflts := [bs "d"] },
  { depth := 1, kind := .leaf, name := "g" },
  { depth := 1, kind := .leaflist, name := "ll" },
  { depth := 1, kind := .container, name := "p", presence := true },
  { depth := 2, kind := .leaf, name := "h" },
  { depth := 0, kind := .leaf, name := "top" } ] }

def tm (sid : Nat) (v : String) (d : Bool := false) : DNode := .term sid { dflt := d } [] (bs v)
def exA : List DNode :=
  [ .inner 0 {} [] [ tm 1 "d" true, tm 2 "x", tm 3 "a", tm 3 "c", .inner 4 {} [] [ tm 5 "hh" ] ], tm 6 "1" ]
def exB : List DNode := [ .inner 0 {} [] [ tm 1 "e", tm 3 "b", tm 3 "c" ] ]

example : ∃ _ : KeyOrder exS, goodT exS exA = true ∧ exactDiff exS exA (diff exS true exA exB) = true ∧
    (diff exS true exA exB).length = 2 :=
  ⟨keyOrder_of_stringLL (by decide +kernel), by decide +kernel, by decide +kernel, by decide +kernel⟩

/-- `reverse_involutive` on the fragment: reversing the reversed diff of an exact diff gives the diff back — exactly, metadata
order included — as the copy `lyd_dup_siblings` makes of it (`revDupL`: every node `LYD_NEW`, `LYD_WHEN_TRUE` dropped).
`stdL`: `create` / `delete` nodes carry the `yang:operation` metadata only, as `lyd_diff_add` writes them (the operation
is re-appended at the end of the metadata list by `lyd_diff_change_op`). -/
theorem reverse_involutive {S : Schema} {A D : List DNode} (hD : exactDiff S A D = true) (hstd : stdL D = true) :
    ∃ R, reverse S D = .ok R ∧ reverse S R = .ok (revDupL D) :=
  reverse_reverse hD hstd

example : stdL (diff exS true exA exB) = true := by decide +kernel
example : wfForest exS exA = true ∧ wfForest exS exB = true := by decide +kernel
example : ∃ A', reverseApply exS true exA exB = .ok A' ∧ dataEqL true A' exA = true :=
  reverse_apply (keyOrder_of_stringLL (by decide +kernel)) exA exB (by decide +kernel) (by decide +kernel)
example : exactDiff exS exA (diff exS true exA exB) = true := diff_exact exS exA exB (by decide +kernel) (by decide +kernel)

/-- `reverse_involutive` for every computed diff of well-formed trees, unconditionally: `diff(A, B)` is exact (`diff_exact`)
and has the metadata layout `lyd_diff_add` writes (`stdL_diff`). -/
theorem reverse_involutive_diff {S : Schema} {A B : List DNode} (hA : wfForest S A = true) (hB : wfForest S B = true) :
    ∃ R, reverse S (diff S true A B) = .ok R ∧ reverse S R = .ok (revDupL (diff S true A B)) :=
  reverse_reverse (diff_exact S A B hA hB) (stdL_diff S A B hA hB)

example : ∃ R, reverse exS (diff exS true exA exB) = .ok R ∧ reverse exS R = .ok (revDupL (diff exS true exA exB)) :=
  reverse_involutive_diff (by decide +kernel) (by decide +kernel)

/-! ## keyed lists: the same laws under an order hypothesis that keyed lists satisfy, and with no order hypothesis at all

`K13.KeyOrderOn S P`: the axioms of `KeyOrder S`, asked only of nodes that satisfy `P`; `K13.goodT S P` / `K13.exactDiff S P` /
`K13.allPL P`: the fragment predicates with `P` demanded of every node (Diff/K13Defs.lean, K13Bridge.lean:
`K13.goodT S P L = goodT S L && K13.allPL P L`).  What is used of the type orders (`Tree.BaseTy.cmp`, the plugins' `sort`
callbacks): `lt` is asymmetric and transitive, `eq` is a congruence (C06 Diff/OrderTheory.lean), and — for totality — two
CANONICAL values the callback cannot tell apart are equal (`K13.canon_cmp_eq`; true of the seven types of the tree base, false of
date-and-time: finding F28). -/

/-- `reverse_apply_partial` under `KeyOrderOn S P`: for a good tree all of whose nodes satisfy `P` and an exact diff all of whose
nodes satisfy `P`, the reversed diff applied to the tree the diff leads to gives the original tree back. -/
theorem reverse_apply_partial_on {S : Schema} {fx : Fixes} {P : DNode → Bool} (K : K13.KeyOrderOn S P) {A D : List DNode}
    (hA : K13.goodT S P A = true) (hD : K13.exactDiff S P A D = true) :
    ∃ B R A', apply S A D fx = .ok B ∧ reverse S D = .ok R ∧ apply S B R fx = .ok A' ∧ dataEqL true A' A = true := by
  obtain ⟨B, R, A', h1, _, h2, _, h3, h4⟩ := K13.reverse_roundtrip K hA hD
  exact ⟨B, R, A', h1, h2, h3, (dataEqL_iff_norm A' A).mpr h4⟩

/-- … with the driver's predicates: `goodT`, `exactDiff` (what the check module evaluates) and `P` on all nodes -/
theorem reverse_apply_partial_on' {S : Schema} {fx : Fixes} {P : DNode → Bool} (K : K13.KeyOrderOn S P) {A D : List DNode}
    (hA : goodT S A = true) (hD : exactDiff S A D = true) (hpA : K13.allPL P A = true) (hpD : K13.allPL P D = true) :
    ∃ B R A', apply S A D fx = .ok B ∧ reverse S D = .ok R ∧ apply S B R fx = .ok A' ∧ dataEqL true A' A = true :=
  reverse_apply_partial_on K (K13.goodT_intro hA hpA) (K13.exactDiff_intro hD hpD)

/-- … stated for the diff of two trees -/
theorem reverse_apply_diff_partial_on {S : Schema} {fx : Fixes} {P : DNode → Bool} (K : K13.KeyOrderOn S P) {A B₀ : List DNode}
    (hA : K13.goodT S P A = true) (hD : K13.exactDiff S P A (diff S true A B₀) = true) :
    ∃ B R A', apply S A (diff S true A B₀) fx = .ok B ∧ reverse S (diff S true A B₀) = .ok R ∧ apply S B R fx = .ok A' ∧
      dataEqL true A' A = true :=
  reverse_apply_partial_on K hA hD

/-- the old statements are the instance `P = fun _ => true` -/
theorem reverse_apply_partial_of_on {S : Schema} {fx : Fixes} (K : KeyOrder S) {A D : List DNode} (hA : goodT S A = true)
    (hD : exactDiff S A D = true) :
    ∃ B R A', apply S A D fx = .ok B ∧ reverse S D = .ok R ∧ apply S B R fx = .ok A' ∧ dataEqL true A' A = true :=
  reverse_apply_partial_on' (K13.keyOrderOn_of_keyOrder K) hA hD (K13.allPL_true A) (K13.allPL_true D)

/-- `diff_exact` relative to `P`: the nodes of `diff(A, B)` are copies of nodes of `A` and `B`, so they satisfy `P` when those do
(`P` looks at the schema node, the value and the list keys only: `K13.PInv`) -/
theorem diff_exact_on {S : Schema} {P : DNode → Bool} (hP : K13.PInv S P) (A B : List DNode) (hA : wfForest S A = true)
    (hB : wfForest S B = true) (hpA : K13.allPL P A = true) (hpB : K13.allPL P B = true) :
    K13.exactDiff S P A (diff S true A B) = true :=
  K13.exactDiff_diff hP A B hA hB hpA hpB

/-- `reverse_apply_diff` under `KeyOrderOn S P` -/
theorem reverse_apply_diff_on {S : Schema} {fx : Fixes} {P : DNode → Bool} (K : K13.KeyOrderOn S P) {A B₀ : List DNode}
    (hA : wfForest S A = true) (hB : wfForest S B₀ = true) (hpA : K13.allPL P A = true) (hpB : K13.allPL P B₀ = true) :
    ∃ B R A', apply S A (diff S true A B₀) fx = .ok B ∧ reverse S (diff S true A B₀) = .ok R ∧ apply S B R fx = .ok A' ∧
      dataEqL true A' A = true :=
  reverse_apply_partial_on K (K13.goodT_of_wfForest A hA hpA) (diff_exact_on K.pinv A B₀ hA hB hpA hpB)

/-- `reverse_apply` (the law as the check evaluates it, with the literal second tree) under `KeyOrderOn S P`.  The hypothesis
`KeysDistinguished` of C06 `apply_diff_partial` follows from `KeyOrderOn` (`K13.keysDistinguished_of_keyOrderOn`), for keyed
lists as well. -/
theorem reverse_apply_on {S : Schema} {fx : Fixes} {P : DNode → Bool} (K : K13.KeyOrderOn S P) (A B : List DNode)
    (hA : wfForest S A = true) (hB : wfForest S B = true) (hpA : K13.allPL P A = true) (hpB : K13.allPL P B = true) :
    ∃ A', reverseApply S true A B fx = .ok A' ∧ dataEqL true A' A = true := by
  obtain ⟨R, A', hR, hA', hn⟩ := K13.reverse_apply_literal (fx := fx) K A B hA hB hpA hpB
  refine ⟨A', ?_, (dataEqL_iff_norm A' A).mpr hn⟩
  simp [reverseApply, hR, Except.bind, applyD, hA']

/-- **the order hypothesis holds**: for every schema whose list keys are leaves and whose enumerations have distinct values
(`K13.schemaOK`, decidable), the plugins' `sort` callbacks order the instances that carry all their keys with canonical values
strictly and totally, compatibly with `lyd_compare_single`. -/
theorem keyOrderOn_keyed {S : Schema} (hS : K13.schemaOK S = true) : K13.KeyOrderOn S (K13.keyedOK S) :=
  K13.keyOrderOn_keyed hS

/-- **`reverse_apply` with no order hypothesis**, keyed lists included: for every schema (`schemaOK`: keys are leaves, enum
values distinct — true of every YANG module) and all well-formed trees `A`, `B` (C06 `wfForest`: leaves, containers, choices,
system-ordered keyed lists and leaf-lists at any depth, list instances with their keys) whose key and leaf-list values are
canonical (`K13.canonT`, decidable: what `lyd_value` stores — `wfForest` does not say it), the reversed diff of `diff(A, B)`
applied to `B` succeeds and gives `A` back: structure, values and default flags.  No bound on depth, width, number of instances
or number of changes. -/
theorem reverse_apply_keyed {S : Schema} {fx : Fixes} (hS : K13.schemaOK S = true) (A B : List DNode)
    (hA : wfForest S A = true) (hB : wfForest S B = true) (hcA : K13.canonT S A = true) (hcB : K13.canonT S B = true) :
    ∃ A', reverseApply S true A B fx = .ok A' ∧ dataEqL true A' A = true :=
  reverse_apply_on (K13.keyOrderOn_keyed hS) A B hA hB (K13.keyedT_of_wf hA hcA) (K13.keyedT_of_wf hB hcB)

/-- … and in the form of `reverse_apply_diff` (applied to the tree the diff leads to) -/
theorem reverse_apply_diff_keyed {S : Schema} {fx : Fixes} (hS : K13.schemaOK S = true) {A B₀ : List DNode}
    (hA : wfForest S A = true) (hB : wfForest S B₀ = true) (hcA : K13.canonT S A = true) (hcB : K13.canonT S B₀ = true) :
    ∃ B R A', apply S A (diff S true A B₀) fx = .ok B ∧ reverse S (diff S true A B₀) = .ok R ∧ apply S B R fx = .ok A' ∧
      dataEqL true A' A = true :=
  reverse_apply_diff_on (K13.keyOrderOn_keyed hS) hA hB (K13.keyedT_of_wf hA hcA) (K13.keyedT_of_wf hB hcB)

/-- C06 `apply_diff_partial` in the observation of C13 with no hypothesis on the `sort` callbacks (its `KeysDistinguished` follows
from `keyOrderOn_keyed`) -/
theorem apply_diff_obs_keyed {S : Schema} (hS : K13.schemaOK S = true) (fx : Fixes) (A B : List DNode)
    (hA : wfForest S A = true) (hB : wfForest S B = true) (hcA : K13.canonT S A = true) (hcB : K13.canonT S B = true) :
    ∃ B', apply S A (diff S true A B) fx = .ok B' ∧ goodT S B' = true ∧ dataEqL true B' B = true :=
  apply_diff_obs S fx A B hA hB
    (K13.keysDistinguished_of_keyOrderOn (K13.keyOrderOn_keyed hS) (A ++ B) (K13.wfL_append hA hB)
      (by rw [K13.allPL_append, K13.keyedT_of_wf hA hcA, K13.keyedT_of_wf hB hcB]; rfl))

/-! ### non-vacuity: a keyed list with a `uint8` key (numeric, not lexicographic order: 2 < 10), three instances, a nested leaf
change below a container of an instance, an instance deleted and one created, an `int8` leaf-list with a negative value -/

def klS : Schema := { modName := "c13kl", nodes := [
  { depth := 0, kind := .list, name := "l", nkeys := 1 },
  { depth := 1, kind := .leaf, name := "k", ty := .uint8, iskey := true },
  { depth := 1, kind := .leaf, name := "v", dflts := [bs "d"] },
  { depth := 1, kind := .container, name := "n" },
  { depth := 2, kind := .leaf, name := "w" },
  { depth := 0, kind := .leaflist, name := "ll", ty := .int8 } ] }

def klI (k : String) (ks : List DNode) : DNode := .inner 0 {} [] (tm 1 k :: ks)
def klA : List DNode :=
  [ klI "1" [tm 2 "d" true, .inner 3 {} [] [tm 4 "a"]], klI "2" [tm 2 "x"], klI "10" [], tm 5 "-3", tm 5 "5" ]
def klB : List DNode :=
  [ klI "1" [tm 2 "e", .inner 3 {} [] [tm 4 "b"]], klI "3" [tm 2 "y"], klI "10" [], tm 5 "5", tm 5 "7" ]

example : K13.schemaOK klS = true := by decide +kernel
example : wfForest klS klA = true ∧ wfForest klS klB = true ∧ K13.canonT klS klA = true ∧ K13.canonT klS klB = true ∧
    (diff klS true klA klB).length = 5 := by decide +kernel
/-- the old hypothesis fails for this schema, the new one holds -/
example : ¬ KeyOrder klS := fun K => keyOrder_no_keyed_list K (s := 0) (k := 1) (by decide +kernel) (by decide +kernel)
  (by decide +kernel)
example : K13.KeyOrderOn klS (K13.keyedOK klS) := keyOrderOn_keyed (by decide +kernel)
example : ∃ A', reverseApply klS true klA klB = .ok A' ∧ dataEqL true A' klA = true :=
  reverse_apply_keyed (by decide +kernel) klA klB (by decide +kernel) (by decide +kernel) (by decide +kernel) (by decide +kernel)
example : ∃ B', apply klS klA (diff klS true klA klB) = .ok B' ∧ goodT klS B' = true ∧ dataEqL true B' klB = true :=
  apply_diff_obs_keyed (by decide +kernel) {} klA klB (by decide +kernel) (by decide +kernel) (by decide +kernel)
    (by decide +kernel)
example : K13.goodT klS (K13.keyedOK klS) klA = true ∧
    K13.exactDiff klS (K13.keyedOK klS) klA (diff klS true klA klB) = true := by decide +kernel
/-- the three enumerations the generator uses (tools/vlib/treegen.py `ENUMS`) have distinct values, so every generated schema is
`schemaOK` (keys are leaves by construction) -/
example : K13.tyOK (.enumeration [("a", 0), ("b", 1), ("c", 2)]) = true ∧
    K13.tyOK (.enumeration [("zero", 0), ("five", 5), ("neg", -3), ("big", 1000)]) = true ∧
    K13.tyOK (.enumeration [("x", 7), ("y", 3)]) = true := by decide
/-- a non-canonical key value (`007`) is what `canonT` excludes: the `sort` callback cannot tell it from `7` -/
example : K13.canonT klS [klI "007" []] = false ∧ wfForest klS [klI "007" []] = true := by decide +kernel

/-- `reverse_apply` is false as written for user-ordered leaf-lists (finding F15(a)) while `lyd_diff_reverse_all` lacks the second
pass over user-ordered nodes (`Generated.Diff13.reverseUserordRepaired = false`, read off `src/diff.c`): the reversed moves keep
their forward order.  A = `0 1 2`, B = `1 2 0`: the result is `0 2 1`.  The repaired variant: Props/C13RevUO.lean. -/
def uoS : Schema := { modName := "uo", nodes := [ { depth := 0, kind := .leaflist, name := "ul", ty := .uint8, userord := true } ] }
def ul (v : Nat) : DNode := .term 0 {} [] (natBytes v)

/-- the sibling order of the model is respected (`canon` is the identity) -/
def canonB (S : Schema) (T : List DNode) : Bool := beqL (canon S (heightL T + 1) T) T

theorem reverse_apply_userord_fails (hq : Generated.Diff13.reverseUserordRepaired = false) :
    ¬ ∀ (S : Schema) (A B : List DNode), canonB S A = true → canonB S B = true →
        ∃ A', reverseApply S true A B = .ok A' ∧ dataEqL true A' A = true := by
  intro h
  obtain ⟨A', h1, h2⟩ := h uoS [ul 0, ul 1, ul 2] [ul 1, ul 2, ul 0] (by decide +kernel) (by decide +kernel)
  have h3 : Generated.Diff13.reverseUserordRepaired = false →
      (match reverseApply uoS true [ul 0, ul 1, ul 2] [ul 1, ul 2, ul 0] with
        | .ok r => dataEqL true r [ul 0, ul 1, ul 2] | .error _ => false) = false := by decide +kernel
  have h4 := h3 hq
  rw [h1] at h4
  simp only at h4
  rw [h2] at h4
  exact absurd h4 (by decide)

/-- what the reversed diff of the witness does while `lyd_diff_reverse_all` lacks the second pass
(`Generated.Diff13.reverseUserordRepaired = false`): it succeeds with the order `0 2 1`; with the repair it gives `0 1 2` back
(Props/C13RevUO.lean) -/
example : Generated.Diff13.reverseUserordRepaired = false →
    (match reverseApply uoS true [ul 0, ul 1, ul 2] [ul 1, ul 2, ul 0] with
      | .ok r => dataEqL true r [ul 0, ul 2, ul 1] | .error _ => false) = true := by decide +kernel

/-- … and (finding F15(b)) a reversed `delete` of a user-ordered instance is a `create` without `yang:value` / `key` /
`position`: applying it fails.  A = `0 1`, B = `1`. -/
theorem reverse_apply_userord_delete_fails (hq : Generated.Diff13.reverseUserordRepaired = false) :
    ¬ ∀ (S : Schema) (A B : List DNode), canonB S A = true → canonB S B = true →
        ∃ A', reverseApply S true A B = .ok A' := by
  intro h
  obtain ⟨A', h1⟩ := h uoS [ul 0, ul 1] [ul 1] (by decide +kernel) (by decide +kernel)
  have h3 : Generated.Diff13.reverseUserordRepaired = false →
      (match reverseApply uoS true [ul 0, ul 1] [ul 1] with
        | .ok _ => false | .error e => e == .einval) = true := by decide +kernel
  have h4 := h3 hq
  rw [h1] at h4
  simp at h4

/-! ## merge -/

/-- `merge_apply` is false as written without `LYD_DIFF_DEFAULTS` (finding F18(a)): a deleted subtree carries a copy of a default
node of `B` that the first diff treats as absent.  A = `ln[0]/n/w=v`, B = `ln[0]` (with the default `n/w`), C = `{}`:
`lyd_diff_merge_all` fails with "Unable to merge operation delete with delete" (`LY_EINVAL`). -/
def lnS : Schema := { modName := "t4lnw", nodes := [
  { depth := 0, kind := .list, name := "ln", nkeys := 1 },
  { depth := 1, kind := .leaf, name := "k", ty := .uint8, iskey := true },
  { depth := 1, kind := .container, name := "n" },
  { depth := 2, kind := .leaf, name := "w", dflts := [bs "dv"] },
  { depth := 2, kind := .leaf, name := "u" } ] }
def lnT (n : DNode) : List DNode := [ .inner 0 {} [] [ tm 1 "0", n ] ]
def lnDflt : DNode := .inner 2 { dflt := true } [] [ tm 3 "dv" true ]
def lnV : DNode := .inner 2 {} [] [ tm 3 "v" ]

/-- `diff_exact`, `reverse_involutive_diff` on a keyed list (not covered by `KeyOrder`): nested value change with a default node -/
example : wfForest lnS (lnT lnV) = true ∧ wfForest lnS (lnT lnDflt) = true ∧ (diff lnS true (lnT lnV) (lnT lnDflt)).length = 1 := by
  decide +kernel
example : exactDiff lnS (lnT lnV) (diff lnS true (lnT lnV) (lnT lnDflt)) = true :=
  diff_exact lnS _ _ (by decide +kernel) (by decide +kernel)
example : ∃ R, reverse lnS (diff lnS true (lnT lnV) (lnT lnDflt)) = .ok R ∧
    reverse lnS R = .ok (revDupL (diff lnS true (lnT lnV) (lnT lnDflt))) :=
  reverse_involutive_diff (by decide +kernel) (by decide +kernel)
example : ¬ KeyOrder lnS := fun K => keyOrder_no_keyed_list K (s := 0) (k := 1) (by decide +kernel) (by decide +kernel)
  (by decide +kernel)

theorem merge_apply_nodefaults_fails :
    ¬ ∀ (S : Schema) (A B C : List DNode), canonB S A = true → canonB S B = true → canonB S C = true →
        ∃ C', mergeApply S false {} A B C = .ok C' := by
  intro h
  obtain ⟨C', h1⟩ := h lnS (lnT lnV) (lnT lnDflt) [] (by decide +kernel) (by decide +kernel) (by decide +kernel)
  have h3 : (match mergeApply lnS false {} (lnT lnV) (lnT lnDflt) [] with
      | .ok _ => false | .error e => e == .einval) = true := by decide +kernel
  rw [h1] at h3
  simp at h3

/-- `merge_apply` is false as written under `LYD_DIFF_MERGE_DEFAULTS` while `lyd_diff_merge_create` lacks the repaired condition
(finding F18(b), `Generated.Diff13.mergeDfltNeedsDeletedDflt = false`): `delete` + `create` of a leaf with its schema default
value becomes `none` with the OLD value.  A = `gb=z`, B = the default case (`fa=da` default), C = `fb=y, gb=db` (default):
the merged diff makes `gb = z` (default-flagged) of it. -/
def chS : Schema := { modName := "t5choice", nodes := [
  { depth := 0, kind := .choice, name := "ch", dfltCase := some "a" },
  { depth := 1, kind := .case, name := "a" },
  { depth := 2, kind := .leaf, name := "fa", dflts := [bs "da"] },
  { depth := 1, kind := .case, name := "b" },
  { depth := 2, kind := .leaf, name := "fb" },
  { depth := 2, kind := .leaf, name := "gb", dflts := [bs "db"] } ] }
def chA : List DNode := [ tm 5 "z" ]
def chB : List DNode := [ tm 2 "da" true ]
def chC : List DNode := [ tm 4 "y", tm 5 "db" true ]

theorem merge_apply_mergedefaults_fails (hq : Generated.Diff13.mergeDfltNeedsDeletedDflt = false) :
    ¬ ∀ (S : Schema) (A B C : List DNode), canonB S A = true → canonB S B = true → canonB S C = true →
        ∃ C', mergeApply S true { defaults := true } A B C = .ok C' ∧ dataEqL true C' C = true := by
  intro h
  obtain ⟨C', h1, h2⟩ := h chS chA chB chC (by decide +kernel) (by decide +kernel) (by decide +kernel)
  have h3 : Generated.Diff13.mergeDfltNeedsDeletedDflt = false →
      (match mergeApply chS true { defaults := true } chA chB chC with
        | .ok r => dataEqL true r chC | .error _ => false) = false := by decide +kernel
  have h4 := h3 hq
  rw [h1] at h4
  simp only at h4
  rw [h2] at h4
  exact absurd h4 (by decide)

/-- the same triple composes without the option, and with the option once the repaired condition is in place -/
example : (match mergeApply chS true { defaults := false } chA chB chC with
    | .ok r => dataEqL true r chC | .error _ => false) = true := by decide +kernel
example : Generated.Diff13.mergeDfltNeedsDeletedDflt = true →
    (match mergeApply chS true { defaults := true } chA chB chC with
      | .ok r => dataEqL true r chC | .error _ => false) = true := by decide +kernel

/-! ### the 4 × 4 operation table agrees with the source -/

/-- the enumeration is declared in the order the codes assume -/
theorem op_order_matches_source : Generated.Diff13.opOrder = [0, 1, 2, 3] := by decide

/-- every cell of the table that the C rejects (`LOGERR_MERGEOP`; read from the four `switch (cur_op)` by
tools/extractors/diff13.py) is rejected by the model, whatever the nodes are -/
theorem merge_table_rejects (sop cop : Op) (h : (opCode sop, opCode cop) ∉ Generated.Diff13.mergeAccepted)
    (S : Schema) (o : MergeOpts) (t src : DNode) : ∃ e, mergeCell S o sop t cop src = .error e := by
  cases sop <;> cases cop <;> first
    | exact absurd (by decide) h
    | (simp only [mergeCell, mergeCreate, mergeReplace, mergeNone, Except.map]; exact ⟨_, rfl⟩)
    | (by_cases hs : sameInst S t src = true
       · exact ⟨.einval, by simp [mergeCell, mergeDelete, hs, Except.map]⟩
       · exact ⟨.eint, by simp [mergeCell, mergeDelete, hs, Except.map]⟩)

/-- … and every accepted cell is accepted by the model for some nodes (a leaf `f` with the metadata `lyd_diff_siblings` writes) -/
def cellS : Schema := { modName := "cell", nodes := [ { depth := 0, kind := .leaf, name := "f", dflts := [bs "d"] } ] }
def cellN (op : String) (v : String) (more : List Meta := []) : DNode := .term 0 {} ([("operation", bs op)] ++ more) (bs v)

theorem merge_table_accepts (sop cop : Op) (h : (opCode sop, opCode cop) ∈ Generated.Diff13.mergeAccepted) :
    ∃ (t src : DNode), (mergeCell cellS {} sop t cop src).toBool = true := by
  cases sop <;> cases cop <;> first
    | exact absurd h (by decide)
    | exact ⟨cellN "delete" "x", cellN "create" "y", by decide +kernel⟩
    | exact ⟨cellN "create" "x", cellN "delete" "x", by decide +kernel⟩
    | exact ⟨cellN "replace" "y" [("orig-default", bs "false"), ("orig-value", bs "x")], cellN "delete" "y", by decide +kernel⟩
    | exact ⟨cellN "none" "x" [("orig-default", bs "true")], cellN "delete" "x", by decide +kernel⟩
    | exact ⟨cellN "create" "x", cellN "replace" "y" [("orig-default", bs "false"), ("orig-value", bs "x")], by decide +kernel⟩
    | exact ⟨cellN "replace" "y" [("orig-default", bs "false"), ("orig-value", bs "x")],
        cellN "replace" "z" [("orig-default", bs "false"), ("orig-value", bs "y")], by decide +kernel⟩
    | exact ⟨cellN "none" "x" [("orig-default", bs "true")],
        cellN "replace" "z" [("orig-default", bs "false"), ("orig-value", bs "x")], by decide +kernel⟩
    | exact ⟨cellN "create" "x", cellN "none" "x" [("orig-default", bs "false")], by decide +kernel⟩

/-- `merge_apply` over the trees of the fragment needs one more hypothesis than F18: the cell `none` + `replace` clears the
default flag instead of taking the one of the second diff (`merge_cell_none_replace`, hypothesis `hnd`).  A = `f = d` (explicit),
B = `f = d` (default-flagged), C = `f = e` default-flagged: the merged diff makes `f = e` without the flag.  Not reachable from
validated data (a leaf that carries `LYD_DEFAULT` has its one schema default value, so B and C cannot both be flagged with
different values) — `wfForest` / `goodT` do not say so; a tree-level `merge_apply_partial` has to assume it. -/
theorem merge_apply_dfltvalue_fails :
    ¬ ∀ (S : Schema) (A B C : List DNode), wfForest S A = true → wfForest S B = true → wfForest S C = true →
        ∃ C', mergeApply S true {} A B C = .ok C' ∧ dataEqL true C' C = true := by
  intro h
  obtain ⟨C', h1, h2⟩ := h cellS [tm 0 "d"] [tm 0 "d" true] [tm 0 "e" true] (by decide +kernel) (by decide +kernel)
    (by decide +kernel)
  have h3 : (match mergeApply cellS true {} [tm 0 "d"] [tm 0 "d" true] [tm 0 "e" true] with
      | .ok r => dataEqL true r [tm 0 "e" true] | .error _ => false) = false := by decide +kernel
  rw [h1] at h3
  simp only at h3
  rw [h2] at h3
  exact absurd h3 (by decide)

end LyModel.Props.C13
