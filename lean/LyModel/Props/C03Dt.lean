import LyModel.Val.DateTime
import LyModel.Val.LemmasDt
import LyModel.Val.LemmasDtCal
import LyModel.Val.LemmasDtCanon
import LyModel.Val.LemmasDtIdem
/-!
# C03, `ietf-yang-types:date-and-time` — property theorems about `lean/LyModel/Val/DateTime.lean`

The model mirrors `src/plugins_types/date_and_time.c`, `ly_time_str2time` / `ly_time_time2str` (`src/tree_data_common.c`) and the pattern
of the typedef as PCRE2 matches it; `tools/checks/valdt.py` compares it with the implementation on every run.

Assumptions (libc and environment are modelled, not verified):
* `timegm` / `gmtime_r` are the proleptic Gregorian calendar with 86400-second days (no leap seconds), `timegm` adds up fields that are
  out of range (glibc); here: closed-form days-from-civil / civil-from-days arithmetic;
* `atoi` / `strtol` of glibc in the C locale, `isdigit` of the C locale, `printf("%04d")`, `printf("%02d")`;
* PCRE2 10.42 with `PCRE2_UTF | PCRE2_UCP`: the subject must be well-formed UTF-8 and `\d` is the category Nd of Unicode 14.0.0;
* the time zone of the process is UTC (`ly_time_time2str` prints local time: the canonical form of libyang depends on `TZ`; the
  harness sets `TZ=UTC` before it creates the context);
* 64-bit `time_t`, little-endian host;
* signed overflow of C arithmetic (undefined behaviour) is outside the model, except the `double -> int` conversion of the sort callback,
  which is modelled with the x86-64 result (`INT_MIN`).

Three statements of the source exist in two shapes, the pinned one and the candidate repair (`fixes/F413.diff`, `F415.diff`,
`F416.diff`); `tools/extractors/valx.py` reads off which one the tree has (`Generated.dtSortClamped`, `dtZoneSignFromChar`,
`dtZoneHourLowerBound`) and `store` / `sort` of the model follow.  The theorems are stated for the variants explicitly
(`storeWith zonePinned`, `storeWith zoneRepaired`, `sortWith false`, `sortWith true`) or for every variant.

Where the code is defective the full statement is proved false with a witness (`…_fails`) and the true part is `…_partial`; where a
candidate repair exists the full statement is proved for the repaired variant (`…_repaired`).
Witness strings are given as byte lists, the text is in the comment next to them.
-/
namespace LyModel.Props.C03Dt
open LyModel LyModel.Val.DateTime
open LyModel.Val (checkHints cstr)

/-- data hints: XML, `lyd_new_term`, `lyd_value_validate` -/
abbrev H : Nat := Generated.LYD_HINT_DATA

def w2020Z : Bytes := [50, 48, 50, 48, 45, 48, 49, 45, 48, 49, 84, 48, 48, 58, 48, 48, 58, 48, 48, 90]                            -- 2020-01-01T00:00:00Z
def w2020U : Bytes := [50, 48, 50, 48, 45, 48, 49, 45, 48, 49, 84, 48, 48, 58, 48, 48, 58, 48, 48, 45, 48, 48, 58, 48, 48]    -- 2020-01-01T00:00:00-00:00
def w2020P : Bytes := [50, 48, 50, 48, 45, 48, 49, 45, 48, 49, 84, 48, 48, 58, 48, 48, 58, 48, 48, 43, 48, 48, 58, 48, 48]    -- 2020-01-01T00:00:00+00:00
def wFeb29 : Bytes := [50, 48, 50, 49, 45, 48, 50, 45, 50, 57, 84, 48, 48, 58, 48, 48, 58, 48, 48, 90]                            -- 2021-02-29T00:00:00Z
def wMar01 : Bytes := [50, 48, 50, 49, 45, 48, 51, 45, 48, 49, 84, 48, 48, 58, 48, 48, 58, 48, 48, 90]                            -- 2021-03-01T00:00:00Z
def wLeap9999 : Bytes := [57, 57, 57, 57, 45, 49, 50, 45, 51, 49, 84, 50, 51, 58, 53, 57, 58, 54, 48, 90]                         -- 9999-12-31T23:59:60Z
def wZone24 : Bytes := [50, 48, 50, 48, 45, 48, 49, 45, 48, 49, 84, 48, 48, 58, 48, 48, 58, 48, 48, 45, 50, 52, 58, 48, 48]   -- 2020-01-01T00:00:00-24:00
def wZoneM30 : Bytes := [50, 48, 50, 48, 45, 48, 49, 45, 48, 49, 84, 48, 48, 58, 48, 48, 58, 48, 48, 45, 48, 48, 58, 51, 48]  -- 2020-01-01T00:00:00-00:30
def wFrac5 : Bytes := [50, 48, 50, 48, 45, 48, 49, 45, 48, 49, 84, 48, 48, 58, 48, 48, 58, 48, 48, 46, 53, 90]                    -- 2020-01-01T00:00:00.5Z
def wFrac50 : Bytes := [50, 48, 50, 48, 45, 48, 49, 45, 48, 49, 84, 48, 48, 58, 48, 48, 58, 48, 48, 46, 53, 48, 90]               -- 2020-01-01T00:00:00.50Z
def wUni : Bytes := [240, 157, 159, 144, 48, 49, 50, 45, 48, 49, 45, 48, 49, 84, 48, 48, 58, 48, 48, 58, 48, 48, 90]              -- 𝟐012-01-01T00:00:00Z (U+1D7D0)

/-- decide a closed statement for each of the four variants of the zone code -/
macro "all_cfg" : tactic => `(tactic| (intro c; obtain ⟨a, b⟩ := c; cases a <;> cases b <;> decide))

theorem st_2020Z : ∀ c, storeWith c H w2020Z = .ok ⟨1577836800, none, false⟩ := by all_cfg
theorem st_2020U : ∀ c, storeWith c H w2020U = .ok ⟨1577836800, none, true⟩ := by all_cfg
theorem st_feb29 : ∀ c, storeWith c H wFeb29 = storeWith c H wMar01 ∧ storeWith c H wFeb29 = .ok ⟨1614556800, none, false⟩ := by all_cfg
theorem st_uni : ∀ c, storeWith c H wUni = .ok ⟨-62138271600, none, false⟩ := by all_cfg
theorem st_leap9999 : ∀ c, storeWith c H wLeap9999 = .ok ⟨253402300800, none, false⟩ := by all_cfg
theorem st_year10000 : ∀ c, storeWith c H (canon ⟨253402300800, none, false⟩) = .error .Month := by all_cfg

/-! ## acceptance -/

/-- Acceptance is the conjunction of the checks the code makes one after the other (the order only selects the error message): the hint
    check, more than 18 characters before the first NUL, month 1..12, day 1..31, hours ≤ 23, minutes ≤ 59, seconds ≤ 60 as `atoi` reads
    them at the byte offsets 5, 8, 11, 14, 17, a well-formed fraction and zone at offset 19, and the pattern of the typedef over the
    code points of the whole value.  Not checked: that the day exists in the month, a lower bound of the zone hour. -/
theorem dt_accept_iff (c : ZoneCfg) (hints : Nat) (s : Bytes) :
    (∃ v, storeWith c hints s = .ok v) ↔
      (checkHints hints "string").isSome = true ∧ 18 < (cstr s).length ∧
      1 ≤ (readTm (cstr s)).mon ∧ (readTm (cstr s)).mon ≤ 12 ∧ 1 ≤ (readTm (cstr s)).mday ∧ (readTm (cstr s)).mday ≤ 31 ∧
      (readTm (cstr s)).hour ≤ 23 ∧ (readTm (cstr s)).min ≤ 59 ∧ (readTm (cstr s)).sec ≤ 60 ∧
      (∃ fr z sh, fraction ((cstr s).drop 19) = .ok (fr, z) ∧ zoneShiftWith c z = .ok sh) ∧
      (∃ cps, decodeUtf8 s = some cps ∧ matchPattern cps = true) := by
  simp only [storeWith, str2timeWith, checkPattern]
  constructor
  · intro ⟨v, h⟩
    cases hh : checkHints hints "string" with
    | none => simp [hh] at h
    | some b =>
      by_cases n1 : (cstr s).length ≤ 18
      · simp [hh, n1] at h
      by_cases n2 : (readTm (cstr s)).mon - 1 < 0 ∨ (readTm (cstr s)).mon - 1 > 11
      · simp [hh, n1, n2] at h
      by_cases n3 : (readTm (cstr s)).mday < 1 ∨ (readTm (cstr s)).mday > 31
      · simp [hh, n1, n2, n3] at h
      by_cases n4 : (readTm (cstr s)).hour > 23
      · simp [hh, n1, n2, n3, n4] at h
      by_cases n5 : (readTm (cstr s)).min > 59
      · simp [hh, n1, n2, n3, n4, n5] at h
      by_cases n6 : (readTm (cstr s)).sec > 60
      · simp [hh, n1, n2, n3, n4, n5, n6] at h
      cases hf : fraction ((cstr s).drop 19) with
      | error e => simp [hh, n1, n2, n3, n4, n5, n6, hf] at h
      | ok p =>
        obtain ⟨fr, z⟩ := p
        cases hz : zoneShiftWith c z with
        | error e => simp [hh, n1, n2, n3, n4, n5, n6, hf, hz] at h
        | ok sh =>
          cases hc : decodeUtf8 s with
          | none => simp [hh, n1, n2, n3, n4, n5, n6, hf, hz, hc] at h
          | some cps =>
            by_cases hm : matchPattern cps = true
            · exact ⟨by simp, by omega, by omega, by omega, by omega, by omega, by omega, by omega, by omega, ⟨fr, z, sh, rfl, hz⟩, ⟨cps, rfl, hm⟩⟩
            · simp [hh, n1, n2, n3, n4, n5, n6, hf, hz, hc, hm] at h
  · intro ⟨h1, h2, h3, h4, h5, h6, h7, h8, h9, ⟨fr, z, sh, hfr, hz⟩, ⟨cps, hc, hm⟩⟩
    cases hh : checkHints hints "string" with
    | none => simp [hh] at h1
    | some b =>
      have n1 : ¬ (cstr s).length ≤ 18 := by omega
      have n2 : ((readTm (cstr s)).mon - 1 < 0 || (readTm (cstr s)).mon - 1 > 11) = false := by simp; omega
      have n3 : ((readTm (cstr s)).mday < 1 || (readTm (cstr s)).mday > 31) = false := by simp; omega
      have n4 : ¬ (readTm (cstr s)).hour > 23 := by omega
      have n5 : ¬ (readTm (cstr s)).min > 59 := by omega
      have n6 : ¬ (readTm (cstr s)).sec > 60 := by omega
      simp [n1, n2, n3, n4, n5, n6, hfr, hz, hc, hm]

/-- non-vacuity: an ordinary value is accepted -/
example : store H w2020Z = .ok ⟨1577836800, none, false⟩ ∧ storeWith zoneRepaired H w2020Z = .ok ⟨1577836800, none, false⟩ := by decide

/-- FULL STATEMENT (false: findings F107 and the new ones reported with this model): an accepted value denotes an existing calendar day
    and an RFC 3339 zone, and it is written with ASCII digits.  Witnesses: 2021-02-29 is accepted and stored as 2021-03-01; the zone
    `-24:00` is accepted (stored as the next day); `-00:30` is applied as `+00:30`; a value that starts with U+1D7D0 (MATHEMATICAL BOLD
    DIGIT TWO) is accepted and read as year 0, month 12, hour 01. -/
theorem dt_day_exists_fails :
    (∀ c, storeWith c H wFeb29 = storeWith c H wMar01 ∧ storeWith c H wFeb29 = .ok ⟨1614556800, none, false⟩) ∧
    storeWith zonePinned H wZone24 = .ok ⟨1577836800 + 86400, none, false⟩ ∧
    storeWith zonePinned H wZoneM30 = .ok ⟨1577836800 - 1800, none, false⟩ ∧
    (∀ c, ∃ v, storeWith c H wUni = .ok v ∧ canon v = [48, 48, 48, 48, 45, 49, 50, 45, 48, 49, 84, 48, 49, 58, 48, 48, 58, 48, 48, 43, 48, 48, 58, 48, 48]) := by
  exact ⟨st_feb29, by decide, by decide, fun c => ⟨⟨-62138271600, none, false⟩, st_uni c, by decide⟩⟩

/-- with the candidate repairs F415 / F416: the zone `-24:00` is refused, `-00:30` is half an hour west of UTC -/
theorem dt_zone_repaired :
    storeWith zoneRepaired H wZone24 = .error .ZoneHour ∧ storeWith zoneRepaired H wZoneM30 = .ok ⟨1577836800 + 1800, none, false⟩ := by decide

/-- FULL STATEMENT (false on the pinned tree, findings F415 / F416): the zone shift is less than a day and has the sign of the zone.
    Witnesses: `-24:00` yields -86400 s; `-00:30` yields +1800 s. -/
theorem dt_zone_shift_fails :
    ¬ (∀ z sh, zoneShiftWith zonePinned z = .ok sh → -86400 < sh ∧ sh < 86400 ∧ (z.head? = some 45 → sh ≤ 0)) := by
  intro h
  have h1 := h [45, 50, 52, 58, 48, 48] (-86400) (by decide)
  omega

/-- with the candidate repairs the zone shift is less than a day, and not positive for a zone that starts with `-` -/
theorem dt_zone_shift_repaired (z : Bytes) (sh : Int) (h : zoneShiftWith zoneRepaired z = .ok sh) :
    -86400 < sh ∧ sh < 86400 ∧ (z.head? = some 45 → sh ≤ 0) := by
  simp only [zoneShiftWith, zoneRepaired, Bool.true_and] at h
  split at h
  · cases h; rename_i hz
    refine ⟨by omega, by omega, ?_⟩
    intro h45; rw [h45] at hz; simp at hz
  · split at h
    · cases h
    · split at h
      · cases h
      · split at h
        · cases h
        · rename_i h1 _ h2
          simp only [Bool.or_eq_true, decide_eq_true_eq, not_or, Int.not_lt] at h1 h2
          cases h
          refine ⟨?_, ?_, ?_⟩
          · split <;> omega
          · split <;> omega
          · intro h45
            cases z with
            | nil => cases h45
            | cons x rest =>
              simp only [List.head?_cons, Option.some.injEq] at h45
              subst h45
              have := strtol_minus rest
              simp only [List.head?_cons, beq_self_eq_true, Bool.or_true, ↓reduceIte]
              omega

example : zoneShiftWith zoneRepaired [45, 48, 48, 58, 51, 48] = .ok (-1800) := by decide

/-- the part that holds: an accepted value has month 1..12 and day 1..31 (as read at the fixed offsets) and matches the pattern -/
theorem dt_day_exists_partial (c : ZoneCfg) (hints : Nat) (s : Bytes) (v : DtVal) (h : storeWith c hints s = .ok v) :
    1 ≤ (readTm (cstr s)).mon ∧ (readTm (cstr s)).mon ≤ 12 ∧ 1 ≤ (readTm (cstr s)).mday ∧ (readTm (cstr s)).mday ≤ 31 ∧
      ∃ cps, decodeUtf8 s = some cps ∧ matchPattern cps = true := by
  have := (dt_accept_iff c hints s).mp ⟨v, h⟩
  exact ⟨this.2.2.1, this.2.2.2.1, this.2.2.2.2.1, this.2.2.2.2.2.1, this.2.2.2.2.2.2.2.2.2.2⟩

example : ∃ v, store H wFeb29 = .ok v := ⟨⟨1614556800, none, false⟩, by decide⟩

/-! ## the calendar (`timegm`, `gmtime_r`) -/

/-- `timegm` inverts `gmtime_r` on every instant: the broken-down time determines the instant -/
theorem dt_timegm_gmtime (t : Int) : timegm (gmtime t) = t := timegm_gmtime t

/-- `gmtime_r` produces fields in their ranges -/
theorem dt_gmtime_fields (t : Int) :
    1 ≤ (gmtime t).mon ∧ (gmtime t).mon ≤ 12 ∧ 1 ≤ (gmtime t).mday ∧ (gmtime t).mday ≤ 31 ∧ 0 ≤ (gmtime t).hour ∧ (gmtime t).hour ≤ 23 ∧
      0 ≤ (gmtime t).min ∧ (gmtime t).min ≤ 59 ∧ 0 ≤ (gmtime t).sec ∧ (gmtime t).sec ≤ 59 := gmtime_range t

example : gmtime 951782400 = ⟨2000, 2, 29, 0, 0, 0⟩ ∧ gmtime (-1) = ⟨1969, 12, 31, 23, 59, 59⟩ := by decide

/-- `gmtime_r` inverts `timegm` on every broken-down time that denotes an existing day (day ≤ length of the month in the proleptic
    Gregorian calendar, leap years every 4th year except the centuries not divisible by 400) and a time of day without leap second:
    for these values `ly_time_str2time` stores exactly the date that was written -/
theorem dt_gmtime_timegm (tm : Tm) (hm : 1 ≤ tm.mon ∧ tm.mon ≤ 12) (hd : 1 ≤ tm.mday ∧ tm.mday ≤ daysInMonth tm.year tm.mon)
    (hh : 0 ≤ tm.hour ∧ tm.hour ≤ 23) (hmi : 0 ≤ tm.min ∧ tm.min ≤ 59) (hs : 0 ≤ tm.sec ∧ tm.sec ≤ 59) : gmtime (timegm tm) = tm :=
  gmtime_timegm tm hm hd hh hmi hs

/-- non-vacuity, and the hypothesis on the day is needed (F107): 2020-02-29 exists, 2021-02-29 comes back as 2021-03-01 -/
example : daysInMonth 2020 2 = 29 ∧ daysInMonth 1900 2 = 28 ∧ daysInMonth 2000 2 = 29 ∧
    gmtime (timegm ⟨2020, 2, 29, 23, 59, 59⟩) = ⟨2020, 2, 29, 23, 59, 59⟩ ∧ gmtime (timegm ⟨2021, 2, 29, 0, 0, 0⟩) = ⟨2021, 3, 1, 0, 0, 0⟩ := by decide

/-! ## canonical form -/

/-- For a value whose UTC year has four digits the canonical form is `YYYY-MM-DDThh:mm:ss` of the UTC broken-down time, the fraction
    digits exactly as they were given (no trailing zeros removed), and the zone `-00:00` for the unknown zone, `+00:00` otherwise. -/
theorem dt_canonical (v : DtVal) (hy : InYearRange v) :
    canon v = canonHead (gmtime v.time) ++ (match v.frac with | some f => 46 :: f | none => []) ++
      (if v.unknownTz then [45, 48, 48, 58, 48, 48] else [43, 48, 48, 58, 48, 48]) ∧ (canonHead (gmtime v.time)).length = 19 := by
  refine ⟨?_, canonHead_length _⟩
  rw [canon_shape v hy, List.append_assoc]; rfl

example : InYearRange ⟨1577836800, some [53], true⟩ ∧
    canon ⟨1577836800, some [53], true⟩ = [50, 48, 50, 48, 45, 48, 49, 45, 48, 49, 84, 48, 48, 58, 48, 48, 58, 48, 48, 46, 53, 45, 48, 48, 58, 48, 48] := by
  decide

/-- FULL STATEMENT (false): the canonical form of an accepted value is accepted again.  Witness: 9999-12-31T23:59:60Z is accepted, its
    canonical form is `10000-01-01T00:00:00+00:00` (`%04d` of 10000), which is refused (the month is read at byte offset 5: `-01`). -/
theorem dt_canon_idempotent_fails (c : ZoneCfg) : ¬ ∀ s v, storeWith c H s = .ok v → ∃ w, storeWith c H (canon v) = .ok w := by
  intro h
  obtain ⟨w, hw⟩ := h wLeap9999 ⟨253402300800, none, false⟩ (st_leap9999 c)
  rw [st_year10000 c] at hw
  cases hw

/-- the part that holds (every variant of the zone code): the canonical form of an accepted value whose UTC year has four digits is
    accepted and stores the same value — instant, fraction digits and unknown-zone flag; so it is its own canonical form -/
theorem dt_canon_idempotent_partial (c : ZoneCfg) (s : Bytes) (v : DtVal) (h : storeWith c H s = .ok v) (hy : InYearRange v) :
    storeWith c H (canon v) = .ok v :=
  store_canon c v hy (store_frac_wf h)

/-- the same for a value that was not stored from text (LYB): any instant with a four-digit UTC year and a well-formed fraction -/
theorem dt_canon_restorable (c : ZoneCfg) (v : DtVal) (hy : InYearRange v) (hf : ∀ g, v.frac = some g → g ≠ [] ∧ g.all Val.isDigit = true) :
    storeWith c H (canon v) = .ok v :=
  store_canon c v hy hf

/-- non-vacuity: 2020-01-01T00:00:00.5Z is stored, its year is in range, its canonical form `2020-01-01T00:00:00.5+00:00` differs from it -/
example : store H wFrac5 = .ok ⟨1577836800, some [53], false⟩ ∧ InYearRange ⟨1577836800, some [53], false⟩ ∧
    canon ⟨1577836800, some [53], false⟩ ≠ wFrac5 := by decide

/-! ## equality -/

/-- the compare callback is equality of the stored triple (instant, fraction digits, unknown-zone flag) -/
theorem dt_eq_iff_same_value (a b : DtVal) : cmpEq a b = true ↔ a = b := cmpEq_iff a b

/-- Values whose UTC year has four digits are equal exactly when their canonical forms are equal. -/
theorem dt_eq_iff_canon_eq (a b : DtVal) (ha : InYearRange a) (hb : InYearRange b) : cmpEq a b = true ↔ canon a = canon b := by
  rw [cmpEq_iff]
  exact ⟨fun h => by rw [h], canon_inj a b ha hb⟩

example : InYearRange ⟨1577836800, none, false⟩ ∧ InYearRange ⟨1577836800, none, true⟩ ∧
    cmpEq ⟨1577836800, none, false⟩ ⟨1577836800, none, true⟩ = false := by decide

/-- FULL STATEMENT (false without the year range): two different LYB values beyond the years `gmtime_r` can express both print the empty
    string (the print callback returns NULL). -/
theorem dt_eq_iff_canon_eq_fails : ¬ ∀ a b, WfVal a → WfVal b → (cmpEq a b = true ↔ canon a = canon b) := by
  intro h
  have := (h ⟨2 ^ 62, none, false⟩ ⟨2 ^ 62 + 1, none, false⟩ (by simp [WfVal]) (by simp [WfVal])).mpr (by decide)
  revert this; decide

/-! ## the sort callback -/

/-- FULL STATEMENT (false, finding F28): the sort callback returns 0 exactly for equal values.  Witness: `2020-01-01T00:00:00Z` and
    `2020-01-01T00:00:00-00:00` are different values that sort as equal (so do `.0` and `.00`, see the `_partial` statement). -/
theorem dt_sort_consistent_with_eq_fails (c : ZoneCfg) (k : Bool) :
    ¬ ∀ s1 s2 a b, storeWith c H s1 = .ok a → storeWith c H s2 = .ok b → (sortWith k a b = 0 ↔ cmpEq a b = true) := by
  intro h
  have := (h w2020Z w2020U ⟨1577836800, none, false⟩ ⟨1577836800, none, true⟩ (st_2020Z c) (st_2020U c)).mp
    (by cases k <;> decide)
  revert this; decide

/-- the same instant with the fractions `.5` and `.50` is ordered (`strcmp`), not sort-equal -/
example : ∃ a b, store H wFrac5 = .ok a ∧ store H wFrac50 = .ok b ∧ sortWith false a b = -1 ∧ sortWith true b a = 1 :=
  ⟨⟨1577836800, some [53], false⟩, ⟨1577836800, some [53, 48], false⟩, by decide, by decide, by decide, by decide⟩

/-- the part that holds: equal values sort as equal, and the sort callback returns 0 exactly for the same instant with fractions that are
    both zero (absent or all `0`) or identical — the unknown-zone flag and the number of zero digits are ignored -/
theorem dt_sort_consistent_with_eq_partial (k : Bool) (a b : DtVal) :
    (cmpEq a b = true → sortWith k a b = 0) ∧
    (sortWith k a b = 0 ↔ a.time = b.time ∧ ((fracIsZero a.frac = true ∧ fracIsZero b.frac = true) ∨
      (fracIsZero a.frac = false ∧ fracIsZero b.frac = false ∧ a.frac.getD [] = b.frac.getD []))) := by
  refine ⟨fun h => ?_, ?_⟩
  · rw [cmpEq_iff] at h
    subst h
    rw [sort_zero_iff, sortFrac_zero_iff]
    cases fracIsZero a.frac <;> simp
  · rw [sort_zero_iff, sortFrac_zero_iff]

example : sortWith false ⟨5, some [48], false⟩ ⟨5, none, true⟩ = 0 ∧ cmpEq ⟨5, some [48], false⟩ ⟨5, none, true⟩ = false := by decide

/-- two instants less than 2³¹ seconds apart: the `double → int` conversion of the difference is defined -/
def Near (a b : DtVal) : Prop := -(2 ^ 31 : Int) < a.time - b.time ∧ a.time - b.time < 2 ^ 31

instance (a b : DtVal) : Decidable (Near a b) := by unfold Near; infer_instance

/-- FULL STATEMENT (false): the sort callback is antisymmetric.  Witness: 0 and 2³¹ seconds (1970-01-01 and 2038-01-19T03:14:08): both
    directions are negative, because `(int)difftime(..)` is undefined for 2³¹ and yields `INT_MIN` on x86-64. -/
theorem dt_sort_total_preorder_fails : ¬ ∀ a b : DtVal, sortWith false a b = -sortWith false b a := by
  intro h
  have := h ⟨0, none, false⟩ ⟨2 ^ 31, none, false⟩
  revert this; decide

/-- the part that holds: on instants less than 2³¹ seconds (68 years) apart the sort callback is antisymmetric and transitive, i.e. a total
    preorder (totality is built into the `Int` result) -/
theorem dt_sort_total_preorder (a b c : DtVal) (hab : Near a b) (hbc : Near b c) (hac : Near a c) :
    sortWith false a b = -sortWith false b a ∧ (sortWith false a b ≤ 0 → sortWith false b c ≤ 0 → sortWith false a c ≤ 0) := by
  have hba : Near b a := ⟨by have := hab.2; omega, by have := hab.1; omega⟩
  rw [sort_near a b hab.1 hab.2, sort_near b a hba.1 hba.2, sort_near b c hbc.1 hbc.2, sort_near a c hac.1 hac.2]
  have ha := sortFrac_antisymm a.frac b.frac
  have ht := sortFrac_trans a.frac b.frac c.frac
  refine ⟨?_, ?_⟩
  · split <;> split <;> omega
  · intro h1 h2
    split at h1 <;> split at h2 <;> split <;> first | omega | (exact ht h1 h2) | skip
    all_goals
      rename_i e1 e2 e3
      simp only [ne_eq, Decidable.not_not] at e1 e2 e3
      omega

example : Near ⟨0, none, false⟩ ⟨2 ^ 31 - 1, some [53], true⟩ := by decide

/-- with the candidate repair F413 (the sign of the difference is returned) the sort callback is antisymmetric and transitive on all
    values -/
theorem dt_sort_total_preorder_repaired (a b c : DtVal) :
    sortWith true a b = -sortWith true b a ∧ (sortWith true a b ≤ 0 → sortWith true b c ≤ 0 → sortWith true a c ≤ 0) := by
  rw [sort_clamped a b, sort_clamped b a, sort_clamped b c, sort_clamped a c]
  have ha := sortFrac_antisymm a.frac b.frac
  have ht := sortFrac_trans a.frac b.frac c.frac
  refine ⟨?_, ?_⟩
  · repeat' split
    all_goals omega
  · intro h1 h2
    repeat' split at h1
    all_goals repeat' split at h2
    all_goals repeat' split
    all_goals first | omega | (exact ht h1 h2) | skip
    all_goals
      simp only [ne_eq, Decidable.not_not] at *
      omega

example : sortWith true ⟨0, none, false⟩ ⟨2 ^ 31, none, false⟩ = -1 ∧ sortWith true ⟨2 ^ 31, none, false⟩ ⟨0, none, false⟩ = 1 := by decide

/-! ## LYB -/

/-- a value printed to LYB (8 bytes `time_t`; flag byte and fraction digits only when one of them is set) and stored from LYB is the same
    value; `WfVal`: the instant fits 64 bits, a fraction is a non-empty digit string (what both store paths produce) -/
theorem dt_lyb_roundtrip (v : DtVal) (h : WfVal v) : unlyb (lyb v) = .ok v := unlyb_lyb v h

example : WfVal ⟨-1, some [57, 57, 57], true⟩ ∧ lyb ⟨-1, some [57, 57, 57], true⟩ = [255, 255, 255, 255, 255, 255, 255, 255, 1, 57, 57, 57] := by
  refine ⟨⟨by decide, by decide, ?_⟩, by decide⟩
  intro f hf; cases hf; exact ⟨by decide, by decide⟩

/-- With the lower bound of the zone hour in place (candidate repair F416) every value the text store accepts is well-formed: the instant
    fits 64 bits (no signed overflow in `t -= shift`), the fraction is a non-empty digit string.  (On the pinned tree the instant is
    bounded only through the pattern, which the model checks last; not proved here.) -/
theorem dt_store_wf (c : ZoneCfg) (hc : c.lower = true) (hints : Nat) (s : Bytes) (v : DtVal) (h : storeWith c hints s = .ok v) : WfVal v := by
  obtain ⟨z, sh, _, hz, ht, _⟩ := store_ok_parts h
  have hr := (dt_accept_iff c hints s).mp ⟨v, h⟩
  obtain ⟨_, _, r1, r2, r3, r4, r5, r6, r7, _⟩ := hr
  have a1 := atoi_range (cstr s)
  have a4 := atoi_range ((cstr s).drop 11)
  have a5 := atoi_range ((cstr s).drop 14)
  have a6 := atoi_range ((cstr s).drop 17)
  have hb := timegm_bound (readTm (cstr s)) a1 ⟨r1, r2⟩ ⟨r3, r4⟩ ⟨a4.1, r5⟩ ⟨a5.1, r6⟩ ⟨a6.1, r7⟩
  obtain ⟨a, b⟩ := c
  simp only at hc
  subst hc
  have hs := zoneShift_bound a z sh hz
  exact ⟨by omega, by omega, store_frac_wf h⟩

/-- a value accepted by the text store survives the LYB round trip (with the repair F416; on the pinned tree for every accepted value
    whose instant fits 64 bits) -/
theorem dt_lyb_roundtrip_stored (c : ZoneCfg) (hints : Nat) (s : Bytes) (v : DtVal) (h : storeWith c hints s = .ok v)
    (ht : c.lower = true ∨ (-(2 ^ 63 : Int) ≤ v.time ∧ v.time < 2 ^ 63)) : unlyb (lyb v) = .ok v := by
  rcases ht with hc | ht
  · exact unlyb_lyb v (dt_store_wf c hc hints s v h)
  · exact unlyb_lyb v ⟨ht.1, ht.2, store_frac_wf h⟩

example : storeWith zoneRepaired H wFrac5 = .ok ⟨1577836800, some [53], false⟩ ∧ zoneRepaired.lower = true ∧
    lyb ⟨1577836800, some [53], false⟩ = [0, 225, 11, 94, 0, 0, 0, 0, 0, 53] := by decide

end LyModel.Props.C03Dt
