import LyModel.Props.C07Valdiff
import LyModel.Valid.LemmasFixIdem
import LyModel.Valid.LemmasFixGood
/-!
# C07 — the idempotence chain for the REPAIRED `lyd_validate_cases` (finding F321, fixes/F321.diff; model: `Quirks.casesCountDefault = false`,
`casesStepFix`: default-flagged nodes — also a client-given empty non-presence container — do not make a case exist; when a case exists,
every node of every other case goes)

The theorems of Props/C07.lean / C07Valdiff.lean that carry `X.q.casesCountDefault = true` (`validate_idempotent_choice`, `validate_normal_form`,
`valdiff_exact_partial_validated`) speak about the unrepaired source.  Here they are for the repaired one.  The normal form needs ONE more
clause, because the repaired step also removes default nodes next to an existing case: on every sibling level, for every choice the
level's schema visits, **all nodes of the choice lie in one case, or no case of the choice has explicit data** (`fxG`; hereditarily
`fxCleanTop`).  The repaired step establishes it (`casesStepFix_fxG`, unless it reports DUPCASE), `lyd_validate_new`'s node loop only removes
nodes, `lyd_new_implicit` creates inside a choice only in the selected case (`want_sel`, `implL_fxG`), the subtree walk and
`lyd_validate_final_r` keep schema ids and only turn explicit nodes into default ones — and on siblings without new nodes it makes the
step a no-op (`casesStepFix_noop`).  Hypothesis added w.r.t. the unrepaired chain: the first validation reports no DUPCASE
(`noDupErr (validate X o t).errs`: no logged error is "data for both cases" — other errors are allowed, the model continues after them;
with DUPCASE reported the step cleans nothing).
-/
namespace LyModel.Props.C07
open LyModel LyModel.Tree LyModel.Valid

/-- **`validate_idempotent_choice`, repaired `lyd_validate_cases` (F321)** — schemas with `choice` / `case` in any nesting, the repaired
variants of F180, F188 and F321, every option set, every tree that follows the schema in ANY flag state, whose validation reports no
DUPCASE error: validating the result again returns the same tree and an empty change set — when no non-presence container is a case member
(`NoNpContInCase`), **or, for every schema of the class, when the tree satisfies the non-presence container invariant `npInvL`** (kept by the
edits of a history and by validation: `np_cont_dflt_reachable`).  The second alternative is WEAKER than the one of the unrepaired chain
(`npInvL ∧ newExplL`): the hypothesis of F189 — no empty non-presence container was just created — is gone, because the repaired step
finds the existing case on the explicit siblings and an explicit container keeps an explicit child through `lyd_validate_new`
(`prefinal_good3`). -/
theorem validate_idempotent_choice_fix (X : SchemaX) (o : VOpts) (t : List DNode)
    (hq1 : X.q.implicitInnerCase = false) (hq2 : X.q.autodelDirectCase = false) (hq3 : X.q.casesCountDefault = false)
    (hl : KidsLookupOk X) (hw : CaseWf X) (hnp : NoNpContInCase X ∨ npInvL X.base t)
    (hp : placedCL X X.top t = true) (hh : sheightL X.top ≤ walkFuel X t) (hv : noDupErr (validate X o t).errs) :
    (validate X o (validate X o t).tree).tree = (validate X o t).tree ∧
    (validate X o (validate X o t).tree).evs = [] :=
  validate_idempotent4 X o hq1 hq2 hq3 hl hw t hnp hp hh hv

/-- the example schema `Sc` of Props/C07.lean with every repair in -/
def XcFix : SchemaX := { SchemaX.ofSchema Sc with q := Quirks.fixed }

/-- non-vacuity (schema `Sc`, history state `tc`: a new `x` of case `a` next to the old `w` of case `b`; in `n` the old default `r` of the
default case `q` next to a new `t` of case `s`): the hypotheses hold for the repaired variant, the first validation reports no error
and makes 4 changes, the second none -/
example : XcFix.q.implicitInnerCase = false ∧ XcFix.q.autodelDirectCase = false ∧ XcFix.q.casesCountDefault = false ∧ KidsLookupOk XcFix ∧
    CaseWf XcFix ∧ (NoNpContInCase XcFix ∨ npInvL XcFix.base tc) ∧ placedCL XcFix XcFix.top tc = true ∧
    sheightL XcFix.top ≤ walkFuel XcFix tc ∧ (validate XcFix {} tc).errs = [] ∧
    (validate XcFix {} tc).evs.length = 4 ∧ (validate XcFix {} (validate XcFix {} tc).tree).evs.length = 0 := by
  refine ⟨rfl, rfl, rfl, lookupOk_of_B XcFix (by decide), caseWf_of_B XcFix (by decide), Or.inl (noNpContInCase_of_B XcFix (by decide)),
    by decide, by decide, by decide +kernel, by decide +kernel, by decide +kernel⟩

/-- the witness of F189 (`X189`, `t189` of Props/C07.lean: the explicit container `c` of the non-default case `a1` holds the old explicit `y` and a
just-created empty default container `c2` of the other inner case) with the repair in: the invariant holds, `newExplL` does NOT, the
validation reports no error, removes `c2` (recorded), keeps `y` and `c` — and the second validation does nothing.  F189 is gone. -/
example :
    let X : SchemaX := { SchemaX.ofSchema S189 with q := Quirks.fixed }
    X.q.casesCountDefault = false ∧ ¬ NoNpContInCase X ∧ ¬ newExplL t189 ∧ (validate X {} t189).errs = [] ∧
    (validate X {} t189).evs.map (·.node.sid) = [7] ∧ (validate X {} t189).tree.map (fun n => n.kids.map (·.sid)) = [[5]] ∧
    (validate X {} (validate X {} t189).tree).evs.length = 0 := by
  refine ⟨rfl, ?_, ?_, by decide +kernel, by decide +kernel, by decide +kernel, by decide +kernel⟩
  · intro h
    exact absurd (h.1 2 (by decide)) (by decide)
  · intro h
    simp only [t189, newExplL, newExplN, and_true] at h
    exact absurd (h.2.2 trivial) (by decide)

/-- **`validate_normal_form`, repaired `lyd_validate_cases`** (same class; not the `LYD_VALIDATE_PRESENT` call on an empty tree): the result of
every accepted validation is *stable* and *clean*; a stable and clean tree is left as it is, with an empty change set; and an accepted
tree that is left as it is, with an empty change set, is stable and clean.  `StableTop` is spelled out by `StableTop_spec` (Props/C07.lean:
`validate_normal_form`); `fxCleanTop`: on the top level and on the children of every inner node, for every choice the level visits, all
nodes of the choice lie in one case or no case of the choice has explicit data. -/
theorem validate_normal_form_fix (X : SchemaX) (o : VOpts) (t : List DNode)
    (hq1 : X.q.implicitInnerCase = false) (hq2 : X.q.autodelDirectCase = false) (hq3 : X.q.casesCountDefault = false)
    (hl : KidsLookupOk X) (hw : CaseWf X) (hnp : NoNpContInCase X ∨ npInvL X.base t)
    (hp : placedCL X X.top t = true) (hh : sheightL X.top ≤ walkFuel X t) (hpe : (o.present && t.isEmpty) = false)
    (hv : noDupErr (validate X o t).errs) :
    (StableTop X o (validate X o t).tree ∧ fxCleanTop X (validate X o t).tree) ∧
    (StableTop X o t ∧ fxCleanTop X t → (validate X o t).tree = t ∧ (validate X o t).evs = []) ∧
    ((validate X o t).tree = t ∧ (validate X o t).evs = [] → StableTop X o t ∧ fxCleanTop X t) := by
  have h1 := validate_stable4 X o hq1 hq2 hq3 hl hw t hnp hp hh hpe
  have h2 := validate_clean X o hq1 hq2 hq3 hl hw t hp hh hpe hv
  refine ⟨⟨h1, h2⟩, fun h => validate_of_stable3 X o hq1 hq3 t h.1 h.2, ?_⟩
  intro h
  rw [h.1] at h1 h2
  exact ⟨h1, h2⟩

/-- **`valdiff_exact_partial_validated`, repaired `lyd_validate_cases`**: the result `t' = validate t` of any accepted validation of the class,
validated again without error, gets the empty change set, and applying it to `t'` gives `validate t'` (= `t'`). -/
theorem valdiff_exact_partial_validated_fix (X : SchemaX) (o : VOpts) (fx : Diff.Fixes) (t : List DNode)
    (hq1 : X.q.implicitInnerCase = false) (hq2 : X.q.autodelDirectCase = false) (hq3 : X.q.casesCountDefault = false)
    (hl : KidsLookupOk X) (hw : CaseWf X) (hnp : NoNpContInCase X ∨ npInvL X.base t)
    (hp : placedCL X X.top t = true) (hh : sheightL X.top ≤ walkFuel X t) (hv1 : noDupErr (validate X o t).errs)
    (hv : (validate X o (validate X o t).tree).errs = []) :
    validateDiff X o (validate X o t).tree = some [] ∧ valdiffExact X o fx (validate X o t).tree = true := by
  obtain ⟨h1, h2⟩ := validate_idempotent4 X o hq1 hq2 hq3 hl hw t hnp hp hh hv1
  obtain ⟨a, _, c⟩ := valdiffExact_of_unchanged X o fx _ h1 h2 hv
  exact ⟨a, c⟩

end LyModel.Props.C07
