import LyModel.Val.LemmasInst
/-!
# C03 — instance-identifier: canonical form and equality

Property theorems about the model `LyModel/Val/InstId.lean` of `src/plugins_types/instanceid.c` (store = `ly_path_parse` with
`LY_PATH_BEGIN_ABSOLUTE` / `LY_PATH_PREFIX_STRICT_INHERIT` + `ly_path_compile` with the predicate values stored through the
plug-in of the key / leaf-list type, canonical form = `instanceid_path2str` in JSON format, compare =
`lyplg_type_compare_simple`, sort = `lyplg_type_sort_simple`).  The model is tied to the code by `tools/checks/valinst.py` on
every run.  Two statements of the source are read by `tools/extractors/valinst.py` (`Generated.instVarRefused` — F421,
`Generated.instKeysSchemaOrder` — F422); the theorems below are stated for the pinned (`false`) and the repaired (`true`)
variant explicitly, whatever the source is at the moment.  Statements only; lemmas are in `LyModel/Val/LemmasInst.lean`.
-/
namespace LyModel.Props.C03InstId
open LyModel LyModel.Path LyModel.Val LyModel.Val.InstId

/-- schema of the witnesses: module `ma` with the list `l` (string keys `k1`, `k2`; a container `c` with the leaf `y`; a leaf
    `x` and a state leaf-list `sl` of module `mb` augmented into it), the key-less list `kl`, and the list `tl` with the `int8`
    key `n` and the leaf-list `fl` of type `uint8 { range "1..10"; }` -/
def exSchema : List TNode :=
  [.mk [109, 97] [108] (.list true) none
    [.mk [109, 97] [107, 49] (.leaf true) (some (.str [])) [], .mk [109, 97] [107, 50] (.leaf true) (some (.str [])) [],
     .mk [109, 97] [99] .inner none [.mk [109, 97] [121] (.leaf false) (some (.str [])) []],
     .mk [109, 98] [120] (.leaf false) (some (.str [])) [], .mk [109, 98] [115, 108] (.leaflist false) (some (.str [])) []],
   .mk [109, 97] [107, 108] .keyless none [.mk [109, 97] [121] (.leaf false) (some (.str [])) []],
   .mk [109, 97] [116, 108] (.list true) none
    [.mk [109, 97] [110] (.leaf true) (some (.int .int8 [])) [],
     .mk [109, 97] [102, 108] (.leaflist true) (some (.int .uint8 [(1, 10)])) []]]

/-- `/ma:l[k2="it's"][k1=7]/mb:sl[ 02 ]` -/
def exValue1 : Bytes :=
  [47, 109, 97, 58, 108, 91, 107, 50, 61, 34, 105, 116, 39, 115, 34, 93, 91, 107, 49, 61, 55, 93, 47, 109, 98, 58, 115, 108, 91, 32, 48, 50, 32, 93]

/-- its canonical form on the pinned source `/ma:l[k2="it's"][k1='7']/mb:sl[2]` (keys as written) -/
def exCanon1 : Bytes :=
  [47, 109, 97, 58, 108, 91, 107, 50, 61, 34, 105, 116, 39, 115, 34, 93, 91, 107, 49, 61, 39, 55, 39, 93, 47, 109, 98, 58, 115, 108, 91, 50, 93]

/-- `/ma:l[k1='a'][k2='b']/c/y` and the same instance with the key predicates exchanged -/
def exValueAB : Bytes := [47, 109, 97, 58, 108, 91, 107, 49, 61, 39, 97, 39, 93, 91, 107, 50, 61, 39, 98, 39, 93, 47, 99, 47, 121]
def exValueBA : Bytes := [47, 109, 97, 58, 108, 91, 107, 50, 61, 39, 98, 39, 93, 91, 107, 49, 61, 39, 97, 39, 93, 47, 99, 47, 121]

/-- `/ma:tl[n=' +07 ']/fl[.=010]` (typed key and leaf-list) and its canonical form `/ma:tl[n='7']/fl[.='10']` -/
def exTyped : Bytes :=
  [47, 109, 97, 58, 116, 108, 91, 110, 61, 39, 32, 43, 48, 55, 32, 39, 93, 47, 102, 108, 91, 46, 61, 48, 49, 48, 93]
def exTypedCanon : Bytes :=
  [47, 109, 97, 58, 116, 108, 91, 110, 61, 39, 55, 39, 93, 47, 102, 108, 91, 46, 61, 39, 49, 48, 39, 93]

/-- `/ma:l[k1=$v][k2='b']` -/
def exVar : Bytes := [47, 109, 97, 58, 108, 91, 107, 49, 61, 36, 118, 93, 91, 107, 50, 61, 39, 98, 39, 93]

/-- **instid_canonical_prefixes.** The canonical string is the concatenation of one segment `/[module:]name predicates` per
    compiled node, and the module prefix is printed on the first node and on exactly those later nodes whose module differs
    from the module of the node before (RFC 7951 sec. 6.11 name rule, which RFC 7950 / libyang take as the canonical form);
    for either order of the key predicates. -/
theorem instid_canonical_prefixes (ks : Bool) (cs : List CStep) :
    ∃ flags : List Bool, flags.length = cs.length ∧
      canonInstIdWith ks cs = (List.zipWith (seg ks) cs flags).flatten ∧
      (cs ≠ [] → flags[0]? = some true) ∧
      (∀ (i : Nat) (a b : CStep), cs[i]? = some a → cs[i + 1]? = some b → flags[i + 1]? = some (a.mod != b.mod)) := by
  refine ⟨modChanges none cs, modChanges_length cs none, canonSteps_eq_segs ks cs none, ?_, fun i a b => modChanges_succ cs none i a b⟩
  intro h
  cases cs with
  | nil => exact absurd rfl h
  | cons c r => rfl

/-- non-vacuity: stored values over two modules — the flags of `/ma:l[…]/mb:sl[2]` are `[true, true]`, those of `/ma:l[…]/c/y`
    are `[true, false, false]`; the typed value is printed with the canonical key / leaf-list values -/
example : (storeInstIdWith false exSchema exValue1).toOption.map (fun cs => (canonInstIdWith false cs, modChanges none cs)) = some (exCanon1, [true, true]) ∧
    (storeInstIdWith false exSchema exValueAB).toOption.map (fun cs => (canonInstIdWith false cs, modChanges none cs)) = some (exValueAB, [true, false, false]) ∧
    (storeInstIdWith true exSchema exTyped).toOption.map (fun cs => canonInstIdWith true cs) = some exTypedCanon := by
  decide +kernel

/-- **instid_eq_iff_canon_eq.** The compare callback answers "equal" exactly for values with the same canonical string, and
    the sort callback is a total preorder whose equivalence is that same equality (so a system-ordered leaf-list of
    instance-identifiers has one order). -/
theorem instid_eq_iff_canon_eq (a b c : List CStep) :
    (cmpEqInstId a b = true ↔ canonInstId a = canonInstId b) ∧
    (sortInstId a b = 0 ↔ cmpEqInstId a b = true) ∧
    sortInstId a b = -sortInstId b a ∧
    (sortInstId a b ≤ 0 → sortInstId b c ≤ 0 → sortInstId a c ≤ 0) :=
  ⟨cmpEq_iff a b, (sort_zero_iff a b).trans (cmpEq_iff a b).symm, sort_antisymm a b, sort_trans a b c⟩

/-- non-vacuity: the value and its canonical form are stored as equal values (either variant of the source) -/
example : ∀ ks ∈ [false, true], (match storeInstIdWith false exSchema exValue1 with
      | .ok a => (match storeInstIdWith false exSchema (canonInstIdWith ks a) with | .ok b => cmpEqInstIdWith ks a b | _ => false)
      | _ => false) = true := by
  decide +kernel

/-- two compiled paths name the same instance: same nodes, and per node the same predicate up to the order of the keys -/
def samePred : CPred → CPred → Bool
  | .keys k1, .keys k2 => k1.isPerm k2
  | p, q => p == q

def SameInstance : List CStep → List CStep → Bool
  | [], [] => true
  | a :: r, b :: s => a.mod == b.mod && a.name == b.name && a.keyNames == b.keyNames && samePred a.pred b.pred && SameInstance r s
  | _, _ => false

/-- **instid_eq_same_instance** (full statement, per variant `ks` of `instanceid_path2str`): stored values that identify the
    same instance are equal.  (`KeysDistinct` is what the parser guarantees for a stored value — "Duplicate predicate key" —;
    it is a hypothesis here, not derived.) -/
def EqSameInstance (ks : Bool) : Prop :=
  ∀ (schema : List TNode) (s1 s2 : Bytes) (a b : List CStep), storeInstIdWith false schema s1 = .ok a → storeInstIdWith false schema s2 = .ok b →
    KeysDistinct a → SameInstance a b = true → cmpEqInstIdWith ks a b = true

/-- FALSE for the pinned source (F422): the canonical string keeps the key predicates in the order they were written, and
    equality is equality of canonical strings, so `/ma:l[k1='a'][k2='b']/c/y` and `/ma:l[k2='b'][k1='a']/c/y` are different
    values (both can sit in one leaf-list). -/
theorem instid_eq_same_instance_fails : ¬ EqSameInstance false := by
  intro h
  have hv : (match storeInstIdWith false exSchema exValueAB, storeInstIdWith false exSchema exValueBA with
      | .ok a, .ok b => SameInstance a b && !cmpEqInstIdWith false a b &&
          decide (a = [⟨[109, 97], [108], .list true, [[107, 49], [107, 50]], .keys [([107, 49], [97]), ([107, 50], [98])]⟩,
                       ⟨[109, 97], [99], .inner, [], .none⟩, ⟨[109, 97], [121], .leaf false, [], .none⟩])
      | _, _ => false) = true := by decide +kernel
  cases ha : storeInstIdWith false exSchema exValueAB with
  | error e => rw [ha] at hv; simp at hv
  | ok a =>
    cases hb : storeInstIdWith false exSchema exValueBA with
    | error e => rw [ha, hb] at hv; simp at hv
    | ok b =>
      rw [ha, hb] at hv
      simp only [Bool.and_eq_true, Bool.not_eq_true', decide_eq_true_eq] at hv
      obtain ⟨⟨hs, hc⟩, hav⟩ := hv
      have hd : KeysDistinct a := by
        subst hav
        simp [KeysDistinct]
      have := h exSchema exValueAB exValueBA a b ha hb hd hs
      rw [hc] at this
      cases this

/-- TRUE once the key predicates are printed in the order of the keys (F422 repaired). -/
theorem instid_eq_same_instance_repaired : EqSameInstance true := by
  intro schema s1 s2 a b _ _ hd hs
  apply (cmpEqWith_iff true a b).mpr
  unfold canonInstIdWith
  suffices h : ∀ (a b : List CStep) (prev : Option Bytes), KeysDistinct a → SameInstance a b = true →
      canonStepsWith true prev a = canonStepsWith true prev b from h a b none hd hs
  intro a
  induction a with
  | nil =>
    intro b prev _ hs
    cases b with
    | nil => rfl
    | cons y s => simp [SameInstance] at hs
  | cons x r ih =>
    intro b prev hd hs
    cases b with
    | nil => simp [SameInstance] at hs
    | cons y s =>
      simp only [SameInstance, Bool.and_eq_true, beq_iff_eq] at hs
      obtain ⟨⟨⟨⟨hm, hn⟩, hk⟩, hp⟩, hr⟩ := hs
      obtain ⟨hdx, hdr⟩ := hd
      have hname : canonName prev x = canonName prev y := by simp [canonName, hm, hn]
      have hpred : canonPredWith true x.keyNames x.pred = canonPredWith true y.keyNames y.pred := by
        rw [← hk]
        cases hx : x.pred with
        | keys k1 =>
          cases hy : y.pred with
          | keys k2 =>
            rw [hx, hy] at hp
            rw [hx] at hdx
            simp only [samePred, List.isPerm_iff] at hp
            simp only [canonPredWith, orderKeys_perm hp hdx]
          | none => rw [hx, hy] at hp; simp [samePred] at hp
          | dot v => rw [hx, hy] at hp; simp [samePred] at hp
          | pos n => rw [hx, hy] at hp; simp [samePred] at hp
        | none => rw [hx] at hp; simp only [samePred, beq_iff_eq] at hp; rw [← hp]
        | dot v => rw [hx] at hp; simp only [samePred, beq_iff_eq] at hp; rw [← hp]
        | pos n => rw [hx] at hp; simp only [samePred, beq_iff_eq] at hp; rw [← hp]
      simp only [canonStepsWith, hname, hpred, ← hm, ih s (some x.mod) hdr hr]

/-- non-vacuity of the repaired statement: the two key orders are stored, name the same instance, and are equal under the
    repaired printer -/
example : (match storeInstIdWith false exSchema exValueAB, storeInstIdWith false exSchema exValueBA with
      | .ok a, .ok b => SameInstance a b && cmpEqInstIdWith true a b && (canonInstIdWith true b == exValueAB) | _, _ => false) = true := by
  decide +kernel

/-- the part that holds for either variant: equal compiled paths are equal values -/
theorem instid_eq_same_instance_partial (ks : Bool) (a b : List CStep) (h : a = b) : cmpEqInstIdWith ks a b = true := by
  subst h; exact (cmpEqWith_iff ks a a).mpr rfl

example : cmpEqInstIdWith false [⟨[109, 97], [108], .list true, [[107, 49]], .keys [([107, 49], [97])]⟩]
    [⟨[109, 97], [108], .list true, [[107, 49]], .keys [([107, 49], [97])]⟩] = true :=
  instid_eq_same_instance_partial _ _ _ rfl

/-- **instid_no_internal_error** (full statement, per variant `vr` of `lyplg_type_lypath_new`): storing a value never ends in an
    internal error. -/
def NoInternalError (vr : Bool) : Prop :=
  ∀ (schema : List TNode) (s : Bytes), result (storeInstIdWith vr schema s) ≠ .inl .Internal

/-- FALSE for the pinned source (F421): `/ma:l[k1=$v][k2='b']` is parsed and compiled and `instanceid_path2str` hits `LOGINT`. -/
theorem instid_no_internal_error_fails : ¬ NoInternalError false := by
  intro h
  exact h exSchema exVar (by decide +kernel)

/-- TRUE once a variable reference in a value is a syntax error (F421 repaired). -/
theorem instid_no_internal_error_repaired : NoInternalError true := by
  intro schema s hres
  unfold storeInstIdWith at hres
  split at hres
  · simp [result] at hres
  · rename_i steps _
    by_cases hv : (steps.any fun st => predHasVar st.pred) = true
    · simp [hv, result] at hres
    · simp only [hv, Bool.and_false, Bool.false_eq_true, if_false] at hres
      split at hres
      · simp [result] at hres
      · rename_i cs _
        cases ht : typeSteps schema cs with
        | error e =>
          rw [ht] at hres
          have := typeSteps_err cs schema e ht
          subst this
          simp [result] at hres
        | ok v => rw [ht] at hres; simp [result] at hres

/-- non-vacuity: on the repaired source the same value is a syntax error, and the values without a variable are stored as before -/
example : result (storeInstIdWith true exSchema exVar) = .inl .Syntax ∧
    result (storeInstIdWith true exSchema exValueAB) = result (storeInstIdWith false exSchema exValueAB) := by
  decide +kernel

/-- **instid_store_verdicts.** What the store callback rejects besides what `lyd_find_path` rejects for the same string: a
    relative path, a repeated module prefix, a prefix on a key (all syntax errors); and what it accepts is a compiled path that
    `Path.compileSteps` (the compiler C15 is about) produced for the parsed steps, with every predicate value replaced by the
    canonical form of the value its type stores; no accepted value has a variable reference. -/
theorem instid_store_verdicts (vr : Bool) (schema : List TNode) (s : Bytes) (cs : List CStep) (h : storeInstIdWith vr schema s = .ok cs) :
    ∃ steps cs0, parsePath s = some (true, steps) ∧ strictSteps none steps = true ∧
      compileSteps true (TNode.toSs schema) none none steps = .ok cs0 ∧ typeSteps schema cs0 = .ok cs ∧
      (steps.any fun st => predHasVar st.pred) = false := by
  unfold storeInstIdWith at h
  cases hp : parseInst s with
  | none => rw [hp] at h; cases h
  | some steps =>
    rw [hp] at h
    simp only at h
    unfold parseInst at hp
    cases hpp : parsePath s with
    | none => rw [hpp] at hp; cases hp
    | some r =>
      obtain ⟨abs, st⟩ := r
      rw [hpp] at hp
      cases abs with
      | false => cases hp
      | true =>
        simp only at hp
        by_cases hs : strictSteps none st = true
        · rw [if_pos hs] at hp
          have hst : st = steps := by simpa using hp
          subst hst
          by_cases hx : (st.any fun st => predHasVar st.pred) = true
          · rw [hx] at h
            cases vr with
            | true => simp at h
            | false =>
              simp only [Bool.false_and, Bool.false_eq_true, if_false, if_true] at h
              split at h
              · cases h
              · split at h <;> cases h
          · simp only [hx, Bool.and_false, Bool.false_eq_true, if_false] at h
            cases hc : compileSteps true (TNode.toSs schema) none none (devar st) with
            | error e => rw [hc] at h; cases h
            | ok cs' =>
              rw [hc] at h
              simp only at h
              have hdv : devar st = st := devar_noVar st (by simpa using hx)
              rw [hdv] at hc
              exact ⟨st, cs', rfl, hs, hc, h, by simpa using hx⟩
        · rw [if_neg hs] at hp; cases hp

/-- non-vacuity: `exValue1` is stored; the same list with the prefix repeated (`/ma:l[…]/ma:c`), a relative path, a prefixed key
    are syntax errors; a missing key, a key value outside its type (`n='128'` for `int8`) and a leaf-list value outside its
    range are semantic errors -/
example : (storeInstIdWith false exSchema exValue1).toOption.isSome = true ∧
    -- `/ma:l[k1='a'][k2='b']/ma:c`
    result (storeInstIdWith false exSchema [47, 109, 97, 58, 108, 91, 107, 49, 61, 39, 97, 39, 93, 91, 107, 50, 61, 39, 98, 39, 93, 47, 109, 97, 58, 99]) = .inl .Syntax ∧
    -- `ma:kl[1]`
    result (storeInstIdWith false exSchema [109, 97, 58, 107, 108, 91, 49, 93]) = .inl .Syntax ∧
    -- `/ma:l[ma:k1='a'][k2='b']`
    result (storeInstIdWith false exSchema [47, 109, 97, 58, 108, 91, 109, 97, 58, 107, 49, 61, 39, 97, 39, 93, 91, 107, 50, 61, 39, 98, 39, 93]) = .inl .Syntax ∧
    -- `/ma:l[k1='a']` (a key is missing)
    result (storeInstIdWith false exSchema [47, 109, 97, 58, 108, 91, 107, 49, 61, 39, 97, 39, 93]) = .inl .Semantic ∧
    -- `/ma:tl[n='128']`
    result (storeInstIdWith false exSchema [47, 109, 97, 58, 116, 108, 91, 110, 61, 39, 49, 50, 56, 39, 93]) = .inl .Semantic ∧
    -- `/ma:tl[n=1]/fl[.=11]`
    result (storeInstIdWith false exSchema [47, 109, 97, 58, 116, 108, 91, 110, 61, 49, 93, 47, 102, 108, 91, 46, 61, 49, 49, 93]) = .inl .Semantic := by
  decide +kernel

/-- **instid_canon_idempotent**, checked instances for both printers (the general statement — storing the canonical string of
    a stored value gives a value with the same canonical string, and the same compiled path when the keys are printed as
    written — is not proved here; the check evaluates it on the implementation for every accepted value) -/
example : ∀ s ∈ [exValue1, exCanon1, exValueAB, exValueBA, exTyped, exTypedCanon],
    (match storeInstIdWith false exSchema s with
     | .ok cs => decide (result (storeInstIdWith false exSchema (canonInstIdWith false cs)) = .inr cs) &&
        (match storeInstIdWith false exSchema (canonInstIdWith true cs) with | .ok cs' => canonInstIdWith true cs' == canonInstIdWith true cs | _ => false)
     | .error _ => false) = true := by
  decide +kernel

end LyModel.Props.C03InstId
