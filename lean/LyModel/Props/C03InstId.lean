import LyModel.Val.LemmasInst
/-!
# C03 — instance-identifier: canonical form and equality

Property theorems about the model `LyModel/Val/InstId.lean` of `src/plugins_types/instanceid.c` (store = `ly_path_parse` with
`LY_PATH_BEGIN_ABSOLUTE` / `LY_PATH_PREFIX_STRICT_INHERIT` + `ly_path_compile`, canonical form = `instanceid_path2str` in JSON
format, compare = `lyplg_type_compare_simple`, sort = `lyplg_type_sort_simple`).  The model is tied to the code by
`tools/checks/valinst.py` on every run.  Statements only; lemmas are in `LyModel/Val/LemmasInst.lean`.
-/
namespace LyModel.Props.C03InstId
open LyModel LyModel.Path LyModel.Val LyModel.Val.InstId

/-- schema of the witnesses: module `ma` with the list `l` (keys `k1`, `k2`; a leaf `x` and a state leaf-list `sl` of module `mb`
    augmented into it; a container `c` with the leaf `y`) and the key-less list `kl` -/
def exSchema : List SNode :=
  [.mk [109, 97] [108] (.list true)
    [.mk [109, 97] [107, 49] (.leaf true) [], .mk [109, 97] [107, 50] (.leaf true) [],
     .mk [109, 97] [99] .inner [.mk [109, 97] [121] (.leaf false) []],
     .mk [109, 98] [120] (.leaf false) [], .mk [109, 98] [115, 108] (.leaflist false) []],
   .mk [109, 97] [107, 108] .keyless [.mk [109, 97] [121] (.leaf false) []]]

/-- `/ma:l[k2="it's"][k1=7]/mb:sl[ 02 ]` -/
def exValue1 : Bytes :=
  [47, 109, 97, 58, 108, 91, 107, 50, 61, 34, 105, 116, 39, 115, 34, 93, 91, 107, 49, 61, 55, 93, 47, 109, 98, 58, 115, 108, 91, 32, 48, 50, 32, 93]

/-- its canonical form `/ma:l[k2="it's"][k1='7']/mb:sl[2]` -/
def exCanon1 : Bytes :=
  [47, 109, 97, 58, 108, 91, 107, 50, 61, 34, 105, 116, 39, 115, 34, 93, 91, 107, 49, 61, 39, 55, 39, 93, 47, 109, 98, 58, 115, 108, 91, 50, 93]

/-- `/ma:l[k1='a'][k2='b']/c/y` and the same instance with the key predicates exchanged -/
def exValueAB : Bytes := [47, 109, 97, 58, 108, 91, 107, 49, 61, 39, 97, 39, 93, 91, 107, 50, 61, 39, 98, 39, 93, 47, 99, 47, 121]
def exValueBA : Bytes := [47, 109, 97, 58, 108, 91, 107, 50, 61, 39, 98, 39, 93, 91, 107, 49, 61, 39, 97, 39, 93, 47, 99, 47, 121]

/-- **instid_canonical_prefixes.** The canonical string is the concatenation of one segment `/[module:]name predicates` per
    compiled node, and the module prefix is printed on the first node and on exactly those later nodes whose module differs
    from the module of the node before (RFC 7951 sec. 6.11 name rule, which RFC 7950 / libyang take as the canonical form). -/
theorem instid_canonical_prefixes (cs : List CStep) :
    ∃ flags : List Bool, flags.length = cs.length ∧
      canonInstId cs = (List.zipWith seg cs flags).flatten ∧
      (cs ≠ [] → flags[0]? = some true) ∧
      (∀ (i : Nat) (a b : CStep), cs[i]? = some a → cs[i + 1]? = some b → flags[i + 1]? = some (a.mod != b.mod)) := by
  refine ⟨modChanges none cs, modChanges_length cs none, canonSteps_eq_segs cs none, ?_, fun i a b => modChanges_succ cs none i a b⟩
  intro h
  cases cs with
  | nil => exact absurd rfl h
  | cons c r => rfl

/-- non-vacuity: a stored three-node value over two modules (`ma:l`, `c` in `ma`, …) — the flags of `/ma:l[…]/mb:sl[2]` are
    `[true, true]`, those of `/ma:l[…]/c/y` are `[true, false, false]` -/
example : (storeInstId exSchema exValue1).toOption.map (fun cs => (canonInstId cs, modChanges none cs)) = some (exCanon1, [true, true]) ∧
    (storeInstId exSchema exValueAB).toOption.map (fun cs => (canonInstId cs, modChanges none cs)) = some (exValueAB, [true, false, false]) := by
  decide +kernel

/-- **instid_eq_iff_canon_eq.** The compare callback answers "equal" exactly for values with the same canonical string, and
    the sort callback is a total preorder whose equivalence is that same equality (so a system-ordered leaf-list of
    instance-identifiers has one order). -/
theorem instid_eq_iff_canon_eq (a b c : List CStep) :
    (cmpEqInstId a b = true ↔ canonInstId a = canonInstId b) ∧
    (sortInstId a b = 0 ↔ cmpEqInstId a b = true) ∧
    sortInstId a b = -sortInstId b a ∧
    (sortInstId a b ≤ 0 → sortInstId b c ≤ 0 → sortInstId a c ≤ 0) :=
  ⟨cmpEq_iff a b, (sort_zero_iff a b).trans (cmpEq_iff a b).symm, sort_antisymm a b, sort_trans a b c⟩

/-- non-vacuity: the value and its canonical form are stored as equal values; the two key orders as unequal, ordered ones -/
example : (match storeInstId exSchema exValue1, storeInstId exSchema exCanon1 with
      | .ok a, .ok b => cmpEqInstId a b && sortInstId a b == 0 | _, _ => false) = true ∧
    (match storeInstId exSchema exValueAB, storeInstId exSchema exValueBA with
      | .ok a, .ok b => !cmpEqInstId a b && sortInstId a b == -1 | _, _ => false) = true := by
  decide +kernel

/-- two compiled paths name the same instance: same nodes, and per node the same predicate up to the order of the keys -/
def samePred : CPred → CPred → Bool
  | .keys k1, .keys k2 => k1.isPerm k2
  | p, q => p == q

def SameInstance : List CStep → List CStep → Bool
  | [], [] => true
  | a :: r, b :: s => a.mod == b.mod && a.name == b.name && samePred a.pred b.pred && SameInstance r s
  | _, _ => false

/-- **instid_eq_same_instance** (full statement): values that identify the same instance are equal.  FALSE for the code: the
    canonical string keeps the key predicates in the order they were written, and equality is equality of canonical strings
    (`lyplg_type_compare_simple`), so `/ma:l[k1='a'][k2='b']/c/y` and `/ma:l[k2='b'][k1='a']/c/y` are different values (both
    can sit in one leaf-list, a `must`/`when` comparison of the two is false). -/
def EqSameInstance : Prop :=
  ∀ (schema : List SNode) (s1 s2 : Bytes) (a b : List CStep), storeInstId schema s1 = .ok a → storeInstId schema s2 = .ok b →
    SameInstance a b = true → cmpEqInstId a b = true

theorem instid_eq_same_instance_fails : ¬ EqSameInstance := by
  intro h
  have hv : (match storeInstId exSchema exValueAB, storeInstId exSchema exValueBA with
      | .ok a, .ok b => SameInstance a b && !cmpEqInstId a b | _, _ => false) = true := by decide +kernel
  cases ha : storeInstId exSchema exValueAB with
  | error e => rw [ha] at hv; simp at hv
  | ok a =>
    cases hb : storeInstId exSchema exValueBA with
    | error e => rw [ha, hb] at hv; simp at hv
    | ok b =>
      rw [ha, hb] at hv
      simp only [Bool.and_eq_true, Bool.not_eq_true'] at hv
      have := h exSchema exValueAB exValueBA a b ha hb hv.1
      rw [hv.2] at this
      cases this

/-- the part that holds: equal compiled paths are equal values, and equal values have the same number of segments' worth
    of text — in particular equality never identifies a value with one whose canonical string differs -/
theorem instid_eq_same_instance_partial (a b : List CStep) (h : a = b) : cmpEqInstId a b = true := by
  subst h; exact (cmpEq_iff a a).mpr rfl

example : cmpEqInstId [⟨[109, 97], [108], .list true, [[107, 49]], .keys [([107, 49], [97])]⟩]
    [⟨[109, 97], [108], .list true, [[107, 49]], .keys [([107, 49], [97])]⟩] = true :=
  instid_eq_same_instance_partial _ _ rfl

/-- **instid_store_verdicts.** What the store callback rejects besides what `lyd_find_path` rejects for the same string: a
    relative path, a repeated module prefix, a prefix on a key (all syntax errors); and what it accepts is a compiled path that
    `Path.compileSteps` (the compiler C15 is about) produced for the parsed steps. -/
theorem instid_store_verdicts (schema : List SNode) (s : Bytes) (cs : List CStep) (h : storeInstId schema s = .ok cs) :
    ∃ steps, parsePath s = some (true, steps) ∧ strictSteps none steps = true ∧
      compileSteps true schema none none (devar steps) = .ok cs ∧ (steps.any fun st => predHasVar st.pred) = false := by
  unfold storeInstId at h
  cases hp : parseInst s with
  | none => rw [hp] at h; cases h
  | some steps =>
    rw [hp] at h
    simp only at h
    unfold parseInst at hp
    cases hpp : parsePath s with
    | none => rw [hpp] at hp; cases hp
    | some r =>
      obtain ⟨abs, st⟩ := r
      rw [hpp] at hp
      cases abs with
      | false => cases hp
      | true =>
        simp only at hp
        by_cases hs : strictSteps none st = true
        · rw [if_pos hs] at hp
          have hst : st = steps := by simpa using hp
          subst hst
          cases hc : compileSteps true schema none none (devar st) with
          | error e => rw [hc] at h; cases h
          | ok cs' =>
            rw [hc] at h
            simp only at h
            by_cases hv : (!cs'.all fun c => predValuesOk c.pred) = true
            · rw [if_pos hv] at h; cases h
            · rw [if_neg hv] at h
              by_cases hx : (st.any fun st => predHasVar st.pred) = true
              · rw [if_pos hx] at h; cases h
              · rw [if_neg hx] at h
                cases h
                exact ⟨st, rfl, hs, hc, by simpa using hx⟩
        · rw [if_neg hs] at hp; cases hp

/-- non-vacuity: `exValue1` is stored; the same string with the prefix repeated (`/ma:l[…]/ma:c`), a relative path, a prefixed
    key and a variable reference are refused with the kinds the code reports -/
example : (storeInstId exSchema exValue1).toOption.isSome = true ∧
    -- `/ma:l[k1='a'][k2='b']/ma:c`
    result (storeInstId exSchema [47, 109, 97, 58, 108, 91, 107, 49, 61, 39, 97, 39, 93, 91, 107, 50, 61, 39, 98, 39, 93, 47, 109, 97, 58, 99]) = .inl .Syntax ∧
    -- `ma:kl[1]`
    result (storeInstId exSchema [109, 97, 58, 107, 108, 91, 49, 93]) = .inl .Syntax ∧
    -- `/ma:l[ma:k1='a'][k2='b']`
    result (storeInstId exSchema [47, 109, 97, 58, 108, 91, 109, 97, 58, 107, 49, 61, 39, 97, 39, 93, 91, 107, 50, 61, 39, 98, 39, 93]) = .inl .Syntax ∧
    -- `/ma:l[k1=$v][k2='b']`
    result (storeInstId exSchema [47, 109, 97, 58, 108, 91, 107, 49, 61, 36, 118, 93, 91, 107, 50, 61, 39, 98, 39, 93]) = .inl .Internal ∧
    -- `/ma:l[k1='a']` (a key is missing)
    result (storeInstId exSchema [47, 109, 97, 58, 108, 91, 107, 49, 61, 39, 97, 39, 93]) = .inl .Semantic := by
  decide +kernel

/-- **instid_canon_idempotent**, checked instances (the general statement — storing the canonical string of a stored value
    gives the same compiled path — is not proved here; the check evaluates it on the implementation for every accepted value) -/
example : ∀ s ∈ [exValue1, exCanon1, exValueAB, exValueBA],
    (match storeInstId exSchema s with
     | .ok cs => decide (result (storeInstId exSchema (canonInstId cs)) = .inr cs) && decide (result (unlybInstId exSchema (lybInstId cs)) = .inr cs)
     | .error _ => false) = true := by
  decide +kernel

end LyModel.Props.C03InstId
