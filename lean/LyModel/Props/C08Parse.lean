import LyModel.XPath.LemmasParse
import LyModel.XPath.LemmasLex
import LyModel.XPath.LemmasLexRt
import LyModel.XPath.LemmasParseA
import LyModel.XPath.LemmasLexRtA
import LyModel.XPath.LemmasLexRtT
import LyModel.XPath.LemmasTight
/-!
# C08 — libyang's XPath tokenizer and parser against XPath 1.0 §3

Property theorems only (helper lemmas: `LyModel/XPath/LemmasParse.lean`, `LemmasLex.lean`, `LemmasTok.lean`, `LemmasNumTok.lean`).
Models: `XPath/Lex.lean` (`lyxp_expr_parse`, the tokenizer loop), `XPath/Parse.lean` (`reparse_or_expr` … `reparse_path_expr`, the
`exp_repeat_push` calls, the tree the evaluator walks), `XPath/Render.lean` (the canonical text of a tree), `XPath/Canon.lean`
(`wf`: which trees have a text; `height`).  The constants the statements depend on — token kinds, the `!=` chain of the operator
position, the function table, `LYXP_MAX_BLOCK_DEPTH`, the `tok_len` tests of the `or` / `and` loops — are read off `xpath.c` /
`xpath.h` by `tools/extractors/xpath.py` (`Generated/XpConsts.lean`) on every run.
-/
namespace LyModel.Props.C08Parse
open LyModel LyModel.Generated LyModel.XPath LyModel.XPath.Lex LyModel.XPath.Parse LyModel.XPath.Render LyModel.XPath.Canon
open LyModel.XPath.LemmasLex

/-! ## Precedence and associativity: the parser inverts the canonical renderer -/

/-- `parse (render e) = some e` for EVERY expression of the engine's AST that has a text at all (`wf`) and nests no deeper than
`LYXP_MAX_BLOCK_DEPTH`: libyang's tokenizer followed by its recursive-descent parser, run on the canonical text of `e`
(bytes), returns exactly `e`.  The canonical renderer (`Render.render`, fully specified there) puts parentheses only where
the XPath 1.0 grammar needs them — left operand of an operator of level `q` at level `q`, right operand at level `q + 1`,
levels `or` < `and` < `= !=` < `< <= > >=` < `+ -` < `* div mod` < unary `-` < `|` < path — so this pins the precedence and the
(left) associativity of every operator, the function-call, predicate, filter and path syntax, and the lexical rules needed
to read them (REC §3.7 on `*`, on operator names and on function / node-type names followed by `(`) to REC §3.1–3.7, for all
expressions and not only for the ones a generator happens to produce. -/
theorem parse_render_roundtrip (e : Expr) (hw : wf e = true) (hh : height e ≤ XpConsts.maxBlockDepth) :
    parse (render e) = some e := by
  obtain ⟨ps, hp⟩ := LemmasParse.parseToks_rtoks e hw hh
  have hl := LemmasLexRt.lex_render e hw
  unfold parse parseFull
  cases h : lex (render e) with
  | error er => simp [h, Except.toOption] at hl
  | ok ts =>
    have : ts.map ptOf = rtoks e := by simpa [h, Except.toOption] using hl
    simp [this, hp]

/-- WHITE SPACE: the same for the text written with ANY non-empty string of blanks (space, tab, LF, CR — `Render.Blanks`) after
each token instead of the single space of the canonical text (`Render.renderW`; nothing is inserted inside `axis::test`,
where the unrepaired tokenizer accepts none — F351), after any amount of leading white space: `parse` does not depend on
the amount or kind of white space between tokens. -/
theorem parse_render_ws_roundtrip (e : Expr) (hw : wf e = true) (hh : height e ≤ XpConsts.maxBlockDepth)
    (bs : List Bytes) (hb : Blanks bs) (lead : Bytes) (hl : ∀ c ∈ lead, Path.isWs c = true) :
    parse (lead ++ renderW bs e) = some e := by
  obtain ⟨ps, hp⟩ := LemmasParse.parseToks_rtoks e hw hh
  have hlx := LemmasLexRt.lex_renderW_lead e hw bs hb lead hl
  unfold parse parseFull
  cases h : lex (lead ++ renderW bs e) with
  | error er => simp [h, Except.toOption] at hlx
  | ok ts =>
    have : ts.map ptOf = rtoks e := by simpa [h, Except.toOption] using hlx
    simp [this, hp]

/-- non-vacuity: tabs, newlines and runs of blanks -/
example : Blanks [[0x09], [0x0a, 0x20], [0x20, 0x20, 0x0d]] := by
  intro b hb; simp at hb; rcases hb with rfl | rfl | rfl <;> exact ⟨by simp, by decide⟩

/-- … also after any amount of leading white space (the canonical text itself ends with a blank) -/
theorem parse_render_roundtrip_lead (e : Expr) (hw : wf e = true) (hh : height e ≤ XpConsts.maxBlockDepth) (lead : Bytes)
    (hl : ∀ c ∈ lead, Path.isWs c = true) : parse (lead ++ render e) = some e := by
  obtain ⟨ps, hp⟩ := LemmasParse.parseToks_rtoks e hw hh
  have hlx := LemmasLexRt.lex_render_lead e hw lead hl
  unfold parse parseFull
  cases h : lex (lead ++ render e) with
  | error er => simp [h, Except.toOption] at hlx
  | ok ts =>
    have : ts.map ptOf = rtoks e := by simpa [h, Except.toOption] using hlx
    simp [this, hp]

/-- the tokenizer half on its own: the kinds and texts of the tokens of the canonical text are the renderer's tokens -/
theorem lex_render_tokens (e : Expr) (hw : wf e = true) :
    (lex (render e)).toOption.map (·.map ptOf) = some (rtoks e) :=
  LemmasLexRt.lex_render e hw

/-- The parser half on its own: for every such expression the recursive descent of `reparse_*` run on the tokens of the canonical text returns exactly that expression.  The renderer
(`Render.rtoks`) puts parentheses only where the XPath 1.0 grammar needs them — left operand of an operator of level `q` at
level `q`, right operand at level `q + 1`, levels `or` < `and` < `= !=` < `< <= > >=` < `+ -` < `* div mod` < unary `-` < `|` <
path — so this pins the precedence and the (left) associativity of every operator libyang's parser implements to REC §3.1–3.5,
for all expressions and not only for the ones a generator happens to produce. -/
theorem parse_tokens_roundtrip (e : Expr) (hw : wf e = true) (hh : height e ≤ XpConsts.maxBlockDepth) :
    ∃ pushes, parseToks (rtoks e) = some (e, pushes) :=
  LemmasParse.parseToks_rtoks e hw hh

/-- non-vacuity: `1 - 2 - 3 * 4 or not ( /a[. = 'x'] | b )` is well formed, of height 5, and is read back -/
private def sample : Expr :=
  .bin .or (.bin .sub (.bin .sub (.num 1 0) (.num 2 0)) (.bin .mul (.num 3 0) (.num 4 0)))
    (.fn "not" [.bin .union (.path .root [.mk .child (.name none [0x61]) [.bin .eq (.path .ctx [.mk .self .node []]) (.lit [0x78])]])
      (.path .ctx [.mk .child (.name none [0x62]) []])])
example : wf sample = true ∧ height sample ≤ XpConsts.maxBlockDepth := by decide
example : parse (render sample) = some sample := parse_render_roundtrip sample (by decide) (by decide)
/-- its canonical text: `1 - 2 - 3 * 4 or not ( / child::a [ self::node ( ) = 'x' ] | child::b ) ` -/
example : render sample =
    [49, 32, 45, 32, 50, 32, 45, 32, 51, 32, 42, 32, 52, 32, 111, 114, 32, 110, 111, 116, 32, 40, 32, 47, 32, 99, 104, 105, 108, 100, 58, 58, 97, 32, 91, 32, 115, 101, 108, 102, 58, 58, 110, 111, 100, 101, 32, 40, 32, 41, 32, 61, 32, 39, 120, 39, 32, 93, 32, 124, 32, 99, 104, 105, 108, 100, 58, 58, 98, 32, 41, 32] := by
  simp [render, detok, sample, rtoks, rargs, rsteps, rstep, rpreds, rtest, wrap, levelOf, opLevel, opTok, tokText, numText, quoteFor,
    fnBytes, XpConsts.fnTable, axisBytes, Path.toDec, Path.toDecAux, tSlash, tDcolon, tPar1, tPar2, tBrack1, tBrack2]

/-- the fuel `parseToks` runs `reparse_or_expr` with (`32 * tokens + 64`) is never the reason a canonical text is rejected:
this is the previous theorem, stated for the fuel -/
theorem parse_fuel_sufficient (e : Expr) (hw : wf e = true) (hh : height e ≤ XpConsts.maxBlockDepth) :
    (orExpr (fuelFor (rtoks e).length) 0 (rtoks e)).isSome = true := by
  obtain ⟨ps, h⟩ := parse_tokens_roundtrip e hw hh
  unfold parseToks at h
  split at h
  · next h' => simp [h']
  · cases h

example : (orExpr (fuelFor (rtoks sample).length) 0 (rtoks sample)).isSome = true :=
  parse_fuel_sufficient sample (by decide) (by decide)

/-! ## REC §2.5 abbreviated syntax: every abbreviated token sequence is parsed exactly like its expansion

Stated on the token level for EVERY continuation of the token list (not only canonical ones); the fuel offsets are the extra
calls the longer form needs.  `selfNode` / `parentNode` / `dosNode` are the tokens of `self::node()`, `parent::node()`,
`descendant-or-self::node()`. -/

/-- ABBREVIATED SYNTAX, whole expressions (token level): the tokens of the abbreviated text of `e` — `Render.atoks`: `child::`
omitted, `@` for `attribute::`, `.` for `self::node()` and `..` for `parent::node()` without predicates, everywhere in `e`
— are parsed back to `e`, i.e. to the tree in which every abbreviation is expanded. -/
theorem parse_tokens_abbrev_roundtrip (e : Expr) (hw : wf e = true) (hh : height e ≤ XpConsts.maxBlockDepth) :
    ∃ pushes, parseToks (atoks e) = some (e, pushes) :=
  LemmasParseA.parseToks_rtoks e hw hh

/-- ABBREVIATED SYNTAX, whole expressions, on BYTES: `parse (lead ++ renderAW bs e) = some e` — the abbreviated text of `e`
(`child::` omitted, `@`, `.`, `..` wherever they apply), written with any non-empty blank strings `bs` after its tokens and
any leading blanks, denotes `e`, the tree with every abbreviation expanded.  Together with `parse_render_ws_roundtrip` (the
unabbreviated text) and `abbrev_dslash_*` (`//`) this covers the abbreviations of REC §2.5. -/
theorem parse_render_abbrev_roundtrip (e : Expr) (hw : wf e = true) (hh : height e ≤ XpConsts.maxBlockDepth)
    (bs : List Bytes) (hb : Blanks bs) (lead : Bytes) (hl : ∀ c ∈ lead, Path.isWs c = true) :
    parse (lead ++ renderAW bs e) = some e := by
  obtain ⟨ps, hp⟩ := LemmasParseA.parseToks_rtoks e hw hh
  have hlx := LemmasLexRtA.lex_renderW_lead e hw bs hb lead hl
  unfold parse parseFull
  cases h : lex (lead ++ renderAW bs e) with
  | error er => simp [h, Except.toOption] at hlx
  | ok ts =>
    have : ts.map ptOf = atoks e := by simpa [h, Except.toOption] using hlx
    simp [this, hp]

/-- FREE SPACING: `parse (lead ++ renderG bs e) = some e` for the abbreviated text of `e` with ANY spacing `bs` that
`Render.Spacing` admits: every gap is a (possibly EMPTY) string of blanks, and where it is empty the next byte is one that
the tokenizer separates from the token anyway (`Render.followOk`: after a name / function name / node type / operator name
one of `( ) [ ] / | = ! < > + * , @ ' " $`, after a Number or `.` one of these or `-`, after `/` not `/`, after `<` `>` not
`=`, after every other token anything).  This covers `a/b[1]`, `f(x)`, `1+2`, `a -b`, `count(../k)>1` — and does not cover
`a-b`, which is one name. -/
theorem parse_render_free_roundtrip (e : Expr) (hw : wf e = true) (hh : height e ≤ XpConsts.maxBlockDepth)
    (bs : List Bytes) (hb : Spacing (atoks e) bs []) (lead : Bytes) (hl : ∀ c ∈ lead, Path.isWs c = true) :
    parse (lead ++ renderG bs e) = some e := by
  obtain ⟨ps, hp⟩ := LemmasParseA.parseToks_rtoks e hw hh
  have hlx := LemmasLexRtT.lex_renderG_lead e hw bs hb lead hl
  unfold parse parseFull
  cases h : lex (lead ++ renderG bs e) with
  | error er => simp [h, Except.toOption] at hlx
  | ok ts =>
    have : ts.map ptOf = atoks e := by simpa [h, Except.toOption] using hlx
    simp [this, hp]

theorem spacing_of_spacingB : ∀ (ts : List PT) (bs : List Bytes) (more : Bytes), spacingB ts bs more = true → Spacing ts bs more := by
  intro ts
  induction ts with
  | nil => intro _ _ _; trivial
  | cons t r ih =>
    intro bs more h
    simp only [spacingB, Bool.and_eq_true, List.all_eq_true] at h
    exact ⟨h.1.1, h.1.2, ih _ _ h.2⟩

/-- TIGHT TEXT: `parse (renderT e) = some e` — the abbreviated text with NO blank except where the tokenizer needs one
(`Render.tightBs`: a blank is written only where `followOk` fails, e.g. between `a` and `-b`, around `or`, before `div`). -/
theorem parse_render_tight_roundtrip (e : Expr) (hw : wf e = true) (hh : height e ≤ XpConsts.maxBlockDepth) :
    parse (renderT e) = some e := by
  unfold renderT
  split
  · next h =>
    simpa using parse_render_free_roundtrip e hw hh _ (spacing_of_spacingB _ _ _ h) [] (by intro c hc; cases hc)
  · simpa using parse_render_abbrev_roundtrip e hw hh [] (by intro b hb; cases hb) [] (by intro c hc; cases hc)

/-- the single-blank fallback of `renderT` is NEVER taken: on a well-formed expression the tight text is the abbreviated token
texts with the gaps `tightBs` (`LemmasTight.spacing_tight`: token texts start with no blank and no `:`, `::` stands only after
an axis name, hence one blank always satisfies `followOk`) -/
theorem renderT_eq_tight (e : Expr) (hw : wf e = true) : renderT e = renderG (tightBs (atoks e)) e := by
  unfold renderT
  rw [LyModel.XPath.LemmasTight.spacing_tight e hw]
  rfl

/-- every gap of the tight text is empty or ONE blank, and the blank stands exactly where `followOk` fails on the tight rest -/
theorem tight_gaps : ∀ (ts : List PT), ∀ g ∈ tightBs ts, g = [] ∨ g = [0x20]
  | [], g, h => by simp [tightBs] at h
  | t :: ts, g, h => by
    simp only [tightBs, List.mem_cons] at h
    rcases h with h | h
    · rw [h]; split
      · exact Or.inl rfl
      · exact Or.inr rfl
    · exact tight_gaps ts g h

/-- non-vacuity: `count(../a[k='x'])>1` has no blank at all, `a -b` keeps exactly one -/
example : tightBs (atoks (.bin .sub (.path .ctx [.mk .child (.name none [0x61]) []]) (.path .ctx [.mk .child (.name none [0x62]) []])))
    = [[0x20], [], []] := by decide

/-- non-vacuity: `/a/@b[. = ../c]` — its abbreviated tokens differ from the canonical ones -/
private def sampleA : Expr :=
  .path .root [.mk .child (.name none [0x61]) [], .mk .attribute (.name none [0x62])
    [.bin .eq (.path .ctx [.mk .self .node []]) (.path .ctx [.mk .parent .node [], .mk .child (.name none [0x63]) []])]]
example : wf sampleA = true ∧ height sampleA ≤ XpConsts.maxBlockDepth ∧ (atoks sampleA).length = 12 ∧ (rtoks sampleA).length = 25 := by
  decide
/-- its abbreviated text with single blanks: `/ a / @ b [ . = .. / c ] ` -/
example : renderAW [] sampleA = [47, 32, 97, 32, 47, 32, 64, 32, 98, 32, 91, 32, 46, 32, 61, 32, 46, 46, 32, 47, 32, 99, 32, 93, 32] := by
  decide
/-- its tight text: `/a/@b[.=../c]`; and `a -b`, `count(../a[k='x'])>1` -/
example : renderT sampleA = [47, 97, 47, 64, 98, 91, 46, 61, 46, 46, 47, 99, 93] := by decide
example : renderT (.bin .sub (.path .ctx [.mk .child (.name none [0x61]) []]) (.path .ctx [.mk .child (.name none [0x62]) []])) =
    [0x61, 0x20, 0x2d, 0x62] := by decide
example : parse (renderAW [] sampleA) = some sampleA := by
  simpa using parse_render_abbrev_roundtrip sampleA (by decide) (by decide) [] (by intro b hb; cases hb) [] (by intro c hc; cases hc)

def stepToks (ax : Axis) : List PT := [(.axisname, axisBytes ax), tDcolon, (.nodetype, [0x6e, 0x6f, 0x64, 0x65]), tPar1, tPar2]

/-- `.` is `self::node()` and `..` is `parent::node()` (REC §2.5), wherever no predicate follows (the grammar allows none
after `.` / `..`) -/
theorem abbrev_dot_ddot (f d : Nat) (tx : Bytes) (rest : List PT) (h : LemmasParse.NoBrack rest) :
    step (f + 3) d ((.dot, tx) :: rest) = step (f + 3) d (stepToks .self ++ rest) ∧
    step (f + 3) d ((.ddot, tx) :: rest) = step (f + 3) d (stepToks .parent ++ rest) := by
  have hp := LemmasParse.preds_stop h f d
  constructor <;>
    simp [step, stepToks, tDcolon, tPar1, tPar2, LemmasTok.axisOf_axisBytes, nodeTest, hp, nodeTypeOf]

/-- `@` is `attribute::` (REC §2.5), in front of anything -/
theorem abbrev_at (f d : Nat) (tx : Bytes) (ts : List PT) :
    step (f + 1) d ((.at, tx) :: ts) = step (f + 1) d ((.axisname, axisBytes .attribute) :: tDcolon :: ts) := by
  simp [step, tDcolon, LemmasTok.axisOf_axisBytes]

/-- a node test without an axis is on the `child::` axis (REC §2.5) -/
theorem abbrev_child (f d : Nat) (tx : Bytes) (ts : List PT) :
    step (f + 1) d ((.nametest, tx) :: ts) = step (f + 1) d ((.axisname, axisBytes .child) :: tDcolon :: (.nametest, tx) :: ts) ∧
    step (f + 1) d ((.nodetype, tx) :: ts) = step (f + 1) d ((.axisname, axisBytes .child) :: tDcolon :: (.nodetype, tx) :: ts) := by
  constructor <;> simp [step, tDcolon, LemmasTok.axisOf_axisBytes]

/-- one step `descendant-or-self::node()` followed by `/`: what `reparse_relative_location_path` makes of it -/
theorem relPath_dos (f d : Nat) (ts : List PT) :
    relPath (f + 4) d (stepToks .descendantOrSelf ++ tSlash :: ts) =
      match relPath (f + 3) d ts with
      | none => none
      | some (ss, p2, r3) => some (dosStep :: ss, [] ++ p2, r3) := by
  have hn : LemmasParse.NoBrack (tSlash :: ts) := by
    intro t r e; simp only [List.cons.injEq] at e; rw [← e.1]; simp [tSlash]
  have hp := LemmasParse.preds_stop hn f d
  simp only [tSlash] at hp
  rw [relPath]
  simp only [stepToks, List.cons_append, List.nil_append, step, tDcolon, tPar1, tPar2, tSlash, LemmasTok.axisOf_axisBytes, nodeTest,
    hp, nodeTypeOf]
  cases relPath (f + 3) d ts with
  | none => rfl
  | some r => obtain ⟨a, b, c⟩ := r; simp [dosStep]

/-- `//` at the start of a path is `/descendant-or-self::node()/` (REC §2.5), in front of anything -/
theorem abbrev_dslash_abs (f d : Nat) (tx : Bytes) (ts : List PT) :
    (pathExpr (f + 4) d ((.operRpath, tx) :: ts)).map (fun r => (r.1, r.2.2)) =
      (pathExpr (f + 5) d (tSlash :: (stepToks .descendantOrSelf ++ tSlash :: ts))).map (fun r => (r.1, r.2.2)) := by
  have e : pathExpr (f + 5) d (tSlash :: (stepToks .descendantOrSelf ++ tSlash :: ts)) =
      match relPath (f + 4) d (stepToks .descendantOrSelf ++ tSlash :: ts) with
      | none => none
      | some (steps, p, r1) => some (.path .root steps, p, r1) := by
    simp only [pathExpr, tSlash, stepToks, List.cons_append, List.nil_append, isStepStart]
    rfl
  rw [e, relPath_dos]
  simp only [pathExpr]
  cases relPath (f + 3) d ts with
  | none => rfl
  | some r => obtain ⟨a, b, c⟩ := r; simp

/-- `//` inside a path is `/descendant-or-self::node()/` (REC §2.5): after any step, in front of anything -/
theorem abbrev_dslash_rel (f d : Nat) (tx : Bytes) (s : Step) (p : List Push) (X ts : List PT)
    (h1 : step (f + 4) d (X ++ (.operRpath, tx) :: ts) = some (s, p, (.operRpath, tx) :: ts))
    (h2 : step (f + 5) d (X ++ tSlash :: (stepToks .descendantOrSelf ++ tSlash :: ts)) =
      some (s, p, tSlash :: (stepToks .descendantOrSelf ++ tSlash :: ts))) :
    (relPath (f + 5) d (X ++ (.operRpath, tx) :: ts)).map (fun r => (r.1, r.2.2)) =
      (relPath (f + 6) d (X ++ tSlash :: (stepToks .descendantOrSelf ++ tSlash :: ts))).map (fun r => (r.1, r.2.2)) := by
  rw [relPath, h1, relPath, h2]
  simp only [tSlash]
  have := relPath_dos (f + 1) d ts
  simp only [tSlash] at this
  rw [this]
  cases relPath (f + 4) d ts with
  | none => rfl
  | some r => obtain ⟨a, b, c⟩ := r; simp

/-- redundant parentheses: `( e )` in place of a primary expression denotes `e` — the parser returns the tree of the inner
expression, for every token list that `reparse_or_expr` accepts up to a closing parenthesis -/
theorem redundant_parens (f d : Nat) (body rest : List PT) (e : Expr) (p : List Push)
    (h : orExpr (f + 2) d (body ++ tPar2 :: rest) = some (e, p, tPar2 :: rest)) (hF : LemmasParse.Follow 10 rest) :
    pathExpr (f + 3) d (par body ++ rest) = some (e, p ++ [], rest) := by
  rw [LemmasParse.par_append]
  simp only [pathExpr, tPar1]
  rw [h]
  simp only [tPar2]
  exact LemmasParse.postP_stop hF _ _ _ _

/-! ## REC §3.7: `*` and operator names -/

/-- REC §3.7, first rule, for every state of the tokenizer loop: if the input at `parsed` is `*`, it is the multiply operator
exactly when "there is a preceding token and the preceding token is not one of `@`, `::`, `(`, `[`, `,` or an Operator";
otherwise the name-test branch is taken (which yields a NameTest starting with `*`, or an error).  `NoDcolonTop`: `::` is never
the last stored token when an iteration starts (`lex_no_dcolon_on_top`). -/
theorem lex_star_disambiguation (st : St) (r : Bytes) (h : st.rest = 0x2a :: r) (hd : NoDcolonTop st.acc) :
    (recOperCtx st.acc = true → lexStep st = .ok (st.push .operMath 1)) ∧
    (recOperCtx st.acc = false → lexStep st = lexName st) := by
  have hs : lexStep st = if operCtx st.acc then lexOper st else lexName st := by
    simp only [lexStep, h]; exact lexChar_star st r
  rw [hs, operCtx_eq_rec st.acc hd]
  constructor
  · intro hc; simp only [hc, if_true]; exact lexOper_star st r h
  · intro hc; simp [hc]

/-- the invariant used above holds after every iteration -/
theorem lex_no_dcolon_on_top (st st' : St) (h : lexStep st = .ok st') : NoDcolonTop st'.acc := lexStep_top h

/-- non-vacuity: `2 * 3` — the `*` after a Number is the operator; `2 * * 3` — the second `*` is a name test -/
example : (lex [0x32, 0x20, 0x2a, 0x20, 0x33]).toOption.map (·.map (·.kind)) = some [.number, .operMath, .number] := by decide
example : (lex [0x32, 0x20, 0x2a, 0x20, 0x2a]).toOption.map (·.map (·.kind)) = some [.number, .operMath, .nametest] := by decide

/-- REC §3.7, second half of the first rule: in operator position an NCName must be recognised as an OperatorName, so an NCName
that is none of `and`, `or`, `mod`, `div` is an error.  The unrepaired tokenizer (`XpConsts.operNameWhole = false`, read off
the source) tests the four names as PREFIXES of the remaining input (`strncmp`), so this is FALSE: `a orb` is tokenized like
`a or b` (finding F350; `fixes/F350.diff` makes the switch `true`). -/
theorem lex_opname_disambiguation_fails (hsw : XpConsts.operNameWhole = false) :
    ¬ ∀ (st : St) (n : Nat), operCtx st.acc = true → Path.ncname st.rest = some n →
        st.rest.take n ∉ [[0x61, 0x6e, 0x64], [0x6f, 0x72], [0x6d, 0x6f, 0x64], [0x64, 0x69, 0x76]] →
        ∃ p, lexStep st = .error p := by
  intro h
  obtain ⟨p, hp⟩ := h { acc := [⟨.nametest, 0, [0x61]⟩], ntype := true, func := true, pos := 2, rest := [0x6f, 0x72, 0x62] } 3
    (by decide) (by decide) (by decide)
  have e : lexStep { acc := [⟨.nametest, 0, [0x61]⟩], ntype := true, func := true, pos := 2, rest := [0x6f, 0x72, 0x62] } =
      .ok (({ acc := [⟨.nametest, 0, [0x61]⟩], ntype := true, func := true, pos := 2, rest := [0x6f, 0x72, 0x62] } : St).push .operLog 2) := by
    have hc : operCtx [(⟨.nametest, 0, [0x61]⟩ : Tok)] = true := by decide
    simp [lexStep, lexChar, lexChar2, lexChar3, lexChar4, Path.isDigit, hc, lexOper, operName, startsWith, hsw, List.isPrefixOf]
  rw [e] at hp
  cases hp

/-- with the repair in the source (`XpConsts.operNameWhole = true`) the operator branch stores an operator-name token only when
the NCName at `parsed` is, as a whole, one of the four names — the REC rule -/
theorem lex_opname_whole_when_repaired (hsw : XpConsts.operNameWhole = true) (st st' : St) (h : lexOper st = .ok st') :
    startsWith st.rest [0x2a] = true ∨
    ∃ nm ∈ [[0x6f, 0x72], [0x61, 0x6e, 0x64], [0x6d, 0x6f, 0x64], [0x64, 0x69, 0x76]],
      Path.ncname st.rest = some nm.length ∧ startsWith st.rest nm = true := by
  have key : ∀ nm, operName st nm = true → Path.ncname st.rest = some nm.length ∧ startsWith st.rest nm = true := by
    intro nm hn
    simp only [operName, hsw, Bool.not_true, Bool.false_or, Bool.and_eq_true, beq_iff_eq] at hn
    exact ⟨hn.2, hn.1⟩
  unfold lexOper at h
  split at h
  · next hs => exact Or.inl hs
  · split at h
    · next hn => exact Or.inr ⟨_, by simp, key _ hn⟩
    · split at h
      · next hn => exact Or.inr ⟨_, by simp, key _ hn⟩
      · split at h
        · next hn =>
          simp only [Bool.or_eq_true] at hn
          rcases hn with hn | hn
          · exact Or.inr ⟨_, by simp, key _ hn⟩
          · exact Or.inr ⟨_, by simp, key _ hn⟩
        · cases h

/-- REC §3.7 for operator names, TRUE for the repaired source: in operator position an NCName that is none of the four
operator names is an error -/
theorem lex_opname_disambiguation_repaired (hsw : XpConsts.operNameWhole = true) (st : St) (n : Nat)
    (hc : operCtx st.acc = true) (hn : Path.ncname st.rest = some n)
    (hnot : st.rest.take n ∉ [[0x61, 0x6e, 0x64], [0x6f, 0x72], [0x6d, 0x6f, 0x64], [0x64, 0x69, 0x76]]) :
    ∃ p, lexStep st = .error p := by
  obtain ⟨c, r, hr, hcr⟩ := LemmasLexRt.ncname_first hn
  have hstep : lexStep st = lexOper st := by
    simp only [lexStep, hr]
    rcases hcr with h | h
    · rw [LemmasLexRt.lexChar_ident st r h, hc]; rfl
    · rw [LemmasLexRt.lexChar_high st r h, hc]; rfl
  have hstar : startsWith st.rest [0x2a] = false := by
    have : c ≠ 0x2a := by
      rcases hcr with h | h
      · have := (Path.identStart_ne h).2.2.2.2.2.2.2.2.2.2.2.2.2.2.2.2.2.2.2; simpa using this
      · intro e; subst e; simp at h
    simp [startsWith, hr, List.isPrefixOf, Ne.symm this]
  have hno : ∀ nm ∈ [[0x61, 0x6e, 0x64], [0x6f, 0x72], [0x6d, 0x6f, 0x64], [0x64, 0x69, 0x76]], operName st nm = false := by
    intro nm hm
    cases hop : operName st nm with
    | false => rfl
    | true =>
      exfalso
      simp only [operName, hsw, Bool.not_true, Bool.false_or, Bool.and_eq_true, beq_iff_eq] at hop
      have hlen : n = nm.length := by rw [hn] at hop; exact Option.some.inj hop.2
      have hpre : nm <+: st.rest := List.isPrefixOf_iff_prefix.mp hop.1
      have : st.rest.take n = nm := by rw [hlen]; exact (List.prefix_iff_eq_take.mp hpre).symm
      exact hnot (this ▸ hm)
  refine ⟨st.pos, ?_⟩
  rw [hstep]
  simp [lexOper, hstar, hno]

/-- what a string denotes depends on the kinds and texts of its tokens only -/
theorem parse_eq_of_tokens (s1 s2 : Bytes)
    (h : (lex s1).toOption.map (·.map ptOf) = (lex s2).toOption.map (·.map ptOf)) : parse s1 = parse s2 := by
  unfold parse parseFull
  cases h1 : lex s1 with
  | error e1 =>
    cases h2 : lex s2 with
    | error e2 => cases e1 <;> cases e2 <;> rfl
    | ok t2 => simp [h1, h2, Except.toOption] at h
  | ok t1 =>
    cases h2 : lex s2 with
    | error e2 => simp [h1, h2, Except.toOption] at h
    | ok t2 =>
      have : t1.map ptOf = t2.map ptOf := by simpa [h1, h2, Except.toOption] using h
      simp only [this]
      cases parseToks (t2.map ptOf) <;> rfl

/-- the witness on whole strings (unrepaired source): `a orb` is tokenized exactly like `a or b` (same kinds, same token
texts) and `1 mod3` like `1 mod 3`, so they denote the same expressions (the check replays them on libyang: accepted) -/
theorem lex_opname_witnesses (hsw : XpConsts.operNameWhole = false) :
    (lex [0x61, 0x20, 0x6f, 0x72, 0x62]).toOption.map (·.map ptOf) =
      some [(.nametest, [0x61]), (.operLog, [0x6f, 0x72]), (.nametest, [0x62])] ∧
    parse [0x61, 0x20, 0x6f, 0x72, 0x62] = parse [0x61, 0x20, 0x6f, 0x72, 0x20, 0x62] ∧
    parse [0x31, 0x20, 0x6d, 0x6f, 0x64, 0x33] = parse [0x31, 0x20, 0x6d, 0x6f, 0x64, 0x20, 0x33] := by
  first
    | exact ⟨by decide, parse_eq_of_tokens _ _ (by decide), parse_eq_of_tokens _ _ (by decide)⟩
    | exact absurd hsw (by decide)

/-- … and with the repair they are rejected -/
theorem lex_opname_witnesses_repaired (hsw : XpConsts.operNameWhole = true) :
    (lex [0x61, 0x20, 0x6f, 0x72, 0x62]).toOption = none ∧ (lex [0x31, 0x20, 0x6d, 0x6f, 0x64, 0x33]).toOption = none := by
  first
    | exact ⟨by decide, by decide⟩
    | exact absurd hsw (by decide)

/-- What holds in both variants: in operator position each of the four operator names that is the whole NCName at `parsed`
is recognised with the right kind and length. -/
theorem lex_opname_disambiguation_partial (st : St) (hc : operCtx st.acc = true) (nm more : Bytes)
    (hr : st.rest = nm ++ more) (hn : Path.ncname st.rest = some nm.length) :
    (nm = [0x6f, 0x72] → lexStep st = .ok (st.push .operLog 2)) ∧
    (nm = [0x61, 0x6e, 0x64] → lexStep st = .ok (st.push .operLog 3)) ∧
    (nm = [0x6d, 0x6f, 0x64] → lexStep st = .ok (st.push .operMath 3)) ∧
    (nm = [0x64, 0x69, 0x76] → lexStep st = .ok (st.push .operMath 3)) := by
  have hop : operName st nm = true := by
    have h1 : startsWith st.rest nm = true := by simp [startsWith, hr]
    simp [operName, h1, hn]
  have hno : ∀ x : Bytes, startsWith (nm ++ more) x = false → operName st x = false := by
    intro x hx; simp [operName, hr, hx]
  refine ⟨?_, ?_, ?_, ?_⟩ <;> intro e <;> subst e
  · simp [lexStep, hr, lexChar, lexChar2, lexChar3, lexChar4, Path.isDigit, hc, lexOper, hop, startsWith, List.isPrefixOf]
  · have h1 := hno [0x6f, 0x72] (by simp [startsWith, List.isPrefixOf])
    simp [lexStep, hr, lexChar, lexChar2, lexChar3, lexChar4, Path.isDigit, hc, lexOper, hop, h1, startsWith, List.isPrefixOf]
  · have h1 := hno [0x6f, 0x72] (by simp [startsWith, List.isPrefixOf])
    have h2 := hno [0x61, 0x6e, 0x64] (by simp [startsWith, List.isPrefixOf])
    simp [lexStep, hr, lexChar, lexChar2, lexChar3, lexChar4, Path.isDigit, hc, lexOper, hop, h1, h2, startsWith, List.isPrefixOf]
  · have h1 := hno [0x6f, 0x72] (by simp [startsWith, List.isPrefixOf])
    have h2 := hno [0x61, 0x6e, 0x64] (by simp [startsWith, List.isPrefixOf])
    simp [lexStep, hr, lexChar, lexChar2, lexChar3, lexChar4, Path.isDigit, hc, lexOper, hop, h1, h2, startsWith, List.isPrefixOf]

/-! ### F351 and F352: white space around `::`, `*` as a prefix -/

/-- unrepaired source: `child :: a` is rejected (REC §3.7 allows white space between any two tokens); repaired: it has the
tokens of `child::a` -/
theorem lex_axis_ws (b : Bool) (hsw : XpConsts.axisWs = b) :
    (lex [0x63, 0x68, 0x69, 0x6c, 0x64, 0x20, 0x3a, 0x3a, 0x20, 0x61]).toOption.map (·.map ptOf) =
      if b then some [(.axisname, [0x63, 0x68, 0x69, 0x6c, 0x64]), (.dcolon, [0x3a, 0x3a]), (.nametest, [0x61])] else none := by
  cases b
  · first | decide | exact absurd hsw (by decide)
  · first | decide | exact absurd hsw (by decide)

/-- unrepaired source: `*:a` is one NameTest token (not XPath 1.0); repaired: it is rejected -/
theorem lex_star_prefix (b : Bool) (hsw : XpConsts.starNoPrefix = b) :
    (lex [0x2a, 0x3a, 0x61]).toOption.map (·.map ptOf) = if b then none else some [(.nametest, [0x2a, 0x3a, 0x61])] := by
  cases b
  · first | decide | exact absurd hsw (by decide)
  · first | decide | exact absurd hsw (by decide)

example : (lex [0x61, 0x20, 0x6f, 0x72, 0x20, 0x62]).toOption.map (·.map (·.kind)) = some [.nametest, .operLog, .nametest] := by decide
/-- … while the same bytes at the start or after an operator are a name test (an element called `or`) -/
example : (lex [0x6f, 0x72, 0x20, 0x6f, 0x72, 0x20, 0x6f, 0x72]).toOption.map (·.map (·.kind)) = some [.nametest, .operLog, .nametest] := by decide

/-! ## Totality and fuel -/

/-- the fuel `length + 1` of the tokenizer loop suffices for every byte string: every iteration consumes at least one byte -/
theorem lex_fuel_sufficient (s : Bytes) : lex s ≠ .error .fuel := lex_no_fuel s

/-- every byte string either tokenizes — and then no token is empty — or is rejected with a position -/
theorem lex_total (s : Bytes) :
    (∃ ts, lex s = .ok ts ∧ ∀ t ∈ ts, t.text ≠ []) ∨ (∃ p, lex s = .error (.at p)) := by
  have := lex_no_fuel s
  cases h : lex s with
  | ok ts => exact Or.inl ⟨ts, rfl, lex_tokens_nonempty s ts h⟩
  | error e =>
    match e, h with
    | .at p, _ => exact Or.inr ⟨p, rfl⟩
    | .fuel, h => exact absurd h this

/-- the tokens are non-overlapping substrings of the input, in order, and they cover it except for white space: read from
the last token backwards (`Lex.Chain`), every token's text is the slice of the input at its `tok_pos` of length `tok_len`,
every token ends at or before the offset of the next one, and every byte between two tokens, before the first and after the
last token (`bound ≥ length`) is white space or the `$` in front of a variable name (`Lex.GapOK`) -/
theorem lex_tokens_in_order (s : Bytes) (ts : List Tok) (h : lex s = .ok ts) :
    ∃ bound, s.length ≤ bound ∧ Chain s bound ts.reverse :=
  lex_tokens_slices s ts h

example : ∃ ts, lex [0x61, 0x20, 0x2f, 0x2f, 0x62] = .ok ts ∧ ts.map (fun t => (t.pos, t.len)) = [(0, 1), (2, 2), (4, 1)] :=
  ⟨_, rfl, by decide⟩

/-- every iteration of the loop consumes at least one byte of the input (so no token is empty and the loop ends) -/
theorem lex_step_progress (st st' : St) (h : lexStep st = .ok st') : st'.rest.length < st.rest.length := lexStep_adv h

example : (lex [0x61, 0x27]).toOption = none := by decide
example : (lex [0x20, 0x09, 0x28, 0x20, 0x27, 0x78, 0x27, 0x20, 0x2c, 0x0a, 0x2e, 0x35, 0x20, 0x29]).toOption.map (·.map fun t => (t.kind, t.pos, t.len)) =
    some [(.par1, 2, 1), (.literal, 4, 3), (.comma, 8, 1), (.number, 10, 2), (.par2, 13, 1)] := by decide

end LyModel.Props.C08Parse
