import LyModel.Valid.Spec
import LyModel.Valid.LemmasMinMax
import LyModel.Valid.LemmasUnique
import LyModel.Valid.LemmasNew
import LyModel.Valid.LemmasFamily
import LyModel.Valid.LemmasIff2
import LyModel.Valid.LemmasTag
/-!
# C02 — validation accepts exactly the instances that satisfy the schema

Property theorems about the model `LyModel.Valid` of `src/validation.c` (correspondence with the C: `tools/checks/c02.py`).
Helper lemmas live in `LyModel/Valid/Lemmas*.lean`.
-/
namespace LyModel.Props.C02
open LyModel LyModel.Tree LyModel.Valid

/-! ## the loops of `lyd_validate_siblings_schema_r`, sharp about their shortcuts -/

/-- **`lyd_validate_minmax` = plain counting**, for every instance list and every `min` / `max` (0 = no bound) a compiled schema can
have (`min-elements` ≤ `max-elements`): "too few" iff fewer than `min` instances, else "too many" iff more than `max`, reported on
instance number `max + 1`; the early `break`s (min reached and no max; max exceeded) change nothing. -/
theorem minmax_correct (min max : Nat) (insts : List (DNode × Nat)) (hc : max = 0 ∨ min ≤ max) :
    minmaxCheck min max insts =
      if min ≠ 0 ∧ insts.length < min then .tooFew
      else if h : max ≠ 0 ∧ max < insts.length then .tooMany (insts[max]'h.2)
      else .ok := by
  exact minmaxCheck_spec min max insts hc

/-- non-vacuity: three instances against `min-elements 1; max-elements 2` — the third one is reported -/
example : (match minmaxCheck 1 2 [(.term 3 {} [] [97], 0), (.term 3 {} [] [98], 1), (.term 3 {} [] [99], 2)] with
    | .tooMany (_, idx) => idx == 2 | _ => false) = true := by decide

/-- The hypothesis of `minmax_correct` is needed: with `min > max + 1` (which `lys_compile` rejects) the loop stops at instance
`max + 1` with `min` still open and reports "too few" although there are enough instances. -/
theorem minmax_break_before_min :
    ¬ ∀ (min max : Nat) (insts : List (DNode × Nat)), minmaxCheck min max insts =
      (if min ≠ 0 ∧ insts.length < min then .tooFew
       else if h : max ≠ 0 ∧ max < insts.length then .tooMany (insts[max]'h.2) else .ok) := by
  intro h
  have := h 3 1 [(.term 0 {} [] [], 0), (.term 0 {} [] [], 1), (.term 0 {} [] [], 2)]
  rw [show minmaxCheck 3 1 [(DNode.term 0 {} [] [], 0), (DNode.term 0 {} [] [], 1), (DNode.term 0 {} [] [], 2)] = MMVerdict.tooFew from rfl] at this
  simp at this

/-- **`lyd_validate_unique`: the direct comparison (two instances) and the hash tables (more) decide the pairwise relation.**
For every hash function, every list of instances and every set of `unique` statements, an error is raised iff two instances
agree, for some statement, on all its leaves with every one of them set (instance or default): incomplete tuples are skipped
by both paths, hash collisions and the order of insertion do not matter. -/
theorem unique_hash_eq_pairwise (X : SchemaX) (lst : Nat) (hash : List Bytes → Nat) (uniques : List (List Nat))
    (insts : List (DNode × Nat)) :
    (uniqueCheck X lst hash uniques insts).isSome = existsPair (uniqViolPair X lst uniques) insts := by
  unfold uniqueCheck
  match insts with
  | [] => simp [existsPair]
  | [a] => simp [existsPair]
  | [a, b] =>
    simp only [existsPair, List.any_cons, List.any_nil, Bool.or_false, uniqViolPair]
    split <;> simp_all
  | a :: b :: c :: rest =>
    simp only []
    rw [uniqueHash_isSome]
    simp

/-- the verdict does not depend on the hash function (in particular not on collisions) -/
theorem unique_hash_independent (X : SchemaX) (lst : Nat) (h1 h2 : List Bytes → Nat) (uniques : List (List Nat))
    (insts : List (DNode × Nat)) :
    (uniqueCheck X lst h1 uniques insts).isSome = (uniqueCheck X lst h2 uniques insts).isSome := by
  rw [unique_hash_eq_pairwise, unique_hash_eq_pairwise]

/-- **`lyd_validate_duplicates`: the `children_ht` branch = the linear scan**, for every hash function under which equal instances
collide and every order of the collision chain (which holds the node itself and its siblings with the same hash). -/
theorem dup_hash_eq_scan (S : Schema) (h : DNode → Nat) (others chain : List DNode) (node : DNode)
    (hperm : chain.Perm (node :: others.filter (fun x => h x == h node)))
    (hcong : ∀ x ∈ others, dupOf S node x = true → h x = h node) :
    dupHash S chain node = dupScan S others node :=
  dupHash_eq_dupScan S h others chain node hperm hcong

/-- **`lyd_validate_cases`**: the scan over the cases of a choice fails iff two cases have only old data or two cases have new data. -/
theorem cases_correct (sibs : List DNode) (cases : List STree) :
    scanCases sibs cases none none = none ↔
      2 ≤ (cases.filter (fun c => caseFound sibs c == 1)).length ∨ 2 ≤ (cases.filter (fun c => caseFound sibs c == 2)).length := by
  have := scanCases_none_iff sibs cases none none
  simpa [optCount] using this

/-- for a freshly built or parsed sibling list (every node `LYD_NEW`): the scan fails iff data of two cases exist (RFC 7950 §7.9) -/
theorem cases_fresh (sibs : List DNode) (cases : List STree) (hnew : ∀ n ∈ sibs, n.flags.new = true) :
    scanCases sibs cases none none = none ↔ 2 ≤ (cases.filter (fun c => hasData sibs c.dataSids)).length := by
  rw [cases_correct]
  have hf : ∀ c : STree, caseFound sibs c = if hasData sibs c.dataSids then 2 else 0 := by
    intro c
    unfold caseFound hasData
    dsimp only
    by_cases hany : (sibs.filter (inSids c.dataSids)).any (·.flags.new) = true
    · obtain ⟨n, hn, _⟩ := List.any_eq_true.1 hany
      have := List.mem_filter.1 hn
      rw [if_pos hany, if_pos (List.any_eq_true.2 ⟨n, this.1, this.2⟩)]
    · have hemp : sibs.filter (inSids c.dataSids) = [] := by
        apply List.eq_nil_iff_forall_not_mem.2
        intro n hn
        apply hany
        exact List.any_eq_true.2 ⟨n, hn, hnew n (List.mem_filter.1 hn).1⟩
      have hno : ¬ sibs.any (inSids c.dataSids) = true := by
        intro h
        obtain ⟨n, hn, hp⟩ := List.any_eq_true.1 h
        have : n ∈ sibs.filter (inSids c.dataSids) := List.mem_filter.2 ⟨hn, hp⟩
        rw [hemp] at this
        cases this
      rw [if_neg hany, if_neg hno, hemp]
      rfl
  have h1 : (cases.filter (fun c => caseFound sibs c == 1)) = [] := by
    apply List.filter_eq_nil_iff.2
    intro c _
    rw [hf c]
    split <;> simp
  have h2 : (cases.filter (fun c => caseFound sibs c == 2)) = cases.filter (fun c => hasData sibs c.dataSids) := by
    apply List.filter_congr
    intro c _
    rw [hf c]
    split <;> simp_all
  rw [h1, h2]
  simp

/-! ## constraint families: the model's check = the constraint of the specification, on one sibling list

The families below are composed over the whole tree into `validate_ok_iff_valid` (end of this file) for plain schemas.
-- OPEN: `validate_ok_iff_valid` for schemas with `choice` / `case`, `default`, `unique` and non-presence containers (implicit
-- data interleaves with the checks; the F175 / F180 / F188 variants of the code violate it there).  For that class the iff is
-- evaluated on the implementation (law `iff` of tools/checks/c02.py, both directions, every run) and the model is compared with
-- the specification by the `spec` operation; what is proved is the family-level equivalences of this table.
-- OPEN: `validate_error_tag` beyond plain schemas, and `verdict_order_independent` (the verdict is invariant under reordering
-- the siblings) are laws (`tag`, `apptag`, `order`) only.

| family (error kind)              | theorem                                   | RFC 7950 |
|----------------------------------|-------------------------------------------|----------|
| duplicates (`Dup`)               | `dup_family`, `dup_hash_eq_scan`          | §7.5, §7.6, §7.7, §7.8.2 |
| one case per choice (`DupCase`)  | `cases_fresh`, `cases_correct`            | §7.9 |
| min / max-elements               | `minmax_family`, `minmax_correct`         | §7.7.5, §7.7.6, §7.8.5 |
| unique                           | `unique_hash_eq_pairwise`                 | §7.8.3 (tuple semantics: finding F175) |
| state data under no-state        | `state_family`                            | — |
| mandatory leaf / choice          | by definition of `schemaNodes` / `schemaChoice` (`hasInst`) | §7.6.5, §7.9.4 |
-/

/-- **duplicate family** (`lyd_validate_new` on a freshly built or parsed sibling list, every node `LYD_NEW`): no error is logged
iff no two siblings are the same leaf or container, list entries with equal keys, or equal values of a configuration leaf-list —
key-less lists and state leaf-lists excepted (RFC 7950 §7.8.2, §7.7). -/
theorem dup_family (X : SchemaX) (o : VOpts) (cx : Cx) (hop : o.operational = false) (sibs : List DNode)
    (hnew : ∀ n ∈ sibs, n.flags.new = true) :
    (loopErrs X o cx [] sibs).errs = [] ↔ NoPair X.base sibs := by
  have := loopErrs_nil_iff X o cx hop sibs [] hnew
  simpa using this

/-- together with `newLoop_noDflt`: the whole loop on default-free fresh siblings -/
theorem dup_family_loop (X : SchemaX) (o : VOpts) (cx : Cx) (hop : o.operational = false) (sibs : List DNode)
    (hnew : ∀ n ∈ sibs, n.flags.new = true) (hnd : ∀ n ∈ sibs, n.flags.dflt = false) :
    (newLoop X o cx (sibs.length + 1) [] sibs none).2.errs = [] ↔ NoPair X.base sibs := by
  rw [newLoop_noDflt X o cx (sibs.length + 1) sibs [] none (by omega) (by simpa using hnd)]
  exact dup_family X o cx hop sibs hnew

/-- non-vacuity: two entries of `list l { key k; }` with the same key are a forbidden pair, with different keys they are not -/
example :
    let S : Schema := { modName := "m", nodes := [{ depth := 0, kind := .list, name := "l", nkeys := 1 },
      { depth := 1, kind := .leaf, name := "k", iskey := true }] }
    (dupPair S (.inner 0 {} [] [.term 1 {} [] [49]]) (.inner 0 {} [] [.term 1 {} [] [49]]),
     dupPair S (.inner 0 {} [] [.term 1 {} [] [49]]) (.inner 0 {} [] [.term 1 {} [] [50]])) = (true, false) := by decide

/-- **min/max family**: for a list or leaf-list `k` of a compiled schema (`min-elements` ≤ `max-elements`, below 2³²), without
`LYD_VALIDATE_OPERATIONAL`, `lyd_validate_minmax` as `lyd_validate_siblings_schema_r` calls it (UINT32_MAX for "unbounded") logs no
error iff the number of instances is neither below `min-elements` nor above `max-elements`. -/
theorem minmax_family (S : Schema) (o : VOpts) (cx : Cx) (sibs : List DNode) (k : STree) (hop : o.operational = false)
    (hmm : k.info.max = 0 ∨ k.info.min ≤ k.info.max) (hmin : k.info.min ≤ uint32Max)
    (hlen : (instsOf sibs k.sid).length ≤ uint32Max) :
    (minmaxOut S o cx sibs k).errs = [] ↔
      ¬ ((instsOf sibs k.sid).length < k.info.min) ∧ ¬ (k.info.max ≠ 0 ∧ k.info.max < (instsOf sibs k.sid).length) :=
  minmaxOut_nil_iff S o cx sibs k hop hmm hmin hlen

/-- **state family**: the node checks of `lyd_validate_final_r` log no error iff, under `LYD_VALIDATE_NO_STATE`, no sibling is state data -/
theorem state_family (S : Schema) (o : VOpts) (cx : Cx) : ∀ (rest before : List DNode),
    (nodeChecks S o cx before rest).errs = [] ↔ (o.noState = true → ∀ n ∈ rest, S.config n.sid = true) := by
  intro rest
  induction rest with
  | nil => intro before; simp [nodeChecks]
  | cons n ns ih =>
    intro before
    unfold nodeChecks
    rw [Out.append_errs, List.append_eq_nil_iff, ih]
    by_cases hns : o.noState = true
    · by_cases hc : S.config n.sid = true
      · simp [hns, hc]
      · have hc' : S.config n.sid = false := by simpa using hc
        simp [hns, hc', Out.err, Out.errs]
    · have : o.noState = false := by simpa using hns
      simp [this]


/-! ## the whole of `lyd_validate` against the specification -/

/-- **`validate_ok_iff_valid`, plain schemas**: for a schema of containers with presence, lists, leaf-lists and leaves without
`default`, `choice`, `unique` and without a mandatory node below a non-presence container (`PlainSane`: no implicit data and no case
logic is involved; `min-elements` ≤ `max-elements` < 2³²) and every instance tree of it as the builders or the parsers leave it
(every node `LYD_NEW` and nothing else, `isFreshL`; every node an instance of a schema child of its parent's schema node, `placedL`,
of the right node kind, `shapedL`), under every option set without `LYD_VALIDATE_OPERATIONAL`:
the instance can be built and `lyd_validate` logs no error **iff** the instance satisfies the RFC 7950 specification `Valid`
(duplicates §7.5–7.8, keys §7.8.2, min/max §7.7.5–6, mandatory §7.6.5, values §9, no state data under no-state).
Unbounded in the schema, the tree and the values.  The remaining hypotheses are about the tables, not the data: the schema-tree view
is consistent with the flat table (`KidsLookupOk`, `InfoOk`; decidable: `lookupOkB`, `infoOkB`), the walk has fuel for the schema depth,
sibling lists are shorter than 2³² (the C counts them in a `uint32_t`). -/
theorem validate_ok_iff_valid (X : SchemaX) (o : VOpts) (hop : o.operational = false) (hu : X.uniques = []) (hl : KidsLookupOk X)
    (hps : PlainSane X) (hio : InfoOk X) (t : List DNode) (hp : placedL X X.top t = true) (hsh : shapedL X X.top t = true)
    (hh : sheightL X.top ≤ walkFuel X t) (hfr : isFreshL t = true) (hlen : lenOkL t = true) (hlen0 : t.length ≤ uint32Max) :
    (buildL X.base t = none ∧ (validate X o t).errs = []) ↔ Valid X o t := by
  unfold Valid violations
  by_cases hpe : (o.present && t.isEmpty) = true
  · simp only [hpe, if_true, iff_true]
    have ht : t = [] := by
      simp only [Bool.and_eq_true, List.isEmpty_iff] at hpe; exact hpe.2
    subst ht
    refine ⟨rfl, ?_⟩
    unfold validate
    simp only [hpe, if_true]
    rfl
  · have hpe' : (o.present && t.isEmpty) = false := by simpa using hpe
    simp only [hpe', Bool.false_eq_true, if_false, dfltStateL_fresh X.base t hfr, Bool.and_false, List.append_nil]
    rw [validate_errs_iff X o hop hu hl hps t hp hh hfr hlen hlen0 hpe',
      spec_iff_lvlOk X o hu hl (fun k hk => (hps k hk).1) hio t hp hfr hsh, lvlOk_top_iff]

/-- the example schema: `container c { presence; list l { key k; leaf k; leaf m { mandatory true; } } leaf-list ll { type int8;
min-elements 1; max-elements 2; } leaf s { config false; } }` -/
def Sp : Schema := { modName := "ex2", nodes := [
  { depth := 0, kind := .container, name := "c", presence := true },
  { depth := 1, kind := .list, name := "l", nkeys := 1 },
  { depth := 2, kind := .leaf, name := "k", iskey := true },
  { depth := 2, kind := .leaf, name := "m", mandatory := true },
  { depth := 1, kind := .leaflist, name := "ll", ty := .int8, min := 1, max := 2 },
  { depth := 1, kind := .leaf, name := "s", config := false }] }
def Xp : SchemaX := SchemaX.ofSchema Sp
def fl : Flags := { new := true }
/-- a valid instance -/
def tOk : List DNode := [.inner 0 fl [] [.inner 1 fl [] [.term 2 fl [] [49], .term 3 fl [] [120]], .term 4 fl [] [49]]]
/-- two entries with the same key, the second without its mandatory leaf, no `ll`, state data -/
def tBad : List DNode := [.inner 0 fl [] [.inner 1 fl [] [.term 2 fl [] [49], .term 3 fl [] [120]], .inner 1 fl [] [.term 2 fl [] [49]],
  .term 5 fl [] [121]]]

/-- non-vacuity: the hypotheses hold for the example schema and both trees; the first tree is valid and accepted, the second is
refused by both sides (the model logs the duplicate on both entries, the missing `ll` and the missing mandatory leaf; with `LYD_VALIDATE_NO_STATE`
the state leaf as well) -/
example : KidsLookupOk Xp ∧ PlainSane Xp ∧ InfoOk Xp ∧ Xp.uniques = [] ∧
    (placedL Xp Xp.top tOk && shapedL Xp Xp.top tOk && isFreshL tOk && lenOkL tOk) = true ∧
    (placedL Xp Xp.top tBad && shapedL Xp Xp.top tBad && isFreshL tBad && lenOkL tBad) = true ∧
    sheightL Xp.top ≤ walkFuel Xp tOk ∧ sheightL Xp.top ≤ walkFuel Xp tBad ∧
    Valid Xp {} tOk ∧ (validate Xp {} tOk).errs = [] ∧ buildL Sp tOk = none ∧
    ¬ Valid Xp {} tBad ∧ ((validate Xp {} tBad).errs.map (·.kind)) = [.dup, .dup, .noMin, .noMand] ∧
    violations Xp { noState := true } tBad = [.dup, .noMand, .noMin, .unexpState] := by
  refine ⟨lookupOk_of_B Xp (by decide), plainSane_of_B Xp (by decide), infoOk_of_B Xp (by decide), by decide, by decide, by decide,
    by decide, by decide, by decide, by decide, by decide, by decide, by decide, by decide⟩


/-- **`validate_error_tag`, plain schemas** (same class and hypotheses as `validate_ok_iff_valid`): every error `lyd_validate`
logs — the first one, which is the verdict without `LYD_VALIDATE_MULTI_ERROR`, and every further one with it — is of a constraint
family the instance violates according to the specification: a `Dup` error only where two instances of a leaf / container, two
equal configuration leaf-list values or two list entries with the same keys exist, `NoMin` / `NoMax` (app-tags `too-few-elements`
/ `too-many-elements`, `EKind.appTag`) only where a (leaf-)list has too few / too many entries, `NoMand` only where a mandatory
leaf is missing in an existing parent, `UnexpState` only where state data exists under `LYD_VALIDATE_NO_STATE`. -/
theorem validate_error_tag (X : SchemaX) (o : VOpts) (hop : o.operational = false) (hu : X.uniques = []) (hl : KidsLookupOk X)
    (hps : PlainSane X) (hio : InfoOk X) (t : List DNode) (hp : placedL X X.top t = true) (hsh : shapedL X X.top t = true)
    (hh : sheightL X.top ≤ walkFuel X t) (hfr : isFreshL t = true) (hlen : lenOkL t = true) (hlen0 : t.length ≤ uint32Max) :
    ∀ e ∈ (validate X o t).errs, e.kind ∈ violations X o t := by
  intro e he
  by_cases hpe : (o.present && t.isEmpty) = true
  · unfold validate at he
    simp only [hpe, if_true] at he
    cases he
  · have hpe' : (o.present && t.isEmpty) = false := by simpa using hpe
    unfold violations
    simp only [hpe', Bool.false_eq_true, if_false]
    rw [List.mem_append]
    left
    show e.kind ∈ specL X o X.top (explicitL t)
    rw [explicitL_fresh _ hfr]
    have hpl : PlainX X := fun k hk => (hps k hk).1
    have hsk : ∀ k ∈ X.top, BelowL k X.top := fun k hk => BelowL.of_mem hk
    have hplain : ∀ k ∈ X.top, plainNode k = true := fun k hk => hpl k (hsk k hk)
    have hinfo : ∀ k ∈ X.top, InfoFacts X.base k := fun k hk => infoFacts_of_get _ _ (hio k (hsk k hk))
    have hpa := (placedL_all X X.top t).1 hp
    have hplaced : ∀ n ∈ t, ∃ k ∈ X.top, k.sid = n.sid := fun n hn => by
      obtain ⟨k, hk, hs⟩ := List.any_eq_true.1 (hpa n hn).1
      exact ⟨k, hk, by simpa using hs⟩
    have hsD : LvSound X o .dup (fun _ sibs => ¬ NoPair X.base sibs) :=
      fun sk sibs a b c d h => dupBad_spec X o sk sibs a b c d h
    have hsK : LvSound X o e.kind (fun sk sibs => lvlBad X o sk sibs e.kind) :=
      fun sk sibs a b c _ h => lvlBad_spec X o sk sibs e.kind a b c h
    rcases validate_errs_kinds X o hop hu hl hps t hp hh hfr hlen hlen0 hpe' e he with ⟨hk, h | h⟩ | h | h
    · rw [hk]; exact dupBad_spec X o X.top t hplain hinfo hplaced hfr h
    · rw [hk]
      obtain ⟨n', hn', k', hk', hs', hnt, hshape, hK⟩ := deepBadL_spec X o .dup _ hsD hl hpl hio t X.top hsk hp hfr hsh h
      exact spec_lift X o .dup X.top t n' hn' k' hk' hs' (hplain k' hk') hnt hshape hK
    · exact lvlBad_spec X o X.top t e.kind hplain hinfo hplaced h
    · obtain ⟨n', hn', k', hk', hs', hnt, hshape, hK⟩ := deepBadL_spec X o e.kind _ hsK hl hpl hio t X.top hsk hp hfr hsh h
      exact spec_lift X o e.kind X.top t n' hn' k' hk' hs' (hplain k' hk') hnt hshape hK

/-- non-vacuity: the four errors the model logs on `tBad` are of the three families the specification lists; with
`LYD_VALIDATE_NO_STATE` the fifth one is the state leaf -/
example : ((validate Xp {} tBad).errs.all fun e => (violations Xp {} tBad).contains e.kind) = true ∧
    ((validate Xp { noState := true } tBad).errs.map (·.kind)) = [.dup, .dup, .unexpState, .noMin, .noMand] ∧
    ((validate Xp { noState := true } tBad).errs.all fun e => (violations Xp { noState := true } tBad).contains e.kind) = true := by
  refine ⟨by decide, by decide, by decide⟩

end LyModel.Props.C02
