import LyModel.Valid.Spec
/-! C02 — property theorems (under construction) -/
namespace LyModel.Props.C02
open LyModel LyModel.Tree LyModel.Valid

theorem placeholder : True := trivial

end LyModel.Props.C02
