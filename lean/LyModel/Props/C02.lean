import LyModel.Valid.Spec
import LyModel.Valid.LemmasMinMax
import LyModel.Valid.LemmasUnique
import LyModel.Valid.LemmasNew
import LyModel.Valid.LemmasFamily
import LyModel.Valid.LemmasIff2
import LyModel.Valid.LemmasTag
import LyModel.Valid.LemmasOpsSpec
import LyModel.Valid.LemmasOpsNoState
/-!
# C02 — validation accepts exactly the instances that satisfy the schema

Property theorems about the model `LyModel.Valid` of `src/validation.c` (correspondence with the C: `tools/checks/c02.py`).
Helper lemmas live in `LyModel/Valid/Lemmas*.lean`.
-/
namespace LyModel.Props.C02
open LyModel LyModel.Tree LyModel.Valid

/-! ## the loops of `lyd_validate_siblings_schema_r`, sharp about their shortcuts -/

/-- **`lyd_validate_minmax` = plain counting**, for every instance list and every `min` / `max` (0 = no bound) a compiled schema can
have (`min-elements` ≤ `max-elements`): "too few" iff fewer than `min` instances, else "too many" iff more than `max`, reported on
instance number `max + 1`; the early `break`s (min reached and no max; max exceeded) change nothing. -/
theorem minmax_correct (min max : Nat) (insts : List (DNode × Nat)) (hc : max = 0 ∨ min ≤ max) :
    minmaxCheck min max insts =
      if min ≠ 0 ∧ insts.length < min then .tooFew
      else if h : max ≠ 0 ∧ max < insts.length then .tooMany (insts[max]'h.2)
      else .ok := by
  exact minmaxCheck_spec min max insts hc

/-- non-vacuity: three instances against `min-elements 1; max-elements 2` — the third one is reported -/
example : (match minmaxCheck 1 2 [(.term 3 {} [] [97], 0), (.term 3 {} [] [98], 1), (.term 3 {} [] [99], 2)] with
    | .tooMany (_, idx) => idx == 2 | _ => false) = true := by decide

/-- non-vacuity (audit): the theorem instantiated on its other branch, `max = 0` (no bound): one instance against `min-elements 2` is
"too few"; three instances against `min-elements 1` stop the loop at the first one (min reached, no max) and are accepted -/
example : minmaxCheck 2 0 [(.term 3 {} [] [97], 0)] = .tooFew ∧
    minmaxCheck 1 0 [(.term 3 {} [] [97], 0), (.term 3 {} [] [98], 1), (.term 3 {} [] [99], 2)] = .ok :=
  ⟨by rw [minmax_correct 2 0 _ (Or.inl rfl)]; rfl, by rw [minmax_correct 1 0 _ (Or.inl rfl)]; rfl⟩

/-- The hypothesis of `minmax_correct` is needed: with `min > max + 1` (which `lys_compile` rejects) the loop stops at instance
`max + 1` with `min` still open and reports "too few" although there are enough instances. -/
theorem minmax_break_before_min :
    ¬ ∀ (min max : Nat) (insts : List (DNode × Nat)), minmaxCheck min max insts =
      (if min ≠ 0 ∧ insts.length < min then .tooFew
       else if h : max ≠ 0 ∧ max < insts.length then .tooMany (insts[max]'h.2) else .ok) := by
  intro h
  have := h 3 1 [(.term 0 {} [] [], 0), (.term 0 {} [] [], 1), (.term 0 {} [] [], 2)]
  rw [show minmaxCheck 3 1 [(DNode.term 0 {} [] [], 0), (DNode.term 0 {} [] [], 1), (DNode.term 0 {} [] [], 2)] = MMVerdict.tooFew from rfl] at this
  simp at this

/-- **`lyd_validate_unique`: the direct comparison (two instances) and the hash tables (more) decide the pairwise relation.**
For every hash function, every list of instances and every set of `unique` statements, an error is raised iff two instances
agree, for some statement, on all its leaves with every one of them set (instance or default): incomplete tuples are skipped
by both paths, hash collisions and the order of insertion do not matter. -/
theorem unique_hash_eq_pairwise (X : SchemaX) (lst : Nat) (hash : List Bytes → Nat) (uniques : List (List Nat))
    (insts : List (DNode × Nat)) :
    (uniqueCheck X lst hash uniques insts).isSome = existsPair (uniqViolPair X lst uniques) insts := by
  unfold uniqueCheck
  match insts with
  | [] => simp [existsPair]
  | [a] => simp [existsPair]
  | [a, b] =>
    simp only [existsPair, List.any_cons, List.any_nil, Bool.or_false, uniqViolPair]
    split <;> simp_all
  | a :: b :: c :: rest =>
    simp only []
    rw [uniqueHash_isSome]
    simp

/-- audit witness: `list l { key k; unique "u w"; leaf k; leaf u; leaf w { default "d"; } }` (repaired variant of the code) -/
def auSu : Schema := { modName := "exu", nodes := [
  { depth := 0, kind := .list, name := "l", nkeys := 1 },
  { depth := 1, kind := .leaf, name := "k", iskey := true },
  { depth := 1, kind := .leaf, name := "u" },
  { depth := 1, kind := .leaf, name := "w", dflts := [[100]] }] }
def auXu : SchemaX := { SchemaX.ofSchema auSu [(0, [2, 3])] with q := Quirks.fixed }
def auE (k : UInt8) (rest : List DNode) : DNode := .inner 0 {} [] (.term 1 {} [] [k] :: rest)
/-- three entries (hash-table path): the first (`u = x`, `w = d` explicit) and the third (`u = x`, `w` absent: default in use) agree;
the second has no `u` (incomplete tuple, skipped) -/
def auI3 : List (DNode × Nat) := [(auE 49 [.term 2 {} [] [120], .term 3 {} [] [100]], 0), (auE 50 [.term 3 {} [] [100]], 1),
  (auE 51 [.term 2 {} [] [120]], 2)]
/-- four entries, no two agree on a complete tuple (two of them incomplete) -/
def auI4 : List (DNode × Nat) := [(auE 49 [.term 2 {} [] [120], .term 3 {} [] [100]], 0), (auE 50 [.term 3 {} [] [100]], 1),
  (auE 51 [.term 2 {} [] [121]], 2), (auE 52 [.term 3 {} [] [100]], 3)]

/-- non-vacuity (audit): a keyed list with a two-leaf `unique` (one leaf with a default), three and four entries — both sides of the
equation are `true` on the first and `false` on the second instance list, under an all-colliding and under a separating hash function -/
example : (uniqueCheck auXu 0 (fun _ => 0) [[2, 3]] auI3).isSome = true ∧
    (uniqueCheck auXu 0 (fun t => (t.headD []).length) [[2, 3]] auI3).isSome = true ∧
    existsPair (uniqViolPair auXu 0 [[2, 3]]) auI3 = true ∧
    (uniqueCheck auXu 0 (fun _ => 0) [[2, 3]] auI4).isSome = false ∧
    existsPair (uniqViolPair auXu 0 [[2, 3]]) auI4 = false ∧
    -- exactly two entries: the direct comparison
    (uniqueCheck auXu 0 (fun _ => 0) [[2, 3]] [(auE 49 [.term 2 {} [] [120]], 0), (auE 50 [.term 2 {} [] [120]], 1)]).isSome = true := by
  decide

/-- the verdict does not depend on the hash function (in particular not on collisions) -/
theorem unique_hash_independent (X : SchemaX) (lst : Nat) (h1 h2 : List Bytes → Nat) (uniques : List (List Nat))
    (insts : List (DNode × Nat)) :
    (uniqueCheck X lst h1 uniques insts).isSome = (uniqueCheck X lst h2 uniques insts).isSome := by
  rw [unique_hash_eq_pairwise, unique_hash_eq_pairwise]

/-- non-vacuity (audit): the theorem instantiated at `auI3` with a constant hash and with the sum of the value lengths; both sides are `true` -/
example : (uniqueCheck auXu 0 (fun t => (t.map List.length).sum) [[2, 3]] auI3).isSome = true :=
  unique_hash_independent auXu 0 (fun _ => 0) (fun t => (t.map List.length).sum) [[2, 3]] auI3 ▸ (by decide)

/-- **`lyd_validate_duplicates`: the `children_ht` branch = the linear scan**, for every hash function under which equal instances
collide and every order of the collision chain (which holds the node itself and its siblings with the same hash). -/
theorem dup_hash_eq_scan (S : Schema) (h : DNode → Nat) (others chain : List DNode) (node : DNode)
    (hperm : chain.Perm (node :: others.filter (fun x => h x == h node)))
    (hcong : ∀ x ∈ others, dupOf S node x = true → h x = h node) :
    dupHash S chain node = dupScan S others node :=
  dupHash_eq_dupScan S h others chain node hperm hcong

/-- audit witness: `list l { key k; leaf k; leaf m; } leaf-list ll;` -/
def auSd : Schema := { modName := "exd", nodes := [
  { depth := 0, kind := .list, name := "l", nkeys := 1 },
  { depth := 1, kind := .leaf, name := "k", iskey := true },
  { depth := 1, kind := .leaf, name := "m" },
  { depth := 0, kind := .leaflist, name := "ll" }] }
/-- a hash in the manner of `lyd_hash`: schema node, length of the first key / of the value -/
def auH (n : DNode) : Nat := n.sid + (n.kids.headD n).val.length + n.val.length
def auL (k : Bytes) (m : UInt8) : DNode := .inner 0 { new := true } [] [.term 1 { new := true } [] k, .term 2 { new := true } [] [m]]

/-- non-vacuity (audit): list entry `l[k='1']` among four siblings — `l[k='2']` (same hash), `l[k='10']` and `ll = 1` (other hashes),
a second `l[k='1']` with another `m` (the duplicate) —, collision chain in table order `[l[k='2'], twin, node]`: both hypotheses hold, the
scan finds the duplicate, hence so does the hash branch; for `l[k='2']` (same chain) neither does -/
example : dupScan auSd [auL [50] 120, auL [49, 48] 120, .term 3 { new := true } [] [49], auL [49] 121] (auL [49] 120) = true ∧
    dupHash auSd [auL [50] 120, auL [49] 121, auL [49] 120] (auL [49] 120) =
      dupScan auSd [auL [50] 120, auL [49, 48] 120, .term 3 { new := true } [] [49], auL [49] 121] (auL [49] 120) ∧
    dupHash auSd [auL [50] 120, auL [49] 121, auL [49] 120] (auL [50] 120) = false :=
  ⟨by decide,
   dup_hash_eq_scan auSd auH _ _ _
     (((List.Perm.swap (auL [49] 120) (auL [49] 121) []).cons (auL [50] 120)).trans (List.Perm.swap (auL [49] 120) (auL [50] 120) [auL [49] 121]))
     (by decide),
   by decide⟩

/-- **`lyd_validate_cases`**: the scan over the cases of a choice fails iff two cases have only old data or two cases have new data. -/
theorem cases_correct (sibs : List DNode) (cases : List STree) :
    scanCases sibs cases none none = none ↔
      2 ≤ (cases.filter (fun c => caseFound sibs c == 1)).length ∨ 2 ≤ (cases.filter (fun c => caseFound sibs c == 2)).length := by
  have := scanCases_none_iff sibs cases none none
  simpa [optCount] using this

/-- audit witness: `choice ch { case a { leaf x; leaf y; } case b { container z { presence; } } case c { leaf-list w; } }` -/
def auSc : Schema := { modName := "exc", nodes := [
  { depth := 0, kind := .choice, name := "ch" },
  { depth := 1, kind := .case, name := "a" },
  { depth := 2, kind := .leaf, name := "x" },
  { depth := 2, kind := .leaf, name := "y" },
  { depth := 1, kind := .case, name := "b" },
  { depth := 2, kind := .container, name := "z", presence := true },
  { depth := 1, kind := .case, name := "c" },
  { depth := 2, kind := .leaflist, name := "w" }] }
/-- the three cases of `ch`, as `SchemaX.ofSchema` builds them -/
def auCases : List STree := ((SchemaX.ofSchema auSc).top.headD default).kids
def auN : Flags := { new := true }

/-- non-vacuity (audit): three cases with data ids `[x, y]`, `[z]`, `[w]`; old `x` + new `w`: the scan succeeds (auto-delete of the old
case); new `x`, `y` + new `w`: two new cases, fails; old `y` + old `z`: two old cases, fails — the right-hand side of the theorem
holds in the last two -/
example : auCases.map (·.dataSids) = [[2, 3], [5], [7]] ∧
    (scanCases [.term 2 {} [] [49], .term 7 auN [] [50]] auCases none none).isSome = true ∧
    scanCases [.term 2 auN [] [49], .term 3 auN [] [49], .term 7 auN [] [50]] auCases none none = none ∧
    scanCases [.term 3 {} [] [49], .inner 5 {} [] []] auCases none none = none ∧
    2 ≤ (auCases.filter (fun c => caseFound [.term 3 {} [] [49], .inner 5 {} [] []] c == 1)).length :=
  ⟨by decide, by decide, by decide, by decide,
   ((cases_correct [.term 3 {} [] [49], .inner 5 {} [] []] auCases).1 (by decide)).resolve_right (by decide)⟩

/-- for a freshly built or parsed sibling list (every node `LYD_NEW`): the scan fails iff data of two cases exist (RFC 7950 §7.9) -/
theorem cases_fresh (sibs : List DNode) (cases : List STree) (hnew : ∀ n ∈ sibs, n.flags.new = true) :
    scanCases sibs cases none none = none ↔ 2 ≤ (cases.filter (fun c => hasData sibs c.dataSids)).length := by
  rw [cases_correct]
  have hf : ∀ c : STree, caseFound sibs c = if hasData sibs c.dataSids then 2 else 0 := by
    intro c
    unfold caseFound hasData
    dsimp only
    by_cases hany : (sibs.filter (inSids c.dataSids)).any (·.flags.new) = true
    · obtain ⟨n, hn, _⟩ := List.any_eq_true.1 hany
      have := List.mem_filter.1 hn
      rw [if_pos hany, if_pos (List.any_eq_true.2 ⟨n, this.1, this.2⟩)]
    · have hemp : sibs.filter (inSids c.dataSids) = [] := by
        apply List.eq_nil_iff_forall_not_mem.2
        intro n hn
        apply hany
        exact List.any_eq_true.2 ⟨n, hn, hnew n (List.mem_filter.1 hn).1⟩
      have hno : ¬ sibs.any (inSids c.dataSids) = true := by
        intro h
        obtain ⟨n, hn, hp⟩ := List.any_eq_true.1 h
        have : n ∈ sibs.filter (inSids c.dataSids) := List.mem_filter.2 ⟨hn, hp⟩
        rw [hemp] at this
        cases this
      rw [if_neg hany, if_neg hno, hemp]
      rfl
  have h1 : (cases.filter (fun c => caseFound sibs c == 1)) = [] := by
    apply List.filter_eq_nil_iff.2
    intro c _
    rw [hf c]
    split <;> simp
  have h2 : (cases.filter (fun c => caseFound sibs c == 2)) = cases.filter (fun c => hasData sibs c.dataSids) := by
    apply List.filter_congr
    intro c _
    rw [hf c]
    split <;> simp_all
  rw [h1, h2]
  simp

/-- non-vacuity (audit): fresh siblings with `x`, `y` (one case) and `w` (another case): the theorem gives "data of two cases"; with `x`, `y`
only, its right-to-left direction is refuted by the scan succeeding -/
example : 2 ≤ (auCases.filter (fun c => hasData [.term 2 auN [] [49], .term 3 auN [] [49], .term 7 auN [] [50]] c.dataSids)).length ∧
    ¬ 2 ≤ (auCases.filter (fun c => hasData [.term 2 auN [] [49], .term 3 auN [] [49]] c.dataSids)).length :=
  ⟨(cases_fresh _ auCases (by decide)).1 (by decide),
   fun h => absurd ((cases_fresh [.term 2 auN [] [49], .term 3 auN [] [49]] auCases (by decide)).2 h) (by decide)⟩

/-! ## constraint families: the model's check = the constraint of the specification, on one sibling list

The families below are composed over the whole tree into `validate_ok_iff_valid` (end of this file) for plain schemas, i.e. schemas
without non-presence containers, `choice` / `case`, `default` and `unique` (`PlainSane`).
-- The same two theorems for the FULL schema language (choice / case, default, unique, non-presence containers), and
-- `verdict_order_independent`, are in `Props/C02Full.lean` (`validate_ok_iff_valid_full`, `validate_error_tag_full`); what stays OPEN
-- is listed there (instances with an empty non-presence container node; `LYD_VALIDATE_OPERATIONAL` beyond `operational_relaxes`).

| family (error kind)              | theorem                                   | RFC 7950 |
|----------------------------------|-------------------------------------------|----------|
| duplicates (`Dup`)               | `dup_family`, `dup_hash_eq_scan`          | §7.5, §7.6, §7.7, §7.8.2 |
| one case per choice (`DupCase`)  | `cases_fresh`, `cases_correct`            | §7.9 |
| min / max-elements               | `minmax_family`, `minmax_correct`         | §7.7.5, §7.7.6, §7.8.5 |
| unique                           | `unique_hash_eq_pairwise`                 | §7.8.3 (tuple semantics: finding F175) |
| state data under no-state        | `state_family`                            | — |
| mandatory leaf / choice          | by definition of `schemaNodes` / `schemaChoice` (`hasInst`) | §7.6.5, §7.9.4 |
-/

/-- **duplicate family** (`lyd_validate_new` on a freshly built or parsed sibling list, every node `LYD_NEW`): no error is logged
iff no two siblings are the same leaf or container, list entries with equal keys, or equal values of a configuration leaf-list —
key-less lists and state leaf-lists excepted (RFC 7950 §7.8.2, §7.7). -/
theorem dup_family (X : SchemaX) (o : VOpts) (cx : Cx) (hop : o.operational = false) (sibs : List DNode)
    (hnew : ∀ n ∈ sibs, n.flags.new = true) :
    (loopErrs X o cx [] sibs).errs = [] ↔ NoPair X.base sibs := by
  have := loopErrs_nil_iff X o cx hop sibs [] hnew
  simpa using this

/-- together with `newLoop_noDflt`: the whole loop on default-free fresh siblings -/
theorem dup_family_loop (X : SchemaX) (o : VOpts) (cx : Cx) (hop : o.operational = false) (sibs : List DNode)
    (hnew : ∀ n ∈ sibs, n.flags.new = true) (hnd : ∀ n ∈ sibs, n.flags.dflt = false) :
    (newLoop X o cx (sibs.length + 1) [] sibs none).2.errs = [] ↔ NoPair X.base sibs := by
  rw [newLoop_noDflt X o cx (sibs.length + 1) sibs [] none (by omega) (by simpa using hnd)]
  exact dup_family X o cx hop sibs hnew

/-- non-vacuity: two entries of `list l { key k; }` with the same key are a forbidden pair, with different keys they are not -/
example :
    let S : Schema := { modName := "m", nodes := [{ depth := 0, kind := .list, name := "l", nkeys := 1 },
      { depth := 1, kind := .leaf, name := "k", iskey := true }] }
    (dupPair S (.inner 0 {} [] [.term 1 {} [] [49]]) (.inner 0 {} [] [.term 1 {} [] [49]]),
     dupPair S (.inner 0 {} [] [.term 1 {} [] [49]]) (.inner 0 {} [] [.term 1 {} [] [50]])) = (true, false) := by decide

/-- audit witness: `list l { key k; leaf k; leaf m; } leaf-list ll { type int8; min-elements 1; max-elements 2; } leaf s { config false; }
leaf-list sl { config false; }` -/
def auSf : Schema := { modName := "exf", nodes := [
  { depth := 0, kind := .list, name := "l", nkeys := 1 },
  { depth := 1, kind := .leaf, name := "k", iskey := true },
  { depth := 1, kind := .leaf, name := "m" },
  { depth := 0, kind := .leaflist, name := "ll", ty := .int8, min := 1, max := 2 },
  { depth := 0, kind := .leaf, name := "s", config := false },
  { depth := 0, kind := .leaflist, name := "sl", config := false, userord := true }] }
def auXf : SchemaX := SchemaX.ofSchema auSf
def auF (k m : UInt8) : DNode := .inner 0 auN [] [.term 1 auN [] [k], .term 2 auN [] [m]]

/-- non-vacuity (audit): `dup_family_loop` / `dup_family` instantiated on fresh sibling lists with two list entries, leaf-list values, a
state leaf and a repeated state leaf-list value: the first list has no forbidden pair (the repeated `sl` is allowed) and the loop logs
nothing; a third entry with the key of the first, a repeated `ll` value, a second `s` each make the loop log an error -/
example : NoPair auXf.base [auF 49 120, auF 50 120, .term 3 auN [] [49], .term 3 auN [] [50], .term 4 auN [] [121],
      .term 5 auN [] [122], .term 5 auN [] [122]] ∧
    ¬ NoPair auXf.base [auF 49 120, auF 50 120, auF 49 121, .term 3 auN [] [49]] ∧
    ¬ NoPair auXf.base [auF 49 120, .term 3 auN [] [49], .term 3 auN [] [49]] ∧
    ¬ NoPair auXf.base [auF 49 120, .term 4 auN [] [121], .term 4 auN [] [122]] :=
  ⟨(dup_family_loop auXf {} {} rfl _ (by decide) (by decide)).1 (by decide),
   fun h => absurd ((dup_family_loop auXf {} {} rfl _ (by decide) (by decide)).2 h) (by decide),
   fun h => absurd ((dup_family auXf {} {} rfl _ (by decide)).2 h) (by decide),
   fun h => absurd ((dup_family auXf {} {} rfl _ (by decide)).2 h) (by decide)⟩

/-- **min/max family**: for a list or leaf-list `k` of a compiled schema (`min-elements` ≤ `max-elements`, below 2³²), without
`LYD_VALIDATE_OPERATIONAL`, `lyd_validate_minmax` as `lyd_validate_siblings_schema_r` calls it (UINT32_MAX for "unbounded") logs no
error iff the number of instances is neither below `min-elements` nor above `max-elements`. -/
theorem minmax_family (S : Schema) (o : VOpts) (cx : Cx) (sibs : List DNode) (k : STree) (hop : o.operational = false)
    (hmm : k.info.max = 0 ∨ k.info.min ≤ k.info.max) (hmin : k.info.min ≤ uint32Max)
    (hlen : (instsOf sibs k.sid).length ≤ uint32Max) :
    (minmaxOut S o cx sibs k).errs = [] ↔
      ¬ ((instsOf sibs k.sid).length < k.info.min) ∧ ¬ (k.info.max ≠ 0 ∧ k.info.max < (instsOf sibs k.sid).length) :=
  minmaxOut_nil_iff S o cx sibs k hop hmm hmin hlen

/-- the schema node of `ll` (`min-elements 1; max-elements 2`) of the audit witness -/
def auKll : STree := .mk 3 { depth := 0, kind := .leaflist, name := "ll", ty := .int8, min := 1, max := 2 } []

/-- non-vacuity (audit): the theorem instantiated at `ll` among other siblings: two instances — no error; none — an error (too few); three —
an error (too many) -/
example : (minmaxOut auSf {} {} [auF 49 120, .term 3 auN [] [49], .term 3 auN [] [50]] auKll).errs = [] ∧
    (minmaxOut auSf {} {} [auF 49 120] auKll).errs ≠ [] ∧
    (minmaxOut auSf {} {} [auF 49 120, .term 3 auN [] [49], .term 3 auN [] [50], .term 3 auN [] [51]] auKll).errs ≠ [] :=
  ⟨(minmax_family auSf {} {} _ auKll rfl (by decide) (by decide) (by decide)).2 (by decide),
   fun h => absurd ((minmax_family auSf {} {} _ auKll rfl (by decide) (by decide) (by decide)).1 h) (by decide),
   fun h => absurd ((minmax_family auSf {} {} _ auKll rfl (by decide) (by decide) (by decide)).1 h) (by decide)⟩

/-- **state family**: the node checks of `lyd_validate_final_r` log no error iff, under `LYD_VALIDATE_NO_STATE`, no sibling is state data -/
theorem state_family (S : Schema) (o : VOpts) (cx : Cx) : ∀ (rest before : List DNode),
    (nodeChecks S o cx before rest).errs = [] ↔ (o.noState = true → ∀ n ∈ rest, S.config n.sid = true) := by
  intro rest
  induction rest with
  | nil => intro before; simp [nodeChecks]
  | cons n ns ih =>
    intro before
    unfold nodeChecks
    rw [Out.append_errs, List.append_eq_nil_iff, ih]
    by_cases hns : o.noState = true
    · by_cases hc : S.config n.sid = true
      · simp [hns, hc]
      · have hc' : S.config n.sid = false := by simpa using hc
        simp [hns, hc', Out.err, Out.errs]
    · have : o.noState = false := by simpa using hns
      simp [this]

/-- non-vacuity (audit): under `LYD_VALIDATE_NO_STATE` configuration siblings log nothing, the state leaf `s` does; without the option it
does not -/
example : (nodeChecks auSf { noState := true } {} [] [auF 49 120, .term 3 auN [] [49]]).errs = [] ∧
    (nodeChecks auSf { noState := true } {} [] [auF 49 120, .term 3 auN [] [49], .term 4 auN [] [121]]).errs ≠ [] ∧
    (nodeChecks auSf {} {} [] [auF 49 120, .term 3 auN [] [49], .term 4 auN [] [121]]).errs = [] :=
  ⟨(state_family auSf { noState := true } {} _ []).2 (by decide),
   fun h => absurd ((state_family auSf { noState := true } {} _ []).1 h rfl) (by decide),
   (state_family auSf {} {} _ []).2 (by decide)⟩


/-! ## the whole of `lyd_validate` against the specification -/

-- AUDIT (resolved): docstrings reworded to "schemas without non-presence containers (`PlainSane`)", citing `validate_ok_iff_valid_vacuous_for_np_containers`.
/-- **`validate_ok_iff_valid`, plain schemas = schemas without non-presence containers (`PlainSane`)**: for a schema of containers
with presence, lists, leaf-lists and leaves, without `default`, `choice` / `case`, `unique` and without ANY non-presence container
(`PlainSane`, through `plainNode`, excludes every non-presence container, wherever it stands and whatever is below it —
`validate_ok_iff_valid_vacuous_for_np_containers`; so no implicit data and no case logic is involved; `min-elements` ≤ `max-elements`
< 2³²) and every instance tree of it as the builders or the parsers leave it
(every node `LYD_NEW` and nothing else, `isFreshL`; every node an instance of a schema child of its parent's schema node, `placedL`,
of the right node kind, `shapedL`), under every option set without `LYD_VALIDATE_OPERATIONAL`:
the instance can be built and `lyd_validate` logs no error **iff** the instance satisfies the RFC 7950 specification `Valid`
(duplicates §7.5–7.8, keys §7.8.2, min/max §7.7.5–6, mandatory §7.6.5, values §9, no state data under no-state).
Unbounded in the schema, the tree and the values.  The theorem says nothing about a schema that has a non-presence container
(that class is the OPEN item in the section header above).  The remaining hypotheses are about the tables, not the data: the schema-tree view
is consistent with the flat table (`KidsLookupOk`, `InfoOk`; decidable: `lookupOkB`, `infoOkB`), the walk has fuel for the schema depth,
sibling lists are shorter than 2³² (the C counts them in a `uint32_t`). -/
theorem validate_ok_iff_valid (X : SchemaX) (o : VOpts) (hop : o.operational = false) (hu : X.uniques = []) (hl : KidsLookupOk X)
    (hps : PlainSane X) (hio : InfoOk X) (t : List DNode) (hp : placedL X X.top t = true) (hsh : shapedL X X.top t = true)
    (hh : sheightL X.top ≤ walkFuel X t) (hfr : isFreshL t = true) (hlen : lenOkL t = true) (hlen0 : t.length ≤ uint32Max) :
    (buildL X.base t = none ∧ (validate X o t).errs = []) ↔ Valid X o t := by
  unfold Valid violations
  by_cases hpe : (o.present && t.isEmpty) = true
  · simp only [hpe, if_true, iff_true]
    have ht : t = [] := by
      simp only [Bool.and_eq_true, List.isEmpty_iff] at hpe; exact hpe.2
    subst ht
    refine ⟨rfl, ?_⟩
    unfold validate
    simp only [hpe, if_true]
    rfl
  · have hpe' : (o.present && t.isEmpty) = false := by simpa using hpe
    simp only [hpe', Bool.false_eq_true, if_false, dfltStateL_fresh X.base t hfr, Bool.and_false, List.append_nil]
    rw [validate_errs_iff X o hop hu hl hps t hp hh hfr hlen hlen0 hpe',
      spec_iff_lvlOk X o hu hl (fun k hk => (hps k hk).1) hio t hp hfr hsh, lvlOk_top_iff]

/-- the example schema: `container c { presence; list l { key k; leaf k; leaf m { mandatory true; } } leaf-list ll { type int8;
min-elements 1; max-elements 2; } leaf s { config false; } }` -/
def Sp : Schema := { modName := "ex2", nodes := [
  { depth := 0, kind := .container, name := "c", presence := true },
  { depth := 1, kind := .list, name := "l", nkeys := 1 },
  { depth := 2, kind := .leaf, name := "k", iskey := true },
  { depth := 2, kind := .leaf, name := "m", mandatory := true },
  { depth := 1, kind := .leaflist, name := "ll", ty := .int8, min := 1, max := 2 },
  { depth := 1, kind := .leaf, name := "s", config := false }] }
def Xp : SchemaX := SchemaX.ofSchema Sp
def fl : Flags := { new := true }
/-- a valid instance -/
def tOk : List DNode := [.inner 0 fl [] [.inner 1 fl [] [.term 2 fl [] [49], .term 3 fl [] [120]], .term 4 fl [] [49]]]
/-- two entries with the same key, the second without its mandatory leaf, no `ll`, state data -/
def tBad : List DNode := [.inner 0 fl [] [.inner 1 fl [] [.term 2 fl [] [49], .term 3 fl [] [120]], .inner 1 fl [] [.term 2 fl [] [49]],
  .term 5 fl [] [121]]]

/-- non-vacuity: the hypotheses hold for the example schema and both trees; the first tree is valid and accepted, the second is
refused by both sides (the model logs the duplicate on both entries, the missing `ll` and the missing mandatory leaf; with `LYD_VALIDATE_NO_STATE`
the state leaf as well) -/
example : KidsLookupOk Xp ∧ PlainSane Xp ∧ InfoOk Xp ∧ Xp.uniques = [] ∧
    (placedL Xp Xp.top tOk && shapedL Xp Xp.top tOk && isFreshL tOk && lenOkL tOk) = true ∧
    (placedL Xp Xp.top tBad && shapedL Xp Xp.top tBad && isFreshL tBad && lenOkL tBad) = true ∧
    sheightL Xp.top ≤ walkFuel Xp tOk ∧ sheightL Xp.top ≤ walkFuel Xp tBad ∧
    Valid Xp {} tOk ∧ (validate Xp {} tOk).errs = [] ∧ buildL Sp tOk = none ∧
    ¬ Valid Xp {} tBad ∧ ((validate Xp {} tBad).errs.map (·.kind)) = [.dup, .dup, .noMin, .noMand] ∧
    violations Xp { noState := true } tBad = [.dup, .noMand, .noMin, .unexpState] := by
  refine ⟨lookupOk_of_B Xp (by decide), plainSane_of_B Xp (by decide), infoOk_of_B Xp (by decide), by decide, by decide, by decide,
    by decide, by decide, by decide, by decide, by decide, by decide, by decide, by decide⟩

/-- **scope of `PlainSane`** (audit theorem): a schema that satisfies `PlainSane` has no non-presence container anywhere — every schema
node `k` below the top level (`BelowL k X.top`, any depth) has `k.isNpCont = false`.  Hence `validate_ok_iff_valid` and
`validate_error_tag`, which assume `PlainSane X`, are statements about schemas without non-presence containers only, and are silent
about every schema with one. -/
theorem validate_ok_iff_valid_vacuous_for_np_containers (X : SchemaX) (hps : PlainSane X) (k : STree) (hk : BelowL k X.top) :
    k.isNpCont = false := by
  have h := (hps k hk).1
  unfold plainNode at h
  unfold STree.isNpCont
  simp only [Bool.and_eq_true, bne_iff_ne, ne_eq, Bool.not_eq_eq_eq_not, Bool.not_true] at h
  exact h.1.1.1.1.2

/-- audit witness, three levels deep: `container c { presence; list o { key k; min-elements 1; leaf k; list i { key j; max-elements 2;
leaf j { type uint8; } leaf m { mandatory true; } leaf-list w { type int8; } } } leaf-list sl { config false; } }` -/
def auSn : Schema := { modName := "exn", nodes := [
  { depth := 0, kind := .container, name := "c", presence := true },
  { depth := 1, kind := .list, name := "o", nkeys := 1, min := 1 },
  { depth := 2, kind := .leaf, name := "k", iskey := true },
  { depth := 2, kind := .list, name := "i", nkeys := 1, max := 2 },
  { depth := 3, kind := .leaf, name := "j", iskey := true, ty := .uint8 },
  { depth := 3, kind := .leaf, name := "m", mandatory := true },
  { depth := 3, kind := .leaflist, name := "w", ty := .int8 },
  { depth := 1, kind := .leaflist, name := "sl", config := false, userord := true }] }
def auXn : SchemaX := SchemaX.ofSchema auSn
def auI (j : UInt8) (rest : List DNode) : DNode := .inner 3 fl [] (.term 4 fl [] [j] :: rest)
def auO (k : UInt8) (rest : List DNode) : DNode := .inner 1 fl [] (.term 2 fl [] [k] :: rest)
/-- valid: `o[k=a]` with `i[j=1] { m, w = 1, w = 2 }` and `i[j=2] { m }`, an empty `o[k=b]`, the state value `sl = z` twice -/
def auT1 : List DNode := [.inner 0 fl [] [
  auO 97 [auI 49 [.term 5 fl [] [120], .term 6 fl [] [49], .term 6 fl [] [50]], auI 50 [.term 5 fl [] [120]]],
  auO 98 [], .term 7 fl [] [122], .term 7 fl [] [122]]]
/-- the value `w = 2` twice, three levels down -/
def auT2 : List DNode := [.inner 0 fl [] [
  auO 97 [auI 49 [.term 5 fl [] [120], .term 6 fl [] [50], .term 6 fl [] [50]], auI 50 [.term 5 fl [] [120]]], auO 98 []]]
/-- `w = 200` is no int8 (the instance cannot be built), and `i[j=2]` lacks `m` -/
def auT3 : List DNode := [.inner 0 fl [] [auO 97 [auI 49 [.term 5 fl [] [120], .term 6 fl [] [50, 48, 48]], auI 50 []]]]

/-- non-vacuity (audit): the theorem itself instantiated on a list nested in a list nested in a presence container, with leaf-lists,
a mandatory leaf, min/max and state data: all hypotheses hold for the schema and the three trees; it yields acceptance of the valid
tree, and from the model's refusal (duplicate `w` at depth 3; unbuildable value; state data under `LYD_VALIDATE_NO_STATE`) that the
specification is violated -/
example : (buildL auXn.base auT1 = none ∧ (validate auXn {} auT1).errs = []) ∧
    ¬ Valid auXn {} auT2 ∧ ¬ Valid auXn {} auT3 ∧ ¬ Valid auXn { noState := true } auT1 :=
  have H : ∀ (t : List DNode) (o : VOpts), o.operational = false →
      (placedL auXn auXn.top t && shapedL auXn auXn.top t && isFreshL t && lenOkL t &&
        decide (sheightL auXn.top ≤ walkFuel auXn t) && decide (t.length ≤ uint32Max)) = true →
      ((buildL auXn.base t = none ∧ (validate auXn o t).errs = []) ↔ Valid auXn o t) := fun t o hop h => by
    simp only [Bool.and_eq_true, decide_eq_true_eq] at h
    obtain ⟨⟨⟨⟨⟨h1, h2⟩, h3⟩, h4⟩, h5⟩, h6⟩ := h
    exact validate_ok_iff_valid auXn o hop rfl (lookupOk_of_B _ (by decide)) (plainSane_of_B _ (by decide))
      (infoOk_of_B _ (by decide)) t h1 h2 h5 h3 h4 h6
  ⟨(H auT1 {} rfl (by decide)).2 (by decide),
   fun h => absurd ((H auT2 {} rfl (by decide)).2 h).2 (by decide),
   fun h => absurd ((H auT3 {} rfl (by decide)).2 h).1 (by decide),
   fun h => absurd ((H auT1 { noState := true } rfl (by decide)).2 h).2 (by decide)⟩


/-- **`validate_error_tag`, plain schemas = schemas without non-presence containers (`PlainSane`)** (same class and hypotheses as
`validate_ok_iff_valid`: no `default`, `choice` / `case`, `unique`, and no non-presence container at all —
`validate_ok_iff_valid_vacuous_for_np_containers`): every error `lyd_validate`
logs — the first one, which is the verdict without `LYD_VALIDATE_MULTI_ERROR`, and every further one with it — is of a constraint
family the instance violates according to the specification: a `Dup` error only where two instances of a leaf / container, two
equal configuration leaf-list values or two list entries with the same keys exist, `NoMin` / `NoMax` (app-tags `too-few-elements`
/ `too-many-elements`, `EKind.appTag`) only where a (leaf-)list has too few / too many entries, `NoMand` only where a mandatory
leaf is missing in an existing parent, `UnexpState` only where state data exists under `LYD_VALIDATE_NO_STATE`. -/
theorem validate_error_tag (X : SchemaX) (o : VOpts) (hop : o.operational = false) (hu : X.uniques = []) (hl : KidsLookupOk X)
    (hps : PlainSane X) (hio : InfoOk X) (t : List DNode) (hp : placedL X X.top t = true) (hsh : shapedL X X.top t = true)
    (hh : sheightL X.top ≤ walkFuel X t) (hfr : isFreshL t = true) (hlen : lenOkL t = true) (hlen0 : t.length ≤ uint32Max) :
    ∀ e ∈ (validate X o t).errs, e.kind ∈ violations X o t := by
  intro e he
  by_cases hpe : (o.present && t.isEmpty) = true
  · unfold validate at he
    simp only [hpe, if_true] at he
    cases he
  · have hpe' : (o.present && t.isEmpty) = false := by simpa using hpe
    unfold violations
    simp only [hpe', Bool.false_eq_true, if_false]
    rw [List.mem_append]
    left
    show e.kind ∈ specL X o X.top (explicitL t)
    rw [explicitL_fresh _ hfr]
    have hpl : PlainX X := fun k hk => (hps k hk).1
    have hsk : ∀ k ∈ X.top, BelowL k X.top := fun k hk => BelowL.of_mem hk
    have hplain : ∀ k ∈ X.top, plainNode k = true := fun k hk => hpl k (hsk k hk)
    have hinfo : ∀ k ∈ X.top, InfoFacts X.base k := fun k hk => infoFacts_of_get _ _ (hio k (hsk k hk))
    have hpa := (placedL_all X X.top t).1 hp
    have hplaced : ∀ n ∈ t, ∃ k ∈ X.top, k.sid = n.sid := fun n hn => by
      obtain ⟨k, hk, hs⟩ := List.any_eq_true.1 (hpa n hn).1
      exact ⟨k, hk, by simpa using hs⟩
    have hsD : LvSound X o .dup (fun _ sibs => ¬ NoPair X.base sibs) :=
      fun sk sibs a b c d h => dupBad_spec X o sk sibs a b c d h
    have hsK : LvSound X o e.kind (fun sk sibs => lvlBad X o sk sibs e.kind) :=
      fun sk sibs a b c _ h => lvlBad_spec X o sk sibs e.kind a b c h
    rcases validate_errs_kinds X o hop hu hl hps t hp hh hfr hlen hlen0 hpe' e he with ⟨hk, h | h⟩ | h | h
    · rw [hk]; exact dupBad_spec X o X.top t hplain hinfo hplaced hfr h
    · rw [hk]
      obtain ⟨n', hn', k', hk', hs', hnt, hshape, hK⟩ := deepBadL_spec X o .dup _ hsD hl hpl hio t X.top hsk hp hfr hsh h
      exact spec_lift X o .dup X.top t n' hn' k' hk' hs' (hplain k' hk') hnt hshape hK
    · exact lvlBad_spec X o X.top t e.kind hplain hinfo hplaced h
    · obtain ⟨n', hn', k', hk', hs', hnt, hshape, hK⟩ := deepBadL_spec X o e.kind _ hsK hl hpl hio t X.top hsk hp hfr hsh h
      exact spec_lift X o e.kind X.top t n' hn' k' hk' hs' (hplain k' hk') hnt hshape hK

/-- non-vacuity: the four errors the model logs on `tBad` are of the three families the specification lists; with
`LYD_VALIDATE_NO_STATE` the fifth one is the state leaf -/
example : ((validate Xp {} tBad).errs.all fun e => (violations Xp {} tBad).contains e.kind) = true ∧
    ((validate Xp { noState := true } tBad).errs.map (·.kind)) = [.dup, .dup, .unexpState, .noMin, .noMand] ∧
    ((validate Xp { noState := true } tBad).errs.all fun e => (violations Xp { noState := true } tBad).contains e.kind) = true := by
  refine ⟨by decide, by decide, by decide⟩

/-- non-vacuity (audit): the theorem itself instantiated at the three-level witness `auT2` (hypotheses discharged by evaluation): the
model logs errors there (the duplicate `w` values at depth 3), and each of them is of a family the specification lists -/
example : (validate auXn {} auT2).errs ≠ [] ∧ ∀ e ∈ (validate auXn {} auT2).errs, e.kind ∈ violations auXn {} auT2 :=
  ⟨by decide,
   validate_error_tag auXn {} rfl rfl (lookupOk_of_B _ (by decide)) (plainSane_of_B _ (by decide)) (infoOk_of_B _ (by decide)) auT2
     (by decide) (by decide) (by decide) (by decide) (by decide) (by decide)⟩


/-! ## content of operations and notifications: the all-state variant of the schema

Inside an rpc / action `input` / `output` and inside a `notification` the `config` statement is ignored (RFC 7950 §7.21.1); the
check `tools/checks/c02.py: operations` therefore expects libyang's verdict on operation content to be the specification evaluated
on `Valid.stateVariant X` (every node `config false`, nothing else changed), with no option.  The theorems of this section say what
that step does to the constraints, for every schema (any depth, choices, `unique`, defaults), every instance and every option set
without `LYD_VALIDATE_NO_STATE`.  **Excluded option**: `LYD_VALIDATE_NO_STATE` is about datastore content and is never applied to
operation data (`lyd_validate_op` passes `val_opts = 0`); `ops_noState` records what the specification would say. -/

instance : LawfulBEq EKind where
  eq_of_beq := by intro a b h; cases a <;> cases b <;> first | rfl | cases h
  rfl := by intro a; cases a <;> rfl

/-- the constraint violations that exist only because a leaf-list is configuration: one `.dup` for every (configuration leaf-list,
sibling list the specification visits — below existing list entries and containers, through non-presence containers, in the cases
that have data) that holds some value twice (RFC 7950 §7.7: "in configuration data, the values in a leaf-list MUST be unique") -/
def cfgLeafListDups (X : SchemaX) (o : VOpts) (t : List DNode) : List EKind :=
  if o.present && t.isEmpty then [] else llDupL (fun _ => false) X.top (explicitPart t)

/-- **`ops_relaxes`**: without `LYD_VALIDATE_NO_STATE`, the violations of the all-state variant are a sublist (same order) of the
violations of the schema itself — an instance that is valid datastore content is valid content of an operation with the same data
definitions, and every constraint family violated as operation content is violated as datastore content. -/
theorem ops_relaxes (X : SchemaX) (o : VOpts) (hns : o.noState = false) (t : List DNode) :
    (violations (stateVariant X) o t).Sublist (violations X o t) := by
  unfold violations
  split
  · exact List.Sublist.refl _
  · simp only [hns, Bool.false_and, Bool.false_eq_true, if_false, List.append_nil]
    exact specL_sublist X o hns (fun _ => false) (fun _ h => by cases h) X.top _

/-- the same for ANY set of nodes whose `config` is turned off (`c i = true → i.config = true`: `c` never turns it on) -/
theorem config_off_relaxes (X : SchemaX) (o : VOpts) (hns : o.noState = false) (c : SNode → Bool)
    (hc : ∀ i, c i = true → i.config = true) (t : List DNode) :
    (violations (X.mapConfig c) o t).Sublist (violations X o t) := by
  unfold violations
  split
  · exact List.Sublist.refl _
  · simp only [hns, Bool.false_and, Bool.false_eq_true, if_false, List.append_nil]
    exact specL_sublist X o hns c hc X.top _

theorem ops_valid_of_valid (X : SchemaX) (o : VOpts) (hns : o.noState = false) (t : List DNode) (h : Valid X o t) :
    Valid (stateVariant X) o t := by
  unfold Valid at *
  have := ops_relaxes X o hns t
  rw [h] at this
  exact List.sublist_nil.1 this

/-- **`ops_exact_difference`**: the violations of the schema are, up to order, the violations of its all-state variant plus the
duplicate-value violations of its configuration leaf-lists (`cfgLeafListDups`, all of kind `Dup`) — nothing else appears or
disappears: duplicates of leaves, containers, keyed list entries, `DupCase`, mandatory / min / max / unique / keys / values are the
same lists on both sides. -/
theorem ops_exact_difference (X : SchemaX) (o : VOpts) (hns : o.noState = false) (t : List DNode) :
    (violations X o t).Perm (violations (stateVariant X) o t ++ cfgLeafListDups X o t) ∧
      ∀ e ∈ cfgLeafListDups X o t, e = .dup := by
  refine ⟨?_, ?_⟩
  · rw [List.perm_iff_count]
    intro e
    unfold violations cfgLeafListDups
    split
    · rfl
    · simp only [hns, Bool.false_and, Bool.false_eq_true, if_false, List.append_nil, List.count_append]
      exact specL_count X o hns (fun _ => false) (fun _ h => by cases h) e X.top _
  · unfold cfgLeafListDups
    split
    · intro e he; cases he
    · exact llDupL_only_dup _ _ _

/-- every kind other than `Dup` is violated by the schema iff by its variant; `Dup` iff by the variant or by a configuration leaf-list -/
theorem ops_difference_mem (X : SchemaX) (o : VOpts) (hns : o.noState = false) (t : List DNode) (e : EKind) :
    e ∈ violations X o t ↔ e ∈ violations (stateVariant X) o t ∨ (e = .dup ∧ cfgLeafListDups X o t ≠ []) := by
  obtain ⟨hp, hd⟩ := ops_exact_difference X o hns t
  rw [hp.mem_iff, List.mem_append]
  constructor
  · rintro (h | h)
    · exact Or.inl h
    · exact Or.inr ⟨hd e h, List.ne_nil_of_mem h⟩
  · rintro (h | ⟨rfl, h⟩)
    · exact Or.inl h
    · right
      obtain ⟨x, hx⟩ := List.exists_mem_of_ne_nil _ h
      rw [← hd x hx]; exact hx

/-- valid as datastore content = valid as operation content and no configuration leaf-list with a repeated value -/
theorem valid_iff_ops_valid (X : SchemaX) (o : VOpts) (hns : o.noState = false) (t : List DNode) :
    Valid X o t ↔ Valid (stateVariant X) o t ∧ cfgLeafListDups X o t = [] := by
  obtain ⟨hp, _⟩ := ops_exact_difference X o hns t
  unfold Valid
  constructor
  · intro h
    rw [h] at hp
    have := hp.symm.eq_nil
    exact List.append_eq_nil_iff.1 this
  · rintro ⟨h1, h2⟩
    rw [h1, h2] at hp
    exact hp.eq_nil

/-- the example schema: `leaf-list ll; list l { key k; leaf k; leaf-list w; } choice ch { case a { leaf x; } case b { leaf y; } }
leaf s { config false; }` — configuration leaf-lists at the top and inside a keyed list, a choice -/
def Sops : Schema := { modName := "exo", nodes := [
  { depth := 0, kind := .leaflist, name := "ll" },
  { depth := 0, kind := .list, name := "l", nkeys := 1 },
  { depth := 1, kind := .leaf, name := "k", iskey := true },
  { depth := 1, kind := .leaflist, name := "w" },
  { depth := 0, kind := .choice, name := "ch" },
  { depth := 1, kind := .case, name := "a" },
  { depth := 2, kind := .leaf, name := "x" },
  { depth := 1, kind := .case, name := "b" },
  { depth := 2, kind := .leaf, name := "y", mandatory := true },
  { depth := 0, kind := .leaf, name := "s", config := false }] }
def Xops : SchemaX := SchemaX.ofSchema Sops
/-- `ll = a, a`; `l[k=1] { w = 1, 1 }` twice (same key); `x` and `y` (two cases) -/
def tOps : List DNode := [.term 0 fl [] [97], .term 0 fl [] [97],
  .inner 1 fl [] [.term 2 fl [] [49], .term 3 fl [] [49], .term 3 fl [] [49]], .inner 1 fl [] [.term 2 fl [] [49]],
  .term 6 fl [] [120], .term 8 fl [] [121]]
/-- only the leaf-list values repeat -/
def tOps2 : List DNode := [.term 0 fl [] [97], .term 0 fl [] [97],
  .inner 1 fl [] [.term 2 fl [] [49], .term 3 fl [] [49], .term 3 fl [] [49]], .term 6 fl [] [120]]

/-- non-vacuity: on `tOps` the schema is violated four times — the two configuration leaf-lists, the list key, the choice; its all-state
variant keeps exactly the key and the choice, `cfgLeafListDups` is the other two; `tOps2` is invalid datastore content and valid
operation content -/
example : violations Xops {} tOps = [.dup, .dup, .dup, .dupCase] ∧ violations (stateVariant Xops) {} tOps = [.dup, .dupCase] ∧
    cfgLeafListDups Xops {} tOps = [.dup, .dup] ∧
    violations Xops {} tOps2 = [.dup, .dup] ∧ Valid (stateVariant Xops) {} tOps2 ∧ cfgLeafListDups Xops {} tOps2 = [.dup, .dup] := by
  refine ⟨by decide, by decide, by decide, by decide, by decide, by decide⟩

/-! ### the variant as a schema -/

/-- **`stateVariant_idem`**: taking the variant twice changes nothing more; the variant is all-state; an all-state schema is its own
variant -/
theorem stateVariant_idem (X : SchemaX) : stateVariant (stateVariant X) = stateVariant X :=
  SchemaX.mapConfig_const_comp false _ X

theorem stateVariant_allState (X : SchemaX) : (stateVariant X).allState = true := by
  unfold SchemaX.allState stateVariant SchemaX.mapConfig
  simp [allStateL_mapConfig, mapConfigS]

theorem stateVariant_of_allState (X : SchemaX) (h : X.allState = true) : stateVariant X = X := by
  unfold SchemaX.allState at h
  simp only [Bool.and_eq_true, List.all_eq_true, Bool.not_eq_eq_eq_not, Bool.not_true] at h
  unfold stateVariant SchemaX.mapConfig
  rw [mapConfigL_allState X.top h.1]
  have : mapConfigS (fun _ => false) X.base = X.base := by
    unfold mapConfigS
    have : X.base.nodes.map (setConfig fun _ => false) = X.base.nodes := by
      rw [List.map_congr_left (g := id) (fun n hn => setConfig_fix _ n (h.2 n hn).symm)]
      simp
    rw [this]
  rw [this]

/-- non-vacuity: the example schema is not all-state, its variant is, and differs from it -/
example : Xops.allState = false ∧ (stateVariant Xops).allState = true ∧
    (stateVariant Xops).base.config 0 = false ∧ Xops.base.config 0 = true := by
  refine ⟨by decide, by decide, by decide, by decide⟩

/-- **`stateVariant_wellFormed`**: the variant of a well-formed schema is well-formed — the tree view is consistent with the flat table
(`KidsLookupOk`, `InfoOk`), plain and sane where the schema is (`PlainSane`), with the same `unique` statements — and an instance is
placed / shaped / buildable in the variant iff it is in the schema.  Hence every C02 theorem with these hypotheses applies to the
variant (next theorem). -/
theorem stateVariant_wellFormed (X : SchemaX) :
    (KidsLookupOk X → KidsLookupOk (stateVariant X)) ∧ (InfoOk X → InfoOk (stateVariant X)) ∧
    (PlainSane X → PlainSane (stateVariant X)) ∧ (stateVariant X).uniques = X.uniques ∧
    (∀ t, placedL (stateVariant X) (stateVariant X).top t = placedL X X.top t) ∧
    (∀ t, shapedL (stateVariant X) (stateVariant X).top t = shapedL X X.top t) ∧
    (∀ t, buildL (stateVariant X).base t = buildL X.base t) ∧
    sheightL (stateVariant X).top = sheightL X.top ∧ (∀ t, walkFuel (stateVariant X) t = walkFuel X t) :=
  ⟨kidsLookupOk_mapConfig _ X, infoOk_mapConfig _ X, plainSane_mapConfig _ X, rfl, placedL_mapConfig _ X X.top,
   shapedL_mapConfig _ X X.top, buildL_mapConfig _ X.base, sheightL_mapConfig _ X.top, walkFuel_mapConfig _ X⟩

/-- **the model of `lyd_validate_op` for the source tree at hand is `validate` on the all-state variant**, on every route (rpc
input, reply output, notification).  This is where the facts read from the C source enter (`LyModel.Generated.OpsFacts`, written by
`tools/extractors/ops.py`): config flags cleared inside operations (`lys_compile_config`), a leaf-list without `LYS_CONFIG_W` may
repeat (`lysc_is_dup_inst_list`), `_lyd_validate_op` runs `lyd_validate_new` on the output siblings of a reply.  When one of them
stops holding in the source, this theorem stops checking (and `opsValidate` follows the source, so that the check still finds the
documents on which libyang departs from the specification). -/
theorem opsValidate_current (r : Route) (X : SchemaX) (t : List DNode) :
    opsValidate OpFacts.current r X t = validate (stateVariant X) {} t := by
  have hF : OpFacts.current = OpFacts.rfc := by decide
  rw [hF]
  cases r <;> rfl

/-- the duplicate-instance macro of the source, evaluated by the extractor on every node kind and config flag combination, is the
model's `Schema.isDupInst` — key-less list, or leaf-list that is not `config true` — with "no config flag" (operation content)
behaving like `config false` -/
theorem dupInst_source_table :
    ∀ row ∈ Generated.dupInstTable, row.2.2 = (row.1 == "keylessList" || (row.1 == "leaflist" && row.2.1 != "w")) := by
  decide

/-- **`validate_iff_valid_ops`** (the C02 iff theorem on operation content), plain schemas = schemas without non-presence containers
(`PlainSane`), any depth: for a well-formed schema `X` and an instance of its data definitions as the parsers leave it, on every
route, the instance can be built and the model of `lyd_validate_op` logs no error **iff** the instance satisfies the specification
of operation content (`opsViolations X t = []`, the RFC 7950 constraints of the all-state variant). -/
theorem validate_iff_valid_ops (r : Route) (X : SchemaX) (hu : X.uniques = []) (hl : KidsLookupOk X) (hps : PlainSane X) (hio : InfoOk X)
    (t : List DNode) (hp : placedL X X.top t = true) (hsh : shapedL X X.top t = true) (hh : sheightL X.top ≤ walkFuel X t)
    (hfr : isFreshL t = true) (hlen : lenOkL t = true) (hlen0 : t.length ≤ uint32Max) :
    (buildL X.base t = none ∧ (opsValidate OpFacts.current r X t).errs = []) ↔ opsViolations X t = [] := by
  obtain ⟨w1, w2, w3, w4, w5, w6, w7, w8, w9⟩ := stateVariant_wellFormed X
  rw [opsValidate_current, ← w7 t]
  exact validate_ok_iff_valid (stateVariant X) {} rfl (by rw [w4]; exact hu) (w1 hl) (w3 hps) (w2 hio) t (by rw [w5]; exact hp)
    (by rw [w6]; exact hsh) (by rw [w8, w9]; exact hh) hfr hlen hlen0

/-- two equal values of the configuration leaf-list `ll` of the example schema `Sp` (inside the presence container `c`) -/
def tDupLL : List DNode := [.inner 0 fl [] [.inner 1 fl [] [.term 2 fl [] [49], .term 3 fl [] [120]], .term 4 fl [] [49], .term 4 fl [] [49]]]

/-- non-vacuity: the theorem instantiated at the schema `Sp` (a configuration leaf-list `ll` in a presence container) on the reply
route: `tDupLL` is refused as datastore content (`Dup`) and accepted as operation content by model and specification alike; `tBad`
(duplicate list key, missing mandatory leaf, too few `ll`) is refused as both -/
example : ((buildL Xp.base tDupLL = none ∧ (opsValidate OpFacts.current .output Xp tDupLL).errs = []) ↔ opsViolations Xp tDupLL = []) ∧
    opsViolations Xp tDupLL = [] ∧ violations Xp {} tDupLL = [.dup] ∧ ((validate Xp {} tDupLL).errs.map (·.kind)) = [.dup, .dup] ∧
    (opsValidate OpFacts.current .output Xp tDupLL).errs = [] ∧
    opsViolations Xp tBad = [.dup, .noMand, .noMin] ∧ (opsValidate OpFacts.current .input Xp tBad).errs ≠ [] :=
  ⟨validate_iff_valid_ops .output Xp rfl (lookupOk_of_B _ (by decide)) (plainSane_of_B _ (by decide)) (infoOk_of_B _ (by decide)) tDupLL
     (by decide) (by decide) (by decide) (by decide) (by decide) (by decide),
   by decide, by decide, by decide, by decide, by decide, by decide⟩

/-- **each fact is needed**: in a source tree where one of the three facts does not hold, the model of `lyd_validate_op` (which follows
the source) departs from the specification of operation content on a concrete instance of the example schema — the check then
reports such instances as violations with the document (`ops-iff`):
without `lyd_validate_new` on the output siblings (F193) a reply with the leaf `x` twice is accepted;
with leaf-lists of operations held to unique values, or with config flags honoured inside operations, the repeated `ll` / `w` values
of `tOps2` are refused. -/
theorem ops_facts_needed :
    ((opsValidate { OpFacts.rfc with replyOutputNewValidated := false } .output Xops [.term 6 fl [] [120], .term 6 fl [] [120]]).errs = [] ∧
      opsViolations Xops [.term 6 fl [] [120], .term 6 fl [] [120]] = [.dup] ∧
      ((opsValidate OpFacts.rfc .output Xops [.term 6 fl [] [120], .term 6 fl [] [120]]).errs.map (·.kind)) = [.dup, .dup]) ∧
    (((opsValidate { OpFacts.rfc with leafListDupAllowed := false } .input Xops tOps2).errs.map (·.kind)).contains .dup = true ∧
      opsViolations Xops tOps2 = [] ∧ (opsValidate OpFacts.rfc .input Xops tOps2).errs = []) ∧
    (((opsValidate { OpFacts.rfc with configIgnored := false } .notif Xops tOps2).errs.map (·.kind)).contains .dup = true) := by
  refine ⟨⟨by decide, by decide, by decide⟩, ⟨by decide, by decide, by decide⟩, by decide⟩

/-! ### `LYD_VALIDATE_NO_STATE` (excluded for operation content) -/

/-- **`ops_noState`**: under `LYD_VALIDATE_NO_STATE` the specification on the all-state variant reports `UnexpState` as soon as the
instance has any explicit top-level node of the schema (a data node of the top level, through choices and cases): no non-empty
instance of an all-state schema is valid "configuration only" content.  This is why the option is not part of the operations
family: `lyd_validate_op` has no option argument and validates with `val_opts = 0`. -/
theorem ops_noState (X : SchemaX) (o : VOpts) (hns : o.noState = true) (t : List DNode) (n : DNode) (hn : n ∈ explicitPart t)
    (hs : n.sid ∈ dataSidsL X.top) : EKind.unexpState ∈ violations (stateVariant X) o t := by
  unfold violations
  have hne : t ≠ [] := by
    intro h; subst h; simp [explicitPart, explicitL] at hn
  have : (o.present && t.isEmpty) = false := by
    cases t with
    | nil => exact absurd rfl hne
    | cons _ _ => simp
  simp only [this, Bool.false_eq_true, if_false, List.mem_append]
  left
  refine specL_noState _ o hns _ _ n.sid (allStateL_mapConfig X.top) ?_ ?_
  · show n.sid ∈ dataSidsL (mapConfigL _ X.top)
    rw [mapConfigL_dataSids]; exact hs
  · exact List.any_eq_true.2 ⟨n, hn, by simp⟩

/-- so: valid under `LYD_VALIDATE_NO_STATE` on the variant → no explicit node of the schema's top level -/
theorem ops_noState_valid (X : SchemaX) (o : VOpts) (hns : o.noState = true) (t : List DNode) (h : Valid (stateVariant X) o t) :
    ∀ n ∈ explicitPart t, n.sid ∉ dataSidsL X.top := by
  intro n hn hs
  have := ops_noState X o hns t n hn hs
  unfold Valid at h
  rw [h] at this
  cases this

/-- non-vacuity: the one-leaf instance `x` (inside a case of the choice) is valid operation content and `UnexpState` under no-state;
on the schema itself (where `x` is configuration) it is valid under no-state -/
example : Valid (stateVariant Xops) {} [.term 6 fl [] [120]] ∧ violations (stateVariant Xops) { noState := true } [.term 6 fl [] [120]] = [.unexpState] ∧
    Valid Xops { noState := true } [.term 6 fl [] [120]] ∧ (6 : Nat) ∈ dataSidsL Xops.top := by
  refine ⟨by decide, by decide, by decide, by decide⟩

end LyModel.Props.C02
