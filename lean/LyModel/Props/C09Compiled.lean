import LyModel.Props.C09
/-!
# C09 — the compiled content: the reduction to `Fresh`

`Ctx.descOf` (the structured compiled content: top-level nodes with their augmenting / deviating modules, enabled features,
features of used groupings) is a function of what `failed_op_restores_fixed` / `failed_op_restores_partial` and
`amend_arrays_restored` prove restored.  So: if the compiled modules are up to date before and after a failed call (`Fresh`) and the
same modules are compiled, the compiled content of every module is the one from before.
-/
namespace LyModel.Props.C09
open LyModel LyModel.Ctx

private theorem filterMap_congr' {α β : Type} {f g : α → Option β} : ∀ (l : List α), (∀ a ∈ l, f a = g a) →
    l.filterMap f = l.filterMap g := by
  intro l
  induction l with
  | nil => intro _; rfl
  | cons a r ih =>
    intro h
    simp only [List.filterMap_cons, h a (List.mem_cons_self ..)]
    rw [ih (fun x hx => h x (List.mem_cons_of_mem _ hx))]

private theorem key_of_core {m' m : Mod} (h : m'.core = m.core) : m'.key = m.key :=
  Mod.key_eq_of_src (congrArg Core.src h)

/-- looking a module up by its key gives corresponding modules in two lists that agree on cores and arrays -/
theorem find_congr : ∀ (l' l : List Mod), l'.map Mod.core = l.map Mod.core → l'.map Mod.av = l.map Mod.av → ∀ k : MKey,
    (l'.find? (fun m => m.key == k) = none ∧ l.find? (fun m => m.key == k) = none) ∨
    ∃ t' t, l'.find? (fun m => m.key == k) = some t' ∧ l.find? (fun m => m.key == k) = some t ∧ t'.core = t.core ∧ t'.av = t.av := by
  intro l'
  induction l' with
  | nil => intro l h _ k; cases l with
    | nil => exact Or.inl ⟨rfl, rfl⟩
    | cons _ _ => simp at h
  | cons a' r' ih =>
    intro l hc ha k
    cases l with
    | nil => simp at hc
    | cons a r =>
      simp only [List.map_cons, List.cons.injEq] at hc ha
      have hk : a'.key = a.key := key_of_core hc.1
      by_cases hb : a.key = k
      · right
        refine ⟨a', a, ?_, ?_, hc.1, ha.1⟩
        · simp [List.find?_cons, hk, hb]
        · simp [List.find?_cons, hb]
      · have h1 : (a'.key == k) = false := by rw [hk]; simpa using hb
        have h2 : (a.key == k) = false := by simpa using hb
        simp only [List.find?_cons, h1, h2]
        exact ih r hc.2 ha.2 k

/-- **the compiled content is a function of cores and arrays** -/
theorem descOf_congr {s s' : Ctx} (hc : s'.mods.map Mod.core = s.mods.map Mod.core) (ha : s'.mods.map Mod.av = s.mods.map Mod.av)
    {m' m : Mod} (hm : m'.core = m.core) (hav : m'.av = m.av) : s'.descOf m' = s.descOf m := by
  have hsrc : m'.src = m.src := congrArg Core.src hm
  have hfe : m'.feats = m.feats := congrArg Core.feats hm
  have hsf : m'.subFeats = m.subFeats := congrArg Core.subFeats hm
  have hir : m'.impRes = m.impRes := congrArg Core.impRes hm
  have hkey : m'.key = m.key := key_of_core hm
  simp only [Mod.av, Prod.mk.injEq] at hav
  obtain ⟨_, hab, hdb⟩ := hav
  have hen : m'.enabledNames = m.enabledNames := by simp [Mod.enabledNames, Mod.allFeats, hfe, hsf]
  have hfind := find_congr s'.mods s.mods hc ha
  have ham : ∀ (isAug : Bool) (n : Bytes) (refs : List MKey), s'.amendersOf m' refs isAug n = s.amendersOf m refs isAug n := by
    intro isAug n refs
    unfold Ctx.amendersOf
    congr 1
    apply List.filter_congr
    intro a _
    unfold Ctx.find
    rcases hfind a with ⟨h1, h2⟩ | ⟨t', t, h1, h2, h3, _⟩
    · rw [h1, h2]
    · rw [h1, h2]
      have : t'.src = t.src := congrArg Core.src h3
      have hi : t'.impRes = t.impRes := congrArg Core.impRes h3
      simp [Mod.impKey, this, hi, hkey]
  unfold Ctx.descOf
  rw [hsrc]
  split
  · rw [hen, hab, hdb]
    congr 1
    · apply filterMap_congr'
      intro n _
      simp only [Mod.impKey, hir]
      split
      · rfl
      · next k _ =>
        unfold Ctx.find
        rcases hfind k with ⟨h1, h2⟩ | ⟨t', t, h1, h2, h3, _⟩
        · rw [h1, h2]
        · rw [h1, h2]
          have : t'.feats = t.feats := congrArg Core.feats h3
          simp [this]
    · apply List.map_congr_left
      intro n _
      rw [ham, ham]
  · rfl

/-- **`compiled_schema_restored`, reduced to `Fresh`.**  For every quiescent context with well-formed arrays whose compiled
    modules are up to date, every operation and every failure point — with a NULL `features` argument, or any `features` argument
    for the code with fixes/F4.diff —: if after the failed call the compiled modules are up to date again (`Fresh`: what the
    flag / dependency-set logic of `lys_unres_glob_revert` is to establish, cf. F380) and the same modules are compiled, then the
    structured compiled content of EVERY module — top-level nodes with their augmenting and deviating modules, enabled features,
    features of used groupings — is the one from before. -/
theorem compiled_schema_restored_of_fresh (s : Ctx) (op : Op) (e : Nat) (s' : Ctx) (hq : Quiescent s) (ha : AmendOk s)
    (hf : featArg op = none ∨ s.cfg2.restoreFeats = true) (hrun : run s op = (.error e, s'))
    (hfresh : Fresh s) (hfresh' : Fresh s') (hsome : s'.mods.map (·.compiled.isSome) = s.mods.map (·.compiled.isSome)) :
    s'.mods.map (fun m => (m.key, m.compiled.map (·.2))) = s.mods.map (fun m => (m.key, m.compiled.map (·.2))) := by
  have hc : s'.mods.map Mod.core = s.mods.map Mod.core := failed_op_restores_cores s op e s' hq hf hrun
  have hav : s'.mods.map Mod.av = s.mods.map Mod.av := amend_arrays_restored s op e s' hq ha hrun
  have key : ∀ (l' l : List Mod), l'.map Mod.core = l.map Mod.core → l'.map Mod.av = l.map Mod.av →
      l'.map (·.compiled.isSome) = l.map (·.compiled.isSome) →
      (∀ m' ∈ l', ∀ i d, m'.compiled = some (i, d) → d = s'.descOf m') → (∀ m ∈ l, ∀ i d, m.compiled = some (i, d) → d = s.descOf m) →
      l'.map (fun m => (m.key, m.compiled.map (·.2))) = l.map (fun m => (m.key, m.compiled.map (·.2))) := by
    intro l'
    induction l' with
    | nil => intro l h _ _ _ _; cases l with
      | nil => rfl
      | cons _ _ => simp at h
    | cons a' r' ih =>
      intro l h1 h2 h3 h4 h5
      cases l with
      | nil => simp at h1
      | cons a r =>
        simp only [List.map_cons, List.cons.injEq] at h1 h2 h3
        have hrest := ih r h1.2 h2.2 h3.2 (fun m hm => h4 m (List.mem_cons_of_mem _ hm)) (fun m hm => h5 m (List.mem_cons_of_mem _ hm))
        simp only [List.map_cons, List.cons.injEq, Prod.mk.injEq]
        refine ⟨⟨key_of_core h1.1, ?_⟩, hrest⟩
        cases hca' : a'.compiled with
        | none =>
          cases hca : a.compiled with
          | none => rfl
          | some x => rw [hca', hca] at h3; simp at h3
        | some x' =>
          cases hca : a.compiled with
          | none => rw [hca', hca] at h3; simp at h3
          | some x =>
            have e1 := h4 a' (List.mem_cons_self ..) x'.1 x'.2 (by rw [hca'])
            have e2 := h5 a (List.mem_cons_self ..) x.1 x.2 (by rw [hca])
            simp only [Option.map_some, Option.some.injEq]
            rw [e1, e2]
            exact descOf_congr hc hav h1.1 h2.1
  exact key s'.mods s.mods hc hav hsome hfresh' hfresh

theorem Fresh.ofB {s : Ctx} (h : freshB s = true) : Fresh s := by
  intro m hm i d hc
  have := (List.all_eq_true.mp h) m hm
  rw [hc] at this
  simpa using this

open LyModel.Ctx.Ex in
/-- non-vacuity: `aaa` augmented by the implemented `ccc`, everything compiled and up to date; `bbb` (another augment of `aaa`)
    is refused in the unres stage after `aaa` had been recompiled with it; the revert recompiles `aaa`: all hypotheses hold -/
example : let s := (run sA (.parse C none)).2
    let s' := (run s (.parse Bbad none)).2
    Quiescent s ∧ AmendOk s ∧ rc (run s (.parse Bbad none)).1 = 7 ∧ Fresh s ∧ Fresh s' ∧
      s'.mods.map (·.compiled.isSome) = s.mods.map (·.compiled.isSome) ∧
      ((forward (.parse Bbad none) s).2.mods.any fun m => match m.compiled with
        | some (_, d) => d.augBy.length == 2
        | none => false) = true :=
  ⟨Quiescent.ofB (by decide +kernel), AmendOk.ofB (by decide +kernel), by decide +kernel, Fresh.ofB (by decide +kernel),
    Fresh.ofB (by decide +kernel), by decide +kernel, by decide +kernel⟩

end LyModel.Props.C09
