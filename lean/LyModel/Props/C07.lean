import LyModel.Valid.Hist
import LyModel.Valid.SpecDefaults
import LyModel.Valid.LemmasImplicit
import LyModel.Valid.LemmasLoop
import LyModel.Valid.WellFormed
import LyModel.Valid.LemmasNpCont
import LyModel.Valid.LemmasCaseStable
import LyModel.Valid.LemmasNpValidate
import LyModel.Valid.LemmasCaseExact
import LyModel.Valid.LemmasCaseGood
/-!
# C07 — validation is an idempotent normalisation whose reported changes are exact

Property theorems about the model `LyModel.Valid` of `src/validation.c`, `src/tree_data_new.c` (`lyd_new_implicit`),
`src/tree_data_common.c` (`lyd_is_default`, `lyd_np_cont_dflt_*`) and `src/out.c` (`lyd_node_should_print`); correspondence
with the C: `tools/checks/c07.py`.  Helper lemmas live in `LyModel/Valid/Lemmas*.lean`.
-/
namespace LyModel.Props.C07
open LyModel LyModel.Tree LyModel.Valid
open LyModel.Generated (LYD_PRINT_KEEPEMPTYCONT LYD_PRINT_WD_EXPLICIT LYD_PRINT_WD_TRIM LYD_PRINT_WD_ALL LYD_PRINT_WD_ALL_TAG
  LYD_PRINT_WD_IMPL_TAG)

/-! ## what `lyd_new_implicit` creates -/

/-- **`dflt_flag_sound`**: every change `lyd_new_implicit` makes on a sibling level — through choices, default cases and nested
cases, in the defective and in the repaired variant of the code — is the creation of ONE node of a schema node `k` below the
level, flagged `LYD_DEFAULT` only, without children, which is a non-presence container or a terminal node whose value is a
`default` of `k`.  (Nothing is deleted or changed here; the flag is never set on anything else by validation.) -/
theorem dflt_flag_sound (X : SchemaX) (o : VOpts) (cx : Cx) (ks : List STree) (sibs : List DNode) :
    ∀ e ∈ (implL X o cx ks sibs).2.evs, ∃ k, BelowL k ks ∧
      e.op = .create ∧ e.node.sid = k.sid ∧ e.node.flags = { dflt := true } ∧ e.node.kids = [] ∧
      (e.node.isTerm = true → e.node.val ∈ k.info.dflts) ∧ (e.node.isTerm = false → k.isNpCont = true) := by
  intro e he
  obtain ⟨k, hk, h1, _, h3, h4, h5, h6, h7⟩ := implL_below X o cx ks sibs e he
  exact ⟨k, hk, h1, h3, h4, h5, h6, h7⟩

/-- non-vacuity: `container c { leaf d { default "x"; } leaf-list ll { default "a"; default "b"; } container n { } }` on the empty
container content creates three default terminal nodes and the default container -/
example :
    let S : Schema := { modName := "m", nodes := [
      { depth := 0, kind := .leaf, name := "d", dflts := [[120]] },
      { depth := 0, kind := .leaflist, name := "ll", dflts := [[97], [98]] },
      { depth := 0, kind := .container, name := "n" }] }
    let X := SchemaX.ofSchema S
    ((implL X {} {} X.top []).2.evs.map (·.node.sid), (implL X {} {} X.top []).1.length) = ([0, 1, 1, 2], 4) := by decide

/-- **`implicit_exact`** (one sibling level, the schema nodes that are not choices): `lyd_new_implicit` keeps every node that was
there; afterwards a schema node has an instance iff it had one or is a node that gets implicit data — a non-presence container, a
leaf with a default, a leaf-list with defaults, not state data under `LYD_IMPLICIT_NO_STATE` (RFC 7950 §7.5.1, §7.6.1, §7.7.2) — and
every node that was not there before is such an implicit node: flagged default only, without children.  (Through choices:
`implicit_exact_choice` below; the whole tree against `rfcComplete` is the law `implicit` of tools/checks/c07.py; findings F180, F188.) -/
theorem implicit_exact (S : Schema) (o : VOpts) (cx : Cx) (ks : List STree) (sibs : List DNode) :
    (∀ x ∈ sibs, x ∈ (implNodes S o cx ks sibs).1) ∧
    (∀ sid, hasInst (implNodes S o cx ks sibs).1 sid = (hasInst sibs sid || ks.any (fun k => wantsImplicit o k && k.sid == sid))) ∧
    (∀ x ∈ (implNodes S o cx ks sibs).1, x ∈ sibs ∨ (x.flags = { dflt := true } ∧ x.kids = [] ∧ ks.any (·.sid == x.sid) = true)) :=
  ⟨implNodes_mono S o cx ks sibs, implNodes_hasInst S o cx ks sibs, implNodes_out S o cx ks sibs⟩

/-- **`implicit_exact` through choices** (one sibling level — the children of a data node or the top level —, choices and cases in
any nesting; the repaired variant of F180): `lyd_new_implicit` keeps every node that was there; every node that was not there is
flagged default only and has no children; and afterwards a schema node has an instance **iff** it had one or is *in use*
(`wantL`): a node that gets implicit data (`wantsImplicit`: non-presence container, leaf with a default, leaf-list with defaults,
not state data under `LYD_IMPLICIT_NO_STATE`) that is a direct child of the level, or sits in the **selected** case of a choice of the
level (`wantChoice_sel`, `selCase`: the first case that has data, else — no case of the choice has data — the default case; RFC 7950
§7.9.3), recursively through the choices nested in that case — judged on the instances present BEFORE the call (what is created
for one choice does not change the selection in another: the data nodes of the level have different ids, `Nodup`).  Hypotheses:
the children of choices are cases (`kindsOkL`) and the ids differ; both decidable, true of every parsed schema. -/
theorem implicit_exact_choice (X : SchemaX) (o : VOpts) (cx : Cx) (ks : List STree) (sibs : List DNode)
    (hq : X.q.implicitInnerCase = false) (hk : kindsOkL ks = true) (hnd : (dataSidsL ks).Nodup) :
    (∀ x ∈ sibs, x ∈ (implL X o cx ks sibs).1) ∧
    (∀ sid, hasInst (implL X o cx ks sibs).1 sid = (hasInst sibs sid || wantL o (hasInst sibs) ks sid)) ∧
    (∀ x ∈ (implL X o cx ks sibs).1, x ∈ sibs ∨ (x.flags = { dflt := true } ∧ x.kids = [])) :=
  ⟨implL_keeps X o cx ks sibs, implL_exact X o cx hq ks hk hnd sibs, implL_onlyAdds X o cx ks sibs⟩

/-- schema of the witness F180: `choice o { case a { choice i { case x { leaf u; } } leaf d { default "9"; } } }` -/
def S180 : Schema := { modName := "m", nodes := [
  { depth := 0, kind := .choice, name := "o" },
  { depth := 1, kind := .case, name := "a" },
  { depth := 2, kind := .choice, name := "i" },
  { depth := 3, kind := .case, name := "x" },
  { depth := 4, kind := .leaf, name := "u" },
  { depth := 2, kind := .leaf, name := "d", dflts := [[57]] }] }
def X180 (defect : Bool) : SchemaX := { SchemaX.ofSchema S180 with q := { Quirks.fixed with implicitInnerCase := defect } }

/-- non-vacuity: with `u` set, case `a` is selected and its default `d` (schema id 5) is in use; the repaired code creates it -/
example : (X180 false).q.implicitInnerCase = false ∧ kindsOkL (X180 false).top = true ∧ (dataSidsL (X180 false).top).Nodup ∧
    wantL {} (hasInst [.term 4 {} [] [49]]) (X180 false).top 5 = true ∧
    (implL (X180 false) {} {} (X180 false).top [.term 4 {} [] [49]]).1.map (·.sid) = [4, 5] := by
  refine ⟨rfl, by decide, by decide, by decide, by decide⟩

/-- **the defective variant F180 is not exact**: the node found (`u`) sits in the nested case `x`, only `x` is completed, the default
`d` of the outer case `a` is not created although it is in use -/
theorem implicit_exact_choice_F180_fails :
    ¬ ∀ (X : SchemaX) (o : VOpts) (cx : Cx) (ks : List STree) (sibs : List DNode), kindsOkL ks = true → (dataSidsL ks).Nodup →
      ∀ sid, hasInst (implL X o cx ks sibs).1 sid = (hasInst sibs sid || wantL o (hasInst sibs) ks sid) := by
  intro h
  have := h (X180 true) {} {} (X180 true).top [.term 4 {} [] [49]] (by decide) (by decide) 5
  revert this
  decide

/-! ## auto-deletion -/

/-- **`autodel_exact`** (defaults superseded by explicit instances, `lyd_validate_autodel_leaflist_dflt` /
`lyd_validate_autodel_cont_leaf_dflt`): when the schema node of a new node has an explicit instance among the siblings, exactly
the default-flagged instances of that schema node are removed — in front of the node, behind it, and the node itself if it is one —
every recorded change is the deletion of one of them (a non-presence container through its children), and no other sibling is
touched; without an explicit instance nothing of a leaf-list goes. -/
theorem autodel_exact (X : SchemaX) (cx : Cx) (done tl : List DNode) (node : DNode) :
    let victim := fun (x : DNode) => x.sid == node.sid && x.flags.dflt
    let explicitThere := (done ++ node :: tl).any fun x => x.sid == node.sid && !x.flags.dflt
    (explicitThere = true →
      (autodelStep X cx done node tl).1 = done.filter (fun x => !victim x) ∧
      (autodelStep X cx done node tl).2.1 = victim node ∧
      (autodelStep X cx done node tl).2.2.1 = tl.filter (fun x => !victim x) ∧
      ∀ e ∈ (autodelStep X cx done node tl).2.2.2, e.op = .delete ∧ ∃ v ∈ done ++ node :: tl, victim v = true ∧
        (e.node = v ∨ (isNpContD X.base v = true ∧ e.node ∈ v.kids))) ∧
    (explicitThere = false → X.base.isKind node.sid .leaflist = true → autodelStep X cx done node tl = (done, false, tl, [])) :=
  ⟨fun h => autodelStep_found X cx done tl node h, fun h hll => autodelStep_leaflist_keep X cx done tl node h hll⟩

/-! ## idempotence -/

/-- **`validate_idempotent`** — for every schema without `choice` / `case` (defaults, leaf-list defaults, non-presence and presence
containers, lists in any nesting), every option set and EVERY tree that follows the schema, whatever flags `LYD_NEW` /
`LYD_DEFAULT` its nodes carry (so: after any history of edits and validations): validating the result of a validation returns the
same tree and an empty change set.  Hypotheses about the schema (`KidsLookupOk`: schema ids are unique; `NoChoiceX`, `NoCase`;
the fuel of the walk covers the schema height) are decidable and hold for every parsed schema of the class; the theorem is
stated for the model's continue-after-error semantics, so it does not even need the first validation to succeed.  (Schemas with
`choice` / `case`: `validate_idempotent_choice` below.) -/
theorem validate_idempotent (X : SchemaX) (o : VOpts) (t : List DNode)
    (hl : KidsLookupOk X) (hnc : NoChoiceX X) (hc : NoCase X.base)
    (hp : placedL X X.top t = true) (hh : sheightL X.top ≤ walkFuel X t) :
    (validate X o (validate X o t).tree).tree = (validate X o t).tree ∧
    (validate X o (validate X o t).tree).evs = [] := by
  by_cases hpe : (o.present && t.isEmpty) = true
  · have : (validate X o t).tree = [] := by
      unfold validate; simp only [hpe, if_true]
    rw [this]
    have hpe' : (o.present && ([] : List DNode).isEmpty) = true := by
      simp only [Bool.and_eq_true] at hpe ⊢; exact ⟨hpe.1, rfl⟩
    unfold validate
    simp only [hpe', if_true]
    exact ⟨trivial, rfl⟩
  · exact validate_of_stable X o hc hnc _ (validate_stable X o hl hnc t hp hh (by simpa using hpe))

/-- the example schema: `container c { leaf d { default "x"; } leaf-list ll { default "a"; default "b"; } container n { leaf e { default
"y"; } } list l { key k; leaf k; leaf v { default "z"; } } }` -/
def Sx : Schema := { modName := "ex7", nodes := [
  { depth := 0, kind := .container, name := "c" },
  { depth := 1, kind := .leaf, name := "d", dflts := [[120]] },
  { depth := 1, kind := .leaflist, name := "ll", dflts := [[97], [98]] },
  { depth := 1, kind := .container, name := "n" },
  { depth := 2, kind := .leaf, name := "e", dflts := [[121]] },
  { depth := 1, kind := .list, name := "l", nkeys := 1 },
  { depth := 2, kind := .leaf, name := "k", iskey := true },
  { depth := 2, kind := .leaf, name := "v", dflts := [[122]] }] }
def Xx : SchemaX := SchemaX.ofSchema Sx
/-- a history state: an old default `d`, a new explicit `d` next to it (to be auto-deleted), a new list entry -/
def tx : List DNode := [.inner 0 {} [] [.term 1 { dflt := true } [] [120], .term 1 { new := true } [] [119],
  .inner 5 { new := true } [] [.term 6 { new := true } [] [49]]]]

/-- non-vacuity: the hypotheses hold for the example, the first validation deletes the superseded default and creates six implicit
nodes (`ll` twice, `n`, `n/e`, `l/v`; 1 delete + 5 creates), the second one does nothing -/
example : KidsLookupOk Xx ∧ NoChoiceX Xx ∧ NoCase Xx.base ∧ placedL Xx Xx.top tx = true ∧ sheightL Xx.top ≤ walkFuel Xx tx ∧
    (validate Xx {} tx).evs.length = 6 ∧ (validate Xx {} (validate Xx {} tx).tree).evs = [] := by
  refine ⟨lookupOk_of_B Xx (by decide), noChoiceX_of_B Xx (by decide), by unfold NoCase; decide, by decide, by decide, by decide, by decide⟩

/-- non-vacuity: the old default `d` of the example tree `tx` is the one node that goes, through one delete event -/
example :
    let r := autodelStep Xx {} [.term 1 { dflt := true } [] [120]] (.term 1 { new := true } [] [119]) []
    (r.1.length, r.2.1, r.2.2.2.map (·.node.val)) = (0, false, [[120]]) := by decide

/-! ## idempotence with `choice` / `case` -/

/-- **`validate_idempotent` for schemas WITH `choice` / `case`** (any nesting, default cases, together with defaults, leaf-list
defaults, containers and lists), in the repaired variants of F180 (`lyd_new_implicit` completes the case of THIS choice) and
F188 (`lyd_validate_autodel_case_dflt` looks at every enclosing case), for every option set: validating the result of a
validation returns the same tree and an empty change set — for EVERY tree that follows the schema, whatever flags `LYD_NEW` /
`LYD_DEFAULT` its nodes carry, when **no non-presence container is a data member of a case** (`NoNpContInCase`); and for every
schema of the class when the tree satisfies the non-presence container invariant (`npInvL`, kept by the edits of a history and
by validation: `np_cont_dflt`, `np_cont_dflt_validate`) and **no new node is default-flagged** (`newExplL`: no empty non-presence
container was just created with `lyd_new_inner`).  Without either the statement is false, also in the C code
(`validate_idempotent_choice_fails`, finding F189).
Hypotheses about the schema, all decidable (`lookupOk_of_B`, `caseWf_of_B`, `noNpContInCase_of_B`) and true of every parsed
schema of the class: schema ids are unique (`KidsLookupOk`); on every data level the children of choices are cases, the data
nodes have different ids and the cases around a node in the flat table are the ones on its path in the schema tree (`CaseWf`).
Stated for the model's continue-after-error semantics, so the first validation need not succeed (two cases with data: `DupCase`
is logged, both stay).  The proof: a validated tree is *stable* (`StableTop`: nothing new; `lyd_new_implicit` has nothing to do on
any level, `implDoneX`; no default node is the leftover of a dead case, `NV`; non-presence container flags final), and every phase
is the identity on a stable tree.  The two alternatives are what makes `NV` survive `lyd_validate_final_r`: either the containers
whose flag it sets are in no case, or — the tree before it still satisfies the invariant (`prefinal_good`: an explicit
container keeps an explicit child through `lyd_validate_cases`, because a new node is never removed there) — it sets none. -/
theorem validate_idempotent_choice (X : SchemaX) (o : VOpts) (t : List DNode)
    (hq1 : X.q.implicitInnerCase = false) (hq2 : X.q.autodelDirectCase = false) (hq3 : X.q.casesCountDefault = true)
    (hl : KidsLookupOk X) (hw : CaseWf X) (hnp : NoNpContInCase X ∨ (npInvL X.base t ∧ newExplL t))
    (hp : placedCL X X.top t = true) (hh : sheightL X.top ≤ walkFuel X t) :
    (validate X o (validate X o t).tree).tree = (validate X o t).tree ∧
    (validate X o (validate X o t).tree).evs = [] :=
  validate_idempotent2 X o hq1 hq2 hq3 hl hw t hnp hp hh

/-- the example schema with choices: `choice o { case a { leaf x; choice i { default d; case d { leaf u { default "9"; } } case e { leaf v; } }
leaf da { default "9"; } } case b { leaf w; } } container n { choice p { default q; case q { leaf r { default "9"; } } case s { leaf t; } } }` -/
def Sc : Schema := { modName := "ex7c", nodes := [
  { depth := 0, kind := .choice, name := "o" },
  { depth := 1, kind := .case, name := "a" },
  { depth := 2, kind := .leaf, name := "x" },
  { depth := 2, kind := .choice, name := "i", dfltCase := some "d" },
  { depth := 3, kind := .case, name := "d" },
  { depth := 4, kind := .leaf, name := "u", dflts := [[57]] },
  { depth := 3, kind := .case, name := "e" },
  { depth := 4, kind := .leaf, name := "v" },
  { depth := 2, kind := .leaf, name := "da", dflts := [[57]] },
  { depth := 1, kind := .case, name := "b" },
  { depth := 2, kind := .leaf, name := "w" },
  { depth := 0, kind := .container, name := "n" },
  { depth := 1, kind := .choice, name := "p", dfltCase := some "q" },
  { depth := 2, kind := .case, name := "q" },
  { depth := 3, kind := .leaf, name := "r", dflts := [[57]] },
  { depth := 2, kind := .case, name := "s" },
  { depth := 3, kind := .leaf, name := "t" }] }
def Xc : SchemaX := { SchemaX.ofSchema Sc with q := { Quirks.fixed with casesCountDefault := true } }
/-- a history state: a new `x` of case `a` next to the old `w` of case `b`; in `n` the old default `r` of the default case `q` next to
a new `t` of case `s` -/
def tc : List DNode := [.term 2 { new := true } [] [49], .term 10 {} [] [50],
  .inner 11 {} [] [.term 14 { dflt := true } [] [57], .term 16 { new := true } [] [51]]]

/-- non-vacuity: the hypotheses hold for the example; the first validation removes the old case (`w`), creates the defaults of case
`a` (`u` of the nested default case, `da`) and removes the leftover default `r` — 4 changes —, the second one does nothing -/
example : Xc.q.implicitInnerCase = false ∧ Xc.q.autodelDirectCase = false ∧ Xc.q.casesCountDefault = true ∧ KidsLookupOk Xc ∧ CaseWf Xc ∧
    (NoNpContInCase Xc ∨ (npInvL Xc.base tc ∧ newExplL tc)) ∧ placedCL Xc Xc.top tc = true ∧ sheightL Xc.top ≤ walkFuel Xc tc ∧
    (validate Xc {} tc).evs.map (·.node.sid) = [10, 5, 8, 14] ∧ (validate Xc {} (validate Xc {} tc).tree).evs.length = 0 := by
  refine ⟨rfl, rfl, rfl, lookupOk_of_B Xc (by decide), caseWf_of_B Xc (by decide), Or.inl (noNpContInCase_of_B Xc (by decide)), by decide, by decide,
    by decide, by decide⟩

/-- **the normal form of validation** (same class and hypotheses as `validate_idempotent_choice`; not the `LYD_VALIDATE_PRESENT`
call on an empty tree, which returns at once): a tree is left as it is by `lyd_validate`, with an empty change set, **iff** it is
*stable* — and the result of every validation is.  Spelled out (`StableTop_spec`, `StableN_spec`), on the top level and on the
children of every inner node: every schema node *in use* has an instance (`wantL`: default-bearing nodes in the selected cases,
see `implicit_exact_choice`); no default-flagged node is the leftover of a case that does not exist and is not the default case
(`NV`); no node carries `LYD_NEW`; and every explicit non-presence container has an explicit child. -/
theorem validate_normal_form (X : SchemaX) (o : VOpts) (t : List DNode)
    (hq1 : X.q.implicitInnerCase = false) (hq2 : X.q.autodelDirectCase = false) (hq3 : X.q.casesCountDefault = true)
    (hl : KidsLookupOk X) (hw : CaseWf X) (hnp : NoNpContInCase X ∨ (npInvL X.base t ∧ newExplL t))
    (hp : placedCL X X.top t = true) (hh : sheightL X.top ≤ walkFuel X t) (hpe : (o.present && t.isEmpty) = false) :
    StableTop X o (validate X o t).tree ∧
    (((validate X o t).tree = t ∧ (validate X o t).evs = []) ↔ StableTop X o t) ∧
    (StableTop X o t ↔ (∀ sid, wantL o (hasInst t) X.top sid = true → hasInst t sid = true) ∧ NV X t ∧
      (∀ n ∈ t, n.flags.new = false ∧ StableN X o true n)) :=
  ⟨validate_stable2 X o hq1 hq2 hl hw t hnp hp hh hpe, validate_fixpoint_iff2 X o hq1 hq2 hq3 hl hw t hnp hp hh hpe, StableTop_spec X o t⟩

/-- non-vacuity (schema `Sc`, tree `tc`): the input is not stable (its `x` is new), so the validation changes it -/
example : (({} : VOpts).present && tc.isEmpty) = false ∧ ¬ StableTop Xc {} tc ∧ (validate Xc {} tc).evs.length = 4 := by
  refine ⟨rfl, ?_, by decide⟩
  intro h
  have := ((StableTop_spec Xc {} tc).1 h).2.2 (.term 2 { new := true } [] [49]) (by simp [tc])
  exact absurd this.1 (by decide)

/-- schema of the witness F189: `choice ch1 { case a1 { container c { choice ch2 { case a2 { leaf y; } case b2 { container c2 { } } } } }
case b1 { leaf w; } }` — the non-presence container `c` is a member of the non-default case `a1` -/
def S189 : Schema := { modName := "m", nodes := [
  { depth := 0, kind := .choice, name := "ch1" },
  { depth := 1, kind := .case, name := "a1" },
  { depth := 2, kind := .container, name := "c" },
  { depth := 3, kind := .choice, name := "ch2" },
  { depth := 4, kind := .case, name := "a2" },
  { depth := 5, kind := .leaf, name := "y" },
  { depth := 4, kind := .case, name := "b2" },
  { depth := 5, kind := .container, name := "c2" },
  { depth := 1, kind := .case, name := "b1" },
  { depth := 2, kind := .leaf, name := "w" }] }
/-- the variant of the code in which `lyd_validate_cases` takes default-flagged nodes for data of a case (F321 unrepaired): with
fixes/F321.diff the empty `c2` no longer removes the old case and the witness disappears -/
def X189 : SchemaX := { SchemaX.ofSchema S189 with q := { Quirks.fixed with casesCountDefault := true } }
/-- `c` with its old explicit `y`, and the empty `c2` just created with `lyd_new_inner` (new, default) -/
def t189 : List DNode := [.inner 2 {} [] [.term 5 {} [] [118], .inner 7 { new := true, dflt := true } [] []]]

/-- **full strength, false (finding F189, a genuine defect of the C code; replay: `corpus/valid/F189_np_container_in_case.c`)**:
without `NoNpContInCase` and without `newExplL` (the invariant `npInvL` alone does not help) a validation need not leave a fixpoint,
in the repaired variants of F180 / F188 too (the witness needs `casesCountDefault`, the unrepaired F321, of which it is an instance).  `lyd_validate_new` passes `c`
(explicit) on the top level; then, inside `c`, the new default container `c2` of case `b2` makes `lyd_validate_cases` remove the old
case (`y`), `c2` itself goes as leftover of a case without explicit data, and `c` — now empty — is flagged default
(`lyd_np_cont_dflt_set`): the result keeps an empty default container of the non-default, non-selected case `a1`, which the SECOND
validation deletes as leftover case default (the tree changes, the change set is empty). -/
theorem validate_idempotent_choice_fails :
    ¬ ∀ (X : SchemaX) (o : VOpts) (t : List DNode), X.q.implicitInnerCase = false → X.q.autodelDirectCase = false →
      KidsLookupOk X → CaseWf X → npInvL X.base t → placedCL X X.top t = true → sheightL X.top ≤ walkFuel X t →
      (validate X o (validate X o t).tree).tree = (validate X o t).tree ∧ (validate X o (validate X o t).tree).evs = [] := by
  intro h
  have hinv : npInvL X189.base t189 := by
    simp only [t189, npInvL, npInvN, allD, and_true, true_and, List.all_cons, List.all_nil, DNode.flags]
    exact ⟨fun _ => by decide, fun _ => by decide⟩
  have := (h X189 {} t189 rfl rfl (lookupOk_of_B X189 (by decide)) (caseWf_of_B X189 (by decide)) hinv (by decide) (by decide)).1
  have := congrArg List.length this
  revert this
  decide

/-- non-vacuity of the second alternative (schema `S189`, where the non-presence container `c` IS a member of case `a1`): `c` with its
explicit `y`, and a new explicit `w` of the other case `b1` — invariant and `newExplL` hold, the first validation removes `c`
(recorded as the deletion of the node itself), the second one does nothing -/
example :
    let t : List DNode := [.inner 2 {} [] [.term 5 {} [] [118]], .term 9 { new := true } [] [119]]
    ¬ NoNpContInCase X189 ∧ npInvL X189.base t ∧ newExplL t ∧ placedCL X189 X189.top t = true ∧ sheightL X189.top ≤ walkFuel X189 t ∧
    (validate X189 {} t).evs.map (·.node.sid) = [2] ∧ (validate X189 {} (validate X189 {} t).tree).evs.length = 0 := by
  refine ⟨?_, ?_, by simp [newExplL, newExplN], by decide, by decide, by decide, by decide⟩
  · intro h
    exact absurd (h.1 2 (by decide)) (by decide)
  · simp only [npInvL, npInvN, allD, and_true, List.all_cons, List.all_nil, DNode.flags]
    exact fun _ => by decide

/-- schema of the witness F188: `choice o { case a { choice i { default d; case d { leaf u { default "9"; } } } leaf da { default "9"; } } }` -/
def S188 : Schema := { modName := "m", nodes := [
  { depth := 0, kind := .choice, name := "o" },
  { depth := 1, kind := .case, name := "a" },
  { depth := 2, kind := .choice, name := "i", dfltCase := some "d" },
  { depth := 3, kind := .case, name := "d" },
  { depth := 4, kind := .leaf, name := "u", dflts := [[57]] },
  { depth := 2, kind := .leaf, name := "da", dflts := [[57]] }] }
/-- the variant with the defect F188 (auto-deletion looks at the direct case only), F180 repaired -/
def X188 : SchemaX := { SchemaX.ofSchema S188 with q := { Quirks.fixed with autodelDirectCase := true } }
/-- the leftover default `u` of the default case `d` (the explicit data of the outer case `a` were deleted) -/
def t188 : List DNode := [.term 4 { dflt := true } [] [57]]

/-- **the defective variant F188 is not idempotent**: `u` survives the first validation (its direct case `d` is the default case of
`i`), counts as data of the outer case `a`, whose default `da` is created; the second validation deletes `da` as leftover of the
dead case `a` and `lyd_new_implicit` creates it again — a non-empty change set.  (The defective variant F180 alone does not break
idempotence — exhaustive runs of the model over small schemas find no counterexample —, it breaks `implicit_exact`.) -/
theorem validate_idempotent_choice_F188_fails :
    ¬ ∀ (X : SchemaX) (o : VOpts) (t : List DNode), X.q.implicitInnerCase = false →
      KidsLookupOk X → CaseWf X → NoNpContInCase X → npInvL X.base t → newExplL t → placedCL X X.top t = true →
      sheightL X.top ≤ walkFuel X t →
      (validate X o (validate X o t).tree).tree = (validate X o t).tree ∧ (validate X o (validate X o t).tree).evs = [] := by
  intro h
  have := (h X188 {} t188 rfl (lookupOk_of_B X188 (by decide)) (caseWf_of_B X188 (by decide)) (noNpContInCase_of_B X188 (by decide))
    (by simp [t188, npInvL, npInvN]) (by simp [t188, newExplL, newExplN])
    (by decide) (by decide)).2
  have := congrArg List.length this
  revert this
  decide

/-! ## auto-deletion of the leftover defaults of a case -/

/-- **auto-deletion of leftover case defaults** (`lyd_validate_autodel_case_dflt` inside the node loop of `lyd_validate_new`, every
schema and both variants): the loop leaves the explicit siblings as they are (same schema ids, same order — every deletion of the
loop, superseded defaults included, hits default-flagged nodes only); every node it hands back was there (at most it lost
`LYD_NEW`) and is not new any more; and **no default-flagged node that survives is the leftover of a dead case**
(`caseDfltVictim`, judged on the result) — so every leftover is removed, whatever was deleted around it on the way. -/
theorem autodel_case_exact (X : SchemaX) (o : VOpts) (cx : Cx) (sibs : List DNode) :
    let R := (newLoop X o cx (sibs.length + 1) [] sibs none).1
    (R.filter (fun x => !x.flags.dflt)).map (·.sid) = (sibs.filter (fun x => !x.flags.dflt)).map (·.sid) ∧
    (∀ x ∈ R, ∃ y ∈ sibs, x = normNew y) ∧ (∀ x ∈ R, x.flags.new = false) ∧
    (∀ x ∈ R, x.flags.dflt = true → caseDfltVictim X R x = false) := by
  obtain ⟨h1, h2⟩ := newLoop_first X o cx (sibs.length + 1) sibs [] none (by omega)
  have h3 := newLoop_out X o cx (sibs.length + 1) sibs [] none (by omega)
  simp only [List.nil_append] at h1 h2
  refine ⟨h1, ?_, ?_, ?_⟩
  · intro x hx
    rcases h3 x hx with h | h
    · cases h
    · exact h
  · intro x hx
    rcases h2 x hx with h | h
    · cases h
    · exact h.1
  · intro x hx hd
    rcases h2 x hx with h | h
    · cases h
    · rw [victim_congr X _ _ x h1]; exact h.2 hd

/-- non-vacuity (schema `Sc`): the defaults `u` (nested default case `d`) and `da` of case `a` go when nothing explicit of `a` is left,
and stay next to an explicit `x` -/
example :
    ((newLoop Xc {} {} 3 [] [.term 5 { dflt := true } [] [57], .term 8 { dflt := true } [] [57]] none).1.map (·.sid),
     (newLoop Xc {} {} 4 [] [.term 2 {} [] [49], .term 5 { dflt := true } [] [57], .term 8 { dflt := true } [] [57]] none).1.map (·.sid))
      = ([], [2, 5, 8]) := by decide

/-! ## `lyd_is_default` against RFC 6243 / RFC 7950 §7.7.2 -/

/-- RFC view: a leaf instance is default data iff its value is the schema default; a leaf-list is at its default iff the list of
its instances is the list of its default values (RFC 7950 §7.7.2: the defaults are used as a whole when no instance exists) -/
def rfcDefault (S : Schema) (sibs : List DNode) (n : DNode) : Bool :=
  n.isTerm &&
  match S.get? n.sid with
  | some sn =>
    if sn.kind == .leaf then sn.dflts.head? == some n.val
    else if sn.kind == .leaflist then !sn.dflts.isEmpty && (instsOf sibs n.sid).map (·.val) == sn.dflts
    else false
  | none => false

/-- schema of the witness: `leaf-list ll { type string; default "a"; default "b"; }` -/
def S17 : Schema := { modName := "f17", nodes := [{ depth := 0, kind := .leaflist, name := "ll", dflts := [[97], [98]] }] }

/-- **full strength, false (finding F17)**: `lyd_is_default` calls a leaf-list instance default as soon as it equals ANY ONE of the
defaults, also when the instances as a whole are not the default list — here the single explicit instance `a` of a leaf-list whose
defaults are `a b` (trim mode drops it; parsing the result back yields `a b`). -/
theorem is_default_iff_rfc6243_fails :
    ¬ ∀ (S : Schema) (sibs : List DNode) (n : DNode), n ∈ sibs → (isDefault S n = true ↔ rfcDefault S sibs n = true) := by
  intro h
  have := h S17 [.term 0 {} [] [97]] (.term 0 {} [] [97]) (by simp)
  revert this
  decide

/-- **the true part**: for leaves the two coincide; for leaf-lists `lyd_is_default` holds on every instance whenever the instances
are the default list (for every schema, sibling list and node) -/
theorem is_default_iff_rfc6243_partial (S : Schema) (sibs : List DNode) (n : DNode) (hn : n ∈ sibs) :
    (S.isKind n.sid .leaf = true → (isDefault S n = true ↔ rfcDefault S sibs n = true)) ∧
    (rfcDefault S sibs n = true → isDefault S n = true) := by
  unfold isDefault rfcDefault Schema.isKind Schema.kind?
  cases hg : S.get? n.sid with
  | none => simp
  | some sn =>
    simp only [Option.map_some, Bool.and_eq_true]
    constructor
    · intro hk
      have : (sn.kind == SKind.leaf) = true := by simpa using hk
      simp [this]
    · rintro ⟨ht, h⟩
      refine ⟨ht, ?_⟩
      by_cases hl : (sn.kind == SKind.leaf) = true
      · simpa [hl] using h
      · simp only [hl, Bool.false_eq_true, if_false] at h ⊢
        by_cases hll : (sn.kind == SKind.leaflist) = true
        · simp only [hll, if_true, Bool.and_eq_true, Bool.not_eq_eq_eq_not, Bool.not_true, beq_iff_eq] at h ⊢
          rw [← h.2]
          apply List.elem_eq_true_of_mem
          exact List.mem_map.2 ⟨n, List.mem_filter.2 ⟨hn, by simp⟩, rfl⟩
        · simp [hll] at h

/-- non-vacuity: a leaf with default `x` -/
example : isDefault { modName := "m", nodes := [{ depth := 0, kind := .leaf, name := "f", dflts := [[120]] }] } (.term 0 {} [] [120]) = true := by
  decide

/-! ## with-defaults modes: `lyd_node_should_print` selects the RFC 6243 node sets -/

/-- the basic modes of RFC 6243 §3 and the tagged variant of §3.4; libyang's fifth mode tags only implicit nodes -/
inductive WdMode where
  | explicit | trim | reportAll | reportAllTagged | implicitTagged
  deriving Repr, DecidableEq

/-- the `LYD_PRINT_WD_*` value of a mode (from `LyModel.Generated.Consts`) -/
def WdMode.bits : WdMode → Nat
  | .explicit => LYD_PRINT_WD_EXPLICIT | .trim => LYD_PRINT_WD_TRIM | .reportAll => LYD_PRINT_WD_ALL
  | .reportAllTagged => LYD_PRINT_WD_ALL_TAG | .implicitTagged => LYD_PRINT_WD_IMPL_TAG

/-- RFC 6243: is a terminal node reported?
* report-all (§3.1), also tagged: every node;
* trim (§3.2): not the nodes that contain the schema default value (set by the client or not);
* explicit (§3.3): not the nodes the server set to the default (flagged default), except non-configuration nodes, which are reported. -/
def rfcReported (S : Schema) (m : WdMode) (n : DNode) : Bool :=
  match m with
  | .trim => !(n.flags.dflt || isDefault S n)
  | .explicit => !n.flags.dflt || !S.config n.sid
  | _ => true

/-- RFC 6243 §3.4 / libyang's implicit-tagged mode: does the node carry `default="true"`? -/
def rfcTagged (S : Schema) (m : WdMode) (n : DNode) : Bool :=
  match m with
  | .reportAllTagged => n.flags.dflt || isDefault S n
  | .implicitTagged => n.flags.dflt
  | _ => false

/-- **`wd_modes` (terminal nodes)**: under every mode, with or without `LYD_PRINT_KEEPEMPTYCONT`, `lyd_node_should_print` reports
exactly the RFC 6243 set and the printers tag exactly the RFC 6243 nodes.  (What "contains the schema default value" means for a
leaf-list instance is `lyd_is_default`, see `is_default_iff_rfc6243_fails`.) -/
theorem wd_modes_term (S : Schema) (m : WdMode) (keepEmpty : Bool) (s : Nat) (f : Flags) (ms : List Meta) (v : Bytes) :
    let p := POpts.ofNat (m.bits + if keepEmpty then LYD_PRINT_KEEPEMPTYCONT else 0)
    shouldPrint S p (.term s f ms v) = rfcReported S m (.term s f ms v) ∧
    tagged S p (.term s f ms v) = rfcTagged S m (.term s f ms v) := by
  cases m <;> cases keepEmpty <;>
    simp [shouldPrint, tagged, rfcReported, rfcTagged, POpts.ofNat, WdMode.bits, hasBit, DNode.isTerm, DNode.flags, DNode.sid,
      LYD_PRINT_WD_EXPLICIT, LYD_PRINT_WD_TRIM, LYD_PRINT_WD_ALL, LYD_PRINT_WD_ALL_TAG, LYD_PRINT_WD_IMPL_TAG,
      LYD_PRINT_KEEPEMPTYCONT, Generated.LYD_PRINT_WD_MASK] <;>
    cases f.dflt <;> simp

/-- **`wd_modes` (inner nodes)**: list entries and presence containers are always reported; a non-presence container is reported
iff something below it is, or `LYD_PRINT_KEEPEMPTYCONT` asks for empty containers — in trim mode judged by its children, in the
other modes (where only a default-flagged container can be dropped) by all its descendants. -/
theorem wd_modes_inner (S : Schema) (m : WdMode) (keepEmpty : Bool) (s : Nat) (f : Flags) (ms : List Meta) (ks : List DNode) :
    let p := POpts.ofNat (m.bits + if keepEmpty then LYD_PRINT_KEEPEMPTYCONT else 0)
    shouldPrint S p (.inner s f ms ks) =
      if m = .trim then
        !f.dflt && (!S.isNpCont s || keepEmpty || anyPrint S p ks)
      else !(f.dflt && S.isKind s .container) || keepEmpty || anyDescPrint S p ks := by
  cases m <;> cases keepEmpty <;>
    simp [shouldPrint, POpts.ofNat, WdMode.bits, hasBit,
      LYD_PRINT_WD_EXPLICIT, LYD_PRINT_WD_TRIM, LYD_PRINT_WD_ALL, LYD_PRINT_WD_ALL_TAG, LYD_PRINT_WD_IMPL_TAG,
      LYD_PRINT_KEEPEMPTYCONT, Generated.LYD_PRINT_WD_MASK] <;>
    cases f.dflt <;> cases S.isNpCont s <;> cases S.isKind s .container <;> simp

/-- non-vacuity: an explicit leaf set to its default value is dropped by trim, kept by explicit, tagged by report-all-tagged -/
example :
    let S : Schema := { modName := "m", nodes := [{ depth := 0, kind := .leaf, name := "f", dflts := [[120]] }] }
    let n : DNode := .term 0 {} [] [120]
    (shouldPrint S (POpts.ofNat WdMode.trim.bits) n, shouldPrint S (POpts.ofNat WdMode.explicit.bits) n,
      tagged S (POpts.ofNat WdMode.reportAllTagged.bits) n) = (false, true, true) := by decide

/-! ## the default flag of non-presence containers -/

/-- **`np_cont_dflt`**: the invariant "every non-presence container carries `LYD_DEFAULT` iff all its children do" (`npInvL`; an
empty one is default) holds for every tree the builders make (`freshL`: `lyd_new_*`), and the edits of a history keep it, for
every schema, address and subtree: creating nodes below an existing node (`applyCreate`: insertion plus the
`while (parent && (parent->flags & LYD_DEFAULT))` loop of `lyd_np_cont_dflt_del`) and removing a node (`applyDelete`: unlink plus
the loop of `lyd_np_cont_dflt_set`, which stops at the first parent it does not change).  The early exits of both loops are
sound only because of the invariant itself: that is the content of the proof. -/
theorem np_cont_dflt (S : Schema) :
    (∀ t, npInvL S (freshL S t)) ∧
    (∀ under sub t t', npInvL S t → applyCreate S under sub t = some t' → npInvL S t') ∧
    (∀ addr t t', npInvL S t → applyDelete S addr t = some t' → npInvL S t') :=
  ⟨npInvL_fresh S, fun under sub t t' => np_cont_dflt_create S under sub t t',
    fun addr t t' => np_cont_dflt_delete S addr t t'⟩

/-- non-vacuity (schema `Sx`: `c` and `c/n` are non-presence containers): an explicit leaf created in the default `c/n` clears
the flag of `n` and of `c`; removing it again sets both -/
example :
    let t0 : List DNode := [.inner 0 { dflt := true } [] [.inner 3 { dflt := true } [] []]]
    let t1 : List DNode := [.inner 0 {} [] [.inner 3 {} [] [.term 4 { new := true } [] [121]]]]
    ((applyCreate Sx [.plain 0, .plain 3] [.term 4 {} [] [121]] t0).map (beqL t1) = some true) ∧
    ((applyDelete Sx [.plain 0, .plain 3, .plain 4] t1).map (beqL t0) = some true) := by decide

/-- **`np_cont_dflt` for the validation step itself**: for every schema (choices, cases, lists, … — no hypothesis), every variant of
the code and every option set, `lyd_validate` hands back a tree that satisfies the invariant `npInvL` — every non-presence
container carries `LYD_DEFAULT` iff all its children do — as soon as in the input every default-flagged non-presence container
has default children only (`halfInvL`, one half of the invariant; a container wrongly left explicit is repaired by
`lyd_np_cont_dflt_set` in `lyd_validate_final_r`).  In particular validation keeps the invariant.  The proof: `lyd_validate_new`
hands back nodes that were there, `lyd_new_implicit` adds default nodes without children (`implL_onlyAdds`, all variants), the
subtree walk keeps the flags of every node it passes, so a default container still has default children only when
`lyd_validate_final_r` comes back to it, and an explicit one gets the flag there exactly when all its (finalised) children have it. -/
theorem np_cont_dflt_validate (X : SchemaX) (o : VOpts) (t : List DNode) :
    (halfInvL X.base t → npInvL X.base (validate X o t).tree) ∧ (npInvL X.base t → npInvL X.base (validate X o t).tree) :=
  ⟨validate_npInv X o t, fun h => validate_npInv X o t (halfInvL_of_npInvL X.base t h)⟩

/-- non-vacuity (schema `Sx`): `c` left explicit although its only child is a default `d` — the half invariant holds, the full one
does not; the validation adds the other defaults below `c` and flags `c` default -/
example :
    let t0 : List DNode := [.inner 0 {} [] [.term 1 { dflt := true } [] [120]]]
    halfInvL Sx t0 ∧ ¬ npInvL Sx t0 ∧ (validate Xx {} t0).tree.map (fun n => (n.flags.dflt, n.kids.length)) = [(true, 4)] := by
  refine ⟨by simp [halfInvL, halfInvN], ?_, by decide⟩
  intro h
  simp only [npInvL, npInvN] at h
  exact absurd (h.1.1 (by decide)) (by decide)

/-- the trees a history reaches: built with `lyd_new_*` (`freshL`), then any sequence of creations below an existing node, removals
and validations (the steps of `runHist`, LyModel/Valid/Hist.lean) -/
inductive Reachable (X : SchemaX) (o : VOpts) : List DNode → Prop where
  | fresh (t : List DNode) : Reachable X o (freshL X.base t)
  | create {t t' : List DNode} (under : Addr) (sub : List DNode) : Reachable X o t → applyCreate X.base under sub t = some t' → Reachable X o t'
  | delete {t t' : List DNode} (addr : Addr) : Reachable X o t → applyDelete X.base addr t = some t' → Reachable X o t'
  | validate {t : List DNode} : Reachable X o t → Reachable X o (validate X o t).tree

/-- **`np_cont_dflt` along every history** (what the law `dflt-flag` of tools/checks/c07.py observes after every step): in every tree
a history of edits and validations reaches — every schema, every variant, every option set — every non-presence container carries
`LYD_DEFAULT` iff all its children do. -/
theorem np_cont_dflt_reachable (X : SchemaX) (o : VOpts) (t : List DNode) (h : Reachable X o t) : npInvL X.base t := by
  induction h with
  | fresh t => exact npInvL_fresh X.base t
  | create under sub _ hc ih => exact np_cont_dflt_create X.base under sub _ _ ih hc
  | delete addr _ hd ih => exact np_cont_dflt_delete X.base addr _ _ ih hd
  | validate _ ih => exact validate_npInv X o _ (halfInvL_of_npInvL X.base _ ih)

/-- non-vacuity (schema `Sx`): build the empty `c` (new and default), validate — a reachable tree; `c` stays default, with its four
default children -/
example : Reachable Xx {} (validate Xx {} (freshL Sx [.inner 0 {} [] []])).tree ∧
    (validate Xx {} (freshL Sx [.inner 0 {} [] []])).tree.map (fun n => (n.flags.dflt, n.kids.length)) = [(true, 4)] :=
  ⟨Reachable.validate (Reachable.fresh _), by decide⟩

/-! ## not proved

-- (`validate_idempotent` for schemas with `choice` / `case`: proved for the repaired variants, for every tree under `NoNpContInCase`
-- and for every schema on trees with `npInvL` and `newExplL` (`validate_idempotent_choice`); false without (F189,
-- `validate_idempotent_choice_fails`) and for the defective variant F188 (`validate_idempotent_choice_F188_fails`).)
-- OPEN: `valdiff_exact` (applying the returned diff to the input gives the output; the diff is empty iff nothing changed).
-- The model composes `Valid.ValDiff.valDiff` with the `diff` component's `apply`; laws `valdiff-apply` / `valdiff-eq`
-- evaluate it on the implementation; findings F177, F178, F179 are its counterexamples in the code.
-- (`implicit_exact` through choices: proved level-wise for the repaired variant, `implicit_exact_choice`; false for the
-- defective variant F180, `implicit_exact_choice_F180_fails`.)
-- OPEN: `implicit_exact` for the WHOLE tree against `rfcComplete` (SpecDefaults.lean: recursion into containers and list entries,
-- sibling order of the created nodes); law `implicit` of tools/checks/c07.py.
-- (`autodel_exact` through choices: the step `autodel_exact`, and for a whole node loop `autodel_case_exact` — explicit siblings
-- kept, no leftover of a dead case survives.)
-- OPEN: which default nodes a whole `lyd_validate_new` call removes, as an equation (superseded defaults and case leftovers
-- interleave through `last_dflt_schema`).
-/

end LyModel.Props.C07
