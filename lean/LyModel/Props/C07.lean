import LyModel.Valid.Hist
import LyModel.Valid.SpecDefaults
/-! C07 — property theorems (under construction) -/
namespace LyModel.Props.C07
open LyModel LyModel.Tree LyModel.Valid

theorem placeholder : True := trivial

end LyModel.Props.C07
