import LyModel.Val.LemmasGeneric
import LyModel.Val.LemmasUtf8
import LyModel.Val.LemmasBase0
/-!
# C03 — typed values: acceptance, canonical form, equality and ordering follow RFC 7950

Property theorems about the executable model `LyModel.Val` (file `Val/Model.lean`, tied to the C code by the
correspondence check `tools/checks/c03.py`).  Specifications (`IntLexWs`, `DecLexWs`, `IsCanonInt`, `IsCanonDec`,
`InParts`, `PartsWF`) are in `Val/Spec.lean` and are written from RFC 7950 §9.2 / §9.3, not from the code; the lexical
space of integers read with base 0 (`IntLexWs0`: schema defaults, `LYD_HINT_SCHEMA`) is in `Val/SpecBase0.lean` and is
written from the ISO C grammar of integer constants (`strtoll(…, 0)`).
Every statement is for all inputs; bounds and the hint table are the *generated* ones (`Generated/ValBounds.lean`).

"The same verdict from every source" is `same_verdict_all_sources_all_types` (all six modelled store callbacks;
`same_verdict_all_sources` is its special case for integers and decimal64).  Integer acceptance is characterised for
both bases a libyang source selects: `int_accept_iff` (base 10) and `int_accept_iff_base0` (base 0).
-/
namespace LyModel.Props.C03
open LyModel LyModel.Val

/-! ## generated facts the other theorems rest on -/

/-- The bounds `integer.c` hands to the lexical parsers are the RFC 7950 §9.2 value spaces, and the LYB size is the width. -/
theorem bounds_are_rfc (t : IntTy) :
    t.min = (if t.signed then -(2 ^ (t.bits - 1) : Int) else 0) ∧
    t.max = (if t.signed then 2 ^ (t.bits - 1) - 1 else 2 ^ t.bits - 1 : Int) ∧ 8 * t.lybSize = t.bits :=
  ⟨(IntTy.min_max_values t).1, (IntTy.min_max_values t).2, IntTy.lybSize_bits t⟩

example : IntTy.min .int64 = -9223372036854775808 ∧ IntTy.max .uint64 = 18446744073709551615 := by decide
/-- non-vacuity (audit): the theorem instantiated at int16 (signed) and uint32 (unsigned) -/
example : IntTy.min .int16 = -(2 ^ 15 : Int) ∧ 8 * IntTy.lybSize .uint32 = 32 :=
  ⟨(bounds_are_rfc .int16).1, (bounds_are_rfc .uint32).2.2⟩

/-- `lyplg_type_check_hints`, as executed by the translator, is RFC 7951 §6 typing: 8/16/32-bit integers need a number
    hint, 64-bit integers the num64 hint, decimal64/enumeration/bits/string a string hint, boolean the boolean hint. -/
theorem hints_table_is_rfc7951 (hints : Nat) :
    (∀ t ∈ ["int8", "int16", "int32", "uint8", "uint16", "uint32"], (checkHints hints t).isSome = (hints % 16 / 2 != 0)) ∧
    (∀ t ∈ ["int64", "uint64"], (checkHints hints t).isSome = (hints % 32 / 16 == 1)) ∧
    (∀ t ∈ ["dec64", "enum", "bits", "string"], (checkHints hints t).isSome = (hints % 2 == 1)) ∧
    (checkHints hints "bool").isSome = (hints % 64 / 32 == 1) := by
  have key : ∀ h : Fin 128,
      (∀ t ∈ ["int8", "int16", "int32", "uint8", "uint16", "uint32"], (checkHints h.val t).isSome = (h.val % 16 / 2 != 0)) ∧
      (∀ t ∈ ["int64", "uint64"], (checkHints h.val t).isSome = (h.val % 32 / 16 == 1)) ∧
      (∀ t ∈ ["dec64", "enum", "bits", "string"], (checkHints h.val t).isSome = (h.val % 2 == 1)) ∧
      (checkHints h.val "bool").isSome = (h.val % 64 / 32 == 1) := by decide
  have hm : hints % 128 < 128 := Nat.mod_lt _ (by decide)
  have hk := key ⟨hints % 128, hm⟩
  have hc : ∀ t, checkHints (hints % 128) t = checkHints hints t := by
    intro t; unfold checkHints; simp
  simp only [hc] at hk
  have e1 : hints % 128 % 16 = hints % 16 := by omega
  have e2 : hints % 128 % 32 = hints % 32 := by omega
  have e3 : hints % 128 % 2 = hints % 2 := by omega
  have e4 : hints % 128 % 64 = hints % 64 := by omega
  rw [e1, e2, e3, e4] at hk
  exact hk

example : (checkHints Generated.LYD_HINT_DATA "int8").isSome = true ∧ (checkHints 17 "int8").isSome = false := by decide

/-- Every data source that offers a number hint makes the integer parsers work in base 10: XML, the value API and path
    predicates (`LYD_HINT_DATA`), JSON numbers (`LYD_VALHINT_DECNUM`); a schema default (`LYD_HINT_SCHEMA`) uses base 0. -/
theorem number_hints_select_base (t : IntTy) :
    checkHints Generated.LYD_HINT_DATA t.name = some 10 ∧ checkHints Generated.LYD_HINT_SCHEMA t.name = some 0 ∧
    (t.bits < 64 → checkHints Generated.LYD_VALHINT_DECNUM t.name = some 10) := by
  cases t <;> decide

/-- non-vacuity (audit): the guarded third conjunct at a type below 64 bits (int16), the second at uint64 -/
example : checkHints Generated.LYD_VALHINT_DECNUM "int16" = some 10 ∧ checkHints Generated.LYD_HINT_SCHEMA "uint64" = some 0 :=
  ⟨(number_hints_select_base .int16).2.2 (by decide), (number_hints_select_base .uint64).2.1⟩

/-- FULL STATEMENT (false on the pinned tree, finding F63): every source that offers no octal/hexadecimal hint parses a
    64-bit integer in base 10.  It is a statement about the generated table, so it is decided by inspecting the table: -/
def Int64SourcesUseBase10 : Prop :=
  ∀ hints b, hints % 16 / 2 ≤ 1 → checkHints hints "int64" = some b → b = 10

/-- the table inspection: all 128 hint subsets -/
def int64Base10Check : Bool :=
  (List.range 128).all fun h => !decide (h % 16 / 2 ≤ 1) || (checkHints h "int64" == none) || (checkHints h "int64" == some 10)

/-- The full statement holds exactly when the inspection of the generated table succeeds — whatever the table says.
    On the pinned tree it fails (`int64Base10Check = false`); with the repair of F63 it succeeds. -/
theorem int64_sources_use_base10_iff : Int64SourcesUseBase10 ↔ int64Base10Check = true := by
  have hc : ∀ hints t, checkHints (hints % 128) t = checkHints hints t := by
    intro hints t; unfold checkHints; simp
  unfold Int64SourcesUseBase10 int64Base10Check
  rw [List.all_eq_true]
  constructor
  · intro h x hx
    have hx' : x < 128 := List.mem_range.mp hx
    by_cases hb : x % 16 / 2 ≤ 1
    · cases hch : checkHints x "int64" with
      | none => simp
      | some b => have := h x b hb hch; subst this; simp
    · simp [hb]
  · intro h hints b hb hch
    have hm : hints % 128 < 128 := Nat.mod_lt _ (by decide)
    have := h (hints % 128) (List.mem_range.mpr hm)
    rw [hc] at this
    have hb' : hints % 128 % 16 / 2 ≤ 1 := by
      have : hints % 128 % 16 = hints % 16 := by omega
      rw [this]; exact hb
    simp only [hb', decide_true, Bool.not_true, Bool.false_or, hch, Bool.or_eq_true, beq_iff_eq, reduceCtorEq, false_or,
      Option.some.injEq] at this
    exact this

-- AUDIT (resolved): `_fails` is conditional on the generated table; its docstring now says so, the positive counterpart for the repaired table is `int64_sources_use_base10_holds`, and the examples below are disjunctive over the two tables.
/-- The F63 witness, CONDITIONAL on the generated table: if the JSON-string hints (`LYD_VALHINT_STRING | LYD_VALHINT_NUM64`,
    no base bit) get base 0 — they do on the pinned tree — the full statement is false: `"010"` is 8 there and 10 from XML.
    What is proved is the implication only.  On a table where the hypothesis is false (the repaired one, entry 17 of the
    int64 row = 10: `int64_sources_use_base10_fails_vacuous_for_repaired_table`) this theorem says nothing and is NOT a
    refutation for the tree at hand; there `int64_sources_use_base10_holds` applies instead.  Which of the two hypotheses
    the tree at hand satisfies is shown by the disjunctive examples below. -/
theorem int64_sources_use_base10_fails (h : checkHints (Generated.LYD_VALHINT_STRING + Generated.LYD_VALHINT_NUM64) "int64" = some 0) :
    ¬ Int64SourcesUseBase10 := by
  intro hall
  have := hall _ 0 (by decide) h
  cases this

-- AUDIT (resolved): kept as the explicit vacuity statement of `_fails`; positive counterpart `int64_sources_use_base10_holds` added below.
/-- With the repaired table (JSON-string hints of int64 select base 10) the hypothesis of
    `int64_sources_use_base10_fails` is false: that theorem is vacuous there. -/
theorem int64_sources_use_base10_fails_vacuous_for_repaired_table (h : checkHints 17 "int64" = some 10) :
    ¬ (checkHints (Generated.LYD_VALHINT_STRING + Generated.LYD_VALHINT_NUM64) "int64" = some 0) := by
  intro h'
  rw [show Generated.LYD_VALHINT_STRING + Generated.LYD_VALHINT_NUM64 = 17 from rfl, h] at h'
  cases h'

/-- Positive counterpart of `int64_sources_use_base10_fails`, CONDITIONAL on the generated table as well: if the inspection
    of the table succeeds (it does with the repair of F63, it does not on the pinned tree) then every source that offers
    no octal/hexadecimal hint parses a 64-bit integer in base 10.  (`⇐` of `int64_sources_use_base10_iff`.) -/
theorem int64_sources_use_base10_holds (h : int64Base10Check = true) : Int64SourcesUseBase10 :=
  int64_sources_use_base10_iff.mpr h

/-- non-vacuity: exactly one of the two conditional theorems applies to the table at hand — either the hypothesis of
    `_fails` holds (and `_fails` refutes the full statement) or the hypothesis of `_holds` holds (and `_holds` proves it) -/
example : (checkHints (Generated.LYD_VALHINT_STRING + Generated.LYD_VALHINT_NUM64) "int64" = some 0 ∧ int64Base10Check = false) ∨
    (checkHints (Generated.LYD_VALHINT_STRING + Generated.LYD_VALHINT_NUM64) "int64" = some 10 ∧ int64Base10Check = true) := by decide
example : ¬ Int64SourcesUseBase10 ∨ Int64SourcesUseBase10 :=
  if h : int64Base10Check = true then Or.inr (int64_sources_use_base10_holds h)
  else if h' : checkHints (Generated.LYD_VALHINT_STRING + Generated.LYD_VALHINT_NUM64) "int64" = some 0 then
    Or.inl (int64_sources_use_base10_fails h')
  else Or.inl (fun hall => h (int64_sources_use_base10_iff.mp hall))

/-- non-vacuity (audit): on the table at hand either the hypothesis of `_fails` holds (and the full statement is refuted)
    or the full statement holds — checked against whichever table was generated -/
example : (checkHints (Generated.LYD_VALHINT_STRING + Generated.LYD_VALHINT_NUM64) "int64" = some 0 ∧ ¬ Int64SourcesUseBase10) ∨
    Int64SourcesUseBase10 := by
  rw [int64_sources_use_base10_iff]; decide

example : (checkHints 17 "int64" = some 0 ∧ int64Base10Check = false ∧ storeInt .int64 [] 17 [48, 49, 48] = .ok 8) ∨
    (checkHints 17 "int64" = some 10 ∧ int64Base10Check = true ∧ storeInt .int64 [] 17 [48, 49, 48] = .ok 10) := by decide
example : storeInt .int64 [] Generated.LYD_HINT_DATA [48, 49, 48] = .ok 10 := by decide

/-- the basetype name `lyplg_type_check_hints` is called with by the store callback of the type -/
def hintName : Ty → String
  | .int t _ => t.name
  | .dec64 _ _ => "dec64"
  | .bool => "bool"
  | .enum _ => "enum"
  | .bits _ => "bits"
  | .str _ => "string"

-- AUDIT (resolved): `same_verdict_all_sources_all_types` is now the stated theorem (all six modelled store callbacks); `same_verdict_all_sources` is kept, unchanged in statement, as its special case.
/-- THE STATED THEOREM ("the same verdict from every source"): every modelled store callback — integers (all eight),
    decimal64, boolean, enumeration, bits, string — depends on the hints only through the result of
    `lyplg_type_check_hints` for the basetype of the type.  Exactly: for every modelled type `ty`, all hint sets `h1`,
    `h2` and every byte string `s`, if `checkHints` returns the same thing (rejected, or accepted with the same base) for
    `h1` and `h2` on `hintName ty`, then `store ty h1 s = store ty h2 s` — the same value or the same error.  So the
    source of a value (XML, JSON, the value API, a path predicate, a schema default) influences the verdict only by way
    of the hint verdict and the base it selects.  (Not covered: the types outside the model — binary, union, leafref,
    identityref, instance-identifier, empty — and LYB input, which takes no hints.) -/
theorem same_verdict_all_sources_all_types (ty : Ty) (h1 h2 : Nat) (s : Bytes)
    (h : checkHints h1 (hintName ty) = checkHints h2 (hintName ty)) : store ty h1 s = store ty h2 s := by
  cases ty with
  | int t r => simp only [store]; rw [storeInt_hints_irrelevant t r h1 h2 s h]
  | dec64 fd r =>
    simp only [store]
    rw [storeDec64_hints_irrelevant fd r h1 h2 s (by rw [show checkHints h1 "dec64" = checkHints h2 "dec64" from h])]
  | bool => simp only [store, storeBool]; rw [show checkHints h1 "bool" = checkHints h2 "bool" from h]
  | «enum» items => simp only [store, storeEnum]; rw [show checkHints h1 "enum" = checkHints h2 "enum" from h]
  | bits items => simp only [store, storeBits]; rw [show checkHints h1 "bits" = checkHints h2 "bits" from h]
  | str len => simp only [store, storeStr]; rw [show checkHints h1 "string" = checkHints h2 "string" from h]

/-- non-vacuity (audit): a bits type under the data hints and under the bare JSON-string hint, an accepted value -/
example : store (.bits [⟨[97], 0⟩, ⟨[98], 3⟩, ⟨[99], 9⟩]) Generated.LYD_HINT_DATA [99, 32, 97] =
      store (.bits [⟨[97], 0⟩, ⟨[98], 3⟩, ⟨[99], 9⟩]) Generated.LYD_VALHINT_STRING [99, 32, 97] ∧
    store (.bits [⟨[97], 0⟩, ⟨[98], 3⟩, ⟨[99], 9⟩]) Generated.LYD_VALHINT_STRING [99, 32, 97] = .ok (.bits 513) :=
  ⟨same_verdict_all_sources_all_types _ _ _ _ (by decide), by decide⟩
/-- non-vacuity: an integer type, two different hint sets with the same verdict and base, a REJECTED value (same error) -/
example : store (.int .int8 []) Generated.LYD_HINT_DATA [49, 50, 56] = store (.int .int8 []) Generated.LYD_VALHINT_DECNUM [49, 50, 56] ∧
    store (.int .int8 []) Generated.LYD_VALHINT_DECNUM [49, 50, 56] = .error .Bounds :=
  ⟨same_verdict_all_sources_all_types _ _ _ _ (by decide), by decide⟩
/-- … and the hypothesis is a real restriction: data hints and schema hints select different bases and disagree on `010` -/
example : checkHints Generated.LYD_HINT_DATA (hintName (.int .int8 [])) ≠ checkHints Generated.LYD_HINT_SCHEMA (hintName (.int .int8 [])) ∧
    store (.int .int8 []) Generated.LYD_HINT_DATA [48, 49, 48] ≠ store (.int .int8 []) Generated.LYD_HINT_SCHEMA [48, 49, 48] := by decide

/-- SPECIAL CASE of `same_verdict_all_sources_all_types`, kept under its original name and statement: the two numeric
    store callbacks `storeInt` and `storeDec64` — only these two of the six modelled ones — depend on the hints only
    through `lyplg_type_check_hints`.  First conjunct: the instance of the stated theorem at `Ty.int t range` (equal
    verdict and base ⇒ equal result for every byte string).  Second conjunct: the instance at `Ty.dec64 fd range` with the
    hypothesis relaxed from "equal `checkHints` result" to "equal verdict" (`isSome`; decimal64 takes no base). -/
theorem same_verdict_all_sources (t : IntTy) (range : List (Int × Int)) (fd : Nat) (h1 h2 : Nat) (s : Bytes) :
    (checkHints h1 t.name = checkHints h2 t.name → storeInt t range h1 s = storeInt t range h2 s) ∧
    ((checkHints h1 "dec64").isSome = (checkHints h2 "dec64").isSome → storeDec64 fd range h1 s = storeDec64 fd range h2 s) :=
  ⟨storeInt_hints_irrelevant t range h1 h2 s, storeDec64_hints_irrelevant fd range h1 h2 s⟩

example : checkHints Generated.LYD_HINT_DATA "int8" = checkHints Generated.LYD_VALHINT_DECNUM "int8" := by decide
/-- non-vacuity (audit): two different hint sets (XML/API data vs. JSON number) with the same verdict, an accepted value -/
example : storeInt .int8 [] Generated.LYD_HINT_DATA [49, 50] = storeInt .int8 [] Generated.LYD_VALHINT_DECNUM [49, 50] ∧
    storeInt .int8 [] Generated.LYD_VALHINT_DECNUM [49, 50] = .ok 12 :=
  ⟨(same_verdict_all_sources .int8 [] 1 Generated.LYD_HINT_DATA Generated.LYD_VALHINT_DECNUM [49, 50]).1 (by decide), by decide⟩

/-! ## integers -/

-- AUDIT (resolved): base 0 (`LYD_HINT_SCHEMA`; on the pinned tree also the JSON-string hints of 64-bit integers, F63) is now characterised as well: `int_accept_iff_base0`, `int_canon_idempotent_base0` below. Bases 8 / 16 alone (hint sets with only OCTNUM or only HEXNUM — none of the sources of `number_hints_select_base`) remain covered by the correspondence check only.
/-- Acceptance ⇔ the string is in the RFC 7950 §9.2.1 lexical space (with libyang's whitespace tolerance), its value
    is within the type's bounds and in the union of the range parts.  Base-10 hints; strings without NUL. -/
theorem int_accept_iff (t : IntTy) (range : List (Int × Int)) (hints : Nat) (s : Bytes) (v : Int)
    (h0 : (0 : UInt8) ∉ s) (hb : checkHints hints t.name = some 10) (hwf : PartsWF t.min t.max range) :
    storeInt t range hints s = .ok v ↔ IntLexWs s v ∧ t.min ≤ v ∧ v ≤ t.max ∧ InParts range v :=
  storeInt_accept_iff t range hints s v h0 hb hwf

example : storeInt .int8 [(-128, -100), (5, 20)] Generated.LYD_HINT_DATA [32, 43, 48, 49, 50, 10] = .ok 12 := by decide
example : PartsWF (IntTy.min .int8) (IntTy.max .int8) [(-128, -100), (5, 20)] := by simp only [PartsWF]; decide
/-- non-vacuity (audit): the theorem at int8 with a two-part range, `" +012\n"` — all three hypotheses met, ⇒ used -/
example : IntLexWs [32, 43, 48, 49, 50, 10] 12 ∧ IntTy.min .int8 ≤ 12 ∧ 12 ≤ IntTy.max .int8 ∧ InParts [(-128, -100), (5, 20)] 12 :=
  (int_accept_iff .int8 [(-128, -100), (5, 20)] Generated.LYD_HINT_DATA [32, 43, 48, 49, 50, 10] 12
    (by decide) (by decide) (by simp only [PartsWF]; decide)).mp (by decide)
/-- non-vacuity (audit): unsigned 64-bit, range `0..5 | 2⁶³..max`, the value 2⁶⁴−1 (above the signed range) -/
example : IntLexWs [49, 56, 52, 52, 54, 55, 52, 52, 48, 55, 51, 55, 48, 57, 53, 53, 49, 54, 49, 53] (2 ^ 64 - 1) ∧
    IntTy.min .uint64 ≤ 2 ^ 64 - 1 ∧ (2 ^ 64 - 1 : Int) ≤ IntTy.max .uint64 ∧ InParts [(0, 5), (2 ^ 63, 2 ^ 64 - 1)] (2 ^ 64 - 1) :=
  (int_accept_iff .uint64 [(0, 5), (2 ^ 63, 2 ^ 64 - 1)] Generated.LYD_HINT_DATA
    [49, 56, 52, 52, 54, 55, 52, 52, 48, 55, 51, 55, 48, 57, 53, 53, 49, 54, 49, 53] (2 ^ 64 - 1)
    (by decide) (by decide) (by simp only [PartsWF]; decide)).mp (by decide)
/-- non-vacuity (audit): the left side of the ⇔ is not always true — `6` lies between the parts and is refused -/
example : ¬ storeInt .uint64 [(0, 5), (2 ^ 63, 2 ^ 64 - 1)] Generated.LYD_HINT_DATA [54] = .ok 6 := by decide

/-- Acceptance under hints that select base 0 (`LYD_HINT_SCHEMA`: schema defaults; on the pinned tree also the JSON-string
    hints of 64-bit integers, finding F63) ⇔ the string is, between optional white space, an optional sign followed by a C
    integer constant as `strtoll(…, 0)` reads it (`IntLexWs0`, `Val/SpecBase0.lean`: `0x`/`0X` + one or more hexadecimal
    digits, or `0` + octal digits, or a decimal number not starting with `0`), its value — in that base — is within the
    type's bounds and in the union of the range parts.  All eight integer types, every compiled range, every byte
    string without NUL; same hypotheses as `int_accept_iff` but for the base.  In particular `08`, `0x`, `0x 1`, `- 1`
    are refused, `010` is 8, `-0x10` is −16, and for the unsigned types a `-` is accepted only in front of a zero. -/
theorem int_accept_iff_base0 (t : IntTy) (range : List (Int × Int)) (hints : Nat) (s : Bytes) (v : Int)
    (h0 : (0 : UInt8) ∉ s) (hb : checkHints hints t.name = some 0) (hwf : PartsWF t.min t.max range) :
    storeInt t range hints s = .ok v ↔ IntLexWs0 s v ∧ t.min ≤ v ∧ v ≤ t.max ∧ InParts range v :=
  storeInt_accept_iff_base0 t range hints s v h0 hb hwf

/-- non-vacuity: the base hypothesis holds for the schema hints at every integer type -/
example (t : IntTy) : checkHints Generated.LYD_HINT_SCHEMA t.name = some 0 := (number_hints_select_base t).2.1
/-- non-vacuity: accepted hexadecimal — `" 0x1F\n"` at int8 with a two-part range is 31; all three hypotheses met, ⇒ used -/
example : IntLexWs0 [32, 48, 120, 49, 70, 10] 31 ∧ IntTy.min .int8 ≤ 31 ∧ 31 ≤ IntTy.max .int8 ∧ InParts [(-128, -100), (5, 40)] 31 :=
  (int_accept_iff_base0 .int8 [(-128, -100), (5, 40)] Generated.LYD_HINT_SCHEMA [32, 48, 120, 49, 70, 10] 31
    (by decide) (by decide) (by simp only [PartsWF]; decide)).mp (by decide)
/-- non-vacuity: accepted octal — `017` is 15 (and is 17 under the data hints) -/
example : IntLexWs0 [48, 49, 55] 15 ∧ IntTy.min .int8 ≤ 15 ∧ 15 ≤ IntTy.max .int8 ∧ InParts [] 15 :=
  (int_accept_iff_base0 .int8 [] Generated.LYD_HINT_SCHEMA [48, 49, 55] 15 (by decide) (by decide) trivial).mp (by decide)
example : storeInt .int8 [] Generated.LYD_HINT_DATA [48, 49, 55] = .ok 17 := by decide
/-- non-vacuity: accepted, negative hexadecimal with an upper-case prefix — `-0X80` is the lower bound of int8; ⇐ used:
    the store result is derived from the lexical description -/
example : storeInt .int8 [] Generated.LYD_HINT_SCHEMA [45, 48, 88, 56, 48] = .ok (-128) :=
  (int_accept_iff_base0 .int8 [] Generated.LYD_HINT_SCHEMA [45, 48, 88, 56, 48] (-128) (by decide) (by decide) trivial).mpr
    ⟨⟨[], [45, 48, 88, 56, 48], [], rfl, rfl, rfl, [45], [48, 88, 56, 48], 128, rfl, Or.inr (Or.inr rfl),
      Or.inl ⟨88, [56, 48], rfl, Or.inr rfl, by decide, by decide, by decide⟩, by decide⟩, by decide, by decide, Or.inl rfl⟩
/-- non-vacuity: unsigned 64-bit, sixteen `f`s = 2⁶⁴−1 (above the signed range), range `0..5 | 2⁶³..max` -/
example : IntLexWs0 [48, 120, 102, 102, 102, 102, 102, 102, 102, 102, 102, 102, 102, 102, 102, 102, 102, 102] (2 ^ 64 - 1) ∧
    IntTy.min .uint64 ≤ 2 ^ 64 - 1 ∧ (2 ^ 64 - 1 : Int) ≤ IntTy.max .uint64 ∧ InParts [(0, 5), (2 ^ 63, 2 ^ 64 - 1)] (2 ^ 64 - 1) :=
  (int_accept_iff_base0 .uint64 [(0, 5), (2 ^ 63, 2 ^ 64 - 1)] Generated.LYD_HINT_SCHEMA
    [48, 120, 102, 102, 102, 102, 102, 102, 102, 102, 102, 102, 102, 102, 102, 102, 102, 102] (2 ^ 64 - 1)
    (by decide) (by decide) (by simp only [PartsWF]; decide)).mp (by decide)
/-- non-vacuity: rejected forms — `08` (8 is no octal digit), `0x` (no digit after the prefix), `0x 1`, `0xg`: the model
    refuses them, and (⇒, contrapositive) no value makes them lexical values of base 0 -/
example : storeInt .int8 [] Generated.LYD_HINT_SCHEMA [48, 56] = .error .Invalid ∧
    storeInt .int8 [] Generated.LYD_HINT_SCHEMA [48, 120] = .error .Invalid ∧
    storeInt .int8 [] Generated.LYD_HINT_SCHEMA [48, 120, 32, 49] = .error .Invalid ∧
    storeInt .int8 [] Generated.LYD_HINT_SCHEMA [48, 120, 103] = .error .Invalid := by decide
example : (∀ v, ¬ (IntLexWs0 [48, 56] v ∧ IntTy.min .int8 ≤ v ∧ v ≤ IntTy.max .int8 ∧ InParts [] v)) ∧
    (∀ v, ¬ (IntLexWs0 [48, 120] v ∧ IntTy.min .int8 ≤ v ∧ v ≤ IntTy.max .int8 ∧ InParts [] v)) :=
  ⟨fun v h => absurd ((int_accept_iff_base0 .int8 [] Generated.LYD_HINT_SCHEMA [48, 56] v (by decide) (by decide) trivial).mpr h)
      (by rw [show storeInt .int8 [] Generated.LYD_HINT_SCHEMA [48, 56] = .error .Invalid by decide]; exact fun h => nomatch h),
   fun v h => absurd ((int_accept_iff_base0 .int8 [] Generated.LYD_HINT_SCHEMA [48, 120] v (by decide) (by decide) trivial).mpr h)
      (by rw [show storeInt .int8 [] Generated.LYD_HINT_SCHEMA [48, 120] = .error .Invalid by decide]; exact fun h => nomatch h)⟩
/-- non-vacuity: out of range — `0xFF` = 255 is a lexical value of base 0 but above the int8 bound; `0x28` = 40 is inside
    the bounds but between the range parts; `0x1` + sixteen zeros = 2⁶⁴ overflows `strtoull` -/
example : storeInt .int8 [] Generated.LYD_HINT_SCHEMA [48, 120, 70, 70] = .error .Bounds ∧
    storeInt .uint8 [] Generated.LYD_HINT_SCHEMA [48, 120, 70, 70] = .ok 255 ∧
    storeInt .int8 [(-128, -100), (5, 20)] Generated.LYD_HINT_SCHEMA [48, 120, 50, 56] = .error .Range ∧
    storeInt .uint64 [] Generated.LYD_HINT_SCHEMA [48, 120, 49, 48, 48, 48, 48, 48, 48, 48, 48, 48, 48, 48, 48, 48, 48, 48, 48] =
      .error .Invalid := by decide
/-- non-vacuity: signs — `-0x10` is −16 for a signed type and refused for an unsigned one; `-0x0` and `-00` are the
    unsigned 0; white space after the sign is refused -/
example : storeInt .int8 [] Generated.LYD_HINT_SCHEMA [45, 48, 120, 49, 48] = .ok (-16) ∧
    storeInt .uint8 [] Generated.LYD_HINT_SCHEMA [45, 48, 120, 49, 48] = .error .Bounds ∧
    storeInt .uint8 [] Generated.LYD_HINT_SCHEMA [45, 48, 120, 48] = .ok 0 ∧
    storeInt .uint8 [] Generated.LYD_HINT_SCHEMA [45, 48, 48] = .ok 0 ∧
    storeInt .int8 [] Generated.LYD_HINT_SCHEMA [45, 32, 49] = .error .Invalid := by decide
/-- the two bases disagree exactly on the forms with a leading zero: `010` is 8 as a schema default and 10 as data;
    `0x10` is 16 as a schema default and refused as data -/
example : storeInt .int8 [] Generated.LYD_HINT_SCHEMA [48, 49, 48] = .ok 8 ∧ storeInt .int8 [] Generated.LYD_HINT_DATA [48, 49, 48] = .ok 10 ∧
    storeInt .int8 [] Generated.LYD_HINT_SCHEMA [48, 120, 49, 48] = .ok 16 ∧
    storeInt .int8 [] Generated.LYD_HINT_DATA [48, 120, 49, 48] = .error .Invalid := by decide

/-- `lyplg_type_validate_range` on an ascending disjoint part list decides membership in the union — in the signed
    branch for every value, in the unsigned branch (64-bit patterns compared as `uint64_t`) for every value of `[0, 2⁶⁴)`. -/
theorem range_check_correct (lo hi : Int) (parts : List (Int × Int)) (v : Int) (hwf : PartsWF lo hi parts) :
    (validateRange false parts v = true ↔ InParts parts v) ∧
    (0 ≤ lo → hi < 2 ^ 64 → 0 ≤ v → v < 2 ^ 64 → (validateRange true parts v = true ↔ InParts parts v)) := by
  refine ⟨validateRange_signed_iff parts v hwf, ?_⟩
  intro hlo hhi h0 h1
  rw [validateRange_unsigned_eq hlo hhi parts v hwf h0 h1]
  exact validateRange_signed_iff parts v hwf

example : validateRange true [(0, 5), (2 ^ 63, 2 ^ 64 - 1)] (2 ^ 63 + 1) = true ∧ validateRange true [(0, 5), (2 ^ 63, 2 ^ 64 - 1)] 6 = false := by decide
/-- non-vacuity (audit): unsigned branch, `lo = 0`, `hi = 2⁶⁴−1`, two parts, a value above 2⁶³ — all side conditions met -/
example : validateRange true [(0, 5), (2 ^ 63, 2 ^ 64 - 1)] (2 ^ 63 + 1) = true ↔ InParts [(0, 5), (2 ^ 63, 2 ^ 64 - 1)] (2 ^ 63 + 1) :=
  (range_check_correct 0 (2 ^ 64 - 1) [(0, 5), (2 ^ 63, 2 ^ 64 - 1)] (2 ^ 63 + 1) (by simp only [PartsWF]; decide)).2
    (by decide) (by decide) (by decide) (by decide)
/-- non-vacuity (audit): signed branch, two parts with negative bounds; a member (⇒) and a value in the gap (⇐, contrapositive) -/
example : InParts [(-128, -100), (5, 20)] (-100) ∧ ¬ InParts [(-128, -100), (5, 20)] 4 :=
  ⟨(range_check_correct (-128) 127 [(-128, -100), (5, 20)] (-100) (by simp only [PartsWF]; decide)).1.mp (by decide),
   fun h => absurd ((range_check_correct (-128) 127 [(-128, -100), (5, 20)] 4 (by simp only [PartsWF]; decide)).1.mpr h) (by decide)⟩

/-- The signed/unsigned choice matters: on the bit pattern of a uint64 above 2⁶³ the signed comparison is wrong. -/
theorem range_branch_matters : validateRange false [(0, 5), (2 ^ 63, 2 ^ 64 - 1)] (2 ^ 63 + 1 - 2 ^ 64) = false ∧
    validateRange true [(0, 5), (2 ^ 63, 2 ^ 64 - 1)] (2 ^ 63 + 1 - 2 ^ 64) = true := by decide

/-- Canonical idempotence: storing the canonical string of a value of the type returns that value. -/
theorem int_canon_idempotent (t : IntTy) (range : List (Int × Int)) (hints : Nat) (v : Int)
    (hb : checkHints hints t.name = some 10) (hwf : PartsWF t.min t.max range)
    (hlo : t.min ≤ v) (hhi : v ≤ t.max) (hin : InParts range v) :
    storeInt t range hints (canonInt v) = .ok v :=
  storeInt_canon t range hints v hb hwf hlo hhi hin

/-- non-vacuity (audit): int8 with a two-part range, the lower bound −128 -/
example : storeInt .int8 [(-128, -100), (5, 20)] Generated.LYD_HINT_DATA (canonInt (-128)) = .ok (-128) :=
  int_canon_idempotent .int8 [(-128, -100), (5, 20)] Generated.LYD_HINT_DATA (-128) (by decide)
    (by simp only [PartsWF]; decide) (by decide) (by decide) (by simp only [InParts]; decide)

/-- Canonical idempotence under hints that select base 0: the canonical string (decimal, no leading zero, `0` for zero) is
    an integer constant of base 0 with the same value, so a schema default written canonically is stored as that value. -/
theorem int_canon_idempotent_base0 (t : IntTy) (range : List (Int × Int)) (hints : Nat) (v : Int)
    (hb : checkHints hints t.name = some 0) (hwf : PartsWF t.min t.max range)
    (hlo : t.min ≤ v) (hhi : v ≤ t.max) (hin : InParts range v) :
    storeInt t range hints (canonInt v) = .ok v :=
  storeInt_canon_base0 t range hints v hb hwf hlo hhi hin

/-- non-vacuity: int8 with a two-part range under the schema hints, the lower bound −128 and zero (the octal form `0`) -/
example : storeInt .int8 [(-128, -100), (0, 20)] Generated.LYD_HINT_SCHEMA (canonInt (-128)) = .ok (-128) ∧
    storeInt .int8 [(-128, -100), (0, 20)] Generated.LYD_HINT_SCHEMA (canonInt 0) = .ok 0 :=
  ⟨int_canon_idempotent_base0 .int8 _ Generated.LYD_HINT_SCHEMA (-128) (by decide)
      (by simp only [PartsWF]; decide) (by decide) (by decide) (by simp only [InParts]; decide),
   int_canon_idempotent_base0 .int8 _ Generated.LYD_HINT_SCHEMA 0 (by decide)
      (by simp only [PartsWF]; decide) (by decide) (by decide) (by simp only [InParts]; decide)⟩

/-- … and therefore the canonical form of whatever was parsed re-parses to the same value and the same canonical form. -/
theorem int_canon_of_parsed (t : IntTy) (range : List (Int × Int)) (hints : Nat) (s : Bytes) (v : Int)
    (h0 : (0 : UInt8) ∉ s) (hb : checkHints hints t.name = some 10) (hwf : PartsWF t.min t.max range)
    (h : storeInt t range hints s = .ok v) : storeInt t range hints (canonInt v) = .ok v := by
  obtain ⟨_, hlo, hhi, hin⟩ := (storeInt_accept_iff t range hints s v h0 hb hwf).mp h
  exact storeInt_canon t range hints v hb hwf hlo hhi hin

example : canonInt (-128) = [45, 49, 50, 56] ∧ storeInt .int8 [] Generated.LYD_HINT_DATA [45, 49, 50, 56] = .ok (-128) := by decide
/-- non-vacuity (audit): the non-canonical `" +012\n"` under a two-part range re-parses from its canonical form `12` -/
example : storeInt .int8 [(-128, -100), (5, 20)] Generated.LYD_HINT_DATA (canonInt 12) = .ok 12 ∧ canonInt 12 = [49, 50] :=
  ⟨int_canon_of_parsed .int8 [(-128, -100), (5, 20)] Generated.LYD_HINT_DATA [32, 43, 48, 49, 50, 10] 12
    (by decide) (by decide) (by simp only [PartsWF]; decide) (by decide), by decide⟩

/-- The canonical form of an integer is the RFC 7950 §9.2.2 one: no `+`, no leading zeros, zero is `0`. -/
theorem int_canon_is_rfc_canonical (v : Int) : IsCanonInt (canonInt v) := intDec_canonical v

/-- non-vacuity (audit): `IsCanonInt` is not trivially true — `01`, `-0` and `+1` are not canonical -/
example : IsCanonInt (canonInt (-128)) ∧ ¬ IsCanonInt [48, 49] ∧ ¬ IsCanonInt [45, 48] ∧ ¬ IsCanonInt [43, 49] := by
  refine ⟨int_canon_is_rfc_canonical _, ?_, ?_, ?_⟩ <;>
    (rintro ⟨sg, ds, hs, hsg | hsg, hne, hd, hz⟩ <;> subst hsg <;> simp at hs <;> subst hs <;> simp_all <;>
      exact absurd hd.1 (by decide))

/-- Equality of integer values ⇔ equality of canonical strings. -/
theorem int_eq_iff_canon_eq (a b : Int) : a = b ↔ canonInt a = canonInt b :=
  ⟨fun h => h ▸ rfl, intDec_injective⟩

/-- non-vacuity (audit): no hypotheses; ⇐ used to separate two values whose digit strings differ only by a zero and a sign -/
example : canonInt (-10) ≠ canonInt 100 := fun h => absurd ((int_eq_iff_canon_eq (-10) 100).mpr h) (by decide)

/-- value → LYB → value is the identity on every value of the type (two's complement, little endian, `lybSize` bytes). -/
theorem int_lyb_roundtrip (t : IntTy) (range : List (Int × Int)) (hints : Nat) (s : Bytes) (v : Int)
    (h : storeInt t range hints s = .ok v) : unlybInt t range (lybInt t v) = .ok v ∧ (lybInt t v).length = t.lybSize := by
  obtain ⟨hlo, hhi, hr⟩ := storeInt_ok_bounds h
  exact ⟨unlybInt_lybInt t range v hlo hhi hr, leBytes_length _ _⟩

example : lybInt .int16 (-2) = [0xfe, 0xff] ∧ unlybInt .int16 [] [0xfe, 0xff] = .ok (-2) := by decide
/-- non-vacuity (audit): the theorem at int16 with a range, the negative value `-2` -/
example : unlybInt .int16 [(-5, 5)] (lybInt .int16 (-2)) = .ok (-2) ∧ (lybInt .int16 (-2)).length = IntTy.lybSize .int16 :=
  int_lyb_roundtrip .int16 [(-5, 5)] Generated.LYD_HINT_DATA [45, 50] (-2) (by decide)

/-! ## decimal64 -/

/-- FULL STATEMENT: acceptance ⇔ RFC 7950 §9.3.1 lexical space, representable mantissa, ranges — for the parser variant
    `nd` (`false`: the code of the pinned tree, `true`: with the repair of F2; the translator derives which one the source
    at hand is by executing `lyplg_type_parse_dec64`, `Generated.dec64SignNeedsDigit`). -/
def Dec64AcceptIff (nd : Bool) : Prop :=
  ∀ (fd : Nat), 1 ≤ fd → fd ≤ 18 → ∀ (range : List (Int × Int)) (hints : Nat) (s : Bytes) (k : Int),
    (checkHints hints "dec64").isSome = true → PartsWF (-(2 ^ 63)) (2 ^ 63 - 1) range →
    (storeDec64With nd fd range hints s = .ok k ↔ DecLexWs true fd s k ∧ -(2 ^ 63) ≤ k ∧ k ≤ 2 ^ 63 - 1 ∧ InParts range k)

/-- Finding F2: false for the pinned code — the bare sign `"+"` is accepted as 0 although the RFC grammar needs a digit. -/
theorem dec64_accept_iff_fails : ¬ Dec64AcceptIff false := by
  intro h
  have hacc : storeDec64With false 1 [] Generated.LYD_HINT_DATA [43] = .ok 0 := by decide
  obtain ⟨⟨l, sg, ip, fr, r, point, hs, _, _, _, hip, _, _, _, hne, _⟩, _⟩ :=
    (h 1 (by decide) (by decide) [] Generated.LYD_HINT_DATA [43] 0 (by decide) trivial).mp hacc
  simp only [if_true] at hne
  -- a digit of the integer part would have to occur in the one-character string "+"
  cases ip with
  | nil => exact hne rfl
  | cons c ip' =>
    have hmem : c ∈ ([43] : Bytes) := by rw [hs]; simp
    simp only [List.all_cons, Bool.and_eq_true] at hip
    have : c = 43 := by simpa using hmem
    rw [this] at hip
    exact absurd hip.1 (by decide)

/-- What either variant accepts, exactly: `DecLexWs nd` — the RFC lexical space, for `nd = false` without the requirement
    of a digit between a sign and the point/end.  Every fraction-digits value, every range, every string. -/
theorem dec64_accept_iff_partial (nd : Bool) (fd : Nat) (hfd : 1 ≤ fd) (range : List (Int × Int)) (hints : Nat) (s : Bytes) (k : Int)
    (hh : (checkHints hints "dec64").isSome = true) (hwf : PartsWF (-(2 ^ 63)) (2 ^ 63 - 1) range) :
    storeDec64With nd fd range hints s = .ok k ↔ DecLexWs nd fd s k ∧ -(2 ^ 63) ≤ k ∧ k ≤ 2 ^ 63 - 1 ∧ InParts range k :=
  storeDec64_accept_iff nd fd hfd range hints s k hh hwf

/-- the two-part decimal64 range of the audit witnesses below is a compiled one -/
theorem auditDecRange_wf : PartsWF (-(2 ^ 63)) (2 ^ 63 - 1) [(-100, 100), (500, 9223372036854775807)] := by
  simp only [PartsWF]; decide

/-- non-vacuity (audit): pinned-tree variant, fd = 1, two-part range, `-.5` (no integer digit) — ⇒ used -/
example : DecLexWs false 1 [45, 46, 53] (-5) ∧ -(2 ^ 63) ≤ (-5 : Int) ∧ (-5 : Int) ≤ 2 ^ 63 - 1 ∧
    InParts [(-100, 100), (500, 9223372036854775807)] (-5) :=
  (dec64_accept_iff_partial false 1 (by decide) [(-100, 100), (500, 9223372036854775807)] Generated.LYD_HINT_DATA [45, 46, 53] (-5)
    (by decide) auditDecRange_wf).mp (by decide)

/-- With the repair of F2 (a digit must follow the sign) the full statement holds. -/
theorem dec64_accept_iff_repaired : Dec64AcceptIff true :=
  fun fd hfd _ range hints s k hh hwf => storeDec64_accept_iff true fd hfd range hints s k hh hwf

/-- non-vacuity (audit): fd = 2, two-part range, `-0.500 ` (surplus zero, trailing blank) = mantissa −50 -/
example : DecLexWs true 2 [45, 48, 46, 53, 48, 48, 32] (-50) ∧ -(2 ^ 63) ≤ (-50 : Int) ∧ (-50 : Int) ≤ 2 ^ 63 - 1 ∧
    InParts [(-100, 100), (500, 9223372036854775807)] (-50) :=
  (dec64_accept_iff_repaired 2 (by decide) (by decide) [(-100, 100), (500, 9223372036854775807)] Generated.LYD_HINT_DATA
    [45, 48, 46, 53, 48, 48, 32] (-50) (by decide) auditDecRange_wf).mp (by decide)

/-- The source at hand, whichever variant it is. -/
theorem dec64_accept_iff_current (fd : Nat) (hfd : 1 ≤ fd) (range : List (Int × Int)) (hints : Nat) (s : Bytes) (k : Int)
    (hh : (checkHints hints "dec64").isSome = true) (hwf : PartsWF (-(2 ^ 63)) (2 ^ 63 - 1) range) :
    storeDec64 fd range hints s = .ok k ↔
      DecLexWs Generated.dec64SignNeedsDigit fd s k ∧ -(2 ^ 63) ≤ k ∧ k ≤ 2 ^ 63 - 1 ∧ InParts range k :=
  storeDec64_accept_iff _ fd hfd range hints s k hh hwf

/-- non-vacuity (audit): the same witness for the parser of the tree at hand (accepted by either variant) -/
example : DecLexWs Generated.dec64SignNeedsDigit 2 [45, 48, 46, 53, 48, 48, 32] (-50) ∧ -(2 ^ 63) ≤ (-50 : Int) ∧
    (-50 : Int) ≤ 2 ^ 63 - 1 ∧ InParts [(-100, 100), (500, 9223372036854775807)] (-50) :=
  (dec64_accept_iff_current 2 (by decide) [(-100, 100), (500, 9223372036854775807)] Generated.LYD_HINT_DATA
    [45, 48, 46, 53, 48, 48, 32] (-50) (by decide) auditDecRange_wf).mp (by decide)

/-- Every RFC lexical value with a representable in-range mantissa is accepted with that mantissa by both variants (the ⇐
    half of the full statement always holds; only ⇒ fails, and only for the forms without an integer digit). -/
theorem dec64_accepts_rfc (nd : Bool) (fd : Nat) (hfd : 1 ≤ fd) (range : List (Int × Int)) (hints : Nat) (s : Bytes) (k : Int)
    (hh : (checkHints hints "dec64").isSome = true) (hwf : PartsWF (-(2 ^ 63)) (2 ^ 63 - 1) range)
    (hl : DecLexWs true fd s k) (hlo : -(2 ^ 63) ≤ k) (hhi : k ≤ 2 ^ 63 - 1) (hin : InParts range k) :
    storeDec64With nd fd range hints s = .ok k :=
  (storeDec64_accept_iff nd fd hfd range hints s k hh hwf).mpr ⟨hl.weaken nd, hlo, hhi, hin⟩

/-- non-vacuity (audit): an RFC lexical value (`DecLexWs true`, obtained from the repaired variant) is accepted by the pinned one -/
example : storeDec64With false 2 [(-100, 100), (500, 9223372036854775807)] Generated.LYD_HINT_DATA [45, 48, 46, 53, 48, 48, 32] = .ok (-50) :=
  have h := (dec64_accept_iff_repaired 2 (by decide) (by decide) [(-100, 100), (500, 9223372036854775807)] Generated.LYD_HINT_DATA
    [45, 48, 46, 53, 48, 48, 32] (-50) (by decide) auditDecRange_wf).mp (by decide)
  dec64_accepts_rfc false 2 (by decide) _ Generated.LYD_HINT_DATA _ (-50) (by decide) auditDecRange_wf h.1 h.2.1 h.2.2.1 h.2.2.2

example : storeDec64With false 1 [] Generated.LYD_HINT_DATA [45, 46, 53] = .ok (-5) ∧
    storeDec64With true 1 [] Generated.LYD_HINT_DATA [45, 46, 53] = .error .BadChar := by decide
example : storeDec64 2 [(-100, 100), (500, 9223372036854775807)] Generated.LYD_HINT_DATA [45, 48, 46, 53, 48, 48, 32] = .ok (-50) := by decide
example : storeDec64 18 [] Generated.LYD_HINT_DATA
    [45, 57, 46, 50, 50, 51, 51, 55, 50, 48, 51, 54, 56, 53, 52, 55, 55, 53, 56, 48, 56] = .ok (-9223372036854775808) := by decide

/-- Canonical idempotence for **every** int64 mantissa and every fraction-digits value: `parse (print n) = n`. -/
theorem dec64_canon_idempotent (nd : Bool) (fd : Nat) (hfd : 1 ≤ fd) (range : List (Int × Int)) (hints : Nat) (n : Int)
    (hh : (checkHints hints "dec64").isSome = true) (hwf : PartsWF (-(2 ^ 63)) (2 ^ 63 - 1) range)
    (hlo : -(2 ^ 63) ≤ n) (hhi : n ≤ 2 ^ 63 - 1) (hin : InParts range n) :
    storeDec64With nd fd range hints (num2str fd n) = .ok n :=
  (storeDec64_accept_iff nd fd hfd range hints _ n hh hwf).mpr ⟨(num2str_lex fd hfd n).weaken nd, hlo, hhi, hin⟩

/-- non-vacuity (audit): fd = 18, INT64_MIN, a two-part range starting at INT64_MIN -/
example : storeDec64With false 18 [(-9223372036854775808, -1), (500, 9223372036854775807)] Generated.LYD_HINT_DATA
    (num2str 18 (-9223372036854775808)) = .ok (-9223372036854775808) :=
  dec64_canon_idempotent false 18 (by decide) _ Generated.LYD_HINT_DATA (-9223372036854775808) (by decide)
    (by simp only [PartsWF]; decide) (by decide) (by decide) (by simp only [InParts]; decide)

/-- … hence for whatever was parsed, the canonical string re-parses to the same value. -/
theorem dec64_canon_of_parsed (nd : Bool) (fd : Nat) (hfd : 1 ≤ fd) (range : List (Int × Int)) (hints : Nat) (s : Bytes) (k : Int)
    (hh : (checkHints hints "dec64").isSome = true) (hwf : PartsWF (-(2 ^ 63)) (2 ^ 63 - 1) range)
    (h : storeDec64With nd fd range hints s = .ok k) : storeDec64With nd fd range hints (num2str fd k) = .ok k := by
  obtain ⟨_, hlo, hhi, hin⟩ := (storeDec64_accept_iff nd fd hfd range hints s k hh hwf).mp h
  exact dec64_canon_idempotent nd fd hfd range hints k hh hwf hlo hhi hin

/-- non-vacuity (audit): the non-canonical `-0.500 ` under a two-part range re-parses from its canonical form `-0.5` -/
example : storeDec64With true 2 [(-100, 100), (500, 9223372036854775807)] Generated.LYD_HINT_DATA (num2str 2 (-50)) = .ok (-50) ∧
    num2str 2 (-50) = [45, 48, 46, 53] :=
  ⟨dec64_canon_of_parsed true 2 (by decide) _ Generated.LYD_HINT_DATA [45, 48, 46, 53, 48, 48, 32] (-50) (by decide) auditDecRange_wf (by decide),
   by decide⟩

example : num2str 3 (-5) = [45, 48, 46, 48, 48, 53] ∧ num2str 1 10 = [49, 46, 48] ∧ num2str 18 (-9223372036854775808) =
    [45, 57, 46, 50, 50, 51, 51, 55, 50, 48, 51, 54, 56, 53, 52, 55, 55, 53, 56, 48, 56] := by decide

/-- `decimal64_num2str` prints the RFC 7950 §9.3.2 canonical form — no `+`, at least one digit on each side of the point,
    no superfluous leading or trailing zeros — and the string is an RFC lexical value denoting the mantissa. -/
theorem dec64_canon_is_rfc_canonical (fd : Nat) (hfd : 1 ≤ fd) (n : Int) :
    IsCanonDec (num2str fd n) ∧ DecLexWs true fd (num2str fd n) n :=
  ⟨num2str_canonical fd hfd n, num2str_lex fd hfd n⟩

/-- non-vacuity (audit): `IsCanonDec` is not trivially true — `1.50` (superfluous trailing zero) is not canonical -/
example : IsCanonDec (num2str 2 (-50)) ∧ ¬ IsCanonDec [49, 46, 53, 48] := by
  refine ⟨(dec64_canon_is_rfc_canonical 2 (by decide) (-50)).1, ?_⟩
  rintro ⟨sg, ip, fr, hs, hsg | hsg, hip, hfr, hdi, hdf, hz, hl⟩ <;> subst hsg
  · match ip, hip with
    | [a], _ =>
      simp at hs
      obtain ⟨_, rfl⟩ := hs
      exact absurd (hl rfl) (by decide)
    | a :: b :: r, _ =>
      simp at hs
      obtain ⟨_, rfl, _⟩ := hs
      simp at hdi
      exact absurd hdi.2.1 (by decide)
  · simp at hs

/-- The two `sprintf`s of `decimal64_num2str` and the NUL fit the `LY_NUMBER_MAXLEN` (generated) buffer for every int64
    mantissa and fraction-digits ≤ 18 — with nothing to spare at `INT64_MIN`. -/
theorem dec64_num2str_fits (fd : Nat) (hfd : fd ≤ 18) (n : Int) (hlo : -(2 ^ 63) ≤ n) (hhi : n ≤ 2 ^ 63 - 1) :
    num2strBufNeed fd n ≤ Generated.LY_NUMBER_MAXLEN :=
  num2str_fits fd hfd n hlo hhi

example : num2strBufNeed 18 (-9223372036854775808) = Generated.LY_NUMBER_MAXLEN := by decide
/-- non-vacuity (audit): the theorem at the tight case fd = 18, INT64_MIN, and at a zero-padded one (fd = 18, mantissa 7) -/
example : num2strBufNeed 18 (-9223372036854775808) ≤ Generated.LY_NUMBER_MAXLEN ∧ num2strBufNeed 18 7 ≤ Generated.LY_NUMBER_MAXLEN :=
  ⟨dec64_num2str_fits 18 (by decide) _ (by decide) (by decide), dec64_num2str_fits 18 (by decide) 7 (by decide) (by decide)⟩

/-- Equality of decimal64 values ⇔ equality of canonical strings (same fraction-digits). -/
theorem dec64_eq_iff_canon_eq (fd : Nat) (hfd : 1 ≤ fd) (a b : Int)
    (ha : -(2 ^ 63) ≤ a ∧ a ≤ 2 ^ 63 - 1) (hb : -(2 ^ 63) ≤ b ∧ b ≤ 2 ^ 63 - 1) : a = b ↔ num2str fd a = num2str fd b := by
  constructor
  · intro h; rw [h]
  · intro h
    have h1 := parseDec64_num2str false fd hfd a ha.1 ha.2
    have h2 := parseDec64_num2str false fd hfd b hb.1 hb.2
    rw [h, h2] at h1
    injection h1 with h1; exact h1.symm

/-- non-vacuity (audit): two different mantissas whose digit strings differ only by a zero (`1.0` / `10.0`) -/
example : num2str 1 10 ≠ num2str 1 100 :=
  fun h => absurd ((dec64_eq_iff_canon_eq 1 (by decide) 10 100 (by decide) (by decide)).mpr h) (by decide)

theorem dec64_lyb_roundtrip (nd : Bool) (fd : Nat) (range : List (Int × Int)) (hints : Nat) (s : Bytes) (v : Int)
    (h : storeDec64With nd fd range hints s = .ok v) : unlybDec64 range (lybDec64 v) = .ok v ∧ (lybDec64 v).length = 8 := by
  obtain ⟨hlo, hhi, hr⟩ := storeDec64_ok_bounds h
  exact ⟨unlybDec64_lybDec64 range v hlo hhi hr, leBytes_length _ _⟩

/-- non-vacuity (audit): a negative mantissa stored from `-.5` (fd 2) under a range -/
example : unlybDec64 [(-100, 100)] (lybDec64 (-50)) = .ok (-50) ∧ (lybDec64 (-50)).length = 8 :=
  dec64_lyb_roundtrip false 2 [(-100, 100)] Generated.LYD_HINT_DATA [45, 46, 53] (-50) (by decide)

/-! ## all modelled types at once (integers, decimal64, boolean, enumeration, bits, string)

`Ty.WF` = the type is a compiled one (ranges ascending and disjoint inside the bounds, fraction-digits ≥ 1, enum names and
values distinct and int32, bit positions ascending with distinct whitespace-free names); `Stored ty v` = some lexical
string is stored as `v` under some hints. -/

/-- Canonical idempotence: storing the canonical string of any stored value returns that value. -/
theorem canon_idempotent (ty : Ty) (hwf : ty.WF) (v : Value) (h : Stored ty v) :
    store ty Generated.LYD_HINT_DATA (canon ty v) = .ok v :=
  store_canon hwf h

/-- Two stored values compare equal (the plug-in `compare` callback) exactly when their canonical strings are equal. -/
theorem eq_iff_canon_eq (ty : Ty) (hwf : ty.WF) (a b : Value) (ha : Stored ty a) (hb : Stored ty b) :
    cmpEq ty a b = true ↔ canon ty a = canon ty b :=
  cmpEq_iff_canon_eq hwf ha hb

/-- The `sort` callback is a total preorder on stored values: antisymmetric and transitive … -/
theorem sort_total_order (ty : Ty) (hwf : ty.WF) (a b c : Value) (ha : Stored ty a) (hb : Stored ty b) (hc : Stored ty c) :
    sort ty a b = -sort ty b a ∧ (sort ty a b ≤ 0 → sort ty b c ≤ 0 → sort ty a c ≤ 0) :=
  ⟨(sort_props hwf ha hb hc).2.1, (sort_props hwf ha hb hc).2.2⟩

/-- … and consistent with equality: it returns 0 exactly for equal values, i.e. for equal canonical strings.  (For the
    derived type date-and-time this is false in the C code — finding F28 — but that plug-in is outside the model.) -/
theorem sort_consistent_with_eq (ty : Ty) (hwf : ty.WF) (a b : Value) (ha : Stored ty a) (hb : Stored ty b) :
    (sort ty a b = 0 ↔ cmpEq ty a b = true) ∧ (sort ty a b = 0 ↔ canon ty a = canon ty b) := by
  have h1 := (sort_props hwf ha hb hb).1
  exact ⟨h1, h1.trans (cmpEq_iff_canon_eq hwf ha hb)⟩

/-- A value printed in LYB and stored back from LYB is the same value. -/
theorem lyb_value_roundtrip (ty : Ty) (hwf : ty.WF) (v : Value) (h : Stored ty v) : unlyb ty (lyb ty v) = .ok v :=
  unlyb_lyb hwf h

-- non-vacuity: a bits type with a gap, a multi-part int8 range, a decimal64
example : (Ty.bits [⟨[97], 0⟩, ⟨[98], 3⟩, ⟨[99], 9⟩]).WF ∧ Stored (.bits [⟨[97], 0⟩, ⟨[98], 3⟩, ⟨[99], 9⟩]) (.bits 513) :=
  ⟨⟨by decide, by decide, by decide⟩, Generated.LYD_HINT_DATA, [99, 32, 32, 97], by decide⟩
example : (Ty.int .int8 [(-128, -100), (5, 20)]).WF ∧ Stored (.int .int8 [(-128, -100), (5, 20)]) (.num 12) :=
  ⟨by simp only [Ty.WF, PartsWF]; decide, Generated.LYD_HINT_DATA, [43, 49, 50], by decide⟩
example : (Ty.dec64 2 []).WF ∧ Stored (.dec64 2 []) (.num (-50)) ∧ canon (.dec64 2 []) (.num (-50)) = [45, 48, 46, 53] :=
  ⟨⟨by decide, trivial⟩, ⟨Generated.LYD_HINT_DATA, [45, 48, 46, 53, 48], by decide⟩, by decide⟩
example : sort (.bits [⟨[97], 0⟩, ⟨[98], 3⟩, ⟨[99], 9⟩]) (.bits 513) (.bits 8) = -1 ∧ lyb (.bits [⟨[97], 0⟩, ⟨[98], 3⟩, ⟨[99], 9⟩]) (.bits 513) = [1, 2] := by
  decide

/-! non-vacuity (audit): the witnesses above cover bits, a signed integer and decimal64.  The remaining kinds the section
header names — enumeration, string (with a length restriction and multi-byte characters), boolean, an unsigned 64-bit
integer — and the five theorems instantiated at the witnesses: -/

/-- non-vacuity (audit): enumeration `x = 0, y = 5, z = -3` (declaration order ≠ value order, a negative value) -/
def auditEnum : Ty := .enum [⟨[120], 0⟩, ⟨[121], 5⟩, ⟨[122], -3⟩]
theorem auditEnum_wf : auditEnum.WF := ⟨by decide, by decide, by decide⟩
theorem auditEnum_stored_x : Stored auditEnum (.enum ⟨[120], 0⟩) := ⟨Generated.LYD_HINT_DATA, [120], by decide⟩
theorem auditEnum_stored_y : Stored auditEnum (.enum ⟨[121], 5⟩) := ⟨Generated.LYD_HINT_DATA, [121], by decide⟩
theorem auditEnum_stored_z : Stored auditEnum (.enum ⟨[122], -3⟩) := ⟨Generated.LYD_HINT_DATA, [122], by decide⟩

/-- non-vacuity (audit): string with `length "2..3 | 5"`; values `aé` (2 characters in 3 bytes) and `€bc` (3 in 5) -/
def auditStr : Ty := .str [(2, 3), (5, 5)]
theorem auditStr_wf : auditStr.WF := trivial
theorem auditStr_stored_1 : Stored auditStr (.str [97, 0xC3, 0xA9]) := ⟨Generated.LYD_HINT_DATA, [97, 0xC3, 0xA9], by decide⟩
theorem auditStr_stored_2 : Stored auditStr (.str [0xE2, 0x82, 0xAC, 98, 99]) :=
  ⟨Generated.LYD_HINT_DATA, [0xE2, 0x82, 0xAC, 98, 99], by decide⟩
/-- … and the length restriction is a real one: the one-character `a` is refused -/
example : store auditStr Generated.LYD_HINT_DATA [97] = .error .Length := by decide

/-- non-vacuity (audit): uint64 with `range "0..5 | 9223372036854775808..max"` (unsigned range branch above 2⁶³) -/
def auditU64 : Ty := .int .uint64 [(0, 5), (2 ^ 63, 2 ^ 64 - 1)]
theorem auditU64_wf : auditU64.WF := by simp only [auditU64, Ty.WF, PartsWF]; decide
theorem auditU64_stored_max : Stored auditU64 (.num (2 ^ 64 - 1)) :=
  ⟨Generated.LYD_HINT_DATA, [49, 56, 52, 52, 54, 55, 52, 52, 48, 55, 51, 55, 48, 57, 53, 53, 49, 54, 49, 53], by decide⟩
theorem auditU64_stored_3 : Stored auditU64 (.num 3) := ⟨Generated.LYD_HINT_DATA, [43, 51], by decide⟩

/-- non-vacuity (audit): the bits type of the example above (positions 0, 3, 9), three stored values -/
def auditBits : Ty := .bits [⟨[97], 0⟩, ⟨[98], 3⟩, ⟨[99], 9⟩]
theorem auditBits_wf : auditBits.WF := ⟨by decide, by decide, by decide⟩
theorem auditBits_stored_513 : Stored auditBits (.bits 513) := ⟨Generated.LYD_HINT_DATA, [99, 32, 32, 97], by decide⟩
theorem auditBits_stored_8 : Stored auditBits (.bits 8) := ⟨Generated.LYD_HINT_DATA, [98], by decide⟩
theorem auditBits_stored_9 : Stored auditBits (.bits 9) := ⟨Generated.LYD_HINT_DATA, [98, 10, 97], by decide⟩
theorem auditBool_stored : Stored .bool (.bool false) := ⟨Generated.LYD_HINT_DATA, strFalse, by decide⟩

/-- non-vacuity (audit): `canon_idempotent` at an enum, a multi-byte string, uint64 max, a bits value, a boolean -/
example : store auditEnum Generated.LYD_HINT_DATA (canon auditEnum (.enum ⟨[122], -3⟩)) = .ok (.enum ⟨[122], -3⟩) :=
  canon_idempotent _ auditEnum_wf _ auditEnum_stored_z
example : store auditStr Generated.LYD_HINT_DATA (canon auditStr (.str [97, 0xC3, 0xA9])) = .ok (.str [97, 0xC3, 0xA9]) :=
  canon_idempotent _ auditStr_wf _ auditStr_stored_1
example : store auditU64 Generated.LYD_HINT_DATA (canon auditU64 (.num (2 ^ 64 - 1))) = .ok (.num (2 ^ 64 - 1)) :=
  canon_idempotent _ auditU64_wf _ auditU64_stored_max
example : store auditBits Generated.LYD_HINT_DATA (canon auditBits (.bits 513)) = .ok (.bits 513) ∧ canon auditBits (.bits 513) = [97, 32, 99] :=
  ⟨canon_idempotent _ auditBits_wf _ auditBits_stored_513, by decide⟩
example : store .bool Generated.LYD_HINT_DATA (canon .bool (.bool false)) = .ok (.bool false) :=
  canon_idempotent .bool trivial _ auditBool_stored

/-- non-vacuity (audit): `eq_iff_canon_eq`, ⇒ refuting equality of two different enums, ⇐ on equal bits values -/
example : cmpEq auditEnum (.enum ⟨[122], -3⟩) (.enum ⟨[121], 5⟩) ≠ true ∧ cmpEq auditBits (.bits 513) (.bits 513) = true :=
  ⟨fun h => absurd ((eq_iff_canon_eq _ auditEnum_wf _ _ auditEnum_stored_z auditEnum_stored_y).mp h) (by decide),
   (eq_iff_canon_eq _ auditBits_wf _ _ auditBits_stored_513 auditBits_stored_513).mpr rfl⟩

/-- non-vacuity (audit): `sort_total_order` — transitivity over three different enums (`y`, `x`, `z`: descending values),
    antisymmetry on bits, uint64 (3 vs. 2⁶⁴−1) and multi-byte strings -/
example : sort auditEnum (.enum ⟨[121], 5⟩) (.enum ⟨[122], -3⟩) ≤ 0 :=
  (sort_total_order _ auditEnum_wf _ _ _ auditEnum_stored_y auditEnum_stored_x auditEnum_stored_z).2 (by decide) (by decide)
example : sort auditBits (.bits 8) (.bits 513) = -sort auditBits (.bits 513) (.bits 8) ∧ sort auditBits (.bits 513) (.bits 8) = -1 :=
  ⟨(sort_total_order _ auditBits_wf _ _ (.bits 9) auditBits_stored_8 auditBits_stored_513 auditBits_stored_9).1, by decide⟩
example : sort auditU64 (.num 3) (.num (2 ^ 64 - 1)) = -sort auditU64 (.num (2 ^ 64 - 1)) (.num 3) ∧
    sort auditU64 (.num 3) (.num (2 ^ 64 - 1)) = -1 :=
  ⟨(sort_total_order _ auditU64_wf _ _ (.num 3) auditU64_stored_3 auditU64_stored_max auditU64_stored_3).1, by decide⟩
example : sort auditStr (.str [97, 0xC3, 0xA9]) (.str [0xE2, 0x82, 0xAC, 98, 99]) =
    -sort auditStr (.str [0xE2, 0x82, 0xAC, 98, 99]) (.str [97, 0xC3, 0xA9]) :=
  (sort_total_order _ auditStr_wf _ _ (.str [97, 0xC3, 0xA9]) auditStr_stored_1 auditStr_stored_2 auditStr_stored_1).1

/-- non-vacuity (audit): `sort_consistent_with_eq` — non-zero on two different enums (⇒ of the second ⇔), zero on equal strings (⇐) -/
example : sort auditEnum (.enum ⟨[122], -3⟩) (.enum ⟨[121], 5⟩) ≠ 0 ∧ sort auditStr (.str [97, 0xC3, 0xA9]) (.str [97, 0xC3, 0xA9]) = 0 :=
  ⟨fun h => absurd ((sort_consistent_with_eq _ auditEnum_wf _ _ auditEnum_stored_z auditEnum_stored_y).2.mp h) (by decide),
   (sort_consistent_with_eq _ auditStr_wf _ _ auditStr_stored_1 auditStr_stored_1).2.mpr rfl⟩

/-- non-vacuity (audit): `lyb_value_roundtrip` at a negative enum value, uint64 max, a bits value, a multi-byte string -/
example : unlyb auditEnum (lyb auditEnum (.enum ⟨[122], -3⟩)) = .ok (.enum ⟨[122], -3⟩) ∧
    lyb auditEnum (.enum ⟨[122], -3⟩) = [0xfd, 0xff, 0xff, 0xff] :=
  ⟨lyb_value_roundtrip _ auditEnum_wf _ auditEnum_stored_z, by decide⟩
example : unlyb auditU64 (lyb auditU64 (.num (2 ^ 64 - 1))) = .ok (.num (2 ^ 64 - 1)) ∧
    lyb auditU64 (.num (2 ^ 64 - 1)) = [255, 255, 255, 255, 255, 255, 255, 255] :=
  ⟨lyb_value_roundtrip _ auditU64_wf _ auditU64_stored_max, by decide⟩
example : unlyb auditBits (lyb auditBits (.bits 513)) = .ok (.bits 513) := lyb_value_roundtrip _ auditBits_wf _ auditBits_stored_513
example : unlyb auditStr (lyb auditStr (.str [0xE2, 0x82, 0xAC, 98, 99])) = .ok (.str [0xE2, 0x82, 0xAC, 98, 99]) :=
  lyb_value_roundtrip _ auditStr_wf _ auditStr_stored_2

/-! ## bits -/

/-- The canonical string of a bits value lists exactly the set bits in position (= declaration) order, whatever the
    order and spacing in the input; inputs naming the same set of bits are stored as the same bitmap. -/
theorem bits_canonical_order (items : List BitItem) (hwf : BitsWF items) (hints : Nat) (s : Bytes) (m : Nat)
    (h : storeBits items hints s = .ok m) :
    canonBits items m = joinSp ((items.filter (fun it => m.testBit it.pos)).map (·.name)) ∧
    (∀ hints' s' m', storeBits items hints' s' = .ok m' → (∀ tok, tok ∈ tokens s ↔ tok ∈ tokens s') → m' = m) := by
  refine ⟨?_, ?_⟩
  · unfold canonBits; rw [bitmap2items_eq_filter hwf]
  · intro hints' s' m' h' hsame
    exact (storeBits_order_independent h h' hsame).symm

example : storeBits [⟨[97], 0⟩, ⟨[98], 3⟩, ⟨[99], 9⟩] Generated.LYD_HINT_DATA [99, 32, 32, 97] = .ok 513 ∧
    canonBits [⟨[97], 0⟩, ⟨[98], 3⟩, ⟨[99], 9⟩] 513 = [97, 32, 99] ∧
    storeBits [⟨[97], 0⟩, ⟨[98], 3⟩, ⟨[99], 9⟩] Generated.LYD_HINT_DATA [97, 32, 97] = .error .DupBit := by decide
/-- non-vacuity (audit): the theorem at the three-bit type with a gap; `c  a` (data hints) and `<TAB>a<LF>c` (JSON-string
    hint) name the same bits in different order and spacing and give the same bitmap -/
example : canonBits [⟨[97], 0⟩, ⟨[98], 3⟩, ⟨[99], 9⟩] 513 =
      joinSp (([⟨[97], 0⟩, ⟨[98], 3⟩, ⟨[99], 9⟩] : List BitItem).filter (fun it => (513 : Nat).testBit it.pos) |>.map (·.name)) ∧
    (∀ m', storeBits [⟨[97], 0⟩, ⟨[98], 3⟩, ⟨[99], 9⟩] Generated.LYD_VALHINT_STRING [9, 97, 10, 99] = .ok m' → m' = 513) :=
  have h := bits_canonical_order [⟨[97], 0⟩, ⟨[98], 3⟩, ⟨[99], 9⟩] ⟨by decide, by decide, by decide⟩ Generated.LYD_HINT_DATA
    [99, 32, 32, 97] 513 (by decide)
  ⟨h.1, fun m' hm => h.2 Generated.LYD_VALHINT_STRING [9, 97, 10, 99] m' hm (by
    intro tok
    rw [show tokens [99, 32, 32, 97] = [[99], [97]] by decide, show tokens [9, 97, 10, 99] = [[97], [99]] by decide]
    simp [or_comm])⟩

/-! ## ordering, per callback -/

/-- The enumeration sort callback is a total order consistent with equality of values, but it is the *descending* one
    (`lyplg_type_sort_enum` returns −1 for the greater value): a system-ordered leaf-list lists enums by falling value. -/
theorem enum_sort_is_descending (a b : EnumItem) :
    sortEnum a b = cmpInt b.value a.value ∧ (sortEnum a b = 0 ↔ a.value = b.value) := by
  unfold sortEnum cmpInt
  refine ⟨?_, ?_⟩ <;> split <;> (try split) <;> (try split) <;> (try split) <;> omega

/-- non-vacuity (audit): no hypotheses; the greater value sorts first -/
example : sortEnum ⟨[121], 5⟩ ⟨[122], -3⟩ = -1 := by decide

/-! ## boolean, enumeration -/

theorem bool_accept_iff (hints : Nat) (s : Bytes) (b : Bool) (hh : (checkHints hints "bool").isSome = true) :
    storeBool hints s = .ok b ↔ s = canonBool b := by
  unfold storeBool
  cases hc : checkHints hints "bool" with
  | none => rw [hc] at hh; cases hh
  | some _ =>
    simp only
    by_cases h1 : s = strTrue
    · subst h1; cases b <;> simp [canonBool] <;> decide
    · by_cases h2 : s = strFalse
      · subst h2; cases b <;> simp [canonBool] <;> decide
      · have e1 : (s == strTrue) = false := by simpa using h1
        have e2 : (s == strFalse) = false := by simpa using h2
        simp only [e1, e2, Bool.false_eq_true, if_false, reduceCtorEq, false_iff]
        cases b <;> simp [canonBool] <;> assumption

/-- non-vacuity (audit): the data hints offer the boolean hint; `true` is accepted (⇐), `True` is not (⇒, contrapositive) -/
example : storeBool Generated.LYD_HINT_DATA strTrue = .ok true ∧ ¬ storeBool Generated.LYD_HINT_DATA [84, 114, 117, 101] = .ok true :=
  ⟨(bool_accept_iff Generated.LYD_HINT_DATA strTrue true (by decide)).mpr rfl,
   fun h => absurd ((bool_accept_iff Generated.LYD_HINT_DATA [84, 114, 117, 101] true (by decide)).mp h) (by decide)⟩

theorem bool_canon_lyb (b : Bool) (hints : Nat) (hh : (checkHints hints "bool").isSome = true) :
    storeBool hints (canonBool b) = .ok b ∧ unlybBool (lybBool b) = .ok b :=
  ⟨storeBool_canon hints b hh, unlybBool_lybBool b⟩

/-- non-vacuity (audit): under the bare JSON boolean hint -/
example : storeBool Generated.LYD_VALHINT_BOOLEAN (canonBool false) = .ok false ∧ unlybBool (lybBool false) = .ok false :=
  bool_canon_lyb false Generated.LYD_VALHINT_BOOLEAN (by decide)

/-- An enumeration value is accepted exactly when it is the name of an item; it round-trips through its canonical
    string (the name) and through LYB (the int32 value). -/
theorem enum_accept_iff (items : List EnumItem) (hints : Nat) (s : Bytes) (it : EnumItem)
    (hwf : EnumWF items) (hh : (checkHints hints "enum").isSome = true) :
    (storeEnum items hints s = .ok it ↔ it ∈ items ∧ it.name = s) ∧
    (it ∈ items → storeEnum items hints it.name = .ok it ∧ unlybEnum items (lybEnum it) = .ok it) := by
  refine ⟨storeEnum_accept_iff items hints s it hwf hh, fun hm => ⟨?_, unlybEnum_lybEnum items it hwf hm⟩⟩
  exact (storeEnum_accept_iff items hints it.name it hwf hh).mpr ⟨hm, rfl⟩

example : storeEnum [⟨[120], 0⟩, ⟨[121], 5⟩, ⟨[122], -3⟩] Generated.LYD_HINT_DATA [122] = .ok ⟨[122], -3⟩ ∧
    lybEnum ⟨[122], -3⟩ = [0xfd, 0xff, 0xff, 0xff] := by decide
/-- non-vacuity (audit): the theorem at `x = 0, y = 5, z = -3` (`EnumWF` met), the item with the negative value -/
example : storeEnum [⟨[120], 0⟩, ⟨[121], 5⟩, ⟨[122], -3⟩] Generated.LYD_HINT_DATA [122] = .ok ⟨[122], -3⟩ ∧
    unlybEnum [⟨[120], 0⟩, ⟨[121], 5⟩, ⟨[122], -3⟩] (lybEnum ⟨[122], -3⟩) = .ok ⟨[122], -3⟩ :=
  have h := enum_accept_iff [⟨[120], 0⟩, ⟨[121], 5⟩, ⟨[122], -3⟩] Generated.LYD_HINT_DATA [122] ⟨[122], -3⟩
    ⟨by decide, by decide, by decide⟩ (by decide)
  ⟨h.1.mpr ⟨by decide, rfl⟩, (h.2 (by decide)).2⟩

/-! ## strings: the value API and the lexers validate characters with different functions -/

/-- FULL STATEMENT (false, findings F22 and F11): `ly_checkutf8` (string store: `lyd_new_term`, `lyd_value_validate`,
    path predicates, LYB) and `ly_getutf8` (XML, JSON and YANG lexers) accept the same first character, with the same
    length, of every C string — which is what "the same verdict from every source" needs for the type `string`. -/
def Utf8ValidatorsAgree : Prop :=
  ∀ (inp : Bytes) (inLen : Nat), (∀ i, inLen ≤ i → Utf8.rd inp i = 0) → 0 < inLen →
    Utf8.checkUtf8 inp inLen = (Utf8.getUtf8 inp).map (fun x => x.snd)

/-- F22: `EF BF BE` (U+FFFE) passes `ly_checkutf8` and is refused by `ly_getutf8`. -/
theorem utf8_validators_agree_fails : ¬ Utf8ValidatorsAgree := by
  intro h
  have := h [0xEF, 0xBF, 0xBE] 3 (by intro i hi; match i, hi with | i + 3, _ => rfl) (by decide)
  revert this; decide

/-- The common part: on every sequence whose lead byte is below `0xF0` — ASCII, 2- and 3-byte forms, stray continuation
    bytes, truncated sequences — the validators agree on verdict and length, except for `EF BF BE` / `EF BF BF`.
    (4-byte forms are the territory of F11, component `text`.) -/
theorem utf8_validators_agree_partial (inp : Bytes) (inLen : Nat) (hz : ∀ i, inLen ≤ i → Utf8.rd inp i = 0) (hne : 0 < inLen)
    (hlead : (Utf8.rd inp 0).toNat < 240)
    (hnc : ¬ ((Utf8.rd inp 0).toNat = 0xEF ∧ (Utf8.rd inp 1).toNat = 0xBF ∧ 0xBE ≤ (Utf8.rd inp 2).toNat)) :
    Utf8.checkUtf8 inp inLen = (Utf8.getUtf8 inp).map (fun x => x.snd) :=
  validators_agree_upto3 inp inLen hz hne hlead hnc

example : storeStr [] Generated.LYD_HINT_DATA [0xEF, 0xBF, 0xBE] = .ok [0xEF, 0xBF, 0xBE] ∧ Utf8.isYangText [0xEF, 0xBF, 0xBE] = false ∧
    Utf8.checkUtf8 [0xE2, 0x82, 0xAC] 3 = some 3 ∧ Utf8.getUtf8 [0xE2, 0x82, 0xAC] = some (0x20AC, 3) := by decide
/-- non-vacuity (audit): `€A` — a 3-byte character followed by another one; all four hypotheses met, both accept with length 3 -/
example : Utf8.checkUtf8 [0xE2, 0x82, 0xAC, 0x41] 4 = (Utf8.getUtf8 [0xE2, 0x82, 0xAC, 0x41]).map (fun x => x.snd) ∧
    Utf8.checkUtf8 [0xE2, 0x82, 0xAC, 0x41] 4 = some 3 :=
  ⟨utf8_validators_agree_partial [0xE2, 0x82, 0xAC, 0x41] 4 (by intro i hi; match i, hi with | i + 4, _ => rfl) (by decide) (by decide) (by decide),
   by decide⟩
/-- non-vacuity (audit): a rejected sequence — a 3-byte form truncated by the end of the string: both refuse -/
example : Utf8.checkUtf8 [0xE2, 0x82] 2 = (Utf8.getUtf8 [0xE2, 0x82]).map (fun x => x.snd) ∧ Utf8.checkUtf8 [0xE2, 0x82] 2 = none :=
  ⟨utf8_validators_agree_partial [0xE2, 0x82] 2 (by intro i hi; match i, hi with | i + 2, _ => rfl) (by decide) (by decide) (by decide),
   by decide⟩

end LyModel.Props.C03
