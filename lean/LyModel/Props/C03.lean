import LyModel.Val.Model
namespace LyModel.Props.C03
theorem placeholder : True := trivial
end LyModel.Props.C03
