import LyModel.Merge.LemmasKeep2
import LyModel.Merge.LemmasDestruct
import LyModel.Merge.LemmasDupSibs
import LyModel.Merge.LemmasCanon
import LyModel.Merge.LemmasParents
import LyModel.Merge.LemmasFlags2
import LyModel.Merge.LemmasDI11
/-!
# C14 — merging and duplicating trees preserve content (property theorems)

Model: `LyModel/Merge/Model.lean` (`merge` = `lyd_merge_siblings`, `dupNode` = `lyd_dup_r`, …), on the shared tree base.
All statements are for **all** S1 schemas `S`, **all** option sets and **all** trees satisfying the decidable
well-formedness predicate `Merge.wfForest` (`LyModel/Merge/Wf.lean`: node kinds and data parents, keys first, canonical
sibling order, unique instances, default flags consistent downwards) — the driver evaluates that predicate on every
generated tree (op `wf`).  Helper lemmas live in `LyModel/Merge/Lemmas*.lean`.

| theorem                         | statement                                                                    | trees          |
|---------------------------------|------------------------------------------------------------------------------|----------------|
| `merge_into_empty` (+`_eq_dup`) | merge into the empty target = copy of the source = `lyd_dup_siblings` + NEW   | all wf         |
| `merge_destruct_eq_copy`        | moving (`LYD_MERGE_DESTRUCT`) and copying give the same tree; `_fails` without consistent flags | all (flags ok) |
| `merge_idempotent` (`_partial`: the earlier fragment) | merging the same source again changes nothing              | all wf (key-less list / state leaf-list instances included) |
| `merge_contains_source`         | every source node is found by its path, explicit leaves with the source's value | source without key-less list / state leaf-list instances |
| `merge_contains_source_pos`     | … by positions: the `k`-th source instance of a class of equal instances is the `k`-th of the result | all wf |
| `merge_keeps_untouched_target`  | a target node whose path the source does not contain is unchanged            | source without such instances, path without them |
| `merge_keeps_matched_term` (audit) | … also when the source holds there a leaf-list instance of that value or a default leaf without `LYD_MERGE_DEFAULTS` | same |
| `merge_keeps_untouched_target_pos` | … by positions                                                             | all wf         |
| `merge_result_canonical`, `merge_result_canon_fixpoint`, `merge_result_wf` | the result is well-formed again (shape, order, uniqueness, flags) | all wf |
| `dup_equal_recursive`, `_content`, `_with_flags`, `dup_no_meta`, `dup_shallow` | a duplicate is the original relabelled as the options say | all (flags ok) |
| `dup_with_parents`              | the chain of ancestors with their keys and only the path to the node         | all            |
| `dup_siblings_equal`, `dup_siblings_full` | `lyd_dup_siblings` = the duplicates in order, whatever insert order is used | all wf |

The *independence* half of C14 (no shared mutable state) is aliasing, which a pure model cannot exhibit: it is a
sanitised law check on the implementation (`tools/checks/c14.py`, ops `indep` / `dlaw`), not a theorem.
-/
namespace LyModel.Props.C14
open LyModel LyModel.Tree LyModel.Merge

/-! ## a small schema and two trees for the non-vacuity examples

`container c { leaf a {default "d";} leaf-list ll {type uint8;} list l {key k; leaf k; leaf v;} leaf-list ul
{ordered-by user;} }` -/
def exS : Schema := { modName := "exm", nodes := [
  { depth := 0, kind := .container, name := "c" },
  { depth := 1, kind := .leaf, name := "a", dflts := [[100]] },
  { depth := 1, kind := .leaflist, name := "ll", ty := .uint8 },
  { depth := 1, kind := .list, name := "l", nkeys := 1 },
  { depth := 2, kind := .leaf, name := "k", iskey := true },
  { depth := 2, kind := .leaf, name := "v" },
  { depth := 1, kind := .leaflist, name := "ul", userord := true } ] }

/-- target: `a` implicit default, `ll = [1, 2]`, `l[k=a]/v = x`, `ul = [z, y]` -/
def exT : List DNode := [.inner 0 {} [] [.term 1 { dflt := true } [] [100], .term 2 {} [] [49], .term 2 {} [] [50],
  .inner 3 {} [] [.term 4 {} [] [97], .term 5 {} [] [120]], .term 6 {} [] [122], .term 6 {} [] [121]]]

/-- source: `a = e`, `ll = [1, 3]`, `l[k=a]/v = y`, `l[k=b]`, `ul = [x]` -/
def exSrc : List DNode := [.inner 0 {} [] [.term 1 {} [] [101], .term 2 {} [] [49], .term 2 {} [] [51],
  .inner 3 {} [] [.term 4 {} [] [97], .term 5 {} [] [121]], .inner 3 {} [] [.term 4 {} [] [98]], .term 6 {} [] [120]]]

/-! ### audit witness: nested lists, a two-key list, a choice with a non-presence container in a case, a numerically sorted leaf-list

`list o { key "k1 k2"; leaf k1; leaf k2 { type uint8; } list i { key j; leaf j; leaf w; } choice ch { case a { leaf x; } case b {
container y { leaf z { default "d"; } } } } }  leaf-list e { type int8; }` -/
def auS : Schema := { modName := "exa", nodes := [
  { depth := 0, kind := .list, name := "o", nkeys := 2 },
  { depth := 1, kind := .leaf, name := "k1", iskey := true },
  { depth := 1, kind := .leaf, name := "k2", iskey := true, ty := .uint8 },
  { depth := 1, kind := .list, name := "i", nkeys := 1 },
  { depth := 2, kind := .leaf, name := "j", iskey := true },
  { depth := 2, kind := .leaf, name := "w" },
  { depth := 1, kind := .choice, name := "ch" },
  { depth := 2, kind := .case, name := "a" },
  { depth := 3, kind := .leaf, name := "x" },
  { depth := 2, kind := .case, name := "b" },
  { depth := 3, kind := .container, name := "y" },
  { depth := 4, kind := .leaf, name := "z", dflts := [[100]] },
  { depth := 0, kind := .leaflist, name := "e", ty := .int8 }] }

def auIn (j : UInt8) (w : List DNode) : DNode := .inner 3 {} [] (.term 4 {} [] [j] :: w)
def auOut (k1 k2 : UInt8) (rest : List DNode) : DNode := .inner 0 {} [] (.term 1 {} [] [k1] :: .term 2 {} [] [k2] :: rest)

/-- first target entry: `o[a,1] { i[j=p] { w = 1 }, i[j=q], x = 1 }` -/
def auT1 : DNode := auOut 97 49 [auIn 112 [.term 5 {} [] [49]], auIn 113 [], .term 8 {} [] [49]]
/-- target: `auT1`, `o[a,2] { y (default) { z (default) } }`, `e = [-5, 3]` -/
def auT : List DNode := [auT1, auOut 97 50 [.inner 10 { dflt := true } [] [.term 11 { dflt := true } [] [100]]],
  .term 12 {} [] [45, 53], .term 12 {} [] [51]]
/-- first source entry: `o[a,1] { i[j=q] { w = 2 }, i[j=r], y { z = e } }` -/
def auSrc1 : DNode := auOut 97 49 [auIn 113 [.term 5 {} [] [50]], auIn 114 [], .inner 10 {} [] [.term 11 {} [] [101]]]
/-- source: `auSrc1`, `o[a,2] { y { z = f } }`, `o[b,1]`, `e = [3, 10]` -/
def auSrc : List DNode := [auSrc1, auOut 97 50 [.inner 10 {} [] [.term 11 {} [] [102]]], auOut 98 49 [],
  .term 12 {} [] [51], .term 12 {} [] [49, 48]]

/-- non-vacuity (audit): both trees satisfy the hypotheses used throughout this file (`wfForest`, `noDupInstL`, `flagsOkL`); the merge changes
the target (new inner-list entries, a new two-key entry, an explicit `z` below the default container, `e = 10` sorted after `3`) -/
example : wfForest auS auT = true ∧ wfForest auS auSrc = true ∧ noDupInstL auS auSrc = true ∧ flagsOkL auSrc = true ∧
    beqL (merge auS {} auT auSrc) auT = false ∧ (merge auS {} auT auSrc).length = 6 := by decide

/-! ## merge into the empty target -/

/-- **merge_into_empty**: merging into an empty target yields a copy of the source — the source itself, every node
marked `LYD_NEW` unless `LYD_MERGE_WITH_FLAGS` (`Merge.cp`); default nodes of the source included, in the source's
order, duplicate instances of key-less lists / state leaf-lists all kept. -/
theorem merge_into_empty (S : Schema) (o : MergeOpts) (s : List DNode) (h : wfForest S s = true) :
    merge S o [] s = s.map (cp o) := by
  obtain ⟨_, h2, _, h4, _⟩ := wfSibs_parts h
  have := mergeKids_empty_aux S o [] s [] { cur := [] } ⟨rfl, by simp⟩ (by simp) h2 h4
  simpa [merge] using this

/-- with `LYD_MERGE_WITH_FLAGS` the copy is exact -/
theorem merge_into_empty_with_flags (S : Schema) (o : MergeOpts) (s : List DNode) (h : wfForest S s = true)
    (hw : o.withFlags = true) : merge S o [] s = s := by
  rw [merge_into_empty S o s h]
  have : cp o = id := by
    funext x
    simp [cp, cpFlags, hw, relabel_id]
  simp [this]

example : wfForest exS exSrc = true ∧ beqL (merge exS {} [] exSrc) exSrc = false ∧
    beqL (merge exS { withFlags := true } [] exSrc) exSrc = true := by decide

/-- non-vacuity (audit): both theorems instantiated at the nested-list source `auSrc`, the first also at the source `exDSrc` (below) with
repeated key-less list / state leaf-list instances -/
example : merge auS {} [] auSrc = auSrc.map (cp {}) ∧ merge auS { withFlags := true, defaults := true } [] auSrc = auSrc :=
  ⟨merge_into_empty auS {} auSrc (by decide), merge_into_empty_with_flags auS _ auSrc (by decide) rfl⟩

/-! ## consuming merge = copying merge -/

/-- **merge_destruct_eq_copy**: `LYD_MERGE_DESTRUCT` *moves* the unmatched source subtrees into the target, the plain
merge links copies made by `lyd_dup_single(RECURSIVE | WITH_FLAGS)` — the model has both paths (`insertSrc`).  Same result
for every target, provided the source's default flags are consistent downwards (which `wfForest` includes): then the copy
is the original (`dupNode_full`).  (The model links a moved node exactly as a copied one; where the C's `lyds` pool makes
it differ is finding F160, a defect outside the model.) -/
theorem merge_destruct_eq_copy (S : Schema) (o : MergeOpts) (t s : List DNode) (h : flagsOkL s = true) :
    merge S { o with destruct := true } t s = merge S { o with destruct := false } t s := by
  simp only [merge]
  rw [mergeKids_congr S { o with destruct := true } { o with destruct := false } rfl rfl [] false s _ h]

example : flagsOkL exSrc = true ∧ beqL (merge exS { destruct := true } exT exSrc) exT = false := by decide

/-- non-vacuity (audit): the theorem instantiated at the nested-list trees (non-empty target, source subtrees both matched and linked) -/
example : merge auS { destruct := true } auT auSrc = merge auS { destruct := false } auT auSrc :=
  merge_destruct_eq_copy auS {} auT auSrc (by decide)

/-- … and without that hypothesis it is false: an inner source node flagged default above an explicit child (a flag
pattern libyang's own API never produces) is normalised by `lyd_dup` (`lyd_insert_node` → `lyd_np_cont_dflt_del`) but
moved as it is. -/
theorem merge_destruct_eq_copy_fails :
    ¬ ∀ (S : Schema) (o : MergeOpts) (t s : List DNode),
        merge S { o with destruct := true } t s = merge S { o with destruct := false } t s := by
  intro h
  have := h exS {} [] [.inner 0 { dflt := true } [] [.term 1 {} [] [101]]]
  exact ne_of_beqL_false (by decide) this

/-! ## idempotence -/

/-- **merge_idempotent**, the earlier fragment (the source has no instance of a key-less list / state leaf-list) with
its own, cache-free proof; the full statement is `merge_idempotent` below.  Merging the same source again changes
nothing — not a flag, not the order.  Any well-formed target (it may contain such instances). -/
theorem merge_idempotent_partial (S : Schema) (o : MergeOpts) (t s : List DNode) (ht : wfForest S t = true)
    (hs : wfForest S s = true) (hd : noDupInstL S s = true) : merge S o (merge S o t s) s = merge S o t s := by
  obtain ⟨ht1, _⟩ := wfSibs_parts ht
  obtain ⟨_, hs2, _⟩ := wfSibs_parts hs
  have habs := mergeKids_absorbs S o s [] false { cur := t } (srcOk_of_wf hs hd) hs2 ht1
  have := absorbedK_noop S o s [] false { cur := (mergeKids S o [] false s { cur := t }).cur } hd habs
  simp only [merge]
  rw [this]

example : wfForest exS exT = true ∧ wfForest exS exSrc = true ∧ noDupInstL exS exSrc = true ∧
    beqL (merge exS {} exT exSrc) exT = false := by decide

/-- non-vacuity (audit): the theorem instantiated at the nested-list trees, under `LYD_MERGE_DEFAULTS` too -/
example : merge auS {} (merge auS {} auT auSrc) auSrc = merge auS {} auT auSrc ∧
    merge auS { defaults := true } (merge auS { defaults := true } auT auSrc) auSrc = merge auS { defaults := true } auT auSrc :=
  ⟨merge_idempotent_partial auS {} auT auSrc (by decide) (by decide) (by decide),
   merge_idempotent_partial auS _ auT auSrc (by decide) (by decide) (by decide)⟩

/-- a schema with a state leaf-list and a key-less list, and two trees with repeated instances:
`leaf-list sl {config false;}  list kl {config false; leaf a;}` -/
def exDS : Schema := { modName := "exd", nodes := [
  { depth := 0, kind := .leaflist, name := "sl", config := false, userord := true, ty := .uint8 },
  { depth := 0, kind := .list, name := "kl", nkeys := 0, config := false, userord := true },
  { depth := 1, kind := .leaf, name := "a", config := false } ] }

/-- target: `sl = [1, 2]`, one `kl {a = x}` -/
def exDT : List DNode := [.term 0 {} [] [49], .term 0 {} [] [50], .inner 1 {} [] [.term 2 {} [] [120]]]

/-- source: `sl = [2, 1, 1]`, `kl {a = x}` twice, `kl {a = y}` -/
def exDSrc : List DNode := [.term 0 {} [] [50], .term 0 {} [] [49], .term 0 {} [] [49],
  .inner 1 {} [] [.term 2 {} [] [120]], .inner 1 {} [] [.term 2 {} [] [120]], .inner 1 {} [] [.term 2 {} [] [121]]]

/-- **merge_idempotent** (full statement): merging the same source a second time changes nothing — not a value, not a
flag, not the order, not the number of instances — for *every* well-formed target and source, instances of key-less lists
and state leaf-lists included.  Those are matched one to one through the duplicate-instance cache (`lyd_dup_inst_next`):
after the first merge the `k`-th source instance of a class of equal instances has been matched with — or linked as — the
`k`-th target instance of that class (`LemmasDI8`: the cache entry of the class is `(min P N, N)` after `P` processed source
instances, the target then holds `max P N`), a new instance is linked behind all instances equal to it
(`insertNode_after_class`), and a matched instance keeps its content (`sub_strip`); so the second merge, starting with an
empty cache, hands out exactly these nodes again (`absDK_noop`) and finds nothing to change below them. -/
theorem merge_idempotent (S : Schema) (o : MergeOpts) (t s : List DNode) (ht : wfForest S t = true)
    (hs : wfForest S s = true) : merge S o (merge S o t s) s = merge S o t s := by
  have habs := merge_absorbs S o t s ht hs
  obtain ⟨c', hnoop⟩ := absDK_noop S o s [] false { cur := (mergeKids S o [] false s { cur := t }).cur } []
    (cacheOK_nil S _) habs
  simp only [merge]
  rw [hnoop]

/-- non-vacuity: repeated instances on both sides, the merge adds one `sl = 1`, one `kl {a = x}` and `kl {a = y}` -/
example : wfForest exDS exDT = true ∧ wfForest exDS exDSrc = true ∧ noDupInstL exDS exDSrc = false ∧
    beqL (merge exDS {} exDT exDSrc) exDT = false ∧ (merge exDS {} exDT exDSrc).length = 6 := by decide

/-- non-vacuity (audit): the theorem instantiated at the duplicate-instance trees above and at the nested-list trees with the roles of
target and source exchanged -/
example : merge exDS {} (merge exDS {} exDT exDSrc) exDSrc = merge exDS {} exDT exDSrc ∧
    merge auS {} (merge auS {} auSrc auT) auT = merge auS {} auSrc auT :=
  ⟨merge_idempotent exDS {} exDT exDSrc (by decide) (by decide), merge_idempotent auS {} auSrc auT (by decide) (by decide)⟩


/-! ## the result contains the source -/

-- AUDIT (resolved): docstrings of `merge_contains_source*` say what the conclusion gives for a default leaf (a node, no value); the value half is `merge_keeps_matched_term`.
/-- **merge_contains_source**: take any node `x` of the source, addressed by the chain of source nodes leading to it
(`IsChain`: a top-level node, one of its non-key children, …).  Following the *same path of (schema node, keys / value)*
in the result (`descend`) finds a node `n` of `x`'s schema node and identity; if `x` is a leaf that is explicit — or any
leaf under `LYD_MERGE_DEFAULTS` — `n` has `x`'s value and default flag (and, with `LYD_MERGE_WITH_FLAGS`, all its flags).
For a default leaf `x` of the source without `LYD_MERGE_DEFAULTS` (the guard `isKind leaf && (defaults || !x.dflt)` is false) this
theorem gives a node `n` of `x`'s schema node and says NOTHING about its value or flags (nor for inner nodes and leaf-list
instances beyond `matchP`; for the latter see `merge_contains_leaflist_value`).  That such a leaf carries the target's value if the
target had one is a separate theorem, stated for chains of TARGET nodes: `merge_keeps_matched_term` below (the target node is found
unchanged when the source holds a default leaf there and `LYD_MERGE_DEFAULTS` is not given).
Fragment: source without key-less list / state leaf-list instances (those have no identity; `merge_contains_source_pos`
addresses them by position). -/
theorem merge_contains_source (S : Schema) (o : MergeOpts) (t s : List DNode) (ht : wfForest S t = true)
    (hs : wfForest S s = true) (hd : noDupInstL S s = true) (chain : List DNode) (x : DNode)
    (hc : IsChain S chain false s) (hx : chain.getLast? = some x) :
    ∃ n, descend S chain (merge S o t s) = some n ∧ n.sid = x.sid ∧ matchP S x n = true ∧
      (x.isTerm = true → (S.isKind x.sid .leaf && (o.defaults || !x.flags.dflt)) = true →
        n.val = x.val ∧ n.flags.dflt = x.flags.dflt ∧ (o.withFlags = true → n.flags = x.flags)) := by
  obtain ⟨ht1, _⟩ := wfSibs_parts ht
  obtain ⟨_, hs2, _⟩ := wfSibs_parts hs
  have habs := mergeKids_absorbs S o s [] false { cur := t } (srcOk_of_wf hs hd) hs2 ht1
  obtain ⟨n, h1, h2, h3⟩ := descend_of_absorbed S o chain false s _ x habs hc hx
  refine ⟨n, h1, matchP_sid h2, h2, ?_⟩
  intro hterm hcond
  cases x with
  | inner => simp [DNode.isTerm] at hterm
  | term xs xf xm xv =>
    simp only [absΦ] at h3
    have e : n.sid = xs := matchP_sid h2
    exact h3 (by rw [e]; exact hcond)

/-- an instance of a leaf-list is found with its value whether or not it is a default node (the value is its identity) -/
theorem merge_contains_leaflist_value (S : Schema) (x n : DNode) (hd : S.isDupInst x.sid = false)
    (hk : S.isKind x.sid .leaflist = true) (ht : x.isTerm = true) (h : matchP S x n = true) : n.val = x.val := by
  simp only [matchP, hk, Bool.or_true, if_true] at h
  rw [instMatch_nodup S x n hd] at h
  simp only [ht, if_true, Bool.and_eq_true, beq_iff_eq] at h
  exact h.2.2

/-- non-vacuity: the explicit source leaf `c/l[k=a]/v = y` overwrites the target's `x`; the chain is made of the
source's own nodes -/
example :
    let cS := DNode.inner 0 {} [] [.term 1 {} [] [101], .term 2 {} [] [49], .term 2 {} [] [51],
      .inner 3 {} [] [.term 4 {} [] [97], .term 5 {} [] [121]], .inner 3 {} [] [.term 4 {} [] [98]], .term 6 {} [] [120]]
    let lS := DNode.inner 3 {} [] [.term 4 {} [] [97], .term 5 {} [] [121]]
    let vS := DNode.term 5 {} [] [121]
    beqL exSrc [cS] = true ∧ (descend exS [cS, lS, vS] exSrc).map (·.val) = some [121] ∧
      (descend exS [cS, lS, vS] exT).map (·.val) = some [120] ∧
      (descend exS [cS, lS, vS] (merge exS {} exT exSrc)).map (·.val) = some [121] := by
  decide

/-- the source's `c` and `c/l[k=a]` of `exSrc` -/
def auLS : DNode := .inner 3 {} [] [.term 4 {} [] [97], .term 5 {} [] [121]]
def auCS : DNode := .inner 0 {} [] [.term 1 {} [] [101], .term 2 {} [] [49], .term 2 {} [] [51], auLS, .inner 3 {} [] [.term 4 {} [] [98]],
  .term 6 {} [] [120]]
/-- the target's `c` of `exT` -/
def auCT : DNode := .inner 0 {} [] [.term 1 { dflt := true } [] [100], .term 2 {} [] [49], .term 2 {} [] [50],
  .inner 3 {} [] [.term 4 {} [] [97], .term 5 {} [] [120]], .term 6 {} [] [122], .term 6 {} [] [121]]

/-- non-vacuity (audit): `IsChain` holds for the three-node chain `c`, `c/l[k=a]`, `c/l[k=a]/v` of the example above (the example
itself does not show it), and `merge_contains_source` instantiated there yields the source's value `y` in the result -/
example : IsChain exS [auCS, auLS, .term 5 {} [] [121]] false exSrc ∧
    ∃ n, descend exS [auCS, auLS, .term 5 {} [] [121]] (merge exS {} exT exSrc) = some n ∧ n.val = [121] := by
  have hc : IsChain exS [auCS, auLS, .term 5 {} [] [121]] false exSrc :=
    ⟨List.Mem.head _, by show auLS ∈ [_, _, _, _, _, _]; simp [auLS], by show _ ∈ [_]; simp⟩
  obtain ⟨n, h1, _, _, h4⟩ := merge_contains_source exS {} exT exSrc (by decide) (by decide) (by decide) _ _ hc rfl
  exact ⟨hc, n, h1, (h4 rfl (by decide)).1⟩

/-- non-vacuity (audit): a chain through a two-key list entry and an entry of the list nested in it: the source's `o[a,1]/i[j=q]/w = 2`
(the target's `i[j=q]` has no `w`) is found in the result with its value -/
example : ∃ n, descend auS [auSrc1, auIn 113 [.term 5 {} [] [50]], .term 5 {} [] [50]] (merge auS {} auT auSrc) = some n ∧
    n.val = [50] := by
  obtain ⟨n, h1, _, _, h4⟩ := merge_contains_source auS {} auT auSrc (by decide) (by decide) (by decide)
    [auSrc1, auIn 113 [.term 5 {} [] [50]], .term 5 {} [] [50]] _
    ⟨List.Mem.head _, by show _ ∈ [_, _, _]; simp [auIn], by show _ ∈ [_]; simp⟩ rfl
  exact ⟨n, h1, (h4 rfl (by decide)).1⟩

/-- non-vacuity (audit) of `merge_contains_leaflist_value`, composed with `merge_contains_source`: the source's leaf-list instance
`c/ll = 3`, which the target does not have, is found in the result with its value -/
example : ∃ n, descend exS [auCS, .term 2 {} [] [51]] (merge exS {} exT exSrc) = some n ∧ n.val = [51] := by
  obtain ⟨n, h1, _, h3, _⟩ := merge_contains_source exS {} exT exSrc (by decide) (by decide) (by decide)
    [auCS, .term 2 {} [] [51]] _ ⟨List.Mem.head _, by show _ ∈ [_, _, _, _, _, _]; simp⟩ rfl
  exact ⟨n, h1, merge_contains_leaflist_value exS _ n (by decide) (by decide) rfl h3⟩

/-- non-vacuity (audit), and evidence for the last paragraph of the docstring of `merge_contains_source`: roles exchanged (`exT` is the source, its `c/a` a default node, `exSrc` the
target with `c/a = e`): the theorem finds a node for `c/a`; by evaluation it carries the target's value `e` — and the source's default `d`
under `LYD_MERGE_DEFAULTS`, which is the case the theorem's conclusion does speak about -/
example : (∃ n, descend exS [auCT, .term 1 { dflt := true } [] [100]] (merge exS {} exSrc exT) = some n ∧ n.sid = 1) ∧
    (descend exS [auCT, .term 1 { dflt := true } [] [100]] (merge exS {} exSrc exT)).map (fun n => (n.val, n.flags.dflt))
      = some ([101], false) ∧
    (descend exS [auCT, .term 1 { dflt := true } [] [100]] (merge exS { defaults := true } exSrc exT)).map
      (fun n => (n.val, n.flags.dflt)) = some ([100], true) := by
  refine ⟨?_, by decide, by decide⟩
  obtain ⟨n, h1, h2, _⟩ := merge_contains_source exS {} exSrc exT (by decide) (by decide) (by decide)
    [auCT, .term 1 { dflt := true } [] [100]] _ ⟨List.Mem.head _, by show _ ∈ [_, _, _, _, _, _]; simp⟩ rfl
  exact ⟨n, h1, h2⟩

/-- **merge_contains_source, by positions** (all well-formed sources, nodes in or below instances of key-less lists /
state leaf-lists included — those have no (schema node, keys) path, libyang prints a position).  A source node `x` is
addressed by the chain of source nodes leading to it, each with its *position* (`IsChainK`): for an instance of a
key-less list / state leaf-list the number of equal siblings standing before it, 0 for every other node.  Following the
same positions in the result (`descendK`: at each level the `k`-th of the nodes the lookup for the chain node accepts)
finds a node `n` of `x`'s schema node and identity — for a duplicate-instance node: with `x`'s content
(`lyd_compare_single(…, LYD_COMPARE_FULL_RECURSION)`), i.e. the `k`-th source instance of a class of equal instances is
the `k`-th instance of that class in the result; for an explicit leaf (or any leaf under `LYD_MERGE_DEFAULTS`) with
`x`'s value and default flag.  As in `merge_contains_source`, for a default leaf of the source without `LYD_MERGE_DEFAULTS`
the conclusion gives the node only, not its value (for chains of target nodes without duplicate instances that is
`merge_keeps_matched_term`).  For chains without duplicate-instance nodes all positions are 0 and this is
`merge_contains_source`. -/
theorem merge_contains_source_pos (S : Schema) (o : MergeOpts) (t s : List DNode) (ht : wfForest S t = true)
    (hs : wfForest S s = true) (chain : List (DNode × Nat)) (x : DNode) (k : Nat)
    (hc : IsChainK S chain false s) (hx : chain.getLast? = some (x, k)) :
    ∃ n, descendK S chain (merge S o t s) = some n ∧ n.sid = x.sid ∧ matchP S x n = true ∧
      (S.isDupInst x.sid = true → eqContent n x = true) ∧
      (x.isTerm = true → (S.isKind x.sid .leaf && (o.defaults || !x.flags.dflt)) = true →
        n.val = x.val ∧ n.flags.dflt = x.flags.dflt ∧ (o.withFlags = true → n.flags = x.flags)) := by
  obtain ⟨n, h1, h2, h3⟩ := descendK_of_absorbed S o chain false s _ x k (merge_absorbs S o t s ht hs) hc hx
  refine ⟨n, h1, matchP_sid h2, h2, fun hd => by rw [← matchP_dup S x n hd]; exact h2, ?_⟩
  intro hterm hcond
  cases x with
  | inner => simp [DNode.isTerm] at hterm
  | term xs xf xm xv =>
    simp only [absΦD] at h3
    have e : n.sid = xs := matchP_sid h2
    exact h3 (by rw [e]; exact hcond)

/-- non-vacuity: the third `sl` of the source (`sl = 1`, one equal sibling before it) is the second `sl = 1` of the
result — the target had only one —, and the leaf below the second `kl {a = x}` of the source is found below the second
such instance of the result -/
example :
    let v := DNode.term 0 {} [] [49]
    let l := DNode.inner 1 {} [] [.term 2 {} [] [120]]
    let a := DNode.term 2 {} [] [120]
    IsChainK exDS [(v, 1)] false exDSrc ∧ (descendK exDS [(v, 1)] exDT).isNone = true ∧
      (descendK exDS [(v, 1)] (merge exDS {} exDT exDSrc)).map (·.val) = some [49] ∧
      IsChainK exDS [(l, 1), (a, 0)] false exDSrc ∧ (descendK exDS [(l, 1), (a, 0)] exDT).isNone = true ∧
      (descendK exDS [(l, 1), (a, 0)] (merge exDS {} exDT exDSrc)).map (·.flags.new) = some true := by
  refine ⟨⟨[.term 0 {} [] [50], .term 0 {} [] [49]], _, rfl, by decide⟩, by decide, by decide,
    ⟨⟨[.term 0 {} [] [50], .term 0 {} [] [49], .term 0 {} [] [49], .inner 1 {} [] [.term 2 {} [] [120]]], _, rfl,
      by decide⟩, ⟨[], [], rfl, by decide⟩⟩, by decide, by decide⟩

/-! ## the result keeps what the source does not touch -/

/-- **merge_keeps_untouched_target**: take any node `y` of the target, addressed by the chain of target nodes leading to
it (no list keys, no key-less list / state leaf-list instances on the way).  If the source does not contain that path
(`descend … s = none`: at some level it has no node of that schema node and keys / value), then the same path leads,
in the result, to `y` itself — the whole subtree with its values, flags, metadata and order, unchanged. -/
theorem merge_keeps_untouched_target (S : Schema) (o : MergeOpts) (t s : List DNode) (ht : wfForest S t = true)
    (hs : wfForest S s = true) (hd : noDupInstL S s = true) (chain : List DNode) (y : DNode)
    (hc : IsChain S chain false t) (hcd : ∀ c ∈ chain, S.isDupInst c.sid = false ∧ S.isKey c.sid = false)
    (hy : chain.getLast? = some y) (hn : descend S chain s = none) :
    descend S chain (merge S o t s) = some y := by
  obtain ⟨ht1, ht2, ht3, _⟩ := wfSibs_parts ht
  obtain ⟨_, hs2, _⟩ := wfSibs_parts hs
  exact keep_chain S o chain false s [] false { cur := t } y ht1 ht2 ht3 (srcOk_of_wf hs hd) hs2 hc hcd hy hn

/-- non-vacuity: the source has `c/ll = 1` and `c/ll = 3` but not `c/ll = 2`, nor anything below `c/ul`; the target's
`ll = 2` and `ul = z` are where they were -/
example :
    let cT := DNode.inner 0 {} [] [.term 1 { dflt := true } [] [100], .term 2 {} [] [49], .term 2 {} [] [50],
      .inner 3 {} [] [.term 4 {} [] [97], .term 5 {} [] [120]], .term 6 {} [] [122], .term 6 {} [] [121]]
    let ll2 := DNode.term 2 {} [] [50]
    beqL exT [cT] = true ∧ (descend exS [cT, ll2] exT).map (·.val) = some [50] ∧
      (descend exS [cT, ll2] exSrc).isNone = true ∧
      (descend exS [cT, ll2] (merge exS {} exT exSrc)).map (·.val) = some [50] := by
  decide

/-- non-vacuity (audit): the theorem instantiated on the example above (`IsChain` and the side conditions on the chain hold) and on a chain
through a two-key list entry and a nested list entry: the target's `o[a,1]/i[j=p]/w = 1` — the source has `o[a,1]` but no `i[j=p]` — is
where it was -/
example : descend exS [auCT, .term 2 {} [] [50]] (merge exS {} exT exSrc) = some (.term 2 {} [] [50]) ∧
    descend auS [auT1, auIn 112 [.term 5 {} [] [49]], .term 5 {} [] [49]] (merge auS {} auT auSrc) = some (.term 5 {} [] [49]) :=
  ⟨merge_keeps_untouched_target exS {} exT exSrc (by decide) (by decide) (by decide) [auCT, .term 2 {} [] [50]] _
     ⟨List.Mem.head _, by show _ ∈ [_, _, _, _, _, _]; simp⟩ (by decide) rfl (by decide),
   merge_keeps_untouched_target auS {} auT auSrc (by decide) (by decide) (by decide)
     [auT1, auIn 112 [.term 5 {} [] [49]], .term 5 {} [] [49]] _
     ⟨List.Mem.head _, by show _ ∈ [_, _, _]; simp [auIn], by show _ ∈ [_]; simp⟩ (by decide) rfl (by decide)⟩

/-- **merge_keeps_matched_term** (audit addition; the half that the conclusion of `merge_contains_source` leaves out): a target node `y`,
addressed by the chain of target nodes leading to it, is found unchanged in the result not only when the source does not contain its
path (`merge_keeps_untouched_target`, the case `descend … s = none`) but also when what the source holds there is a term node that
`lyd_merge_sibling_r` matches without copying (`Merge.LeavesAlone`): an instance of a leaf-list with `y`'s value, or a **default leaf
while `LYD_MERGE_DEFAULTS` is not given** — "a default leaf of the source … is found with the target's value if the target had one". -/
theorem merge_keeps_matched_term (S : Schema) (o : MergeOpts) (t s : List DNode) (ht : wfForest S t = true)
    (hs : wfForest S s = true) (hd : noDupInstL S s = true) (chain : List DNode) (y : DNode)
    (hc : IsChain S chain false t) (hcd : ∀ c ∈ chain, S.isDupInst c.sid = false ∧ S.isKey c.sid = false)
    (hy : chain.getLast? = some y) (hn : LeavesAlone S o y (descend S chain s)) :
    descend S chain (merge S o t s) = some y := by
  obtain ⟨ht1, ht2, ht3, _⟩ := wfSibs_parts ht
  obtain ⟨_, hs2, _⟩ := wfSibs_parts hs
  exact keep_chain_alone S o chain false s [] false { cur := t } y ht1 ht2 ht3 (srcOk_of_wf hs hd) hs2 hc hcd hy hn

/-- non-vacuity (audit): `exSrc` as the target, `exT` as the source.  The target's explicit `c/a = e` meets the source's default `a`: kept
(value, flags, metadata) — while under `LYD_MERGE_DEFAULTS` the hypothesis fails and the node does change (see the example at
`merge_contains_source`); the target's `c/ll = 1` meets the source's `ll = 1`: kept -/
example : descend exS [auCS, .term 1 {} [] [101]] (merge exS {} exSrc exT) = some (.term 1 {} [] [101]) ∧
    descend exS [auCS, .term 2 {} [] [49]] (merge exS { defaults := true } exSrc exT) = some (.term 2 {} [] [49]) :=
  ⟨merge_keeps_matched_term exS {} exSrc exT (by decide) (by decide) (by decide) [auCS, .term 1 {} [] [101]] _
     ⟨List.Mem.head _, by show _ ∈ [_, _, _, _, _, _]; simp⟩ (by decide) rfl
     (show LeavesAlone exS {} _ (some (.term 1 { dflt := true } [] [100])) from ⟨rfl, by decide⟩),
   merge_keeps_matched_term exS { defaults := true } exSrc exT (by decide) (by decide) (by decide) [auCS, .term 2 {} [] [49]] _
     ⟨List.Mem.head _, by show _ ∈ [_, _, _, _, _, _]; simp⟩ (by decide) rfl
     (show LeavesAlone exS _ _ (some (.term 2 {} [] [49])) from ⟨rfl, by decide⟩)⟩

/-- **merge_keeps_untouched_target, by positions** (all well-formed trees, nodes in or below instances of key-less lists
/ state leaf-lists included).  A target node `y` is addressed by the chain of target nodes leading to it (no list keys),
each with its position among the siblings its own lookup accepts (`IsChainT`): for an instance of a key-less list / state
leaf-list the number of equal instances before it, 0 for every other node of a well-formed tree.  If the source does not
contain that path (`descendK … s = none`: at some level it has no `k`-th such node — e.g. it holds fewer equal instances
than the target), then the same positions lead, in the result, to `y` itself: the whole subtree with its values, flags,
metadata and order, unchanged.  Together with `merge_contains_source_pos`: per class of equal instances the result holds
the target's instances first — the `k`-th merged with the `k`-th of the source if there is one, else untouched — then the
surplus of the source.  For chains without duplicate-instance nodes this is `merge_keeps_untouched_target`. -/
theorem merge_keeps_untouched_target_pos (S : Schema) (o : MergeOpts) (t s : List DNode) (ht : wfForest S t = true)
    (hs : wfForest S s = true) (chain : List (DNode × Nat)) (y : DNode) (k : Nat) (hc : IsChainT S chain t)
    (hck : ∀ c ∈ chain, S.isKey c.1.sid = false) (hy : chain.getLast? = some (y, k))
    (hn : descendK S chain s = none) : descendK S chain (merge S o t s) = some y := by
  simp only [wfForest, wfSibs, Bool.and_eq_true] at ht hs
  obtain ⟨⟨⟨⟨t1, _⟩, t3⟩, t4⟩, _⟩ := ht
  obtain ⟨⟨⟨⟨s1, _⟩, s3⟩, s4⟩, s5⟩ := hs
  exact keepK_chain S o chain none s [] false { cur := t } y k ⟨t1, t3, t4⟩ rfl
    (fun c hc' => ⟨(shapeAll_iff S none s).1 s1 c hc', (ordAll_iff S s).1 s4 c hc', (flagsOkL_iff s).1 s5 c hc'⟩)
    s3 hc hck hy (by simpa [procList] using hn)

/-- non-vacuity (`exDSrc` as the target, `exDT` as the source): the target's second `sl = 1` and the leaf below its
second `kl {a = x}` have no counterpart in the source — it has one of each — and are found where they were -/
example :
    let v := DNode.term 0 {} [] [49]
    let l := DNode.inner 1 {} [] [.term 2 {} [] [120]]
    let a := DNode.term 2 {} [] [120]
    IsChainT exDS [(v, 1)] exDSrc ∧ (descendK exDS [(v, 1)] exDT).isNone = true ∧
      (descendK exDS [(v, 1)] (merge exDS {} exDSrc exDT)).map (·.val) = some [49] ∧
      IsChainT exDS [(l, 1), (a, 0)] exDSrc ∧ (descendK exDS [(l, 1), (a, 0)] exDT).isNone = true ∧
      (descendK exDS [(l, 1), (a, 0)] (merge exDS {} exDSrc exDT)).map (·.val) = some [120] := by
  refine ⟨⟨[.term 0 {} [] [50], .term 0 {} [] [49]], _, rfl, by decide⟩, by decide, by decide,
    ⟨⟨[.term 0 {} [] [50], .term 0 {} [] [49], .term 0 {} [] [49], .inner 1 {} [] [.term 2 {} [] [120]]], _, rfl,
      by decide⟩, ⟨[], [], rfl, by decide⟩⟩, by decide, by decide⟩

/-! ## the result is in canonical order -/

/-- **merge_result_canonical**: for *all* well-formed targets and sources (duplicate instances of key-less lists / state
leaf-lists included) the merged tree has, at every level, the shape of a data tree (node kinds, keys first), libyang's
sibling order — schema order; instances of a system-ordered keyed list / leaf-list in non-decreasing order of the type's
`sort` callback, which needs the comparison to be transitive (`LemmasCmp`) — and no second instance of a leaf, container,
keyed-list entry or configuration leaf-list value. -/
theorem merge_result_canonical (S : Schema) (o : MergeOpts) (t s : List DNode) (ht : wfForest S t = true)
    (hs : wfForest S s = true) :
    shapeAll S none (merge S o t s) = true ∧ pairwiseB (okPair S) (merge S o t s) = true ∧
      ordAll S (merge S o t s) = true := by
  simp only [wfForest, wfSibs, Bool.and_eq_true] at ht hs
  obtain ⟨⟨⟨⟨t1, _⟩, t3⟩, t4⟩, _⟩ := ht
  obtain ⟨⟨⟨⟨s1, _⟩, _⟩, s4⟩, s5⟩ := hs
  exact can_mergeKids S o s none [] false { cur := t }
    (fun c hc => ⟨(shapeAll_iff S none s).1 s1 c hc, (ordAll_iff S s).1 s4 c hc, (flagsOkL_iff s).1 s5 c hc⟩)
    ⟨t1, t3, t4⟩

/-- … which is the shared tree base's invariant: rebuilding every sibling list of the result by inserting its nodes one
by one (`Tree.canon`, what the harness does through `lyd_new_*`) gives the result back. -/
theorem merge_result_canon_fixpoint (S : Schema) (o : MergeOpts) (t s : List DNode) (ht : wfForest S t = true)
    (hs : wfForest S s = true) (fuel : Nat) : canon S fuel (merge S o t s) = merge S o t s := by
  obtain ⟨_, h2, h3⟩ := merge_result_canonical S o t s ht hs
  exact canon_id S fuel _ h2 h3

/-- **merge_result_wf**: well-formed trees are closed under merging — besides shape, order and uniqueness also the
consistency of the default flags is kept: `lyd_np_cont_dflt_del` clears the flags of the ancestors whenever a non-default
node is linked or a leaf becomes explicit, `lyd_np_cont_dflt_set` sets them only when every child is a default node
(`LemmasFlags`: the invariant along the whole chain of target ancestors).  So every theorem of this file applies again
to the result of a merge. -/
theorem merge_result_wf (S : Schema) (o : MergeOpts) (t s : List DNode) (ht : wfForest S t = true)
    (hs : wfForest S s = true) : wfForest S (merge S o t s) = true := by
  obtain ⟨c1, c2, c3⟩ := merge_result_canonical S o t s ht hs
  obtain ⟨t1, t2, _, t4, t5⟩ := wfSibs_parts ht
  obtain ⟨s1, _, _, s4, s5⟩ := wfSibs_parts hs
  have hfi := fi_mergeKids S o s [] false { cur := t } s4 s1 t1
    ⟨t4, by simp, by simp [chainOkF], rfl⟩
  have hkeys := (level_mergeKids S o [] (fun sid => !S.isKey sid) s false { cur := t }
    (sidSorted_of_okPair S t t2) (fun c hc => by simp [t5 c hc]) (fun c hc => by simp [procList] at hc; simp [s5 c hc])).2
  simp only [wfForest, wfSibs, merge, Bool.and_eq_true, List.all_eq_true]
  exact ⟨⟨⟨⟨c1, fun c hc => hkeys c hc⟩, c2⟩, c3⟩, hfi.ok⟩

example : wfForest exS exT = true ∧ wfForest exS exSrc = true ∧ beqL (merge exS {} exT exSrc) exT = false ∧
    wfForest exS (merge exS {} exT exSrc) = true := by decide

/-- non-vacuity (audit): the three theorems instantiated at the nested-list trees and at the duplicate-instance trees -/
example : wfForest auS (merge auS {} auT auSrc) = true ∧ wfForest exDS (merge exDS {} exDT exDSrc) = true ∧
    canon auS 5 (merge auS {} auT auSrc) = merge auS {} auT auSrc ∧ ordAll auS (merge auS {} auT auSrc) = true :=
  ⟨merge_result_wf auS {} auT auSrc (by decide) (by decide), merge_result_wf exDS {} exDT exDSrc (by decide) (by decide),
   merge_result_canon_fixpoint auS {} auT auSrc (by decide) (by decide) 5,
   (merge_result_canonical auS {} auT auSrc (by decide) (by decide)).2.2⟩

/-! ## dup -/

/-- **dup_equal (recursive)**: a recursive duplicate is the original node for node — same structure, schema nodes,
values, sibling order — with the flags and metadata the options ask for: `LYD_DUP_WITH_FLAGS` keeps every flag, without
it every node gets `LYD_NEW`, keeps `LYD_DEFAULT` and loses `LYD_WHEN_TRUE` (`dupFlags`); `LYD_DUP_NO_META` drops all
metadata, otherwise it is copied (`dupMetas`). -/
theorem dup_equal_recursive (S : Schema) (o : DupOpts) (n : DNode) (hr : o.recursive = true) (hf : flagsOk n = true) :
    dupNode S o n = relabel (dupFlags o) (dupMetas o) n :=
  dupNode_recursive S o hr n hf

/-- `lyd_compare_single(dup, node, LYD_COMPARE_FULL_RECURSION)` holds for every recursive duplicate, whatever the
flags of the original -/
theorem dup_equal_content (S : Schema) (o : DupOpts) (n : DNode) (hr : o.recursive = true) :
    eqContent (dupNode S o n) n = true :=
  (eqContent_iff _ _).2 (strip_dupNode_recursive S o hr n)

/-- `LYD_DUP_RECURSIVE | LYD_DUP_WITH_FLAGS` (metadata kept): the duplicate *is* the original -/
theorem dup_equal_with_flags (S : Schema) (o : DupOpts) (n : DNode) (hr : o.recursive = true) (hw : o.withFlags = true)
    (hm : o.noMeta = false) (hf : flagsOk n = true) : dupNode S o n = n := by
  rw [dup_equal_recursive S o n hr hf]
  have h1 : dupFlags o = id := by funext f; simp [dupFlags, hw]
  have h2 : dupMetas o = id := by funext m; simp [dupMetas, hm]
  rw [h1, h2, relabel_id]

/-- `LYD_DUP_NO_META`: no node of the duplicate carries metadata -/
theorem dup_no_meta (S : Schema) (o : DupOpts) (n : DNode) (hr : o.recursive = true) (hm : o.noMeta = true)
    (hf : flagsOk n = true) : dupNode S o n = relabel (dupFlags o) (fun _ => []) n := by
  rw [dup_equal_recursive S o n hr hf]
  have : dupMetas o = fun _ => [] := by funext m; simp [dupMetas, hm]
  rw [this]

/-- without `LYD_DUP_RECURSIVE` an inner node is duplicated with its leading list keys only -/
theorem dup_shallow (S : Schema) (o : DupOpts) (s : Nat) (f : Flags) (m : List Meta) (ks : List DNode)
    (hr : o.recursive = false) : (dupNode S o (.inner s f m ks)).kids = (keysOf S ks).map (dupNode S o) := by
  have hk : ∀ l : List DNode, dupKeys S o l = (keysOf S l).map (dupNode S o) := by
    intro l
    induction l with
    | nil => simp [dupKeys, keysOf]
    | cons a as ih =>
      simp only [dupKeys, keysOf, List.takeWhile_cons]
      split
      · simp only [List.map_cons, List.cons.injEq, true_and]; exact ih
      · simp
  simp [dupNode, hr, DNode.kids, hk]

example :
    let n := DNode.inner 3 { dflt := false } [("operation", [99])] [.term 4 {} [] [97], .term 5 { new := true } [] [121]]
    flagsOk n = true ∧ (dupNode exS { recursive := true } n).beq n = false ∧
      (dupNode exS { recursive := true, withFlags := true } n).beq n = true ∧
      (dupNode exS { recursive := true, noMeta := true } n).metas = [] ∧
      beqL (dupNode exS {} n).kids [.term 4 { new := true } [] [97]] = true := by
  decide

/-- non-vacuity (audit): the five theorems instantiated at the two-key list entry `auT1` (a list nested in it, two levels of children) and,
for the flag hypothesis, at the entry with a default non-presence container over a default leaf -/
example :
    let d := auOut 97 50 [.inner 10 { dflt := true } [] [.term 11 { dflt := true } [] [100]]]
    dupNode auS { recursive := true } auT1 = relabel (dupFlags { recursive := true }) (dupMetas { recursive := true }) auT1 ∧
      dupNode auS { recursive := true } d = relabel (dupFlags { recursive := true }) (dupMetas { recursive := true }) d ∧
      eqContent (dupNode auS { recursive := true, noMeta := true } auT1) auT1 = true ∧
      dupNode auS { recursive := true, withFlags := true } d = d ∧
      dupNode auS { recursive := true, noMeta := true } auT1 = relabel (dupFlags { recursive := true, noMeta := true }) (fun _ => []) auT1 ∧
      (dupNode auS {} auT1).kids = [.term 1 { new := true } [] [97], .term 2 { new := true } [] [49]] :=
  ⟨dup_equal_recursive auS _ auT1 rfl (by decide), dup_equal_recursive auS _ _ rfl (by decide), dup_equal_content auS _ auT1 rfl,
   dup_equal_with_flags auS _ _ rfl rfl rfl (by decide), dup_no_meta auS _ auT1 rfl rfl (by decide),
   dup_shallow auS {} 0 {} [] _ rfl⟩

/-- **dup_equal (with parents)**: `LYD_DUP_WITH_PARENTS` duplicates a nested node `n` below a copy of the chain of its
ancestors `anc` (nearest first) — one root; every duplicated parent has the parent's schema node, its metadata unless
`LYD_DUP_NO_META`, the duplicates of its list keys and *exactly one* more child: the next node of the path
(`PathOnly`); at the end of the path hangs `dupNode S o n`, the duplicate the other theorems describe.  `ChainOK`: going
down the chain the schema ids grow past every ancestor's keys — `chainOK_link` gives each link in a well-shaped tree. -/
theorem dup_with_parents (S : Schema) (o : DupOpts) (anc : List DNode) (n : DNode) (hw : o.withParents = true)
    (hne : anc ≠ []) (hk : S.isKey n.sid = false) (hc : ChainOK S anc n.sid) :
    ∃ root, dupTop S o true anc [n] = [root] ∧ PathOnly S o anc.reverse (dupNode S o n) root :=
  dupTop_with_parents S o anc n hw hne hk hc

/-- non-vacuity: `c/l[k=a]/v` duplicated with its parents `l[k=a]` and `c` -/
example :
    let v := DNode.term 5 {} [] [120]
    let l := DNode.inner 3 {} [] [.term 4 {} [] [97], v]
    let c := DNode.inner 0 {} [] [.term 1 { dflt := true } [] [100], l]
    ChainOK exS [l, c] v.sid ∧
      beqL (dupTop exS { withParents := true } true [l, c] [v])
        [.inner 0 { new := true } [] [.inner 3 { new := true } [] [.term 4 { new := true } [] [97],
          .term 5 { new := true } [] [120]]]] = true := by
  refine ⟨?_, by decide⟩
  simp only [ChainOK]
  decide

/-- non-vacuity (audit): the theorem instantiated three levels down, through nested lists: `o[a,1]/i[j=p]/w` with its parents `i[j=p]` and
the two-key entry `o[a,1]` — one root, each copied parent with its keys and the path only -/
example : ∃ root, dupTop auS { withParents := true } true [auIn 112 [.term 5 {} [] [49]], auT1] [.term 5 {} [] [49]] = [root] ∧
    PathOnly auS { withParents := true } [auT1, auIn 112 [.term 5 {} [] [49]]] (.term 5 { new := true } [] [49]) root :=
  dup_with_parents auS { withParents := true } [auIn 112 [.term 5 {} [] [49]], auT1] (.term 5 {} [] [49]) rfl (by simp) (by decide)
    (by simp only [ChainOK]; decide)

/-- **dup_siblings_equal**: `lyd_dup_siblings` of a sibling list in canonical order is the list of the duplicates of its
nodes, in the same order — for every option set, i.e. whichever insert order `lyd_dup` uses (`LYD_INSERT_NODE_DEFAULT`,
`LAST_BY_SCHEMA` with `LYD_DUP_NO_LYDS`, `LAST` inside a run of instances of one (leaf-)list: the `first_llist` shortcut,
including its reset-without-re-arm of finding F55, which costs the copy a complete sorting structure but never the order). -/
theorem dup_siblings_equal (S : Schema) (o : DupOpts) (sibs : List DNode) (h : wfForest S sibs = true) :
    dupSiblings S o sibs = sibs.map (dupNode S o) := by
  obtain ⟨_, h2, _, _, h5⟩ := wfSibs_parts h
  have := dupSibsLoop_canonical S o sibs [] none (by simp) h2 h5
  simpa [dupSiblings] using this

/-- … so a recursive `LYD_DUP_WITH_FLAGS` duplicate of a well-formed forest is the forest, -/
theorem dup_siblings_full (S : Schema) (sibs : List DNode) (h : wfForest S sibs = true) :
    dupSiblings S DupOpts.full sibs = sibs := by
  rw [dup_siblings_equal S _ sibs h]
  obtain ⟨_, _, _, h4, _⟩ := wfSibs_parts h
  have : ∀ n ∈ sibs, dupNode S DupOpts.full n = n := fun n hn => dupNode_full S n ((flagsOkL_iff sibs).1 h4 n hn)
  calc sibs.map (dupNode S DupOpts.full) = sibs.map id := List.map_congr_left this
    _ = sibs := by simp

/-- … and **merging into the empty target is `lyd_dup_siblings` of the source** followed by the `LYD_NEW` marking that
`lyd_merge_sibling_r` applies unless `LYD_MERGE_WITH_FLAGS` is given. -/
theorem merge_into_empty_eq_dup (S : Schema) (o : MergeOpts) (s : List DNode) (h : wfForest S s = true) :
    merge S o [] s = (dupSiblings S DupOpts.full s).map (fun n => if o.withFlags then n else setNew n) := by
  rw [merge_into_empty S o s h, dup_siblings_full S s h]
  apply List.map_congr_left
  intro n _
  simp only [cp, cpFlags]
  split
  · simp [relabel_id]
  · simp [setNew_eq_relabel]

example : wfForest exS exSrc = true ∧ beqL (dupSiblings exS { recursive := true, noLyds := true } exSrc) exSrc = false ∧
    beqL (dupSiblings exS DupOpts.full exSrc) exSrc = true := by decide

/-- non-vacuity (audit): the three theorems instantiated at the nested-list forests (two-key entries, sorted `int8` leaf-list) and
`dup_siblings_equal` at the forest with repeated key-less list / state leaf-list instances -/
example : dupSiblings auS { recursive := true, noLyds := true } auT = auT.map (dupNode auS { recursive := true, noLyds := true }) ∧
    dupSiblings exDS { recursive := true } exDSrc = exDSrc.map (dupNode exDS { recursive := true }) ∧
    dupSiblings auS DupOpts.full auT = auT ∧
    merge auS {} [] auSrc = (dupSiblings auS DupOpts.full auSrc).map (fun n => if ({} : MergeOpts).withFlags then n else setNew n) :=
  ⟨dup_siblings_equal auS _ auT (by decide), dup_siblings_equal exDS _ exDSrc (by decide), dup_siblings_full auS auT (by decide),
   merge_into_empty_eq_dup auS {} auSrc (by decide)⟩

/-- `lyd_dup_single / lyd_dup_siblings(node, parent, opts)` into a caller-supplied inner parent that already has children
    (`Merge.dupInto`): the parent keeps its schema node, flags other than `LYD_DEFAULT`, and metadata; its children afterwards are
    the OLD children with the copy of every non-key source node (`dupNode`: relabelled as the options say) inserted one by one
    at the place `lyd_insert_node` gives it (`LYD_DUP_NO_LYDS`: by schema only); `LYD_DEFAULT` survives only if every copy has it.
    (That this one-by-one insertion is canonical for the sibling-list invariant, with the concrete sorting tree, is
    `C04Rb.dup_into_parent_canonical`.) -/
theorem dup_into_parent_kids (S : Schema) (o : DupOpts) (single : Bool) (s : Nat) (f : Flags) (m : List Meta) (ks sibs : List DNode) :
    (dupInto S o single (.inner s f m ks) sibs).kids =
      ((((if single then sibs.take 1 else sibs).filter fun n => !(S.isKey n.sid)).map (dupNode S o)).foldl
        (fun acc x => insertWith S (if o.noLyds then Order.bySchema else Order.dflt) acc x) ks) ∧
    (dupInto S o single (.inner s f m ks) sibs).sid = s ∧ (dupInto S o single (.inner s f m ks) sibs).metas = m ∧
    (dupInto S o single (.inner s f m ks) sibs).flags.new = f.new := by
  simp [dupInto, DNode.setKids, DNode.setDflt, DNode.setFlags, DNode.kids, DNode.sid, DNode.metas, DNode.flags]

/-- non-vacuity (audit): into the first top-level node of `auT` (it has children) — the copy of a child of the source's first
    node arrives among them -/
example : ((dupInto auS DupOpts.full false (auT.headD default) ((auSrc.headD default).kids)).kids.length) =
    (auT.headD default).kids.length + ((auSrc.headD default).kids.filter fun n => !(auS.isKey n.sid)).length := by decide

end LyModel.Props.C14
