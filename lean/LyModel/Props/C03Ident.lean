import LyModel.Val.LemmasIdent
/-!
# C03 — `identityref` (RFC 7950 §9.10): acceptance, canonical form, equality, ordering

Model: `Val/Ident.lean` (`identityref_str2ident`, `lyplg_type_identity_module`, `identityref_check_base`,
`lyplg_type_identity_isderived`, store / compare / sort / print of `src/plugins_types/identityref.c`), tied to the C code by
`harness/api_types.c` (descriptor `idref:…`, op `idfmt` for the XML / schema / LYB prefix formats) on every run; the two places
where the pinned code deviates are switches read off the source by `tools/extractors/valx.py` (`Generated.identBaseAll`,
`Generated.identSortModule`).

A module set is `IdCtx` — the `identity` statements with their `base` statements; `Derived c b d` is "d is derived from b": the
transitive closure of the `base` statements (`Direct`), irreflexive because the definitions are acyclic (`IdCtx.WF`).
A `PrefixMap` says how prefixes resolve in the format at hand (JSON: module names; XML: namespace declarations in scope; schema:
import prefixes) and which module a value without prefix belongs to.
-/
namespace LyModel.Props.C03Ident
open LyModel LyModel.Val LyModel.Val.Ident

/-! ## derived-from -/

/-- `lyplg_type_identity_isderived` — the recursion through the `derived` arrays, run with the number of identities as its depth
    bound — decides the transitive closure of the `base` statements, on every acyclic module set. -/
theorem isDerived_iff (c : IdCtx) (hwf : c.WF) (b d : Ident) : isDerived c b d = true ↔ Derived c b d :=
  isDerived_iff' hwf b d

/-- closure termination: the depth bound is sufficient — any larger bound gives the same answer (the recursion of the C code, which
    has no bound, terminates with this answer). -/
theorem isDerived_fuel_sufficient (c : IdCtx) (hwf : c.WF) (b d : Ident) (f : Nat) (hf : c.defs.length ≤ f) :
    isDerivedF c f b d = isDerived c b d :=
  isDerivedF_fuel hwf b d f hf

/-- "derived from" is strict: no identity is derived from itself (so the base identity itself is never a valid value of the
    identityref — RFC 7950 §9.10.2 "derived from", not "equal to or derived from"). -/
theorem derived_irreflexive (c : IdCtx) (hwf : c.WF) (d : Ident) : ¬ Derived c d d := by
  obtain ⟨rank, _, hr⟩ := hwf
  intro h
  exact absurd (derived_rank hr h) (Nat.lt_irrefl _)

/-- and transitive -/
theorem derived_trans (c : IdCtx) (x y z : Ident) (h1 : Derived c x y) (h2 : Derived c y z) : Derived c x z := by
  induction h1 with
  | direct hd => exact .step hd h2
  | step hd _ ih => exact .step hd (ih h2)

/-- the diamond over three modules: `a:top`; `b:left`, `b:right` derived from `a:top`; `c:bot` from both; `c:left` (same name as
    `b:left`) from `a:top`; `l:loc` from `b:left` only -/
def dTop : Ident := ⟨[97], [116, 111, 112]⟩
def dLeft : Ident := ⟨[98], [108, 101, 102, 116]⟩
def dRight : Ident := ⟨[98], [114, 105, 103, 104, 116]⟩
def dBot : Ident := ⟨[99], [98, 111, 116]⟩
def dLeft2 : Ident := ⟨[99], [108, 101, 102, 116]⟩
def dLoc : Ident := ⟨[108], [108, 111, 99]⟩
def diamond : IdCtx := { defs := [⟨dTop, []⟩, ⟨dLeft, [dTop]⟩, ⟨dRight, [dTop]⟩, ⟨dBot, [dLeft, dRight]⟩, ⟨dLeft2, [dTop]⟩, ⟨dLoc, [dLeft]⟩] }

theorem diamond_wf : diamond.WF := by
  refine ⟨fun i => if i = dTop then 0 else if i = dLeft then 1 else if i = dRight then 2 else if i = dBot then 3 else if i = dLeft2 then 4 else 5, ?_, ?_⟩
  · intro df hdf
    simp only [diamond, List.mem_cons, List.mem_nil_iff, or_false] at hdf
    rcases hdf with rfl | rfl | rfl | rfl | rfl | rfl <;> decide
  · intro df hdf b hb
    simp only [diamond, List.mem_cons, List.mem_nil_iff, or_false] at hdf
    rcases hdf with rfl | rfl | rfl | rfl | rfl | rfl <;>
      simp only [List.mem_cons, List.mem_nil_iff, or_false] at hb <;> (try rcases hb with rfl | rfl) <;> (try subst hb) <;> decide

-- non-vacuity: transitive (bot from top, through left or right), strict (left is not derived from left), and not symmetric
example : Derived diamond dTop dBot ∧ Derived diamond dLeft dLoc ∧ ¬ Derived diamond dLeft dLeft ∧ ¬ Derived diamond dRight dLoc :=
  ⟨(isDerived_iff diamond diamond_wf _ _).mp (by decide), (isDerived_iff diamond diamond_wf _ _).mp (by decide),
   derived_irreflexive diamond diamond_wf dLeft, fun h => absurd ((isDerived_iff diamond diamond_wf _ _).mpr h) (by decide)⟩

/-! ## acceptance -/

/-- what RFC 7950 §9.10 says about a lexical value `s` and the identity `i` it denotes: `s` is `[prefix ":"] name` (split at the first
    colon) with a non-empty name, the prefix (or its absence) resolves to the module of `i`, `i` is an identity of the module set and is
    not disabled by `if-feature` -/
def Denotes (c : IdCtx) (pm : PrefixMap) (s : Bytes) (i : Ident) : Prop :=
  (splitPrefix s).2 ≠ [] ∧ resolve pm (splitPrefix s).1 = some i.mod ∧ i.name = (splitPrefix s).2 ∧ (∃ df ∈ c.defs, df.id = i) ∧
    i ∉ c.disabled

/-- `identityref_accept_iff` for the REPAIRED plug-in (`fixes/F410.diff`; `Generated.identBaseAll = true`): a value is stored as
    identity `i` ⇔ the hints allow a string, `s` denotes `i`, and `i` is derived from — not equal to — EVERY base of the type
    (RFC 7950 §9.10.2).  Every acyclic module set, every base list, every prefix format, every string. -/
theorem identityref_accept_iff (c : IdCtx) (hwf : c.WF) (bases : List Ident) (pm : PrefixMap) (hints : Nat) (s : Bytes) (i : Ident) :
    storeIdWith true c bases pm hints s = .ok i ↔
      (checkHints hints "ident").isSome = true ∧ Denotes c pm s i ∧ ∀ b ∈ bases, Derived c b i := by
  rw [storeIdWith_ok_iff hwf]
  simp only [Denotes, if_true, and_assoc]

/-- The pinned code is different (finding F410): `identityref_check_base` stops at the first base the identity is derived from, so
    the full-strength statement is FALSE for it — `l:loc`, derived from `b:left` only, is accepted by
    `type identityref { base b:left; base b:right; }` … -/
theorem identityref_accept_iff_fails :
    ¬ ∀ (c : IdCtx), c.WF → ∀ (bases : List Ident) (pm : PrefixMap) (hints : Nat) (s : Bytes) (i : Ident),
      storeIdWith false c bases pm hints s = .ok i ↔
        ((checkHints hints "ident").isSome = true ∧ Denotes c pm s i ∧ ∀ b ∈ bases, Derived c b i) := by
  intro h
  have h1 := (h diamond diamond_wf [dLeft, dRight] ⟨[([108], [108])], some [108]⟩ Generated.LYD_HINT_DATA
    [108, 58, 108, 111, 99] dLoc).mp (by decide)
  have h2 := h1.2.2 dRight (by simp)
  exact absurd ((isDerived_iff diamond diamond_wf _ _).mpr h2) (by decide)

/-- … what the pinned code implements is "derived from SOME base" … -/
theorem identityref_accept_iff_partial (c : IdCtx) (hwf : c.WF) (bases : List Ident) (pm : PrefixMap) (hints : Nat) (s : Bytes) (i : Ident) :
    storeIdWith false c bases pm hints s = .ok i ↔
      (checkHints hints "ident").isSome = true ∧ Denotes c pm s i ∧ ∃ b ∈ bases, Derived c b i := by
  rw [storeIdWith_ok_iff hwf]
  simp only [Denotes, Bool.false_eq_true, if_false, and_assoc]

/-- … which coincides with the RFC for the types with ONE base (the common case), for either variant of the code … -/
theorem identityref_accept_iff_single_base (c : IdCtx) (hwf : c.WF) (ab : Bool) (base : Ident) (pm : PrefixMap) (hints : Nat) (s : Bytes) (i : Ident) :
    storeIdWith ab c [base] pm hints s = .ok i ↔
      (checkHints hints "ident").isSome = true ∧ Denotes c pm s i ∧ Derived c base i := by
  rw [storeIdWith_ok_iff hwf]
  cases ab <;> simp [Denotes, and_assoc]

/-- … and the code of the tree the model was generated from is the one or the other (switch read off `identityref_check_base`). -/
theorem identityref_accept_iff_current (c : IdCtx) (hwf : c.WF) (bases : List Ident) (pm : PrefixMap) (hints : Nat) (s : Bytes) (i : Ident) :
    storeId c bases pm hints s = .ok i ↔
      (checkHints hints "ident").isSome = true ∧ Denotes c pm s i ∧
        (if Generated.identBaseAll = true then ∀ b ∈ bases, Derived c b i else ∃ b ∈ bases, Derived c b i) := by
  unfold storeId
  rw [storeIdWith_ok_iff hwf]
  simp only [Denotes, and_assoc]

/-- JSON prefixes of the audit module set: module names, no prefix = module `l` (the module of the leaf) -/
def dJson : PrefixMap := ⟨[([97], [97]), ([98], [98]), ([99], [99]), ([108], [108])], some [108]⟩
/-- XML: `xmlns:p="a" xmlns:q="b"`, default namespace = module `c` -/
def dXml : PrefixMap := ⟨[([112], [97]), ([113], [98])], some [99]⟩

-- non-vacuity (repaired reading): "c:bot" is derived from left and right; "loc" (no prefix: module l) only from left; the base itself
-- is refused; an unknown prefix, an unknown name, an empty name
example : storeIdWith true diamond [dLeft, dRight] dJson Generated.LYD_HINT_DATA [99, 58, 98, 111, 116] = .ok dBot ∧
    storeIdWith true diamond [dLeft, dRight] dJson Generated.LYD_HINT_DATA [108, 111, 99] = .error .NotDerived ∧
    storeIdWith false diamond [dLeft, dRight] dJson Generated.LYD_HINT_DATA [108, 111, 99] = .ok dLoc ∧
    storeIdWith true diamond [dLeft] dJson Generated.LYD_HINT_DATA [98, 58, 108, 101, 102, 116] = .error .NotDerived ∧
    storeIdWith true diamond [dTop] dJson Generated.LYD_HINT_DATA [122, 58, 98, 111, 116] = .error .NoPrefix ∧
    storeIdWith true diamond [dTop] dJson Generated.LYD_HINT_DATA [99, 58, 122] = .error .NotFound ∧
    storeIdWith true diamond [dTop] dJson Generated.LYD_HINT_DATA [99, 58] = .error .Empty := by decide
-- the same identity through XML prefixes: "q:left" is b:left, "left" alone is c:left (default namespace), "b:left" is unknown
example : storeIdWith true diamond [dTop] dXml Generated.LYD_HINT_DATA [113, 58, 108, 101, 102, 116] = .ok dLeft ∧
    storeIdWith true diamond [dTop] dXml Generated.LYD_HINT_DATA [108, 101, 102, 116] = .ok dLeft2 ∧
    storeIdWith true diamond [dTop] dXml Generated.LYD_HINT_DATA [98, 58, 108, 101, 102, 116] = .error .NoPrefix := by decide
-- the theorem used left to right: from the accepted "c:bot", derivation from every base
example : Derived diamond dLeft dBot ∧ Derived diamond dRight dBot := by
  have h := (identityref_accept_iff diamond diamond_wf [dLeft, dRight] dJson Generated.LYD_HINT_DATA [99, 58, 98, 111, 116] dBot).mp (by decide)
  exact ⟨h.2.2 dLeft (by simp), h.2.2 dRight (by simp)⟩

/-! ## canonical form -/

/-- `identityref_canonical`: the canonical value is `module-name ":" identity-name` (the JSON form, RFC 7951 §6.8), whatever prefix
    format the value arrived in … -/
theorem identityref_canonical (i : Ident) : canonId i = i.mod ++ [58] ++ i.name := by
  simp [canonId]

/-- … and it is idempotent: in a format where module names are the prefixes (JSON, LYB, canonical) the canonical string of a stored
    identity is stored as the same identity (module names contain no colon). -/
theorem identityref_canon_idempotent (c : IdCtx) (hwf : c.WF) (ab : Bool) (bases : List Ident) (pm pmj : PrefixMap) (hints : Nat) (s : Bytes)
    (i : Ident) (h : storeIdWith ab c bases pm hints s = .ok i) (hcolon : (58 : UInt8) ∉ i.mod) (hmod : i.mod ≠ [])
    (hj : pmj.table.lookup i.mod = some i.mod) :
    storeIdWith ab c bases pmj hints (canonId i) = .ok i := by
  rw [storeIdWith_ok_iff hwf] at h ⊢
  obtain ⟨hh, hne, _, hname, hdef, hnd, hder⟩ := h
  rw [splitPrefix_canon hcolon]
  refine ⟨hh, ?_, ?_, rfl, hdef, hnd, hder⟩
  · rw [hname]; exact hne
  · simp only [resolve]
    have : i.mod.isEmpty = false := by
      cases hm : i.mod with
      | nil => exact absurd hm hmod
      | cons _ _ => rfl
    rw [this]
    simpa using hj

example : canonId dLeft = [98, 58, 108, 101, 102, 116] ∧
    storeIdWith true diamond [dTop] dXml Generated.LYD_HINT_DATA [113, 58, 108, 101, 102, 116] = .ok dLeft ∧
    storeIdWith true diamond [dTop] dJson Generated.LYD_HINT_DATA (canonId dLeft) = .ok dLeft := by decide

/-! ## equality and ordering -/

/-- compare = same identity ⇔ same canonical string (module names without colon) -/
theorem identityref_eq_iff_canon_eq (a b : Ident) (ha : (58 : UInt8) ∉ a.mod) (hb : (58 : UInt8) ∉ b.mod) :
    cmpEqId a b = true ↔ canonId a = canonId b := by
  simp only [cmpEqId, beq_iff_eq]
  exact ⟨fun h => by rw [h], canonId_injective ha hb⟩

/-- the sort callback is a total preorder in both variants of the code … -/
theorem identityref_sort_total_preorder (byModule : Bool) (a b c : Ident) :
    sortIdWith byModule a b = -sortIdWith byModule b a ∧
      (sortIdWith byModule a b ≤ 0 → sortIdWith byModule b c ≤ 0 → sortIdWith byModule a c ≤ 0) :=
  ⟨sortIdWith_antisymm byModule a b, sortIdWith_trans byModule a b c⟩

/-- … but on the pinned tree (names only) its equivalence is NOT equality (finding F411): `b:left` and `c:left` are different
    identities that sort as equal, so their order in a system-ordered leaf-list is the insertion order … -/
theorem identityref_sort_consistent_with_eq_fails :
    ¬ ∀ a b : Ident, sortIdWith false a b = 0 ↔ cmpEqId a b = true := by
  intro h
  exact absurd ((h dLeft dLeft2).mp (by decide)) (by decide)

/-- … it is "same name" … -/
theorem identityref_sort_consistent_with_eq_partial (a b : Ident) : sortIdWith false a b = 0 ↔ a.name = b.name :=
  sortIdWith_false_zero a b

/-- … and the repaired callback (`fixes/F411.diff`: module name as the second key) is consistent with equality. -/
theorem identityref_sort_consistent_with_eq_repaired (a b : Ident) : sortIdWith true a b = 0 ↔ cmpEqId a b = true := by
  rw [sortIdWith_true_zero]; simp [cmpEqId]

example : sortIdWith false dLeft dLeft2 = 0 ∧ sortIdWith true dLeft dLeft2 = -1 ∧ sortIdWith true dLeft2 dLeft = 1 ∧ cmpEqId dLeft dLeft2 = false := by
  decide

end LyModel.Props.C03Ident
