import LyModel.Sib.RbInvLemmas
/-!
# C04, stage 2 — the red-black tree behind a system-ordered (leaf-)list (`tree_data_sorted.c`), insertion

`Rb.insert` mirrors `rb_insert_node` + `rb_insert_color` case by case (same rotations, same recolourings: the shapes are
compared with the real tree by the white-box harness).  The theorems tie it to the sibling-list model: the in-order
sequence of the tree after an insertion is the instance block after `Sib.insertNode` (`sins` = behind every key that is
≤ the new one), and the red-black invariants hold after every insertion.  Removal (`rb_remove`, `rb_remove_color`) is
NOT modelled: the harness checks in-order = sibling order and the red-black invariants on the real tree after every op.
-/
namespace LyModel.Props.C04Rb
open LyModel LyModel.Sib LyModel.Sib.Rb

/-- `inorder (insert t x) = sortedInsert (inorder t) x`, for every comparison `gt` (= `rb_compare(…) > 0`) whose negation is
    transitive and every tree whose in-order sequence is sorted -/
theorem rb_inorder_insert {α : Type} (gt : α → α → Bool)
    (trans : ∀ a b c, gt a b = false → gt b c = false → gt a c = false) (x : α) (t : T α)
    (hs : (inorder t).Pairwise (fun a b => gt a b = false)) :
    inorder (Rb.insert gt x t) = sins (fun a b => !gt a b) x (inorder t) :=
  inorder_insert gt trans x t hs

/-- the comparison the sibling-list model orders system-ordered instances by (`Key.le`, i.e. the type plugin's `sort`
    callback), as `rb_compare(d, x) > 0` -/
def keyGt (d x : Node) : Bool := !(d.key.le x.key)

/-- non-vacuity (audit): hypothesis `trans` holds for the model's REAL key order (numeric and `strcmp` keys) -/
theorem keyGt_trans (a b c : Node) : keyGt a b = false → keyGt b c = false → keyGt a c = false := by
  simp only [keyGt, Bool.not_eq_false']
  exact Key.le_trans a.key b.key c.key

/-- a tree of seven string-keyed list instances (with one equal key), built by the insertion itself -/
def auT : T Node :=
  ([⟨1, some ⟨0, 0⟩, .str [109]⟩, ⟨2, some ⟨0, 0⟩, .str [99]⟩, ⟨3, some ⟨0, 0⟩, .str [120]⟩, ⟨4, some ⟨0, 0⟩, .str [99]⟩,
    ⟨5, some ⟨0, 0⟩, .str [99, 97]⟩, ⟨6, some ⟨0, 0⟩, .str []⟩, ⟨7, some ⟨0, 0⟩, .str [122]⟩] : List Node).foldl
    (fun t x => Rb.insert keyGt x t) T.nil

/-- non-vacuity (audit): the theorem at `auT` (its in-order sequence is sorted: hypothesis `hs`) and a new instance whose key
    `"c"` equals two stored keys: it goes behind both (ids 2, 4) and in front of `"ca"` -/
example : inorder (Rb.insert keyGt ⟨8, some ⟨0, 0⟩, .str [99]⟩ auT) =
      sins (fun a b => !keyGt a b) ⟨8, some ⟨0, 0⟩, .str [99]⟩ (inorder auT) ∧
    (inorder (Rb.insert keyGt ⟨8, some ⟨0, 0⟩, .str [99]⟩ auT)).map (·.id) = [6, 2, 4, 8, 5, 1, 3, 7] :=
  ⟨rb_inorder_insert keyGt keyGt_trans _ auT (by decide), by decide⟩

/-- non-vacuity (audit): the same with integer keys (leaf-list of `int32`), negative values included -/
example : (inorder (Rb.insert keyGt ⟨9, none, .int (-2)⟩
      (([⟨1, none, .int 5⟩, ⟨2, none, .int (-7)⟩, ⟨3, none, .int 0⟩] : List Node).foldl (fun t x => Rb.insert keyGt x t) T.nil))).map (·.id) =
    [2, 9, 3, 1] := by decide

/-- balanced, no red node with a red child, black root — preserved by every insertion -/
theorem rb_insert_isRB {α : Type} (gt : α → α → Bool) (x : α) (t : T α) (h : IsRB t) : IsRB (Rb.insert gt x t) :=
  insert_isRB gt x t h

/-- … hence after any sequence of insertions into the empty tree -/
theorem rb_reachable {α : Type} (gt : α → α → Bool) (xs : List α) :
    IsRB (xs.foldl (fun t x => Rb.insert gt x t) (T.nil : T α)) := by
  have : ∀ (t : T α), IsRB t → IsRB (xs.foldl (fun t x => Rb.insert gt x t) t) := by
    induction xs with
    | nil => intro t h; exact h
    | cons x r ih => intro t h; exact ih _ (insert_isRB gt x t h)
  exact this T.nil ⟨trivial, trivial, rfl⟩

/-- non-vacuity (audit): `IsRB` is met by the seven-node tree `auT` (by `rb_reachable`), `rb_insert_isRB` applies to it -/
example : IsRB auT := rb_reachable keyGt _

example : IsRB (Rb.insert keyGt ⟨8, some ⟨0, 0⟩, .str [99]⟩ auT) := rb_insert_isRB keyGt _ auT (rb_reachable keyGt _)

/-- non-vacuity (audit): `IsRB` is not trivially true — a red root, a red node with a red child and an unbalanced tree
    are rejected -/
example : ¬ IsRB (T.node .red .nil (1 : Nat) .nil) := fun h => by have := h.2.2; revert this; decide

example : ¬ IsRB (T.node .black (.node .red (.node .red .nil (0 : Nat) .nil) 1 .nil) 2 .nil) := fun h => by
  have := (h.2.1.1.2.2 rfl).1
  revert this; decide

example : ¬ IsRB (T.node .black (.node .black .nil (1 : Nat) .nil) 2 .nil) := fun h => by
  have := h.1.2.2
  revert this; decide

/-! non-vacuity: inserting 5, 3, 8, 3, 4, 9, 1 rotates and recolours; the equal key 3 goes behind the first 3 -/
example : inorder ([5, 3, 8, 3, 4, 9, 1].foldl (fun t x => Rb.insert (fun d y => decide (d > y)) x t) (T.nil : T Int)) =
    [1, 3, 3, 4, 5, 8, 9] := by decide

/-- the shape after 5, 3, 8, 3, 4 (one rotation at the last step): the second `3` became the black subtree root with the
    first `3` as its red left child — in-order still has the first `3` first -/
example : shape (fun (k : Int) => toString k)
    ([5, 3, 8, 3, 4].foldl (fun t x => Rb.insert (fun d y => decide (d > y)) x t) (T.nil : T Int)) =
    ["B5", "B3", "R3", ".", ".", "R4", ".", ".", "B8", ".", "."] := by decide

end LyModel.Props.C04Rb
