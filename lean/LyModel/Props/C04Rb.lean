import LyModel.Sib.RbInvLemmas
/-!
# C04, stage 2 — the red-black tree behind a system-ordered (leaf-)list (`tree_data_sorted.c`), insertion

`Rb.insert` mirrors `rb_insert_node` + `rb_insert_color` case by case (same rotations, same recolourings: the shapes are
compared with the real tree by the white-box harness).  The theorems tie it to the sibling-list model: the in-order
sequence of the tree after an insertion is the instance block after `Sib.insertNode` (`sins` = behind every key that is
≤ the new one), and the red-black invariants hold after every insertion.  Removal (`rb_remove`, `rb_remove_color`) is
NOT modelled: the harness checks in-order = sibling order and the red-black invariants on the real tree after every op.
-/
namespace LyModel.Props.C04Rb
open LyModel LyModel.Sib LyModel.Sib.Rb

/-- `inorder (insert t x) = sortedInsert (inorder t) x`, for every comparison `gt` (= `rb_compare(…) > 0`) whose negation is
    transitive and every tree whose in-order sequence is sorted -/
theorem rb_inorder_insert {α : Type} (gt : α → α → Bool)
    (trans : ∀ a b c, gt a b = false → gt b c = false → gt a c = false) (x : α) (t : T α)
    (hs : (inorder t).Pairwise (fun a b => gt a b = false)) :
    inorder (Rb.insert gt x t) = sins (fun a b => !gt a b) x (inorder t) :=
  inorder_insert gt trans x t hs

/-- balanced, no red node with a red child, black root — preserved by every insertion -/
theorem rb_insert_isRB {α : Type} (gt : α → α → Bool) (x : α) (t : T α) (h : IsRB t) : IsRB (Rb.insert gt x t) :=
  insert_isRB gt x t h

/-- … hence after any sequence of insertions into the empty tree -/
theorem rb_reachable {α : Type} (gt : α → α → Bool) (xs : List α) :
    IsRB (xs.foldl (fun t x => Rb.insert gt x t) (T.nil : T α)) := by
  have : ∀ (t : T α), IsRB t → IsRB (xs.foldl (fun t x => Rb.insert gt x t) t) := by
    induction xs with
    | nil => intro t h; exact h
    | cons x r ih => intro t h; exact ih _ (insert_isRB gt x t h)
  exact this T.nil ⟨trivial, trivial, rfl⟩

/-! non-vacuity: inserting 5, 3, 8, 3, 4, 9, 1 rotates and recolours; the equal key 3 goes behind the first 3 -/
example : inorder ([5, 3, 8, 3, 4, 9, 1].foldl (fun t x => Rb.insert (fun d y => decide (d > y)) x t) (T.nil : T Int)) =
    [1, 3, 3, 4, 5, 8, 9] := by decide

/-- the shape after 5, 3, 8, 3, 4 (one rotation at the last step): the second `3` became the black subtree root with the
    first `3` as its red left child — in-order still has the first `3` first -/
example : shape (fun (k : Int) => toString k)
    ([5, 3, 8, 3, 4].foldl (fun t x => Rb.insert (fun d y => decide (d > y)) x t) (T.nil : T Int)) =
    ["B5", "B3", "R3", ".", ".", "R4", ".", ".", "B8", ".", "."] := by decide

end LyModel.Props.C04Rb
