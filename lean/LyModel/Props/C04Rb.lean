import LyModel.Sib.RbInvLemmas
import LyModel.Sib.RbRefineChange
import LyModel.Props.C04
import LyModel.Sib.RbMergeLemmas
import LyModel.Sib.RbFindLemmas
/-!
# C04, stage 2 — the red-black tree behind a system-ordered (leaf-)list (`tree_data_sorted.c`), insertion and removal

`Rb.insert` mirrors `rb_insert_node` + `rb_insert_color` case by case (same rotations, same recolourings: the shapes are
compared with the real tree by the white-box harness).  The theorems tie it to the sibling-list model: the in-order
sequence of the tree after an insertion is the instance block after `Sib.insertNode` (`sins` = behind every key that is
≤ the new one), and the red-black invariants hold after every insertion.  `Rb.remove` mirrors `rb_remove` +
`rb_remove_color` the same way (Sib/RbDel.lean; shapes compared after every op of insert/unlink scripts, harness op `rbs`):
the in-order sequence loses exactly the removed position, the invariants are kept, and both hold along every interleaving
of insertions and removals (`rb_reachable_ins_del`), also with the `lyds_tree` life cycle around it (`lyds_reachable`).
-/
namespace LyModel.Props.C04Rb
open LyModel LyModel.Sib LyModel.Sib.Rb

/-- `inorder (insert t x) = sortedInsert (inorder t) x`, for every comparison `gt` (= `rb_compare(…) > 0`) whose negation is
    transitive and every tree whose in-order sequence is sorted -/
theorem rb_inorder_insert {α : Type} (gt : α → α → Bool)
    (trans : ∀ a b c, gt a b = false → gt b c = false → gt a c = false) (x : α) (t : T α)
    (hs : (inorder t).Pairwise (fun a b => gt a b = false)) :
    inorder (Rb.insert gt x t) = sins (fun a b => !gt a b) x (inorder t) :=
  inorder_insert gt trans x t hs

/-! `keyGt d x = !(d.key.le x.key)` (Sib/RbReach.lean): the comparison the sibling-list model orders system-ordered
   instances by (`Key.le`, i.e. the type plugin's `sort` callback), as `rb_compare(d, x) > 0`. -/

/-- non-vacuity (audit): hypothesis `trans` holds for the model's REAL key order (numeric and `strcmp` keys) -/
theorem keyGt_trans (a b c : Node) : keyGt a b = false → keyGt b c = false → keyGt a c = false :=
  Sib.keyGt_trans a b c

/-- a tree of seven string-keyed list instances (with one equal key), built by the insertion itself -/
def auT : T Node :=
  ([⟨1, some ⟨0, 0⟩, .str [109]⟩, ⟨2, some ⟨0, 0⟩, .str [99]⟩, ⟨3, some ⟨0, 0⟩, .str [120]⟩, ⟨4, some ⟨0, 0⟩, .str [99]⟩,
    ⟨5, some ⟨0, 0⟩, .str [99, 97]⟩, ⟨6, some ⟨0, 0⟩, .str []⟩, ⟨7, some ⟨0, 0⟩, .str [122]⟩] : List Node).foldl
    (fun t x => Rb.insert keyGt x t) T.nil

/-- non-vacuity (audit): the theorem at `auT` (its in-order sequence is sorted: hypothesis `hs`) and a new instance whose key
    `"c"` equals two stored keys: it goes behind both (ids 2, 4) and in front of `"ca"` -/
example : inorder (Rb.insert keyGt ⟨8, some ⟨0, 0⟩, .str [99]⟩ auT) =
      sins (fun a b => !keyGt a b) ⟨8, some ⟨0, 0⟩, .str [99]⟩ (inorder auT) ∧
    (inorder (Rb.insert keyGt ⟨8, some ⟨0, 0⟩, .str [99]⟩ auT)).map (·.id) = [6, 2, 4, 8, 5, 1, 3, 7] :=
  ⟨rb_inorder_insert keyGt keyGt_trans _ auT (by decide), by decide⟩

/-- non-vacuity (audit): the same with integer keys (leaf-list of `int32`), negative values included -/
example : (inorder (Rb.insert keyGt ⟨9, none, .int (-2)⟩
      (([⟨1, none, .int 5⟩, ⟨2, none, .int (-7)⟩, ⟨3, none, .int 0⟩] : List Node).foldl (fun t x => Rb.insert keyGt x t) T.nil))).map (·.id) =
    [2, 9, 3, 1] := by decide

/-- balanced, no red node with a red child, black root — preserved by every insertion -/
theorem rb_insert_isRB {α : Type} (gt : α → α → Bool) (x : α) (t : T α) (h : IsRB t) : IsRB (Rb.insert gt x t) :=
  insert_isRB gt x t h

/-- … hence after any sequence of insertions into the empty tree -/
theorem rb_reachable {α : Type} (gt : α → α → Bool) (xs : List α) :
    IsRB (xs.foldl (fun t x => Rb.insert gt x t) (T.nil : T α)) := by
  have : ∀ (t : T α), IsRB t → IsRB (xs.foldl (fun t x => Rb.insert gt x t) t) := by
    induction xs with
    | nil => intro t h; exact h
    | cons x r ih => intro t h; exact ih _ (insert_isRB gt x t h)
  exact this T.nil ⟨trivial, trivial, rfl⟩

/-- non-vacuity (audit): `IsRB` is met by the seven-node tree `auT` (by `rb_reachable`), `rb_insert_isRB` applies to it -/
example : IsRB auT := rb_reachable keyGt _

example : IsRB (Rb.insert keyGt ⟨8, some ⟨0, 0⟩, .str [99]⟩ auT) := rb_insert_isRB keyGt _ auT (rb_reachable keyGt _)

/-- non-vacuity (audit): `IsRB` is not trivially true — a red root, a red node with a red child and an unbalanced tree
    are rejected -/
example : ¬ IsRB (T.node .red .nil (1 : Nat) .nil) := fun h => by have := h.2.2; revert this; decide

example : ¬ IsRB (T.node .black (.node .red (.node .red .nil (0 : Nat) .nil) 1 .nil) 2 .nil) := fun h => by
  have := (h.2.1.1.2.2 rfl).1
  revert this; decide

example : ¬ IsRB (T.node .black (.node .black .nil (1 : Nat) .nil) 2 .nil) := fun h => by
  have := h.1.2.2
  revert this; decide

/-! non-vacuity: inserting 5, 3, 8, 3, 4, 9, 1 rotates and recolours; the equal key 3 goes behind the first 3 -/
example : inorder ([5, 3, 8, 3, 4, 9, 1].foldl (fun t x => Rb.insert (fun d y => decide (d > y)) x t) (T.nil : T Int)) =
    [1, 3, 3, 4, 5, 8, 9] := by decide

/-- the shape after 5, 3, 8, 3, 4 (one rotation at the last step): the second `3` became the black subtree root with the
    first `3` as its red left child — in-order still has the first `3` first -/
example : shape (fun (k : Int) => toString k)
    ([5, 3, 8, 3, 4].foldl (fun t x => Rb.insert (fun d y => decide (d > y)) x t) (T.nil : T Int)) =
    ["B5", "B3", "R3", ".", ".", "R4", ".", ".", "B8", ".", "."] := by decide

/-! ## removal -/

/-- `rb_remove` + `rb_remove_color` of the red-black node at in-order position `i` (the node `rb_find` returns for the `i`-th
    instance): the in-order sequence afterwards is the old one with exactly that position deleted — for EVERY tree (no
    balance or order hypothesis: the rotations and recolourings of the fix-up never reorder) -/
theorem rb_inorder_remove {α : Type} (t : T α) (i : Nat) : inorder (Rb.remove i t) = (inorder t).eraseIdx i :=
  inorder_remove t i

/-- equal black heights, no red node with a red child, black root — kept by every removal (at any position; a position
    beyond the end removes nothing) -/
theorem rb_remove_isRB {α : Type} (i : Nat) (t : T α) (h : IsRB t) : IsRB (Rb.remove i t) :=
  remove_isRB i t h

/-- non-vacuity (audit): on the seven-node tree `auT` — removing the root (two children: the successor `"x"` takes its
    place), a black leaf (black height repaired by the fix-up) and the first of the two equal keys -/
example : (inorder (Rb.remove 4 auT)).map (·.id) = [6, 2, 4, 5, 3, 7] ∧ IsRB (Rb.remove 4 auT) ∧
    (inorder (Rb.remove 0 auT)).map (·.id) = [2, 4, 5, 1, 3, 7] ∧ IsRB (Rb.remove 0 auT) ∧
    (inorder (Rb.remove 1 auT)).map (·.id) = [6, 4, 5, 1, 3, 7] :=
  ⟨by decide, rb_remove_isRB _ _ (rb_reachable keyGt _), by decide, rb_remove_isRB _ _ (rb_reachable keyGt _), by decide⟩

/-- the shapes: 1..7 inserted in order give `B2 (B1) (R4 (B3) (B6 R5 R7))`; removing the black leaf `1` meets the RED sibling
    `4`: rotate (`4` black on top, `2` red), then the new sibling `3` has black nephews and a red parent: `3` red, `2` black —
    exactly the walk of `rb_remove_color` (the same tokens the white-box harness prints) -/
example : shape (fun (k : Int) => toString k)
    (Rb.remove 0 ([1, 2, 3, 4, 5, 6, 7].foldl (fun t x => Rb.insert (fun d y => decide (d > y)) x t) (T.nil : T Int))) =
    ["B4", "B2", ".", "R3", ".", ".", "B6", "R5", ".", ".", "R7", ".", "."] := by decide

/-! `RbOp α` = `.ins x` (`rb_insert_node` of a new instance) | `.del i` (`rb_remove_node` of the instance at position `i`);
   `rbStep gt t op` = `Rb.insert gt x t` / `Rb.remove i t` (what the C code does to the tree);
   `seqStep gt l op` = `sins (≤) x l` / `l.eraseIdx i` (what the edit means for the sorted-stable instance list: a new instance
   goes behind every instance `≤` it, an unlinked one disappears, nothing else moves) — Sib/RbReach.lean -/

/-- EVERY tree reachable from a valid one by any interleaving of insertions and removals is a valid red-black tree, its
    in-order sequence is the instance list maintained by sorted-stable insertion and deletion, and that list is sorted —
    for every comparison whose `≤` (`rb_compare(a, b) <= 0`) is total and transitive -/
theorem rb_reachable_ins_del {α : Type} (gt : α → α → Bool)
    (total : ∀ a b, gt a b = false ∨ gt b a = false)
    (trans : ∀ a b c, gt a b = false → gt b c = false → gt a c = false)
    (ops : List (RbOp α)) (t : T α) (h : IsRB t) (hs : (inorder t).Pairwise (fun a b => gt a b = false)) :
    IsRB (ops.foldl (rbStep gt) t) ∧
    inorder (ops.foldl (rbStep gt) t) = ops.foldl (seqStep gt) (inorder t) ∧
    (inorder (ops.foldl (rbStep gt) t)).Pairwise (fun a b => gt a b = false) := by
  induction ops generalizing t with
  | nil => exact ⟨h, rfl, hs⟩
  | cons o r ih =>
    simp only [List.foldl_cons]
    cases o with
    | ins x =>
      have hi : inorder (Rb.insert gt x t) = sins (fun a b => !gt a b) x (inorder t) := inorder_insert gt trans x t hs
      have hs' : (inorder (Rb.insert gt x t)).Pairwise (fun a b => gt a b = false) := by
        rw [hi]
        have := sins_sorted (fun a b => !gt a b) (by intro a b; simpa using total a b)
          (by intro a b c; simpa using trans a b c) x (inorder t) (by simpa using hs)
        simpa using this
      have := ih (Rb.insert gt x t) (insert_isRB gt x t h) hs'
      simpa only [rbStep, seqStep, hi] using this
    | del i =>
      have hi : inorder (Rb.remove i t) = (inorder t).eraseIdx i := inorder_remove t i
      have hs' : (inorder (Rb.remove i t)).Pairwise (fun a b => gt a b = false) := by
        rw [hi]; exact hs.sublist (List.eraseIdx_sublist ..)
      have := ih (Rb.remove i t) (remove_isRB i t h) hs'
      simpa only [rbStep, seqStep, hi] using this

theorem keyGt_total (a b : Node) : keyGt a b = false ∨ keyGt b a = false := Sib.keyGt_total a b

/-- non-vacuity (audit): from the empty tree with the model's real key order; 9 edits with removals at the front (the
    leader), in the middle and of an equal key -/
def auOps : List (RbOp Node) :=
  [.ins ⟨1, none, .int 5⟩, .ins ⟨2, none, .int 3⟩, .ins ⟨3, none, .int 8⟩, .ins ⟨4, none, .int 3⟩, .del 0, .ins ⟨5, none, .int 4⟩,
   .ins ⟨6, none, .int 9⟩, .del 2, .ins ⟨7, none, .int 1⟩, .del 1, .ins ⟨8, none, .int 8⟩]

example : IsRB (auOps.foldl (rbStep keyGt) T.nil) ∧
    (inorder (auOps.foldl (rbStep keyGt) T.nil)).map (·.id) = [7, 5, 3, 8, 6] :=
  ⟨(rb_reachable_ins_del keyGt keyGt_total keyGt_trans auOps T.nil ⟨trivial, trivial, rfl⟩ List.Pairwise.nil).1, by decide⟩

/-! ## the `lyds_tree` metadata around the tree (`lyds_insert`, `lyds_unlink`) -/

/-! `Lyds` (Sib/RbDel.lean) = the tree the `lyds_tree` metadata of the first instance points to + the instance count;
   `Lyds.insert` = `lyds_insert` (no tree with one instance; built from the instance present when the second arrives),
   `Lyds.unlink` = `lyds_unlink` (`rb_remove_node`; the last instance takes the metadata and the tree with it).
   `LydsOk s l` (Sib/RbReach.lean): `s.n = l.length`, `IsRB s.tree`, and either there is no tree (yet: it is built from the
   instances present by the next `lyds_insert`) or `inorder s.tree = l`;  `lydsStep gt (s, l) op` = both components edited (`.del i` with `i` beyond the list: no-op). -/

/-- every history of insertions and unlinks of instances, from no instance at all, keeps `LydsOk` and the sibling order
    sorted: the lazily created tree (`lyds_additionally_create_rb_tree` with the second instance), every `rb_insert_node`,
    every `rb_remove_node` — including the one of the leader, after which the root pointer belongs to the next instance —
    and the disposal with the last instance -/
theorem lyds_reachable {α : Type} (gt : α → α → Bool)
    (total : ∀ a b, gt a b = false ∨ gt b a = false)
    (trans : ∀ a b c, gt a b = false → gt b c = false → gt a c = false)
    (ops : List (RbOp α)) :
    LydsOk (ops.foldl (lydsStep gt) (Lyds.empty, [])).1 (ops.foldl (lydsStep gt) (Lyds.empty, [])).2 ∧
    (ops.foldl (lydsStep gt) (Lyds.empty, [])).2.Pairwise (fun a b => gt a b = false) :=
  lyds_run_ok gt total trans ops (Lyds.empty, []) ⟨rfl, ⟨trivial, trivial, rfl⟩, Or.inl rfl⟩ List.Pairwise.nil

/-- non-vacuity (audit): the same 11 edits through the life cycle; the tree is absent with one instance, present after -/
example : size ((auOps.take 1).foldl (lydsStep keyGt) (Lyds.empty, [])).1.tree = 0 ∧
    (inorder (auOps.foldl (lydsStep keyGt) (Lyds.empty, [])).1.tree).map (·.id) = [7, 5, 3, 8, 6] ∧
    LydsOk (auOps.foldl (lydsStep keyGt) (Lyds.empty, [])).1 (auOps.foldl (lydsStep keyGt) (Lyds.empty, [])).2 :=
  ⟨by decide, by decide, (lyds_reachable keyGt keyGt_total keyGt_trans auOps).1⟩

/-! ## `rb_find` (Sib/RbDel.lean `find`: `cmp d` = `rb_compare(d, target)`, `is d` = `RBN_DNODE(d) == target`)

`rb_find` does not look for a VALUE but for the red-black node of one particular data node: it descends by the value
(`> 0` left, `< 0` right) to the first node whose value compares equal, and — if that is not the node of the target — walks
over the neighbours with the same value, predecessors first, then successors, until it meets the target's node.  So among
equal values it returns THE target, wherever it stands among them (not the first of them). -/

/-- whatever `rb_find` returns is the position of a node that is the target — on every tree, sorted or not -/
theorem rb_find_sound {α : Type} (cmp : α → Int) (is : α → Bool) (t : T α) (j : Nat) (h : Rb.find cmp is t = some j) :
    ∃ A y B, inorder t = A ++ y :: B ∧ j = A.length ∧ is y = true :=
  find_sound cmp is t j h

/-- on a tree whose in-order sequence is sorted with respect to the target (smaller values, equal ones, greater ones:
    `SortedFor`), and with a target that compares equal to itself, `rb_find` finds the target whenever it is in the tree -/
theorem rb_find_complete {α : Type} (cmp : α → Int) (is : α → Bool) (his : ∀ d, is d = true → cmp d = 0) (t : T α)
    (hs : SortedFor cmp (inorder t)) (hex : ∃ d ∈ inorder t, is d = true) : (Rb.find cmp is t).isSome = true :=
  find_complete cmp is his t hs hex

/-- … hence, the target being in the tree exactly once (a data node has one red-black node), `rb_find` returns exactly its
    position, whatever equal values surround it — the position `Rb.remove` is then applied to -/
theorem rb_find_unique {α : Type} (cmp : α → Int) (is : α → Bool) (his : ∀ d, is d = true → cmp d = 0) (t : T α)
    (hs : SortedFor cmp (inorder t)) (A : List α) (y : α) (B : List α) (ht : inorder t = A ++ y :: B) (hy : is y = true)
    (hA : ∀ a ∈ A, is a = false) (hB : ∀ b ∈ B, is b = false) : Rb.find cmp is t = some A.length :=
  find_unique cmp is his t hs A y B ht hy hA hB

/-- non-vacuity (audit): in `auT` (keys "", "c", "c", "ca", "m", "x", "z"; ids 6, 2, 4, 5, 1, 3, 7) the SECOND of the two equal
    keys "c" (id 4) is found at position 2 and the first (id 2) at position 1; an id that is not there is not found -/
def auCmp (d : Node) : Int := if keyGt d ⟨0, none, .str [99]⟩ then 1 else if keyGt ⟨0, none, .str [99]⟩ d then -1 else 0

def auTgt : Node := ⟨4, some ⟨0, 0⟩, .str [99]⟩

theorem auT_sortedFor : SortedFor auCmp (inorder auT) := by unfold SortedFor; decide

example : Rb.find auCmp (fun d => d == auTgt) auT = some 2 ∧
    Rb.find auCmp (fun d => d == ⟨2, some ⟨0, 0⟩, .str [99]⟩) auT = some 1 ∧
    Rb.find auCmp (fun d => d == ⟨9, some ⟨0, 0⟩, .str [99]⟩) auT = none := by decide

example : Rb.find auCmp (fun d => d == auTgt) auT = some 2 :=
  rb_find_unique auCmp (fun d => d == auTgt) (by intro d hd; have : d = auTgt := by simpa using hd
                                                 subst this; decide)
    auT auT_sortedFor (inorder (Rb.remove 2 auT) |>.take 2) auTgt (inorder auT |>.drop 3) (by decide) (by decide) (by decide) (by decide)

/-! ## `lyds_split`, `lyds_insert2` and the `lyds_pool` (`lyd_unlink_siblings` from the middle; `lyd_merge` with `LYD_MERGE_DESTRUCT`)

`Lyds.split i` = `lyds_split`: from the leader on the whole list leaves with its tree; otherwise the `i`-th and every following
instance is taken out by `rb_remove_node`, one by one.  `Lyds.insert2` = `lyds_insert2`: the red-black node (and, for a
leader without tree, the metadata and the nodes `lyds_additionally_reuse_rb_tree` rebuilds the tree from) comes out of the pool
the source tree was taken apart into — `rb_insert_node` and the lazily built tree are those of `lyds_insert`, so it IS
`Lyds.insert` on the tree level (the pool's bookkeeping — every node handed out once, the rest freed — is what ASan and the
leak check of op `rbd` watch on the real code). -/

/-- what stays behind after `lyd_unlink_siblings` of the `i`-th instance: the first `i` instances, and a valid tree that lists
    exactly them (none needed: `i = 0`) -/
theorem lyds_split_inorder {α : Type} (s : Lyds α) (l : List α) (i : Nat) (h : LydsOk s l) : LydsOk (s.split i) (l.take i) :=
  lyds_split_ok s l i h

/-- a bulk merge with `LYD_MERGE_DESTRUCT` — the source instances `xs` that the target lacks moved one by one through
    `lyds_insert2` — leaves a valid tree listing exactly the instances, the sibling order sorted -/
theorem lyds_pool_merge_ok {α : Type} (gt : α → α → Bool)
    (total : ∀ a b, gt a b = false ∨ gt b a = false)
    (trans : ∀ a b c, gt a b = false → gt b c = false → gt a c = false)
    (xs : List α) (s : Lyds α) (l : List α) (h : LydsOk s l) (hs : l.Pairwise (fun a b => gt a b = false)) :
    let r := xs.foldl (fun (st : Lyds α × List α) x => (st.1.insert2 gt st.2 x, sins (fun a b => !gt a b) x st.2)) (s, l)
    LydsOk r.1 r.2 ∧ r.2.Pairwise (fun a b => gt a b = false) := by
  have h' := lyds_run_ok gt total trans (xs.map RbOp.ins) (s, l) h hs
  have e : ∀ (ys : List α) (st : Lyds α × List α),
      (ys.map RbOp.ins).foldl (lydsStep gt) st =
      ys.foldl (fun (st : Lyds α × List α) x => (st.1.insert2 gt st.2 x, sins (fun a b => !gt a b) x st.2)) st := by
    intro ys
    induction ys with
    | nil => intro st; rfl
    | cons y r ih => intro st; simp only [List.map_cons, List.foldl_cons]; rw [ih]; rfl
  rw [e] at h'
  exact h'

/-- non-vacuity (audit): five instances, split at position 2 (two stay, three leave through `rb_remove_node`), then a
    destruct-merge of three more -/
example : let st := ([5, 3, 8, 1, 9].foldl (fun (st : Lyds Int × List Int) x =>
        (st.1.insert (fun d y => decide (d > y)) st.2 x, sins (fun a b => !decide (a > b)) x st.2)) (Lyds.empty, []))
    inorder st.1.tree = [1, 3, 5, 8, 9] ∧ inorder (st.1.split 2).tree = [1, 3] ∧ (st.1.split 2).n = 2 ∧ size (st.1.split 0).tree = 0 := by
  decide

/-- `lyd_merge_*` with `LYD_MERGE_DESTRUCT` at the concrete level, both sides.  `Lyds.poolAdd`: the source list's metadata and
    tree go to the pool (`lyds_pool_add`).  `destructStep gt st i`: the `i`-th remaining source instance is moved —
    `lyd_unlink_ignore_lyds` from the source (which has no tree any more), `lyds_insert2` into the target (tree built from
    ALL target instances by `lyds_additionally_reuse_rb_tree` / `_create_rb_nodes` if the target had none, however long it is,
    then `rb_insert_node`).  After ANY sequence of moves: the target's tree lists exactly the target's instances (valid, sorted)
    and what is left of the source is a tree-less list of exactly the remaining instances -/
theorem merge_destruct_tree_ok {α : Type} (gt : α → α → Bool)
    (total : ∀ a b, gt a b = false ∨ gt b a = false)
    (trans : ∀ a b c, gt a b = false → gt b c = false → gt a c = false)
    (moves : List Nat) (d : Lyds α) (dl : List α) (s : Lyds α) (sl : List α)
    (hd : LydsOk d dl) (hds : dl.Pairwise (fun a b => gt a b = false)) (hs : LydsOk s sl) :
    let r := moves.foldl (destructStep gt) ((d, dl), (s.poolAdd, sl))
    LydsOk r.1.1 r.1.2 ∧ r.1.2.Pairwise (fun a b => gt a b = false) ∧ LydsOk r.2.1 r.2.2 ∧ r.2.1.tree = T.nil :=
  destruct_run_ok gt total trans moves ((d, dl), (s.poolAdd, sl)) hd hds ⟨hs.1, isRB_nil, Or.inl rfl⟩ rfl

/-- non-vacuity (audit): a target of five instances WITHOUT a tree (as after `lyd_dup_*`), a source of two (a pool of two
    nodes): the first move rebuilds the target tree from all five instances and inserts 35 between the 3rd and the 4th -/
def mdR : (Lyds Int × List Int) × (Lyds Int × List Int) :=
  [0, 0].foldl (destructStep (fun (d y : Int) => decide (d > y)))
    (((⟨T.nil, 5⟩ : Lyds Int), [10, 20, 30, 40, 50]),
     ((⟨[35, 45, 60].foldl (fun t x => Rb.insert (fun d y => decide (d > y)) x t) T.nil, 3⟩ : Lyds Int).poolAdd, [35, 45, 60]))

example : inorder mdR.1.1.tree = [10, 20, 30, 35, 40, 45, 50] ∧ mdR.2.2 = [60] ∧ mdR.2.1.n = 1 := by decide

/-! ## the sibling-list invariant with the CONCRETE sorting tree (refinement of `C04.inv_step_unlink` / `C04.inv_reachable`)

`Sib.unlinkNode` and `Sib.insertNode` abstract the sorting tree of a system-ordered (leaf-)list to its in-order sequence,
the block of instances in the sibling list.  `CSibs` (Sib/RbRefine.lean) carries the tree along: `sibs` = the sibling list
with its hash table as in `C04`, `lyds` = the `Lyds` record of the system-ordered (leaf-)list `x`; `cstep` edits `sibs` by
`Sib.step` and `lyds` by `Lyds.insert keyGt (leader) n` when an instance of `x` is inserted and by
`Lyds.unlink (position of the node inside the block)` when one is unlinked; `block x l` = the instances of `x` in `l`. -/

/-- `lyd_unlink` at the red-black level: if the tree lists the instances of `x` (`LydsOk`), then after unlinking ANY node —
    an instance of `x` (the leader included: the record then belongs to the next instance), or any other node — the tree
    that `rb_remove_node` leaves lists exactly the instances of `x` in the new sibling list, and is a valid red-black tree -/
theorem unlink_refines (S : Schema) (cx : Cx) (x : SRef) (hx : (S x).sorted = true) (c : CSibs) (id : Nat)
    (h : Inv S cx c.sibs) (href : LydsOk c.lyds (block x c.sibs.nodes)) :
    (cstep S cx true x c (.unlink id)).sibs = unlinkNode S cx c.sibs id ∧
    LydsOk (cstep S cx true x c (.unlink id)).lyds (block x (unlinkNode S cx c.sibs id).nodes) :=
  ⟨rfl, cstep_ok S cx true x hx c (.unlink id) h trivial rfl href⟩

/-- every history of `lyd_insert_node` / `lyd_unlink` / `lyd_insert_before` / `lyd_insert_after` from a canonical list whose
    tree lists the instances: the sibling component is the run of `C04.inv_reachable`, it is canonical, and the concrete tree
    still lists exactly the instances of `x`, is a valid red-black tree, and exists iff … (`LydsOk`) -/
theorem inv_reachable_rb (S : Schema) (cx : Cx) (fixed : Bool) (x : SRef) (hx : (S x).sorted = true) (ops : List Op) (c : CSibs)
    (h : Inv S cx c.sibs) (href : LydsOk c.lyds (block x c.sibs.nodes))
    (hok : HistOk S cx fixed c.sibs ops) (hc : ∀ o ∈ ops, isChange o = false) :
    (crun S cx fixed x c ops).sibs = runOps S cx fixed c.sibs ops ∧
    Inv S cx (crun S cx fixed x c ops).sibs ∧
    LydsOk (crun S cx fixed x c ops).lyds (block x (crun S cx fixed x c ops).sibs.nodes) :=
  ⟨crun_sibs S cx fixed x ops c, crun_ok S cx fixed x hx ops c h hok hc href⟩

/-- non-vacuity (audit): a sibling list under a container — system-ordered leaf-list `x = ⟨0, 1⟩`, a leaf, a second
    system-ordered list — nine edits: five instances of `x` (the tree appears with the second), the leader unlinked (the
    record passes to the next instance), a middle one unlinked, foreign nodes inserted and unlinked in between -/
def rfS : Schema := fun r => match r.idx with | 0 => .list .sys | 1 => .leaflist .sys | _ => .leaf
def rfCx : Cx := { nested := true, top := false, nsch := fun _ => 4 }
def rfOps : List Op :=
  [.insert ⟨1, some ⟨0, 1⟩, .int 5⟩, .insert ⟨2, some ⟨0, 2⟩, .str []⟩, .insert ⟨3, some ⟨0, 1⟩, .int 3⟩,
   .insert ⟨4, some ⟨0, 0⟩, .str [97]⟩, .insert ⟨5, some ⟨0, 1⟩, .int 8⟩, .insert ⟨6, some ⟨0, 1⟩, .int 3⟩, .unlink 3,
   .insert ⟨7, some ⟨0, 1⟩, .int 4⟩, .unlink 2, .unlink 7, .insert ⟨8, some ⟨0, 0⟩, .str [98]⟩]

theorem rfOps_ok : HistOk rfS rfCx true ⟨[], none⟩ rfOps := C04.histOkB_sound (by decide)

example : let c := crun rfS rfCx true ⟨0, 1⟩ ⟨⟨[], none⟩, Lyds.empty⟩ rfOps
    c.sibs.nodes.map (·.id) = [4, 8, 6, 1, 5] ∧ (inorder c.lyds.tree).map (·.id) = [6, 1, 5] ∧
    Inv rfS rfCx c.sibs ∧ LydsOk c.lyds (block ⟨0, 1⟩ c.sibs.nodes) :=
  ⟨by decide, by decide,
   (inv_reachable_rb rfS rfCx true ⟨0, 1⟩ rfl rfOps ⟨⟨[], none⟩, Lyds.empty⟩ (C04.inv_init _ _ (by decide))
     ⟨rfl, ⟨trivial, trivial, rfl⟩, Or.inl rfl⟩ rfOps_ok (by decide)).2⟩

/-- non-vacuity (audit): `unlink_refines` on the state after the first six edits (instances 3, 3, 5, 8 of `x`): the LEADER
    (id 3) leaves — the tree loses exactly it and stays a red-black tree -/
example : let c := crun rfS rfCx true ⟨0, 1⟩ ⟨⟨[], none⟩, Lyds.empty⟩ (rfOps.take 6)
    (inorder c.lyds.tree).map (·.id) = [3, 6, 1, 5] ∧
    (inorder (cstep rfS rfCx true ⟨0, 1⟩ c (.unlink 3)).lyds.tree).map (·.id) = [6, 1, 5] ∧
    LydsOk (cstep rfS rfCx true ⟨0, 1⟩ c (.unlink 3)).lyds (block ⟨0, 1⟩ (unlinkNode rfS rfCx c.sibs 3).nodes) := by
  have h := inv_reachable_rb rfS rfCx true ⟨0, 1⟩ rfl (rfOps.take 6) ⟨⟨[], none⟩, Lyds.empty⟩ (C04.inv_init _ _ (by decide))
    ⟨rfl, ⟨trivial, trivial, rfl⟩, Or.inl rfl⟩ (C04.histOkB_sound (by decide)) (by decide)
  exact ⟨by decide, by decide, (unlink_refines rfS rfCx ⟨0, 1⟩ rfl _ 3 h.2.1 h.2.2).2⟩

/-- `C04.inv_reachable` at the red-black level, change-value included (corrected call order): `cstepF` / `crunF`
    (Sib/RbRefineChange.lean) extend `cstep` by `lyd_change_node_value` — an instance of `x` that is not alone is
    `lyd_unlink_tree`d (`Lyds.unlink`) and re-inserted (`Lyds.insert`), a lone one is changed in place and its one-node tree,
    if any, keeps its shape.  For EVERY history admitted by `C04.inv_reachable`: same sibling lists, canonical, and the
    concrete tree lists exactly the instances of `x` and is a valid red-black tree -/
theorem inv_reachable_rb_change (S : Schema) (cx : Cx) (x : SRef) (hx : (S x).sorted = true) (ops : List Op) (c : CSibs)
    (h : Inv S cx c.sibs) (href : LydsOk c.lyds (block x c.sibs.nodes)) (hok : HistOk S cx true c.sibs ops) :
    (crunF S cx x c ops).sibs = runOps S cx true c.sibs ops ∧
    Inv S cx (crunF S cx x c ops).sibs ∧
    LydsOk (crunF S cx x c ops).lyds (block x (crunF S cx x c ops).sibs.nodes) :=
  ⟨crunF_sibs S cx x ops c, crunF_ok S cx x hx ops c h hok href⟩

/-- non-vacuity (audit): `rfOps` followed by two change-value ops — the instance 5 (id 1, not alone) becomes 9 and moves behind 8
    (unlink + insert in the tree), then, after two unlinks, the lone remaining instance is changed in place -/
def rfOpsC : List Op := rfOps ++ [.change 1 (.int 9), .unlink 6, .unlink 5, .change 1 (.int 2)]

example : let c := crunF rfS rfCx ⟨0, 1⟩ ⟨⟨[], none⟩, Lyds.empty⟩ (rfOps ++ [.change 1 (.int 9)])
    (inorder c.lyds.tree).map (·.id) = [6, 5, 1] :=
  by decide

example : let c := crunF rfS rfCx ⟨0, 1⟩ ⟨⟨[], none⟩, Lyds.empty⟩ rfOpsC
    c.sibs.nodes.map (·.id) = [4, 8, 1] ∧ (inorder c.lyds.tree).map (·.key) = [.int 2] ∧
    Inv rfS rfCx c.sibs ∧ LydsOk c.lyds (block ⟨0, 1⟩ c.sibs.nodes) :=
  ⟨by decide, by decide,
   (inv_reachable_rb_change rfS rfCx ⟨0, 1⟩ rfl rfOpsC ⟨⟨[], none⟩, Lyds.empty⟩ (C04.inv_init _ _ (by decide))
     ⟨rfl, ⟨trivial, trivial, rfl⟩, Or.inl rfl⟩ (C04.histOkB_sound (by decide))).2⟩

/-- `lyd_dup_single / lyd_dup_siblings(node, parent, …)` into a caller-supplied parent that ALREADY has children, seen from the
    parent's child list: the copies `copies` (fresh identities; `HistOk`: each may be inserted) are linked one by one by
    `lyd_insert_node`.  The child list afterwards is the canonical (sorted-stable) insertion of the copies into the old
    children, it satisfies the sibling-list invariant, and the concrete sorting tree of every system-ordered (leaf-)list `x`
    lists exactly the instances of `x` — old ones and copies — and is a valid red-black tree (or is still to be built).
    (The `first_llist` fast path of `lyd_dup` appends a copy only where appending IS this position; that the C code takes it
    only then is what the differential `dupinto` of C14 and the white-box law families of C04 check.) -/
theorem dup_into_parent_canonical (S : Schema) (cx : Cx) (x : SRef) (hx : (S x).sorted = true) (copies : List Node) (c : CSibs)
    (h : Inv S cx c.sibs) (href : LydsOk c.lyds (block x c.sibs.nodes))
    (hok : HistOk S cx true c.sibs (copies.map Op.insert)) :
    (crun S cx true x c (copies.map Op.insert)).sibs.nodes = sinsAll (fun a b => nle S a b) c.sibs.nodes copies ∧
    Inv S cx (crun S cx true x c (copies.map Op.insert)).sibs ∧
    LydsOk (crun S cx true x c (copies.map Op.insert)).lyds (block x (crun S cx true x c (copies.map Op.insert)).sibs.nodes) := by
  have hc : ∀ o ∈ copies.map Op.insert, isChange o = false := by
    intro o ho
    obtain ⟨n, _, rfl⟩ := List.mem_map.mp ho
    rfl
  obtain ⟨e, hi, hl⟩ := inv_reachable_rb S cx true x hx _ c h href hok hc
  refine ⟨?_, hi, hl⟩
  rw [e, runOps_inserts_nodes S cx true copies c.sibs h hok]

/-- non-vacuity (audit): the parent of `rfOps` (children: keyed-list instances "a", "b", leaf-list values 3, 5, 8) receives copies of
    the leaf-list values 4, 9, 1 and of a keyed-list instance "ab": each lands at its sorted place, the tree lists all six values -/
def dpCopies : List Node :=
  [⟨30, some ⟨0, 1⟩, .int 4⟩, ⟨31, some ⟨0, 1⟩, .int 9⟩, ⟨32, some ⟨0, 1⟩, .int 1⟩, ⟨33, some ⟨0, 0⟩, .str [97, 98]⟩]

def dpC : CSibs := crun rfS rfCx true ⟨0, 1⟩ ⟨⟨[], none⟩, Lyds.empty⟩ rfOps

theorem dpCopies_ok : HistOk rfS rfCx true dpC.sibs (dpCopies.map Op.insert) := C04.histOkB_sound (by decide)

example : (crun rfS rfCx true ⟨0, 1⟩ dpC (dpCopies.map Op.insert)).sibs.nodes.map (·.id) = [4, 33, 8, 32, 6, 30, 1, 5, 31] ∧
    (inorder (crun rfS rfCx true ⟨0, 1⟩ dpC (dpCopies.map Op.insert)).lyds.tree).map (·.id) = [32, 6, 30, 1, 5, 31] := by decide

example : LydsOk (crun rfS rfCx true ⟨0, 1⟩ dpC (dpCopies.map Op.insert)).lyds
    (block ⟨0, 1⟩ (crun rfS rfCx true ⟨0, 1⟩ dpC (dpCopies.map Op.insert)).sibs.nodes) := by
  have h := inv_reachable_rb rfS rfCx true ⟨0, 1⟩ rfl rfOps ⟨⟨[], none⟩, Lyds.empty⟩ (C04.inv_init _ _ (by decide))
    ⟨rfl, ⟨trivial, trivial, rfl⟩, Or.inl rfl⟩ rfOps_ok (by decide)
  exact (dup_into_parent_canonical rfS rfCx ⟨0, 1⟩ rfl dpCopies dpC h.2.1 h.2.2 dpCopies_ok).2.2

/-- The `first_llist` fast path of `lyd_dup` as an explicit model path (`Lyds.dupInto`, Sib/RbDel.lean): the first copy is linked
    at its sorted place; the following copies are APPENDED (`LYD_INSERT_NODE_LAST`, no search, no red-black node) exactly under
    the condition the C code tests — the first copy became the last sibling and the parent held no instance before — and go
    through `lyd_insert_node(…, DEFAULT)` otherwise.  For copies that arrive in order (they are the instances of a canonical
    sibling list) BOTH paths give the one-by-one canonical insertion: the same sibling order as `sins` copy by copy, a record that
    fits it (`LydsOk`: a valid tree listing the instances, or — fast path — none yet, to be built from all of them by the next
    `lyds_insert`), and a sorted list.  (Drop the second half of the C's test — mutation M1 — and the code appends copies behind
    earlier instances without putting them into the existing tree: `LydsOk` fails, and the shape differential `rbp` sees it.) -/
theorem dup_fastpath_eq_insert {α : Type} (gt : α → α → Bool)
    (total : ∀ a b, gt a b = false ∨ gt b a = false)
    (trans : ∀ a b c, gt a b = false → gt b c = false → gt a c = false)
    (st : Lyds α × List α) (copies : List α) (h : LydsOk st.1 st.2)
    (hs : st.2.Pairwise (fun a b => gt a b = false)) (hc : copies.Pairwise (fun a b => gt a b = false)) :
    (Lyds.dupInto gt st copies).2 = copies.foldl (fun l y => sins (fun a b => !gt a b) y l) st.2 ∧
    LydsOk (Lyds.dupInto gt st copies).1 (Lyds.dupInto gt st copies).2 ∧
    (Lyds.dupInto gt st copies).2.Pairwise (fun a b => gt a b = false) :=
  dupInto_ok gt total trans st copies h hs hc

/-- non-vacuity (audit): into an EMPTY parent the three copies are appended and there is no tree (fast path); into a parent that
    holds 10 and 40 the copies 20, 30, 50 are inserted one by one into its tree (the first copy 20 does not become last) -/
example : (Lyds.dupInto (fun (d y : Int) => decide (d > y)) (Lyds.empty, []) [20, 30, 50]).2 = [20, 30, 50] ∧
    size (Lyds.dupInto (fun (d y : Int) => decide (d > y)) (Lyds.empty, []) [20, 30, 50]).1.tree = 0 ∧
    (Lyds.dupInto (fun (d y : Int) => decide (d > y)) (Lyds.empty, []) [20, 30, 50]).1.n = 3 := by decide

example : let st0 := (Lyds.insert (fun (d y : Int) => decide (d > y)) [10] 40 ⟨T.nil, 1⟩, [10, 40])
    inorder (Lyds.dupInto (fun (d y : Int) => decide (d > y)) st0 [20, 30, 50]).1.tree = [10, 20, 30, 40, 50] ∧
    (Lyds.dupInto (fun (d y : Int) => decide (d > y)) st0 [20, 30, 50]).2 = [10, 20, 30, 40, 50] := by decide

/-- … and the case M1 is about: the parent holds 10, 20 (a tree exists), the first copy 30 becomes the last sibling — the fast
    path must NOT be taken: 40 and 50 are in the tree -/
example : let st0 := (Lyds.insert (fun (d y : Int) => decide (d > y)) [10] 20 ⟨T.nil, 1⟩, [10, 20])
    inorder (Lyds.dupInto (fun (d y : Int) => decide (d > y)) st0 [30, 40, 50]).1.tree = [10, 20, 30, 40, 50] := by decide

/-! ## `lyds_merge`: a whole (leaf-)list moved onto the instances already present (Sib/RbMerge.lean)

`mergeTree gt dst dl src sl`: `dl` / `sl` = destination / source instances in sibling order, `dst` / `src` = their trees (`nil` =
none).  Source without tree (`lyds_merge_nodes1`): its instances are inserted in sibling order (into the tree built from
the lone destination instance if there is none).  Source tree only (`lyds_merge_nodes2`): the DESTINATION instances are
inserted into the SOURCE tree, which becomes the destination's.  Both (`lyds_merge_nodes3`): the source tree is taken apart
in `rb_iter_*` order (post-order, `iterOrder`) and each node re-inserted into the destination tree. -/

/-- whichever of the three paths runs: the tree the destination leader ends up with is a valid red-black tree, and its
    in-order sequence — the sibling order the data nodes are linked in — is sorted and consists of exactly the instances of
    both lists -/
theorem lyds_merge_inorder {α : Type} (gt : α → α → Bool)
    (total : ∀ a b, gt a b = false ∨ gt b a = false)
    (trans : ∀ a b c, gt a b = false → gt b c = false → gt a c = false)
    (dst : T α) (dl : List α) (src : T α) (sl : List α)
    (hd : IsRB dst) (hdl : dst = T.nil ∨ inorder dst = dl) (hds : dl.Pairwise (fun a b => gt a b = false))
    (hs : IsRB src) (hsl : src = T.nil ∨ inorder src = sl) (hss : sl.Pairwise (fun a b => gt a b = false)) :
    IsRB (mergeTree gt dst dl src sl) ∧
    (inorder (mergeTree gt dst dl src sl)).Pairwise (fun a b => gt a b = false) ∧
    (inorder (mergeTree gt dst dl src sl)).Perm (dl ++ sl) :=
  mergeTree_ok gt total trans dst dl src sl hd hdl hds hs hsl hss

/-- non-vacuity (audit): both sides with a tree (`lyds_merge_nodes3`: 2, 4, 6 leave the source tree in the order 2, 6, 4), a lone
    destination instance under a source tree (`nodes2`), and a tree-less source (a duplicate) onto a tree (`nodes1`) -/
def mgD : T Int := [1, 5, 9].foldl (fun t x => Rb.insert (fun d y => decide (d > y)) x t) T.nil
def mgS : T Int := [2, 4, 6].foldl (fun t x => Rb.insert (fun d y => decide (d > y)) x t) T.nil

example : iterOrder mgS = [2, 6, 4] ∧
    inorder (mergeTree (fun d y => decide (d > y)) mgD [1, 5, 9] mgS [2, 4, 6]) = [1, 2, 4, 5, 6, 9] ∧
    inorder (mergeTree (fun d y => decide (d > y)) T.nil [5] mgS [2, 4, 6]) = [2, 4, 5, 6] ∧
    inorder (mergeTree (fun d y => decide (d > y)) mgD [1, 5, 9] T.nil [2, 4, 6]) = [1, 2, 4, 5, 6, 9] := by decide

example : IsRB (mergeTree (fun d y => decide (d > y)) mgD [1, 5, 9] mgS [2, 4, 6]) :=
  (lyds_merge_inorder (fun (d y : Int) => decide (d > y)) (by intro a b; simp; omega) (by intro a b c; simp; omega)
    mgD [1, 5, 9] mgS [2, 4, 6] (rb_reachable _ _) (Or.inr (by decide)) (by decide) (rb_reachable _ _) (Or.inr (by decide))
    (by decide)).1

end LyModel.Props.C04Rb
