import LyModel.Base
/-!
# Support definitions of the C-to-Lean translator (`tools/c2lean.py`)

The translator emits total Lean functions over the fixed-width integer types of core Lean
(`UInt8 … UInt64`, `Int8 … Int64`; C's wrap-around, truncating conversions and sign extension are the
operations of these types).  Memory is modelled by value:

* a byte buffer (`char *`, `uint8_t *`) is a `List UInt8`;
* `rd b i` is the read `b[i]`.  Reading at or behind the end of the list yields `0`: for a C string the list
  holds the bytes before the terminating NUL, so the read of the terminator is the read at `b.length`;
* `wr b i v` is the store `b[i] = v`.  A store at or behind the end *extends* the list (zero filled), so an
  out-of-bounds store of the translated code is visible as a changed length — "the function stores only
  inside the caller's buffer" is the statement `(f … buf …).buf.length = buf.length`;
* `Flow ρ σ` is the result of a translated loop: it either left the function (`ret`, by `return` or a `goto`
  to the trailing label) or fell out of the loop with the values of the variables it assigns (`next`).

Core Lean only (linked into `lydrv`).
-/
namespace LyModel.C

/-- `b[i]` -/
@[inline] def rd (b : List UInt8) (i : Nat) : UInt8 := b.getD i 0

/-- `b[i] = v`; a store outside the list extends it (so that it can be observed) -/
def wr (b : List UInt8) (i : Nat) (v : UInt8) : List UInt8 :=
  if i < b.length then b.set i v else b ++ List.replicate (i - b.length) 0 ++ [v]

/-- table lookup `t[i]` in a file-scope constant array (index outside the table: `0`) -/
@[inline] def tbl {α : Type} [Inhabited α] (t : Array α) (i : Nat) : α := t.getD i default

/-- the `n` bytes at `b + off` (what `ly_write_(out, b + off, n)` appends) -/
def rdn (b : List UInt8) (off n : Nat) : List UInt8 := (List.range n).map (fun i => rd b (off + i))

/-- `printf("%.<prec>X", v)`: upper-case hexadecimal, at least `prec` digits -/
def fmtX (prec : Nat) (v : UInt32) : List UInt8 :=
  let ds := (Nat.toDigits 16 v.toNat).map (fun c => UInt8.ofNat c.toUpper.toNat)
  List.replicate (prec - ds.length) 48 ++ ds

/-- libc `iscntrl` in the C locale (modelled, not verified): non-zero for 0–31 and 127 -/
def iscntrl (c : Int32) : Int32 := if (0 ≤ c ∧ c < 32) ∨ c = 127 then 1 else 0

/-- libc `isdigit` (modelled, not verified) -/
def isdigit (c : Int32) : Int32 := if 48 ≤ c ∧ c ≤ 57 then 1 else 0

inductive Flow (ρ σ : Type) where
  | ret : ρ → Flow ρ σ
  | next : σ → Flow ρ σ

theorem wr_length_of_lt (b : List UInt8) (i : Nat) (v : UInt8) (h : i < b.length) : (wr b i v).length = b.length := by
  simp [wr, h]

theorem wr_eq_set (b : List UInt8) (i : Nat) (v : UInt8) (h : i < b.length) : wr b i v = b.set i v := by
  simp [wr, h]

@[simp] theorem wr_cons_zero (a : UInt8) (l : List UInt8) (v : UInt8) : wr (a :: l) 0 v = v :: l := by
  simp [wr]

theorem wr_cons_succ (a : UInt8) (l : List UInt8) (i : Nat) (v : UInt8) : wr (a :: l) (i + 1) v = a :: wr l i v := by
  unfold wr
  by_cases h : i < l.length <;> simp [h]

@[simp] theorem wr_cons_one (a : UInt8) (l : List UInt8) (v : UInt8) : wr (a :: l) 1 v = a :: wr l 0 v := wr_cons_succ a l 0 v
@[simp] theorem wr_cons_two (a : UInt8) (l : List UInt8) (v : UInt8) : wr (a :: l) 2 v = a :: wr l 1 v := wr_cons_succ a l 1 v
@[simp] theorem wr_cons_three (a : UInt8) (l : List UInt8) (v : UInt8) : wr (a :: l) 3 v = a :: wr l 2 v := wr_cons_succ a l 2 v

theorem rd_append_left (a b : List UInt8) (i : Nat) (h : i < a.length) : rd (a ++ b) i = rd a i := by
  simp [rd, List.getD_eq_getElem?_getD, List.getElem?_append_left h]

end LyModel.C
