import LyModel.Base
/-!
Model of `lyht_hash_multi` / `lyht_hash` (hash_table.c): Bob Jenkins' one-at-a-time hash on `uint32_t`.

Quirks mirrored:
* `key_part` is a `const char *`; on the verified platform (x86-64 Linux, clang/gcc) `char` is signed, so
  `hash += key_part[i]` adds the *sign-extended* byte (bytes ≥ 0x80 add `0xFFFFFF80 …`).
* `lyht_hash_multi(h, key, 0)` with a non-NULL key runs the *finalisation* branch (`if (key_part && len)`),
  so `lyht_hash("", 0)` finalises twice (and still yields 0).
-/
namespace LyModel.LyHt.Jenkins

/-- `(uint32_t)(int)(signed char)b` -/
def sext (b : UInt8) : UInt32 :=
  if b.toNat < 128 then b.toUInt32 else b.toUInt32 ||| 0xFFFFFF00

def step (h : UInt32) (b : UInt8) : UInt32 :=
  let h := h + sext b
  let h := h + (h <<< 10)
  h ^^^ (h >>> 6)

def fin (h : UInt32) : UInt32 :=
  let h := h + (h <<< 3)
  let h := h ^^^ (h >>> 11)
  h + (h <<< 15)

/-- `lyht_hash_multi(hash, key_part, len)`; `none` = NULL key part -/
def hashMulti (h : UInt32) (key : Option Bytes) : UInt32 :=
  match key with
  | some k => if k.length ≠ 0 then k.foldl step h else fin h
  | none => fin h

/-- `lyht_hash(key, len)` -/
def hash (key : Bytes) : UInt32 :=
  hashMulti (hashMulti 0 (some key)) none

end LyModel.LyHt.Jenkins
