import LyModel.LyHt.Model
/-!
L2 model of `hash_table.c`: an array of bucket lists (`buckets[i]` = the chain of `hlists[i]`, first to last) with
the same bucket function `hash & (size - 1)`, the same append-at-the-end insertion, the same resize policy and the
same re-insertion order on resize.  `used` is the number of stored records.  L3 = `Ht2.toList` up to permutation.
The dictionary model (`LyModel.Dict`) is built on this layer; `LyModel.LyHt.Refine` relates L1 to it.
-/
namespace LyModel.LyHt
open LyModel.Generated

variable {α : Type}

structure Ht2 (α : Type) where
  size : Nat
  resize : Nat
  buckets : List (List (UInt32 × α))
deriving Repr

/-- apply `f` to the `i`-th element -/
def updAt {β : Type} : List β → Nat → (β → β) → List β
  | [], _, _ => []
  | x :: xs, 0, f => f x :: xs
  | x :: xs, i + 1, f => x :: updAt xs i f

namespace Ht2

def empty (size resize : Nat) : Ht2 α := { size := size, resize := resize, buckets := List.replicate size [] }

/-- `lyht_new` -/
def new (size resize : Nat) : Ht2 α :=
  empty (if size < LYHT_MIN_SIZE then LYHT_MIN_SIZE else size) resize

def idx (h : Ht2 α) (hash : UInt32) : Nat := hash.toNat &&& (h.size - 1)
def bucket (h : Ht2 α) (hash : UInt32) : List (UInt32 × α) := h.buckets.getD (h.idx hash) []
def toList (h : Ht2 α) : List (UInt32 × α) := h.buckets.flatten
def used (h : Ht2 α) : Nat := h.toList.length

/-- the test of `lyht_find_rec`: same hash and the callback says equal -/
def hit (ve : VEq α) (mod : Bool) (v : α) (hash : UInt32) (r : UInt32 × α) : Bool :=
  r.1 == hash && ve mod v r.2

/-- `lyht_find` -/
def find (h : Ht2 α) (ve : VEq α) (v : α) (hash : UInt32) : Option α :=
  ((h.bucket hash).find? (hit ve false v hash)).map (·.2)

/-- records after the first one satisfying `p` -/
def afterFirst (p : β → Bool) : List β → Option (List β)
  | [] => none
  | x :: xs => if p x then some xs else afterFirst p xs

/-- `lyht_find_next_with_collision_cb` -/
def findNext (h : Ht2 α) (ve : VEq α) (cve : Option (VEq α)) (v : α) (hash : UInt32) : Res α :=
  let e := cve.getD ve
  match afterFirst (hit e true v hash) (h.bucket hash) with
  | none => .eint
  | some rest =>
    match rest.find? (hit e false v hash) with
    | some r => .ok (some r.2)
    | none => .notfound

/-- append at the end of the bucket of `hash` -/
def link (h : Ht2 α) (v : α) (hash : UInt32) : Ht2 α :=
  { h with buckets := updAt h.buckets (h.idx hash) (· ++ [(hash, v)]) }

/-- nested insert of `lyht_resize` -/
def insertCore (h : Ht2 α) (ve : VEq α) (check : Bool) (v : α) (hash : UInt32) : Ht2 α :=
  if check && ((h.bucket hash).find? (hit ve true v hash)).isSome then h else h.link v hash

/-- `lyht_resize` -/
def resizeTo (h : Ht2 α) (ve : VEq α) (check : Bool) (newSize : Nat) : Ht2 α :=
  h.toList.foldl (fun t (r : UInt32 × α) => t.insertCore ve check r.2 r.1) (empty newSize h.resize)

/-- the "enable shrinking" step of `_lyht_insert_with_resize_cb`: `if ((ht->resize == 1) && (r >= 50)) ht->resize = 2` -/
def armed (h1 : Ht2 α) : Ht2 α :=
  if h1.resize = 1 ∧ (h1.used * 100) / h1.size ≥ LYHT_FIRST_SHRINK_PERCENTAGE then { h1 with resize := 2 } else h1

/-- `_lyht_insert_with_resize_cb` -/
def insert (h : Ht2 α) (ve : VEq α) (rve : Option (VEq α)) (check wantMatch : Bool) (v : α) (hash : UInt32) :
    Res α × Ht2 α :=
  match (if check then (h.bucket hash).find? (hit ve true v hash) else none) with
  | some r => (.exist r.2, h)
  | none =>
    if ¬ h.used < h.size then (.full, h) else
    let h1 := h.link v hash
    if h1.resize ≠ 0 then
      let r := (h1.used * 100) / h1.size
      let h2 := h1.armed
      if h2.resize = 2 ∧ r ≥ LYHT_ENLARGE_PERCENTAGE then
        let e := rve.getD ve
        let h3 := h2.resizeTo e check (h2.size * 2)
        if wantMatch then
          match h3.find e v hash with
          | some m => (.ok (some m), h3)
          | none => (.notfound, h3)
        else (.ok none, h3)
      else (.ok (if wantMatch then some v else none), h2)
    else (.ok (if wantMatch then some v else none), h1)

/-- remove the first element satisfying `p` -/
def eraseFirst (p : β → Bool) : List β → List β
  | [] => []
  | x :: xs => if p x then xs else x :: eraseFirst p xs

/-- `lyht_remove_with_resize_cb` -/
def remove (h : Ht2 α) (ve : VEq α) (rve : Option (VEq α)) (v : α) (hash : UInt32) : Res α × Ht2 α :=
  match (h.bucket hash).find? (hit ve true v hash) with
  | none => (.notfound, h)
  | some _ =>
    let h1 : Ht2 α := { h with buckets := updAt h.buckets (h.idx hash) (eraseFirst (hit ve true v hash)) }
    if h1.resize = 2 then
      let rr := (h1.used * 100) / h1.size
      if rr < LYHT_SHRINK_PERCENTAGE ∧ h1.size > LYHT_MIN_SIZE then
        (.ok none, h1.resizeTo (rve.getD ve) true (h1.size / 2))
      else (.ok none, h1)
    else (.ok none, h1)

end Ht2

/-- abstraction L1 → L2 -/
def Ht.toL2 [Inhabited α] (h : Ht α) : Ht2 α :=
  { size := h.size, resize := h.resize,
    buckets := (List.range h.size).map fun b => chainList h (h.size + 1) (h.hl b).1 }

end LyModel.LyHt
