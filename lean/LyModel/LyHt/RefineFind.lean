import LyModel.LyHt.RefineLink
/-!
L1 → L2, part 3: `lyht_find_rec`, the nested insert of `lyht_resize`, `lyht_init_hlists_and_records`, `lyht_resize`.
-/
namespace LyModel.LyHt
open List LyModel.Generated

variable {α : Type} [Inhabited α]

/-- the test of `lyht_find_rec` on record index `i` -/
def Ht.hitAt (h : Ht α) (ve : VEq α) (mod : Bool) (v : α) (hash : UInt32) (i : Nat) : Bool :=
  Ht2.hit ve mod v hash (h.item i)

theorem Inv1.bucket_eq {h : Ht α} {cs : List (List Nat)} {fl : List Nat} (hi : Inv1 h cs fl) (hash : UInt32) :
    h.toL2.bucket hash = (cs.getD (h.idx hash) []).map h.item := by
  rw [hi.toL2_eq]; unfold Ht2.bucket Ht2.idx; simp only; rw [getD_map_nil]; rfl

/-- `lyht_find_rec` finds the first matching record of the chain, and reports its predecessor -/
theorem findRec_cases {h : Ht α} {cs : List (List Nat)} {fl : List Nat} (hi : Inv1 h cs fl) (ve : VEq α) (mod : Bool) (v : α)
    (hash : UInt32) :
    (h.findRec ve mod v hash = none ∧ ∀ i ∈ cs.getD (h.idx hash) [], h.hitAt ve mod v hash i = false) ∨
    (∃ pre a post, cs.getD (h.idx hash) [] = pre ++ a :: post ∧ (∀ i ∈ pre, h.hitAt ve mod v hash i = false) ∧
      h.hitAt ve mod v hash a = true ∧ h.findRec ve mod v hash = some (a, pre.getLast?.getD NO)) := by
  have hb := h.idx_lt hi.pos hash
  have hchain := hi.chain _ hb
  have hne : ∀ i ∈ cs.getD (h.idx hash) [], i ≠ NO := by
    intro i him; have := hi.chain_mem_lt him; have := hi.small; omega
  have hlen : (cs.getD (h.idx hash) []).length < h.size + 1 := by
    have hnd : (cs.getD (h.idx hash) []).Nodup := by
      have := hi.nodup; rw [List.nodup_append] at this
      exact (getD_sublist_flatten cs _).nodup this.1
    have hsub : cs.getD (h.idx hash) [] ⊆ List.range h.size := fun i him => List.mem_range.2 (hi.chain_mem_lt him)
    have := List.Nodup.length_le_of_subset hnd hsub
    rw [List.length_range] at this; omega
  have hp : ∀ i, (fun r : Rec α => r.hash == hash && ve mod v r.val) (h.recAt i) = h.hitAt ve mod v hash i := fun i => rfl
  cases firstSplit (h.hitAt ve mod v hash) (cs.getD (h.idx hash) []) with
  | none hn =>
    left
    refine ⟨?_, hn⟩
    unfold Ht.findRec
    exact walkFind_none h _ _ _ _ _ hchain hne hlen (fun i him => (hp i).trans (hn i him))
  | some pre a post e hpre ha =>
    right
    refine ⟨pre, a, post, e, hpre, ha, ?_⟩
    unfold Ht.findRec
    rw [e] at hchain hne hlen
    exact walkFind_some h _ pre a post _ _ _ hchain hne hlen (fun i him => (hp i).trans (hpre i him)) ((hp a).trans ha)

theorem find?_map_none {β γ : Type} (g : β → γ) (p : γ → Bool) (l : List β) (hn : ∀ i ∈ l, p (g i) = false) :
    (l.map g).find? p = none := by
  refine find?_none_of _ ?_
  intro x hx
  obtain ⟨i, hi, rfl⟩ := List.mem_map.1 hx
  exact hn i hi

theorem find?_map_some {β γ : Type} (g : β → γ) (p : γ → Bool) (pre : List β) (a : β) (post : List β)
    (hn : ∀ i ∈ pre, p (g i) = false) (ha : p (g a) = true) : ((pre ++ a :: post).map g).find? p = some (g a) := by
  rw [List.map_append, List.map_cons]
  refine find?_split ?_ ha
  intro x hx
  obtain ⟨i, hi, rfl⟩ := List.mem_map.1 hx
  exact hn i hi

/-- `lyht_find_rec` against the L2 bucket search -/
theorem findRec_l2 {h : Ht α} {cs : List (List Nat)} {fl : List Nat} (hi : Inv1 h cs fl) (ve : VEq α) (mod : Bool) (v : α)
    (hash : UInt32) :
    (h.findRec ve mod v hash).map (fun p => h.item p.1) = (h.toL2.bucket hash).find? (Ht2.hit ve mod v hash) := by
  rw [hi.bucket_eq]
  rcases findRec_cases hi ve mod v hash with ⟨h1, h2⟩ | ⟨pre, a, post, e, h1, h2, h3⟩
  · rw [h1, find?_map_none h.item (Ht2.hit ve mod v hash) _ h2]; rfl
  · rw [h3, e, find?_map_some h.item (Ht2.hit ve mod v hash) _ _ _ h1 h2]; rfl

/-- `lyht_find` -/
theorem find_l2 {h : Ht α} {cs : List (List Nat)} {fl : List Nat} (hi : Inv1 h cs fl) (ve : VEq α) (v : α) (hash : UInt32) :
    h.find ve v hash = h.toL2.find ve v hash := by
  unfold Ht.find Ht2.find
  rw [← findRec_l2 hi ve false v hash, Option.map_map]
  rfl

/-- free records: `first_free_rec < size` exactly when `used < size` -/
theorem Inv1.free_iff {h : Ht α} {cs : List (List Nat)} {fl : List Nat} (hi : Inv1 h cs fl) :
    h.firstFree < h.size ↔ h.used < h.size := by
  have hlen := hi.perm.length_eq
  rw [List.length_append, List.length_range, ← hi.used] at hlen
  cases hfl : fl with
  | nil =>
    have := hi.free; rw [hfl] at this hlen; simp only [IsChain] at this
    simp at hlen; omega
  | cons a fl' =>
    have := hi.free; rw [hfl] at this hlen
    have ha : a < h.size := hi.mem_lt (by rw [hfl]; simp)
    simp at hlen; rw [this.1]; omega

theorem Inv1.used_eq {h : Ht α} {cs : List (List Nat)} {fl : List Nat} (hi : Inv1 h cs fl) : h.toL2.used = h.used := by
  rw [hi.toL2_eq, hi.used]; unfold Ht2.used Ht2.toList; simp [List.length_flatten, Function.comp_def]

/-- nested insert of `lyht_resize` -/
theorem insertCore_l2 {h : Ht α} {cs : List (List Nat)} {fl : List Nat} (hi : Inv1 h cs fl) (ve : VEq α) (check : Bool) (v : α)
    (hash : UInt32) (hfree : h.used < h.size) :
    (∃ cs' fl', Inv1 (h.insertCore ve check v hash) cs' fl') ∧
    (h.insertCore ve check v hash).toL2 = h.toL2.insertCore ve check v hash := by
  unfold Ht.insertCore Ht2.insertCore
  have hfind := findRec_l2 hi ve true v hash
  by_cases hc : (check && (h.findRec ve true v hash).isSome) = true
  · rw [if_pos hc]
    have : (check && ((h.toL2.bucket hash).find? (Ht2.hit ve true v hash)).isSome) = true := by
      rw [← hfind]; simpa using hc
    rw [if_pos this]
    exact ⟨⟨cs, fl, hi⟩, rfl⟩
  · rw [if_neg hc]
    have : ¬ (check && ((h.toL2.bucket hash).find? (Ht2.hit ve true v hash)).isSome) = true := by
      rw [← hfind]; simpa using hc
    rw [if_neg this, if_pos (hi.free_iff.2 hfree)]
    obtain ⟨fl', _, h1, h2⟩ := link_inv1 h cs fl hi v hash (hi.free_iff.2 hfree)
    exact ⟨⟨_, fl', h1⟩, h2⟩

/-! ### `lyht_init_hlists_and_records` and `lyht_resize` -/

theorem isChain_range' (nxt : Nat → Nat) (n : Nat) (hn : ∀ i, i < n → nxt i = i + 1) (m s : Nat) (hs : s + m = n) :
    IsChain nxt n s (List.range' s m) := by
  induction m generalizing s with
  | zero => simp only [List.range'_zero, IsChain]; omega
  | succ m ih =>
    rw [List.range'_succ]
    refine ⟨rfl, ?_⟩
    rw [hn s (by omega)]
    exact ih (s + 1) (by omega)

theorem initTable_inv1 (n r : Nat) (hn : 0 < n) (hsmall : n < NO) :
    Inv1 (initTable n r : Ht α) (List.replicate n []) (List.range n) := by
  have hrec : ∀ i, i < n → (initTable n r : Ht α).nxt i = i + 1 := by
    intro i hi
    unfold Ht.nxt Ht.recAt initTable
    simp only [Array.getD_eq_getD_getElem?, Array.getElem?_ofFn, hi, dite_true, Option.getD_some]
  have hhl : ∀ b, (initTable n r : Ht α).hl b = (NO, NO) := by
    intro b
    unfold Ht.hl initTable
    simp only [Array.getD_eq_getD_getElem?, Array.getElem?_replicate]
    split <;> rfl
  have hget : ∀ b, (List.replicate n ([] : List Nat)).getD b [] = [] := by
    intro b
    rw [List.getD_eq_getElem?_getD, List.getElem?_replicate]
    split <;> rfl
  refine ⟨by simp [initTable], by simp [initTable], by simp [initTable], hn, hsmall, ?_, ?_, ?_, ?_, ?_, ?_⟩
  · intro b _; rw [hget, hhl]; rfl
  · intro b _ x hx; rw [hget] at hx; simp at hx
  · have := isChain_range' (initTable n r : Ht α).nxt n hrec n 0 (by omega)
    rw [List.range_eq_range']
    exact this
  · simp [initTable]
  · intro b _ i hi; rw [hget] at hi; simp at hi
  · simp [initTable]

theorem initTable_toL2 (n r : Nat) (hn : 0 < n) (hsmall : n < NO) : (initTable n r : Ht α).toL2 = Ht2.empty n r := by
  rw [(initTable_inv1 n r hn hsmall).toL2_eq]
  unfold Ht2.empty
  simp [initTable]

theorem link_size (h : Ht α) (v : α) (hash : UInt32) : (h.link v hash).1.size = h.size ∧ (h.link v hash).1.used = h.used + 1 := by
  unfold Ht.link; exact ⟨rfl, rfl⟩

theorem insertCore_size (h : Ht α) (ve : VEq α) (c : Bool) (v : α) (hash : UInt32) :
    (h.insertCore ve c v hash).size = h.size ∧ (h.insertCore ve c v hash).used ≤ h.used + 1 := by
  unfold Ht.insertCore
  split
  · exact ⟨rfl, by omega⟩
  · split
    · have := link_size h v hash; exact ⟨this.1, by omega⟩
    · exact ⟨rfl, by omega⟩

theorem fold_l2 (ve : VEq α) (check : Bool) (l : List (UInt32 × α)) (t : Ht α) (cs : List (List Nat)) (fl : List Nat)
    (hi : Inv1 t cs fl) (hroom : t.used + l.length ≤ t.size) :
    (∃ cs' fl', Inv1 (l.foldl (fun t (r : UInt32 × α) => t.insertCore ve check r.2 r.1) t) cs' fl') ∧
    (l.foldl (fun t (r : UInt32 × α) => t.insertCore ve check r.2 r.1) t).toL2 = l.foldl (Ht2.reins ve check) t.toL2 := by
  induction l generalizing t cs fl with
  | nil => exact ⟨⟨cs, fl, hi⟩, rfl⟩
  | cons r l ih =>
    simp only [List.length_cons] at hroom
    obtain ⟨⟨cs', fl', hi'⟩, h2⟩ := insertCore_l2 hi ve check r.2 r.1 (by omega)
    have hs := insertCore_size t ve check r.2 r.1
    simp only [List.foldl_cons]
    have := ih (t.insertCore ve check r.2 r.1) cs' fl' hi' (by rw [hs.1]; omega)
    refine ⟨this.1, ?_⟩
    rw [this.2, h2]

theorem toList_l2 (h : Ht α) : h.toList = h.toL2.toList := by
  unfold Ht.toList Ht2.toList Ht.toL2
  simp only [List.flatMap_def]

/-- `lyht_resize` -/
theorem resizeTo_l2 {h : Ht α} {cs : List (List Nat)} {fl : List Nat} (hi : Inv1 h cs fl) (ve : VEq α) (check : Bool) (n : Nat)
    (hn : 0 < n) (hsmall : n < NO) (hroom : h.used ≤ n) :
    (∃ cs' fl', Inv1 (h.resizeTo ve check n) cs' fl') ∧ (h.resizeTo ve check n).toL2 = h.toL2.resizeTo ve check n := by
  unfold Ht.resizeTo Ht2.resizeTo
  have hlen : h.toList.length = h.used := by rw [toList_l2, ← hi.used_eq]; rfl
  have := fold_l2 ve check h.toList (initTable n h.resize) _ _ (initTable_inv1 n h.resize hn hsmall)
    (by rw [hlen]; simp [initTable]; exact hroom)
  refine ⟨this.1, ?_⟩
  rw [this.2, initTable_toL2 n h.resize hn hsmall, toList_l2]
  rfl

end LyModel.LyHt
