import LyModel.LyHt.Spec
import LyModel.LyHt.LemmasOps
/-!
Refinement L2 → L3 along every history, for the keyed use of the table.
-/
namespace LyModel.LyHt
open List LyModel.Generated

variable {α : Type}

/-- the callback is one equivalence relation, whatever `mod` is -/
structure IsEquiv (ve : VEq α) (e : α → α → Bool) : Prop where
  ind : ∀ m a b, ve m a b = e a b
  refl : ∀ a, e a a = true
  symm : ∀ a b, e a b = true → e b a = true
  trans : ∀ a b c, e a b = true → e b c = true → e a c = true

theorem pairwise_mem {β : Type} {R : β → β → Prop} {l : List β} (hp : l.Pairwise R) {a b : β} (ha : a ∈ l) (hb : b ∈ l) :
    a = b ∨ R a b ∨ R b a := by
  induction l with
  | nil => cases ha
  | cons x xs ih =>
    rw [List.pairwise_cons] at hp
    rcases List.mem_cons.1 ha with ha | ha <;> rcases List.mem_cons.1 hb with hb | hb
    · left; rw [ha, hb]
    · right; left; rw [ha]; exact hp.1 b hb
    · right; right; rw [hb]; exact hp.1 a ha
    · exact ih hp.2 ha hb

/-- simulation relation between a table and the abstract set -/
structure Rel (ve : VEq α) (h : Ht2 α) (l : List (UInt32 × α)) : Prop where
  inv : Inv2 h
  load : Load h
  rs : h.resize ≠ 0
  perm : h.toList ~ l
  dist : Ht2.Distinct ve l

namespace Ht2

theorem hit_eq {ve : VEq α} {e : α → α → Bool} (he : IsEquiv ve e) (m : Bool) (v : α) (hash : UInt32) :
    hit ve m v hash = fun r => r.1 == hash && e v r.2 := by
  funext r; unfold hit; rw [he.ind]

theorem uniq {ve : VEq α} {e : α → α → Bool} (he : IsEquiv ve e) {l : List (UInt32 × α)} (hd : Distinct ve l)
    {v : α} {hash : UInt32} {a b : UInt32 × α} (ha : a ∈ l) (hb : b ∈ l)
    (pa : (a.1 == hash && e v a.2) = true) (pb : (b.1 == hash && e v b.2) = true) : a = b := by
  simp only [Bool.and_eq_true, beq_iff_eq] at pa pb
  have hab : e a.2 b.2 = true := he.trans _ _ _ (he.symm _ _ pa.2) pb.2
  rcases pairwise_mem hd ha hb with h | h | h
  · exact h
  · exact absurd ⟨by rw [pa.1, pb.1], Or.inl (by rw [he.ind]; exact hab)⟩ h
  · exact absurd ⟨by rw [pa.1, pb.1], Or.inr (by rw [he.ind]; exact hab)⟩ h

/-- searching the bucket `hash & (size-1)` finds exactly what the abstract set holds -/
theorem look_eq {ve : VEq α} {e : α → α → Bool} (he : IsEquiv ve e) {h : Ht2 α} {l : List (UInt32 × α)} (hr : Rel ve h l)
    (m : Bool) (v : α) (hash : UInt32) : (h.bucket hash).find? (hit ve m v hash) = look e l v hash := by
  unfold look
  cases hf : (h.bucket hash).find? (hit ve m v hash) with
  | none =>
    have hn := (find_none_iff h hr.inv ve m v hash).1 hf
    symm
    refine find?_none_of l ?_
    intro x hx
    have := hn x (hr.perm.mem_iff.2 hx)
    rwa [hit_eq he] at this
  | some r =>
    obtain ⟨h1, h2, h3⟩ := find_some_mem h hr.inv ve m v hash r hf
    have pr : (r.1 == hash && e v r.2) = true := by rw [h2, ← he.ind m, h3]; simp
    cases hq : l.find? (fun r => r.1 == hash && e v r.2) with
    | none =>
      rw [List.find?_eq_none] at hq
      exact absurd pr (hq r (hr.perm.mem_iff.1 h1))
    | some r' =>
      have h1' := List.mem_of_find?_eq_some hq
      have pr' := List.find?_some hq
      rw [uniq he hr.dist (hr.perm.mem_iff.1 h1) h1' pr pr']

theorem distinct_tail {ve : VEq α} {x : UInt32 × α} {l : List (UInt32 × α)} (h : Distinct ve (x :: l)) : Distinct ve l := by
  unfold Distinct at h ⊢; exact (List.pairwise_cons.1 h).2

theorem free_of_load' {h : Ht2 α} (hi : Inv2 h) (hl : Load h) (hrs : h.resize ≠ 0) : h.used < h.size := by
  have := lt_of_div hi.pos (hl.lt hrs)
  simp only [LYHT_ENLARGE_PERCENTAGE] at this
  omega

theorem insert_resize_ne (h : Ht2 α) (ve : VEq α) (rve : Option (VEq α)) (check wm : Bool) (v : α) (hash : UInt32)
    (hnf : check = true → (h.bucket hash).find? (hit ve true v hash) = none) (hfree : h.used < h.size) (hrs : h.resize ≠ 0) :
    (h.insert ve rve check wm v hash).2.resize ≠ 0 := by
  rw [insert_eq h ve rve check wm v hash hnf hfree]
  split
  · rename_i he
    simp only
    rw [(resizeTo_size _ _ _ _).2, he.2.1]; omega
  · simp only
    rw [if_pos (by rw [link_resize]; exact hrs)]
    unfold armed; split
    · simp
    · rw [link_resize]; exact hrs

theorem remove_resize' (h : Ht2 α) (ve : VEq α) (rve : Option (VEq α)) (v : α) (hash : UInt32) :
    (h.remove ve rve v hash).2.resize = h.resize := by
  cases hf : (h.bucket hash).find? (hit ve true v hash) with
  | none => rw [remove_absent h ve rve v hash hf]
  | some r =>
    rw [remove_eq h ve rve v hash r hf]
    simp only
    split
    · rw [(resizeTo_size _ _ _ _).2]; rfl
    · rfl

/-- one operation: same reply, and the relation is kept -/
theorem step_spec {ve : VEq α} {e : α → α → Bool} (he : IsEquiv ve e) {h : Ht2 α} {l : List (UInt32 × α)} (hr : Rel ve h l)
    (o : HOp α) : (h.step ve o).1 = (specStep e l o).1 ∧ Rel ve (h.step ve o).2 (specStep e l o).2 := by
  cases o with
  | find v hash =>
    simp only [Ht2.step, specStep, Ht2.find]
    rw [look_eq he hr false v hash]
    cases look e l v hash with
    | none => exact ⟨rfl, hr⟩
    | some r => exact ⟨rfl, hr⟩
  | rem v hash =>
    simp only [Ht2.step, specStep]
    have hl := look_eq he hr true v hash
    cases hq : look e l v hash with
    | none =>
      rw [hq] at hl
      rw [remove_absent h ve none v hash hl]
      exact ⟨rfl, hr⟩
    | some r =>
      rw [hq] at hl
      have hd : Distinct ve h.toList := (Distinct.perm hr.perm).2 hr.dist
      obtain ⟨hi', hp'⟩ := remove_state h hr.inv ve none v hash r hl hd
      have hld := remove_load h hr.inv hr.load ve none v hash
      have hrs := remove_resize' h ve none v hash
      have hcode : (h.remove ve none v hash).1 = .ok none := by rw [remove_eq h ve none v hash r hl]
      refine ⟨hcode, hi', hld, by rw [hrs]; exact hr.rs, ?_, ?_⟩
      · -- the abstract set loses the same element
        unfold look at hq
        rw [List.find?_eq_some_iff_append] at hq
        obtain ⟨pr, pre, post, el, hpre⟩ := hq
        have : eraseFirst (fun r => r.1 == hash && e v r.2) l = pre ++ post := by
          rw [el]; exact eraseFirst_split (fun x hx => by
            have this : (!(x.1 == hash && e v x.2)) = true := hpre x hx
            show (x.1 == hash && e v x.2) = false
            revert this; cases (x.1 == hash && e v x.2) <;> simp) pr
        simp only
        rw [this]
        have pl : l ~ r :: (pre ++ post) := by rw [el]; exact List.perm_middle
        exact List.Perm.cons_inv ((hp'.symm.trans hr.perm).trans pl)
      · unfold look at hq
        rw [List.find?_eq_some_iff_append] at hq
        obtain ⟨pr, pre, post, el, hpre⟩ := hq
        have : eraseFirst (fun r => r.1 == hash && e v r.2) l = pre ++ post := by
          rw [el]; exact eraseFirst_split (fun x hx => by
            have this : (!(x.1 == hash && e v x.2)) = true := hpre x hx
            show (x.1 == hash && e v x.2) = false
            revert this; cases (x.1 == hash && e v x.2) <;> simp) pr
        simp only
        rw [this]
        have pl : l ~ r :: (pre ++ post) := by rw [el]; exact List.perm_middle
        exact distinct_tail ((Distinct.perm pl).1 hr.dist)
  | ins v hash =>
    simp only [Ht2.step, specStep]
    have hl := look_eq he hr true v hash
    cases hq : look e l v hash with
    | some r =>
      rw [hq] at hl
      have : h.insert ve none true true v hash = (.exist r.2, h) := by
        unfold Ht2.insert; simp only [if_true]; rw [hl]
      rw [this]
      exact ⟨rfl, hr⟩
    | none =>
      rw [hq] at hl
      have hfree := free_of_load' hr.inv hr.load hr.rs
      have hdl : Distinct ve ((hash, v) :: l) := by
        unfold Distinct
        rw [List.pairwise_cons]
        refine ⟨?_, hr.dist⟩
        intro r hrm hc
        unfold look at hq
        rw [List.find?_eq_none] at hq
        have hn := hq r hrm
        simp only [Bool.and_eq_true, beq_iff_eq, not_and] at hn
        have h1 : r.1 = hash := hc.1.symm
        rcases hc.2 with h2 | h2
        · rw [he.ind] at h2; exact hn h1 (by simpa using h2)
        · rw [he.ind] at h2; exact hn h1 (by simpa using he.symm _ _ h2)
      have hdh : Distinct ve ((hash, v) :: h.toList) := (Distinct.perm (List.Perm.cons _ hr.perm)).2 hdl
      obtain ⟨hi', hp'⟩ := insert_state h hr.inv ve none true true v hash (fun _ => hl) hfree (fun _ => hdh)
      have hld := insert_load h hr.inv hr.load ve none true true v hash (fun _ => hl) hfree
      have hrs := insert_resize_ne h ve none true true v hash (fun _ => hl) hfree hr.rs
      have hrel : Rel ve (h.insert ve none true true v hash).2 ((hash, v) :: l) :=
        ⟨hi', hld, hrs, hp'.trans (List.Perm.cons _ hr.perm), hdl⟩
      refine ⟨?_, hrel⟩
      -- the reply: `*match_p` is the stored copy of `v`, also when it had to be looked up again after the enlargement
      have hlook := look_eq he hrel false v hash
      have hhead : look e ((hash, v) :: l) v hash = some (hash, v) := by
        unfold look; rw [List.find?_cons]; simp [he.refl]
      rw [hhead] at hlook
      rw [insert_eq h ve none true true v hash (fun _ => hl) hfree] at hlook ⊢
      split
      · rename_i hen
        rw [if_pos hen] at hlook
        simp only [Option.getD_none, if_true] at hlook ⊢
        unfold Ht2.find
        rw [hlook]
        rfl
      · rfl

/-- every history: same replies, same contents (as a multiset) -/
theorem run_spec {ve : VEq α} {e : α → α → Bool} (he : IsEquiv ve e) (ops : List (HOp α)) {h : Ht2 α} {l : List (UInt32 × α)}
    (hr : Rel ve h l) : (h.run ve ops).1 = (specRun e l ops).1 ∧ Rel ve (h.run ve ops).2 (specRun e l ops).2 := by
  induction ops generalizing h l with
  | nil => exact ⟨rfl, hr⟩
  | cons o os ih =>
    obtain ⟨h1, h2⟩ := step_spec he hr o
    obtain ⟨i1, i2⟩ := ih h2
    simp only [Ht2.run, specRun]
    exact ⟨by rw [h1, i1], i2⟩

end Ht2
end LyModel.LyHt
