import LyModel.LyHt.Model2
/-!
L3 specification of the hash table for the keyed use (value equality is one equivalence relation, inserts are checked):
a list of `(hash, value)` read as a finite set of keys `(hash, class of value)`.
-/
namespace LyModel.LyHt

variable {α : Type}

inductive HOp (α : Type) where
  | ins (v : α) (hash : UInt32)      -- `lyht_insert(ht, &v, hash, &match)`
  | rem (v : α) (hash : UInt32)      -- `lyht_remove(ht, &v, hash)`
  | find (v : α) (hash : UInt32)     -- `lyht_find(ht, &v, hash, &match)`

def Ht2.step (ve : VEq α) (h : Ht2 α) : HOp α → Res α × Ht2 α
  | .ins v hash => h.insert ve none true true v hash
  | .rem v hash => h.remove ve none v hash
  | .find v hash => (match h.find ve v hash with | some m => .ok (some m) | none => .notfound, h)

def Ht2.run (ve : VEq α) : Ht2 α → List (HOp α) → List (Res α) × Ht2 α
  | h, [] => ([], h)
  | h, o :: os => let (r, h') := h.step ve o; let (rs, h'') := Ht2.run ve h' os; (r :: rs, h'')

/-- the matching element of the abstract set -/
def look (e : α → α → Bool) (l : List (UInt32 × α)) (v : α) (hash : UInt32) : Option (UInt32 × α) :=
  l.find? fun r => r.1 == hash && e v r.2

def specStep (e : α → α → Bool) (l : List (UInt32 × α)) : HOp α → Res α × List (UInt32 × α)
  | .ins v hash => match look e l v hash with
    | some r => (.exist r.2, l)                 -- LY_EEXIST on an equal value
    | none => (.ok (some v), (hash, v) :: l)
  | .rem v hash => match look e l v hash with
    | some _ => (.ok none, Ht2.eraseFirst (fun r => r.1 == hash && e v r.2) l)
    | none => (.notfound, l)                    -- LY_ENOTFOUND if absent
  | .find v hash => match look e l v hash with
    | some r => (.ok (some r.2), l)
    | none => (.notfound, l)

def specRun (e : α → α → Bool) : List (UInt32 × α) → List (HOp α) → List (Res α) × List (UInt32 × α)
  | l, [] => ([], l)
  | l, o :: os => let (r, l') := specStep e l o; let (rs, l'') := specRun e l' os; (r :: rs, l'')

end LyModel.LyHt
