import LyModel.LyHt.Model2
/-!
Lemmas about the L2 model (`Ht2`): list surgery (`updAt`, first-match splits), the structural invariant `Inv2`
(bucket array has `size` entries, every record sits in the bucket `hash & (size-1)`), and the L3 effect of every
operation on `toList` up to permutation.
-/
namespace LyModel.LyHt
open List

variable {α β : Type}

/-! ### list surgery -/

theorem updAt_length (l : List β) (i : Nat) (f : β → β) : (updAt l i f).length = l.length := by
  induction l generalizing i with
  | nil => rfl
  | cons x xs ih => cases i <;> simp [updAt, ih]

theorem updAt_split (A : List β) (b : β) (B : List β) (f : β → β) :
    updAt (A ++ b :: B) A.length f = A ++ f b :: B := by
  induction A with
  | nil => rfl
  | cons x xs ih => simp [updAt, ih]

theorem getD_split (A : List β) (b : β) (B : List β) (d : β) : (A ++ b :: B).getD A.length d = b := by
  induction A with
  | nil => rfl
  | cons x xs ih => simp [List.getD]

theorem getD_split_ne (A : List β) (b b' : β) (B : List β) (d : β) (i : Nat) (h : i ≠ A.length) :
    (A ++ b' :: B).getD i d = (A ++ b :: B).getD i d := by
  induction A generalizing i with
  | nil => cases i with
    | zero => simp at h
    | succ n => simp [List.getD]
  | cons x xs ih => cases i with
    | zero => simp [List.getD]
    | succ n => simp [List.getD] at h ⊢; simpa [List.getD] using ih n h

theorem split_at (l : List β) (i : Nat) (h : i < l.length) :
    ∃ A b B, l = A ++ b :: B ∧ A.length = i :=
  ⟨l.take i, l[i], l.drop (i + 1), by simp, by simp; omega⟩

/-- the first element satisfying `p`, with what precedes and follows it -/
inductive FirstSplit (p : β → Bool) (l : List β) : Prop where
  | none : (∀ x ∈ l, p x = false) → FirstSplit p l
  | some (pre : List β) (a : β) (post : List β) :
      l = pre ++ a :: post → (∀ x ∈ pre, p x = false) → p a = true → FirstSplit p l

theorem firstSplit (p : β → Bool) (l : List β) : FirstSplit p l := by
  induction l with
  | nil => exact .none (by simp)
  | cons x xs ih =>
    by_cases hx : p x = true
    · exact .some [] x xs rfl (by simp) hx
    · cases ih with
      | none h => exact .none (by intro y hy; cases hy with
                                  | head => simpa using hx
                                  | tail _ h' => exact h y h')
      | some pre a post e hp ha =>
        exact .some (x :: pre) a post (by simp [e]) (by
          intro y hy; cases hy with
            | head => simpa using hx
            | tail _ h' => exact hp y h') ha

section split
variable {p : β → Bool} {pre post : List β} {a : β}

theorem find?_split (hp : ∀ x ∈ pre, p x = false) (ha : p a = true) :
    (pre ++ a :: post).find? p = some a := by
  induction pre with
  | nil => simp [ha]
  | cons x xs ih =>
    have : p x = false := hp x (by simp)
    rw [List.cons_append, List.find?_cons, this]; exact ih (fun y hy => hp y (by simp [hy]))

theorem find?_none_of (l : List β) (h : ∀ x ∈ l, p x = false) : l.find? p = none := by
  rw [List.find?_eq_none]; intro x hx; simp [h x hx]

theorem eraseFirst_split (hp : ∀ x ∈ pre, p x = false) (ha : p a = true) :
    Ht2.eraseFirst p (pre ++ a :: post) = pre ++ post := by
  induction pre with
  | nil => simp [Ht2.eraseFirst, ha]
  | cons x xs ih =>
    have : p x = false := hp x (by simp)
    simp [Ht2.eraseFirst, this]; exact ih (fun y hy => hp y (by simp [hy]))

theorem afterFirst_split (hp : ∀ x ∈ pre, p x = false) (ha : p a = true) :
    Ht2.afterFirst p (pre ++ a :: post) = some post := by
  induction pre with
  | nil => simp [Ht2.afterFirst, ha]
  | cons x xs ih =>
    have : p x = false := hp x (by simp)
    simp [Ht2.afterFirst, this]; exact ih (fun y hy => hp y (by simp [hy]))

theorem afterFirst_none_of (l : List β) (h : ∀ x ∈ l, p x = false) : Ht2.afterFirst p l = none := by
  induction l with
  | nil => rfl
  | cons x xs ih =>
    have : p x = false := h x (by simp)
    simp [Ht2.afterFirst, this]; exact ih (fun y hy => h y (by simp [hy]))

end split

/-! ### structural invariant -/

structure Inv2 (h : Ht2 α) : Prop where
  len : h.buckets.length = h.size
  pos : 0 < h.size
  home : ∀ (i : Nat), ∀ r ∈ h.buckets.getD i [], r.1.toNat &&& (h.size - 1) = i

namespace Ht2

theorem idx_lt {h : Ht2 α} (hp : 0 < h.size) (hash : UInt32) : h.idx hash < h.size := by
  have : hash.toNat &&& (h.size - 1) ≤ h.size - 1 := Nat.and_le_right
  unfold idx; omega

/-- decomposition of the bucket array around the bucket of `hash` -/
theorem split (h : Ht2 α) (hi : Inv2 h) (hash : UInt32) :
    ∃ A B, h.buckets = A ++ h.bucket hash :: B ∧ A.length = h.idx hash := by
  have hlt : h.idx hash < h.buckets.length := by rw [hi.len]; exact idx_lt hi.pos hash
  obtain ⟨A, b, B, e, hl⟩ := split_at h.buckets (h.idx hash) hlt
  refine ⟨A, B, ?_, hl⟩
  have : h.bucket hash = b := by
    unfold bucket; rw [e, ← hl]; exact getD_split A b B []
  rw [this]; exact e

theorem bucket_sub (h : Ht2 α) (hi : Inv2 h) (hash : UInt32) : ∀ r ∈ h.bucket hash, r ∈ h.toList := by
  obtain ⟨A, B, e, _⟩ := split h hi hash
  intro r hr; unfold toList; rw [e]; simp [hr]

/-- completeness of the bucket function: a stored record with this hash is in the bucket that is searched -/
theorem mem_bucket (h : Ht2 α) (hi : Inv2 h) (r : UInt32 × α) (hr : r ∈ h.toList) : r ∈ h.bucket r.1 := by
  unfold toList at hr
  rw [List.mem_flatten] at hr
  obtain ⟨b, hb, hrb⟩ := hr
  obtain ⟨i, hlt, rfl⟩ := List.getElem_of_mem hb
  have e : h.buckets.getD i [] = h.buckets[i] := by
    rw [List.getD_eq_getElem?_getD, List.getElem?_eq_getElem hlt]; rfl
  have := hi.home i r (by rw [e]; exact hrb)
  unfold bucket idx
  rw [this, e]
  exact hrb

theorem toList_split {h : Ht2 α} {A B : List (List (UInt32 × α))} {b : List (UInt32 × α)}
    (e : h.buckets = A ++ b :: B) : h.toList = A.flatten ++ (b ++ B.flatten) := by
  unfold toList; rw [e]; simp

/-- replacing the bucket of `hash` by `b'` whose records all belong there keeps the invariant -/
theorem Inv2.replace {h h' : Ht2 α} (hi : Inv2 h) {A B : List (List (UInt32 × α))} {b b' : List (UInt32 × α)}
    (e : h.buckets = A ++ b :: B) (e' : h'.buckets = A ++ b' :: B) (hs : h'.size = h.size)
    (hb : ∀ r ∈ b', r.1.toNat &&& (h.size - 1) = A.length) : Inv2 h' := by
  refine ⟨?_, by rw [hs]; exact hi.pos, ?_⟩
  · rw [e', hs, ← hi.len, e]; simp
  · intro i r hr
    rw [hs]
    by_cases hiA : i = A.length
    · subst hiA; rw [e', getD_split] at hr; exact hb r hr
    · rw [e', getD_split_ne A b b' B [] i hiA, ← e] at hr; exact hi.home i r hr

theorem link_split (h : Ht2 α) (hi : Inv2 h) (v : α) (hash : UInt32) :
    ∃ A B, h.buckets = A ++ h.bucket hash :: B ∧ A.length = h.idx hash ∧
      (h.link v hash).buckets = A ++ (h.bucket hash ++ [(hash, v)]) :: B := by
  obtain ⟨A, B, e, hl⟩ := split h hi hash
  refine ⟨A, B, e, hl, ?_⟩
  unfold link; simp only; rw [e, ← hl, updAt_split]

theorem link_inv (h : Ht2 α) (hi : Inv2 h) (v : α) (hash : UInt32) : Inv2 (h.link v hash) := by
  obtain ⟨A, B, e, hl, e'⟩ := link_split h hi v hash
  refine Inv2.replace hi e e' rfl ?_
  intro r hr
  rw [List.mem_append] at hr
  cases hr with
  | inl hr =>
    have := hi.home (h.idx hash) r (by unfold bucket at hr; exact hr)
    rw [this, hl]
  | inr hr => simp at hr; subst hr; rw [hl]; rfl

theorem link_toList (h : Ht2 α) (hi : Inv2 h) (v : α) (hash : UInt32) :
    (h.link v hash).toList ~ (hash, v) :: h.toList := by
  obtain ⟨A, B, e, hl, e'⟩ := link_split h hi v hash
  rw [toList_split e', toList_split e]
  have : A.flatten ++ ((h.bucket hash ++ [(hash, v)]) ++ B.flatten) =
      (A.flatten ++ h.bucket hash) ++ (hash, v) :: B.flatten := by simp
  rw [this]
  refine (List.perm_middle).trans ?_
  simp

@[simp] theorem link_size (h : Ht2 α) (v : α) (hash : UInt32) : (h.link v hash).size = h.size := rfl
@[simp] theorem link_resize (h : Ht2 α) (v : α) (hash : UInt32) : (h.link v hash).resize = h.resize := rfl

theorem link_used (h : Ht2 α) (hi : Inv2 h) (v : α) (hash : UInt32) : (h.link v hash).used = h.used + 1 := by
  unfold used; rw [(link_toList h hi v hash).length_eq]; simp

/-! ### find -/

theorem find_none_iff (h : Ht2 α) (hi : Inv2 h) (ve : VEq α) (mod : Bool) (v : α) (hash : UInt32) :
    (h.bucket hash).find? (hit ve mod v hash) = none ↔ ∀ r ∈ h.toList, hit ve mod v hash r = false := by
  rw [List.find?_eq_none]
  constructor
  · intro hn r hr
    by_cases hh : r.1 = hash
    · have := mem_bucket h hi r hr
      rw [hh] at this
      simpa using hn r this
    · simp [hit, hh]
  · intro hn r hr
    simpa using hn r (bucket_sub h hi hash r hr)

theorem find_some_mem (h : Ht2 α) (hi : Inv2 h) (ve : VEq α) (mod : Bool) (v : α) (hash : UInt32) (r : UInt32 × α)
    (hf : (h.bucket hash).find? (hit ve mod v hash) = some r) :
    r ∈ h.toList ∧ r.1 = hash ∧ ve mod v r.2 = true := by
  have hm := List.mem_of_find?_eq_some hf
  have hp := List.find?_some hf
  simp [hit] at hp
  exact ⟨bucket_sub h hi hash r hm, hp.1, hp.2⟩

/-! ### re-insertion and resize -/

/-- no two records with the same hash are equal for the callback in `mod = 1` (what the duplicate check tests) -/
def Distinct (e : VEq α) (l : List (UInt32 × α)) : Prop :=
  l.Pairwise fun a b => ¬ (a.1 = b.1 ∧ (e true a.2 b.2 = true ∨ e true b.2 a.2 = true))

theorem Distinct.perm {e : VEq α} {l l' : List (UInt32 × α)} (p : l ~ l') : Distinct e l ↔ Distinct e l' := by
  unfold Distinct
  refine List.Perm.pairwise_iff ?_ p
  intro x y hxy hc
  exact hxy ⟨hc.1.symm, hc.2.symm⟩

@[simp] theorem insertCore_size (h : Ht2 α) (ve : VEq α) (c : Bool) (v : α) (hash : UInt32) :
    (h.insertCore ve c v hash).size = h.size := by
  unfold insertCore; split <;> rfl

@[simp] theorem insertCore_resize (h : Ht2 α) (ve : VEq α) (c : Bool) (v : α) (hash : UInt32) :
    (h.insertCore ve c v hash).resize = h.resize := by
  unfold insertCore; split <;> rfl

theorem insertCore_inv (h : Ht2 α) (hi : Inv2 h) (ve : VEq α) (c : Bool) (v : α) (hash : UInt32) :
    Inv2 (h.insertCore ve c v hash) := by
  unfold insertCore; split
  · exact hi
  · exact link_inv h hi v hash

theorem insertCore_new (h : Ht2 α) (hi : Inv2 h) (ve : VEq α) (c : Bool) (v : α) (hash : UInt32)
    (hn : c = true → ∀ r ∈ h.toList, hit ve true v hash r = false) :
    (h.insertCore ve c v hash).toList ~ (hash, v) :: h.toList := by
  unfold insertCore
  split
  · rename_i hc
    simp only [Bool.and_eq_true] at hc
    have := (find_none_iff h hi ve true v hash).2 (hn hc.1)
    rw [this] at hc; simp at hc
  · exact link_toList h hi v hash

theorem insertCore_used_le (h : Ht2 α) (hi : Inv2 h) (ve : VEq α) (c : Bool) (v : α) (hash : UInt32) :
    (h.insertCore ve c v hash).used ≤ h.used + 1 := by
  unfold insertCore; split
  · omega
  · rw [link_used h hi]; omega

abbrev reins (ve : VEq α) (c : Bool) : Ht2 α → UInt32 × α → Ht2 α := fun t r => t.insertCore ve c r.2 r.1

theorem fold_size (ve : VEq α) (c : Bool) (l : List (UInt32 × α)) (t : Ht2 α) :
    (l.foldl (reins ve c) t).size = t.size ∧ (l.foldl (reins ve c) t).resize = t.resize := by
  induction l generalizing t with
  | nil => exact ⟨rfl, rfl⟩
  | cons r l ih => simp only [List.foldl_cons]; rw [(ih _).1, (ih _).2]; simp [reins]

theorem fold_inv (ve : VEq α) (c : Bool) (l : List (UInt32 × α)) (t : Ht2 α) (hi : Inv2 t) :
    Inv2 (l.foldl (reins ve c) t) := by
  induction l generalizing t with
  | nil => exact hi
  | cons r l ih => exact ih _ (insertCore_inv t hi ve c r.2 r.1)

theorem fold_used_le (ve : VEq α) (c : Bool) (l : List (UInt32 × α)) (t : Ht2 α) (hi : Inv2 t) :
    (l.foldl (reins ve c) t).used ≤ t.used + l.length := by
  induction l generalizing t with
  | nil => simp
  | cons r l ih =>
    have h1 := ih _ (insertCore_inv t hi ve c r.2 r.1)
    have h2 := insertCore_used_le t hi ve c r.2 r.1
    simp only [List.foldl_cons, List.length_cons]
    simp only [reins] at h1 ⊢
    omega

theorem fold_toList (ve : VEq α) (c : Bool) (l : List (UInt32 × α)) (t : Ht2 α) (hi : Inv2 t)
    (hd : c = true → Distinct ve (t.toList ++ l)) :
    (l.foldl (reins ve c) t).toList ~ t.toList ++ l := by
  induction l generalizing t with
  | nil => simp
  | cons r l ih =>
    have hnew : (t.insertCore ve c r.2 r.1).toList ~ r :: t.toList := by
      refine insertCore_new t hi ve c r.2 r.1 ?_
      intro hc x hx
      have hp := hd hc
      unfold Distinct at hp
      rw [List.pairwise_append] at hp
      have := hp.2.2 x hx r (by simp)
      simp only [hit, Bool.and_eq_false_iff, beq_eq_false_iff_ne]
      by_cases h1 : x.1 = r.1
      · right
        cases hv : ve true r.2 x.2 with
        | false => rfl
        | true => exact absurd ⟨h1, Or.inr hv⟩ this
      · left; exact h1
    have hperm : (t.insertCore ve c r.2 r.1).toList ++ l ~ t.toList ++ r :: l :=
      ((hnew.append_right l).trans (by simpa using (List.perm_middle (a := r) (l₁ := t.toList) (l₂ := l)).symm))
    simp only [List.foldl_cons]
    refine (ih _ (insertCore_inv t hi ve c r.2 r.1) ?_).trans hperm
    intro hc
    exact (Distinct.perm hperm).2 (hd hc)

theorem empty_inv (n r : Nat) (hn : 0 < n) : Inv2 (empty n r : Ht2 α) := by
  refine ⟨by simp [empty], hn, ?_⟩
  intro i x hx
  simp only [empty] at hx
  rw [List.getD_eq_getElem?_getD] at hx
  by_cases hlt : i < n
  · simp [hlt] at hx
  · simp [hlt] at hx

@[simp] theorem empty_toList (n r : Nat) : (empty n r : Ht2 α).toList = [] := by
  simp [empty, toList]

theorem resizeTo_size (h : Ht2 α) (ve : VEq α) (c : Bool) (n : Nat) :
    (h.resizeTo ve c n).size = n ∧ (h.resizeTo ve c n).resize = h.resize := by
  unfold resizeTo; exact fold_size ve c h.toList (empty n h.resize)

theorem resizeTo_inv (h : Ht2 α) (ve : VEq α) (c : Bool) (n : Nat) (hn : 0 < n) : Inv2 (h.resizeTo ve c n) := by
  unfold resizeTo; exact fold_inv ve c h.toList _ (empty_inv n h.resize hn)

theorem resizeTo_used_le (h : Ht2 α) (ve : VEq α) (c : Bool) (n : Nat) (hn : 0 < n) :
    (h.resizeTo ve c n).used ≤ h.used := by
  unfold resizeTo
  have := fold_used_le ve c h.toList _ (empty_inv n h.resize hn)
  simpa [used] using this

/-- enlarge / shrink preserve the contents (as a multiset) -/
theorem resizeTo_toList (h : Ht2 α) (ve : VEq α) (c : Bool) (n : Nat) (hn : 0 < n)
    (hd : c = true → Distinct ve h.toList) : (h.resizeTo ve c n).toList ~ h.toList := by
  unfold resizeTo
  have := fold_toList ve c h.toList _ (empty_inv n h.resize hn) (by simpa using hd)
  simpa using this

end Ht2

end LyModel.LyHt
