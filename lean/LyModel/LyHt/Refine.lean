import LyModel.LyHt.LemmasOps
/-!
L1 → L2: the record-array model (`Ht`) with its index arithmetic refines the bucket-list model (`Ht2`).

`Inv1 h cs fl` is the representation invariant of the C structure with its ghost state: `cs[b]` = the record indices
of the chain of bucket `b` (first to last), `fl` = the free list.  It says: every chain is threaded through `next`
from `hlists[b].first` to `LYHT_NO_RECORD`, `hlists[b].last` is its last record, the free list is threaded from
`first_free_rec` to the index `size`, chains and free list together are a permutation of `0 … size-1` (acyclic,
in bounds, pairwise disjoint, every record reachable from exactly one of them), every chained record has
`hash & (size-1)` = its bucket, and `used` = number of chained records.
-/
namespace LyModel.LyHt
open List LyModel.Generated

variable {α : Type} [Inhabited α]

def Ht.nxt (h : Ht α) (i : Nat) : Nat := (h.recAt i).next
def Ht.item (h : Ht α) (i : Nat) : UInt32 × α := ((h.recAt i).hash, (h.recAt i).val)

/-- `l` = the indices visited from `s` following `nxt` until the terminator `t` is reached -/
def IsChain (nxt : Nat → Nat) (t : Nat) : Nat → List Nat → Prop
  | s, [] => s = t
  | s, a :: l => s = a ∧ IsChain nxt t (nxt a) l

theorem IsChain.congr {nxt nxt' : Nat → Nat} {t s : Nat} {l : List Nat} (hc : IsChain nxt t s l)
    (he : ∀ i ∈ l, nxt' i = nxt i) : IsChain nxt' t s l := by
  induction l generalizing s with
  | nil => exact hc
  | cons a l ih =>
    refine ⟨hc.1, ?_⟩
    rw [he a (by simp)]
    exact ih hc.2 (fun i hi => he i (by simp [hi]))

/-- appending a record at the end of a chain -/
theorem IsChain.snoc {nxt nxt' : Nat → Nat} {t s a : Nat} {l : List Nat} (hc : IsChain nxt t s l)
    (he : ∀ i ∈ l.dropLast, nxt' i = nxt i) (hl : ∀ x, l.getLast? = some x → nxt' x = a) (ha : nxt' a = t)
    (hs : l = [] → True) : IsChain nxt' t (if l = [] then a else s) (l ++ [a]) := by
  induction l generalizing s with
  | nil => simp [IsChain, ha]
  | cons x l ih =>
    simp only [List.cons_ne_nil, if_false, List.cons_append]
    refine ⟨hc.1, ?_⟩
    cases l with
    | nil =>
      simp only [IsChain, List.nil_append]
      exact ⟨hl x rfl, ha⟩
    | cons y l' =>
      have hx : nxt' x = nxt x := he x (by simp [List.dropLast])
      rw [hx]
      have := ih (s := nxt x) hc.2 (fun i hi => he i (by simp [List.dropLast, hi]))
        (fun z hz => hl z (by simpa [List.getLast?_cons_cons] using hz)) (fun _ => trivial)
      simpa using this

/-- the records of a chain, as the walk of `LYHT_ITER_HLIST_RECS` sees them -/
theorem chainList_of_chain (h : Ht α) (l : List Nat) (s fuel : Nat) (hc : IsChain h.nxt NO s l) (hl : ∀ i ∈ l, i ≠ NO)
    (hf : l.length < fuel) : chainList h fuel s = l.map h.item := by
  induction l generalizing s fuel with
  | nil =>
    cases fuel with
    | zero => omega
    | succ f => simp only [IsChain] at hc; simp [chainList, hc]
  | cons a l ih =>
    cases fuel with
    | zero => omega
    | succ f =>
      have hs : s = a := hc.1
      have ha : a ≠ NO := hl a (by simp)
      subst hs
      simp only [chainList, ha, if_false, List.map_cons]
      congr 1
      exact ih (h.nxt s) f hc.2 (fun i hi => hl i (by simp [hi])) (by simp at hf; omega)

/-- `lyht_find_rec` along a chain: the first record satisfying `p`, with its predecessor -/
theorem walkFind_none (h : Ht α) (p : Rec α → Bool) (l : List Nat) (s fuel prev : Nat) (hc : IsChain h.nxt NO s l)
    (hl : ∀ i ∈ l, i ≠ NO) (hf : l.length < fuel) (hp : ∀ i ∈ l, p (h.recAt i) = false) :
    walkFind h p fuel s prev = none := by
  induction l generalizing s fuel prev with
  | nil =>
    cases fuel with
    | zero => omega
    | succ f => simp only [IsChain] at hc; simp [walkFind, hc]
  | cons a l ih =>
    cases fuel with
    | zero => omega
    | succ f =>
      have hs : s = a := hc.1
      subst hs
      simp only [walkFind, hl s (by simp), if_false, hp s (by simp), Bool.false_eq_true]
      exact ih (h.nxt s) f s hc.2 (fun i hi => hl i (by simp [hi])) (by simp at hf; omega) (fun i hi => hp i (by simp [hi]))

theorem walkFind_some (h : Ht α) (p : Rec α → Bool) (pre : List Nat) (a : Nat) (post : List Nat) (s fuel prev : Nat)
    (hc : IsChain h.nxt NO s (pre ++ a :: post)) (hl : ∀ i ∈ pre ++ a :: post, i ≠ NO) (hf : (pre ++ a :: post).length < fuel)
    (hp : ∀ i ∈ pre, p (h.recAt i) = false) (ha : p (h.recAt a) = true) :
    walkFind h p fuel s prev = some (a, (pre.getLast?).getD prev) := by
  induction pre generalizing s fuel prev with
  | nil =>
    cases fuel with
    | zero => omega
    | succ f =>
      have hs : s = a := hc.1
      subst hs
      simp [walkFind, hl s (by simp), ha]
  | cons x pre ih =>
    cases fuel with
    | zero => omega
    | succ f =>
      have hs : s = x := hc.1
      subst hs
      simp only [List.cons_append] at hc hl hf
      simp only [walkFind, hl s (by simp), if_false, hp s (by simp), Bool.false_eq_true]
      show walkFind h p f (h.nxt s) s = _
      rw [ih (h.nxt s) f s hc.2 (fun i hi => hl i (by simp [hi])) (by simp at hf ⊢; omega) (fun i hi => hp i (by simp [hi]))]
      congr 2
      cases pre with
      | nil => rfl
      | cons y ys => simp [List.getLast?_cons]

/-- representation invariant of `struct ly_ht` (with ghost chains `cs` and free list `fl`) -/
structure Inv1 (h : Ht α) (cs : List (List Nat)) (fl : List Nat) : Prop where
  rsz : h.recs.size = h.size
  hsz : h.hlists.size = h.size
  clen : cs.length = h.size
  pos : 0 < h.size
  small : h.size < NO
  chain : ∀ b, b < h.size → IsChain h.nxt NO (h.hl b).1 (cs.getD b [])
  last : ∀ b, b < h.size → ∀ x, (cs.getD b []).getLast? = some x → (h.hl b).2 = x
  free : IsChain h.nxt h.size h.firstFree fl
  perm : (cs.flatten ++ fl) ~ List.range h.size
  home : ∀ b, b < h.size → ∀ i ∈ cs.getD b [], h.idx (h.recAt i).hash = b
  used : h.used = cs.flatten.length

theorem map_range_getD {β γ : Type} (l : List β) (d : β) (f : β → γ) :
    (List.range l.length).map (fun b => f (l.getD b d)) = l.map f := by
  induction l with
  | nil => rfl
  | cons x xs ih =>
    rw [List.length_cons, List.range_succ_eq_map, List.map_cons, List.map_map]
    simp only [List.getD_cons_zero, List.map_cons]
    congr 1

namespace Inv1

variable {h : Ht α} {cs : List (List Nat)} {fl : List Nat}

theorem mem_lt (hi : Inv1 h cs fl) {i : Nat} (hm : i ∈ cs.flatten ++ fl) : i < h.size :=
  List.mem_range.1 (hi.perm.mem_iff.1 hm)

theorem chain_mem_lt (hi : Inv1 h cs fl) {b i : Nat} (hm : i ∈ cs.getD b []) : i < h.size := by
  refine hi.mem_lt (List.mem_append_left _ ?_)
  rw [List.mem_flatten]
  by_cases hb : b < cs.length
  · refine ⟨cs.getD b [], ?_, hm⟩
    rw [List.getD_eq_getElem?_getD, List.getElem?_eq_getElem hb]; simp
  · rw [List.getD_eq_getElem?_getD, List.getElem?_eq_none (by omega)] at hm; simp at hm

theorem nodup (hi : Inv1 h cs fl) : (cs.flatten ++ fl).Nodup := hi.perm.nodup_iff.2 List.nodup_range

/-- under the invariant the abstraction is `cs` with every index replaced by its `(hash, value)` -/
theorem toL2_eq (hi : Inv1 h cs fl) :
    h.toL2 = { size := h.size, resize := h.resize, buckets := cs.map fun c => c.map h.item } := by
  unfold Ht.toL2
  congr 1
  rw [← map_range_getD cs [] (fun c => c.map h.item), hi.clen]
  apply List.map_congr_left
  intro b hb
  have hb' : b < h.size := List.mem_range.1 hb
  refine chainList_of_chain h _ _ _ (hi.chain b hb') ?_ ?_
  · intro i him
    have := hi.chain_mem_lt him
    have := hi.small
    omega
  · -- a chain has at most `size` records
    have hnd : (cs.getD b []).Nodup := by
      have := hi.nodup
      rw [List.nodup_append] at this
      have hfl := this.1
      by_cases hbl : b < cs.length
      · have : cs.getD b [] ∈ cs := by
          rw [List.getD_eq_getElem?_getD, List.getElem?_eq_getElem hbl]; simp
        exact (List.sublist_flatten_of_mem this).nodup hfl
      · rw [List.getD_eq_getElem?_getD, List.getElem?_eq_none (by omega)]; simp
    have hsub : cs.getD b [] ⊆ List.range h.size := fun i him => List.mem_range.2 (hi.chain_mem_lt him)
    have := List.Nodup.length_le_of_subset hnd hsub
    rw [List.length_range] at this; omega

end Inv1
end LyModel.LyHt
