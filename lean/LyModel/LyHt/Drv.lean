import LyModel.LyHt.Model
import LyModel.LyHt.Model2
import LyModel.LyHt.Jenkins
import LyModel.Dict.Model
/-!
Driver ops of component `ht` (hash table + dictionary).  The driver is stateless, so one request carries a whole
history (`script` = ops joined by `,`, fields of an op joined by `.`); the reply has one token per op.

* `hash <hex>`                                         → `ok <u32>`            (`lyht_hash`)
* `fixed <n>`                                          → `ok <u32>`            (`lyht_get_fixed_size`)
* `hist <size> <resize> <ve> <rve|-> <cve|-> <script>` → `ok <tok>*`  ops `i/j/n/m/r/f/x.<hash>.<val>`, `D`, `R`
* `dict <size> <mask> <script>` (`dictf`: with fixes/F110.diff) → `ok <tok>*`  ops `i.<hex>.<len>.<alias>`, `z.<hex>`,
                                                         `r.<hex>`, `d.<hex>.<alias>`, `D`

`hist` runs the L1 model and, in lockstep, the L2 model; a difference between `toL2` of the L1 state and the L2
state (or between the results) is reported as the token `L2MISMATCH` (never observed; it is what `Refine` proves).
-/
namespace LyModel.LyHt.Drv
open LyModel LyModel.LyHt LyModel.Dict

def eqMode : Nat → VEq Nat
  | 0 => fun _ a b => a == b
  | 1 => fun _ a b => a % 256 == b % 256
  | 2 => fun mod a b => if mod then a == b else a % 256 == b % 256
  | _ => fun mod a b => if mod then a % 256 == b % 256 else a == b

def optMode (s : String) : Option (Option (VEq Nat)) :=
  if s == "-" then some none else s.toNat?.map fun n => some (eqMode n)

def showRes (r : Res Nat) (size used : Nat) : String :=
  let tail := ":" ++ toString size ++ ":" ++ toString used
  match r with
  | .ok none => "ok:-" ++ tail
  | .ok (some m) => "ok:" ++ toString m ++ tail
  | .exist m => "exist:" ++ toString m ++ tail
  | .notfound => "notfound" ++ tail
  | .eint => "eint" ++ tail
  | .full => "full" ++ tail

def sameRec (a b : List (List (UInt32 × Nat))) : Bool := a == b

def agree (h1 : Ht Nat) (h2 : Ht2 Nat) : Bool :=
  let a := h1.toL2
  a.size == h2.size && a.resize == h2.resize && sameRec a.buckets h2.buckets && h1.used == h2.used

def dumpTok (h : Ht Nat) : String :=
  "D:" ++ toString h.size ++ ":" ++ toString h.used ++ ":" ++ toString h.resize ++ ":" ++
    (if h.toList.isEmpty then "-" else ";".intercalate (h.toList.map fun r => toString r.1.toNat ++ "." ++ toString r.2))

def rawTok (h : Ht Nat) : String :=
  "R:" ++ toString h.firstFree ++ ":" ++
    ";".intercalate (h.hlists.toList.map fun p => toString p.1 ++ "." ++ toString p.2) ++ ":" ++
    ";".intercalate (h.recs.toList.map fun r => toString r.hash.toNat ++ "." ++ toString r.next ++ "." ++ toString r.val)

def stepHist (ve : VEq Nat) (rve cve : Option (VEq Nat)) (st : Ht Nat × Ht2 Nat) (op : String) :
    (Ht Nat × Ht2 Nat) × String :=
  let (h1, h2) := st
  match op.splitOn "." with
  | ["D"] => (st, dumpTok h1)
  | ["R"] => (st, rawTok h1)
  | [c, hs, vs] =>
    match hs.toNat?, vs.toNat? with
    | some hn, some v =>
      let hash := UInt32.ofNat hn
      let fin (r1 : Res Nat) (n1 : Ht Nat) (r2 : Res Nat) (n2 : Ht2 Nat) : (Ht Nat × Ht2 Nat) × String :=
        ((n1, n2), if r1 == r2 && agree n1 n2 then showRes r1 n1.size n1.used else "L2MISMATCH")
      match c with
      | "i" => let (r1, n1) := h1.insert ve rve true true v hash
               let (r2, n2) := h2.insert ve rve true true v hash
               fin r1 n1 r2 n2
      | "j" => let (r1, n1) := h1.insert ve rve true false v hash
               let (r2, n2) := h2.insert ve rve true false v hash
               fin r1 n1 r2 n2
      | "n" => let (r1, n1) := h1.insert ve none false true v hash
               let (r2, n2) := h2.insert ve none false true v hash
               fin r1 n1 r2 n2
      | "m" => let (r1, n1) := h1.insert ve none false false v hash
               let (r2, n2) := h2.insert ve none false false v hash
               fin r1 n1 r2 n2
      | "r" => let (r1, n1) := h1.remove ve rve v hash
               let (r2, n2) := h2.remove ve rve v hash
               fin r1 n1 r2 n2
      | "f" => let r1 : Res Nat := match h1.find ve v hash with | some m => .ok (some m) | none => .notfound
               let r2 : Res Nat := match h2.find ve v hash with | some m => .ok (some m) | none => .notfound
               fin r1 h1 r2 h2
      | "x" => fin (h1.findNext ve cve v hash) h1 (h2.findNext ve cve v hash) h2
      | _ => (st, "BadOp")
    | _, _ => (st, "BadArg")
  | _ => (st, "BadOp")

def runHist (size resize : Nat) (ve : VEq Nat) (rve cve : Option (VEq Nat)) (ops : List String) : List String :=
  let rec go (st : Ht Nat × Ht2 Nat) : List String → List String
    | [] => []
    | o :: os => let (st', t) := stepHist ve rve cve st o; t :: go st' os
  go (Ht.new size resize, Ht2.new size resize) ops

/-! dictionary -/

def showD (r : DRes) (d : Dict) : String :=
  let tail := ":" ++ toString d.ht.size ++ ":" ++ toString d.ht.used
  match r with
  | .ok s => "ok:" ++ Hex.enc s ++ tail
  | .done => "done" ++ tail
  | .notfound => "notfound" ++ tail
  | .eint => "eint" ++ tail
  | .full => "full" ++ tail

def insertSorted (x : Bytes × Nat) : List (Bytes × Nat) → List (Bytes × Nat)
  | [] => [x]
  | y :: ys => if Hex.enc x.1 ≤ Hex.enc y.1 then x :: y :: ys else y :: insertSorted x ys

def dictDump (d : Dict) : String :=
  let l := d.content.foldr insertSorted []
  "D:" ++ toString d.ht.size ++ ":" ++ toString d.ht.used ++ ":" ++
    (if l.isEmpty then "-" else ";".intercalate (l.map fun r => Hex.enc r.1 ++ "=" ++ toString r.2))

/-- does the dictionary hold the string (the harness then holds a pointer to it) -/
def holds (d : Dict) (s : Bytes) : Bool := d.content.any fun r => r.1 == s

def stepDict (fixed : Bool) (H : Bytes → UInt32) (d : Dict) (op : String) : Dict × String :=
  match op.splitOn "." with
  | ["D"] => (d, dictDump d)
  | ["i", hx, ls, al] =>
    match Hex.dec hx, ls.toNat? with
    | some v, some len =>
      if v.contains 0 || len > v.length then (d, "BadArg")
      else if al == "1" && !holds d v then (d, "NoPtr")
      else
        let len := if len = 0 then v.length else len
        let (r, d') := if fixed then d.insertFixed H v len false (al == "1") else d.insert H v len false (al == "1")
        (d', showD r d')
    | _, _ => (d, "BadArg")
  | ["z", hx] =>
    match Hex.dec hx with
    | some v => if v.contains 0 then (d, "BadArg") else
        let (r, d') := if fixed then d.insertFixed H v v.length true false else d.insert H v v.length true false
        (d', showD r d')
    | none => (d, "BadArg")
  | ["r", hx] =>
    match Hex.dec hx with
    | some v => if v.contains 0 then (d, "BadArg") else
        let (r, d') := d.remove H v
        (d', showD r d')
    | none => (d, "BadArg")
  | ["d", hx, al] =>
    match Hex.dec hx with
    | some v =>
      if v.contains 0 then (d, "BadArg")
      else if al == "1" && !holds d v then (d, "NoPtr")
      else
        let (r, d') := d.dup H v (al == "1")
        (d', showD r d')
    | none => (d, "BadArg")
  | _ => (d, "BadOp")

def runDict (fixed : Bool) (size : Nat) (mask : UInt32) (ops : List String) : List String :=
  let H : Bytes → UInt32 := fun s => Jenkins.hash s &&& mask
  let rec go (d : Dict) : List String → List String
    | [] => []
    | o :: os => let (d', t) := stepDict fixed H d o; t :: go d' os
  go (Dict.init size) ops

def handle (op : String) (args : List String) : String :=
  match op, args with
  | "hash", [h] =>
    match Hex.dec h with
    | some s => "ok " ++ toString (Jenkins.hash s).toNat
    | none => "err BadHex"
  | "fixed", [n] =>
    match n.toNat? with
    | some k => "ok " ++ toString (getFixedSize (UInt32.ofNat k)).toNat
    | none => "err BadArg"
  | "hist", [size, resize, ve, rve, cve, script] =>
    match size.toNat?, resize.toNat?, ve.toNat?, optMode rve, optMode cve with
    | some s, some r, some e, some re, some ce =>
      "ok " ++ " ".intercalate (runHist s r (eqMode e) re ce (script.splitOn ","))
    | _, _, _, _, _ => "err BadArg"
  | "dict", [size, mask, script] =>
    match size.toNat?, mask.toNat? with
    | some s, some m => "ok " ++ " ".intercalate (runDict false s (UInt32.ofNat m) (script.splitOn ","))
    | _, _ => "err BadArg"
  | "dictf", [size, mask, script] =>      -- dict.c with fixes/F110.diff applied
    match size.toNat?, mask.toNat? with
    | some s, some m => "ok " ++ " ".intercalate (runDict true s (UInt32.ofNat m) (script.splitOn ","))
    | _, _ => "err BadArg"
  | _, _ => "err BadOp"

end LyModel.LyHt.Drv
