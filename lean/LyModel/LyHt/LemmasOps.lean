import LyModel.LyHt.Lemmas2
/-!
Case analysis of `Ht2.insert` / `Ht2.remove`, the load invariant (`used ≤ size`, below the enlarge threshold when
resizing is enabled — the reason a resizable table always has a free record), and the L3 effect of both operations.
-/
namespace LyModel.LyHt
open List LyModel.Generated

variable {α : Type}

/-- load invariant -/
structure Load (h : Ht2 α) : Prop where
  le : h.used ≤ h.size
  lt : h.resize ≠ 0 → h.used * 100 / h.size < LYHT_ENLARGE_PERCENTAGE
  rs : h.resize ≤ 2

namespace Ht2

@[simp] theorem armed_size (h : Ht2 α) : h.armed.size = h.size := by unfold armed; split <;> rfl
@[simp] theorem armed_buckets (h : Ht2 α) : h.armed.buckets = h.buckets := by unfold armed; split <;> rfl
@[simp] theorem armed_toList (h : Ht2 α) : h.armed.toList = h.toList := by simp [toList]
@[simp] theorem armed_used (h : Ht2 α) : h.armed.used = h.used := by simp [used]
theorem armed_inv (h : Ht2 α) (hi : Inv2 h) : Inv2 h.armed := ⟨by simpa using hi.len, by simpa using hi.pos, by simpa using hi.home⟩

/-- does the insertion that produced `h1` enlarge the table? -/
def enlarges (h1 : Ht2 α) : Prop :=
  h1.resize ≠ 0 ∧ h1.armed.resize = 2 ∧ (h1.used * 100) / h1.size ≥ LYHT_ENLARGE_PERCENTAGE

instance (h1 : Ht2 α) : Decidable (enlarges h1) := by unfold enlarges; infer_instance

/-- `insert` when the duplicate check does not fire and there is a free record -/
theorem insert_eq (h : Ht2 α) (ve : VEq α) (rve : Option (VEq α)) (check wm : Bool) (v : α) (hash : UInt32)
    (hnf : check = true → (h.bucket hash).find? (hit ve true v hash) = none) (hfree : h.used < h.size) :
    h.insert ve rve check wm v hash =
      if enlarges (h.link v hash) then
        let h3 := (h.link v hash).armed.resizeTo (rve.getD ve) check (h.size * 2)
        (if wm then (match h3.find (rve.getD ve) v hash with | some m => .ok (some m) | none => .notfound) else .ok none, h3)
      else
        (.ok (if wm then some v else none), if (h.link v hash).resize ≠ 0 then (h.link v hash).armed else h.link v hash) := by
  have hm : (if check then (h.bucket hash).find? (hit ve true v hash) else none) = none := by
    cases check with
    | false => rfl
    | true => simpa using hnf rfl
  unfold insert
  rw [hm]
  simp only [hfree, not_true_eq_false, if_false]
  by_cases h0 : (h.link v hash).resize ≠ 0
  · rw [if_pos h0]
    by_cases he : enlarges (h.link v hash)
    · rw [if_pos he, if_pos ⟨he.2.1, he.2.2⟩]
      simp only [armed_size, link_size]
      cases wm
      · rfl
      · simp only [if_true]; split <;> simp_all
    · rw [if_neg he, if_neg (fun hc => he ⟨h0, hc.1, hc.2⟩), if_pos h0]
  · have hne : ¬ enlarges (h.link v hash) := fun hc => h0 hc.1
    rw [if_neg h0, if_neg hne, if_neg h0]

/-- the state component of a successful `insert` -/
theorem insert_state (h : Ht2 α) (hi : Inv2 h) (ve : VEq α) (rve : Option (VEq α)) (check wm : Bool) (v : α) (hash : UInt32)
    (hnf : check = true → (h.bucket hash).find? (hit ve true v hash) = none) (hfree : h.used < h.size)
    (hd : check = true → Distinct (rve.getD ve) ((hash, v) :: h.toList)) :
    Inv2 (h.insert ve rve check wm v hash).2 ∧ (h.insert ve rve check wm v hash).2.toList ~ (hash, v) :: h.toList := by
  rw [insert_eq h ve rve check wm v hash hnf hfree]
  have hl := link_inv h hi v hash
  have hp := link_toList h hi v hash
  split
  · simp only
    have hpos : 0 < h.size * 2 := by have := hi.pos; omega
    refine ⟨resizeTo_inv _ _ _ _ hpos, ?_⟩
    refine (resizeTo_toList _ _ _ _ hpos ?_).trans (by simpa using hp)
    intro hc
    rw [armed_toList]
    exact (Distinct.perm hp).2 (hd hc)
  · simp only
    split
    · exact ⟨armed_inv _ hl, by simpa using hp⟩
    · exact ⟨hl, hp⟩

/-- the structural invariant is kept by `insert` whatever the callbacks are -/
theorem insert_inv (h : Ht2 α) (hi : Inv2 h) (ve : VEq α) (rve : Option (VEq α)) (check wm : Bool) (v : α) (hash : UInt32) :
    Inv2 (h.insert ve rve check wm v hash).2 := by
  by_cases hnf : check = true → (h.bucket hash).find? (hit ve true v hash) = none
  · by_cases hfree : h.used < h.size
    · rw [insert_eq h ve rve check wm v hash hnf hfree]
      have hl := link_inv h hi v hash
      split
      · exact resizeTo_inv _ _ _ _ (by have := hi.pos; omega)
      · simp only; split
        · exact armed_inv _ hl
        · exact hl
    · have hm : (if check then (h.bucket hash).find? (hit ve true v hash) else none) = none := by
        cases check with
        | false => rfl
        | true => simpa using hnf rfl
      unfold insert; rw [hm]; simp only [hfree, not_false_eq_true, if_true]; exact hi
  · have hc : check = true := by
      cases check with
      | false => exact absurd (fun h => by cases h) hnf
      | true => rfl
    subst hc
    cases hf : (h.bucket hash).find? (hit ve true v hash) with
    | none => exact absurd (fun _ => hf) hnf
    | some r => unfold insert; simp only [if_true]; rw [hf]; exact hi

theorem div_lt_of {a b c : Nat} (hb : 0 < b) (h : a < c * b) : a / b < c := by
  rw [Nat.div_lt_iff_lt_mul hb]; exact h

theorem lt_of_div {a b c : Nat} (hb : 0 < b) (h : a / b < c) : a < c * b := by
  rwa [Nat.div_lt_iff_lt_mul hb] at h

/-- a successful insert keeps the load invariant: in particular a table with resizing enabled never fills up -/
theorem insert_load (h : Ht2 α) (hi : Inv2 h) (hl : Load h) (ve : VEq α) (rve : Option (VEq α)) (check wm : Bool) (v : α) (hash : UInt32)
    (hnf : check = true → (h.bucket hash).find? (hit ve true v hash) = none) (hfree : h.used < h.size) :
    Load (h.insert ve rve check wm v hash).2 := by
  rw [insert_eq h ve rve check wm v hash hnf hfree]
  have hli := link_inv h hi v hash
  have hu := link_used h hi v hash
  have hpos := hi.pos
  split
  · rename_i he
    simp only
    have hpos2 : 0 < h.size * 2 := by omega
    have hsz := resizeTo_size (h.link v hash).armed (rve.getD ve) check (h.size * 2)
    have hle := resizeTo_used_le (h.link v hash).armed (rve.getD ve) check (h.size * 2) hpos2
    rw [armed_used, hu] at hle
    refine ⟨by rw [hsz.1]; omega, ?_, by rw [hsz.2, he.2.1]; omega⟩
    intro _
    rw [hsz.1]
    refine div_lt_of hpos2 ?_
    simp only [LYHT_ENLARGE_PERCENTAGE]; omega
  · rename_i he
    simp only
    split
    · rename_i h0
      refine ⟨by rw [armed_used, armed_size, hu, link_size]; omega, ?_, ?_⟩
      · intro _
        rw [armed_used, armed_size]
        apply Classical.byContradiction
        intro hc
        apply he
        refine ⟨h0, ?_, by omega⟩
        unfold armed
        have hr := hl.rs
        rw [link_resize] at h0
        by_cases h1 : h.resize = 1
        · rw [if_pos ⟨by simpa using h1, by simp only [LYHT_FIRST_SHRINK_PERCENTAGE, LYHT_ENLARGE_PERCENTAGE] at hc ⊢; omega⟩]
        · rw [if_neg (fun hc' => h1 (by simpa using hc'.1))]; simp; omega
      · unfold armed; split
        · simp
        · simpa using hl.rs
    · rename_i h0
      have h0' : h.resize = 0 := by simpa using h0
      refine ⟨by rw [hu, link_size]; omega, ?_, by simpa using hl.rs⟩
      intro hc; simp [h0'] at hc

theorem insert_unchanged (h : Ht2 α) (ve : VEq α) (rve : Option (VEq α)) (check wm : Bool) (v : α) (hash : UInt32)
    (hc : ¬ ((check = true → (h.bucket hash).find? (hit ve true v hash) = none) ∧ h.used < h.size)) :
    (h.insert ve rve check wm v hash).2 = h := by
  by_cases hnf : check = true → (h.bucket hash).find? (hit ve true v hash) = none
  · have hfree : ¬ h.used < h.size := fun hf => hc ⟨hnf, hf⟩
    have hm : (if check then (h.bucket hash).find? (hit ve true v hash) else none) = none := by
      cases check with
      | false => rfl
      | true => simpa using hnf rfl
    unfold insert; rw [hm]; simp only [hfree, not_false_eq_true, if_true]
  · have hc : check = true := by
      cases check with
      | false => exact absurd (fun h => by cases h) hnf
      | true => rfl
    subst hc
    cases hf : (h.bucket hash).find? (hit ve true v hash) with
    | none => exact absurd (fun _ => hf) hnf
    | some r => unfold insert; simp only [if_true]; rw [hf]

/-- `insert` keeps the load invariant in every case -/
theorem insert_load_all (h : Ht2 α) (hi : Inv2 h) (hl : Load h) (ve : VEq α) (rve : Option (VEq α)) (check wm : Bool) (v : α)
    (hash : UInt32) : Load (h.insert ve rve check wm v hash).2 := by
  by_cases hc : (check = true → (h.bucket hash).find? (hit ve true v hash) = none) ∧ h.used < h.size
  · exact insert_load h hi hl ve rve check wm v hash hc.1 hc.2
  · rw [insert_unchanged h ve rve check wm v hash hc]; exact hl

/-! ### remove -/

/-- table with the first matching record of the bucket of `hash` unlinked -/
def unlink (h : Ht2 α) (ve : VEq α) (v : α) (hash : UInt32) : Ht2 α :=
  { h with buckets := updAt h.buckets (h.idx hash) (eraseFirst (hit ve true v hash)) }

def shrinks (h1 : Ht2 α) : Prop :=
  h1.resize = 2 ∧ (h1.used * 100) / h1.size < LYHT_SHRINK_PERCENTAGE ∧ h1.size > LYHT_MIN_SIZE

instance (h1 : Ht2 α) : Decidable (shrinks h1) := by unfold shrinks; infer_instance

theorem remove_eq (h : Ht2 α) (ve : VEq α) (rve : Option (VEq α)) (v : α) (hash : UInt32) (r : UInt32 × α)
    (hf : (h.bucket hash).find? (hit ve true v hash) = some r) :
    h.remove ve rve v hash =
      (.ok none, if shrinks (h.unlink ve v hash) then (h.unlink ve v hash).resizeTo (rve.getD ve) true (h.size / 2)
                 else h.unlink ve v hash) := by
  unfold remove
  rw [hf]
  simp only
  by_cases hs : shrinks (h.unlink ve v hash)
  · rw [if_pos hs]
    have hs' := hs
    unfold shrinks unlink at hs'
    rw [if_pos hs'.1, if_pos ⟨hs'.2.1, hs'.2.2⟩]
    rfl
  · rw [if_neg hs]
    unfold shrinks unlink at hs
    by_cases h2 : h.resize = 2
    · rw [if_pos h2, if_neg (fun hc => hs ⟨h2, hc.1, hc.2⟩)]; rfl
    · rw [if_neg h2]; rfl

theorem remove_absent (h : Ht2 α) (ve : VEq α) (rve : Option (VEq α)) (v : α) (hash : UInt32)
    (hf : (h.bucket hash).find? (hit ve true v hash) = none) : h.remove ve rve v hash = (.notfound, h) := by
  unfold remove; rw [hf]

theorem unlink_spec (h : Ht2 α) (hi : Inv2 h) (ve : VEq α) (v : α) (hash : UInt32) (r : UInt32 × α)
    (hf : (h.bucket hash).find? (hit ve true v hash) = some r) :
    Inv2 (h.unlink ve v hash) ∧ h.toList ~ r :: (h.unlink ve v hash).toList := by
  obtain ⟨A, B, e, hl⟩ := split h hi hash
  rw [List.find?_eq_some_iff_append] at hf
  obtain ⟨hr, pre, post, eb, hpre⟩ := hf
  have hpre' : ∀ x ∈ pre, hit ve true v hash x = false := by intro x hx; simpa using hpre x hx
  have e' : (h.unlink ve v hash).buckets = A ++ (pre ++ post) :: B := by
    unfold unlink; simp only; rw [e, ← hl, updAt_split, eb, eraseFirst_split hpre' hr]
  constructor
  · refine Inv2.replace hi e e' rfl ?_
    intro x hx
    have : x ∈ h.bucket hash := by
      rw [eb]; simp only [List.mem_append, List.mem_cons] at hx ⊢
      rcases hx with hx | hx
      · exact Or.inl hx
      · exact Or.inr (Or.inr hx)
    rw [hi.home (h.idx hash) x (by unfold bucket at this; exact this), hl]
  · rw [toList_split e', toList_split e, eb]
    have : A.flatten ++ (pre ++ r :: post ++ B.flatten) = (A.flatten ++ pre) ++ r :: (post ++ B.flatten) := by simp
    rw [this]
    refine (List.perm_middle).trans ?_
    simp

@[simp] theorem unlink_size (h : Ht2 α) (ve : VEq α) (v : α) (hash : UInt32) : (h.unlink ve v hash).size = h.size := rfl
@[simp] theorem unlink_resize (h : Ht2 α) (ve : VEq α) (v : α) (hash : UInt32) : (h.unlink ve v hash).resize = h.resize := rfl

/-- the state component of a successful `remove`: exactly the first matching record of the chain is gone -/
theorem remove_state (h : Ht2 α) (hi : Inv2 h) (ve : VEq α) (rve : Option (VEq α)) (v : α) (hash : UInt32) (r : UInt32 × α)
    (hf : (h.bucket hash).find? (hit ve true v hash) = some r)
    (hd : Distinct (rve.getD ve) h.toList) :
    Inv2 (h.remove ve rve v hash).2 ∧ h.toList ~ r :: (h.remove ve rve v hash).2.toList := by
  rw [remove_eq h ve rve v hash r hf]
  obtain ⟨hui, hup⟩ := unlink_spec h hi ve v hash r hf
  simp only
  split
  · rename_i hs
    have hpos : 0 < h.size / 2 := by
      have := hs.2.2; simp only [LYHT_MIN_SIZE, unlink_size] at this; omega
    refine ⟨resizeTo_inv _ _ _ _ hpos, ?_⟩
    refine hup.trans (List.Perm.cons r (resizeTo_toList _ _ _ _ hpos ?_).symm)
    intro _
    have := (Distinct.perm hup).1 hd
    unfold Distinct at this ⊢
    exact (List.pairwise_cons.1 this).2
  · exact ⟨hui, hup⟩

theorem remove_inv (h : Ht2 α) (hi : Inv2 h) (ve : VEq α) (rve : Option (VEq α)) (v : α) (hash : UInt32) :
    Inv2 (h.remove ve rve v hash).2 := by
  cases hf : (h.bucket hash).find? (hit ve true v hash) with
  | none => rw [remove_absent h ve rve v hash hf]; exact hi
  | some r =>
    rw [remove_eq h ve rve v hash r hf]
    simp only
    split
    · rename_i hs
      exact resizeTo_inv _ _ _ _ (by have := hs.2.2; simp only [LYHT_MIN_SIZE, unlink_size] at this; omega)
    · exact (unlink_spec h hi ve v hash r hf).1

theorem remove_load (h : Ht2 α) (hi : Inv2 h) (hl : Load h) (ve : VEq α) (rve : Option (VEq α)) (v : α) (hash : UInt32) :
    Load (h.remove ve rve v hash).2 := by
  cases hf : (h.bucket hash).find? (hit ve true v hash) with
  | none => rw [remove_absent h ve rve v hash hf]; exact hl
  | some r =>
    rw [remove_eq h ve rve v hash r hf]
    obtain ⟨hui, hup⟩ := unlink_spec h hi ve v hash r hf
    have hu : h.used = (h.unlink ve v hash).used + 1 := by unfold used; rw [hup.length_eq]; simp
    have hpos := hi.pos
    simp only
    split
    · rename_i hs
      have hsz8 : h.size > 8 := by have := hs.2.2; simpa [LYHT_MIN_SIZE] using this
      have hpos2 : 0 < h.size / 2 := by omega
      have hsz := resizeTo_size (h.unlink ve v hash) (rve.getD ve) true (h.size / 2)
      have hle := resizeTo_used_le (h.unlink ve v hash) (rve.getD ve) true (h.size / 2) hpos2
      have hq := lt_of_div (by simpa using hpos) hs.2.1
      simp only [unlink_size, LYHT_SHRINK_PERCENTAGE] at hq
      refine ⟨by rw [hsz.1]; omega, ?_, by rw [hsz.2]; simpa using hl.rs⟩
      intro _
      rw [hsz.1]
      refine div_lt_of hpos2 ?_
      simp only [LYHT_ENLARGE_PERCENTAGE]; omega
    · refine ⟨by rw [unlink_size]; have := hl.le; omega, ?_, by simpa using hl.rs⟩
      intro h0
      have := lt_of_div hpos (hl.lt (by simpa using h0))
      rw [unlink_size]
      refine div_lt_of hpos ?_
      omega

end Ht2
end LyModel.LyHt
