import LyModel.LyHt.RefineIns
/-!
L1 → L2, part 5: `lyht_remove_with_resize_cb` and `lyht_find_next_with_collision_cb`.
-/
namespace LyModel.LyHt
open List LyModel.Generated

variable {α : Type} [Inhabited α]

structure UnlinkFields (h h' : Ht α) (ri prev : Nat) (hash : UInt32) : Prop where
  size : h'.size = h.size
  resize : h'.resize = h.resize
  used : h'.used = h.used - 1
  rsz : h'.recs.size = h.recs.size
  hsz : h'.hlists.size = h.hlists.size
  ff : h'.firstFree = ri
  recAt : ∀ j, h'.recAt j =
    if j = ri then { (h.recAt ri) with next := h.firstFree }
    else if prev ≠ NO ∧ j = prev then { (h.recAt j) with next := h.nxt ri }
    else h.recAt j
  hl : ∀ b, h'.hl b =
    if b = h.idx hash then
      (if prev = NO then (h.nxt ri, if h.nxt ri = NO then NO else (h.hl (h.idx hash)).2)
       else if h.nxt ri = NO then ((h.hl (h.idx hash)).1, prev) else h.hl (h.idx hash))
    else h.hl b

theorem unlink_fields (h : Ht α) (ri prev : Nat) (hash : UInt32) (hb : h.idx hash < h.hlists.size) (hri : ri < h.recs.size)
    (hprev : prev ≠ NO → prev < h.recs.size) : UnlinkFields h (h.unlink ri prev hash) ri prev hash := by
  by_cases hc : prev = NO
  · have e : h.unlink ri prev hash =
        { h with hlists := h.hlists.setIfInBounds (h.idx hash)
                   ((h.recAt ri).next, if (h.recAt ri).next = NO then NO else (h.hl (h.idx hash)).2),
                 recs := h.recs.setIfInBounds ri { (h.recAt ri) with next := h.firstFree },
                 firstFree := ri, used := h.used - 1 } := by
      unfold Ht.unlink; simp only [hc, if_true]
    rw [e]
    refine ⟨rfl, rfl, rfl, by simp, by simp, rfl, ?_, ?_⟩
    · intro j
      simp only [Ht.recAt]
      rw [getD_set _ _ _ _ _ hri]
      by_cases hj : j = ri
      · rw [if_pos hj, if_pos hj]
      · rw [if_neg hj, if_neg hj, if_neg (fun hh => hh.1 hc)]
    · intro b
      unfold Ht.hl Ht.nxt
      simp only
      rw [getD_set _ _ _ _ _ hb]
      by_cases hbb : b = h.idx hash
      · rw [if_pos hbb, if_pos hbb, if_pos hc]
      · rw [if_neg hbb, if_neg hbb]
  · by_cases hn : (h.recAt ri).next = NO
    · have e : h.unlink ri prev hash =
          { h with hlists := h.hlists.setIfInBounds (h.idx hash) ((h.hl (h.idx hash)).1, prev),
                   recs := (h.recs.setIfInBounds prev { (h.recAt prev) with next := (h.recAt ri).next }).setIfInBounds ri
                     { (h.recAt ri) with next := h.firstFree },
                   firstFree := ri, used := h.used - 1 } := by
        unfold Ht.unlink; simp only [hc, hn, if_false, if_true]
      rw [e]
      refine ⟨rfl, rfl, rfl, by simp, by simp, rfl, ?_, ?_⟩
      · intro j
        simp only [Ht.recAt]
        rw [getD_set _ _ _ _ _ (by simpa using hri), getD_set _ _ _ _ _ (hprev hc)]
        by_cases hj : j = ri
        · rw [if_pos hj, if_pos hj]
        · rw [if_neg hj, if_neg hj]
          by_cases hj2 : j = prev
          · rw [if_pos hj2, if_pos ⟨hc, hj2⟩, hj2]; rfl
          · rw [if_neg hj2, if_neg (fun hh => hj2 hh.2)]
      · intro b
        have hn' : h.nxt ri = NO := hn
        unfold Ht.hl at hn' ⊢
        simp only
        rw [getD_set _ _ _ _ _ hb]
        by_cases hbb : b = h.idx hash
        · rw [if_pos hbb, if_pos hbb, if_neg hc, if_pos hn']
        · rw [if_neg hbb, if_neg hbb]
    · have e : h.unlink ri prev hash =
          { h with hlists := h.hlists,
                   recs := (h.recs.setIfInBounds prev { (h.recAt prev) with next := (h.recAt ri).next }).setIfInBounds ri
                     { (h.recAt ri) with next := h.firstFree },
                   firstFree := ri, used := h.used - 1 } := by
        unfold Ht.unlink; simp only [hc, hn, if_false]
      rw [e]
      refine ⟨rfl, rfl, rfl, by simp, rfl, rfl, ?_, ?_⟩
      · intro j
        simp only [Ht.recAt]
        rw [getD_set _ _ _ _ _ (by simpa using hri), getD_set _ _ _ _ _ (hprev hc)]
        by_cases hj : j = ri
        · rw [if_pos hj, if_pos hj]
        · rw [if_neg hj, if_neg hj]
          by_cases hj2 : j = prev
          · rw [if_pos hj2, if_pos ⟨hc, hj2⟩, hj2]; rfl
          · rw [if_neg hj2, if_neg (fun hh => hj2 hh.2)]
      · intro b
        have hn' : ¬ h.nxt ri = NO := hn
        by_cases hbb : b = h.idx hash
        · rw [if_pos hbb, if_neg hc, if_neg hn', hbb]; rfl
        · rw [if_neg hbb]; rfl

namespace UnlinkFields
variable {h h' : Ht α} {ri prev : Nat} {hash : UInt32}

theorem nxt (F : UnlinkFields h h' ri prev hash) (j : Nat) :
    h'.nxt j = if j = ri then h.firstFree else if prev ≠ NO ∧ j = prev then h.nxt ri else h.nxt j := by
  unfold Ht.nxt; rw [F.recAt j]
  split
  · rfl
  · split <;> rfl

theorem item_eq (F : UnlinkFields h h' ri prev hash) (j : Nat) : h'.item j = h.item j := by
  unfold Ht.item; rw [F.recAt j]
  split
  · rename_i hj; rw [hj]
  · split <;> rfl

end UnlinkFields

/-- removing the element after `pre` from a chain -/
theorem IsChain.remove_mid {nxt nxt' : Nat → Nat} {t s a : Nat} {pre post : List Nat} (hc : IsChain nxt t s (pre ++ a :: post))
    (hpre : ∀ i ∈ pre.dropLast, nxt' i = nxt i) (hpost : ∀ i ∈ post, nxt' i = nxt i)
    (hl : ∀ x, pre.getLast? = some x → nxt' x = nxt a) :
    IsChain nxt' t (if pre = [] then nxt a else s) (pre ++ post) := by
  induction pre generalizing s with
  | nil => simp only [List.nil_append, if_true] at hc ⊢; exact hc.2.congr hpost
  | cons x pre ih =>
    simp only [List.cons_ne_nil, if_false, List.cons_append] at hc ⊢
    refine ⟨hc.1, ?_⟩
    cases pre with
    | nil =>
      simp only [List.nil_append] at hc ⊢
      rw [hl x rfl]
      exact hc.2.2.congr hpost
    | cons y ys =>
      have hx : nxt' x = nxt x := hpre x (by simp [List.dropLast])
      rw [hx]
      have := ih (s := nxt x) hc.2 (fun i hi => hpre i (by simp [List.dropLast, hi]))
        (fun z hz => hl z (by simpa [List.getLast?_cons_cons] using hz))
      simpa using this

theorem IsChain.suffix {nxt : Nat → Nat} {t s a : Nat} {pre post : List Nat} (hc : IsChain nxt t s (pre ++ a :: post)) :
    IsChain nxt t (nxt a) post := by
  induction pre generalizing s with
  | nil => exact hc.2
  | cons x pre ih => exact ih hc.2

theorem updAt_const_split {β : Type} (A : List β) (b c : β) (B : List β) : updAt (A ++ b :: B) A.length (fun _ => c) = A ++ c :: B :=
  updAt_split A b B _

theorem flatten_updAt_erase {β : Type} (l : List (List β)) (i : Nat) (pre post : List β) (a : β) (hi : i < l.length)
    (e : l.getD i [] = pre ++ a :: post) : l.flatten ~ a :: (updAt l i (fun _ => pre ++ post)).flatten := by
  obtain ⟨A, b, B, el, hl⟩ := split_at l i hi
  have hb : b = pre ++ a :: post := by rw [← e, el, ← hl, getD_split]
  rw [el, ← hl, updAt_split, hb]
  simp only [List.flatten_append, List.flatten_cons, List.append_assoc, List.cons_append]
  have : A.flatten ++ (pre ++ a :: (post ++ B.flatten)) = (A.flatten ++ pre) ++ a :: (post ++ B.flatten) := by simp
  rw [this]
  refine (List.perm_middle).trans ?_
  simp

/-- unlinking a chained record keeps the representation invariant and removes it from its L2 bucket -/
theorem unlink_inv1 (h : Ht α) (cs : List (List Nat)) (fl : List Nat) (hi : Inv1 h cs fl) (hash : UInt32)
    (pre : List Nat) (a : Nat) (post : List Nat) (e : cs.getD (h.idx hash) [] = pre ++ a :: post) :
    Inv1 (h.unlink a (pre.getLast?.getD NO) hash) (updAt cs (h.idx hash) (fun _ => pre ++ post)) (a :: fl) ∧
    (h.unlink a (pre.getLast?.getD NO) hash).toL2 =
      { h.toL2 with buckets := updAt h.toL2.buckets (h.idx hash) (fun _ => (pre ++ post).map h.item) } := by
  have hb : h.idx hash < h.size := h.idx_lt hi.pos hash
  have hbc : h.idx hash < cs.length := by rw [hi.clen]; exact hb
  have hnd := hi.nodup
  rw [List.nodup_append] at hnd
  obtain ⟨hndc, hndf, hdisj⟩ := hnd
  have hcN : (pre ++ a :: post).Nodup := by rw [← e]; exact (getD_sublist_flatten cs _).nodup hndc
  have hcmem : ∀ i ∈ pre ++ a :: post, i ∈ cs.flatten := fun i him => getD_mem_flatten cs _ i (by rw [e]; exact him)
  have hclt : ∀ i ∈ pre ++ a :: post, i < h.size := fun i him => hi.chain_mem_lt (b := h.idx hash) (by rw [e]; exact him)
  rw [List.nodup_append] at hcN
  obtain ⟨hpreN, haN, hpp⟩ := hcN
  rw [List.nodup_cons] at haN
  have ha_pre : ∀ i ∈ pre, i ≠ a := fun i hip => hpp i hip a (by simp)
  have ha_post : ∀ i ∈ post, i ≠ a := fun i hip he => haN.1 (by rw [← he]; exact hip)
  have hpre_post : ∀ i ∈ pre, i ∉ post := fun i hip hiq => hpp i hip i (by simp [hiq]) rfl
  have ha_fl : ∀ i ∈ fl, i ≠ a := fun i hif he => hdisj a (hcmem a (by simp)) i hif he.symm
  -- the predecessor
  have hprev_mem : pre.getLast?.getD NO ≠ NO → pre.getLast? = some (pre.getLast?.getD NO) ∧ pre.getLast?.getD NO ∈ pre := by
    intro hne
    cases hg : pre.getLast? with
    | none => rw [hg] at hne; exact absurd rfl hne
    | some z => exact ⟨rfl, List.mem_of_getLast? hg⟩
  have hprev_ne : ∀ z, pre.getLast? = some z → pre.getLast?.getD NO = z ∧ z ≠ NO := by
    intro z hz
    have hzm := List.mem_of_getLast? hz
    have := hclt z (by simp [hzm])
    have hs := hi.small
    rw [hz]; exact ⟨rfl, by omega⟩
  have hprev_nil : pre.getLast?.getD NO = NO ↔ pre = [] := by
    constructor
    · intro hp
      cases hg : pre.getLast? with
      | none => exact List.getLast?_eq_none_iff.1 hg
      | some z => have := hprev_ne z hg; rw [hp] at this; exact absurd this.1.symm this.2
    · intro hp; rw [hp]; rfl
  have hchain := hi.chain _ hb
  rw [e] at hchain
  have hsuf := hchain.suffix
  have hnxt_nil : h.nxt a = NO ↔ post = [] := by
    cases hpost : post with
    | nil => rw [hpost] at hsuf; simp only [IsChain] at hsuf; simp [hsuf]
    | cons y ys =>
      rw [hpost] at hsuf
      have : y < h.size := hclt y (by rw [hpost]; simp)
      have hs := hi.small
      rw [hsuf.1]; simp; omega
  have F := unlink_fields h a (pre.getLast?.getD NO) hash (by rw [hi.hsz]; exact hb) (by rw [hi.rsz]; exact hclt a (by simp))
    (fun hne => by rw [hi.rsz]; exact hclt _ (by simp [(hprev_mem hne).2]))
  have hnxt_keep : ∀ j, j ≠ a → (∀ z, pre.getLast? = some z → j ≠ z) → (h.unlink a (pre.getLast?.getD NO) hash).nxt j = h.nxt j := by
    intro j hj hz
    rw [F.nxt j, if_neg hj]
    split
    · rename_i hc
      exact absurd hc.2 (hz _ (hprev_mem hc.1).1)
    · rfl
  have hgetD : ∀ b', (updAt cs (h.idx hash) (fun _ => pre ++ post)).getD b' [] =
      if b' = h.idx hash then pre ++ post else cs.getD b' [] :=
    fun b' => getD_updAt cs _ b' _ [] hbc
  have hperm := flatten_updAt_erase cs _ pre post a hbc e
  have hinv : Inv1 (h.unlink a (pre.getLast?.getD NO) hash) (updAt cs (h.idx hash) (fun _ => pre ++ post)) (a :: fl) := by
    refine ⟨by rw [F.rsz, F.size]; exact hi.rsz, by rw [F.hsz, F.size]; exact hi.hsz, by rw [updAt_length, F.size]; exact hi.clen,
      by rw [F.size]; exact hi.pos, by rw [F.size]; exact hi.small, ?_, ?_, ?_, ?_, ?_, ?_⟩
    · -- chains
      intro b' hb'
      rw [F.size] at hb'
      rw [hgetD b', F.hl b']
      by_cases hbb : b' = h.idx hash
      · rw [if_pos hbb, if_pos hbb]
        have := IsChain.remove_mid (nxt' := (h.unlink a (pre.getLast?.getD NO) hash).nxt) hchain ?_ ?_ ?_
        · by_cases hpe : pre = []
          · rw [if_pos hpe] at this
            rw [if_pos (hprev_nil.2 hpe)]
            exact this
          · rw [if_neg hpe] at this
            rw [if_neg (fun hc => hpe (hprev_nil.1 hc))]
            split
            · exact this
            · exact this
        · intro i hid
          have hip : i ∈ pre := (List.dropLast_sublist _).subset hid
          refine hnxt_keep i (ha_pre i hip) ?_
          intro z hz hiz
          exact getLast_not_mem_dropLast pre hpreN z hz (by rw [← hiz]; exact hid)
        · intro i hip
          refine hnxt_keep i (ha_post i hip) ?_
          intro z hz hiz
          exact hpre_post z (List.mem_of_getLast? hz) (by rw [← hiz]; exact hip)
        · intro x hx
          obtain ⟨hpx, hxne⟩ := hprev_ne x hx
          rw [F.nxt x, if_neg (ha_pre x (List.mem_of_getLast? hx)), if_pos ⟨by rw [hpx]; exact hxne, hpx.symm⟩]
      · rw [if_neg hbb, if_neg hbb]
        refine (hi.chain b' hb').congr ?_
        intro i him
        have hnc : i ∉ cs.getD (h.idx hash) [] := disjoint_of_nodup_flatten cs hndc b' (h.idx hash) hbb i him
        rw [e] at hnc
        refine hnxt_keep i (fun hia => hnc (by rw [hia]; simp)) ?_
        intro z hz hiz
        exact hnc (by rw [hiz]; simp [List.mem_of_getLast? hz])
    · -- last
      intro b' hb' x hx
      rw [F.size] at hb'
      rw [hgetD b'] at hx
      rw [F.hl b']
      by_cases hbb : b' = h.idx hash
      · rw [if_pos hbb] at hx ⊢
        by_cases hpo : post = []
        · -- the removed record was the last one
          rw [hpo, List.append_nil] at hx
          obtain ⟨hpx, hxne⟩ := hprev_ne x hx
          rw [if_neg (by rw [hpx]; exact hxne), if_pos (hnxt_nil.2 hpo)]
          exact hpx
        · have hlastc : (pre ++ a :: post).getLast? = some x := by
            rw [List.getLast?_append] at hx ⊢
            cases hq : post.getLast? with
            | none => exact absurd (List.getLast?_eq_none_iff.1 hq) hpo
            | some y =>
              rw [hq] at hx
              have : (a :: post).getLast? = some y := by
                cases post with
                | nil => exact absurd rfl hpo
                | cons p ps => rw [List.getLast?_cons_cons]; exact hq
              rw [this]; simpa using hx
          have hl := hi.last _ hb x (by rw [e]; exact hlastc)
          have hnn : ¬ h.nxt a = NO := fun hc => hpo (hnxt_nil.1 hc)
          by_cases hp0 : pre.getLast?.getD NO = NO
          · rw [if_pos hp0]; simp only [hnn, if_false]; exact hl
          · rw [if_neg hp0, if_neg hnn]; exact hl
      · rw [if_neg hbb] at hx ⊢
        exact hi.last b' hb' x hx
    · -- free list
      rw [F.ff, F.size]
      refine ⟨rfl, ?_⟩
      rw [F.nxt a, if_pos rfl]
      refine hi.free.congr ?_
      intro i hif
      refine hnxt_keep i (ha_fl i hif) ?_
      intro z hz hiz
      exact hdisj z (hcmem z (by simp [List.mem_of_getLast? hz])) i hif hiz.symm
    · -- permutation of all indices
      rw [F.size]
      refine List.Perm.trans ?_ hi.perm
      have p1 : (updAt cs (h.idx hash) (fun _ => pre ++ post)).flatten ++ a :: fl ~
          a :: ((updAt cs (h.idx hash) (fun _ => pre ++ post)).flatten ++ fl) := List.perm_middle
      exact p1.trans ((hperm.symm.append_right fl))
    · -- home bucket
      intro b' hb' i him
      rw [F.size] at hb'
      rw [hgetD b'] at him
      have hidx : ∀ x, (h.unlink a (pre.getLast?.getD NO) hash).idx x = h.idx x := fun x => by unfold Ht.idx; rw [F.size]
      have hh : ((h.unlink a (pre.getLast?.getD NO) hash).recAt i).hash = (h.recAt i).hash := by
        have := F.item_eq i; unfold Ht.item at this; exact (Prod.mk.inj this).1
      rw [hidx, hh]
      by_cases hbb : b' = h.idx hash
      · rw [if_pos hbb] at him
        rw [hbb]
        refine hi.home _ hb i ?_
        rw [e]
        rcases List.mem_append.1 him with h1 | h1
        · simp [h1]
        · simp [h1]
      · rw [if_neg hbb] at him
        exact hi.home b' hb' i him
    · rw [F.used, hi.used, hperm.length_eq]; simp
  refine ⟨hinv, ?_⟩
  rw [hinv.toL2_eq, hi.toL2_eq]
  simp only [F.size, F.resize]
  congr 1
  refine ext_getD _ _ [] (by simp [updAt_length]) ?_
  intro j
  have hR := getD_updAt (cs.map fun c => c.map h.item) (h.idx hash) j (fun _ => (pre ++ post).map h.item) [] (by simpa using hbc)
  rw [getD_map_nil] at hR
  rw [getD_map_nil, hgetD j, hR]
  have hitem : (h.unlink a (pre.getLast?.getD NO) hash).item = h.item := funext F.item_eq
  rw [hitem]
  by_cases hj : j = h.idx hash
  · rw [if_pos hj, if_pos hj]
  · rw [if_neg hj, if_neg hj]

end LyModel.LyHt
