import LyModel.LyHt.Model2
/-!
Histories of hash-table API calls, run on the L1 (record array) and on the L2 (bucket lists) model.
-/
namespace LyModel.LyHt

variable {α : Type}

/-- one call of the hash-table API (every callback combination of the C API: `ve` = `ht->val_equal`, `rve` = the optional
resize callback, `cve` = the optional collision callback are parameters of the run) -/
inductive Op (α : Type) where
  | ins (check wantMatch : Bool) (v : α) (hash : UInt32)   -- lyht_insert(_no_check)(_with_resize_cb)
  | rem (v : α) (hash : UInt32)                            -- lyht_remove(_with_resize_cb)
  | find (v : α) (hash : UInt32)                           -- lyht_find
  | next (v : α) (hash : UInt32)                           -- lyht_find_next(_with_collision_cb)

def Ht.step [Inhabited α] (ve : VEq α) (rve cve : Option (VEq α)) (h : Ht α) : Op α → Res α × Ht α
  | .ins c w v hash => h.insert ve rve c w v hash
  | .rem v hash => h.remove ve rve v hash
  | .find v hash => (match h.find ve v hash with | some m => .ok (some m) | none => .notfound, h)
  | .next v hash => (h.findNext ve cve v hash, h)

def Ht2.stepOp (ve : VEq α) (rve cve : Option (VEq α)) (h : Ht2 α) : Op α → Res α × Ht2 α
  | .ins c w v hash => h.insert ve rve c w v hash
  | .rem v hash => h.remove ve rve v hash
  | .find v hash => (match h.find ve v hash with | some m => .ok (some m) | none => .notfound, h)
  | .next v hash => (h.findNext ve cve v hash, h)

def Ht.runOps [Inhabited α] (ve : VEq α) (rve cve : Option (VEq α)) : Ht α → List (Op α) → List (Res α) × Ht α
  | h, [] => ([], h)
  | h, o :: os => let (r, h') := h.step ve rve cve o; let (rs, h'') := Ht.runOps ve rve cve h' os; (r :: rs, h'')

def Ht2.runOps (ve : VEq α) (rve cve : Option (VEq α)) : Ht2 α → List (Op α) → List (Res α) × Ht2 α
  | h, [] => ([], h)
  | h, o :: os => let (r, h') := h.stepOp ve rve cve o; let (rs, h'') := Ht2.runOps ve rve cve h' os; (r :: rs, h'')

/-- the table never grows beyond `bound` records along the history (the model's `Nat` arithmetic is the C `uint32_t`
arithmetic as long as sizes stay below 2^31) -/
def Ht.sizesBelow [Inhabited α] (ve : VEq α) (rve cve : Option (VEq α)) (bound : Nat) : Ht α → List (Op α) → Prop
  | h, [] => h.size ≤ bound
  | h, o :: os => h.size ≤ bound ∧ Ht.sizesBelow ve rve cve bound (h.step ve rve cve o).2 os

end LyModel.LyHt
