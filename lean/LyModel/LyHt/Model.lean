import LyModel.Base
import LyModel.Generated.Consts
/-!
L1 (index-level) model of `hash_table.c`: the record array with per-bucket chains `hlists[i] = {first,last}`,
the free list threaded through `rec->next`, the counters `used/size` and the resize state `resize ∈ {0,1,2}`.
Every function mirrors the C function of the same name statement by statement (index arithmetic included).

Conventions
* `NO = LYHT_NO_RECORD = UINT32_MAX` is the "points to nothing" index.
* The value-equality callback `lyht_value_equal_cb(val1_p, val2_p, mod, cb_data)` is a `VEq α := Bool → α → α → Bool`
  (`ve mod searched stored`); `cb_data` is closed over by the caller (the dictionary sets it before every call).
  `lyht_set_cb` is modelled by passing the callback to each operation (`ve`) plus the optional temporary
  resize callback (`rve`), exactly the two values the C code switches between.
* The library (and the harnesses) are built with `NDEBUG`: `assert`s are no-ops.  Where an assertion guards a
  memory access (`assert(rec_idx < ht->size)` in `_lyht_insert_with_resize_cb`) the model returns `Res.full`
  instead of performing the out-of-bounds access; `ht_resizable_never_full` (Props/C17) proves this never happens for a
  table with resizing enabled, `l1_first_free_in_bounds` (Props/C17L1) that it happens exactly when `used = size`.
* `lyht_resize` re-inserts through `lyht_insert(_no_check)`, i.e. through `_lyht_insert_with_resize_cb` itself.
  The nested calls cannot resize again (`nested_insert_never_resizes`, Props/C17), so the model re-inserts with
  `insertCore` (everything of `_lyht_insert_with_resize_cb` up to and including `++ht->used`).
* Arithmetic is on `Nat`; the C code uses `uint32_t` (`used * 100` wraps for `used ≥ 42 949 673`, `size <<= 1`
  wraps at 2^31).  Assumption recorded in the check module: tables have fewer than 2^25 records
  (`l1_refines_l2` asks for sizes below 2^31 along the history).
-/
namespace LyModel.LyHt
open LyModel.Generated

/-- `lyht_value_equal_cb`: `ve mod searched stored` -/
abbrev VEq (α : Type) := Bool → α → α → Bool

abbrev NO : Nat := LYHT_NO_RECORD

/-- `struct ly_ht_rec` -/
structure Rec (α : Type) where
  hash : UInt32
  next : Nat
  val : α
deriving Repr

/-- `struct ly_ht` (without the callback fields, see above) -/
structure Ht (α : Type) where
  used : Nat
  size : Nat
  resize : Nat
  firstFree : Nat
  hlists : Array (Nat × Nat)
  recs : Array (Rec α)
deriving Repr

/-- result of an operation: `LY_ERR` + `*match_p` -/
inductive Res (α : Type) where
  | ok (m : Option α)     -- LY_SUCCESS (+ matched / stored value when `match_p` was given)
  | exist (m : α)         -- LY_EEXIST, `*match_p` = the equal stored value
  | notfound              -- LY_ENOTFOUND
  | eint                  -- LY_EINT (`lyht_find_next`: the previous value is not in the table)
  | full                  -- guarded precondition: no free record (the C code would index out of bounds)
deriving Repr, DecidableEq

variable {α : Type} [Inhabited α]

def Rec.dflt : Rec α := { hash := 0, next := NO, val := default }

def Ht.recAt (h : Ht α) (i : Nat) : Rec α := h.recs.getD i Rec.dflt
def Ht.hl (h : Ht α) (i : Nat) : Nat × Nat := h.hlists.getD i (NO, NO)

/-- `lyht_init_hlists_and_records`: note `rec->next = i + 1` for every `i` (the `i != ht->size` test is always
true), so the free list ends with the index `size`, not with `LYHT_NO_RECORD`. -/
def initTable (size resize : Nat) : Ht α :=
  { used := 0, size := size, resize := resize, firstFree := 0,
    hlists := Array.replicate size (NO, NO),
    recs := Array.ofFn (n := size) fun i => { hash := 0, next := i.val + 1, val := default } }

/-- `lyht_new(size, …, resize)` -/
def Ht.new (size resize : Nat) : Ht α :=
  initTable (if size < LYHT_MIN_SIZE then LYHT_MIN_SIZE else size) resize

/-- `hash & (ht->size - 1)` -/
def Ht.idx (h : Ht α) (hash : UInt32) : Nat := hash.toNat &&& (h.size - 1)

/-- walk of `LYHT_ITER_HLIST_RECS` from record `i`: first record satisfying `p`, with its predecessor
(`NO` when it is the first of the walk).  Fuel = table size + 1 (a chain never has more than `size` records). -/
def walkFind (h : Ht α) (p : Rec α → Bool) : Nat → Nat → Nat → Option (Nat × Nat)
  | 0, _, _ => none
  | fuel + 1, i, prev =>
    if i = NO then none
    else
      let r := h.recAt i
      if p r then some (i, prev) else walkFind h p fuel r.next i

/-- `lyht_find_rec(ht, val_p, hash, mod, val_equal, NULL, &rec)` → index of the record (and of its predecessor) -/
def Ht.findRec (h : Ht α) (ve : VEq α) (mod : Bool) (v : α) (hash : UInt32) : Option (Nat × Nat) :=
  walkFind h (fun r => r.hash == hash && ve mod v r.val) (h.size + 1) (h.hl (h.idx hash)).1 NO

/-- `lyht_find` -/
def Ht.find (h : Ht α) (ve : VEq α) (v : α) (hash : UInt32) : Option α :=
  (h.findRec ve false v hash).map fun (i, _) => (h.recAt i).val

/-- `lyht_find_next_with_collision_cb(ht, val_p, hash, val_equal, &match)`; `cve` = the optional collision callback -/
def Ht.findNext (h : Ht α) (ve : VEq α) (cve : Option (VEq α)) (v : α) (hash : UInt32) : Res α :=
  let e := cve.getD ve
  match h.findRec e true v hash with
  | none => .eint
  | some (i, _) =>
    match walkFind h (fun r => r.hash == hash && e false v r.val) (h.size + 1) (h.recAt i).next NO with
    | some (j, _) => .ok (some (h.recAt j).val)
    | none => .notfound

/-- the part of `_lyht_insert_with_resize_cb` between the duplicate check and `++ht->used` (inclusive):
take the first free record, link it at the end of the chain of its bucket.  Returns the record index. -/
def Ht.link (h : Ht α) (v : α) (hash : UInt32) : Ht α × Nat :=
  let b := h.idx hash
  let ri := h.firstFree
  let r := h.recAt ri
  let ff := r.next
  let hl := h.hl b
  let (hlists, recs) :=
    if hl.1 = NO then
      (h.hlists.setIfInBounds b (ri, hl.2), h.recs)
    else
      let prev := h.recAt hl.2
      (h.hlists, h.recs.setIfInBounds hl.2 { prev with next := ri })
  -- rec->next = NO; hlists[b].last = rec_idx; rec->hash = hash; memcpy(val)
  let recs := recs.setIfInBounds ri { hash := hash, next := NO, val := v }
  let hlists := hlists.setIfInBounds b ((hlists.getD b (NO, NO)).1, ri)
  ({ h with firstFree := ff, hlists := hlists, recs := recs, used := h.used + 1 }, ri)

/-- nested `lyht_insert` / `lyht_insert_no_check` of `lyht_resize` (duplicate check with `mod = 1`, then link) -/
def Ht.insertCore (h : Ht α) (ve : VEq α) (check : Bool) (v : α) (hash : UInt32) : Ht α :=
  if check && (h.findRec ve true v hash).isSome then h   -- LY_EEXIST: `assert(!ret)` is a no-op, the record is dropped
  else if h.firstFree < h.size then (h.link v hash).1
  else h

/-- records of one chain in walk order (fuelled) -/
def chainList (h : Ht α) : Nat → Nat → List (UInt32 × α)
  | 0, _ => []
  | fuel + 1, i =>
    if i = NO then [] else
      let r := h.recAt i
      (r.hash, r.val) :: chainList h fuel r.next

/-- all records in the order of `LYHT_ITER_ALL_RECS` (bucket by bucket, each chain first to last) -/
def Ht.toList (h : Ht α) : List (UInt32 × α) :=
  (List.range h.size).flatMap fun b => chainList h (h.size + 1) (h.hl b).1

/-- `lyht_resize(ht, operation, check)`: new arrays of the new size, every old record re-inserted in
`LYHT_ITER_ALL_RECS` order; `ve` is the callback installed at that moment. -/
def Ht.resizeTo (h : Ht α) (ve : VEq α) (check : Bool) (newSize : Nat) : Ht α :=
  h.toList.foldl (fun t (r : UInt32 × α) => t.insertCore ve check r.2 r.1) (initTable newSize h.resize)

/-- the "enable shrinking" step: `if ((ht->resize == 1) && (r >= LYHT_FIRST_SHRINK_PERCENTAGE)) ht->resize = 2` -/
def Ht.armed (h1 : Ht α) : Ht α :=
  if h1.resize = 1 ∧ (h1.used * 100) / h1.size ≥ LYHT_FIRST_SHRINK_PERCENTAGE then { h1 with resize := 2 } else h1

/-- `_lyht_insert_with_resize_cb(ht, val_p, hash, resize_val_equal, match_p, check)`;
`wantMatch` = `match_p != NULL`. -/
def Ht.insert (h : Ht α) (ve : VEq α) (rve : Option (VEq α)) (check wantMatch : Bool) (v : α) (hash : UInt32) :
    Res α × Ht α :=
  match (if check then h.findRec ve true v hash else none) with
  | some (i, _) => (.exist (h.recAt i).val, h)
  | none =>
    if ¬ h.firstFree < h.size then (.full, h) else
    let h1 := (h.link v hash).1
    if h1.resize ≠ 0 then
      let r := (h1.used * 100) / h1.size
      let h2 := h1.armed
      if h2.resize = 2 ∧ r ≥ LYHT_ENLARGE_PERCENTAGE then
        let e := rve.getD ve
        let h3 := h2.resizeTo e check (h2.size * 2)
        if wantMatch then
          -- `ret = lyht_find(ht, val_p, hash, match_p)` with the (temporary) callback, `mod = 0`
          match h3.find e v hash with
          | some m => (.ok (some m), h3)
          | none => (.notfound, h3)
        else (.ok none, h3)
      else (.ok (if wantMatch then some v else none), h2)
    else (.ok (if wantMatch then some v else none), h1)

/-- the unlinking part of `lyht_remove_with_resize_cb`: record `ri` (predecessor `prev`, `NO` if it is the first of its
chain) leaves the chain of the bucket of `hash` and becomes the head of the free list; `--ht->used`. -/
def Ht.unlink (h : Ht α) (ri prev : Nat) (hash : UInt32) : Ht α :=
  let b := h.idx hash
  let r := h.recAt ri
  let hl := h.hl b
  let (hlists, recs) :=
    if prev = NO then
      (h.hlists.setIfInBounds b (r.next, if r.next = NO then NO else hl.2), h.recs)
    else
      let p := h.recAt prev
      (if r.next = NO then h.hlists.setIfInBounds b (hl.1, prev) else h.hlists,
       h.recs.setIfInBounds prev { p with next := r.next })
  -- rec->next = ht->first_free_rec; ht->first_free_rec = rec_idx
  let recs := recs.setIfInBounds ri { r with next := h.firstFree }
  { h with hlists := hlists, recs := recs, firstFree := ri, used := h.used - 1 }

/-- `lyht_remove_with_resize_cb(ht, val_p, hash, resize_val_equal)` -/
def Ht.remove (h : Ht α) (ve : VEq α) (rve : Option (VEq α)) (v : α) (hash : UInt32) : Res α × Ht α :=
  match h.findRec ve true v hash with
  | none => (.notfound, h)
  | some (ri, prev) =>
    let h1 := h.unlink ri prev hash
    if h1.resize = 2 then
      let rr := (h1.used * 100) / h1.size
      if rr < LYHT_SHRINK_PERCENTAGE ∧ h1.size > LYHT_MIN_SIZE then
        (.ok none, h1.resizeTo (rve.getD ve) true (h1.size / 2))
      else (.ok none, h1)
    else (.ok none, h1)

/-- `lyht_get_fixed_size(item_count)` on `uint32_t` -/
def getFixedSize (n : UInt32) : UInt32 :=
  if n = 0 then 1 else
    let c := n - 1
    let c := c ||| (c >>> 1)
    let c := c ||| (c >>> 2)
    let c := c ||| (c >>> 4)
    let c := c ||| (c >>> 8)
    let c := c ||| (c >>> 16)
    c + 1

end LyModel.LyHt
