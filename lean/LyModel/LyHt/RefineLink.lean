import LyModel.LyHt.Refine
/-!
L1 → L2, part 2: `Ht.link` (taking the first free record and chaining it at the end of its bucket) and the nested
insert of `lyht_resize`.
-/
namespace LyModel.LyHt
open List LyModel.Generated

variable {α : Type} [Inhabited α]

/-! ### generic list / array facts -/

theorem getD_set {β : Type} (a : Array β) (i j : Nat) (v d : β) (hi : i < a.size) :
    (a.setIfInBounds i v).getD j d = if j = i then v else a.getD j d := by
  simp only [Array.getD_eq_getD_getElem?, Array.getElem?_setIfInBounds]
  by_cases h : j = i
  · subst h; simp [hi]
  · rw [if_neg (fun h' => h h'.symm), if_neg h]

theorem getD_updAt {β : Type} (l : List β) (i j : Nat) (f : β → β) (d : β) (hi : i < l.length) :
    (updAt l i f).getD j d = if j = i then f (l.getD i d) else l.getD j d := by
  induction l generalizing i j with
  | nil => simp at hi
  | cons x xs ih =>
    cases i with
    | zero => cases j <;> simp [updAt, List.getD]
    | succ i =>
      cases j with
      | zero => simp [updAt, List.getD]
      | succ j =>
        have := ih i j (by simpa using hi)
        simp only [updAt, List.getD_cons_succ] at this ⊢
        rw [this]; simp

theorem flatten_updAt_snoc {β : Type} (l : List (List β)) (i : Nat) (x : β) (hi : i < l.length) :
    (updAt l i (· ++ [x])).flatten ~ x :: l.flatten := by
  obtain ⟨A, b, B, e, hl⟩ := split_at l i hi
  rw [e, ← hl, updAt_split]
  simp only [List.flatten_append, List.flatten_cons, List.append_assoc, List.singleton_append]
  exact (List.perm_middle (l₁ := A.flatten ++ b) (l₂ := B.flatten) (a := x)) |> fun p => by simpa using p

theorem ext_getD {β : Type} (l1 l2 : List β) (d : β) (hl : l1.length = l2.length) (h : ∀ j, l1.getD j d = l2.getD j d) :
    l1 = l2 := by
  induction l1 generalizing l2 with
  | nil => cases l2 with
    | nil => rfl
    | cons y ys => simp at hl
  | cons x xs ih =>
    cases l2 with
    | nil => simp at hl
    | cons y ys =>
      have h0 := h 0
      simp only [List.getD_cons_zero] at h0
      rw [h0, ih ys (by simpa using hl) (fun j => by simpa using h (j + 1))]

theorem getD_map_nil {β γ : Type} (l : List (List β)) (g : β → γ) (j : Nat) :
    (l.map fun c => c.map g).getD j [] = (l.getD j []).map g := by
  induction l generalizing j with
  | nil => simp
  | cons x xs ih =>
    cases j with
    | zero => rfl
    | succ j => simp only [List.map_cons, List.getD_cons_succ]; exact ih j

/-- distinct buckets of a duplicate-free array of chains are disjoint -/
theorem disjoint_of_nodup_flatten {β : Type} (l : List (List β)) (hn : l.flatten.Nodup) (b b' : Nat) (hb : b ≠ b') :
    ∀ i ∈ l.getD b [], i ∉ l.getD b' [] := by
  induction l generalizing b b' with
  | nil => simp
  | cons x xs ih =>
    rw [List.flatten_cons, List.nodup_append] at hn
    have hsub : ∀ k, ∀ i ∈ xs.getD k [], i ∈ xs.flatten := by
      intro k i hi
      by_cases hk : k < xs.length
      · rw [List.getD_eq_getElem?_getD, List.getElem?_eq_getElem hk] at hi
        exact List.mem_flatten.2 ⟨xs[k], by simp, by simpa using hi⟩
      · rw [List.getD_eq_getElem?_getD, List.getElem?_eq_none (by omega)] at hi; simp at hi
    cases b with
    | zero =>
      cases b' with
      | zero => exact absurd rfl hb
      | succ k =>
        intro i hi hi'
        simp only [List.getD_cons_zero, List.getD_cons_succ] at hi hi'
        exact hn.2.2 i hi i (hsub k i hi') rfl
    | succ k =>
      cases b' with
      | zero =>
        intro i hi hi'
        simp only [List.getD_cons_zero, List.getD_cons_succ] at hi hi'
        exact hn.2.2 i hi' i (hsub k i hi) rfl
      | succ k' =>
        simp only [List.getD_cons_succ]
        exact ih hn.2.1 k k' (by omega)

theorem getD_mem_flatten {β : Type} (l : List (List β)) (k : Nat) : ∀ i ∈ l.getD k [], i ∈ l.flatten := by
  intro i hi
  by_cases hk : k < l.length
  · rw [List.getD_eq_getElem?_getD, List.getElem?_eq_getElem hk] at hi
    exact List.mem_flatten.2 ⟨l[k], by simp, by simpa using hi⟩
  · rw [List.getD_eq_getElem?_getD, List.getElem?_eq_none (by omega)] at hi; simp at hi

theorem getD_sublist_flatten {β : Type} (l : List (List β)) (k : Nat) : (l.getD k []).Sublist l.flatten := by
  by_cases hk : k < l.length
  · rw [List.getD_eq_getElem?_getD, List.getElem?_eq_getElem hk]
    exact List.sublist_flatten_of_mem (by simp)
  · rw [List.getD_eq_getElem?_getD, List.getElem?_eq_none (by omega)]; simp

/-! ### the fields after `link` -/

theorem recAt_set (recs : Array (Rec α)) (i j : Nat) (r : Rec α) (hi : i < recs.size) :
    (recs.setIfInBounds i r).getD j Rec.dflt = if j = i then r else recs.getD j Rec.dflt :=
  getD_set recs i j r Rec.dflt hi

structure LinkFields (h h' : Ht α) (v : α) (hash : UInt32) : Prop where
  size : h'.size = h.size
  resize : h'.resize = h.resize
  used : h'.used = h.used + 1
  rsz : h'.recs.size = h.recs.size
  hsz : h'.hlists.size = h.hlists.size
  ff : h'.firstFree = h.nxt h.firstFree
  recAt : ∀ j, h'.recAt j =
    if j = h.firstFree then { hash := hash, next := NO, val := v }
    else if (h.hl (h.idx hash)).1 ≠ NO ∧ j = (h.hl (h.idx hash)).2 then { (h.recAt j) with next := h.firstFree }
    else h.recAt j
  hl : ∀ b, h'.hl b =
    if b = h.idx hash then ((if (h.hl (h.idx hash)).1 = NO then h.firstFree else (h.hl (h.idx hash)).1), h.firstFree)
    else h.hl b

theorem link_fields (h : Ht α) (v : α) (hash : UInt32) (hb : h.idx hash < h.hlists.size) (hri : h.firstFree < h.recs.size)
    (hlast : (h.hl (h.idx hash)).1 ≠ NO → (h.hl (h.idx hash)).2 < h.recs.size) :
    LinkFields h (h.link v hash).1 v hash := by
  by_cases hc : (h.hl (h.idx hash)).1 = NO
  · have e : (h.link v hash).1 =
        { h with firstFree := (h.recAt h.firstFree).next,
                 hlists := (h.hlists.setIfInBounds (h.idx hash) (h.firstFree, (h.hl (h.idx hash)).2)).setIfInBounds (h.idx hash)
                   (((h.hlists.setIfInBounds (h.idx hash) (h.firstFree, (h.hl (h.idx hash)).2)).getD (h.idx hash) (NO, NO)).1, h.firstFree),
                 recs := h.recs.setIfInBounds h.firstFree { hash := hash, next := NO, val := v },
                 used := h.used + 1 } := by
      unfold Ht.link; simp only [hc, if_true]
    rw [e]
    refine ⟨rfl, rfl, rfl, by simp, by simp, rfl, ?_, ?_⟩
    · intro j
      simp only [Ht.recAt]
      rw [getD_set _ _ _ _ _ hri]
      by_cases hj : j = h.firstFree
      · rw [if_pos hj, if_pos hj]
      · rw [if_neg hj, if_neg hj, if_neg (fun hh => hh.1 hc)]
    · intro b
      have hc' := hc
      unfold Ht.hl at hc' ⊢
      simp only
      rw [getD_set _ _ _ _ _ (by simpa using hb), getD_set _ _ _ _ _ hb, getD_set _ _ _ _ _ hb]
      by_cases hbb : b = h.idx hash
      · rw [if_pos hbb, if_pos hbb, if_pos rfl, if_pos hc']
      · rw [if_neg hbb, if_neg hbb, if_neg hbb]
  · have e : (h.link v hash).1 =
        { h with firstFree := (h.recAt h.firstFree).next,
                 hlists := h.hlists.setIfInBounds (h.idx hash) ((h.hlists.getD (h.idx hash) (NO, NO)).1, h.firstFree),
                 recs := (h.recs.setIfInBounds (h.hl (h.idx hash)).2
                    { (h.recAt (h.hl (h.idx hash)).2) with next := h.firstFree }).setIfInBounds h.firstFree
                    { hash := hash, next := NO, val := v },
                 used := h.used + 1 } := by
      unfold Ht.link; simp only [hc, if_false]
    rw [e]
    refine ⟨rfl, rfl, rfl, by simp, by simp, rfl, ?_, ?_⟩
    · intro j
      simp only [Ht.recAt]
      rw [getD_set _ _ _ _ _ (by simpa using hri), getD_set _ _ _ _ _ (hlast hc)]
      by_cases hj : j = h.firstFree
      · rw [if_pos hj, if_pos hj]
      · rw [if_neg hj, if_neg hj]
        by_cases hj2 : j = (h.hl (h.idx hash)).2
        · rw [if_pos hj2, if_pos ⟨hc, hj2⟩, hj2]
        · rw [if_neg hj2, if_neg (fun hh => hj2 hh.2)]
    · intro b
      have hc' := hc
      unfold Ht.hl at hc' ⊢
      simp only
      rw [getD_set _ _ _ _ _ hb]
      by_cases hbb : b = h.idx hash
      · rw [if_pos hbb, if_pos hbb, if_neg hc']
      · rw [if_neg hbb, if_neg hbb]

theorem getLast_not_mem_dropLast {β : Type} (l : List β) (hn : l.Nodup) (z : β) (hz : l.getLast? = some z) : z ∉ l.dropLast := by
  induction l with
  | nil => simp
  | cons x xs ih =>
    cases xs with
    | nil => simp
    | cons y ys =>
      rw [List.nodup_cons] at hn
      rw [List.getLast?_cons_cons] at hz
      simp only [List.dropLast_cons_cons, List.mem_cons, not_or]
      refine ⟨?_, ih hn.2 hz⟩
      intro hzx
      exact hn.1 (by rw [← hzx]; exact List.mem_of_getLast? hz)

omit [Inhabited α] in
theorem Ht.idx_lt (h : Ht α) (hp : 0 < h.size) (hash : UInt32) : h.idx hash < h.size := by
  have : hash.toNat &&& (h.size - 1) ≤ h.size - 1 := Nat.and_le_right
  unfold Ht.idx; omega

namespace LinkFields
variable {h h' : Ht α} {v : α} {hash : UInt32}

theorem nxt (F : LinkFields h h' v hash) (j : Nat) :
    h'.nxt j = if j = h.firstFree then NO
      else if (h.hl (h.idx hash)).1 ≠ NO ∧ j = (h.hl (h.idx hash)).2 then h.firstFree else h.nxt j := by
  unfold Ht.nxt; rw [F.recAt j]
  split
  · rfl
  · split <;> rfl

theorem item_ne (F : LinkFields h h' v hash) (j : Nat) (hj : j ≠ h.firstFree) : h'.item j = h.item j := by
  unfold Ht.item; rw [F.recAt j, if_neg hj]
  split <;> rfl

theorem item_new (F : LinkFields h h' v hash) : h'.item h.firstFree = (hash, v) := by
  unfold Ht.item; rw [F.recAt, if_pos rfl]

theorem hash_ne (F : LinkFields h h' v hash) (j : Nat) (hj : j ≠ h.firstFree) : (h'.recAt j).hash = (h.recAt j).hash := by
  rw [F.recAt j, if_neg hj]
  split <;> rfl

end LinkFields

/-- `link` keeps the representation invariant and is the L2 `link` -/
theorem link_inv1 (h : Ht α) (cs : List (List Nat)) (fl : List Nat) (hi : Inv1 h cs fl) (v : α) (hash : UInt32)
    (hfree : h.firstFree < h.size) :
    ∃ fl', fl = h.firstFree :: fl' ∧
      Inv1 (h.link v hash).1 (updAt cs (h.idx hash) (· ++ [h.firstFree])) fl' ∧
      (h.link v hash).1.toL2 = h.toL2.link v hash := by
  have hb : h.idx hash < h.size := h.idx_lt hi.pos hash
  have hbc : h.idx hash < cs.length := by rw [hi.clen]; exact hb
  -- the free list is not empty
  obtain ⟨fl', hfl⟩ : ∃ fl', fl = h.firstFree :: fl' := by
    cases hfl : fl with
    | nil => have := hi.free; rw [hfl] at this; simp only [IsChain] at this; omega
    | cons a fl' => have := hi.free; rw [hfl] at this; exact ⟨fl', by rw [this.1]⟩
  refine ⟨fl', hfl, ?_⟩
  have hnd := hi.nodup
  rw [hfl, List.nodup_append] at hnd
  obtain ⟨hndc, hndf, hdisj⟩ := hnd
  rw [List.nodup_cons] at hndf
  have hri_nf : ∀ i ∈ cs.flatten, i ≠ h.firstFree := fun i hic => hdisj i hic h.firstFree (by simp)
  have hri_nfl : ∀ i ∈ fl', i ≠ h.firstFree := fun i hif he => hndf.1 (by rw [← he]; exact hif)
  have hfl_nc : ∀ i ∈ fl', i ∉ cs.flatten := fun i hif hic => hdisj i hic i (by simp [hif]) rfl
  -- the chain of the bucket
  have hchain := hi.chain _ hb
  have hcn : (h.hl (h.idx hash)).1 = NO ↔ cs.getD (h.idx hash) [] = [] := by
    cases hc : cs.getD (h.idx hash) [] with
    | nil => rw [hc] at hchain; simp only [IsChain] at hchain; simp [hchain]
    | cons x xs =>
      rw [hc] at hchain
      have : x < h.size := hi.chain_mem_lt (b := h.idx hash) (by rw [hc]; simp)
      have hs := hi.small
      rw [hchain.1]
      simp; omega
  have hlastmem : ∀ z, (cs.getD (h.idx hash) []).getLast? = some z → z ∈ cs.getD (h.idx hash) [] :=
    fun z hz => List.mem_of_getLast? hz
  have hlast : (h.hl (h.idx hash)).1 ≠ NO → (h.hl (h.idx hash)).2 < h.recs.size := by
    intro hne
    have hcne : cs.getD (h.idx hash) [] ≠ [] := fun hc => hne (hcn.2 hc)
    obtain ⟨z, hz⟩ : ∃ z, (cs.getD (h.idx hash) []).getLast? = some z := by
      cases hg : (cs.getD (h.idx hash) []).getLast? with
      | none => exact absurd (List.getLast?_eq_none_iff.1 hg) hcne
      | some z => exact ⟨z, rfl⟩
    rw [hi.last _ hb z hz, hi.rsz]
    exact hi.chain_mem_lt (hlastmem z hz)
  have F := link_fields h v hash (by rw [hi.hsz]; exact hb) (by rw [hi.rsz]; exact hfree) hlast
  -- where `next` is unchanged
  have hnxt_keep : ∀ j, j ≠ h.firstFree → (∀ z, (cs.getD (h.idx hash) []).getLast? = some z → j ≠ z) →
      (h.link v hash).1.nxt j = h.nxt j := by
    intro j hj hz
    rw [F.nxt j, if_neg hj]
    split
    · rename_i hc
      exfalso
      have hcne : cs.getD (h.idx hash) [] ≠ [] := fun hc' => hc.1 (hcn.2 hc')
      cases hg : (cs.getD (h.idx hash) []).getLast? with
      | none => exact absurd (List.getLast?_eq_none_iff.1 hg) hcne
      | some z => exact hz z hg (by rw [hc.2, hi.last _ hb z hg])
    · rfl
  have hgetD : ∀ b', (updAt cs (h.idx hash) (· ++ [h.firstFree])).getD b' [] =
      if b' = h.idx hash then cs.getD (h.idx hash) [] ++ [h.firstFree] else cs.getD b' [] :=
    fun b' => getD_updAt cs _ b' _ [] hbc
  have hperm : (updAt cs (h.idx hash) (· ++ [h.firstFree])).flatten ~ h.firstFree :: cs.flatten :=
    flatten_updAt_snoc cs _ _ hbc
  have hinv : Inv1 (h.link v hash).1 (updAt cs (h.idx hash) (· ++ [h.firstFree])) fl' := by
    refine ⟨by rw [F.rsz, F.size]; exact hi.rsz, by rw [F.hsz, F.size]; exact hi.hsz, by rw [updAt_length, F.size]; exact hi.clen,
      by rw [F.size]; exact hi.pos, by rw [F.size]; exact hi.small, ?_, ?_, ?_, ?_, ?_, ?_⟩
    · -- chains
      intro b' hb'
      rw [F.size] at hb'
      rw [hgetD b', F.hl b']
      by_cases hbb : b' = h.idx hash
      · rw [if_pos hbb, if_pos hbb]
        have hcN : (cs.getD (h.idx hash) []).Nodup := (getD_sublist_flatten cs _).nodup hndc
        have := IsChain.snoc (nxt' := (h.link v hash).1.nxt) (a := h.firstFree) hchain ?_ ?_ ?_ (fun _ => trivial)
        · simp only
          by_cases hce : cs.getD (h.idx hash) [] = []
          · rw [if_pos hce] at this; rw [if_pos (hcn.2 hce)]; exact this
          · rw [if_neg hce] at this; rw [if_neg (fun hc => hce (hcn.1 hc))]; exact this
        · intro i hid
          have him : i ∈ cs.getD (h.idx hash) [] := (List.dropLast_sublist _).subset hid
          refine hnxt_keep i (hri_nf i (getD_mem_flatten cs _ i him)) ?_
          intro z hz hiz
          exact getLast_not_mem_dropLast _ hcN z hz (by rw [← hiz]; exact hid)
        · intro x hx
          rw [F.nxt x, if_neg (hri_nf x (getD_mem_flatten cs _ x (hlastmem x hx)))]
          rw [if_pos ⟨fun hc => by rw [hcn.1 hc] at hx; simp at hx, (hi.last _ hb x hx).symm⟩]
        · rw [F.nxt, if_pos rfl]
      · rw [if_neg hbb, if_neg hbb]
        refine (hi.chain b' hb').congr ?_
        intro i him
        refine hnxt_keep i (hri_nf i (getD_mem_flatten cs _ i him)) ?_
        intro z hz hiz
        exact disjoint_of_nodup_flatten cs hndc b' (h.idx hash) hbb i him (by rw [hiz]; exact hlastmem z hz)
    · -- last
      intro b' hb' x hx
      rw [F.size] at hb'
      rw [hgetD b'] at hx
      rw [F.hl b']
      by_cases hbb : b' = h.idx hash
      · rw [if_pos hbb] at hx ⊢
        simp at hx
        exact hx
      · rw [if_neg hbb] at hx ⊢
        exact hi.last b' hb' x hx
    · -- free list
      have hf := hi.free
      rw [hfl] at hf
      rw [F.ff, F.size]
      refine hf.2.congr ?_
      intro i hif
      refine hnxt_keep i (hri_nfl i hif) ?_
      intro z hz hiz
      exact hfl_nc i hif (by rw [hiz]; exact getD_mem_flatten cs _ z (hlastmem z hz))
    · -- permutation of all indices
      rw [F.size]
      refine ((hperm.append_right fl').trans ?_).trans hi.perm
      rw [hfl]
      simpa using (List.perm_middle (a := h.firstFree) (l₁ := cs.flatten) (l₂ := fl')).symm
    · -- home bucket
      intro b' hb' i him
      rw [F.size] at hb'
      rw [hgetD b'] at him
      have hidx : ∀ x, (h.link v hash).1.idx x = h.idx x := fun x => by unfold Ht.idx; rw [F.size]
      rw [hidx]
      by_cases hbb : b' = h.idx hash
      · rw [if_pos hbb] at him
        rcases List.mem_append.1 him with hic | hir
        · rw [F.hash_ne i (hri_nf i (getD_mem_flatten cs _ i hic)), hbb]
          exact hi.home _ hb i hic
        · simp at hir; subst hir
          rw [F.recAt, if_pos rfl, hbb]
      · rw [if_neg hbb] at him
        rw [F.hash_ne i (hri_nf i (getD_mem_flatten cs _ i him))]
        exact hi.home b' hb' i him
    · rw [F.used, hi.used, hperm.length_eq]; simp
  refine ⟨hinv, ?_⟩
  -- abstraction
  rw [hinv.toL2_eq, hi.toL2_eq]
  unfold Ht2.link Ht2.idx
  simp only [F.size, F.resize]
  congr 1
  refine ext_getD _ _ [] (by simp [updAt_length]) ?_
  intro j
  have hR := getD_updAt (cs.map fun c => c.map h.item) (h.idx hash) j (· ++ [(hash, v)]) [] (by simpa using hbc)
  rw [getD_map_nil, getD_map_nil] at hR
  rw [getD_map_nil, hgetD j]
  show _ = (updAt (cs.map fun c => c.map h.item) (h.idx hash) (· ++ [(hash, v)])).getD j []
  rw [hR]
  by_cases hj : j = h.idx hash
  · rw [if_pos hj, if_pos hj, List.map_append, List.map_cons, List.map_nil, F.item_new]
    congr 1
    exact List.map_congr_left (fun i hic => F.item_ne i (hri_nf i (getD_mem_flatten cs _ i hic)))
  · rw [if_neg hj, if_neg hj]
    exact List.map_congr_left (fun i hic => F.item_ne i (hri_nf i (getD_mem_flatten cs _ i hic)))

end LyModel.LyHt
