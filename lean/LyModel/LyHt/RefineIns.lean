import LyModel.LyHt.RefineFind
/-!
L1 → L2, part 4: `_lyht_insert_with_resize_cb`.
-/
namespace LyModel.LyHt
open List LyModel.Generated

variable {α : Type} [Inhabited α]

/-- `resize` is not part of the representation invariant -/
theorem Inv1.set_resize {h : Ht α} {cs : List (List Nat)} {fl : List Nat} (hi : Inv1 h cs fl) (r : Nat) :
    Inv1 { h with resize := r } cs fl :=
  ⟨hi.rsz, hi.hsz, hi.clen, hi.pos, hi.small, hi.chain, hi.last, hi.free, hi.perm, hi.home, hi.used⟩

theorem chainList_congr (h h' : Ht α) (he : ∀ i, h'.recAt i = h.recAt i) (fuel s : Nat) :
    chainList h' fuel s = chainList h fuel s := by
  induction fuel generalizing s with
  | zero => rfl
  | succ f ih =>
    simp only [chainList]
    split
    · rfl
    · rw [he s, ih]

theorem toL2_set_resize (h : Ht α) (r : Nat) : ({ h with resize := r } : Ht α).toL2 = { h.toL2 with resize := r } := by
  unfold Ht.toL2
  simp only
  congr 1
  apply List.map_congr_left
  intro b _
  exact chainList_congr h { h with resize := r } (fun i => rfl) _ _

theorem Inv1.used_le {h : Ht α} {cs : List (List Nat)} {fl : List Nat} (hi : Inv1 h cs fl) : h.used ≤ h.size := by
  have hlen := hi.perm.length_eq
  rw [List.length_append, List.length_range, ← hi.used] at hlen
  omega

theorem armed_l2 {h : Ht α} {cs : List (List Nat)} {fl : List Nat} (hi : Inv1 h cs fl) :
    Inv1 h.armed cs fl ∧ h.armed.toL2 = h.toL2.armed := by
  unfold Ht.armed Ht2.armed
  rw [hi.used_eq]
  by_cases hc : h.resize = 1 ∧ h.used * 100 / h.size ≥ LYHT_FIRST_SHRINK_PERCENTAGE
  · have hc' : h.toL2.resize = 1 ∧ h.used * 100 / h.toL2.size ≥ LYHT_FIRST_SHRINK_PERCENTAGE := hc
    rw [if_pos hc, if_pos hc']
    exact ⟨hi.set_resize 2, toL2_set_resize h 2⟩
  · have hc' : ¬ (h.toL2.resize = 1 ∧ h.used * 100 / h.toL2.size ≥ LYHT_FIRST_SHRINK_PERCENTAGE) := hc
    rw [if_neg hc, if_neg hc']
    exact ⟨hi, rfl⟩

/-- does the insertion that produced `h1` enlarge the table? -/
def Ht.enlarges (h1 : Ht α) : Prop :=
  h1.resize ≠ 0 ∧ h1.armed.resize = 2 ∧ (h1.used * 100) / h1.size ≥ LYHT_ENLARGE_PERCENTAGE

instance (h1 : Ht α) : Decidable h1.enlarges := by unfold Ht.enlarges; infer_instance

/-- `_lyht_insert_with_resize_cb` when the duplicate check does not fire and there is a free record -/
theorem Ht.insert_eq (h : Ht α) (ve : VEq α) (rve : Option (VEq α)) (check wm : Bool) (v : α) (hash : UInt32)
    (hnf : (if check then h.findRec ve true v hash else none) = none) (hfree : h.firstFree < h.size) :
    h.insert ve rve check wm v hash =
      if (h.link v hash).1.enlarges then
        let h3 := (h.link v hash).1.armed.resizeTo (rve.getD ve) check ((h.link v hash).1.armed.size * 2)
        (if wm then (match h3.find (rve.getD ve) v hash with | some m => .ok (some m) | none => .notfound) else .ok none, h3)
      else
        (.ok (if wm then some v else none), if (h.link v hash).1.resize ≠ 0 then (h.link v hash).1.armed else (h.link v hash).1) := by
  unfold Ht.insert
  rw [hnf]
  simp only [hfree, not_true_eq_false, if_false]
  by_cases h0 : (h.link v hash).1.resize ≠ 0
  · rw [if_pos h0]
    by_cases he : (h.link v hash).1.enlarges
    · rw [if_pos he, if_pos ⟨he.2.1, he.2.2⟩]
      cases wm
      · rfl
      · simp only [if_true]; split <;> simp_all
    · rw [if_neg he, if_neg (fun hc => he ⟨h0, hc.1, hc.2⟩), if_pos h0]
  · have hne : ¬ (h.link v hash).1.enlarges := fun hc => h0 hc.1
    rw [if_neg h0, if_neg hne, if_neg h0]

/-- `_lyht_insert_with_resize_cb`: same reply, same abstract state, invariant kept -/
theorem insert_l2 {h : Ht α} {cs : List (List Nat)} {fl : List Nat} (hi : Inv1 h cs fl) (hsm : h.size * 2 < NO) (ve : VEq α)
    (rve : Option (VEq α)) (check wm : Bool) (v : α) (hash : UInt32) :
    (∃ cs' fl', Inv1 (h.insert ve rve check wm v hash).2 cs' fl') ∧
    (h.insert ve rve check wm v hash).2.toL2 = (h.toL2.insert ve rve check wm v hash).2 ∧
    (h.insert ve rve check wm v hash).1 = (h.toL2.insert ve rve check wm v hash).1 := by
  have hfind := findRec_l2 hi ve true v hash
  cases hq : (if check then h.findRec ve true v hash else none) with
  | some p =>
    obtain ⟨i, pv⟩ := p
    have hc : check = true := by
      cases check with
      | false => simp at hq
      | true => rfl
    subst hc
    simp only [if_true] at hq
    have h1 : h.insert ve rve true wm v hash = (.exist (h.recAt i).val, h) := by
      unfold Ht.insert; simp only [if_true]; rw [hq]
    have h2 : h.toL2.insert ve rve true wm v hash = (.exist (h.item i).2, h.toL2) := by
      unfold Ht2.insert; simp only [if_true]; rw [← hfind, hq]; rfl
    rw [h1, h2]
    exact ⟨⟨cs, fl, hi⟩, rfl, rfl⟩
  | none =>
    have hq2 : check = true → (h.toL2.bucket hash).find? (Ht2.hit ve true v hash) = none := by
      intro hc; subst hc
      simp only [if_true] at hq; rw [← hfind, hq]; rfl
    by_cases hfree : h.firstFree < h.size
    · have hfree2 : h.toL2.used < h.toL2.size := by rw [hi.used_eq]; exact hi.free_iff.1 hfree
      rw [Ht.insert_eq h ve rve check wm v hash hq hfree, Ht2.insert_eq h.toL2 ve rve check wm v hash hq2 hfree2]
      obtain ⟨fl', _, hi1, hl2⟩ := link_inv1 h cs fl hi v hash hfree
      have hsz1 := link_size h v hash
      obtain ⟨hi2, ha2⟩ := armed_l2 hi1
      have hu1 := hi1.used_eq
      rw [← hl2]
      have hs2' : (h.link v hash).1.armed.size = h.size := by
        unfold Ht.armed; split
        · exact hsz1.1
        · exact hsz1.1
      have hen : (h.link v hash).1.enlarges ↔ (h.link v hash).1.toL2.enlarges := by
        unfold Ht.enlarges Ht2.enlarges
        rw [← ha2, hu1]
        exact Iff.rfl
      by_cases he : (h.link v hash).1.enlarges
      · rw [if_pos he, if_pos (hen.1 he)]
        have hroom : (h.link v hash).1.armed.used ≤ (h.link v hash).1.armed.size * 2 := by
          have := hi2.used_le; omega
        obtain ⟨⟨cs3, fl3, hi3⟩, hr3⟩ := resizeTo_l2 hi2 (rve.getD ve) check ((h.link v hash).1.armed.size * 2)
          (by rw [hs2']; have := hi.pos; omega) (by rw [hs2']; exact hsm) hroom
        have hsz : (h.link v hash).1.armed.size * 2 = h.toL2.size * 2 := by rw [hs2']; rfl
        rw [← ha2, ← hsz, ← hr3]
        simp only
        refine ⟨⟨cs3, fl3, hi3⟩, trivial, ?_⟩
        cases wm with
        | false => rfl
        | true => simp only [if_true]; rw [← find_l2 hi3]; rfl
      · rw [if_neg he, if_neg (fun hc => he (hen.2 hc))]
        simp only
        have hrs : (h.link v hash).1.toL2.resize = (h.link v hash).1.resize := rfl
        rw [hrs]
        by_cases h0 : (h.link v hash).1.resize ≠ 0
        · rw [if_pos h0, if_pos h0, ← ha2]
          exact ⟨⟨_, fl', hi2⟩, rfl, trivial⟩
        · rw [if_neg h0, if_neg h0]
          exact ⟨⟨_, fl', hi1⟩, rfl, trivial⟩
    · have hfree2 : ¬ h.toL2.used < h.toL2.size := by rw [hi.used_eq]; exact fun hc => hfree (hi.free_iff.2 hc)
      have h1 : h.insert ve rve check wm v hash = (.full, h) := by
        unfold Ht.insert; rw [hq]; simp only [hfree, not_false_eq_true, if_true]
      have hq2' : (if check then (h.toL2.bucket hash).find? (Ht2.hit ve true v hash) else none) = none := by
        cases check with
        | false => rfl
        | true => simpa using hq2 rfl
      have h2 : h.toL2.insert ve rve check wm v hash = (.full, h.toL2) := by
        unfold Ht2.insert; rw [hq2']; simp only [hfree2, not_false_eq_true, if_true]
      rw [h1, h2]
      exact ⟨⟨cs, fl, hi⟩, rfl, rfl⟩

end LyModel.LyHt
