import LyModel.LyHt.RefineRem
/-!
L1 → L2, part 6: `lyht_remove_with_resize_cb`, `lyht_find_next_with_collision_cb`, `lyht_new`.
-/
namespace LyModel.LyHt
open List LyModel.Generated

variable {α : Type} [Inhabited α]

def Ht.shrinks (h1 : Ht α) : Prop :=
  h1.resize = 2 ∧ (h1.used * 100) / h1.size < LYHT_SHRINK_PERCENTAGE ∧ h1.size > LYHT_MIN_SIZE

instance (h1 : Ht α) : Decidable h1.shrinks := by unfold Ht.shrinks; infer_instance

theorem Ht.remove_eq (h : Ht α) (ve : VEq α) (rve : Option (VEq α)) (v : α) (hash : UInt32) (ri prev : Nat)
    (hf : h.findRec ve true v hash = some (ri, prev)) :
    h.remove ve rve v hash =
      (.ok none, if (h.unlink ri prev hash).shrinks then
                   (h.unlink ri prev hash).resizeTo (rve.getD ve) true ((h.unlink ri prev hash).size / 2)
                 else h.unlink ri prev hash) := by
  unfold Ht.remove
  rw [hf]
  simp only
  by_cases hs : (h.unlink ri prev hash).shrinks
  · rw [if_pos hs, if_pos hs.1, if_pos ⟨hs.2.1, hs.2.2⟩]
  · rw [if_neg hs]
    by_cases h2 : (h.unlink ri prev hash).resize = 2
    · rw [if_pos h2, if_neg (fun hc => hs ⟨h2, hc.1, hc.2⟩)]
    · rw [if_neg h2]

theorem updAt_congr_at {β : Type} (l : List β) (i : Nat) (f : β → β) (c d : β) (hi : i < l.length) (hc : f (l.getD i d) = c) :
    updAt l i f = updAt l i (fun _ => c) := by
  obtain ⟨A, b, B, e, hl⟩ := split_at l i hi
  rw [e, ← hl, updAt_split, updAt_split]
  have : b = l.getD i d := by rw [e, ← hl, getD_split]
  rw [this, hc]

/-- `lyht_remove_with_resize_cb`: same reply, same abstract state, invariant kept -/
theorem remove_l2 {h : Ht α} {cs : List (List Nat)} {fl : List Nat} (hi : Inv1 h cs fl) (ve : VEq α) (rve : Option (VEq α))
    (v : α) (hash : UInt32) :
    (∃ cs' fl', Inv1 (h.remove ve rve v hash).2 cs' fl') ∧
    (h.remove ve rve v hash).2.toL2 = (h.toL2.remove ve rve v hash).2 ∧
    (h.remove ve rve v hash).1 = (h.toL2.remove ve rve v hash).1 := by
  have hfind := findRec_l2 hi ve true v hash
  rcases findRec_cases hi ve true v hash with ⟨h1, _⟩ | ⟨pre, a, post, e, hpre, ha, h3⟩
  · have hL1 : h.remove ve rve v hash = (.notfound, h) := by unfold Ht.remove; rw [h1]
    rw [h1] at hfind
    rw [hL1, Ht2.remove_absent h.toL2 ve rve v hash hfind.symm]
    exact ⟨⟨cs, fl, hi⟩, rfl, rfl⟩
  · rw [h3] at hfind
    rw [Ht.remove_eq h ve rve v hash a _ h3, Ht2.remove_eq h.toL2 ve rve v hash (h.item a) hfind.symm]
    obtain ⟨hi1, hl2⟩ := unlink_inv1 h cs fl hi hash pre a post e
    have hb : h.idx hash < h.size := h.idx_lt hi.pos hash
    -- the L2 unlink
    have hbk2 : updAt h.toL2.buckets (h.toL2.idx hash) (Ht2.eraseFirst (Ht2.hit ve true v hash)) =
        updAt h.toL2.buckets (h.idx hash) (fun _ => (pre ++ post).map h.item) := by
      refine updAt_congr_at h.toL2.buckets (h.idx hash) _ _ [] ?_ ?_
      · rw [hi.toL2_eq]; simp only [List.length_map, hi.clen]; exact hb
      · have hbk := hi.bucket_eq hash
        unfold Ht2.bucket Ht2.idx at hbk
        have : h.toL2.buckets.getD (h.idx hash) [] = (pre ++ a :: post).map h.item := by rw [← e]; exact hbk
        rw [this, List.map_append, List.map_cons, List.map_append]
        refine eraseFirst_split ?_ ha
        intro x hx
        obtain ⟨i, hii, rfl⟩ := List.mem_map.1 hx
        exact hpre i hii
    have hun : (h.unlink a (pre.getLast?.getD NO) hash).toL2 = h.toL2.unlink ve v hash := by
      rw [hl2]
      unfold Ht2.unlink
      rw [hbk2]
    have hF := unlink_fields h a (pre.getLast?.getD NO) hash (by rw [hi.hsz]; exact hb)
      (by rw [hi.rsz]; exact hi.chain_mem_lt (b := h.idx hash) (by rw [e]; simp))
      (fun hne => by
        rw [hi.rsz]
        cases hg : pre.getLast? with
        | none => rw [hg] at hne; exact absurd rfl hne
        | some z => exact hi.chain_mem_lt (b := h.idx hash) (by rw [e]; simp [List.mem_of_getLast? hg]))
    have hsh : (h.unlink a (pre.getLast?.getD NO) hash).shrinks ↔ (h.toL2.unlink ve v hash).shrinks := by
      unfold Ht.shrinks Ht2.shrinks
      rw [← hun, hi1.used_eq]
      exact Iff.rfl
    simp only
    by_cases hs : (h.unlink a (pre.getLast?.getD NO) hash).shrinks
    · rw [if_pos hs, if_pos (hsh.1 hs)]
      have hsz : (h.unlink a (pre.getLast?.getD NO) hash).size = h.size := hF.size
      have h8 : h.size > 8 := by have := hs.2.2; rw [hsz] at this; simpa [LYHT_MIN_SIZE] using this
      have hq := Ht2.lt_of_div (by rw [hsz]; exact hi.pos) hs.2.1
      simp only [LYHT_SHRINK_PERCENTAGE, hsz] at hq
      obtain ⟨hex, hr3⟩ := resizeTo_l2 hi1 (rve.getD ve) true ((h.unlink a (pre.getLast?.getD NO) hash).size / 2)
        (by rw [hsz]; omega) (by rw [hsz]; have := hi.small; omega) (by rw [hsz]; omega)
      rw [hsz] at hr3 hex ⊢
      rw [hr3, hun]
      exact ⟨hex, rfl, trivial⟩
    · rw [if_neg hs, if_neg (fun hc => hs (hsh.2 hc))]
      exact ⟨⟨_, _, hi1⟩, hun, trivial⟩

/-- `lyht_find_next_with_collision_cb` -/
theorem findNext_l2 {h : Ht α} {cs : List (List Nat)} {fl : List Nat} (hi : Inv1 h cs fl) (ve : VEq α) (cve : Option (VEq α))
    (v : α) (hash : UInt32) : h.findNext ve cve v hash = h.toL2.findNext ve cve v hash := by
  unfold Ht.findNext Ht2.findNext
  simp only
  have hb : h.idx hash < h.size := h.idx_lt hi.pos hash
  rw [hi.bucket_eq]
  rcases findRec_cases hi (cve.getD ve) true v hash with ⟨h1, h2⟩ | ⟨pre, a, post, e, hpre, ha, h3⟩
  · rw [h1, afterFirst_none_of _ (by
      intro x hx
      obtain ⟨i, hii, rfl⟩ := List.mem_map.1 hx
      exact h2 i hii)]
  · rw [h3, e, List.map_append, List.map_cons,
      afterFirst_split (p := Ht2.hit (cve.getD ve) true v hash) (by
        intro x hx
        obtain ⟨i, hii, rfl⟩ := List.mem_map.1 hx
        exact hpre i hii) ha]
    simp only
    have hchain := hi.chain _ hb
    rw [e] at hchain
    have hsuf := hchain.suffix
    have hne : ∀ i ∈ post, i ≠ NO := by
      intro i hip
      have := hi.chain_mem_lt (b := h.idx hash) (i := i) (by rw [e]; simp [hip])
      have := hi.small; omega
    have hlen : post.length < h.size + 1 := by
      have hnd : (cs.getD (h.idx hash) []).Nodup := by
        have := hi.nodup; rw [List.nodup_append] at this
        exact (getD_sublist_flatten cs _).nodup this.1
      have hsub : cs.getD (h.idx hash) [] ⊆ List.range h.size := fun i him => List.mem_range.2 (hi.chain_mem_lt him)
      have := List.Nodup.length_le_of_subset hnd hsub
      rw [List.length_range, e] at this
      simp at this; omega
    have hp : ∀ i, (fun r : Rec α => r.hash == hash && (cve.getD ve) false v r.val) (h.recAt i) =
        h.hitAt (cve.getD ve) false v hash i := fun i => rfl
    show (match walkFind h _ (h.size + 1) (h.nxt a) NO with
          | some (j, _) => Res.ok (some (h.recAt j).val)
          | none => Res.notfound) = _
    cases firstSplit (h.hitAt (cve.getD ve) false v hash) post with
    | none hn =>
      rw [walkFind_none h _ post _ _ _ hsuf hne hlen (fun i him => (hp i).trans (hn i him)),
        find?_map_none h.item (Ht2.hit (cve.getD ve) false v hash) post hn]
    | some pre2 b post2 e2 hpre2 hb2 =>
      rw [e2] at hsuf hne hlen ⊢
      rw [walkFind_some h _ pre2 b post2 _ _ _ hsuf hne hlen (fun i him => (hp i).trans (hpre2 i him)) ((hp b).trans hb2),
        find?_map_some h.item (Ht2.hit (cve.getD ve) false v hash) pre2 b post2 hpre2 hb2]
      rfl

/-- `lyht_new` -/
theorem new_l2 (size resize : Nat) (hs : size < NO) :
    (∃ cs fl, Inv1 (Ht.new size resize : Ht α) cs fl) ∧ (Ht.new size resize : Ht α).toL2 = Ht2.new size resize := by
  unfold Ht.new Ht2.new
  have hpos : 0 < (if size < LYHT_MIN_SIZE then LYHT_MIN_SIZE else size) := by
    split <;> simp [LYHT_MIN_SIZE] at * <;> omega
  have hsm : (if size < LYHT_MIN_SIZE then LYHT_MIN_SIZE else size) < NO := by
    split
    · simp [LYHT_MIN_SIZE, NO, LYHT_NO_RECORD]
    · exact hs
  exact ⟨⟨_, _, initTable_inv1 _ resize hpos hsm⟩, initTable_toL2 _ resize hpos hsm⟩

end LyModel.LyHt
