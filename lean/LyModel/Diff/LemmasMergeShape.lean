import LyModel.Diff.LemmasCancel
import LyModel.Diff.LemmasMergeEmpty
/-!
# `lyd_diff_merge_r`, one step: what a cell of the table keeps of the target node, and the shape of the result list

`mergeCell_sameS` / `mergeCell_val`: every cell of the 4 × 4 table leaves the schema node and the shape of the target node alone
(and its value, for a leaf-list instance); nothing is moved off the user-ordered nodes.  `mergeStep_unmatched` /
`mergeStep_keep` (with `LemmasCancel.mergeStep_cancel`): the three outcomes of one `lyd_diff_merge_r` call on a sibling list.
-/
set_option linter.unusedSimpArgs false
namespace LyModel.Diff
open LyModel LyModel.Tree

@[simp] theorem sid_addMeta (n : DNode) (a : String) (b : Bytes) : (addMeta n a b).sid = n.sid := by simp [addMeta]
@[simp] theorem isTerm_addMeta (n : DNode) (a : String) (b : Bytes) : (addMeta n a b).isTerm = n.isTerm := by simp [addMeta]
@[simp] theorem val_addMeta (n : DNode) (a : String) (b : Bytes) : (addMeta n a b).val = n.val := by simp [addMeta]
@[simp] theorem sid_changeTerm' (n : DNode) (v : Bytes) : (changeTerm n v).sid = n.sid := by simp [changeTerm]
@[simp] theorem isTerm_changeTerm (n : DNode) (v : Bytes) : (changeTerm n v).isTerm = n.isTerm := by simp [changeTerm]
@[simp] theorem val_setKids' (n : DNode) (k : List DNode) : (n.setKids k).val = n.val := by cases n <;> rfl
@[simp] theorem val_setDflt' (n : DNode) (b : Bool) : (n.setDflt b).val = n.val := by cases n <;> rfl
@[simp] theorem val_changeOp' (n : DNode) (op : Op) : (changeOp n op).val = n.val := by simp [changeOp]
@[simp] theorem val_setMetas' (n : DNode) (m : List Meta) : (n.setMetas m).val = n.val := by cases n <;> rfl

/-- same schema node, same shape, same value -/
def Same (t m : DNode) : Prop := m.sid = t.sid ∧ m.isTerm = t.isTerm ∧ m.val = t.val
/-- same schema node, same shape -/
def SameS (t m : DNode) : Prop := m.sid = t.sid ∧ m.isTerm = t.isTerm

theorem mergeNone_same {S : Schema} {t src m : DNode} {cur : Op} (h : mergeNone S t cur src = .ok m) : Same t m := by
  unfold mergeNone at h
  cases cur <;> simp at h <;> subst h <;> (split <;> simp [Same])

theorem mergeDelete_same {S : Schema} {t src m : DNode} {cur : Op} (hc : cur ≠ .replace)
    (h : mergeDelete S t cur src = .ok m) : Same t m := by
  unfold mergeDelete at h
  split at h
  · simp at h
  · cases cur with
    | replace => exact absurd rfl hc
    | delete => simp [Except.map] at h
    | create =>
      simp only [Except.map] at h
      injection h with h
      subst h
      split <;> split <;> simp [Same]
    | none =>
      simp only [Except.map] at h
      injection h with h
      subst h
      split <;> simp [Same]

theorem mergeDelete_sameS {S : Schema} {t src m : DNode} {cur : Op} (h : mergeDelete S t cur src = .ok m) : SameS t m := by
  by_cases hc : cur = .replace
  · subst hc
    unfold mergeDelete at h
    split at h
    · simp at h
    · simp only [Except.map] at h
      split at h
      · simp at h
      · rename_i t1 heq
        injection h with h
        subst h
        have h1 : SameS t t1 := by
          split at heq
          · injection heq with heq; subst heq; simp [SameS]
          · split at heq
            · simp at heq
            · split at heq
              · simp at heq
              · split at heq
                · simp at heq
                · injection heq with heq; subst heq; simp [SameS]
        split
        · exact h1
        · exact ⟨by simpa using h1.1, by simpa using h1.2⟩
  · have := mergeDelete_same hc h
    exact ⟨this.1, this.2.1⟩

theorem mergeReplace_sameS {S : Schema} {t src m : DNode} {cur : Op} (h : mergeReplace S t cur src = .ok m) : SameS t m := by
  unfold mergeReplace at h
  cases cur with
  | delete => simp at h
  | none =>
    simp only at h
    split at h
    · split at h
      · simp at h
      · split at h
        · simp at h
        · injection h with h; subst h; simp [SameS]
    · split at h
      · simp at h
      · injection h with h; subst h; simp [SameS]
    · simp at h
  | create =>
    simp only at h
    split at h
    · simp at h
    · split at h
      · simp at h
      · simp only [Except.map] at h
        split at h
        · simp at h
        · rename_i t2 heq
          injection h with h; subst h
          simp at heq
          subst heq
          simp [SameS]
    · split at h
      · simp at h
      · injection h with h; subst h; simp [SameS]
    · simp at h
  | replace =>
    simp only at h
    split at h
    · simp at h
    · split at h
      · simp at h
      · simp only [Except.map] at h
        split at h
        · simp at h
        · rename_i t2 heq
          injection h with h; subst h
          simp only [beq_self_eq_true, ↓reduceIte] at heq
          split at heq
          · simp at heq
          · split at heq
            · injection heq with heq; subst heq; simp [SameS]
            · injection heq with heq; subst heq; simp [SameS]
    · split at h
      · simp at h
      · injection h with h; subst h; simp [SameS]
    · simp at h

theorem mergeCreate_same {S : Schema} {o : MergeOpts} {t src m : DNode} {cur : Op} {mv : Bool}
    (huo : S.isUserOrd src.sid = false) (h : mergeCreate S o t cur src = .ok (m, mv)) :
    SameS t m ∧ mv = false ∧ (S.isKind src.sid .leaf = false → m.val = t.val) := by
  unfold mergeCreate at h
  cases cur with
  | create => simp at h
  | replace => simp at h
  | none => simp at h
  | delete =>
    simp only [huo, Bool.false_eq_true, ↓reduceIte, Except.map] at h
    split at h
    · simp at h
    · rename_i p heq
      obtain ⟨t1, mv1⟩ := p
      injection h with h
      simp only [Prod.mk.injEq] at h
      obtain ⟨h1, h2⟩ := h
      subst h1 h2
      have h3 : SameS t t1 ∧ mv1 = false ∧ (S.isKind src.sid .leaf = false → t1.val = t.val) := by
        split at heq
        · rename_i hleaf
          (repeat' split at heq) <;>
            (injection heq with heq; simp only [Prod.mk.injEq] at heq; obtain ⟨rfl, rfl⟩ := heq; simp [SameS, hleaf])
        · injection heq with heq; simp only [Prod.mk.injEq] at heq; obtain ⟨rfl, rfl⟩ := heq
          simp [SameS]
      obtain ⟨⟨h4, h5⟩, h6, h7⟩ := h3
      refine ⟨⟨?_, ?_⟩, h6, ?_⟩
      · split <;> simp [h4]
      · split <;> simp [h5]
      · intro hl
        split <;> simp [h7 hl]

/-- what a cell of the table keeps of the target node: schema node and shape; off the user-ordered nodes nothing is moved -/
theorem mergeCell_sameS {S : Schema} {o : MergeOpts} {sop cop : Op} {t src m : DNode} {mv : Bool}
    (huo : S.isUserOrd src.sid = false) (h : mergeCell S o sop t cop src = .ok (m, mv)) : SameS t m ∧ mv = false := by
  unfold mergeCell at h
  cases sop with
  | create => exact ⟨(mergeCreate_same huo h).1, (mergeCreate_same huo h).2.1⟩
  | replace =>
    simp only [Except.map] at h
    split at h
    · simp at h
    · rename_i x heq
      injection h with h; simp only [Prod.mk.injEq] at h
      obtain ⟨rfl, rfl⟩ := h
      exact ⟨mergeReplace_sameS heq, rfl⟩
  | delete =>
    simp only [Except.map] at h
    split at h
    · simp at h
    · rename_i x heq
      injection h with h; simp only [Prod.mk.injEq] at h
      obtain ⟨rfl, rfl⟩ := h
      exact ⟨mergeDelete_sameS heq, rfl⟩
  | none =>
    simp only [Except.map] at h
    split at h
    · simp at h
    · rename_i x heq
      injection h with h; simp only [Prod.mk.injEq] at h
      obtain ⟨rfl, rfl⟩ := h
      exact ⟨⟨(mergeNone_same heq).1, (mergeNone_same heq).2.1⟩, rfl⟩

/-- … and, for a leaf-list instance (no `replace` involved), the value -/
theorem mergeCell_val {S : Schema} {o : MergeOpts} {sop cop : Op} {t src m : DNode} {mv : Bool}
    (huo : S.isUserOrd src.sid = false) (hnl : S.isKind src.sid .leaf = false) (h1 : sop ≠ .replace) (h2 : cop ≠ .replace)
    (h : mergeCell S o sop t cop src = .ok (m, mv)) : m.val = t.val := by
  unfold mergeCell at h
  cases sop with
  | create => exact (mergeCreate_same huo h).2.2 hnl
  | replace => exact absurd rfl h1
  | delete =>
    simp only [Except.map] at h
    split at h
    · simp at h
    · rename_i x heq
      injection h with h; simp only [Prod.mk.injEq] at h
      obtain ⟨rfl, rfl⟩ := h
      exact (mergeDelete_same h2 heq).2.2
  | none =>
    simp only [Except.map] at h
    split at h
    · simp at h
    · rename_i x heq
      injection h with h; simp only [Prod.mk.injEq] at h
      obtain ⟨rfl, rfl⟩ := h
      exact (mergeNone_same heq).2.2

/-! ### the sibling list after one step -/

theorem insertBySchema_perm (n : DNode) : ∀ l : List DNode, (insertBySchema n l).Perm (n :: l)
  | [] => List.Perm.refl _
  | x :: xs => by
    unfold insertBySchema
    split
    · exact List.Perm.refl _
    · exact ((insertBySchema_perm n xs).cons x).trans (List.Perm.swap n x xs)

theorem insertBySchema_keys (n : DNode) : ∀ (kp T : List DNode), (∀ k ∈ kp, k.sid < n.sid) →
    insertBySchema n (kp ++ T) = kp ++ insertBySchema n T
  | [], _, _ => rfl
  | k :: kp, T, h => by
    have hk : ¬ n.sid < k.sid := by have := h k (by simp); omega
    simp only [List.cons_append, insertBySchema, hk, if_false]
    rw [insertBySchema_keys n kp T (fun x hx => h x (by simp [hx]))]

/-- the source node meets nothing: a copy with the operation made explicit is added (unless it is redundant) -/
theorem mergeStep_unmatched (S : Schema) (o : MergeOpts) (cur sin : Option Op) (src : DNode) (T : List DNode) (sop : Op)
    (kidsK : Option Op → Option Op → List DNode → Except DiffErr (List DNode))
    (hsop : effOp src sin = some sop) (hf : ∀ t ∈ T, matchP S src t = false) :
    mergeStep S o cur sin src T kidsK =
      .ok (if (isRedundant S cur (changeOp src sop)).2 then T else insertBySchema (isRedundant S cur (changeOp src sop)).1 T) := by
  unfold mergeStep
  simp only [hsop, findForApply_none S T src hf]

theorem set_mid {α : Type} : ∀ (pre : List α) (c x : α) (rest : List α), (pre ++ c :: rest).set pre.length x = pre ++ x :: rest
  | [], _, _, _ => rfl
  | p :: ps, c, x, rest => by simp [set_mid ps c x rest]

/-- the source node `src` finds `t` behind `pre`; cell, recursion, the node is kept -/
theorem mergeStep_keep (S : Schema) (o : MergeOpts) (cur sin : Option Op) (src t t1 : DNode) (pre rest ks' : List DNode)
    (sop cop : Op) (kidsK : Option Op → Option Op → List DNode → Except DiffErr (List DNode))
    (hsop : effOp src sin = some sop) (hcop : effOp t cur = some cop)
    (hpre : ∀ x ∈ pre, matchP S src x = false) (hm : matchP S src t = true)
    (hnd : S.isDupInst t.sid = false) (hnds : S.isDupInst src.sid = false)
    (hcell : mergeCell S o sop t cop src = .ok (t1, false))
    (hkids : kidsK (childInhOf t1 cur) (childInhOf src sin) t1.kids = .ok ks')
    (hred : (isRedundant S cur (t1.setKids ks')).2 = false) :
    mergeStep S o cur sin src (pre ++ t :: rest) kidsK = .ok (pre ++ (isRedundant S cur (t1.setKids ks')).1 :: rest) := by
  unfold mergeStep
  have hf : findForApply S (pre ++ t :: rest) src = some pre.length := by
    rw [findForApply_eq13]
    exact findIdx?_mid _ pre t rest hpre hm
  simp only [hsop, hf, getElem?_mid, hcop, hnd, Bool.and_false, Bool.false_eq_true, if_false, hcell, hnds, hkids]
  unfold placeBack
  simp only [hred, Bool.false_eq_true, if_false, set_mid]

/-- `lyd_diff_is_redundant` looks at the inherited operation only when the node has none of its own -/
theorem isRedundant_own (S : Schema) (a b : Option Op) (t : DNode) (op : Op) (h : ownOp t = some op) :
    isRedundant S a t = isRedundant S b t := by
  unfold isRedundant
  simp only [effOp, h]

/-- off the user-ordered nodes `lyd_diff_is_redundant` leaves the node as it is -/
theorem isRedundant_fst (S : Schema) (a : Option Op) (t : DNode) (huo : S.isUserOrd t.sid = false) :
    (isRedundant S a t).1 = t := by
  unfold isRedundant
  split
  · rfl
  · simp only [huo, Bool.and_false, Bool.false_eq_true, if_false]
    split
    · split <;> rfl
    · rfl
end LyModel.Diff
