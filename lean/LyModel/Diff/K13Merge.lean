import LyModel.Diff.K13Fwd
import LyModel.Diff.LemmasLit
import LyModel.Props.C13Merge
/-!
# C13: `lyd_diff_merge_all` at tree level — the recursion of `lyd_diff_merge_r` through sibling lists and inner nodes

Semantic invariant of the target diff while the source diff is merged into it, one sibling level at a time:
`TInv cur T L E` — the nodes of the target level `T` are instances of the fragment, pairwise different, and each of them ACTS
(K13Fwd.lean) on the data sibling list `L`: it takes the instance at its place to `E t` (up to `normN`);
`Rel T L E Y` — the data list `Y` is, up to `normN` and instance by instance, what `T` makes of `L`.
One step of the merge (`mergeStep`) either adds a copy of the source node (`tinv_add`), or replaces the target node it meets by
the node of the cell of the 4 × 4 table (`tinv_set`), or drops it (`tinv_drop`); in each case the invariant is kept with `Y`
replaced by what the source node makes of `Y`.  The cells of the table for leaves are the theorems `merge_cell_*` of
Props/C13Merge.lean (imported here: this lemma file is the tree induction on top of them).
-/
set_option linter.unusedSimpArgs false
namespace LyModel.Diff.K13
open LyModel LyModel.Tree LyModel.Diff

variable {P : DNode → Bool} {fx : Fixes}

/-- the nodes of one target level act on `L` -/
structure TInv (S : Schema) (P : DNode → Bool) (fx : Fixes) (cur : Option Op) (T L : List DNode) (E : DNode → Option DNode) :
    Prop where
  lvl : Level S P T
  kb : ∀ c ∈ T, KeysBelow S c L
  acts : ∀ c ∈ T, Acts S P fx cur c ((look S L c).map normN) (E c)

/-- `Y` is, instance by instance and up to `normN`, what `T` makes of `L` -/
structure Rel (S : Schema) (P : DNode → Bool) (T L : List DNode) (E : DNode → Option DNode) (Y : List DNode) : Prop where
  on : ∀ t ∈ T, (look S Y t).map normN = E t
  off : ∀ q, Dom S P q → (∀ t ∈ T, matchP S t q = false) → (look S Y q).map normN = (look S L q).map normN

theorem TInv.perm {S : Schema} {cur : Option Op} {T T' L : List DNode} {E : DNode → Option DNode} (hp : T.Perm T')
    (h : TInv S P fx cur T L E) : TInv S P fx cur T' L E :=
  ⟨h.lvl.perm hp, fun c hc => h.kb c (hp.mem_iff.mpr hc), fun c hc => h.acts c (hp.mem_iff.mpr hc)⟩

theorem Rel.perm {S : Schema} {T T' L Y : List DNode} {E : DNode → Option DNode} (hp : T.Perm T') (h : Rel S P T L E Y) :
    Rel S P T' L E Y :=
  ⟨fun t ht => h.on t (hp.mem_iff.mpr ht), fun q hq hall => h.off q hq (fun t ht => hall t (hp.mem_iff.mp ht))⟩

/-- the target level applied to any good list with the observation of `L` -/
theorem TInv.apply {S : Schema} (K : KeyOrderOn S P) {cur : Option Op} {T L : List DNode} {E : DNode → Option DNode}
    (h : TInv S P fx cur T L E) {n : Nat} {hp : Bool} {X : List DNode} (hh : heightL T ≤ n) (hgX : goodT S P X = true)
    (hX : normL13 X = normL13 L) :
    ∃ X1, applyF S fx n hp cur T X = .ok X1 ∧ goodT S P X1 = true ∧ keysOf S X1 = keysOf S X ∧
      (∀ q, Dom S P q → (∀ c ∈ T, matchP S c q = false) → look S X1 q = look S X q) ∧
      ∀ c ∈ T, (look S X1 c).map normN = E c :=
  acts_list K E T h.lvl n hp X hh hgX (fun c hc => keysBelow_congr hX (h.kb c hc))
    (fun c hc => by rw [look_norm_congr hX c]; exact h.acts c hc)

/-- … and the result has the observation of `Y` -/
theorem Rel.result {S : Schema} (K : KeyOrderOn S P) {T L Y X X1 : List DNode} {E : DNode → Option DNode}
    (hlv : Level S P T) (hR : Rel S P T L E Y) (hgY : goodT S P Y = true) (hX : normL13 X = normL13 L)
    (hg1 : goodT S P X1 = true)
    (hoff : ∀ q, Dom S P q → (∀ c ∈ T, matchP S c q = false) → look S X1 q = look S X q)
    (hon : ∀ c ∈ T, (look S X1 c).map normN = E c) : normL13 X1 = normL13 Y := by
  apply normL_eq_of_look K (goodT_goodL hg1) (goodT_goodL hgY)
  intro q hq
  by_cases hex : ∃ c ∈ T, matchP S c q = true
  · obtain ⟨c, hc, hcq⟩ := hex
    rw [← look_congr K (goodT_goodL hg1) (hlv.dom c hc) hq hcq, ← look_congr K (goodT_goodL hgY) (hlv.dom c hc) hq hcq,
      hon c hc, hR.on c hc]
  · have hall : ∀ c ∈ T, matchP S c q = false := by
      intro c hc
      cases h : matchP S c q
      · rfl
      · exact absurd ⟨c, hc, h⟩ hex
    rw [hoff q hq hall, hR.off q hq hall]
    exact look_norm_congr hX q

/-- the effect assignment with the value at the place of `n` replaced -/
def upd (S : Schema) (n : DNode) (e' : Option DNode) (E : DNode → Option DNode) : DNode → Option DNode :=
  fun d => if matchP S n d then e' else E d

/-- a node that meets nothing in the target level is added -/
theorem tinv_add {S : Schema} (K : KeyOrderOn S P) {cur : Option Op} {T L Y Y' : List DNode} {E : DNode → Option DNode}
    (hT : TInv S P fx cur T L E) (hR : Rel S P T L E Y) (hkY : keysOf S Y = keysOf S L)
    {c : DNode} {e' : Option DNode} (hcd : Dom S P c) (hck : S.isKey c.sid = false) (hkb : KeysBelow S c Y)
    (hun : ∀ t ∈ T, matchP S c t = false) (hact : Acts S P fx cur c ((look S Y c).map normN) e')
    (hloc : Local S P c Y Y') (hval : (look S Y' c).map normN = e') :
    TInv S P fx cur (c :: T) L (upd S c e' E) ∧ Rel S P (c :: T) L (upd S c e' E) Y' := by
  have hun' : ∀ t ∈ T, matchP S t c = false := fun t ht => matchP_false_symm K hcd (hT.lvl.dom t ht) (hun t ht)
  have hupdT : ∀ t ∈ T, upd S c e' E t = E t := fun t ht => by simp [upd, hun t ht]
  have hupdc : upd S c e' E c = e' := by simp [upd, matchP_refl K hcd]
  have hlookL : (look S Y c).map normN = (look S L c).map normN := hR.off c hcd hun'
  refine ⟨⟨hT.lvl.cons hcd hck hun hun', ?_, ?_⟩, ⟨?_, ?_⟩⟩
  · intro x hx
    rcases List.mem_cons.mp hx with rfl | hx
    · intro k hk
      rw [← hkY] at hk
      exact hkb k hk
    · exact hT.kb x hx
  · intro x hx
    rcases List.mem_cons.mp hx with rfl | hx
    · rw [hupdc, ← hlookL]; exact hact
    · rw [hupdT x hx]; exact hT.acts x hx
  · intro x hx
    rcases List.mem_cons.mp hx with rfl | hx
    · rw [hupdc]; exact hval
    · rw [hupdT x hx, hloc x (hT.lvl.dom x hx) (hun x hx)]
      exact hR.on x hx
  · intro q hq hall
    rw [hloc q hq (hall c (List.mem_cons_self ..))]
    exact hR.off q hq (fun t ht => hall t (List.mem_cons_of_mem _ ht))

/-- the target node `t` met by `src` is replaced by `m` (same instance), which does to the instance what `t` and then `src` do -/
theorem tinv_set {S : Schema} (K : KeyOrderOn S P) {cur : Option Op} {t : DNode} {T0 L Y Y' : List DNode}
    {E : DNode → Option DNode} (hT : TInv S P fx cur (t :: T0) L E) (hR : Rel S P (t :: T0) L E Y)
    {m src : DNode} {e2 : Option DNode} (hmd : Dom S P m) (hmk : S.isKey m.sid = false)
    (hmm : ∀ x, matchP S m x = matchP S t x) (hms : m.sid = t.sid)
    (hact : Acts S P fx cur m ((look S L t).map normN) e2) (hsd : Dom S P src) (hst : matchP S src t = true)
    (hloc : Local S P src Y Y') (hval : (look S Y' src).map normN = e2) (hgY' : goodT S P Y' = true) :
    TInv S P fx cur (m :: T0) L (upd S m e2 E) ∧ Rel S P (m :: T0) L (upd S m e2 E) Y' := by
  have htd := hT.lvl.dom t (List.mem_cons_self ..)
  have hd0 : ∀ t' ∈ T0, Dom S P t' := fun t' ht' => hT.lvl.dom t' (List.mem_cons_of_mem _ ht')
  have h1 : ∀ t' ∈ T0, matchP S m t' = false := fun t' ht' => by rw [hmm]; exact hT.lvl.head_ne t' ht'
  have h2 : ∀ t' ∈ T0, matchP S t' m = false := fun t' ht' => matchP_false_symm K hmd (hd0 t' ht') (h1 t' ht')
  have hsrc : ∀ q, Dom S P q → matchP S src q = matchP S t q := fun q hq =>
    (matchP_left_congr K hq hsd htd hst).symm
  have hupdT : ∀ t' ∈ T0, upd S m e2 E t' = E t' := fun t' ht' => by simp [upd, h1 t' ht']
  have hupdm : upd S m e2 E m = e2 := by simp [upd, matchP_refl K hmd]
  have hlm : ∀ Z, look S Z m = look S Z t := fun Z => look_congr_fun hmm
  have hY'm : (look S Y' m).map normN = e2 := by
    rw [hlm, ← look_congr K (goodT_goodL hgY') hsd htd hst]; exact hval
  refine ⟨⟨hT.lvl.tail.cons hmd hmk h1 h2, ?_, ?_⟩, ⟨?_, ?_⟩⟩
  · intro x hx
    rcases List.mem_cons.mp hx with rfl | hx
    · intro k hk
      rw [hms]
      exact hT.kb t (List.mem_cons_self ..) k hk
    · exact hT.kb x (List.mem_cons_of_mem _ hx)
  · intro x hx
    rcases List.mem_cons.mp hx with rfl | hx
    · rw [hupdm, hlm]; exact hact
    · rw [hupdT x hx]; exact hT.acts x (List.mem_cons_of_mem _ hx)
  · intro x hx
    rcases List.mem_cons.mp hx with rfl | hx
    · rw [hupdm]; exact hY'm
    · rw [hupdT x hx, hloc x (hd0 x hx) (by rw [hsrc x (hd0 x hx)]; exact hT.lvl.head_ne x hx)]
      exact hR.on x (List.mem_cons_of_mem _ hx)
  · intro q hq hall
    have hmq : matchP S t q = false := by rw [← hmm]; exact hall m (List.mem_cons_self ..)
    rw [hloc q hq (by rw [hsrc q hq]; exact hmq)]
    apply hR.off q hq
    intro x hx
    rcases List.mem_cons.mp hx with rfl | hx
    · exact hmq
    · exact hall x (List.mem_cons_of_mem _ hx)

/-- the target node `t` met by `src` is dropped: the two together leave the instance as it was -/
theorem tinv_drop {S : Schema} (K : KeyOrderOn S P) {cur : Option Op} {t : DNode} {T0 L Y Y' : List DNode}
    {E : DNode → Option DNode} (hT : TInv S P fx cur (t :: T0) L E) (hR : Rel S P (t :: T0) L E Y)
    (hgL : goodT S P L = true) {src : DNode} (hsd : Dom S P src) (hst : matchP S src t = true)
    (hloc : Local S P src Y Y') (hval : (look S Y' src).map normN = (look S L t).map normN) (hgY' : goodT S P Y' = true) :
    TInv S P fx cur T0 L E ∧ Rel S P T0 L E Y' := by
  have htd := hT.lvl.dom t (List.mem_cons_self ..)
  have hd0 : ∀ t' ∈ T0, Dom S P t' := fun t' ht' => hT.lvl.dom t' (List.mem_cons_of_mem _ ht')
  have hsrc : ∀ q, Dom S P q → matchP S src q = matchP S t q := fun q hq =>
    (matchP_left_congr K hq hsd htd hst).symm
  refine ⟨⟨hT.lvl.tail, fun x hx => hT.kb x (List.mem_cons_of_mem _ hx), fun x hx => hT.acts x (List.mem_cons_of_mem _ hx)⟩,
    ⟨?_, ?_⟩⟩
  · intro x hx
    rw [hloc x (hd0 x hx) (by rw [hsrc x (hd0 x hx)]; exact hT.lvl.head_ne x hx)]
    exact hR.on x (List.mem_cons_of_mem _ hx)
  · intro q hq hall
    cases htq : matchP S t q
    · rw [hloc q hq (by rw [hsrc q hq]; exact htq)]
      apply hR.off q hq
      intro x hx
      rcases List.mem_cons.mp hx with rfl | hx
      · exact htq
      · exact hall x hx
    · rw [← look_congr K (goodT_goodL hgY') htd hq htq, ← look_congr K (goodT_goodL hgY') hsd htd hst, hval,
        look_congr K (goodT_goodL hgL) htd hq htq]

end LyModel.Diff.K13
