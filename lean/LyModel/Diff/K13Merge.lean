import LyModel.Diff.K13Fwd
import LyModel.Diff.LemmasLit
import LyModel.Diff.LemmasMergeShape
import LyModel.Diff.MergeSafe
import LyModel.Props.C13Merge
/-!
# C13: `lyd_diff_merge_all` at tree level — the recursion of `lyd_diff_merge_r` through sibling lists and inner nodes

Semantic invariant of the target diff while the source diff is merged into it, one sibling level at a time:
`TInv cur T L E` — the nodes of the target level `T` are instances of the fragment, pairwise different, and each of them ACTS
(K13Fwd.lean) on the data sibling list `L`: it takes the instance at its place to `E t` (up to `normN`);
`Rel T L E Y` — the data list `Y` is, up to `normN` and instance by instance, what `T` makes of `L`.
One step of the merge (`mergeStep`) either adds a copy of the source node (`tinv_add`), or replaces the target node it meets by
the node of the cell of the 4 × 4 table (`tinv_set`), or drops it (`tinv_drop`); in each case the invariant is kept with `Y`
replaced by what the source node makes of `Y`.  The cells of the table for leaves are the theorems `merge_cell_*` of
Props/C13Merge.lean (imported here: this lemma file is the tree induction on top of them).
-/
set_option linter.unusedSimpArgs false
namespace LyModel.Diff.K13
open LyModel LyModel.Tree LyModel.Diff

variable {P : DNode → Bool} {fx : Fixes}

/-- the nodes of one target level act on `L` -/
structure TInv (S : Schema) (P : DNode → Bool) (fx : Fixes) (cur : Option Op) (T L : List DNode) (E : DNode → Option DNode) :
    Prop where
  lvl : Level S P T
  kb : ∀ c ∈ T, KeysBelow S c L
  acts : ∀ c ∈ T, Acts S P fx cur c ((look S L c).map normN) (E c)

/-- `Y` is, instance by instance and up to `normN`, what `T` makes of `L` -/
structure Rel (S : Schema) (P : DNode → Bool) (T L : List DNode) (E : DNode → Option DNode) (Y : List DNode) : Prop where
  on : ∀ t ∈ T, (look S Y t).map normN = E t
  off : ∀ q, Dom S P q → (∀ t ∈ T, matchP S t q = false) → (look S Y q).map normN = (look S L q).map normN

theorem TInv.perm {S : Schema} {cur : Option Op} {T T' L : List DNode} {E : DNode → Option DNode} (hp : T.Perm T')
    (h : TInv S P fx cur T L E) : TInv S P fx cur T' L E :=
  ⟨h.lvl.perm hp, fun c hc => h.kb c (hp.mem_iff.mpr hc), fun c hc => h.acts c (hp.mem_iff.mpr hc)⟩

theorem Rel.perm {S : Schema} {T T' L Y : List DNode} {E : DNode → Option DNode} (hp : T.Perm T') (h : Rel S P T L E Y) :
    Rel S P T' L E Y :=
  ⟨fun t ht => h.on t (hp.mem_iff.mpr ht), fun q hq hall => h.off q hq (fun t ht => hall t (hp.mem_iff.mp ht))⟩

/-- the target level applied to any good list with the observation of `L` -/
theorem TInv.apply {S : Schema} (K : KeyOrderOn S P) {cur : Option Op} {T L : List DNode} {E : DNode → Option DNode}
    (h : TInv S P fx cur T L E) {n : Nat} {hp : Bool} {X : List DNode} (hh : heightL T ≤ n) (hgX : goodT S P X = true)
    (hX : normL13 X = normL13 L) :
    ∃ X1, applyF S fx n hp cur T X = .ok X1 ∧ goodT S P X1 = true ∧ keysOf S X1 = keysOf S X ∧
      (∀ q, Dom S P q → (∀ c ∈ T, matchP S c q = false) → look S X1 q = look S X q) ∧
      ∀ c ∈ T, (look S X1 c).map normN = E c :=
  acts_list K E T h.lvl n hp X hh hgX (fun c hc => keysBelow_congr hX (h.kb c hc))
    (fun c hc => by rw [look_norm_congr hX c]; exact h.acts c hc)

/-- … and the result has the observation of `Y` -/
theorem Rel.result {S : Schema} (K : KeyOrderOn S P) {T L Y X X1 : List DNode} {E : DNode → Option DNode}
    (hlv : Level S P T) (hR : Rel S P T L E Y) (hgY : goodT S P Y = true) (hX : normL13 X = normL13 L)
    (hg1 : goodT S P X1 = true)
    (hoff : ∀ q, Dom S P q → (∀ c ∈ T, matchP S c q = false) → look S X1 q = look S X q)
    (hon : ∀ c ∈ T, (look S X1 c).map normN = E c) : normL13 X1 = normL13 Y := by
  apply normL_eq_of_look K (goodT_goodL hg1) (goodT_goodL hgY)
  intro q hq
  by_cases hex : ∃ c ∈ T, matchP S c q = true
  · obtain ⟨c, hc, hcq⟩ := hex
    rw [← look_congr K (goodT_goodL hg1) (hlv.dom c hc) hq hcq, ← look_congr K (goodT_goodL hgY) (hlv.dom c hc) hq hcq,
      hon c hc, hR.on c hc]
  · have hall : ∀ c ∈ T, matchP S c q = false := by
      intro c hc
      cases h : matchP S c q
      · rfl
      · exact absurd ⟨c, hc, h⟩ hex
    rw [hoff q hq hall, hR.off q hq hall]
    exact look_norm_congr hX q

/-- the effect assignment with the value at the place of `n` replaced -/
def upd (S : Schema) (n : DNode) (e' : Option DNode) (E : DNode → Option DNode) : DNode → Option DNode :=
  fun d => if matchP S n d then e' else E d

/-- a node that meets nothing in the target level is added -/
theorem tinv_add {S : Schema} (K : KeyOrderOn S P) {cur : Option Op} {T L Y Y' : List DNode} {E : DNode → Option DNode}
    (hT : TInv S P fx cur T L E) (hR : Rel S P T L E Y) (hkY : ∀ c, KeysBelow S c Y → KeysBelow S c L)
    {c : DNode} {e' : Option DNode} (hcd : Dom S P c) (hck : S.isKey c.sid = false) (hkb : KeysBelow S c Y)
    (hun : ∀ t ∈ T, matchP S c t = false) (hact : Acts S P fx cur c ((look S Y c).map normN) e')
    (hloc : Local S P c Y Y') (hval : (look S Y' c).map normN = e') :
    TInv S P fx cur (c :: T) L (upd S c e' E) ∧ Rel S P (c :: T) L (upd S c e' E) Y' := by
  have hun' : ∀ t ∈ T, matchP S t c = false := fun t ht => matchP_false_symm K hcd (hT.lvl.dom t ht) (hun t ht)
  have hupdT : ∀ t ∈ T, upd S c e' E t = E t := fun t ht => by simp [upd, hun t ht]
  have hupdc : upd S c e' E c = e' := by simp [upd, matchP_refl K hcd]
  have hlookL : (look S Y c).map normN = (look S L c).map normN := hR.off c hcd hun'
  refine ⟨⟨hT.lvl.cons hcd hck hun hun', ?_, ?_⟩, ⟨?_, ?_⟩⟩
  · intro x hx
    rcases List.mem_cons.mp hx with rfl | hx
    · exact hkY x hkb
    · exact hT.kb x hx
  · intro x hx
    rcases List.mem_cons.mp hx with rfl | hx
    · rw [hupdc, ← hlookL]; exact hact
    · rw [hupdT x hx]; exact hT.acts x hx
  · intro x hx
    rcases List.mem_cons.mp hx with rfl | hx
    · rw [hupdc]; exact hval
    · rw [hupdT x hx, hloc x (hT.lvl.dom x hx) (hun x hx)]
      exact hR.on x hx
  · intro q hq hall
    rw [hloc q hq (hall c (List.mem_cons_self ..))]
    exact hR.off q hq (fun t ht => hall t (List.mem_cons_of_mem _ ht))

/-- the target node `t` met by `src` is replaced by `m` (same instance), which does to the instance what `t` and then `src` do -/
theorem tinv_set {S : Schema} (K : KeyOrderOn S P) {cur : Option Op} {t : DNode} {T0 L Y Y' : List DNode}
    {E : DNode → Option DNode} (hT : TInv S P fx cur (t :: T0) L E) (hR : Rel S P (t :: T0) L E Y)
    {m src : DNode} {e2 : Option DNode} (hmd : Dom S P m) (hmk : S.isKey m.sid = false)
    (hmm : ∀ x, matchP S m x = matchP S t x) (hms : m.sid = t.sid)
    (hact : Acts S P fx cur m ((look S L t).map normN) e2) (hsd : Dom S P src) (hst : matchP S src t = true)
    (hloc : Local S P src Y Y') (hval : (look S Y' src).map normN = e2) (hgY' : goodT S P Y' = true) :
    TInv S P fx cur (m :: T0) L (upd S m e2 E) ∧ Rel S P (m :: T0) L (upd S m e2 E) Y' := by
  have htd := hT.lvl.dom t (List.mem_cons_self ..)
  have hd0 : ∀ t' ∈ T0, Dom S P t' := fun t' ht' => hT.lvl.dom t' (List.mem_cons_of_mem _ ht')
  have h1 : ∀ t' ∈ T0, matchP S m t' = false := fun t' ht' => by rw [hmm]; exact hT.lvl.head_ne t' ht'
  have h2 : ∀ t' ∈ T0, matchP S t' m = false := fun t' ht' => matchP_false_symm K hmd (hd0 t' ht') (h1 t' ht')
  have hsrc : ∀ q, Dom S P q → matchP S src q = matchP S t q := fun q hq =>
    (matchP_left_congr K hq hsd htd hst).symm
  have hupdT : ∀ t' ∈ T0, upd S m e2 E t' = E t' := fun t' ht' => by simp [upd, h1 t' ht']
  have hupdm : upd S m e2 E m = e2 := by simp [upd, matchP_refl K hmd]
  have hlm : ∀ Z, look S Z m = look S Z t := fun Z => look_congr_fun hmm
  have hY'm : (look S Y' m).map normN = e2 := by
    rw [hlm, ← look_congr K (goodT_goodL hgY') hsd htd hst]; exact hval
  refine ⟨⟨hT.lvl.tail.cons hmd hmk h1 h2, ?_, ?_⟩, ⟨?_, ?_⟩⟩
  · intro x hx
    rcases List.mem_cons.mp hx with rfl | hx
    · intro k hk
      rw [hms]
      exact hT.kb t (List.mem_cons_self ..) k hk
    · exact hT.kb x (List.mem_cons_of_mem _ hx)
  · intro x hx
    rcases List.mem_cons.mp hx with rfl | hx
    · rw [hupdm, hlm]; exact hact
    · rw [hupdT x hx]; exact hT.acts x (List.mem_cons_of_mem _ hx)
  · intro x hx
    rcases List.mem_cons.mp hx with rfl | hx
    · rw [hupdm]; exact hY'm
    · rw [hupdT x hx, hloc x (hd0 x hx) (by rw [hsrc x (hd0 x hx)]; exact hT.lvl.head_ne x hx)]
      exact hR.on x (List.mem_cons_of_mem _ hx)
  · intro q hq hall
    have hmq : matchP S t q = false := by rw [← hmm]; exact hall m (List.mem_cons_self ..)
    rw [hloc q hq (by rw [hsrc q hq]; exact hmq)]
    apply hR.off q hq
    intro x hx
    rcases List.mem_cons.mp hx with rfl | hx
    · exact hmq
    · exact hall x (List.mem_cons_of_mem _ hx)

/-- the target node `t` met by `src` is dropped: the two together leave the instance as it was -/
theorem tinv_drop {S : Schema} (K : KeyOrderOn S P) {cur : Option Op} {t : DNode} {T0 L Y Y' : List DNode}
    {E : DNode → Option DNode} (hT : TInv S P fx cur (t :: T0) L E) (hR : Rel S P (t :: T0) L E Y)
    (hgL : goodT S P L = true) {src : DNode} (hsd : Dom S P src) (hst : matchP S src t = true)
    (hloc : Local S P src Y Y') (hval : (look S Y' src).map normN = (look S L t).map normN) (hgY' : goodT S P Y' = true) :
    TInv S P fx cur T0 L E ∧ Rel S P T0 L E Y' := by
  have htd := hT.lvl.dom t (List.mem_cons_self ..)
  have hd0 : ∀ t' ∈ T0, Dom S P t' := fun t' ht' => hT.lvl.dom t' (List.mem_cons_of_mem _ ht')
  have hsrc : ∀ q, Dom S P q → matchP S src q = matchP S t q := fun q hq =>
    (matchP_left_congr K hq hsd htd hst).symm
  refine ⟨⟨hT.lvl.tail, fun x hx => hT.kb x (List.mem_cons_of_mem _ hx), fun x hx => hT.acts x (List.mem_cons_of_mem _ hx)⟩,
    ⟨?_, ?_⟩⟩
  · intro x hx
    rw [hloc x (hd0 x hx) (by rw [hsrc x (hd0 x hx)]; exact hT.lvl.head_ne x hx)]
    exact hR.on x (List.mem_cons_of_mem _ hx)
  · intro q hq hall
    cases htq : matchP S t q
    · rw [hloc q hq (by rw [hsrc q hq]; exact htq)]
      apply hR.off q hq
      intro x hx
      rcases List.mem_cons.mp hx with rfl | hx
      · exact htq
      · exact hall x hx
    · rw [← look_congr K (goodT_goodL hgY') htd hq htq, ← look_congr K (goodT_goodL hgY') hsd htd hst, hval,
        look_congr K (goodT_goodL hgL) htd hq htq]

/-! ### the cells of the table for two leaf / leaf-list nodes that meet -/

open LyModel.Props.C13 in
/-- what an exact leaf / leaf-list node with operation `op` makes of the instance (normalised) -/
def tEff (c : DNode) (op : Op) : Option DNode := if op = .delete then none else some (normN c)

theorem termEff_exact {S : Schema} {c : DNode} {inh : Option Op} {op : Op} {e e0 : Option DNode} (ht : c.isTerm = true)
    (hex : exactE S P inh e c = true) (hop : effOp c inh = some op)
    (hge : ∀ x, e = some x → goodN S P x = true ∧ x.sid = c.sid) (he0 : e0.map normN = e.map normN) :
    ∃ e1, termEff S inh c e0 = some e1 ∧ e1.map normN = tEff c op := by
  obtain ⟨hd, _, _⟩ := exactE_base hex
  have hx0 : ∀ x, e = some x → ∃ x0, e0 = some x0 ∧ x0.isTerm = true ∧ x0.sid = c.sid ∧ x0.val = x.val := by
    intro x hx
    subst hx
    cases e0 with
    | none => simp at he0
    | some x0 =>
      simp only [Option.map_some, Option.some.injEq] at he0
      obtain ⟨hgx, hxs⟩ := hge x rfl
      refine ⟨x0, rfl, ?_, ?_, ?_⟩
      · rw [← isTerm_normN, he0, isTerm_normN, isTerm_of_good_sid hgx hxs hd]; exact ht
      · rw [← sid_normN, he0, sid_normN]; exact hxs
      · rw [← val_normN, he0, val_normN]
  cases op with
  | create =>
    obtain ⟨rfl, _⟩ := exactE_create hex hop
    cases e0 with
    | some _ => simp at he0
    | none => exact ⟨some (mkCreated c), by simp [termEff, hop], by simp [tEff, normN_mkCreated]⟩
  | delete =>
    obtain ⟨x, rfl, _⟩ := exactE_delete hex hop
    obtain ⟨x0, rfl, _⟩ := hx0 x rfl
    exact ⟨none, by simp [termEff, hop], by simp [tEff]⟩
  | replace =>
    obtain ⟨_, x, rfl, hleaf, _, _, hv⟩ := exactE_replace hex hop
    obtain ⟨x0, rfl, hxt, hxs, hxv⟩ := hx0 x rfl
    have hne : (x0.val == c.val) = false := by rw [hxv]; simpa using fun h => hv h.symm
    refine ⟨some ((x0.setVal c.val).setFlags c.flags), by simp [termEff, hop, hleaf, hne], ?_⟩
    cases x0 with
    | inner => simp [DNode.isTerm] at hxt
    | term s' f' m' v' =>
      cases c with
      | inner => simp [DNode.isTerm] at ht
      | term s f m v =>
        simp only [DNode.sid] at hxs
        simp [tEff, DNode.setVal, DNode.setFlags, normN, DNode.flags, DNode.val, hxs]
  | none =>
    obtain ⟨x, rfl, hv, _⟩ := exactE_none_term hex hop ht
    obtain ⟨x0, rfl, hxt, hxs, hxv⟩ := hx0 x rfl
    refine ⟨some (x0.setDflt c.flags.dflt), by simp [termEff, hop], ?_⟩
    cases x0 with
    | inner => simp [DNode.isTerm] at hxt
    | term s' f' m' v' =>
      cases c with
      | inner => simp [DNode.isTerm] at ht
      | term s f m v =>
        simp only [DNode.sid, DNode.val] at hxs hxv hv
        simp [tEff, DNode.setDflt, DNode.setFlags, normN, DNode.flags, hxs, hxv, hv]

theorem lit_cases {m : List Meta} (hl : litMeta m = true) :
    m = [] ∨ m = [("operation", bs "create")] ∨ m = [("operation", bs "delete")] ∨
      (∃ d, m = [("operation", bs "none"), ("orig-default", d)]) ∨
      ∃ d ov, m = [("operation", bs "replace"), ("orig-default", d), ("orig-value", ov)] := by
  match m, hl with
  | [], _ => exact Or.inl rfl
  | [(a, x)], hl =>
    simp only [litMeta, Bool.and_eq_true, beq_iff_eq, Bool.or_eq_true] at hl
    obtain ⟨rfl, h⟩ := hl
    rcases h with rfl | rfl
    · exact Or.inr (Or.inl rfl)
    · exact Or.inr (Or.inr (Or.inl rfl))
  | [(a, x), (b, y)], hl =>
    simp only [litMeta, Bool.and_eq_true, beq_iff_eq] at hl
    obtain ⟨⟨rfl, rfl⟩, rfl⟩ := hl
    exact Or.inr (Or.inr (Or.inr (Or.inl ⟨y, rfl⟩)))
  | [(a, x), (b, y), (c, z)], hl =>
    simp only [litMeta, Bool.and_eq_true, beq_iff_eq] at hl
    obtain ⟨⟨⟨rfl, rfl⟩, rfl⟩, rfl⟩ := hl
    exact Or.inr (Or.inr (Or.inr (Or.inr ⟨y, z, rfl⟩)))
  | _ :: _ :: _ :: _ :: _, hl => simp [litMeta] at hl

/-- the metadata of a literal leaf node with an operation of its own -/
theorem form_of_lit {s : Nat} {f : Flags} {m : List Meta} {v : Bytes} (hl : litMeta m = true) {op : Op}
    (ho : ownOp (.term s f m v) = some op) :
    match op with
    | .create => m = [("operation", bs "create")]
    | .delete => m = [("operation", bs "delete")]
    | .none => ∃ d, m = [("operation", bs "none"), ("orig-default", d)]
    | .replace => ∃ d ov, m = [("operation", bs "replace"), ("orig-default", d), ("orig-value", ov)] := by
  rcases lit_cases hl with rfl | rfl | rfl | ⟨d, rfl⟩ | ⟨d, ov, rfl⟩ <;>
    simp [ownOp, getMeta, DNode.metas, ofBytes_create, ofBytes_delete, ofBytes_none, ofBytes_replace] at ho <;> subst ho <;> simp

/-- under an inherited operation `none` (or none at all) an exact literal leaf node has an operation of its own -/
theorem own_of_exact_lit {S : Schema} {c : DNode} {inh : Option Op} {e : Option DNode} (hinh : inh = none ∨ inh = some .none)
    (ht : c.isTerm = true) (hex : exactE S P inh e c = true) (hl : litN c = true) : ∃ op, ownOp c = some op := by
  cases ho : ownOp c with
  | some op => exact ⟨op, rfl⟩
  | none =>
    exfalso
    cases c with
    | inner => simp [DNode.isTerm] at ht
    | term s f m v =>
      have hop : effOp (.term s f m v) inh = inh := by simp [effOp, ho]
      rcases hinh with rfl | rfl
      · simp only [exactE, hop, Bool.and_eq_true] at hex
        cases e <;> simp at hex
      · obtain ⟨x, rfl, _, hm⟩ := exactE_none_term hex hop rfl
        simp only [litN] at hl
        rcases lit_cases hl with rfl | rfl | rfl | ⟨d, rfl⟩ | ⟨d, ov, rfl⟩ <;>
          simp [ownOp, getMeta, DNode.metas, ofBytes_create, ofBytes_delete, ofBytes_none, ofBytes_replace] at ho hm

theorem effOp_own' {d : DNode} {op : Op} (h : ownOp d = some op) (a : Option Op) : effOp d a = some op := by simp [effOp, h]

theorem termEff_own {S : Schema} {d : DNode} {op : Op} (h : ownOp d = some op) (a b : Option Op) (e : Option DNode) :
    termEff S a d e = termEff S b d e := by
  simp only [termEff, effOp_own' h]

theorem ownOp_of_effOp_none {d : DNode} {op : Op} (h : effOp d none = some op) : ownOp d = some op := by
  cases ho : ownOp d with
  | none => simp [effOp, ho] at h
  | some o => simpa [effOp, ho] using h

/-- from a cell equation (for every version of the instance) to the node of the cell: it is dropped and the two diff nodes
together leave the instance alone, or it is kept and acts like the two one after the other -/
theorem cell_concl {S : Schema} (K : KeyOrderOn S P) {o : MergeOpts} {cur : Option Op} {sop cop : Op} {t src : DNode}
    {e e2 : Option DNode} (x0 : Option DNode) (hx0 : x0.map normN = e) (htd : Dom S P t) (htt : t.isTerm = true)
    (htk : S.isKey t.sid = false) (hss : src.sid = t.sid)
    (hkv : S.isKind t.sid .leaf = true ∨ (sop ≠ .replace ∧ cop ≠ .replace))
    (h : ∀ e0 : Option DNode, e0.map normN = e → cellEff S o sop t cop src e0 = some e2) :
    ∃ m, mergeCell S o sop t cop src = .ok (m, false) ∧ Dom S P m ∧ m.isTerm = true ∧ m.sid = t.sid ∧
      (∀ x, matchP S m x = matchP S t x) ∧ (∃ op, ownOp m = some op) ∧
      (((isRedundant S none m).2 = true ∧ e2 = e) ∨ ((isRedundant S none m).2 = false ∧ Acts S P fx cur m e e2)) := by
  have huo : S.isUserOrd src.sid = false := by rw [hss]; exact htd.nuo
  have h0 := h x0 hx0
  unfold cellEff at h0
  cases hm : mergeCell S o sop t cop src with
  | error err => simp [hm] at h0
  | ok p =>
    obtain ⟨m, mv⟩ := p
    obtain ⟨⟨hs1, hs2⟩, rfl⟩ := mergeCell_sameS huo hm
    have hmt : m.isTerm = true := hs2.trans htt
    have hmuo : S.isUserOrd m.sid = false := by rw [hs1]; exact htd.nuo
    have hfst : (isRedundant S none m).1 = m := isRedundant_fst S none m hmuo
    have hmval : S.isKind t.sid .leaf = false → m.val = t.val := by
      intro hk
      rcases hkv with hl | ⟨h1, h2⟩
      · rw [hl] at hk; cases hk
      · exact mergeCell_val huo (by rw [hss]; exact hk) h1 h2 hm
    have hmatch : ∀ x, matchP S m x = matchP S t x := by
      intro x
      cases hk : S.isKind t.sid .leaf
      · exact matchP_of_same_data htd.ndi hs1 (hmval hk) (by rw [kids_term hmt, kids_term htt]) x
      · rw [matchP_leaf_eq (by rw [hs1]; exact hk), matchP_leaf_eq hk, hs1]
    have hmd : Dom S P m := by
      refine ⟨hmuo, by rw [hs1]; exact htd.ndi, by rw [hmt, hs1, ← htd.typed, htt], ?_⟩
      cases hk : S.isKind t.sid .leaf
      · rw [K.pinv.pcongr (x := m) (y := t) hs1 (hmval hk) (by rw [kids_term hmt, kids_term htt])]
        exact htd.sat
      · exact K.pinv.punsorted (by rw [hs1]; exact isSorted_of_leaf hk)
    simp only [hm] at h0
    have hown : ∃ op, ownOp m = some op := by
      cases ho : effOp m none with
      | some op => exact ⟨op, ownOp_of_effOp_none ho⟩
      | none =>
        exfalso
        have hr : isRedundant S none m = (m, false) := by unfold isRedundant; simp [ho]
        simp only [hr, Bool.false_eq_true, ↓reduceIte, termEff, ho] at h0
        simp at h0
    refine ⟨m, rfl, hmd, hmt, hs1, hmatch, hown, ?_⟩
    obtain ⟨opm, hopm⟩ := hown
    cases hr2 : (isRedundant S none m).2
    · refine Or.inr ⟨rfl, ?_⟩
      apply acts_of_termEff K hmd hmt (by rw [hs1]; exact htk)
      intro e1 he1
      have h1 := h e1 he1
      unfold cellEff at h1
      simp only [hm, hr2, Bool.false_eq_true, ↓reduceIte, hfst] at h1
      rw [termEff_own hopm cur none]
      cases hte : termEff S none m e1 with
      | none => simp [hte] at h1
      | some e3 => exact ⟨e3, rfl, by simpa [hte] using h1⟩
    · refine Or.inl ⟨rfl, ?_⟩
      simp only [hr2, ↓reduceIte, Option.some.injEq] at h0
      rw [← h0, hx0]

section dispatch
open LyModel.Props.C13

theorem norm_term_form {x x' : DNode} (hxt : x.isTerm = true) (h : normN x' = normN x) :
    ∃ fx mx, x' = .term x.sid fx mx x.val ∧ fx.dflt = x.flags.dflt := by
  cases x with
  | inner => simp [DNode.isTerm] at hxt
  | term s f m v =>
    cases x' with
    | inner => simp [normN] at h
    | term s' f' m' v' =>
      simp only [normN, DNode.term.injEq] at h
      obtain ⟨rfl, h2, _, rfl⟩ := h
      refine ⟨f', m', rfl, ?_⟩
      have := congrArg Flags.dflt h2
      simpa [DNode.flags] using this

/-- versions of the instance an exact leaf node is exact for -/
theorem e0_forms {S : Schema} {s : Nat} {x0 e0 : Option DNode} (hS : S.isTerm s = true)
    (hgx : ∀ x, x0 = some x → goodN S P x = true ∧ x.sid = s) (he0 : e0.map normN = x0.map normN) :
    (x0 = none ∧ e0 = none) ∨ ∃ x fx mx, x0 = some x ∧ x.isTerm = true ∧ e0 = some (.term s fx mx x.val) ∧ fx.dflt = x.flags.dflt := by
  cases x0 with
  | none =>
    cases e0 with
    | none => exact Or.inl ⟨rfl, rfl⟩
    | some _ => simp at he0
  | some x =>
    cases e0 with
    | none => simp at he0
    | some x' =>
      simp only [Option.map_some, Option.some.injEq] at he0
      obtain ⟨hgx1, hxs⟩ := hgx x rfl
      have hxt : x.isTerm = true := by rw [(goodN_dom hgx1).typed, hxs]; exact hS
      obtain ⟨fx', mx, h1, h2⟩ := norm_term_form hxt he0
      rw [hxs] at h1
      exact Or.inr ⟨x, fx', mx, rfl, hxt, by rw [h1], h2⟩

/-- what the second node is exact for, when the first one leaves an instance -/
theorem y_of_tEff {s : Nat} {f : Flags} {mt : List Meta} {v : Bytes} {y0 : Option DNode} {cop : Op}
    (hy : y0.map normN = tEff (.term s f mt v) cop) (hc : cop ≠ .delete) :
    ∃ y, y0 = some y ∧ y.isTerm = true ∧ y.val = v ∧ y.flags.dflt = f.dflt := by
  simp only [tEff, hc, if_false] at hy
  cases y0 with
  | none => simp at hy
  | some y =>
    simp only [Option.map_some, Option.some.injEq, normN] at hy
    obtain ⟨h1, _, h3, h4⟩ := normN_term_val hy
    exact ⟨y, rfl, h1, h3, h4⟩

theorem kind_of_isTerm {S : Schema} {s : Nat} (h : S.isTerm s = true) : S.isKind s .leaf = true ∨ S.isKind s .leaflist = true := by
  simpa [Schema.isTerm] using h

theorem term_cellEq {S : Schema} {o : MergeOpts}
    (hq : o.defaults = true → Generated.Diff13.mergeDfltNeedsDeletedDflt = true)
    {cur sin : Option Op} {s : Nat} {f f2 : Flags} {mt ms : List Meta} {v v2 : Bytes} {x0 y0 : Option DNode} {cop sop : Op}
    (htex : exactE S P cur x0 (.term s f mt v) = true) (hlt : litMeta mt = true) (hot : ownOp (.term s f mt v) = some cop)
    (hsex : exactE S P sin y0 (.term s f2 ms v2) = true) (hls : litMeta ms = true) (hos : ownOp (.term s f2 ms v2) = some sop)
    (hgx : ∀ x, x0 = some x → goodN S P x = true ∧ x.sid = s)
    (hy : y0.map normN = tEff (.term s f mt v) cop)
    (hnd : cop = .none → sop = .replace → f2.dflt = false) (hvv : S.isKind s .leaflist = true → v2 = v) :
    ∀ e0 : Option DNode, e0.map normN = x0.map normN →
      cellEff S o sop (.term s f mt v) cop (.term s f2 ms v2) e0 = seqEff S (.term s f mt v) (.term s f2 ms v2) e0 := by
  intro e0 he0
  obtain ⟨hd, _, _⟩ := exactE_base htex
  have h1 : S.isUserOrd s = false := hd.nuo
  have h2 : S.isDupInst s = false := hd.ndi
  have hS : S.isTerm s = true := by have := hd.typed; simpa [DNode.isTerm, DNode.sid] using this.symm
  have hopt : effOp (.term s f mt v) cur = some cop := effOp_own' hot cur
  have hops : effOp (.term s f2 ms v2) sin = some sop := effOp_own' hos sin
  have hforms := e0_forms hS hgx he0
  have hft := form_of_lit hlt hot
  have hfs := form_of_lit hls hos
  cases cop with
  | create =>
    obtain ⟨rfl, _⟩ := exactE_create htex hopt
    simp only at hft
    subst hft
    have he0n : e0 = none := by
      rcases hforms with ⟨_, h⟩ | ⟨x, _, _, hx, _⟩
      · exact h
      · cases hx
    subst he0n
    obtain ⟨y, rfl, hyt, hyv, hyd⟩ := y_of_tEff hy (by decide)
    cases sop with
    | create => obtain ⟨h, _⟩ := exactE_create hsex hops; cases h
    | delete =>
      simp only at hfs
      subst hfs
      obtain ⟨x, hx, hdq, _⟩ := exactE_delete hsex hops
      cases hx
      have hn := (dataEq_iff_norm _ _).mp hdq
      obtain ⟨_, _, hv', hd'⟩ := normN_term_val (x := y) (by rw [hn]; rfl)
      have hvv : v2 = v := by rw [← hv', hyv]
      subst hvv
      have hff : f2.dflt = f.dflt := by rw [← hd', hyd]
      rcases kind_of_isTerm hS with hk | hk
      · exact (merge_cell_create_delete (o := o) hk f f2 v2 hff).1
      · exact merge_cell_ll_create_delete (o := o) hk h1 h2 f f2 v2 hff
    | replace =>
      obtain ⟨_, x, hx, hleaf, hov, hod, hvne⟩ := exactE_replace hsex hops
      cases hx
      simp only at hfs
      obtain ⟨d, ov, rfl⟩ := hfs
      simp [getMeta, DNode.metas] at hov hod
      subst hov hod
      rw [hyv, hyd]
      exact merge_cell_create_replace (o := o) hleaf f f2 v v2 (by rw [← hyv]; exact hvne)
    | none =>
      obtain ⟨x, hx, hxv, hod⟩ := exactE_none_term hsex hops rfl
      cases hx
      simp only at hfs
      obtain ⟨d, rfl⟩ := hfs
      simp [getMeta, DNode.metas] at hod
      subst hod
      have hvv : v2 = v := by rw [← hyv]; exact hxv.symm
      subst hvv
      rw [hyd]
      rcases kind_of_isTerm hS with hk | hk
      · exact merge_cell_create_none (o := o) hk f f2 v2
      · exact merge_cell_ll_create_none (o := o) hk h1 h2 f f2 v2
  | delete =>
    obtain ⟨x, rfl, hdq, _⟩ := exactE_delete htex hopt
    simp only at hft
    subst hft
    have hn := (dataEq_iff_norm _ _).mp hdq
    obtain ⟨_, _, hxv, hxd⟩ := normN_term_val (x := x) (by rw [hn]; rfl)
    have he0f : ∃ fx mx, e0 = some (.term s fx mx v) ∧ fx.dflt = f.dflt := by
      rcases hforms with ⟨h, _⟩ | ⟨x', fx, mx, hx, _, h, hfx⟩
      · cases h
      · cases hx
        exact ⟨fx, mx, by rw [h, hxv], by rw [hfx, hxd]⟩
    obtain ⟨fx, mx, rfl, hfx⟩ := he0f
    have hy0 : y0 = none := by
      simp only [tEff, if_true] at hy
      cases y0 with
      | none => rfl
      | some _ => simp at hy
    subst hy0
    cases sop with
    | create =>
      simp only at hfs
      subst hfs
      rcases kind_of_isTerm hS with hk | hk
      · exact merge_cell_delete_create (o := o) hk f f2 fx mx v v2 hfx hq
      · have := hvv hk
        subst this
        exact merge_cell_ll_delete_create (o := o) hk h1 h2 f f2 fx mx v2 hfx
    | delete => obtain ⟨x, h, _⟩ := exactE_delete hsex hops; cases h
    | replace => obtain ⟨_, x, h, _⟩ := exactE_replace hsex hops; cases h
    | none => obtain ⟨x, h, _⟩ := exactE_none_term hsex hops rfl; cases h
  | replace =>
    obtain ⟨_, x, rfl, hleaf, hov, hod, hvne⟩ := exactE_replace htex hopt
    simp only at hft
    obtain ⟨d, ov, rfl⟩ := hft
    simp [getMeta, DNode.metas] at hov hod
    subst hov hod
    have he0f : ∃ fx mx, e0 = some (.term s fx mx x.val) ∧ fx.dflt = x.flags.dflt := by
      rcases hforms with ⟨h, _⟩ | ⟨x', fx, mx, hx, _, h, hfx⟩
      · cases h
      · cases hx
        exact ⟨fx, mx, h, hfx⟩
    obtain ⟨fx, mx, rfl, hfx⟩ := he0f
    rw [← hfx]
    obtain ⟨y, rfl, hyt, hyv, hyd⟩ := y_of_tEff hy (by decide)
    cases sop with
    | create => obtain ⟨h, _⟩ := exactE_create hsex hops; cases h
    | replace =>
      obtain ⟨_, y', hy', _, hov2, hod2, hvne2⟩ := exactE_replace hsex hops
      cases hy'
      simp only at hfs
      obtain ⟨d2, ov2, rfl⟩ := hfs
      simp [getMeta, DNode.metas] at hov2 hod2
      subst hov2 hod2
      rw [hyv, hyd]
      exact merge_cell_replace_replace (o := o) hleaf f f2 fx mx v v2 x.val hvne (by rw [← hyv]; exact hvne2)
    | delete =>
      simp only at hfs
      subst hfs
      obtain ⟨y', hy', hdq, _⟩ := exactE_delete hsex hops
      cases hy'
      have hn := (dataEq_iff_norm _ _).mp hdq
      obtain ⟨_, _, hv', _⟩ := normN_term_val (x := y) (by rw [hn]; rfl)
      have hvv2 : v2 = v := by rw [← hv', hyv]
      subst hvv2
      exact merge_cell_replace_delete (o := o) hleaf f f2 fx mx v2 x.val hvne
    | none =>
      obtain ⟨y', hy', hxv, hod2⟩ := exactE_none_term hsex hops rfl
      cases hy'
      simp only at hfs
      obtain ⟨d2, rfl⟩ := hfs
      simp [getMeta, DNode.metas] at hod2
      subst hod2
      have hvv2 : v2 = v := by rw [← hyv]; exact hxv.symm
      subst hvv2
      rw [hyd]
      exact merge_cell_replace_none (o := o) hleaf f f2 fx mx v2 x.val hvne
  | none =>
    obtain ⟨x, rfl, hxv, hod⟩ := exactE_none_term htex hopt rfl
    simp only at hft
    obtain ⟨d, rfl⟩ := hft
    simp [getMeta, DNode.metas] at hod
    subst hod
    have hxv : x.val = v := hxv
    have he0f : ∃ fx mx, e0 = some (.term s fx mx v) ∧ fx.dflt = x.flags.dflt := by
      rcases hforms with ⟨h, _⟩ | ⟨x', fx, mx, hx, _, h, hfx⟩
      · cases h
      · cases hx
        exact ⟨fx, mx, by rw [h, hxv], hfx⟩
    obtain ⟨fx, mx, rfl, hfx⟩ := he0f
    rw [← hfx]
    obtain ⟨y, rfl, hyt, hyv, hyd⟩ := y_of_tEff hy (by decide)
    cases sop with
    | create => obtain ⟨h, _⟩ := exactE_create hsex hops; cases h
    | replace =>
      obtain ⟨_, y', hy', hleaf, hov2, hod2, hvne2⟩ := exactE_replace hsex hops
      cases hy'
      simp only at hfs
      obtain ⟨d2, ov2, rfl⟩ := hfs
      simp [getMeta, DNode.metas] at hov2 hod2
      subst hov2 hod2
      rw [hyv, hyd]
      exact merge_cell_none_replace (o := o) hleaf f f2 fx mx v v2 (by rw [← hyv]; exact hvne2) (hnd rfl rfl)
    | delete =>
      simp only at hfs
      subst hfs
      obtain ⟨y', hy', hdq, _⟩ := exactE_delete hsex hops
      cases hy'
      have hn := (dataEq_iff_norm _ _).mp hdq
      obtain ⟨_, _, hv', _⟩ := normN_term_val (x := y) (by rw [hn]; rfl)
      have hvv2 : v2 = v := by rw [← hv', hyv]
      subst hvv2
      rcases kind_of_isTerm hS with hk | hk
      · exact merge_cell_none_delete (o := o) hk f f2 fx mx v2
      · exact merge_cell_ll_none_delete (o := o) hk h1 h2 f f2 fx mx v2
    | none =>
      obtain ⟨y', hy', hxv2, hod2⟩ := exactE_none_term hsex hops rfl
      cases hy'
      simp only at hfs
      obtain ⟨d2, rfl⟩ := hfs
      simp [getMeta, DNode.metas] at hod2
      subst hod2
      have hvv2 : v2 = v := by rw [← hyv]; exact hxv2.symm
      subst hvv2
      rw [hyd]
      rcases kind_of_isTerm hS with hk | hk
      · exact merge_cell_none_none (o := o) hk f f2 fx mx v2
      · exact merge_cell_ll_none_none (o := o) hk h1 h2 f f2 fx mx v2

end dispatch

theorem safeK_mem {S : Schema} {cur sin : Option Op} {T : List DNode} : ∀ {cs : List DNode}, safeK S cur sin T cs = true →
    ∀ c ∈ cs, ∀ t ∈ T, matchP S c t = true → safeP S cur sin t c = true
  | [], _, c, hc, _, _, _ => by simp at hc
  | c0 :: cs, h, c, hc, t, ht, hm => by
    simp only [safeK, Bool.and_eq_true, List.all_eq_true, Bool.or_eq_true, Bool.not_eq_eq_eq_not, Bool.not_true] at h
    rcases List.mem_cons.mp hc with rfl | hc
    · rcases h.1 t ht with h1 | h1
      · rw [hm] at h1; cases h1
      · exact h1
    · exact safeK_mem h.2 c hc t ht hm

/-- inherited operation at a level where the nodes of an exact literal diff have operations of their own -/
def InhOK (inh : Option Op) : Prop := inh = none ∨ inh = some .none

/-- **the cell for two leaf / leaf-list nodes that meet**: `t` — exact for the instance `x0` of the first tree, literal metadata —
met by `src` — exact for what `t` leaves, literal metadata.  The node of the cell is dropped and the instance is as before, or it
is kept and acts on the instance like `t` followed by `src`. -/
theorem term_cell_own {S : Schema} (K : KeyOrderOn S P) {o : MergeOpts}
    (hq : o.defaults = true → Generated.Diff13.mergeDfltNeedsDeletedDflt = true) {cur sin : Option Op} {t src : DNode} {x0 y0 : Option DNode} (htt : t.isTerm = true) (hst : src.isTerm = true)
    (hm : matchP S src t = true) (htex : exactE S P cur x0 t = true) (hlt : litN t = true)
    (hsex : exactE S P sin y0 src = true) (hls : litN src = true)
    (hgx : ∀ x, x0 = some x → goodN S P x = true ∧ x.sid = t.sid) (hgy : ∀ y, y0 = some y → goodN S P y = true ∧ y.sid = src.sid)
    {cop sop : Op} (hcop : effOp t cur = some cop) (hsop : effOp src sin = some sop) (hy : y0.map normN = tEff t cop)
    (hsafe : safeP S cur sin t src = true) (hot' : ∃ op, ownOp t = some op) (hos' : ∃ op, ownOp src = some op) :
    ∃ m, mergeCell S o sop t cop src = .ok (m, false) ∧ Dom S P m ∧ m.isTerm = true ∧ m.sid = t.sid ∧
      (∀ x, matchP S m x = matchP S t x) ∧ (∃ op, ownOp m = some op) ∧
      (((isRedundant S none m).2 = true ∧ tEff src sop = x0.map normN) ∨
        ((isRedundant S none m).2 = false ∧ Acts S P fx cur m (x0.map normN) (tEff src sop))) := by
  obtain ⟨htd, _, htk⟩ := exactE_base htex
  obtain ⟨hsd, _, _⟩ := exactE_base hsex
  have hss : t.sid = src.sid := matchP_sid hm
  obtain ⟨cop', hot⟩ := hot'
  obtain ⟨sop', hos⟩ := hos'
  have hc1 : cop' = cop := by have := effOp_own' hot cur; rw [hcop] at this; exact (Option.some.inj this).symm
  have hc2 : sop' = sop := by have := effOp_own' hos sin; rw [hsop] at this; exact (Option.some.inj this).symm
  subst hc1 hc2
  have hS : S.isTerm t.sid = true := by rw [← htd.typed]; exact htt
  have hkv : S.isKind t.sid .leaf = true ∨ (sop' ≠ .replace ∧ cop' ≠ .replace) := by
    rcases kind_of_isTerm hS with hk | hk
    · exact Or.inl hk
    · refine Or.inr ⟨?_, ?_⟩
      · rintro rfl
        obtain ⟨_, _, _, hl, _⟩ := exactE_replace hsex hsop
        rw [← hss] at hl
        have h1 := isKind_iff.mp hl
        have h2 := isKind_iff.mp hk
        rw [h1] at h2; cases h2
      · rintro rfl
        obtain ⟨_, _, _, hl, _⟩ := exactE_replace htex hcop
        have h1 := isKind_iff.mp hl
        have h2 := isKind_iff.mp hk
        rw [h1] at h2; cases h2
  -- the two nodes one after the other
  have hseq : ∀ e0 : Option DNode, e0.map normN = x0.map normN → seqEff S t src e0 = some (tEff src sop') := by
    intro e0 he0
    obtain ⟨e1, h1, h2⟩ := termEff_exact htt htex hcop hgx he0
    obtain ⟨e2, h3, h4⟩ := termEff_exact (e0 := e1) hst hsex hsop hgy (by rw [h2, hy])
    unfold seqEff
    rw [termEff_own hot none cur, h1]
    simp only [Option.bind_some]
    rw [termEff_own hos none sin, h3]
    simp [h4]
  -- the cell
  have hcell : ∀ e0 : Option DNode, e0.map normN = x0.map normN → cellEff S o sop' t cop' src e0 = some (tEff src sop') := by
    intro e0 he0
    rw [← hseq e0 he0]
    cases t with
    | inner => simp [DNode.isTerm] at htt
    | term s f mt v =>
      cases src with
      | inner => simp [DNode.isTerm] at hst
      | term s' f2 ms v2 =>
        simp only [DNode.sid] at hss
        subst hss
        refine term_cellEq hq htex hlt hot hsex hls hos hgx hy ?_ ?_ e0 he0
        · rintro rfl rfl
          simp only [safeP, hcop, hsop, beq_self_eq_true, Bool.and_true, Bool.true_and, Bool.and_eq_true,
            Bool.not_eq_eq_eq_not, Bool.not_true] at hsafe
          exact hsafe.2
        · intro hk
          have h2 : S.isDupInst s = false := htd.ndi
          have h1 := isKind_iff.mp hk
          simp [matchP, isLL, instMatch, sameInst, h2, hk, h1, DNode.sid, DNode.val] at hm
          exact hm.symm
  exact cell_concl (fx := fx) K x0 rfl htd htt htk hss.symm hkv hcell

/-- a plain good node whose operation `create` is inherited is exact where there is no instance -/
theorem exactE_plain_create {S : Schema} {c : DNode} (hg : goodN S P c = true) (hp : plainN c = true)
    (hk : S.isKey c.sid = false) : exactE S P (some .create) none c = true := by
  have hd : domB S P c = true := domB_iff.mpr (goodN_dom hg)
  have hm : metaOKB c = true := by simp [metaOKB, plainN_metas hp]
  have ho : effOp c (some .create) = some .create := by simp [effOp, plainN_ownOp hp]
  cases c with
  | term s f m v =>
    simp only [exactE, hd, hm, ho, Bool.and_eq_true, Bool.true_and, Bool.and_true]
    simpa [DNode.sid] using hk
  | inner s f m ks =>
    have hgk : goodT S P ks = true := goodN_kidsT hg
    have hpk : plainL ks = true := by simpa [DNode.kids] using plainN_kids hp
    simp only [exactE, hd, hm, ho, hgk, hpk, Bool.and_eq_true, Bool.true_and, Bool.and_true]
    simpa [DNode.sid] using hk

/-- **the cells for a leaf / leaf-list node inside a CREATED subtree** (no metadata, `create` inherited) met by a node of the
second diff: `delete` — nothing is left; `replace` / `none` — the node is created with the new value / default flag -/
theorem term_cell_plain {S : Schema} (K : KeyOrderOn S P) {o : MergeOpts} {sin : Option Op} {s : Nat} {f : Flags} {v : Bytes}
    {src : DNode} {y0 : Option DNode} (hst : src.isTerm = true)
    (hm : matchP S src (.term s f [] v) = true) (htex : exactE S P (some .create) none (.term s f [] v) = true)
    (hsex : exactE S P sin y0 src = true) (hls : litN src = true)
    (hgy : ∀ y, y0 = some y → goodN S P y = true ∧ y.sid = src.sid)
    {sop : Op} (hsop : effOp src sin = some sop) (hy : y0.map normN = some (normN (.term s f [] v)))
    (hos : (∃ op, ownOp src = some op) ∨ (src.metas = [] ∧ (sop = .delete ∨ sop = .create))) :
    ∃ m, mergeCell S o sop (.term s f [] v) .create src = .ok (m, false) ∧ Dom S P m ∧ m.isTerm = true ∧ m.sid = s ∧
      (∀ x, matchP S m x = matchP S (.term s f [] v) x) ∧
      (((isRedundant S (some .create) m).2 = true ∧ tEff src sop = none) ∨
        ((isRedundant S (some .create) m).2 = false ∧ Acts S P fx (some .create) m none (tEff src sop))) := by
  obtain ⟨htd, _, htk⟩ := exactE_base htex
  obtain ⟨hsd, _, _⟩ := exactE_base hsex
  have hss : s = src.sid := matchP_sid hm
  have hcre : sop = .create → False := by
    rintro rfl
    obtain ⟨h, _⟩ := exactE_create hsex hsop
    rw [h] at hy; simp at hy
  have hS : S.isTerm s = true := by have := htd.typed; simpa [DNode.isTerm, DNode.sid] using this.symm
  have h1 : S.isUserOrd s = false := htd.nuo
  have h2 : S.isDupInst s = false := htd.ndi
  have hk : S.isKey s = false := htk
  obtain ⟨y, rfl, hyt, hyv, hyd⟩ := y_of_tEff (cop := .create) (by simpa [tEff] using hy) (by decide)
  cases src with
  | inner => simp [DNode.isTerm] at hst
  | term s' f2 ms v2 =>
  simp only [DNode.sid] at hss
  subst hss
  -- a plain node with a term's flags / value changed still is a good plain node at the same place
  have hplainm : ∀ (f' : Flags) (v' : Bytes), (S.isKind s .leaf = true ∨ v' = v) →
      Dom S P (.term s f' [] v') ∧ (∀ x, matchP S (.term s f' [] v') x = matchP S (.term s f [] v) x) ∧
        Acts S P fx (some .create) (.term s f' [] v') none (some (normN (.term s f' [] v'))) := by
    intro f' v' hkv
    have hd' : Dom S P (.term s f' [] v') := by
      refine ⟨h1, h2, htd.typed, ?_⟩
      rcases hkv with hl | rfl
      · exact K.pinv.punsorted (isSorted_of_leaf hl)
      · rw [K.pinv.pcongr (x := .term s f' [] v') (y := .term s f [] v') rfl rfl rfl]; exact htd.sat
    refine ⟨hd', ?_, ?_⟩
    · intro x
      rcases hkv with hl | rfl
      · rw [matchP_leaf_eq (d := .term s f' [] v') hl, matchP_leaf_eq (d := .term s f [] v) hl]
        rfl
      · exact matchP_of_same_data (d := .term s f [] v') (d' := .term s f' [] v') h2 rfl rfl rfl x
    · have hg : goodN S P (.term s f' [] v') = true := goodN_iff.mpr ⟨hd', by simp [DNode.kids, goodT_nil]⟩
      exact acts_create K (exactE_plain_create hg rfl hk) (by simp [effOp, ownOp, getMeta, DNode.metas])
  cases sop with
  | create => exact absurd rfl (fun h => hcre h)
  | delete =>
    obtain ⟨y', hy', hdq, _⟩ := exactE_delete hsex hsop
    cases hy'
    have hn := (dataEq_iff_norm _ _).mp hdq
    obtain ⟨_, _, hv', hd'⟩ := normN_term_val (x := y) (by rw [hn]; rfl)
    have hvv : v2 = v := by rw [← hv', hyv]
    subst hvv
    have hff : f2.dflt = f.dflt := by rw [← hd', hyd]
    let m : DNode := .term s f [("operation", bs "none"), ("orig-default", boolBytes f2.dflt)] v2
    have hsame : sameInst S (.term s f [] v2) (.term s f2 ms v2) = true := by
      rcases kind_of_isTerm hS with hk' | hk' <;> simp [sameInst, isKind_iff.mp hk', DNode.sid, DNode.val]
    have hcell : mergeCell S o .delete (.term s f [] v2) .create (.term s f2 ms v2) = .ok (m, false) := by
      show (mergeDelete S _ .create _).map (·, false) = _
      unfold mergeDelete
      simp [hsame, Except.map, changeOp, eraseMeta, DNode.setMetas, DNode.metas, Op.str, hS, DNode.sid, addMeta, h2,
        DNode.setKids, DNode.flags, m]
    have hmd : Dom S P m := ⟨h1, h2, htd.typed, by
      rw [K.pinv.pcongr (x := m) (y := .term s f [] v2) rfl rfl rfl]; exact htd.sat⟩
    refine ⟨m, hcell, hmd, rfl, rfl, fun x => matchP_of_same_data (d := .term s f [] v2) (d' := m) h2 rfl rfl rfl x, Or.inl ⟨?_, by simp [tEff]⟩⟩
    exact redundant_none_term S _ m (effOp_own' (ownOp_of_metas_cons m .none _ rfl) _) hS (by simp [m, getMeta, DNode.metas, DNode.flags, hff])
  | replace =>
    obtain ⟨_, y', hy', hleaf, hov, hod, hvne⟩ := exactE_replace hsex hsop
    cases hy'
    have hne : v2 ≠ v := by rw [← hyv]; exact hvne
    have hleaf : S.isKind s .leaf = true := hleaf
    have hkd : S.kind? s = some .leaf := isKind_iff.mp hleaf
    let m : DNode := .term s { f with dflt := f2.dflt, new := true } [] v2
    have hsame : sameInst S (.term s f [] v) (.term s f2 ms v2) = false := by
      simp [sameInst, hkd, DNode.sid, DNode.val]
      exact fun h => hne h.symm
    have hcell : mergeCell S o .replace (.term s f [] v) .create (.term s f2 ms v2) = .ok (m, false) := by
      show (mergeReplace S _ .create _).map (·, false) = _
      unfold mergeReplace
      simp [hsame, Except.map, hkd, DNode.sid, changeTerm, DNode.setVal, DNode.setFlags, DNode.flags,
        DNode.setDflt, DNode.val, op_beq, m]
    obtain ⟨hmd, hmm, hact⟩ := hplainm { f with dflt := f2.dflt, new := true } v2 (Or.inl hleaf)
    refine ⟨m, hcell, hmd, rfl, rfl, hmm, Or.inr ⟨?_, ?_⟩⟩
    · rw [redundant_false_of_op S _ m .create (by simp [m, effOp, ownOp, getMeta, DNode.metas]) (by decide) h1]
    · have : tEff (.term s f2 ms v2) .replace = some (normN m) := by simp [tEff, normN, m]
      rw [this]; exact hact
  | none =>
    obtain ⟨y', hy', hxv, _⟩ := exactE_none_term hsex hsop rfl
    cases hy'
    have hvv : v2 = v := by rw [← hyv]; exact hxv.symm
    subst hvv
    let m : DNode := .term s { f with dflt := f2.dflt } [] v2
    have hcell : mergeCell S o .none (.term s f [] v2) .create (.term s f2 ms v2) = .ok (m, false) := by
      show (mergeNone S _ .create _).map (·, false) = _
      simp [mergeNone, Except.map, DNode.sid, hS, DNode.setDflt, DNode.setFlags, DNode.flags, m]
    obtain ⟨hmd, hmm, hact⟩ := hplainm { f with dflt := f2.dflt } v2 (Or.inr rfl)
    refine ⟨m, hcell, hmd, rfl, rfl, hmm, Or.inr ⟨?_, ?_⟩⟩
    · rw [redundant_false_of_op S _ m .create (by simp [m, effOp, ownOp, getMeta, DNode.metas]) (by decide) h1]
    · have : tEff (.term s f2 ms v2) .none = some (normN m) := by simp [tEff, normN, m]
      rw [this]; exact hact

/-- **the cell for two leaf / leaf-list nodes that meet** — the target node an exact literal node with an operation of its own, or a
copy inside a CREATED subtree (no metadata, `create` inherited); the source node an exact literal node with an operation of its
own, or a copy inside a DELETED subtree (`lyd_diff_merge_delete` reads of it the schema node, the value and the default flag only).
The node of the cell is dropped and the instance is as before, or it is kept and acts on the instance like `t` followed by `src`. -/
theorem term_cell {S : Schema} (K : KeyOrderOn S P) {o : MergeOpts}
    (hq : o.defaults = true → Generated.Diff13.mergeDfltNeedsDeletedDflt = true) {cur sin : Option Op} {t src : DNode}
    {x0 y0 : Option DNode} (htt : t.isTerm = true) (hst : src.isTerm = true)
    (hm : matchP S src t = true) (htex : exactE S P cur x0 t = true) (hlt : litN t = true)
    (hsex : exactE S P sin y0 src = true) (hls : litN src = true)
    (hgx : ∀ x, x0 = some x → goodN S P x = true ∧ x.sid = t.sid) (hgy : ∀ y, y0 = some y → goodN S P y = true ∧ y.sid = src.sid)
    {cop sop : Op} (hcop : effOp t cur = some cop) (hsop : effOp src sin = some sop) (hy : y0.map normN = tEff t cop)
    (hsafe : safeP S cur sin t src = true)
    (hot' : (∃ op, ownOp t = some op) ∨ (t.metas = [] ∧ cur = some .create))
    (hos' : (∃ op, ownOp src = some op) ∨ (src.metas = [] ∧ (sop = .delete ∨ sop = .create))) :
    ∃ m, mergeCell S o sop t cop src = .ok (m, false) ∧ Dom S P m ∧ m.isTerm = true ∧ m.sid = t.sid ∧
      (∀ x, matchP S m x = matchP S t x) ∧
      (((isRedundant S cur m).2 = true ∧ tEff src sop = x0.map normN) ∨
        ((isRedundant S cur m).2 = false ∧ Acts S P fx cur m (x0.map normN) (tEff src sop))) := by
  rcases hot' with hot' | ⟨hmeta, rfl⟩
  · -- the target node has an operation of its own
    have hown : ∃ m, mergeCell S o sop t cop src = .ok (m, false) ∧ Dom S P m ∧ m.isTerm = true ∧ m.sid = t.sid ∧
        (∀ x, matchP S m x = matchP S t x) ∧ (∃ op, ownOp m = some op) ∧
        (((isRedundant S none m).2 = true ∧ tEff src sop = x0.map normN) ∨
          ((isRedundant S none m).2 = false ∧ Acts S P fx cur m (x0.map normN) (tEff src sop))) := by
      rcases hos' with hos' | ⟨hmeta, hsd2⟩
      · exact term_cell_own K hq htt hst hm htex hlt hsex hls hgx hgy hcop hsop hy hsafe hot' hos'
      · cases src with
        | inner => simp [DNode.isTerm] at hst
        | term s f2 ms v2 =>
          simp only [DNode.metas] at hmeta
          subst hmeta
          obtain ⟨hsd, _, hsk⟩ := exactE_base hsex
          have hk : S.isKey s = false := hsk
          rcases hsd2 with rfl | rfl
          · -- a copy inside a deleted subtree
            obtain ⟨y, rfl, hdq, _⟩ := exactE_delete hsex hsop
            let src' : DNode := .term s f2 [("operation", bs "delete")] v2
            have hown' : ownOp src' = some .delete := ownOp_of_metas src' .delete rfl
            have hsd' : Dom S P src' := ⟨hsd.nuo, hsd.ndi, hsd.typed, by
              rw [K.pinv.pcongr (x := src') (y := .term s f2 [] v2) rfl rfl rfl]; exact hsd.sat⟩
            have hsex' : exactE S P none (some y) src' = true := by
              have hd : domB S P src' = true := domB_iff.mpr hsd'
              simp only [src', exactE, effOp_own' hown' none, Bool.and_eq_true]
              refine ⟨⟨⟨hd, by simp [metaOKB, DNode.metas]⟩, by simp [hk]⟩, ?_⟩
              have hn := (dataEq_iff_norm y (.term s f2 [] v2)).mp hdq
              exact (dataEq_iff_norm y (.term s f2 [("operation", bs "delete")] v2)).mpr (by rw [hn]; rfl)
            have hm' : matchP S src' t = true := by
              rw [matchP_of_same_data (d := .term s f2 [] v2) (d' := src') hsd.ndi rfl rfl rfl]; exact hm
            have hsafe' : safeP S cur none t src' = true := by
              have e1 : effOp (DNode.term s f2 [("operation", bs "delete")] v2) none = some .delete := effOp_own' hown' none
              simp only [safeP, hsop] at hsafe
              show safeP S cur none t (.term s f2 [("operation", bs "delete")] v2) = true
              simp only [safeP, e1]
              simpa using hsafe
            obtain ⟨m, hcell, rest⟩ := term_cell_own (fx := fx) K hq htt (show src'.isTerm = true from rfl) hm' htex hlt hsex'
              (by simp [src', litN, litMeta]) hgx hgy hcop (effOp_own' hown' none) hy hsafe' hot' ⟨_, hown'⟩
            exact ⟨m, hcell, rest⟩
          · -- a copy inside a created subtree
            obtain ⟨rfl, _⟩ := exactE_create hsex hsop
            let src' : DNode := .term s f2 [("operation", bs "create")] v2
            have hown' : ownOp src' = some .create := ownOp_of_metas src' .create rfl
            have hsd' : Dom S P src' := ⟨hsd.nuo, hsd.ndi, hsd.typed, by
              rw [K.pinv.pcongr (x := src') (y := .term s f2 [] v2) rfl rfl rfl]; exact hsd.sat⟩
            have hsex' : exactE S P none none src' = true := by
              have hd : domB S P src' = true := domB_iff.mpr hsd'
              simp only [src', exactE, effOp_own' hown' none, Bool.and_eq_true]
              exact ⟨⟨⟨hd, by simp [metaOKB, DNode.metas]⟩, by simp [hk]⟩, trivial⟩
            have hm' : matchP S src' t = true := by
              rw [matchP_of_same_data (d := .term s f2 [] v2) (d' := src') hsd.ndi rfl rfl rfl]; exact hm
            have hsafe' : safeP S cur none t src' = true := by
              have e1 : effOp (DNode.term s f2 [("operation", bs "create")] v2) none = some .create := effOp_own' hown' none
              simp only [safeP, hsop] at hsafe
              show safeP S cur none t (.term s f2 [("operation", bs "create")] v2) = true
              simp only [safeP, e1]
              simpa using hsafe
            obtain ⟨m, hcell, rest⟩ := term_cell_own (fx := fx) K hq htt (show src'.isTerm = true from rfl) hm' htex hlt hsex'
              (by simp [src', litN, litMeta]) hgx hgy hcop (effOp_own' hown' none) hy hsafe' hot' ⟨_, hown'⟩
            have hcong : mergeCell S o .create t cop (.term s f2 [] v2) = mergeCell S o .create t cop src' := by
              have huo : S.isUserOrd s = false := hsd.nuo
              show mergeCreate S o t cop (.term s f2 [] v2) = mergeCreate S o t cop (.term s f2 [("operation", bs "create")] v2)
              unfold mergeCreate
              cases cop <;>
                simp only [pj_sid_term, huo, Bool.false_eq_true, ↓reduceIte, pj_val_term, pj_flags_term, sameInst, pj_kids_term] <;>
                rfl
            exact ⟨m, hcong.trans hcell, rest⟩
    obtain ⟨m, h1, h2, h3, h4, h5, ⟨opm, hopm⟩, h6⟩ := hown
    refine ⟨m, h1, h2, h3, h4, h5, ?_⟩
    rw [isRedundant_own S cur none m opm hopm]
    exact h6
  · -- the target node is a copy inside a created subtree
    cases t with
    | inner => simp [DNode.isTerm] at htt
    | term s f mt v =>
      simp only [DNode.metas] at hmeta
      subst hmeta
      have hc : cop = .create := by
        have : effOp (DNode.term s f [] v) (some .create) = some .create := by simp [effOp, ownOp, getMeta, DNode.metas]
        rw [hcop] at this; exact Option.some.inj this
      subst hc
      obtain ⟨hx0, _⟩ := exactE_create htex hcop
      subst hx0
      exact term_cell_plain K hst hm htex hsex hls hgy hsop (by simpa [tEff] using hy) hos'

end LyModel.Diff.K13

namespace LyModel.Diff
open LyModel LyModel.Tree

/-- a node with an operation of its own (not `replace` on a user-ordered node) is applied the same way whatever it would inherit -/
theorem applyStep_own {S : Schema} {fx : Fixes} {recur : Recur} {d : DNode} {op : Op} (h : ownOp d = some op)
    (huo : S.isUserOrd d.sid = false) (L : List DNode) (hp : Bool) (a b : Option Op) :
    applyStep S fx recur L hp a d = applyStep S fx recur L hp b d := by
  have he : ∀ i, effOp d i = some op := fun i => by simp [effOp, h]
  unfold applyStep
  simp only [he, huo, Bool.false_and, Bool.false_eq_true, ↓reduceIte]
  cases op with
  | replace => rfl
  | delete => rfl
  | create =>
    unfold applyCreate applyKids
    simp only [he, childInh_of_own d .create _ h (by decide)]
  | none =>
    unfold applyNone applyKids
    simp only [he, childInh_of_own d .none _ h (by decide)]

theorem applyNode_own {S : Schema} {fx : Fixes} {d : DNode} {op : Op} (h : ownOp d = some op)
    (huo : S.isUserOrd d.sid = false) (n : Nat) (L : List DNode) (hp : Bool) (a b : Option Op) :
    applyNode S fx n L hp a d = applyNode S fx n L hp b d := by
  cases n with
  | zero => rfl
  | succ k => exact applyStep_own h huo L hp a b

theorem matchP_changeOp (S : Schema) (d x : DNode) (op : Op) : matchP S (changeOp d op) x = matchP S d x := by
  simp only [matchP, sid_changeOp, instMatch_changeOp]

/-- the copy of a source node with its operation made explicit is applied like the source node -/
theorem applyNode_changeOp {S : Schema} {fx : Fixes} {d : DNode} {sin cur : Option Op} {sop : Op} (hm : MetaOK d)
    (hop : effOp d sin = some sop) (huo : S.isUserOrd d.sid = false) (n : Nat) (L : List DNode) (hp : Bool) :
    applyNode S fx n L hp cur (changeOp d sop) = applyNode S fx n L hp sin d := by
  rw [applyNode_own (ownOp_changeOp hm sop) (by simpa using huo) n L hp cur sin]
  cases n with
  | zero => rfl
  | succ k => exact applyStep_changeOp hm hop L hp

theorem effOp_isSome_of_exact {S : Schema} {inh : Option Op} {e : Option DNode} {c : DNode} (h : exactE S inh e c = true) :
    ∃ op, effOp c inh = some op := by
  cases ho : effOp c inh with
  | some op => exact ⟨op, rfl⟩
  | none =>
    cases c <;> simp only [exactE, ho, Bool.and_eq_true] at h <;> cases e <;> simp at h
end LyModel.Diff

namespace LyModel.Diff.K13
open LyModel LyModel.Tree LyModel.Diff
variable {P : DNode → Bool} {fx : Fixes}

theorem effOp_isSome_of_exact {S : Schema} {inh : Option Op} {e : Option DNode} {c : DNode} (h : exactE S P inh e c = true) :
    ∃ op, effOp c inh = some op := by
  cases ho : effOp c inh with
  | some op => exact ⟨op, rfl⟩
  | none =>
    cases c <;> simp only [exactE, ho, Bool.and_eq_true] at h <;> cases e <;> simp at h

/-- an acting node acts in one way only -/
theorem Acts.det {S : Schema} {inh : Option Op} {c : DNode} {e e1 e2 : Option DNode} (h1 : Acts S P fx inh c e e1)
    (h2 : Acts S P fx inh c e e2) {X : List DNode} (hgX : goodT S P X = true) (hkb : KeysBelow S c X)
    (hl : (look S X c).map normN = e) : e1 = e2 := by
  obtain ⟨X1, ha1, _, _, _, hv1⟩ := h1 c.height false X (Nat.le_refl _) hgX hkb hl
  obtain ⟨X2, ha2, _, _, _, hv2⟩ := h2 c.height false X (Nat.le_refl _) hgX hkb hl
  rw [ha1] at ha2
  cases ha2
  rw [← hv1, hv2]

/-- the copy of a source node with its operation made explicit acts like the source node -/
theorem acts_changeOp {S : Schema} {sin cur : Option Op} {d : DNode} {sop : Op} {e e' : Option DNode} (hm : MetaOK d)
    (hop : effOp d sin = some sop) (huo : S.isUserOrd d.sid = false) (h : Acts S P fx sin d e e') :
    Acts S P fx cur (changeOp d sop) e e' := by
  intro n hp X hh hgX hkb hl
  have hmm : ∀ x, matchP S (changeOp d sop) x = matchP S d x := fun x => matchP_changeOp S d x sop
  have hlk : ∀ Z, look S Z (changeOp d sop) = look S Z d := fun Z => look_congr_fun hmm
  obtain ⟨X', ha, hg', hk', hloc, hv⟩ := h n hp X (by rw [← height_changeOp d sop]; exact hh) hgX
    (by intro k hk; have := hkb k hk; simpa using this) (by rw [← hlk]; exact hl)
  refine ⟨X', by rw [applyNode_changeOp hm hop huo]; exact ha, hg', hk', ?_, by rw [hlk]; exact hv⟩
  intro q hq hcq
  exact hloc q hq (by rw [← hmm]; exact hcq)

/-- an exact leaf / leaf-list node acts: `tEff` -/
theorem acts_exact_term {S : Schema} (K : KeyOrderOn S P) {c : DNode} {inh : Option Op} {op : Op} {e : Option DNode}
    (ht : c.isTerm = true) (hex : exactE S P inh e c = true) (hop : effOp c inh = some op)
    (hge : ∀ x, e = some x → goodN S P x = true ∧ x.sid = c.sid) : Acts S P fx inh c (e.map normN) (tEff c op) := by
  obtain ⟨hd, _, hk⟩ := exactE_base hex
  apply acts_of_termEff K hd ht hk
  intro e1 he1
  exact termEff_exact ht hex hop hge he1

/-- the children of an inner node with operation `none`, exact for the children `Lk` of the instance: they act, what they make
of `Lk` (up to `normN`) is `V`, and every good list with the observation `V` is related to them -/
theorem kids_inv {S : Schema} (K : KeyOrderOn S P) {inh : Option Op} {Lk kt : List DNode} (hgL : goodT S P Lk = true)
    (hex : exactK S P inh Lk true kt = true) :
    ∃ (Ek : DNode → Option DNode) (V : List DNode), TInv S P fx inh (noKeys S kt) Lk Ek ∧
      ActsL S P fx inh (noKeys S kt) (normL13 Lk) V ∧
      ∀ Yk, goodT S P Yk = true → normL13 Yk = V →
        Rel S P (noKeys S kt) Lk Ek Yk ∧ (∀ c, KeysBelow S c Yk → KeysBelow S c Lk) ∧
          normL13 (keysOf S Yk) = normL13 (keysOf S Lk) := by
  have hdk : dk S true kt = noKeys S kt := by simp [dk]
  obtain ⟨Ek, hEk⟩ := exactK_acts (fx := fx) (nodesFwd K kt) hgL hex
  have hlvl := exactK_level K true kt hex
  obtain ⟨X1, _, hgX1, hkX1, hloc1, hval1⟩ := exactK_apply (fx := fx) (hp := true) K hgL hex hEk (Nat.le_refl _) hgL rfl
  rw [hdk] at hEk hlvl hloc1 hval1
  refine ⟨Ek, normL13 X1, ⟨hlvl, fun c hc => (exactK_mem true kt hex c (by rw [hdk]; exact hc)).2, hEk⟩, ?_, ?_⟩
  · intro n hp X hh hgX hX
    obtain ⟨X2, hX2, hgX2, hkX2, hloc2, hval2⟩ := exactK_apply (fx := fx) (hp := hp) K hgL hex (by rw [hdk]; exact hEk)
      (by rw [hdk]; exact hh) hgX hX
    rw [hdk] at hX2 hloc2 hval2
    exact ⟨X2, hX2, hgX2, hkX2, normL_eq_of_level K hlvl.dom hgX2 hgX1 hloc2 hloc1 hX
      (fun c hc => by rw [hval2 c hc, hval1 c hc])⟩
  · intro Yk _ hYk
    refine ⟨⟨fun t ht => ?_, fun q hq hall => ?_⟩, ?_, ?_⟩
    · rw [look_norm_congr hYk t]; exact hval1 t ht
    · rw [look_norm_congr hYk q, hloc1 q hq hall]
    · intro c hc
      have := keysBelow_congr (X := X1) (L := Yk) hYk.symm hc
      intro k hk
      rw [← hkX1] at hk
      exact this k hk
    · rw [← keysOf_normL, hYk, keysOf_normL, hkX1]

/-- a target level that acts on `L`: what it makes of `L` (up to `normN`) is one list `V`, the observation of every related list -/
theorem TInv.actsL {S : Schema} (K : KeyOrderOn S P) {cur : Option Op} {T L : List DNode} {E : DNode → Option DNode}
    (hT : TInv S P fx cur T L E) (hgL : goodT S P L = true) :
    ∃ V, ActsL S P fx cur T (normL13 L) V ∧ ∀ Y, goodT S P Y = true → Rel S P T L E Y → normL13 Y = V := by
  obtain ⟨X1, _, hgX1, _, hloc1, hval1⟩ := hT.apply (hp := true) K (Nat.le_refl _) hgL rfl
  refine ⟨normL13 X1, ?_, ?_⟩
  · intro n hp X hh hgX hX
    obtain ⟨X2, hX2, hgX2, hkX2, hloc2, hval2⟩ := hT.apply (hp := hp) K hh hgX hX
    exact ⟨X2, hX2, hgX2, hkX2, normL_eq_of_level K hT.lvl.dom hgX2 hgX1 hloc2 hloc1 hX
      (fun c hc => by rw [hval2 c hc, hval1 c hc])⟩
  · intro Y hgY hR
    exact (Rel.result K hT.lvl hR hgY rfl hgX1 hloc1 hval1).symm

/-- the source node changes (up to `normN`) nothing and meets nothing: the relation is kept -/
theorem rel_skip {S : Schema} (K : KeyOrderOn S P) {Tb L Y Y' : List DNode} {E : DNode → Option DNode} (hlv : Level S P Tb)
    (hR : Rel S P Tb L E Y) {src : DNode} (hsd : Dom S P src) (hun : ∀ t ∈ Tb, matchP S src t = false)
    (hgY' : goodT S P Y' = true) (hgY : goodT S P Y = true) (hloc : Local S P src Y Y')
    (hval : (look S Y' src).map normN = (look S Y src).map normN) : Rel S P Tb L E Y' := by
  refine ⟨fun t ht => ?_, fun q hq hall => ?_⟩
  · rw [hloc t (hlv.dom t ht) (hun t ht)]; exact hR.on t ht
  · cases hsq : matchP S src q
    · rw [hloc q hq hsq]; exact hR.off q hq hall
    · rw [← look_congr K (goodT_goodL hgY') hsd hq hsq, hval, look_congr K (goodT_goodL hgY) hsd hq hsq]
      exact hR.off q hq hall

end LyModel.Diff.K13
