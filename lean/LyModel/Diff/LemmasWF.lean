import LyModel.Diff.Order
/-!
# What well-formedness gives (C06 proofs)
Core Lean only.
-/
namespace LyModel.Diff
open LyModel LyModel.Tree

theorem isInner_not_isTerm (S : Schema) (sid : Nat) (h : S.isInner sid = true) : S.isTerm sid = false := by
  unfold Schema.isInner Schema.isKind Schema.kind? at h
  unfold Schema.isTerm Schema.isKind Schema.kind?
  cases hg : S.get? sid with
  | none => simp [hg] at h
  | some n =>
    simp only [hg, Option.map_some, Bool.or_eq_true, beq_iff_eq, Option.some.injEq] at h
    rcases h with h | h <;> simp [h]

theorem plainSid_not_userOrd (S : Schema) (sid : Nat) (h : plainSid S sid = true) : S.isUserOrd sid = false := by
  unfold plainSid at h
  simp only [Bool.and_eq_true, Bool.not_eq_true'] at h
  exact h.1.1

theorem plainSid_not_dupInst (S : Schema) (sid : Nat) (h : plainSid S sid = true) : S.isDupInst sid = false := by
  unfold plainSid at h
  simp only [Bool.and_eq_true, Bool.not_eq_true'] at h
  exact h.1.2

structure WfInner (S : Schema) (s : Nat) (f : Flags) (m : List Meta) (ks : List DNode) : Prop where
  plain : plainSid S s = true
  inner : S.isInner s = true
  nometa : m = []
  nonew : f.new = false
  nowhen : f.whenTrue = false
  dflt : f.dflt = true → S.isNpCont s = true
  notkey : S.isKey s = false
  restNoKey : ∀ c ∈ noKeys S ks, S.isKey c.sid = false
  keysTerm : ∀ c ∈ keysOf S ks, c.isTerm = true
  keysNoDflt : ∀ c ∈ keysOf S ks, c.flags.dflt = false
  keysList : S.isKind s .list = true ∨ keysOf S ks = []
  keysSids : S.isKind s .list = true → (keysOf S ks).map (·.sid) = keySids S s
  canon : canonB S ks = true
  kids : wfL S ks = true

theorem wfNode_inner (S : Schema) (s : Nat) (f : Flags) (m : List Meta) (ks : List DNode)
    (h : wfNode S (.inner s f m ks) = true) : WfInner S s f m ks := by
  simp only [wfNode, Bool.and_eq_true, Bool.not_eq_true', List.all_eq_true, Bool.or_eq_true, List.isEmpty_iff] at h
  obtain ⟨⟨⟨⟨⟨⟨⟨⟨⟨⟨⟨⟨h1, h2⟩, h3⟩, h4⟩, h5⟩, h6⟩, h7⟩, h8⟩, h9⟩, h10⟩, h13⟩, h11⟩, h12⟩ := h
  exact ⟨h1, h2, h3, h4, h5, fun hd => by rcases h6 with h6 | h6 <;> simp_all, h7, h8, fun c hc => (h9 c hc).1,
    fun c hc => (h9 c hc).2, h10, fun hl => by rcases h13 with h13 | h13 <;> simp_all, h11, h12⟩

structure WfTerm (S : Schema) (s : Nat) (f : Flags) (m : List Meta) : Prop where
  plain : plainSid S s = true
  term : S.isTerm s = true
  nometa : m = []
  nonew : f.new = false
  nowhen : f.whenTrue = false

theorem wfNode_term (S : Schema) (s : Nat) (f : Flags) (m : List Meta) (v : Bytes)
    (h : wfNode S (.term s f m v) = true) : WfTerm S s f m := by
  simp only [wfNode, Bool.and_eq_true, Bool.not_eq_true', List.isEmpty_iff] at h
  obtain ⟨⟨⟨⟨h1, h2⟩, h3⟩, h4⟩, h5⟩ := h
  exact ⟨h1, h2, h3, h4, h5⟩

theorem wfL_mem (S : Schema) : ∀ (l : List DNode) (x : DNode), wfL S l = true → x ∈ l → wfNode S x = true
  | [], _, _, h => by simp at h
  | n :: ns, x, hw, h => by
    simp only [wfL, Bool.and_eq_true] at hw
    rcases List.mem_cons.1 h with h | h
    · subst h; exact hw.1
    · exact wfL_mem S ns x hw.2 h

theorem wfL_of_forall (S : Schema) : ∀ (l : List DNode), (∀ x ∈ l, wfNode S x = true) → wfL S l = true
  | [], _ => rfl
  | n :: ns, h => by
    simp only [wfL, Bool.and_eq_true]
    exact ⟨h n (by simp), wfL_of_forall S ns (fun x hx => h x (by simp [hx]))⟩

theorem wfNode_plain (S : Schema) (n : DNode) (h : wfNode S n = true) : plainSid S n.sid = true := by
  cases n with
  | inner s f m ks => exact (wfNode_inner S s f m ks h).plain
  | term s f m v => exact (wfNode_term S s f m v h).plain

theorem wfNode_shape (S : Schema) (n : DNode) (h : wfNode S n = true) : shapeOk S n = true := by
  cases n with
  | inner s f m ks =>
    have := isInner_not_isTerm S s (wfNode_inner S s f m ks h).inner
    simp [shapeOk, DNode.isTerm, DNode.sid, this]
  | term s f m v =>
    have := (wfNode_term S s f m v h).term
    simp [shapeOk, DNode.isTerm, DNode.sid, this]

theorem wfNode_nometa (S : Schema) (n : DNode) (h : wfNode S n = true) : n.metas = [] := by
  cases n with
  | inner s f m ks => exact (wfNode_inner S s f m ks h).nometa
  | term s f m v => exact (wfNode_term S s f m v h).nometa

end LyModel.Diff
