import LyModel.Diff.Lemmas13Rev
import LyModel.Diff.LemmasRevSwitch
/-!
# C13 helper lemmas: reversing twice

For an exact diff whose `create` / `delete` nodes carry exactly the metadata `lyd_diff_add` writes (`stdOps`: the operation and
nothing else), `lyd_diff_reverse_all` applied twice gives back the (duplicated) diff, metadata order included.
-/
set_option linter.unusedSimpArgs false
namespace LyModel.Diff
open LyModel LyModel.Tree

mutual
theorem revDup_idem : ∀ x, revDup (revDup x) = revDup x
  | .inner s f m ks => by simp [revDup, revDupL_idem ks]
  | .term s f m v => by simp [revDup]
theorem revDupL_idem : ∀ l, revDupL (revDupL l) = revDupL l
  | [] => rfl
  | x :: xs => by simp [revDupL, revDup_idem x, revDupL_idem xs]
end

theorem revDup_setMetas (x : DNode) (m : List Meta) : revDup (x.setMetas m) = (revDup x).setMetas m := by
  cases x <;> rfl

theorem revDup_setVal (x : DNode) (v : Bytes) : revDup (x.setVal v) = (revDup x).setVal v := by
  cases x <;> rfl

theorem revDup_setDflt_term {x : DNode} (h : x.isTerm = true) (b : Bool) : revDup (x.setDflt b) = (revDup x).setDflt b := by
  cases x with
  | inner => simp [DNode.isTerm] at h
  | term s f m v => simp [DNode.setDflt, DNode.setFlags, revDup, DNode.flags]

theorem revDup_changeOp (x : DNode) (op : Op) : revDup (changeOp x op) = changeOp (revDup x) op := by
  simp [changeOp, revDup_setMetas]

/-! ### metadata values set in place -/

theorem setMetaVal_setMetaVal (n : String) (v v' : Bytes) : ∀ ms : List Meta,
    setMetaVal n v (setMetaVal n v' ms) = setMetaVal n v ms
  | [] => rfl
  | m :: ms => by
    simp only [setMetaVal]
    split
    · simp [setMetaVal]
    · rename_i h
      simp [setMetaVal, h, setMetaVal_setMetaVal n v v' ms]

theorem setMetaVal_same {n : String} {v : Bytes} : ∀ {ms : List Meta},
    (ms.find? (·.1 == n)).map (·.2) = some v → setMetaVal n v ms = ms
  | [], h => by simp at h
  | m :: ms, h => by
    simp only [setMetaVal]
    split
    · rename_i hm
      simp only [List.find?_cons, hm, Option.map_some, Option.some.injEq] at h
      have : m.1 = n := by simpa using hm
      cases m
      simp_all
    · rename_i hm
      have hm' : (m.1 == n) = false := by simpa using hm
      simp only [List.find?_cons, hm'] at h
      rw [setMetaVal_same h]

theorem setMetaVal_comm {a b : String} (hab : a ≠ b) (x y : Bytes) : ∀ ms : List Meta,
    setMetaVal a x (setMetaVal b y ms) = setMetaVal b y (setMetaVal a x ms)
  | [] => rfl
  | m :: ms => by
    by_cases h1 : (m.1 == a) = true
    · have h2 : (m.1 == b) = false := by
        have : m.1 = a := by simpa using h1
        simp [this, hab]
      have h3 : (a == b) = false := by simp [hab]
      simp [setMetaVal, h1, h2, h3]
    · by_cases h2 : (m.1 == b) = true
      · have h3 : (b == a) = false := by simp [Ne.symm hab]
        simp [setMetaVal, h1, h2, h3]
      · simp [setMetaVal, h1, h2, setMetaVal_comm hab x y ms]

theorem boolBytes_of_eq_true (b : Bool) : boolBytes (boolBytes b == bs "true") = boolBytes b := by
  rw [boolBytes_eq_true]

end LyModel.Diff

namespace LyModel.Diff
open LyModel LyModel.Tree

mutual
/-- `create` / `delete` nodes carry the operation and nothing else (as `lyd_diff_add` writes them) -/
def stdN : DNode → Bool
  | .inner s f m ks =>
    match ownOp (.inner s f m ks) with
    | some .create => m == [("operation", bs "create")]
    | some .delete => m == [("operation", bs "delete")]
    | _ => stdL ks
  | .term s f m v =>
    match ownOp (.term s f m v) with
    | some .create => m == [("operation", bs "create")]
    | some .delete => m == [("operation", bs "delete")]
    | _ => true
def stdL : List DNode → Bool
  | [] => true
  | x :: xs => stdN x && stdL xs
end

theorem stdN_create {c : DNode} (h : stdN c = true) (ho : ownOp c = some .create) : c.metas = [("operation", bs "create")] := by
  cases c <;> simp only [stdN, ho] at h <;> simpa [DNode.metas] using h

theorem stdN_delete {c : DNode} (h : stdN c = true) (ho : ownOp c = some .delete) : c.metas = [("operation", bs "delete")] := by
  cases c <;> simp only [stdN, ho] at h <;> simpa [DNode.metas] using h

theorem ownOp_of_effOp {inh : Option Op} {c : DNode} {op : Op} (hinh : inh = none ∨ inh = some .none)
    (h : effOp c inh = some op) (hne : op ≠ .none) : ownOp c = some op := by
  unfold effOp at h
  cases ho : ownOp c with
  | some o => simpa [ho] using h
  | none =>
    rw [ho] at h
    rcases hinh with rfl | rfl
    · simp at h
    · simp only [Option.some.injEq] at h
      exact absurd h.symm hne

theorem setMetas_metas13 (x : DNode) : x.setMetas x.metas = x := by cases x <;> rfl
theorem setMetas_setMetas13 (x : DNode) (m m' : List Meta) : (x.setMetas m).setMetas m' = x.setMetas m' := by cases x <;> rfl

/-- swapping a one-element operation twice -/
theorem changeOp_changeOp_std {t : DNode} {b : Bytes} (h : t.metas = [("operation", b)]) (op1 op2 : Op) :
    changeOp (changeOp t op1) op2 = t.setMetas [("operation", bs op2.str)] := by
  simp [changeOp, h, eraseMeta, setMetas_setMetas13]

theorem invol_create {S : Schema} {inh : Option Op} {e : Option DNode} {c : DNode} (hinh : inh = none ∨ inh = some .none)
    (hex : exactE S inh e c = true) (hstd : stdN c = true) (hop : effOp c inh = some .create) :
    ∃ c', revNode S inh (revDup c) = .ok c' ∧ revNode S inh (revDup c') = .ok (revDup c) := by
  obtain ⟨hd, hm, hk⟩ := exactE_base hex
  obtain ⟨_, hpl, _⟩ := exactE_create hex hop
  have hown := ownOp_of_effOp hinh hop (by decide)
  have hmet : (revDup c).metas = [("operation", bs "create")] := by simpa using stdN_create hstd hown
  have hrev : revNode S inh (revDup c) = .ok (changeOp (revDup c) .delete) := by
    rw [revNode_create (by simpa using hk) (by rw [effOp_revDup]; exact hop), kids_revDup,
      map_removeOp_plain _ (by rw [plainL_revDupL]; exact hpl), ← kids_revDup]
    have : (revDup c).kids = (changeOp (revDup c) .delete).kids := by simp
    rw [this, setKids_kids]
  refine ⟨_, hrev, ?_⟩
  rw [revDup_changeOp, revDup_idem]
  have hop2 : effOp (changeOp (revDup c) .delete) inh = some .delete := effOp_changeOp (metaOK_revDup hm) .delete
  rw [revNode_delete (by simpa using hk) hop2, kids_changeOp, kids_revDup,
    map_removeOp_plain _ (by rw [plainL_revDupL]; exact hpl), changeOp_changeOp_std hmet]
  have : (revDupL c.kids) = ((revDup c).setMetas [("operation", bs Op.create.str)]).kids := by simp [kids_revDup]
  rw [this, setKids_kids]
  have h2 : [("operation", bs Op.create.str)] = (revDup c).metas := by rw [hmet]; rfl
  rw [h2, setMetas_metas13]

theorem invol_delete {S : Schema} {inh : Option Op} {e : Option DNode} {c : DNode} (hinh : inh = none ∨ inh = some .none)
    (hex : exactE S inh e c = true) (hstd : stdN c = true) (hop : effOp c inh = some .delete) :
    ∃ c', revNode S inh (revDup c) = .ok c' ∧ revNode S inh (revDup c') = .ok (revDup c) := by
  obtain ⟨hd, hm, hk⟩ := exactE_base hex
  obtain ⟨_, _, _, hpl, _⟩ := exactE_delete hex hop
  have hown := ownOp_of_effOp hinh hop (by decide)
  have hmet : (revDup c).metas = [("operation", bs "delete")] := by simpa using stdN_delete hstd hown
  have hrev : revNode S inh (revDup c) = .ok (changeOp (revDup c) .create) := by
    rw [revNode_delete (by simpa using hk) (by rw [effOp_revDup]; exact hop), kids_revDup,
      map_removeOp_plain _ (by rw [plainL_revDupL]; exact hpl), ← kids_revDup]
    have : (revDup c).kids = (changeOp (revDup c) .create).kids := by simp
    rw [this, setKids_kids]
  refine ⟨_, hrev, ?_⟩
  rw [revDup_changeOp, revDup_idem]
  have hop2 : effOp (changeOp (revDup c) .create) inh = some .create := effOp_changeOp (metaOK_revDup hm) .create
  rw [revNode_create (by simpa using hk) hop2, kids_changeOp, kids_revDup,
    map_removeOp_plain _ (by rw [plainL_revDupL]; exact hpl), changeOp_changeOp_std hmet]
  have : (revDupL c.kids) = ((revDup c).setMetas [("operation", bs Op.delete.str)]).kids := by simp [kids_revDup]
  rw [this, setKids_kids]
  have h2 : [("operation", bs Op.delete.str)] = (revDup c).metas := by rw [hmet]; rfl
  rw [h2, setMetas_metas13]

end LyModel.Diff

namespace LyModel.Diff
open LyModel LyModel.Tree

theorem term_eq {x y : DNode} (hx : x.isTerm = true) (hy : y.isTerm = true) (h1 : x.sid = y.sid) (h2 : x.flags = y.flags)
    (h3 : x.metas = y.metas) (h4 : x.val = y.val) : x = y := by
  cases x <;> cases y <;> simp_all [DNode.isTerm, DNode.sid, DNode.flags, DNode.metas, DNode.val]

theorem flags_setDflt13 (x : DNode) (b : Bool) : (x.setDflt b).flags = { x.flags with dflt := b } := by
  simp [DNode.setDflt]

theorem getMeta_isSome_find {t : DNode} {name : String} {v : Bytes} (h : getMeta t name = some v) :
    (t.metas.find? (·.1 == name)).isSome = true := by
  rw [getMeta_def] at h
  cases hf : t.metas.find? (·.1 == name) <;> simp_all

theorem revDup_term_fix {x : DNode} (ht : x.isTerm = true) (h1 : x.flags.new = true) (h2 : x.flags.whenTrue = false) :
    revDup x = x := by
  cases x with
  | inner => simp [DNode.isTerm] at ht
  | term s f m v =>
    simp only [DNode.flags] at h1 h2
    cases f
    simp_all [revDup]

/-- `lyd_diff_reverse_default` twice -/
theorem revDefault_invol {t : DNode} (ht : t.isTerm = true) {b : Bool} (h : getMeta t "orig-default" = some (boolBytes b)) :
    ∃ t', revDefault t = .ok t' ∧ t'.isTerm = true ∧ t'.sid = t.sid ∧ t'.val = t.val ∧
      (∀ name, name ≠ "orig-default" → getMeta t' name = getMeta t name) ∧
      (t'.flags.new = t.flags.new ∧ t'.flags.whenTrue = t.flags.whenTrue) ∧ revDefault t' = .ok t := by
  unfold revDefault
  rw [h]
  simp only [boolBytes_eq_true]
  by_cases hb : (b == t.flags.dflt) = true
  · simp only [hb, ↓reduceIte]
    refine ⟨t, rfl, ht, rfl, rfl, fun _ _ => rfl, ⟨rfl, rfl⟩, ?_⟩
    · rw [h]
      simp [boolBytes_eq_true, hb]
  · simp only [hb, Bool.false_eq_true, ↓reduceIte]
    have hb' : ¬ b = t.flags.dflt := by simpa using hb
    have hsome := getMeta_isSome_find h
    refine ⟨_, rfl, by simpa using ht, by simp, by simp, ?_, ?_, ?_⟩
    · intro name hne
      simp only [getMeta_def, metas_setMetas]
      exact find?_setMetaVal_ne (Ne.symm hne) _ _
    · simp [flags_setDflt13]
    · have hg : getMeta ((t.setDflt b).setMetas (setMetaVal "orig-default" (boolBytes t.flags.dflt) t.metas)) "orig-default" =
          some (boolBytes t.flags.dflt) := by
        simp only [getMeta_def, metas_setMetas]
        exact find?_setMetaVal_self _ hsome
      rw [hg]
      simp only [boolBytes_eq_true, flags_setMetas, dflt_setDflt, metas_setMetas]
      have hne : (t.flags.dflt == b) = false := by
        cases h1 : (t.flags.dflt == b)
        · rfl
        · exact absurd (by simpa using h1 : t.flags.dflt = b).symm hb'
      simp only [hne, Bool.false_eq_true, ↓reduceIte]
      congr 1
      apply term_eq (by simpa using ht) ht (by simp)
      · simp only [flags_setMetas, flags_setDflt13]
      · rw [metas_setMetas, setMetaVal_setMetaVal]
        exact setMetaVal_same (by rw [← getMeta_def]; exact h)
      · simp

/-- `lyd_diff_reverse_value` twice -/
theorem revValue_invol {t : DNode} (ht : t.isTerm = true) {ov : Bytes} (h : getMeta t "orig-value" = some ov) (hne : ov ≠ t.val) :
    revValue t = .ok ((t.setVal ov).setMetas (setMetaVal "orig-value" t.val t.metas)) ∧
      revValue ((t.setVal ov).setMetas (setMetaVal "orig-value" t.val t.metas)) = .ok t := by
  refine ⟨revValue_spec h hne, ?_⟩
  have hsome := getMeta_isSome_find h
  have hg : getMeta ((t.setVal ov).setMetas (setMetaVal "orig-value" t.val t.metas)) "orig-value" = some t.val := by
    simp only [getMeta_def, metas_setMetas]
    exact find?_setMetaVal_self _ hsome
  have hv : ((t.setVal ov).setMetas (setMetaVal "orig-value" t.val t.metas)).val = ov := by
    rw [val_setMetas, val_setVal_term ht]
  rw [revValue_spec hg (by rw [hv]; exact Ne.symm hne)]
  congr 1
  apply term_eq (by simpa using ht) ht (by simp) (by simp)
  · rw [metas_setMetas, metas_setMetas, hv, setMetaVal_setMetaVal]
    exact setMetaVal_same (by rw [← getMeta_def]; exact h)
  · rw [val_setMetas, val_setVal_term (by simpa using ht)]

end LyModel.Diff

namespace LyModel.Diff
open LyModel LyModel.Tree

/-- value and default flag are swapped independently of each other -/
theorem rev_value_default_comm {y : DNode} (ht : y.isTerm = true) {a : Bytes} {b : Bool}
    (ha : getMeta y "orig-value" = some a) (hne : a ≠ y.val) (hb : getMeta y "orig-default" = some (boolBytes b)) :
    (revValue y).bind revDefault = (revDefault y).bind revValue := by
  have ha_some := getMeta_isSome_find ha
  rw [revValue_spec ha hne]
  simp only [Except.bind]
  have hb1 : getMeta ((y.setVal a).setMetas (setMetaVal "orig-value" y.val y.metas)) "orig-default" = some (boolBytes b) := by
    simp only [getMeta_def, metas_setMetas]
    rw [find?_setMetaVal_ne (by decide)]
    rw [← getMeta_def]
    exact hb
  unfold revDefault
  rw [hb, hb1]
  simp only [boolBytes_eq_true, flags_setMetas, flags_setVal, metas_setMetas]
  by_cases hd : (b == y.flags.dflt) = true
  · simp only [hd, ↓reduceIte]
    rw [revValue_spec ha hne]
  · simp only [hd, Bool.false_eq_true, ↓reduceIte]
    have hg : getMeta ((y.setDflt b).setMetas (setMetaVal "orig-default" (boolBytes y.flags.dflt) y.metas)) "orig-value" =
        some a := by
      simp only [getMeta_def, metas_setMetas]
      rw [find?_setMetaVal_ne (by decide), ← getMeta_def]
      exact ha
    rw [revValue_spec hg (by simpa using hne)]
    congr 1
    apply term_eq (by simpa using ht) (by simpa using ht) (by simp)
    · simp [flags_setDflt13]
    · simp only [metas_setMetas, val_setMetas, val_setDflt]
      exact setMetaVal_comm (by decide) _ _ _
    · have h1 : ((y.setDflt b).setMetas (setMetaVal "orig-default" (boolBytes y.flags.dflt) y.metas)).isTerm = true := by
        simpa using ht
      simp [val_setVal_term ht, val_setVal_term h1]

theorem invol_replace {S : Schema} {inh : Option Op} {e : Option DNode} {c : DNode} (hex : exactE S inh e c = true)
    (hop : effOp c inh = some .replace) :
    ∃ c', revNode S inh (revDup c) = .ok c' ∧ revNode S inh (revDup c') = .ok (revDup c) := by
  obtain ⟨hd, hm, hk⟩ := exactE_base hex
  obtain ⟨hct, x, rfl, hleaf, hov, hod, hne⟩ := exactE_replace hex hop
  have htt : (revDup c).isTerm = true := by simpa using hct
  have hkind : S.kind? (revDup c).sid = some .leaf := by simpa using isKind_iff.mp hleaf
  have hov' : getMeta (revDup c) "orig-value" = some x.val := by simpa [getMeta_def] using hov
  have hod' : getMeta (revDup c) "orig-default" = some (boolBytes x.flags.dflt) := by simpa [getMeta_def] using hod
  have hne' : x.val ≠ (revDup c).val := by simpa using Ne.symm hne
  obtain ⟨hV, hVback⟩ := revValue_invol htt hov' hne'
  let t1 := ((revDup c).setVal x.val).setMetas (setMetaVal "orig-value" (revDup c).val (revDup c).metas)
  have ht1 : t1.isTerm = true := by simpa [t1] using hct
  have ht1od : getMeta t1 "orig-default" = some (boolBytes x.flags.dflt) := by
    show getMeta (((revDup c).setVal x.val).setMetas _) "orig-default" = _
    simp only [getMeta_def, metas_setMetas]
    rw [find?_setMetaVal_ne (by decide), ← getMeta_def]
    exact hod'
  obtain ⟨c', hc', hc't, hc's, hc'v, hc'm, ⟨hc'n, hc'w⟩, hDback⟩ := revDefault_invol ht1 ht1od
  have hrev : revNode S inh (revDup c) = .ok c' := by
    rw [revNode_term_replace htt (by simpa using hk) (by rw [effOp_revDup]; exact hop)]
    simp only [revReplace, hkind, hV, Except.bind]
    exact hc'
  refine ⟨c', hrev, ?_⟩
  -- the second reversal
  have hnew : c'.flags.new = true := by rw [hc'n]; cases c <;> simp_all [t1, revDup, DNode.setVal, DNode.setMetas, DNode.flags, DNode.isTerm]
  have hwhen : c'.flags.whenTrue = false := by
    rw [hc'w]; cases c <;> simp_all [t1, revDup, DNode.setVal, DNode.setMetas, DNode.flags, DNode.isTerm]
  rw [revDup_term_fix hc't hnew hwhen]
  have hopc' : effOp c' inh = some .replace := by
    rw [effOp_of_getMeta (hc'm "operation" (by decide))]
    have : getMeta t1 "operation" = getMeta c "operation" := by
      show getMeta (((revDup c).setVal x.val).setMetas _) "operation" = _
      simp only [getMeta_def, metas_setMetas]
      rw [find?_setMetaVal_ne (by decide)]
      simp
    rw [effOp_of_getMeta this]
    exact hop
  have hsid : c'.sid = (revDup c).sid := by rw [hc's]; simp [t1]
  rw [revNode_term_replace hc't (by rw [hsid]; simpa using hk) hopc']
  simp only [revReplace, hsid, hkind]
  -- value and default flag commute: undo the default flag first, then the value
  have hc'ov : getMeta c' "orig-value" = some (revDup c).val := by
    rw [hc'm "orig-value" (by decide)]
    show getMeta (((revDup c).setVal x.val).setMetas _) "orig-value" = _
    simp only [getMeta_def, metas_setMetas]
    exact find?_setMetaVal_self _ (getMeta_isSome_find hov')
  have hc'val : c'.val = x.val := by
    rw [hc'v]
    show (((revDup c).setVal x.val).setMetas _).val = x.val
    rw [val_setMetas, val_setVal_term htt]
  -- orig-default of c': whatever revDefault left, it has the form boolBytes _
  have hc'od : ∃ b, getMeta c' "orig-default" = some (boolBytes b) := by
    unfold revDefault at hc'
    rw [ht1od] at hc'
    simp only [boolBytes_eq_true] at hc'
    split at hc'
    · cases hc'; exact ⟨_, ht1od⟩
    · cases hc'
      refine ⟨t1.flags.dflt, ?_⟩
      simp only [getMeta_def, metas_setMetas]
      exact find?_setMetaVal_self _ (getMeta_isSome_find ht1od)
  obtain ⟨b, hb⟩ := hc'od
  rw [rev_value_default_comm hc't hc'ov (by rw [hc'val]; exact hne'.symm) hb, hDback]
  simp only [Except.bind]
  exact hVback

end LyModel.Diff

namespace LyModel.Diff
open LyModel LyModel.Tree

theorem invol_none_term {S : Schema} {inh : Option Op} {e : Option DNode} {c : DNode} (hex : exactE S inh e c = true)
    (hop : effOp c inh = some .none) (hct : c.isTerm = true) :
    ∃ c', revNode S inh (revDup c) = .ok c' ∧ revNode S inh (revDup c') = .ok (revDup c) := by
  obtain ⟨hd, hm, hk⟩ := exactE_base hex
  obtain ⟨x, rfl, _, hod⟩ := exactE_none_term hex hop hct
  have htt : (revDup c).isTerm = true := by simpa using hct
  have hod' : getMeta (revDup c) "orig-default" = some (boolBytes x.flags.dflt) := by simpa [getMeta_def] using hod
  have hSt : S.isTerm c.sid = true := by rw [← hd.typed]; exact hct
  obtain ⟨c', hc', hc't, hc's, _, hc'm, ⟨hc'n, hc'w⟩, hDback⟩ := revDefault_invol htt hod'
  have hrev : revNode S inh (revDup c) = .ok c' := by
    rw [revNode_term_none htt (by simpa using hk) (by rw [effOp_revDup]; exact hop)]
    simp only [revNone, sid_revDup, hSt, ↓reduceIte]
    exact hc'
  refine ⟨c', hrev, ?_⟩
  have hnew : c'.flags.new = true := by rw [hc'n]; cases c <;> simp_all [revDup, DNode.flags, DNode.isTerm]
  have hwhen : c'.flags.whenTrue = false := by rw [hc'w]; cases c <;> simp_all [revDup, DNode.flags, DNode.isTerm]
  rw [revDup_term_fix hc't hnew hwhen]
  have hopc' : effOp c' inh = some .none := by
    rw [effOp_of_getMeta (hc'm "operation" (by decide)), effOp_revDup]
    exact hop
  have hsid : c'.sid = c.sid := by rw [hc's]; simp
  rw [revNode_term_none hc't (by rw [hsid]; exact hk) hopc']
  simp only [revNone, hsid, hSt, ↓reduceIte]
  exact hDback

/-- a node and its reversal reverse to each other -/
def NodeInvSpec (S : Schema) (c : DNode) : Prop :=
  ∀ (inh : Option Op) (e : Option DNode), (inh = none ∨ inh = some .none) → exactE S inh e c = true → stdN c = true →
    ∃ c', revNode S inh (revDup c) = .ok c' ∧ revNode S inh (revDup c') = .ok (revDup c)

def ListInvSpec (S : Schema) (D : List DNode) : Prop :=
  ∀ (inh : Option Op) (L : List DNode) (leading : Bool), (inh = none ∨ inh = some .none) →
    exactK S inh L leading D = true → stdL D = true →
    ∃ R, revL S inh (revDupL D) = .ok R ∧ revL S inh (revDupL R) = .ok (revDupL D)

theorem childInh_none_or {inh : Option Op} {c : DNode} (hinh : inh = none ∨ inh = some .none)
    (hop : effOp c inh = some .none) : childInhOf c inh = none ∨ childInhOf c inh = some .none := by
  unfold effOp at hop
  unfold childInhOf
  cases ho : ownOp c with
  | none => simpa [ho] using hinh
  | some o =>
    simp only [ho, Option.some.injEq] at hop
    subst hop
    exact Or.inr rfl

theorem stdN_none_inner {s : Nat} {f : Flags} {m : List Meta} {ks : List DNode} {inh : Option Op}
    (hinh : inh = none ∨ inh = some .none) (hop : effOp (.inner s f m ks) inh = some .none)
    (h : stdN (.inner s f m ks) = true) : stdL ks = true := by
  unfold effOp at hop
  cases ho : ownOp (.inner s f m ks) with
  | none => simpa [stdN, ho] using h
  | some o =>
    simp only [ho, Option.some.injEq] at hop
    subst hop
    simpa [stdN, ho] using h

theorem invol_none_inner {S : Schema} {s : Nat} {f : Flags} {m : List Meta} {ks : List DNode} (IH : ListInvSpec S ks)
    {inh : Option Op} {e : Option DNode} (hinh : inh = none ∨ inh = some .none)
    (hex : exactE S inh e (.inner s f m ks) = true) (hstd : stdN (.inner s f m ks) = true)
    (hop : effOp (.inner s f m ks) inh = some .none) :
    ∃ c', revNode S inh (revDup (.inner s f m ks)) = .ok c' ∧ revNode S inh (revDup c') = .ok (revDup (.inner s f m ks)) := by
  obtain ⟨hd, hm, hk⟩ := exactE_base hex
  obtain ⟨x, rfl, _, hexk⟩ := exactE_none_inner hex hop
  obtain ⟨R, hR, hRR⟩ := IH (childInhOf (.inner s f m ks) inh) x.kids true (childInh_none_or hinh hop) hexk
    (stdN_none_inner hinh hop hstd)
  simp only [DNode.sid] at hk
  have hci : ∀ ks', childInhOf (DNode.inner s { dflt := f.dflt, new := true } m ks') inh = childInhOf (.inner s f m ks) inh :=
    fun ks' => childInh_congr_metas (d := .inner s f m ks) (d' := .inner s { dflt := f.dflt, new := true } m ks') rfl
  have hopt : ∀ ks', effOp (DNode.inner s { dflt := f.dflt, new := true } m ks') inh = some .none := fun ks' =>
    (effOp_congr_metas (d := .inner s f m ks) (d' := .inner s { dflt := f.dflt, new := true } m ks') rfl).trans hop
  refine ⟨.inner s { dflt := f.dflt, new := true } m R, ?_, ?_⟩
  · simp only [revDup, revNode, hk, Bool.false_eq_true, ↓reduceIte, hopt, hci, hR]
  · simp only [revDup, revNode, hk, Bool.false_eq_true, ↓reduceIte, hopt, hci, hRR]

theorem listInv_cons {S : Schema} {c : DNode} {cs : List DNode} (hc : NodeInvSpec S c) (hcs : ListInvSpec S cs) :
    ListInvSpec S (c :: cs) := by
  intro inh L leading hinh hex hstd
  simp only [stdL, Bool.and_eq_true] at hstd
  by_cases hlk : (leading && S.isKey c.sid) = true
  · simp only [Bool.and_eq_true] at hlk
    obtain ⟨rfl, hk⟩ := hlk
    have hex' : exactK S inh L true cs = true := by
      unfold exactK at hex
      simpa [hk] using hex
    obtain ⟨R, hR, hRR⟩ := hcs inh L true hinh hex' hstd.2
    have hkr : S.isKey (revDup c).sid = true := by simpa using hk
    refine ⟨revDup c :: R, revL_cons (revNode_key hkr) hR, ?_⟩
    simp only [revDupL, revDup_idem]
    exact revL_cons (revNode_key hkr) hRR
  · have hex' := hex
    unfold exactK at hex'
    simp only [hlk, Bool.false_eq_true, ↓reduceIte, Bool.and_eq_true] at hex'
    obtain ⟨⟨⟨hE, _⟩, _⟩, hrest⟩ := hex'
    obtain ⟨c', h1, h2⟩ := hc inh (look S L c) hinh hE hstd.1
    obtain ⟨R, hR, hRR⟩ := hcs inh L false hinh hrest hstd.2
    refine ⟨c' :: R, revL_cons h1 hR, ?_⟩
    simp only [revDupL]
    exact revL_cons h2 hRR

mutual
theorem nodeInv {S : Schema} : ∀ c : DNode, NodeInvSpec S c
  | .inner s f m ks => by
    intro inh e hinh hex hstd
    cases hop : effOp (.inner s f m ks) inh with
    | none =>
      simp only [exactE, hop, Bool.and_eq_true] at hex
      cases e <;> simp at hex
    | some o =>
      cases o with
      | create => exact invol_create hinh hex hstd hop
      | delete => exact invol_delete hinh hex hstd hop
      | replace =>
        simp only [exactE, hop, Bool.and_eq_true] at hex
        cases e <;> simp at hex
      | none => exact invol_none_inner (listInv ks) hinh hex hstd hop
  | .term s f m v => by
    intro inh e hinh hex hstd
    cases hop : effOp (.term s f m v) inh with
    | none =>
      simp only [exactE, hop, Bool.and_eq_true] at hex
      cases e <;> simp at hex
    | some o =>
      cases o with
      | create => exact invol_create hinh hex hstd hop
      | delete => exact invol_delete hinh hex hstd hop
      | replace => exact invol_replace hex hop
      | none => exact invol_none_term hex hop rfl
theorem listInv {S : Schema} : ∀ D : List DNode, ListInvSpec S D
  | [] => by
    intro inh L leading _ _ _
    exact ⟨[], rfl, rfl⟩
  | c :: cs => listInv_cons (nodeInv c) (listInv cs)
end

/-- `lyd_diff_reverse_all` twice gives the (duplicated) diff back -/
theorem reverse_reverse {S : Schema} {A D : List DNode} (hD : exactDiff S A D = true) (hstd : stdL D = true) :
    ∃ R, reverse S D = .ok R ∧ reverse S R = .ok (revDupL D) := by
  obtain ⟨R, h1, h2⟩ := listInv D none A false (Or.inl rfl) hD hstd
  have hD' : uoFreeL S D = true := noUO_of_exactDiff hD
  have hR' : uoFreeL S R = true := noUO_revL S none _ R h1 (by rw [noUO_revDupL]; exact hD')
  exact ⟨R, reverse_of_noUO hD' h1, reverse_of_noUO hR' h2⟩

end LyModel.Diff
