import LyModel.Diff.K13Defs
import LyModel.Diff.LemmasRevSwitch
/-!
# `LemmasRevSwitch` for the fragment predicates relative to `P` (`K13.exactK`): an exact diff has no user-ordered node
-/
namespace LyModel.Diff.K13
open LyModel LyModel.Tree LyModel.Diff

variable {P : DNode → Bool}

mutual
theorem noUO_of_goodN (S : Schema) : ∀ x, goodN S P x = true → uoFreeN S x = true
  | .inner s f m ks, h => by
    simp only [goodN, domB, Diff.domB, Bool.and_eq_true, DNode.sid] at h
    simp only [uoFreeN, Bool.or_eq_true, Bool.and_eq_true]
    exact Or.inr ⟨h.1.1.1.1.1, noUO_of_goodL S ks h.1.2⟩
  | .term s f m v, h => by
    simp only [goodN, domB, Diff.domB, Bool.and_eq_true, DNode.sid] at h
    simp only [uoFreeN, Bool.or_eq_true]
    exact Or.inr h.1.1.1
theorem noUO_of_goodL (S : Schema) : ∀ l, goodL S P l = true → uoFreeL S l = true
  | [], _ => rfl
  | x :: xs, h => by
    simp only [goodL, Bool.and_eq_true] at h
    simp [uoFreeL, noUO_of_goodN S x h.1.1, noUO_of_goodL S xs h.2]
end

theorem noUO_of_goodT (S : Schema) (l : List DNode) (h : goodT S P l = true) : uoFreeL S l = true := by
  simp only [goodT, Bool.and_eq_true] at h
  exact noUO_of_goodL S l h.1

mutual
theorem noUO_of_exactE (S : Schema) (inh : Option Op) (e : Option DNode) : ∀ c, exactE S P inh e c = true → uoFreeN S c = true
  | .inner s f m ks, h => by
    simp only [exactE, Bool.and_eq_true] at h
    obtain ⟨⟨⟨hd, _⟩, _⟩, hm⟩ := h
    have hs : (!S.isUserOrd s) = true := by
      simp only [domB, Diff.domB, Bool.and_eq_true, DNode.sid] at hd
      exact hd.1.1.1
    simp only [uoFreeN, Bool.or_eq_true, Bool.and_eq_true]
    refine Or.inr ⟨hs, ?_⟩
    split at hm
    · simp only [Bool.and_eq_true] at hm; exact noUO_of_goodT S ks hm.2
    · simp only [Bool.and_eq_true] at hm; exact noUO_of_goodT S ks hm.2
    · simp only [Bool.and_eq_true] at hm; exact noUO_of_exactK S _ _ true ks hm.2
    · cases hm
  | .term s f m v, h => by
    simp only [exactE, Bool.and_eq_true] at h
    obtain ⟨⟨⟨hd, _⟩, _⟩, _⟩ := h
    simp only [domB, Diff.domB, Bool.and_eq_true, DNode.sid] at hd
    simp only [uoFreeN, Bool.or_eq_true]
    exact Or.inr hd.1.1.1
theorem noUO_of_exactK (S : Schema) (inh : Option Op) (L : List DNode) : ∀ (leading : Bool) (D : List DNode),
    exactK S P inh L leading D = true → uoFreeL S D = true
  | _, [], _ => rfl
  | leading, c :: cs, h => by
    simp only [exactK] at h
    split at h
    · rename_i hk
      simp only [Bool.and_eq_true] at hk
      have hc : uoFreeN S c = true := by
        cases c with
        | inner s f m ks => simp only [DNode.sid] at hk; simp [uoFreeN, hk.2]
        | term s f m v => simp only [DNode.sid] at hk; simp [uoFreeN, hk.2]
      simp [uoFreeL, hc, noUO_of_exactK S inh L true cs h]
    · simp only [Bool.and_eq_true] at h
      simp [uoFreeL, noUO_of_exactE S inh _ c h.1.1.1, noUO_of_exactK S inh L false cs h.2]
end

theorem noUO_of_exactDiff {S : Schema} {A D : List DNode} (h : exactDiff S P A D = true) : uoFreeL S D = true :=
  noUO_of_exactK S none A false D h

end LyModel.Diff.K13
