import LyModel.Diff.K13Rev
import LyModel.Diff.K13RevSwitch
import LyModel.Diff.Lemmas13Merge
/-!
# C13 over keyed lists: the round trip at the top level, and the link from the merge cells to `applyNode`

`Lemmas13Top.reverse_roundtrip`, `Lemmas13Merge.apply_term_eff` and `Props/C13Merge.merge_cell_apply` under `KeyOrderOn S P`.
-/
set_option linter.unusedSimpArgs false
namespace LyModel.Diff.K13
open LyModel LyModel.Tree LyModel.Diff

variable {P : DNode → Bool}

/-- the reversed diff of an exact diff takes the result of the diff back (up to `normN`) -/
theorem reverse_roundtrip {S : Schema} {fx : Fixes} (K : KeyOrderOn S P) {A D : List DNode} (hA : goodT S P A = true)
    (hD : exactDiff S P A D = true) :
    ∃ B R A', apply S A D fx = .ok B ∧ goodT S P B = true ∧ reverse S D = .ok R ∧ heightL R = heightL D ∧
      apply S B R fx = .ok A' ∧ normL13 A' = normL13 A := by
  obtain ⟨R, hR, hRh, _, _, B, hB, hgB, hkB, hloc1, hback⟩ :=
    listRev K D (heightL D + 1) false none A false (Nat.le_succ _) hA hD
  have hdk : dk S false D = D := by simp [dk]
  have hdkR : dk S false R = R := by simp [dk]
  rw [hdk] at hB hloc1 hback
  rw [hdkR] at hback
  obtain ⟨A', hA', hgA', _, hloc2, hres⟩ := hback B hgB hkB (fun _ _ => rfl)
  refine ⟨B, R, A', ?_, hgB, reverse_of_noUO (noUO_of_exactDiff hD) hR, hRh, ?_, ?_⟩
  · rw [apply_eq_applyF]; exact hB
  · rw [apply_eq_applyF, hRh]; exact hA'
  · apply normL_eq_of_look K (goodT_goodL hgA') (goodT_goodL hA)
    intro q hq
    by_cases hex : ∃ c ∈ D, matchP S c q = true
    · obtain ⟨c, hc, hcq⟩ := hex
      have hcd : Dom S P c := (exactE_base (exactK_mem false D hD c (by rw [hdk]; exact hc)).1).1
      rw [← look_congr K (goodT_goodL hgA') hcd hq hcq, ← look_congr K (goodT_goodL hA) hcd hq hcq]
      exact hres c hc
    · have hall : ∀ c ∈ D, matchP S c q = false := by
        intro c hc
        cases h : matchP S c q
        · rfl
        · exact absurd ⟨c, hc, h⟩ hex
      rw [hloc2 q hq hall, hloc1 q hq hall]

/-- `termEff` is what `applyNode` does, and nothing else changes -/
theorem apply_term_eff {S : Schema} {fx : Fixes} (K : KeyOrderOn S P) {L : List DNode} {d : DNode} {n : Nat} {hp : Bool} {inh : Option Op}
    {e' : Option DNode} (hgL : goodT S P L = true) (hd : Dom S P d) (hdt : d.isTerm = true) (hdk : S.isKey d.sid = false)
    (hkb : KeysBelow S d L) (hn : 0 < n) (h : termEff S inh d (look S L d) = some e') :
    ∃ L', applyNode S fx n L hp inh d = .ok L' ∧ goodT S P L' = true ∧ keysOf S L' = keysOf S L ∧ Local S P d L L' ∧
      look S L' d = e' := by
  obtain ⟨k, rfl⟩ : ∃ k, n = k + 1 := ⟨n - 1, by omega⟩
  unfold termEff at h
  have hSt : S.isTerm d.sid = true := by rw [← hd.typed]; exact hdt
  have hgd : goodN S P d = true := goodN_iff.mpr ⟨hd, by rw [kids_term hdt]; exact goodT_nil S⟩
  cases hop : effOp d inh with
  | none => simp [hop] at h
  | some op =>
    cases hl : look S L d with
    | none =>
      cases op with
      | delete => simp [hop, hl] at h
      | replace => simp [hop, hl] at h
      | none => simp [hop, hl] at h
      | create =>
        simp only [hop, hl, Option.some.injEq] at h
        subst h
        have hmk : ∀ x, matchP S (mkCreated d) x = matchP S d x := fun x =>
          matchP_congr_norm (by simpa using hd.ndi) (normN_mkCreated d) rfl
        have hmk' : matchP S d (mkCreated d) = true := by
          rw [matchP_congr_norm hd.ndi rfl (normN_mkCreated d)]
          exact matchP_refl K hd
        obtain ⟨h1, hkk, h2, h3⟩ := fwd_insert K hgL hd hdk hkb hl (by rw [goodN_mkCreated K.pinv]; exact hgd) (by simp) hmk hmk'
        exact ⟨_, apply_create_node K (by rw [height_term hdt]; omega) hop (by rw [kids_term hdt]; rfl) hgd, h1, hkk, h2, h3⟩
    | some x =>
      have hxm := look_mem hl
      have hxd : Dom S P x := goodL_allDom K (goodT_goodL hgL) x hxm.1
      have hxt : x.isTerm = true := by rw [hxd.typed, matchP_sid hxm.2]; exact hSt
      cases op with
      | create => simp [hop, hl] at h
      | delete =>
        simp only [hop, hl, Option.some.injEq] at h
        subst h
        obtain ⟨i, hi, _, hg', hkL, hloc, hnone⟩ := fwd_erase K hgL hd hdk hl
        refine ⟨L.eraseIdx i, ?_, hg', hkL, hloc, hnone⟩
        rw [applyNode_succ_nuo hd.nuo, hop]
        simp only [hi]
      | replace =>
        simp only [hop, hl] at h
        split at h
        · exact absurd h (by simp)
        · rename_i hc
          simp only [Bool.or_eq_true, Bool.not_eq_eq_eq_not, Bool.not_true, Bool.and_eq_true, not_or] at hc
          simp only [Option.some.injEq] at h
          subst h
          have hleaf : S.isKind d.sid .leaf = true := by
            cases hk : S.isKind d.sid .leaf
            · exact absurd hk hc.1
            · rfl
          -- the check of lyd_change_term
          have hchk : (x.val == d.val && !x.flags.dflt) = false := by
            cases hh : (x.val == d.val && !x.flags.dflt)
            · rfl
            · simp only [Bool.and_eq_true, Bool.not_eq_eq_eq_not, Bool.not_true] at hh
              exact absurd hh hc.2
          have hgy : goodN S P x = true := ((goodL_iff K).mp (goodT_goodL hgL)).2 x hxm.1
          have hg1 : goodN S P ((x.setVal d.val).setFlags d.flags) = true := by
            rw [goodN_iff]
            refine ⟨⟨by simpa using hxd.nuo, by simpa using hxd.ndi, by simpa using hxd.typed, K.pinv.punsorted (by simpa using isSorted_of_leaf (by rw [matchP_sid hxm.2]; exact hleaf))⟩, ?_⟩
            simpa using goodN_kidsT hgy
          have hsame : matchP S x ((x.setVal d.val).setFlags d.flags) = true :=
            matchP_leaf (by rw [matchP_sid hxm.2]; exact hleaf) (by simp)
          obtain ⟨i, hi, hix, hg', hkk, hloc, hl'⟩ := fwd_set K hgL hd hdk hl hg1 hsame
          refine ⟨_, ?_, hg', hkk, hloc, hl'⟩
          rw [applyNode_succ_nuo hd.nuo, hop]
          simp only [hleaf, Bool.not_true, Bool.false_eq_true, ↓reduceIte, hi, hix, hchk]
      | none =>
        simp only [hop, hl, Option.some.injEq] at h
        subst h
        exact apply_none_term (k := k) (hp := hp) (inh := inh) K hgL hd hdk hl (fun _ => rfl) rfl hop hxt

/-- A cell equation `cellEff … = seqEff …` at the instance the nodes address means: applying the node the merge produced (or
nothing, when it was dropped) to a good sibling list gives the same list (up to `normN`) as applying the two nodes one after
the other. -/
theorem merge_cell_apply {S : Schema} {fx : Fixes} (K : KeyOrderOn S P) {o : MergeOpts} {L : List DNode} {t src m : DNode} {mv : Bool}
    {sop cop : Op} {n : Nat} {hp : Bool} (hn : 0 < n) (hgL : goodT S P L = true)
    (hleaf : S.isKind t.sid .leaf = true) (htt : t.isTerm = true) (hst : src.isTerm = true) (hss : src.sid = t.sid)
    (hk : S.isKey t.sid = false) (hkb : KeysBelow S t L)
    (hm : mergeCell S o sop t cop src = .ok (m, mv))
    (hmt : (isRedundant S none m).1.isTerm = true) (hms : (isRedundant S none m).1.sid = t.sid)
    (hcell : cellEff S o sop t cop src (look S L t) = seqEff S t src (look S L t))
    (hseq : (seqEff S t src (look S L t)).isSome = true) :
    ∃ L1 L2 L2', applyNode S fx n L hp none t = .ok L1 ∧ applyNode S fx n L1 hp none src = .ok L2 ∧
      (if (isRedundant S none m).2 then Except.ok L else applyNode S fx n L hp none (isRedundant S none m).1) = .ok L2' ∧
      normL13 L2' = normL13 L2 := by
  have hdom : ∀ d : DNode, d.isTerm = true → d.sid = t.sid → Dom S P d := fun d hd hs =>
    ⟨by rw [hs]; exact isUserOrd_of_leaf hleaf, by rw [hs]; exact isDupInst_of_leaf hleaf,
      by rw [hd, hs, isTerm_of_leaf hleaf], K.pinv.punsorted (by rw [hs]; exact isSorted_of_leaf hleaf)⟩
  have hmatch : ∀ d : DNode, d.sid = t.sid → ∀ x, matchP S d x = matchP S t x := fun d hs x => by
    rw [matchP_leaf_eq (by rw [hs]; exact hleaf), matchP_leaf_eq hleaf, hs]
  have htd := hdom t htt rfl
  have hsd := hdom src hst hss
  -- the two applications
  unfold seqEff at hseq hcell
  cases hT : termEff S none t (look S L t) with
  | none => simp [hT] at hseq
  | some e1 =>
    cases hS : termEff S none src e1 with
    | none => simp [hT, hS] at hseq
    | some e2 =>
      simp only [hT, hS, Option.bind_some, Option.map_some] at hcell
      obtain ⟨L1, ha1, hg1, hk1, hloc1, hl1⟩ := apply_term_eff (n := n) (hp := hp) K hgL htd htt hk hkb hn hT
      have hl1s : look S L1 src = e1 := by rw [look_congr_fun (hmatch src hss)]; exact hl1
      have hkb1 : KeysBelow S src L1 := by
        intro k hkm
        rw [hk1] at hkm
        rw [hss]
        exact hkb k hkm
      obtain ⟨L2, ha2, hg2, _, hloc2, hl2⟩ := apply_term_eff (n := n) (hp := hp) K hg1 hsd hst (by rw [hss]; exact hk) hkb1 hn
        (by rw [hl1s]; exact hS)
      have hl2t : look S L2 t = e2 := by rw [← look_congr_fun (hmatch src hss)]; exact hl2
      have hother : ∀ q, Dom S P q → matchP S t q = false → look S L2 q = look S L q := by
        intro q hq hcq
        rw [hloc2 q hq (by rw [hmatch src hss]; exact hcq), hloc1 q hq hcq]
      -- lists that agree with `L2` everywhere else and (up to normN) at the place of `t`
      have hfin : ∀ L2', goodT S P L2' = true → (∀ q, Dom S P q → matchP S t q = false → look S L2' q = look S L q) →
          (look S L2' t).map normN = e2.map normN → normL13 L2' = normL13 L2 := by
        intro L2' hg' hoth hat
        apply normL_eq_of_look K (goodT_goodL hg') (goodT_goodL hg2)
        intro q hq
        by_cases hcq : matchP S t q = true
        · rw [← look_congr K (goodT_goodL hg') htd hq hcq, ← look_congr K (goodT_goodL hg2) htd hq hcq, hat, hl2t]
        · have hcq' : matchP S t q = false := by simpa using hcq
          rw [hoth q hq hcq', hother q hq hcq']
      refine ⟨L1, L2, ?_⟩
      unfold cellEff at hcell
      rw [hm] at hcell
      simp only at hcell
      cases hred : (isRedundant S none m).2
      · -- the merged node is kept
        simp only [hred, Bool.false_eq_true, ↓reduceIte] at hcell ⊢
        cases hM : termEff S none (isRedundant S none m).1 (look S L t) with
        | none => simp [hM] at hcell
        | some e3 =>
          simp only [hM, Option.map_some, Option.some.injEq] at hcell
          have hmd := hdom _ hmt hms
          have hlm : look S L (isRedundant S none m).1 = look S L t := look_congr_fun (hmatch _ hms)
          obtain ⟨L2', ha3, hg3, _, hloc3, hl3⟩ := apply_term_eff (n := n) (hp := hp) K hgL hmd hmt (by rw [hms]; exact hk)
            (by intro k hkm; rw [hms]; exact hkb k hkm) hn (by rw [hlm]; exact hM)
          refine ⟨L2', ha1, ha2, ha3, hfin L2' hg3 ?_ ?_⟩
          · intro q hq hcq
            exact hloc3 q hq (by rw [hmatch _ hms]; exact hcq)
          · rw [← look_congr_fun (hmatch _ hms), hl3]
            exact hcell
      · -- the merged node was dropped
        simp only [hred, ↓reduceIte, Option.some.injEq] at hcell ⊢
        exact ⟨L, ha1, ha2, rfl, hfin L hgL (fun _ _ _ => rfl) hcell⟩

end LyModel.Diff.K13
