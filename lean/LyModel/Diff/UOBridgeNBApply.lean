import LyModel.Diff.UOBridgeNBThm
/-!
# Bridge (C06) — Stage 3a, part 5: `lyd_diff_insert` / the lookups of apply among `P ++ X ++ Q`

Generic in the kind of the user-ordered node (value- or key-addressed; not position-addressed): when the siblings `P` before
and `Q` behind the instance group `X` belong to earlier / later schema nodes, `insertUO` on `P ++ X ++ Q` does to `X` what it does
on `X` alone (`insertUO_mid`), and the lookups return the indices shifted by `|P|`.  Core Lean only.
-/
namespace LyModel.Diff.UOB.NB
open LyModel LyModel.Tree LyModel.Diff LyModel.Diff.UOB
set_option linter.unusedSimpArgs false
set_option linter.unusedVariables false

/-! ### list facts -/

theorem take_mid {α : Type} (P X Q : List α) (i : Nat) (h : i ≤ X.length) : (P ++ X ++ Q).take (P.length + i) = P ++ X.take i := by
  rw [List.append_assoc, List.take_append, List.take_of_length_le (by omega)]
  simp only [Nat.add_sub_cancel_left]
  rw [List.take_append]
  have : i - X.length = 0 := by omega
  simp [this]

theorem drop_mid {α : Type} (P X Q : List α) (i : Nat) (h : i ≤ X.length) : (P ++ X ++ Q).drop (P.length + i) = X.drop i ++ Q := by
  rw [List.append_assoc, List.drop_append, List.drop_of_length_le (by omega)]
  simp only [Nat.add_sub_cancel_left, List.nil_append]
  rw [List.drop_append]
  have : i - X.length = 0 := by omega
  simp [this]

theorem eraseIdx_mid {α : Type} (P X Q : List α) (i : Nat) (h : i < X.length) :
    (P ++ X ++ Q).eraseIdx (P.length + i) = P ++ X.eraseIdx i ++ Q := by
  rw [List.append_assoc, List.eraseIdx_append_of_length_le (by omega)]
  simp only [Nat.add_sub_cancel_left]
  rw [List.eraseIdx_append_of_lt_length h, List.append_assoc]

theorem getElem?_mid' {α : Type} (P X Q : List α) (i : Nat) (h : i < X.length) : (P ++ X ++ Q)[P.length + i]? = X[i]? := by
  rw [List.append_assoc, List.getElem?_append_right (by omega)]
  simp only [Nat.add_sub_cancel_left]
  rw [List.getElem?_append_left h]

theorem insertBySchema_mid (n : DNode) (Q : List DNode) (hQ : ∀ x ∈ Q, n.sid < x.sid) : ∀ (P : List DNode),
    (∀ x ∈ P, x.sid < n.sid) → insertBySchema n (P ++ Q) = P ++ n :: Q
  | [], _ => by
    cases Q with
    | nil => rfl
    | cons q qs => simp [insertBySchema, hQ q (by simp)]
  | p :: ps, h => by
    have hp : ¬ n.sid < p.sid := by have := h p (by simp); omega
    simp only [List.cons_append, insertBySchema, hp, if_false, List.cons.injEq, true_and]
    exact insertBySchema_mid n Q hQ ps (fun x hx => h x (by simp [hx]))

/-! ### searching with a predicate that tests the schema node first -/

theorem findIdxFrom_shift (q : DNode → Bool) (l : List DNode) (k : Nat) :
    findIdxFrom (fun x _ => q x) l k = (findIdxFrom (fun x _ => q x) l 0).map (· + k) := by
  rw [findIdxFrom_eq, findIdxFrom_eq]
  cases l.findIdx? q <;> simp

theorem findIdxFrom_mid' (q : DNode → Bool) (P X Q : List DNode) (hP : ∀ x ∈ P, q x = false) (hQ : ∀ x ∈ Q, q x = false) :
    findIdxFrom (fun x _ => q x) (P ++ X ++ Q) 0 = (findIdxFrom (fun x _ => q x) X 0).map (· + P.length) := by
  rw [findIdxFrom_mid _ P X Q (fun x hx _ => hP x hx) (fun x hx _ => hQ x hx), findIdxFrom_shift]

theorem findIdxFrom_lt (q : DNode → Bool) (l : List DNode) (i : Nat) (h : findIdxFrom (fun x _ => q x) l 0 = some i) :
    i < l.length := by
  rw [findIdxFrom_zero] at h
  exact (List.findIdx?_eq_some_iff_findIdx_eq.mp h).1

theorem findForApply_mid (S : Schema) (P X Q : List DNode) (d : DNode) (hP : ∀ x ∈ P, x.sid ≠ d.sid) (hQ : ∀ x ∈ Q, x.sid ≠ d.sid) :
    findForApply S (P ++ X ++ Q) d = (findForApply S X d).map (· + P.length) := by
  unfold findForApply
  split
  · exact findIdxFrom_mid' _ P X Q (fun x hx => by simp [hP x hx]) (fun x hx => by simp [hQ x hx])
  · exact findIdxFrom_mid' _ P X Q (fun x hx => by simp [hP x hx]) (fun x hx => by simp [hQ x hx])

theorem findAnchor_mid (S : Schema) (P X Q : List DNode) (sid : Nat) (a : Bytes) (hd : S.isDupInst sid = false)
    (hP : ∀ x ∈ P, x.sid ≠ sid) (hQ : ∀ x ∈ Q, x.sid ≠ sid) :
    findAnchor S (P ++ X ++ Q) sid a = (findAnchor S X sid a).map (· + P.length) := by
  unfold findAnchor
  simp only [hd, Bool.false_eq_true, if_false]
  split
  · rw [findIdxFrom_mid' _ P X Q (fun x hx => by simp [hP x hx]) (fun x hx => by simp [hQ x hx])]
    cases findIdxFrom (fun x _ => x.sid == sid && x.val == a) X 0 <;> rfl
  · cases parsePreds (a.length + 1) a with
    | none => rfl
    | some vals =>
      simp only
      rw [findIdxFrom_mid' _ P X Q (fun x hx => by simp [hP x hx]) (fun x hx => by simp [hQ x hx])]
      cases findIdxFrom (fun x _ => x.sid == sid && keyVals S x == vals) X 0 <;> rfl

theorem findAnchor_lt (S : Schema) (X : List DNode) (sid : Nat) (a : Bytes) (hd : S.isDupInst sid = false) {i : Nat}
    (h : findAnchor S X sid a = .ok i) : i < X.length := by
  unfold findAnchor at h
  simp only [hd, Bool.false_eq_true, if_false] at h
  split at h
  · cases hf : findIdxFrom (fun x _ => x.sid == sid && x.val == a) X 0 with
    | none => simp [hf] at h
    | some j =>
      simp only [hf, Except.ok.injEq] at h
      subst h
      exact findIdxFrom_lt _ X j hf
  · cases hp : parsePreds (a.length + 1) a with
    | none => simp [hp] at h
    | some vals =>
      simp only [hp] at h
      cases hf : findIdxFrom (fun x _ => x.sid == sid && keyVals S x == vals) X 0 with
      | none => simp [hf] at h
      | some j =>
        simp only [hf, Except.ok.injEq] at h
        subst h
        exact findIdxFrom_lt _ X j hf

theorem optNat_beq_shift (m : Option Nat) (j k : Nat) : (m.map (· + k) == some (j + k)) = (m == some j) := by
  cases m with
  | none => rfl
  | some i =>
    by_cases e : i = j
    · subst e; simp
    · have : ¬ i + k = j + k := by omega
      have h1 : (i + k == j + k) = false := by simpa using this
      have h2 : (i == j) = false := by simpa using e
      simp only [Option.map_some]
      show (i + k == j + k) = (i == j)
      rw [h1, h2]

/-- **`lyd_diff_insert` among neighbours.**  `X`: the instances of `n`'s schema node; `P` / `Q`: siblings of earlier / later schema
nodes.  Whatever `insertUO` makes of `X` alone, it makes of `X` inside `P ++ X ++ Q` (indices shifted by `|P|`) — provided an
anchor is only given when there are instances (otherwise the lone-list shortcut of `lyd_diff_insert` and the failing anchor
lookup differ). -/
theorem insertUO_mid (S : Schema) (hp : Bool) (P X Q : List DNode) (n : DNode) (moving : Option Nat) (anchor : Option Bytes)
    (X' : List DNode) (hd : S.isDupInst n.sid = false)
    (hX : ∀ x ∈ X, x.sid = n.sid) (hP : ∀ x ∈ P, x.sid < n.sid) (hQ : ∀ x ∈ Q, n.sid < x.sid)
    (hm : ∀ i, moving = some i → i < X.length) (hc : X ≠ [] ∨ anchor = none)
    (h : insertUO S X hp n moving anchor = .ok X') :
    insertUO S (P ++ X ++ Q) hp n (moving.map (· + P.length)) anchor = .ok (P ++ X' ++ Q) := by
  have hPne : ∀ x ∈ P, x.sid ≠ n.sid := fun x hx => Nat.ne_of_lt (hP x hx)
  have hQne : ∀ x ∈ Q, x.sid ≠ n.sid := fun x hx => Nat.ne_of_gt (hQ x hx)
  by_cases hemp : (P ++ X ++ Q) = []
  · -- no siblings at all
    have hP0 : P = [] := by cases P <;> simp_all
    have hX0 : X = [] := by cases X <;> simp_all
    have hQ0 : Q = [] := by cases Q <;> simp_all
    subst hP0 hX0 hQ0
    simpa [insertUO] using h
  have hemp' : (P ++ X ++ Q).isEmpty = false := by
    cases hl : (P ++ X ++ Q) with
    | nil => exact absurd hl hemp
    | cons _ _ => rfl
  unfold insertUO at h ⊢
  simp only [hemp', Bool.false_eq_true, if_false]
  cases anchor with
  | some a =>
    have hXne : X ≠ [] := by rcases hc with h | h; exact h; simp at h
    have hXe : X.isEmpty = false := by cases X <;> simp_all
    simp only [hXe, Bool.false_eq_true, if_false] at h
    dsimp only
    rw [findAnchor_mid S P X Q n.sid a hd hPne hQne]
    cases hfa : findAnchor S X n.sid a with
    | error e => simp [hfa, bind, Except.bind] at h
    | ok ai =>
      have hai := findAnchor_lt S X n.sid a hd hfa
      simp only [hfa, bind, Except.bind, Except.map] at h ⊢
      rw [optNat_beq_shift]
      by_cases hmv : (moving == some ai) = true
      · simp [hmv] at h
      · simp only [hmv, Bool.false_eq_true, if_false] at h ⊢
        cases moving with
        | none =>
          simp only [Option.map_none, Except.ok.injEq] at h ⊢
          subst h
          have e1 : ai + P.length + 1 = P.length + (ai + 1) := by omega
          rw [e1, take_mid P X Q (ai + 1) (by omega), drop_mid P X Q (ai + 1) (by omega)]
          simp
        | some i =>
          have hi := hm i rfl
          have hne : i ≠ ai := by intro e; apply hmv; simp [e]
          simp only [Option.map_some, Except.ok.injEq] at h ⊢
          subst h
          have e0 : i + P.length = P.length + i := by omega
          rw [e0, eraseIdx_mid P X Q i hi]
          have hlen : (X.eraseIdx i).length = X.length - 1 := List.length_eraseIdx_of_lt hi
          by_cases hlt : i < ai
          · have e1 : (if P.length + i < ai + P.length then ai + P.length - 1 else ai + P.length) + 1 = P.length + (ai - 1 + 1) := by
              rw [if_pos (by omega)]; omega
            rw [e1, take_mid P _ Q (ai - 1 + 1) (by omega), drop_mid P _ Q (ai - 1 + 1) (by omega)]
            simp [hlt]
          · have e1 : (if P.length + i < ai + P.length then ai + P.length - 1 else ai + P.length) + 1 = P.length + (ai + 1) := by
              rw [if_neg (by omega)]; omega
            rw [e1, take_mid P _ Q (ai + 1) (by omega), drop_mid P _ Q (ai + 1) (by omega)]
            simp [hlt]
  | none =>
    dsimp only
    rw [findIdxFrom_mid' (fun x => x.sid == n.sid) P X Q (fun x hx => by simp [hPne x hx]) (fun x hx => by simp [hQne x hx])]
    cases hf : findIdxFrom (fun x _ => x.sid == n.sid) X 0 with
    | none =>
      have hX0 : X = [] := by
        cases X with
        | nil => rfl
        | cons x xs => simp [findIdxFrom, hX x (by simp)] at hf
      subst hX0
      simp only [List.isEmpty_nil, if_true, Bool.false_and, Bool.and_false, Bool.false_eq_true, if_false, Option.isSome_none,
        Except.ok.injEq] at h
      subst h
      simp only [Option.map_none, List.append_nil, Except.ok.injEq]
      have hany : (P ++ Q).any (fun x => x.sid == n.sid) = false := by
        rw [List.any_eq_false]
        intro x hx
        rcases List.mem_append.mp hx with hx | hx
        · simpa using hPne x hx
        · simpa using hQne x hx
      simp [insertNode, hany, insertBySchema_mid n Q hQ P hP]
    | some fi =>
      have hfi := findIdxFrom_lt _ X fi hf
      have hXe : X.isEmpty = false := by cases X <;> simp_all
      simp only [hXe, Bool.false_eq_true, if_false, hf] at h
      simp only [Option.map_some]
      rw [optNat_beq_shift]
      by_cases hmv : (moving == some fi) = true
      · simp [hmv] at h
      · simp only [hmv, Bool.false_eq_true, if_false] at h ⊢
        cases moving with
        | none =>
          simp only [Option.map_none, Except.ok.injEq] at h ⊢
          subst h
          have e1 : fi + P.length = P.length + fi := by omega
          rw [e1, take_mid P X Q fi (by omega), drop_mid P X Q fi (by omega)]
          simp
        | some i =>
          have hi := hm i rfl
          simp only [Option.map_some, Except.ok.injEq] at h ⊢
          subst h
          have e0 : i + P.length = P.length + i := by omega
          have e1 : fi + P.length = P.length + fi := by omega
          have hlen : (X.eraseIdx i).length = X.length - 1 := List.length_eraseIdx_of_lt hi
          rw [e0, eraseIdx_mid P X Q i hi, e1, take_mid P _ Q fi (by omega), drop_mid P _ Q fi (by omega)]
          simp

end LyModel.Diff.UOB.NB
