import LyModel.Diff.ApplyDiff
import LyModel.Diff.Lemmas13Inv
/-!
# The diff of two well-formed trees is an exact diff (C13 `diff_exact`; bridge between the C06 and the C13 lemma files)

`levelD` (LemmasLevelD2) says which nodes one call of `lyd_diff_siblings_r` emits on the fragment; here every such node is
shown to satisfy `exactE` for the instance it addresses, and the level as a whole `exactK` — by induction over the height.
Core Lean only.
-/
set_option linter.unusedSimpArgs false
namespace LyModel.Diff
open LyModel LyModel.Tree

/-! ### the two instance predicates agree off duplicate-instance schema nodes -/

theorem matchP_eq_matchK (S : Schema) (d x : DNode) (hd : S.isDupInst d.sid = false) : matchP S d x = matchK S d x := by
  unfold matchP matchK isLL
  rw [instMatch_eq hd]
  cases h : (S.isKind d.sid .list || S.isKind d.sid .leaflist) <;> simp

theorem matchP_iff_kkey (S : Schema) (d x : DNode) (hd : S.isDupInst d.sid = false) :
    matchP S d x = true ↔ kkey S x = kkey S d := by
  rw [matchP_eq_matchK S d x hd]
  exact matchK_iff_kkey S d x hd

theorem find_matchP_eq_partner (S : Schema) (l : List DNode) (d : DNode) (hd : S.isDupInst d.sid = false) :
    l.find? (matchP S d) = partner S l d := by
  unfold partner
  congr 1
  funext x
  exact matchP_eq_matchK S d x hd

/-! ### well-formed (C06) trees are good (C13) trees -/

theorem klt_eq_nlt (S : Schema) (x y : DNode) : klt S x y = nlt S x y := by
  unfold klt nlt
  rfl

theorem domB_of_plain (S : Schema) (x : DNode) (hp : plainSid S x.sid = true) (hs : shapeOk S x = true) :
    domB S x = true := by
  unfold domB
  unfold shapeOk at hs
  rw [plainSid_not_userOrd S _ hp, plainSid_not_dupInst S _ hp]
  simpa using hs

theorem domB_of_wf (S : Schema) (x : DNode) (hw : wfNode S x = true) : domB S x = true :=
  domB_of_plain S x (wfNode_plain S x hw) (wfNode_shape S x hw)

theorem goodL_of_forall (S : Schema) : ∀ (l : List DNode), (∀ x ∈ l, goodN S x = true) → canonB S l = true →
    goodL S l = true
  | [], _, _ => rfl
  | x :: xs, h, hc => by
    have hc' := (canonB_cons S x xs).1 hc
    simp only [goodL, Bool.and_eq_true, List.all_eq_true]
    refine ⟨⟨h x (by simp), ?_⟩, goodL_of_forall S xs (fun y hy => h y (by simp [hy])) hc'.2⟩
    intro y hy
    rw [← klt_eq_nlt]
    exact hc'.1 y hy

theorem keysLead_of_forall (S : Schema) (l : List DNode) (h : ∀ c ∈ noKeys S l, S.isKey c.sid = false) :
    keysLead S l = true := by
  unfold keysLead
  simp only [List.all_eq_true, Bool.not_eq_true']
  exact h

theorem goodN_of_wf (S : Schema) : ∀ (n : Nat) (x : DNode), x.height ≤ n → wfNode S x = true → goodN S x = true
  | 0, x, h, _ => by have := height_pos x; omega
  | n + 1, .term s f m v, _, hw => by
    simp only [goodN]
    exact domB_of_wf S _ hw
  | n + 1, .inner s f m ks, hh, hw => by
    have hi := wfNode_inner S s f m ks hw
    simp only [goodN, Bool.and_eq_true]
    refine ⟨⟨domB_of_wf S _ hw, ?_⟩, keysLead_of_forall S ks hi.restNoKey⟩
    apply goodL_of_forall S ks _ hi.canon
    intro x hx
    apply goodN_of_wf S n x _ (wfL_mem S ks x hi.kids hx)
    have := heightL_mem ks x hx
    simp only [DNode.height] at hh
    omega

theorem goodL_of_wf (S : Schema) (l : List DNode) (hw : wfL S l = true) (hc : canonB S l = true) : goodL S l = true :=
  goodL_of_forall S l (fun x hx => goodN_of_wf S x.height x (Nat.le_refl _) (wfL_mem S l x hw hx)) hc

/-- **a well-formed forest (C06) is a good tree (C13)** -/
theorem goodT_of_wfForest (S : Schema) (A : List DNode) (h : wfForest S A = true) : goodT S A = true := by
  simp only [wfForest, Bool.and_eq_true, List.all_eq_true, Bool.not_eq_true'] at h
  simp only [goodT, Bool.and_eq_true]
  refine ⟨goodL_of_wf S A h.1.1 h.1.2, keysLead_of_forall S A ?_⟩
  intro c hc
  exact h.2 c ((noKeys_sublist S A).subset hc)

/-! ### copies made by `lyd_dup_single` -/

mutual
theorem normN_dupRec : ∀ x, normN (dupRec x) = normN x
  | .inner s f m ks => by simp only [dupRec, normN, normL_dupRecL ks]
  | .term s f m v => by simp only [dupRec, normN]
theorem normL_dupRecL : ∀ l, normL13 (dupRecL l) = normL13 l
  | [] => rfl
  | x :: xs => by simp only [dupRecL, normL13, normN_dupRec x, normL_dupRecL xs]
end

mutual
theorem plainN_dupRec : ∀ x, plainN (dupRec x) = true
  | .inner s f m ks => by simp only [dupRec, plainN, plainL_dupRecL ks, List.isEmpty_nil, Bool.and_self]
  | .term s f m v => by simp only [dupRec, plainN, List.isEmpty_nil]
theorem plainL_dupRecL : ∀ l, plainL (dupRecL l) = true
  | [] => rfl
  | x :: xs => by simp only [dupRecL, plainL, plainN_dupRec x, plainL_dupRecL xs, Bool.and_self]
end

end LyModel.Diff

namespace LyModel.Diff
open LyModel LyModel.Tree

/-! ### building `exactK` -/

theorem exactK_nil (S : Schema) (inh : Option Op) (L : List DNode) (ld : Bool) : exactK S inh L ld [] = true := by
  unfold exactK; rfl

theorem exactK_cons_false (S : Schema) (inh : Option Op) (L : List DNode) (c : DNode) (cs : List DNode) :
    exactK S inh L false (c :: cs) =
      (exactE S inh (L.find? (matchP S c)) c && (keysOf S L).all (fun k => decide (k.sid < c.sid)) &&
        cs.all (fun c' => !matchP S c c') && exactK S inh L false cs) := by
  rw [exactK]
  simp

theorem exactK_false_intro {S : Schema} {inh : Option Op} {L : List DNode} : ∀ (D : List DNode),
    (∀ c ∈ D, exactE S inh (L.find? (matchP S c)) c = true ∧ ∀ k ∈ keysOf S L, k.sid < c.sid) →
    D.Pairwise (fun c c' => matchP S c c' = false) → exactK S inh L false D = true
  | [], _, _ => exactK_nil S inh L false
  | c :: cs, h, hp => by
    have hp' := List.pairwise_cons.1 hp
    rw [exactK_cons_false]
    simp only [Bool.and_eq_true, List.all_eq_true, decide_eq_true_eq, Bool.not_eq_eq_eq_not, Bool.not_true]
    exact ⟨⟨⟨(h c (by simp)).1, (h c (by simp)).2⟩, hp'.1⟩,
      exactK_false_intro cs (fun c' hc' => h c' (by simp [hc'])) hp'.2⟩

/-- the leading key leaves of a parent copy are skipped -/
theorem exactK_true_append {S : Schema} {inh : Option Op} {L : List DNode} : ∀ (kp rest : List DNode),
    (∀ x ∈ kp, S.isKey x.sid = true) → (∀ x ∈ rest, S.isKey x.sid = false) →
    exactK S inh L true (kp ++ rest) = exactK S inh L false rest
  | [], [], _, _ => by rw [List.append_nil, exactK_nil, exactK_nil]
  | [], c :: cs, _, hr => by
    rw [List.nil_append, exactK_cons_false, exactK]
    simp [hr c (by simp)]
  | k :: kp, rest, hk, hr => by
    rw [List.cons_append, exactK]
    simp only [hk k (by simp), Bool.and_self, if_true]
    exact exactK_true_append kp rest (fun x hx => hk x (by simp [hx])) hr

end LyModel.Diff

namespace LyModel.Diff
open LyModel LyModel.Tree

/-! ### building `exactE` -/

theorem exactE_create_intro {S : Schema} {inh : Option Op} {d : DNode} (hdom : domB S d = true) (hm : metaOKB d = true)
    (hk : S.isKey d.sid = false) (hop : effOp d inh = some .create) (hpl : plainL d.kids = true)
    (hg : goodT S d.kids = true) : exactE S inh none d = true := by
  cases d with
  | inner s f m ks =>
    simp only [DNode.sid] at hk
    simp only [DNode.kids] at hpl hg
    simp only [exactE, hdom, hm, hk, hop, hpl, hg, Bool.not_false, Bool.and_self]
  | term s f m v =>
    simp only [DNode.sid] at hk
    simp only [exactE, hdom, hm, hk, hop, Bool.not_false, Bool.and_self]

theorem exactE_delete_intro {S : Schema} {inh : Option Op} {d x : DNode} (hdom : domB S d = true) (hm : metaOKB d = true)
    (hk : S.isKey d.sid = false) (hop : effOp d inh = some .delete) (heq : dataEq true x d = true)
    (hpl : plainL d.kids = true) (hg : goodT S d.kids = true) : exactE S inh (some x) d = true := by
  cases d with
  | inner s f m ks =>
    simp only [DNode.sid] at hk
    simp only [DNode.kids] at hpl hg
    simp only [exactE, hdom, hm, hk, hop, heq, hpl, hg, Bool.not_false, Bool.and_self]
  | term s f m v =>
    simp only [DNode.sid] at hk
    simp only [exactE, hdom, hm, hk, hop, heq, Bool.not_false, Bool.and_self]

theorem exactE_replace_intro {S : Schema} {inh : Option Op} {x : DNode} {s : Nat} {f : Flags} {m : List Meta} {v : Bytes}
    (hdom : domB S (.term s f m v) = true) (hm : metaOKB (.term s f m v) = true)
    (hk : S.isKey s = false) (hop : effOp (.term s f m v) inh = some .replace) (hleaf : S.isKind s .leaf = true)
    (hov : getMeta (.term s f m v) "orig-value" = some x.val)
    (hod : getMeta (.term s f m v) "orig-default" = some (boolBytes x.flags.dflt)) (hne : v ≠ x.val) :
    exactE S inh (some x) (.term s f m v) = true := by
  simp only [exactE, hdom, hm, hk, hop, hleaf, hov, hod, Bool.not_false, Bool.and_self, beq_self_eq_true, Bool.true_and,
    bne_iff_ne, ne_eq]
  exact hne

theorem exactE_none_term_intro {S : Schema} {inh : Option Op} {x : DNode} {s : Nat} {f : Flags} {m : List Meta} {v : Bytes}
    (hdom : domB S (.term s f m v) = true) (hm : metaOKB (.term s f m v) = true)
    (hk : S.isKey s = false) (hop : effOp (.term s f m v) inh = some .none) (hv : x.val = v)
    (hod : getMeta (.term s f m v) "orig-default" = some (boolBytes x.flags.dflt)) :
    exactE S inh (some x) (.term s f m v) = true := by
  simp only [exactE, hdom, hm, hk, hop, hv, hod, Bool.not_false, Bool.and_self, beq_self_eq_true]

theorem exactE_none_inner_intro {S : Schema} {inh : Option Op} {x : DNode} {s : Nat} {f : Flags} {m : List Meta}
    {ks : List DNode} (hdom : domB S (.inner s f m ks) = true) (hm : metaOKB (.inner s f m ks) = true)
    (hk : S.isKey s = false) (hop : effOp (.inner s f m ks) inh = some .none) (hne : noKeys S ks ≠ [])
    (hkids : exactK S (childInhOf (.inner s f m ks) inh) x.kids true ks = true) :
    exactE S inh (some x) (.inner s f m ks) = true := by
  have hne' : (noKeys S ks).isEmpty = false := by
    cases h : noKeys S ks with
    | nil => exact absurd h hne
    | cons _ _ => rfl
  simp only [exactE, hdom, hm, hk, hop, hne', hkids, Bool.not_false, Bool.and_self]

end LyModel.Diff

namespace LyModel.Diff
open LyModel LyModel.Tree

/-! ### one level under comparison -/

/-- `pre`: the (identical) key leaves in front of the compared children `as` / `bs` -/
structure ExCtx (S : Schema) (pre as bs : List DNode) : Prop where
  wfa : wfL S as = true
  wfb : wfL S bs = true
  ca : canonB S (pre ++ as) = true
  cb : canonB S (pre ++ bs) = true
  spre : ∀ x ∈ pre, shapeOk S x = true
  kpre : ∀ x ∈ pre, S.isKey x.sid = true
  nka : ∀ x ∈ as, S.isKey x.sid = false
  nkb : ∀ x ∈ bs, S.isKey x.sid = false

theorem canonB_append_klt (S : Schema) : ∀ (l1 l2 : List DNode), canonB S (l1 ++ l2) = true →
    ∀ x ∈ l1, ∀ y ∈ l2, klt S x y = true
  | [], _, _, x, hx, _, _ => by simp at hx
  | z :: zs, l2, h, x, hx, y, hy => by
    have h' := (canonB_cons S z (zs ++ l2)).1 h
    rcases List.mem_cons.1 hx with rfl | hx
    · exact h'.1 y (by simp [hy])
    · exact canonB_append_klt S zs l2 h'.2 x hx y hy

namespace ExCtx
variable {S : Schema} {pre as bs : List DNode}

theorem wfa' (ctx : ExCtx S pre as bs) : ∀ a ∈ as, wfNode S a = true := fun a ha => wfL_mem S as a ctx.wfa ha
theorem wfb' (ctx : ExCtx S pre as bs) : ∀ b ∈ bs, wfNode S b = true := fun b hb => wfL_mem S bs b ctx.wfb hb

theorem shape_a (ctx : ExCtx S pre as bs) : ∀ x ∈ pre ++ as, shapeOk S x = true := by
  intro x hx
  rcases List.mem_append.1 hx with hx | hx
  · exact ctx.spre x hx
  · exact wfNode_shape S x (ctx.wfa' x hx)

theorem keysOf_a (ctx : ExCtx S pre as bs) : keysOf S (pre ++ as) = pre :=
  takeWhile_append_of _ pre as ctx.kpre ctx.nka

theorem pre_lt (ctx : ExCtx S pre as bs) {k y : DNode} (hk : k ∈ pre) (hy : y ∈ as ∨ y ∈ bs) : k.sid < y.sid := by
  have hle : k.sid ≤ y.sid := by
    rcases hy with hy | hy
    · exact klt_sid_le S k y (canonB_append_klt S pre as ctx.ca k hk y hy)
    · exact klt_sid_le S k y (canonB_append_klt S pre bs ctx.cb k hk y hy)
  have hne : k.sid ≠ y.sid := by
    intro he
    have h1 := ctx.kpre k hk
    have h2 : S.isKey y.sid = false := by
      rcases hy with hy | hy
      · exact ctx.nka y hy
      · exact ctx.nkb y hy
    rw [he, h2] at h1
    exact absurd h1 (by decide)
  omega

/-- a diff node with the identity of `a` addresses `a` -/
theorem look_a (ctx : ExCtx S pre as bs) {a d : DNode} (ha : a ∈ as) (hk : kkey S d = kkey S a) :
    (pre ++ as).find? (matchP S d) = some a := by
  have hd : S.isDupInst d.sid = false := by
    rw [kkey_sid S d a hk]
    exact plainSid_not_dupInst S _ (wfNode_plain S a (ctx.wfa' a ha))
  rw [find_matchP_eq_partner S _ d hd]
  exact partner_of_key S (pre ++ as) d a hd ctx.ca ctx.shape_a (by simp [ha]) hk.symm

/-- a diff node with the identity of an unmatched `b` addresses nothing -/
theorem look_none (ctx : ExCtx S pre as bs) {b d : DNode} (hb : b ∈ bs) (hp : partner S as b = none)
    (hk : kkey S d = kkey S b) : (pre ++ as).find? (matchP S d) = none := by
  have hdb : S.isDupInst b.sid = false := plainSid_not_dupInst S _ (wfNode_plain S b (ctx.wfb' b hb))
  have hd : S.isDupInst d.sid = false := by rw [kkey_sid S d b hk]; exact hdb
  rw [List.find?_eq_none]
  intro x hx hm
  have hkx : kkey S x = kkey S b := ((matchP_iff_kkey S d x hd).1 hm).trans hk
  rcases List.mem_append.1 hx with hx | hx
  · have h1 := ctx.kpre x hx
    rw [kkey_sid S x b hkx, ctx.nkb b hb] at h1
    exact absurd h1 (by decide)
  · exact partner_none S as b hdb hp x hx hkx

end ExCtx

/-! ### the emitted nodes, one by one -/

theorem domB_congr (S : Schema) (d x : DNode) (h1 : d.sid = x.sid) (h2 : d.isTerm = x.isTerm) : domB S d = domB S x := by
  unfold domB; rw [h1, h2]

theorem metaOKB_op (n : DNode) (v : Bytes) : metaOKB (n.setMetas [("operation", v)]) = true := by
  simp [metaOKB, setMetas_metas]

theorem goodT_dupRec_kids (S : Schema) (x : DNode) (hw : wfNode S x = true) : goodT S (dupRec x).kids = true := by
  rw [dupRec_kids, goodT_congr_norm (normL_dupRecL x.kids)]
  exact goodN_kidsT (goodN_of_wf S x.height x (Nat.le_refl _) hw)

/-- created instance -/
theorem exact_cnode {S : Schema} {pre as bs : List DNode} (ctx : ExCtx S pre as bs) (inh : Option Op) (b : DNode)
    (hb : b ∈ bs) (hp : partner S as b = none) :
    exactE S inh ((pre ++ as).find? (matchP S (cnode b))) (cnode b) = true := by
  rw [ctx.look_none hb hp (cnode_kkey S b)]
  have hwb := ctx.wfb' b hb
  apply exactE_create_intro
  · rw [domB_congr S (cnode b) b (by simp [cnode, setMetas_sid, dupRec_sid]) (by simp [cnode, setMetas_isTerm, dupRec_isTerm])]
    exact domB_of_wf S b hwb
  · exact metaOKB_op _ _
  · rw [show (cnode b).sid = b.sid by simp [cnode, setMetas_sid, dupRec_sid]]
    exact ctx.nkb b hb
  · exact effOp_of_own _ _ _ (ownOp_cons _ .create [] (setMetas_metas _ _))
  · show plainL ((dupRec b).setMetas _).kids = true
    rw [setMetas_kids, dupRec_kids]
    exact plainL_dupRecL _
  · show goodT S ((dupRec b).setMetas _).kids = true
    rw [setMetas_kids]
    exact goodT_dupRec_kids S b hwb

/-- deleted instance -/
theorem exact_del {S : Schema} {pre as bs : List DNode} (ctx : ExCtx S pre as bs) (inh : Option Op) (a : DNode)
    (ha : a ∈ as) :
    exactE S inh ((pre ++ as).find? (matchP S ((dupRec a).setMetas [("operation", Op.delete.bytes)])))
      ((dupRec a).setMetas [("operation", Op.delete.bytes)]) = true := by
  rw [ctx.look_a ha (by rw [kkey_setMetas, dupRec_kkey])]
  have hwa := ctx.wfa' a ha
  apply exactE_delete_intro
  · rw [domB_congr S _ a (by simp [setMetas_sid, dupRec_sid]) (by simp [setMetas_isTerm, dupRec_isTerm])]
    exact domB_of_wf S a hwa
  · exact metaOKB_op _ _
  · rw [setMetas_sid, dupRec_sid]
    exact ctx.nka a ha
  · exact effOp_of_own _ _ _ (ownOp_cons _ .delete [] (setMetas_metas _ _))
  · rw [dataEq_iff_norm, normN_setMetas, normN_dupRec]
  · rw [setMetas_kids, dupRec_kids]
    exact plainL_dupRecL _
  · rw [setMetas_kids]
    exact goodT_dupRec_kids S a hwa

end LyModel.Diff

namespace LyModel.Diff
open LyModel LyModel.Tree

/-- what `lyd_diff_attrs` says about a matched pair of leaf / leaf-list instances, in full -/
theorem plainAttrs_term_cases (S : Schema) (s : Nat) (fa fb : Flags) (ma mb : List Meta) (va vb : Bytes) (atr : Attrs)
    (h : plainAttrs S true (some (.term s fa ma va)) (some (.term s fb mb vb)) = some atr) :
    (S.isKind s .leaf = true ∧ va ≠ vb ∧
      atr = { op := .replace, origDefault := some (boolBytes fa.dflt), origValue := some va }) ∨
    ((S.isKind s .leaf = true ∧ va = vb ∨ S.isKind s .leaflist = true) ∧
      atr = { op := .none, origDefault := some (boolBytes fa.dflt) }) := by
  unfold plainAttrs at h
  simp only [Bool.true_and, DNode.sid, DNode.flags, DNode.val] at h
  unfold Schema.isKind
  cases hkd : S.kind? s with
  | none => simp [hkd] at h
  | some k =>
    cases k <;> simp only [hkd] at h
    case leaf =>
      have hsame : sameInst S (.term s fa ma va) (.term s fb mb vb) = (va == vb) := by
        simp [sameInst, DNode.sid, DNode.val, hkd]
      rw [hsame] at h
      by_cases hv : va = vb
      · subst hv
        simp only [beq_self_eq_true, Bool.not_true, Bool.false_eq_true, if_false] at h
        by_cases hf : (fa.dflt != fb.dflt) = true
        · simp only [hf, if_true, Option.some.injEq] at h
          exact Or.inr ⟨Or.inl ⟨by simp, rfl⟩, h.symm⟩
        · simp [hf] at h
      · have hv' : (va == vb) = false := by simpa using hv
        simp only [hv', Bool.not_false, if_true, Option.some.injEq] at h
        exact Or.inl ⟨by simp, hv, h.symm⟩
    case leaflist =>
      by_cases hf : (fa.dflt != fb.dflt) = true
      · simp only [hf, if_true, Option.some.injEq] at h
        exact Or.inr ⟨Or.inr (by simp), h.symm⟩
      · simp [hf] at h
    all_goals simp at h

theorem withAttrs_replace (S : Schema) (s : Nat) (f : Flags) (v od ov : Bytes) :
    withAttrs S (.term s f [] v) { op := .replace, origDefault := some od, origValue := some ov } =
      .term s f [("operation", Op.replace.bytes), ("orig-default", od), ("orig-value", ov)] v := rfl

theorem withAttrs_none (S : Schema) (s : Nat) (f : Flags) (v od : Bytes) :
    withAttrs S (.term s f [] v) { op := .none, origDefault := some od } =
      .term s f [("operation", Op.none.bytes), ("orig-default", od)] v := rfl

/-- changed leaf / leaf-list instance -/
theorem exact_term {S : Schema} {pre as bs : List DNode} (ctx : ExCtx S pre as bs) (inh : Option Op) (a b : DNode)
    (atr : Attrs) (ha : a ∈ as) (hp : partner S bs a = some b) (hat : plainAttrs S true (some a) (some b) = some atr) :
    exactE S inh ((pre ++ as).find? (matchP S (withAttrs S (dupRec b) atr))) (withAttrs S (dupRec b) atr) = true := by
  have hwa := ctx.wfa' a ha
  have hnd := plainSid_not_dupInst S a.sid (wfNode_plain S a hwa)
  have hbm := partner_mem S bs a b hp
  have hwb := ctx.wfb' b hbm
  have hkb := partner_kkey S bs a b hnd hp
  have hsb : b.sid = a.sid := kkey_sid S b a hkb
  have hterm : S.isTerm a.sid = true := by
    rcases plainAttrs_cases S a b atr hat with ⟨h, _, _⟩ | ⟨h | h, _, _⟩
    · exact isTerm_of_kind S _ (Or.inl h)
    · exact isTerm_of_kind S _ (Or.inl h.1)
    · exact isTerm_of_kind S _ (Or.inr h)
  obtain ⟨fa, ma, va, hae⟩ := term_of_shape S a (wfNode_shape S a hwa) hterm
  obtain ⟨fb, mb, vb, hbe⟩ := term_of_shape S b (wfNode_shape S b hwb) (by rw [hsb]; exact hterm)
  rw [hsb] at hbe
  generalize a.sid = s at hae hbe hterm
  subst hae hbe
  have hdom : ∀ m, domB S (.term s fb m vb) = true := by
    intro m
    rw [domB_congr S (.term s fb m vb) (.term s fb mb vb) rfl rfl]
    exact domB_of_wf S _ hwb
  have hkey : S.isKey s = false := ctx.nka _ ha
  have hdr : dupRec (.term s fb mb vb) = .term s fb [] vb := rfl
  rw [hdr]
  rcases plainAttrs_term_cases S s fa fb ma mb va vb atr hat with ⟨hleaf, hne, rfl⟩ | ⟨hk, rfl⟩
  · rw [withAttrs_replace]
    rw [ctx.look_a ha (by
      show kkey S ((DNode.term s fb [] vb).setMetas _) = _
      rw [kkey_setMetas]; exact (dupRec_kkey S (.term s fb mb vb)).symm.trans hkb)]
    apply exactE_replace_intro (hdom _)
    · simp [metaOKB, DNode.metas]
    · exact hkey
    · exact effOp_of_own _ _ _ (ownOp_cons _ .replace _ rfl)
    · exact hleaf
    · simp [getMeta, DNode.metas, DNode.val]
    · simp [getMeta, DNode.metas, DNode.flags]
    · exact fun h => hne h.symm
  · rw [withAttrs_none]
    rw [ctx.look_a ha (by
      show kkey S ((DNode.term s fb [] vb).setMetas _) = _
      rw [kkey_setMetas]; exact (dupRec_kkey S (.term s fb mb vb)).symm.trans hkb)]
    apply exactE_none_term_intro (hdom _)
    · simp [metaOKB, DNode.metas]
    · exact hkey
    · exact effOp_of_own _ _ _ (ownOp_cons _ .none _ rfl)
    · show va = vb
      rcases hk with ⟨_, h⟩ | hll
      · exact h
      · have := congrArg Prod.snd hkb
        simpa [kkey, DNode.sid, DNode.val, hll] using this.symm
    · simp [getMeta, DNode.metas, DNode.flags]

end LyModel.Diff

namespace LyModel.Diff
open LyModel LyModel.Tree

/-! ### the induction over the height -/

/-- what has to be shown for every level of height below `fuelD` -/
def ExGoal (S : Schema) (fuelD : Nat) : Prop :=
  ∀ (top : Bool) (pre as bs : List DNode), ExCtx S pre as bs → heightL as < fuelD → heightL bs < fuelD →
    exactK S (if top then none else some Op.none) (pre ++ as) false (diffSiblings S true fuelD top as bs).out = true

/-- the children of a matched pair of inner nodes form a level -/
theorem ExCtx.kids {S : Schema} (s : Nat) (fa fb : Flags) (ma mb : List Meta) (ka kb : List DNode)
    (ha : WfInner S s fa ma ka) (hb : WfInner S s fb mb kb)
    (hk : kkey S (.inner s fa ma ka) = kkey S (.inner s fb mb kb)) :
    ExCtx S (keysOf S ka) (noKeys S ka) (noKeys S kb) where
  wfa := wfL_of_forall S _ (fun x hx => wfL_mem S ka x ha.kids ((noKeys_sublist S ka).subset hx))
  wfb := wfL_of_forall S _ (fun x hx => wfL_mem S kb x hb.kids ((noKeys_sublist S kb).subset hx))
  ca := by rw [keys_append_noKeys]; exact ha.canon
  cb := by rw [keysOf_eq_of_kkey S s fa fb ma mb ka kb ha hb hk, keys_append_noKeys]; exact hb.canon
  spre := fun x hx => wfNode_shape S x (wfL_mem S ka x ha.kids ((List.takeWhile_sublist _).subset hx))
  kpre := keysOf_all_key S ka
  nka := ha.restNoKey
  nkb := hb.restNoKey

/-- parent copy of a matched pair whose children differ -/
theorem exact_parent {S : Schema} (fuelD : Nat) (IH : ExGoal S fuelD) {pre as bs : List DNode} (ctx : ExCtx S pre as bs)
    (top : Bool) (hha : heightL as < fuelD + 1) (hhb : heightL bs < fuelD + 1)
    (a b src : DNode) (f : Flags) (m : List Meta) (ha : a ∈ as) (hp : partner S bs a = some b)
    (hne : (subOf S (diffSiblings S true fuelD false) a b).out ≠ []) (hsrc : src = a ∨ src = b)
    (htop : top = true → m = [("operation", Op.none.bytes)]) (hmm : m = [] ∨ m = [("operation", Op.none.bytes)]) :
    exactE S (if top then none else some Op.none)
      ((pre ++ as).find? (matchP S (.inner (dupShallow S src).sid f m
        ((dupShallow S src).kids ++ (subOf S (diffSiblings S true fuelD false) a b).out))))
      (.inner (dupShallow S src).sid f m
        ((dupShallow S src).kids ++ (subOf S (diffSiblings S true fuelD false) a b).out)) = true := by
  have hwa := ctx.wfa' a ha
  have hnd := plainSid_not_dupInst S a.sid (wfNode_plain S a hwa)
  have hbm := partner_mem S bs a b hp
  have hwb := ctx.wfb' b hbm
  have hkb := partner_kkey S bs a b hnd hp
  have hsb : b.sid = a.sid := kkey_sid S b a hkb
  have hrec0 := diffSiblings_nil S true fuelD false
  have hin := inner_of_sub S _ a b hwa hwb hsb hrec0 hne
  have hsubkey : ∀ x ∈ (subOf S (diffSiblings S true fuelD false) a b).out, S.isKey x.sid = false := by
    intro x hx
    obtain ⟨y, hy, he⟩ := diffSiblings_sids S true fuelD false _ _ x hx
    rw [he]
    rcases List.mem_append.1 hy with hy | hy
    · exact noKeys_notKey S a hwa y hy
    · exact noKeys_notKey S b hwb y hy
  have hsrcsid : src.sid = a.sid := by
    rcases hsrc with h | h <;> subst h
    · rfl
    · exact hsb
  have hsrcin : S.isInner src.sid = true := by rw [hsrcsid]; exact hin
  obtain ⟨hk1, hk2⟩ := parentNode_facts S src f m _ hsrcin hsubkey
  have hkd : kkey S (.inner (dupShallow S src).sid f m
      ((dupShallow S src).kids ++ (subOf S (diffSiblings S true fuelD false) a b).out)) = kkey S a := by
    rw [hk1]
    rcases hsrc with h | h <;> subst h
    · rfl
    · exact hkb
  rw [ctx.look_a ha hkd]
  have hkeys : ∀ x ∈ (dupShallow S src).kids, S.isKey x.sid = true := by
    intro x hx
    rw [dupShallow_kids] at hx
    obtain ⟨y, hy, rfl⟩ := List.mem_map.1 hx
    rw [setMetas_sid]; exact keysOf_all_key S _ y hy
  have heff := effOp_parent (.inner (dupShallow S src).sid f m
      ((dupShallow S src).kids ++ (subOf S (diffSiblings S true fuelD false) a b).out)) top m rfl htop hmm
  have hdsid : (dupShallow S src).sid = a.sid := by rw [dupShallow_sid, hsrcsid]
  apply exactE_none_inner_intro
  · apply domB_of_plain
    · show plainSid S (dupShallow S src).sid = true
      rw [hdsid]; exact wfNode_plain S a hwa
    · show (false == S.isTerm (dupShallow S src).sid) = true
      rw [hdsid, isInner_not_isTerm S a.sid hin]; rfl
  · rcases hmm with h | h <;> subst h <;> simp [metaOKB, DNode.metas]
  · rw [hdsid]; exact ctx.nka a ha
  · exact heff
  · have : noKeys S ((dupShallow S src).kids ++ (subOf S (diffSiblings S true fuelD false) a b).out) =
        (subOf S (diffSiblings S true fuelD false) a b).out := hk2
    rw [this]; exact hne
  · rw [childInh_of_none _ _ heff, exactK_true_append _ _ hkeys hsubkey]
    -- the recursion
    obtain ⟨fa, ma, ka, hae⟩ := inner_of_shape S a (wfNode_shape S a hwa) hin
    obtain ⟨fb, mb, kb, hbe⟩ := inner_of_shape S b (wfNode_shape S b hwb) (by rw [hsb]; exact hin)
    rw [hsb] at hbe
    generalize a.sid = s at hae hbe
    subst hae hbe
    have hia := wfNode_inner S s fa ma ka hwa
    have hib := wfNode_inner S s fb mb kb hwb
    have ctx' := ExCtx.kids s fa fb ma mb ka kb hia hib hkb.symm
    have h1 : heightL (noKeys S ka) < fuelD := by
      have := heightL_sublist (noKeys_sublist S ka)
      have h2 := heightL_mem as _ ha
      simp only [DNode.height] at h2
      omega
    have h2 : heightL (noKeys S kb) < fuelD := by
      have := heightL_sublist (noKeys_sublist S kb)
      have h2 := heightL_mem bs _ hbm
      simp only [DNode.height] at h2
      omega
    have := IH false (keysOf S ka) (noKeys S ka) (noKeys S kb) ctx' h1 h2
    rw [keys_append_noKeys] at this
    simpa [subOf, DNode.kids] using this

theorem exGoal_all (S : Schema) : ∀ (fuelD : Nat), ExGoal S fuelD
  | 0 => by intro top pre as bs _ h; omega
  | fuelD + 1 => by
    intro top pre as bs ctx hha hhb
    have IH := exGoal_all S fuelD
    obtain ⟨_, L⟩ := levelD S fuelD top as bs ctx.wfa ctx.wfb (canonB_append_right S pre as ctx.ca)
      (canonB_append_right S pre bs ctx.cb)
    generalize (diffSiblings S true (fuelD + 1) top as bs).out = out at L
    have hrec0 := diffSiblings_nil S true fuelD false
    have hsubkey : ∀ a ∈ as, ∀ b, partner S bs a = some b →
        ∀ x ∈ (subOf S (diffSiblings S true fuelD false) a b).out, S.isKey x.sid = false := by
      intro a ha b hp x hx
      obtain ⟨y, hy, he⟩ := diffSiblings_sids S true fuelD false _ _ x hx
      rw [he]
      rcases List.mem_append.1 hy with hy | hy
      · exact noKeys_notKey S a (ctx.wfa' a ha) y hy
      · exact noKeys_notKey S b (ctx.wfb' b (partner_mem S bs a b hp)) y hy
    -- the identity of every emitted node is the identity of a compared sibling
    have hident : ∀ d ∈ out, ∃ y, (y ∈ as ∨ y ∈ bs) ∧ kkey S d = kkey S y := by
      intro d hd
      rcases L.sound d hd with ⟨a, ha, hn⟩ | ⟨b, hb, _, rfl⟩
      · exact ⟨a, Or.inl ha, node1_kkey S top _ bs a d hn (ctx.wfa' a ha) ctx.wfb' hrec0 (hsubkey a ha)⟩
      · exact ⟨b, Or.inr hb, cnode_kkey S b⟩
    apply exactK_false_intro
    · intro d hd
      constructor
      · rcases L.sound d hd with ⟨a, ha, hn⟩ | ⟨b, hb, hp, rfl⟩
        · cases hn with
          | del hp => exact exact_del ctx _ a ha
          | term b atr hp hat => exact exact_term ctx _ a b atr ha hp hat
          | parent b src f m hp hat hne hsrc htop hm =>
            exact exact_parent fuelD IH ctx top hha hhb a b src f m ha hp hne hsrc htop hm
        · exact exact_cnode ctx _ b hb hp
      · intro k hk
        rw [ctx.keysOf_a] at hk
        obtain ⟨y, hy, hky⟩ := hident d hd
        rw [kkey_sid S d y hky]
        exact ctx.pre_lt hk hy
    · apply L.distinct.imp_of_mem
      intro x y hx _ hne
      obtain ⟨z, hz, hkz⟩ := hident x hx
      have hdx : S.isDupInst x.sid = false := by
        rw [kkey_sid S x z hkz]
        rcases hz with hz | hz
        · exact plainSid_not_dupInst S _ (wfNode_plain S z (ctx.wfa' z hz))
        · exact plainSid_not_dupInst S _ (wfNode_plain S z (ctx.wfb' z hz))
      cases hm : matchP S x y with
      | false => rfl
      | true => exact absurd ((matchP_iff_kkey S x y hdx).1 hm).symm hne

/-- **the diff of two well-formed trees is an exact diff for the first** -/
theorem exactDiff_diff (S : Schema) (A B : List DNode) (hA : wfForest S A = true) (hB : wfForest S B = true) :
    exactDiff S A (diff S true A B) = true := by
  simp only [wfForest, Bool.and_eq_true, List.all_eq_true, Bool.not_eq_true'] at hA hB
  have ctx : ExCtx S [] A B :=
    { wfa := hA.1.1, wfb := hB.1.1, ca := by simpa using hA.1.2, cb := by simpa using hB.1.2,
      spre := fun x hx => by simp at hx, kpre := fun x hx => by simp at hx, nka := hA.2, nkb := hB.2 }
  have := exGoal_all S (Nat.max (heightL A) (heightL B) + 1) true [] A B ctx
    (Nat.lt_succ_of_le (Nat.le_max_left _ _)) (Nat.lt_succ_of_le (Nat.le_max_right _ _))
  simpa [exactDiff, diff, diffFull] using this

end LyModel.Diff

namespace LyModel.Diff
open LyModel LyModel.Tree

/-! ### the computed diff is in the standard form `reverse_involutive` asks for (`stdL`) -/

theorem stdL_iff_forall : ∀ (l : List DNode), stdL l = true ↔ ∀ x ∈ l, stdN x = true
  | [] => by simp [stdL]
  | x :: xs => by simp [stdL, stdL_iff_forall xs]

theorem create_bytes_eq : Op.create.bytes = bs "create" := by decide +kernel
theorem delete_bytes_eq : Op.delete.bytes = bs "delete" := by decide +kernel

theorem stdN_create_intro (d : DNode) (h : d.metas = [("operation", Op.create.bytes)]) : stdN d = true := by
  cases d <;> simp only [DNode.metas] at h <;> subst h
  · have ho := ownOp_cons (.inner ‹_› ‹_› [("operation", Op.create.bytes)] ‹_›) .create [] rfl
    rw [create_bytes_eq] at ho
    simp [stdN, ho, create_bytes_eq]
  · have ho := ownOp_cons (.term ‹_› ‹_› [("operation", Op.create.bytes)] ‹_›) .create [] rfl
    rw [create_bytes_eq] at ho
    simp [stdN, ho, create_bytes_eq]

theorem stdN_delete_intro (d : DNode) (h : d.metas = [("operation", Op.delete.bytes)]) : stdN d = true := by
  cases d <;> simp only [DNode.metas] at h <;> subst h
  · have ho := ownOp_cons (.inner ‹_› ‹_› [("operation", Op.delete.bytes)] ‹_›) .delete [] rfl
    rw [delete_bytes_eq] at ho
    simp [stdN, ho, delete_bytes_eq]
  · have ho := ownOp_cons (.term ‹_› ‹_› [("operation", Op.delete.bytes)] ‹_›) .delete [] rfl
    rw [delete_bytes_eq] at ho
    simp [stdN, ho, delete_bytes_eq]

theorem stdN_term_nometa (d : DNode) (ht : d.isTerm = true) (h : d.metas = []) : stdN d = true := by
  have ho := ownOp_nometa d h
  cases d with
  | inner => simp [DNode.isTerm] at ht
  | term s f m v => simp [stdN, ho]

def StdGoal (S : Schema) (fuelD : Nat) : Prop :=
  ∀ (top : Bool) (as bs : List DNode), wfL S as = true → wfL S bs = true → canonB S as = true → canonB S bs = true →
    stdL (diffSiblings S true fuelD top as bs).out = true

theorem stdGoal_all (S : Schema) : ∀ (fuelD : Nat), StdGoal S fuelD
  | 0 => by intro top as bs _ _ _ _; simp [diffSiblings, stdL]
  | fuelD + 1 => by
    intro top as bs hwa hwb hca hcb
    have IH := stdGoal_all S fuelD
    obtain ⟨_, L⟩ := levelD S fuelD top as bs hwa hwb hca hcb
    generalize (diffSiblings S true (fuelD + 1) top as bs).out = out at L
    have hrec0 := diffSiblings_nil S true fuelD false
    rw [stdL_iff_forall]
    intro d hd
    rcases L.sound d hd with ⟨a, ha, hn⟩ | ⟨b, hb, hp, rfl⟩
    · have hwa1 := wfL_mem S as a hwa ha
      have hnd := plainSid_not_dupInst S a.sid (wfNode_plain S a hwa1)
      cases hn with
      | del hp => exact stdN_delete_intro _ (setMetas_metas _ _)
      | term b atr hp hat =>
        have hbm := partner_mem S bs a b hp
        have hwb1 := wfL_mem S bs b hwb hbm
        have hsb : b.sid = a.sid := kkey_sid S b a (partner_kkey S bs a b hnd hp)
        have hterm : S.isTerm a.sid = true := by
          rcases plainAttrs_cases S a b atr hat with ⟨h, _, _⟩ | ⟨h | h, _, _⟩
          · exact isTerm_of_kind S _ (Or.inl h)
          · exact isTerm_of_kind S _ (Or.inl h.1)
          · exact isTerm_of_kind S _ (Or.inr h)
        obtain ⟨fa, ma, va, hae⟩ := term_of_shape S a (wfNode_shape S a hwa1) hterm
        obtain ⟨fb, mb, vb, hbe⟩ := term_of_shape S b (wfNode_shape S b hwb1) (by rw [hsb]; exact hterm)
        rw [hsb] at hbe
        generalize a.sid = s at hae hbe
        subst hae hbe
        have hdr : dupRec (.term s fb mb vb) = .term s fb [] vb := rfl
        rw [hdr]
        rcases plainAttrs_term_cases S s fa fb ma mb va vb atr hat with ⟨_, _, rfl⟩ | ⟨_, rfl⟩
        · rw [withAttrs_replace]
          have ho := ownOp_cons (.term s fb [("operation", Op.replace.bytes), ("orig-default", boolBytes fa.dflt),
            ("orig-value", va)] vb) .replace _ rfl
          simp [stdN, ho]
        · rw [withAttrs_none]
          have ho := ownOp_cons (.term s fb [("operation", Op.none.bytes), ("orig-default", boolBytes fa.dflt)] vb)
            .none _ rfl
          simp [stdN, ho]
      | parent b src f m hp hat hne hsrc htop hm =>
        have hbm := partner_mem S bs a b hp
        have hwb1 := wfL_mem S bs b hwb hbm
        have hsb : b.sid = a.sid := kkey_sid S b a (partner_kkey S bs a b hnd hp)
        have hin := inner_of_sub S _ a b hwa1 hwb1 hsb hrec0 hne
        -- the children: key copies and the sub-diff
        have hkids : stdL ((dupShallow S src).kids ++ (subOf S (diffSiblings S true fuelD false) a b).out) = true := by
          rw [stdL_iff_forall]
          intro x hx
          rcases List.mem_append.1 hx with hx | hx
          · rw [dupShallow_kids] at hx
            obtain ⟨y, hy, rfl⟩ := List.mem_map.1 hx
            have hyt : y.isTerm = true := by
              have hsrcw : wfNode S src = true := by rcases hsrc with h | h <;> subst h <;> assumption
              have hsrci : S.isInner src.sid = true := by
                rcases hsrc with h | h <;> subst h
                · exact hin
                · rw [hsb]; exact hin
              obtain ⟨fs, ms, ks, hse⟩ := inner_of_shape S src (wfNode_shape S src hsrcw) hsrci
              rw [hse] at hsrcw hy
              exact (wfNode_inner S _ fs ms ks hsrcw).keysTerm y hy
            exact stdN_term_nometa _ (by rw [setMetas_isTerm]; exact hyt) (setMetas_metas _ _)
          · have hsub : stdL (subOf S (diffSiblings S true fuelD false) a b).out = true := by
              obtain ⟨fa, ma, ka, hae⟩ := inner_of_shape S a (wfNode_shape S a hwa1) hin
              obtain ⟨fb, mb, kb, hbe⟩ := inner_of_shape S b (wfNode_shape S b hwb1) (by rw [hsb]; exact hin)
              rw [hae] at hwa1
              rw [hbe] at hwb1
              have hia := wfNode_inner S _ fa ma ka hwa1
              have hib := wfNode_inner S _ fb mb kb hwb1
              have := IH false (noKeys S ka) (noKeys S kb)
                (wfL_of_forall S _ (fun x hx => wfL_mem S ka x hia.kids ((noKeys_sublist S ka).subset hx)))
                (wfL_of_forall S _ (fun x hx => wfL_mem S kb x hib.kids ((noKeys_sublist S kb).subset hx)))
                (canonB_sublist S (noKeys_sublist S ka) hia.canon) (canonB_sublist S (noKeys_sublist S kb) hib.canon)
              rw [hae, hbe]
              simpa [subOf, DNode.kids] using this
            exact (stdL_iff_forall _).1 hsub x hx
        rcases hm with h | h <;> subst h
        · have ho := ownOp_nometa (.inner (dupShallow S src).sid f []
            ((dupShallow S src).kids ++ (subOf S (diffSiblings S true fuelD false) a b).out)) rfl
          simp only [stdN, ho]
          exact hkids
        · have ho := ownOp_cons (.inner (dupShallow S src).sid f [("operation", Op.none.bytes)]
            ((dupShallow S src).kids ++ (subOf S (diffSiblings S true fuelD false) a b).out)) .none [] rfl
          simp only [stdN, ho]
          exact hkids
    · exact stdN_create_intro _ (setMetas_metas _ _)

/-- the diff of two well-formed trees has the metadata layout `lyd_diff_add` writes -/
theorem stdL_diff (S : Schema) (A B : List DNode) (hA : wfForest S A = true) (hB : wfForest S B = true) :
    stdL (diff S true A B) = true := by
  simp only [wfForest, Bool.and_eq_true] at hA hB
  have := stdGoal_all S (Nat.max (heightL A) (heightL B) + 1) true A B hA.1.1 hB.1.1 hA.1.2 hB.1.2
  simpa [diff, diffFull] using this

end LyModel.Diff
