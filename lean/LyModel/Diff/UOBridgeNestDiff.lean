import LyModel.Diff.UOBridgeNBDec
/-!
# Bridge (C06) — Stage 3b, part 1: the user-ordered group one level down — the diff of two containers holding `P ++ instances ++ Q`

`lyd_diff_siblings_r` on the children (any level), and the parent copy `lyd_diff_add` creates for the matched containers
(`wrapParent`): the diff of `[c {…va…}]` and `[c {…vb…}]` is `[c (operation=none) {the encodings of UOG.diffU va vb}]`.
Core Lean only.
-/
namespace LyModel.Diff.UOB.NB
open LyModel LyModel.Tree LyModel.Diff LyModel.Diff.UOB
set_option linter.unusedSimpArgs false
set_option linter.unusedVariables false
local instance (priority := high) bytesBEqN7 : BEq Bytes := instBEqOfDecidableEq

/-- one call of `lyd_diff_siblings_r` at any level (`top` or below), any positive fuel -/
theorem diffSiblings_nb {S : Schema} {s : Nat} (C : LLCtx S s) {P Q : List DNode} (N : NBCtx S s P Q) (fuel : Nat) (top : Bool)
    (va vb : List Bytes) (nda : va.Nodup) (ndb : vb.Nodup) (hne : [] ∉ vb) :
    ∃ st, diffSiblings S true (fuel + 1) top (nbForest s P Q va) (nbForest s P Q vb) = st ∧ st.ptr = 0 ∧
      OpNodes s st.out (UOG.diffU va vb) := by
  simp only [diffSiblings]
  have hrec := diffSiblings_nil_out S fuel
  have hP : ∀ a ∈ P, a ∈ P ++ Q := fun a h => by simp [h]
  have hQ : ∀ a ∈ Q, a ∈ P ++ Q := fun a h => by simp [h]
  -- first pass
  rw [zipIdx_nb, List.foldl_append, List.foldl_append, fold1_inert N va vb top _ hrec P 0 {} hP]
  obtain ⟨st1, p1, e1, u1, u1', m1, o1, out1, us1, pt1⟩ :=
    phase1_fold C N va vb nda top (diffSiblings S true fuel false) hrec va [] {} va 0 []
      (by simp) (fun y hy => Or.inl hy)
      (by simp [uoGet, uoFind, initInst_nb N va vb nda]) .nil (by intro n hn; simp at hn) rfl
  simp only [List.length_nil, Nat.add_zero] at e1
  rw [e1, fold1_inert N va vb top _ hrec Q _ st1 hQ]
  have hspec := UOG.phase1_spec vb va [] [] (by simpa using nda)
  simp only [List.nil_append] at hspec
  have hv1 : ∀ z ∈ (UOG.phase1 vb va ([], va)).2, z ∈ vb := by
    rw [hspec]; intro z hz; simpa using (List.mem_filter.mp hz).2
  -- between the passes
  have huo : ∀ hf, uoGet (resetPhase st1).uo s (nbForest s P Q va) hf =
      ⟨s, (UOG.phase1 vb va ([], va)).2.map (ctagO P.length va vb), 0⟩ := by
    intro hf
    cases va with
    | nil =>
      simp only [llForest, List.map_nil, List.zipIdx_nil, List.foldl_nil] at e1
      subst e1
      have hi : instIdxs (nbForest s P Q []) s = [] := by
        have := initInst_nb N [] vb List.nodup_nil
        simpa using this
      cases hf <;> simp [resetPhase, uoGet, uoFind, UOG.phase1, hi]
    | cons a t =>
      have := uoFind_map_pos st1.uo s _ (u1' (by simp))
      exact uoGet_of_find this _ _
  -- second pass
  rw [zipIdx_nb, List.foldl_append, List.foldl_append, fold2_inert N va vb P 0 _ hP]
  obtain ⟨st2, e2, o2, pt2⟩ := phase2_fold C N va vb nda ndb hne vb [] (resetPhase st1) (UOG.phase1 vb va ([], va)).2 0
    (UOG.phase1 vb va ([], va)).1 (by simp) hv1 huo o1
    (by intro n hn; exact ⟨(out1 n hn).1, Or.inl (out1 n hn).2⟩) pt1
  simp only [List.length_nil, Nat.add_zero] at e2
  rw [e2, fold2_inert N va vb Q _ st2 hQ]
  exact ⟨st2, rfl, pt2, o2⟩


/-! ## the enclosing container -/

/-- schema facts: `c` is a container (hence neither user-ordered nor position-addressed), and nothing among its children here
is a list key -/
structure ContCtx (S : Schema) (c : Nat) : Prop where
  kind : S.kind? c = some .container
  uo : S.isUserOrd c = false
  nd : S.isDupInst c = false

/-- the container instance -/
def cNode (c : Nat) (f : Flags) (kids : List DNode) : DNode := .inner c f [] kids

theorem dropWhile_none {α : Type} (p : α → Bool) : ∀ (l : List α), (∀ x ∈ l, p x = false) → l.dropWhile p = l ∧ l.takeWhile p = []
  | [], _ => ⟨rfl, rfl⟩
  | x :: xs, h => by simp [List.dropWhile, List.takeWhile, h x (by simp)]

theorem opNodes_flags {s : Nat} {nodes : List DNode} {ops : List (UOG.UOp Bytes)} (h : OpNodes s nodes ops) :
    ∀ n ∈ nodes, n.flags.dflt = false ∧ n.sid = s := by
  induction h with
  | nil => intro n hn; simp at hn
  | cons h1 _ ih =>
    intro n hn
    rcases List.mem_cons.mp hn with rfl | hn
    · cases h1 <;> exact ⟨rfl, rfl⟩
    · exact ih n hn

theorem findMatch_cont {S : Schema} {c : Nat} (K : ContCtx S c) (f : Flags) (x y : List DNode) (used : List Nat) :
    findMatch S [cNode c f y] (cNode c f x) true used = (some 0, used) := by
  have hkind : (S.isKind c .list || S.isKind c .leaflist) = false := by simp [Schema.isKind, K.kind]
  simp [findMatch, findIdxFrom, matchPred, hkind, cNode, DNode.sid, K.nd]

/-- first pass on the container: no operation of its own; the recursion into the children, wrapped -/
theorem phase1Step_cont {S : Schema} {c : Nat} (K : ContCtx S c) (f : Flags) (x y : List DNode) (top : Bool)
    (recur : List DNode → List DNode → St) (st : St) :
    phase1Step S true top recur [cNode c f x] [cNode c f y] st (cNode c f x, 0) =
      wrapParent S top st (cNode c f x) (cNode c f y) (recur (noKeys S x) (noKeys S y)) := by
  have hpl : plainAttrs S true (some (cNode c f x)) (some (cNode c f y)) = none := by
    simp [plainAttrs, cNode, DNode.sid, K.kind]
  have hu : S.isUserOrd (cNode c f x).sid = false := K.uo
  have hg : [cNode c f y][0]? = some (cNode c f y) := rfl
  have hfl : ((cNode c f x).flags.dflt && !true) = false := by simp
  simp only [phase1Step, hfl, Bool.false_eq_true, if_false, findMatch_cont K, hu, phase1Plain, Option.bind_some, hg, hpl]
  rfl

/-- second pass on the container: nothing -/
theorem phase2Step_cont {S : Schema} {c : Nat} (K : ContCtx S c) (f : Flags) (x y : List DNode) (st : St) :
    phase2Step S true [cNode c f x] [cNode c f y] st (cNode c f y, 0) = st := by
  have hu : S.isUserOrd (cNode c f y).sid = false := K.uo
  have hfl : ((cNode c f y).flags.dflt && !true) = false := by simp
  simp only [phase2Step, hfl, Bool.false_eq_true, if_false, findMatch_cont K, hu]

/-- **The diff of two containers that differ in the user-ordered group only**: one parent copy with `operation=none` (`lyd_diff_add`
marks the topmost created parent) holding the encodings of the core's operations; nothing if the groups are equal. -/
theorem diffFull_cont {S : Schema} {s c : Nat} (C : LLCtx S s) {P Q : List DNode} (N : NBCtx S s P Q) (K : ContCtx S c)
    (hkeys : ∀ vs, ∀ n ∈ nbForest s P Q vs, S.isKey n.sid = false) (f : Flags) (fx : Fixes)
    (va vb : List Bytes) (nda : va.Nodup) (ndb : vb.Nodup) (hne : [] ∉ vb) :
    ∃ nodes, OpNodes s nodes (UOG.diffU va vb) ∧
      diffFull S true [cNode c f (nbForest s P Q va)] [cNode c f (nbForest s P Q vb)] fx =
        (if nodes.isEmpty then [] else [.inner c { f with dflt := false } [("operation", Op.none.bytes)] nodes], 0) := by
  unfold diffFull
  have hh : ∃ F, Nat.max (heightL [cNode c f (nbForest s P Q va)]) (heightL [cNode c f (nbForest s P Q vb)]) = F + 1 := by
    have h1 : 1 ≤ heightL [cNode c f (nbForest s P Q va)] := by
      simp only [heightL, cNode, DNode.height]
      exact Nat.le_trans (Nat.le_add_left 1 _) (Nat.le_max_left _ _)
    have h2 := Nat.le_trans h1 (Nat.le_max_left (heightL [cNode c f (nbForest s P Q va)]) (heightL [cNode c f (nbForest s P Q vb)]))
    cases hm : Nat.max (heightL [cNode c f (nbForest s P Q va)]) (heightL [cNode c f (nbForest s P Q vb)]) with
    | zero =>
      have h2' : 1 ≤ Nat.max (heightL [cNode c f (nbForest s P Q va)]) (heightL [cNode c f (nbForest s P Q vb)]) := h2
      rw [hm] at h2'
      exact absurd h2' (by decide)
    | succ F => exact ⟨F, rfl⟩
  obtain ⟨F, hF⟩ := hh
  rw [hF]
  obtain ⟨sub, hsub, hptr, hops⟩ := diffSiblings_nb C N F false va vb nda ndb hne
  refine ⟨sub.out, hops, ?_⟩
  have hka := dropWhile_none (fun (n : DNode) => S.isKey n.sid) _ (hkeys va)
  have hkb := dropWhile_none (fun (n : DNode) => S.isKey n.sid) _ (hkeys vb)
  have hd : ∀ first second, diffSiblings S true (F + 1 + 1) true first second =
      second.zipIdx.foldl (phase2Step S true first second)
        (resetPhase (first.zipIdx.foldl (phase1Step S true true (diffSiblings S true (F + 1) false) first second) {})) :=
    fun _ _ => rfl
  rw [hd]
  simp only [List.zipIdx_cons, List.zipIdx_nil, List.foldl_cons, List.foldl_nil, phase1Step_cont K, noKeys, hka.1, hkb.1, hsub]
  unfold wrapParent
  by_cases hemp : sub.out.isEmpty = true
  · simp only [hemp, if_true, phase2Step_cont K]
    simp [resetPhase]
  · have hall : sub.out.all (fun n => n.flags.dflt) = false := by
      cases ho : sub.out with
      | nil => simp [ho] at hemp
      | cons n ns =>
        have := (opNodes_flags hops n (by simp [ho])).1
        simp [this]
    have hkoa : keysOf S (nbForest s P Q va) = [] := hka.2
    have hkob : keysOf S (nbForest s P Q vb) = [] := hkb.2
    have hsrc : dupShallow S (if sub.side = true then cNode c f (nbForest s P Q vb) else cNode c f (nbForest s P Q va))
        = DNode.inner c f [] [] := by
      split <;> simp [dupShallow, cNode, hkoa, hkob]
    simp only [hemp, Bool.false_eq_true, if_false, noneOnParent, Bool.true_or, if_true, hsrc, phase2Step_cont K]
    simp [DNode.sid, DNode.flags, DNode.kids, hall, St.emit, insertBySchema, resetPhase, hemp]
    intro _
    cases ho : sub.out with
    | nil => simp [ho] at hemp
    | cons n ns => exact ⟨n, by simp, (opNodes_flags hops n (by simp [ho])).1⟩

end LyModel.Diff.UOB.NB
