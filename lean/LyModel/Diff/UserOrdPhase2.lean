import LyModel.Diff.UserOrdAnchor
/-!
# The user-ordered list core of `lyd_diff_siblings_r` / `lyd_diff_apply_r` (C06) — the create/move pass and its invariant

One user-ordered (leaf-)list in isolation, instances abstracted to their identity (`Nat`: the key of a list instance, the
value of a leaf-list instance).  `diffU a b` is what the two passes of `lyd_diff_siblings_r` generate for this list — first
every `delete` (instances of `a` that are not in `b`), then for each position of `b` a `create` or a `move` anchored at the
instance placed just before it — maintaining the *virtual* first list the way `lyd_diff_userord_attrs` does
(`userord_item->inst`, `pos`).  `applyU` is `lyd_diff_apply_r` + `lyd_diff_insert` for these operations.
(Ported from the design-phase calibration proof; the full tree model is `LyModel.Diff.Model` / `.Apply`.)
Core Lean only.
-/
namespace LyModel.Diff.UO

/-- Invariant-carrying specification of phase 2.
`pre` = the prefix of the second list already in place, `rest` = what remains of the virtual first list. -/
theorem phase2_spec (a : List Nat) (ys pre rest : List Nat) (ops : List UOp)
    (ndb : (pre ++ ys).Nodup) (ndv : (pre ++ rest).Nodup)
    (h1 : ∀ x, x ∈ rest → x ∈ ys) (h2 : ∀ y, y ∈ ys → y ∈ a → y ∈ rest) (h3 : ∀ x, x ∈ rest → x ∈ a) :
    ∃ ops', phase2 a ys (ops, pre ++ rest, pre.length) = (ops ++ ops', pre ++ ys, (pre ++ ys).length) ∧
            applyU (pre ++ rest) ops' = some (pre ++ ys) := by
  induction ys generalizing pre rest ops with
  | nil =>
    have : rest = [] := by
      cases rest with
      | nil => rfl
      | cons r rs => exact absurd (h1 r (by simp)) (by simp)
    subst this
    exact ⟨[], by simp [phase2], by simp [applyU]⟩
  | cons y ys ih =>
    have ndpre : pre.Nodup := (List.nodup_append.mp ndb).1
    have ypre : y ∉ pre := by
      intro hy; exact (List.nodup_append.mp ndb).2.2 y hy y (by simp) rfl
    have yys : y ∉ ys := by
      have := (List.nodup_append.mp ndb).2.1
      exact (List.nodup_cons.mp this).1
    have ndb' : ((pre ++ [y]) ++ ys).Nodup := by simpa using ndb
    by_cases hya : y ∈ a
    · have hyr : y ∈ rest := h2 y (by simp) hya
      obtain ⟨r1, r2, hr, hyr1⟩ : ∃ r1 r2, rest = r1 ++ y :: r2 ∧ y ∉ r1 := by
        obtain ⟨s, t, hst⟩ := List.append_of_mem hyr
        -- take the first occurrence
        induction s generalizing rest with
        | nil => exact ⟨[], t, hst, by simp⟩
        | cons c cs _ =>
          -- rest = c :: cs ++ y :: t ; nodup rest gives y ∉ c :: cs
          refine ⟨c :: cs, t, hst, ?_⟩
          have ndr : rest.Nodup := (List.nodup_append.mp ndv).2.1
          rw [hst] at ndr
          intro hmem
          exact (List.nodup_append.mp ndr).2.2 y hmem y (by simp) rfl
      subst hr
      -- common facts about the new remainder r1 ++ r2
      have ndv' : ((pre ++ [y]) ++ (r1 ++ r2)).Nodup := by
        have := ndv
        simp only [List.nodup_append, List.nodup_cons, List.mem_append, List.mem_cons] at this ⊢
        grind
      have h1' : ∀ x, x ∈ r1 ++ r2 → x ∈ ys := by
        intro x hx
        have hx' : x ∈ r1 ++ y :: r2 := by
          simp only [List.mem_append, List.mem_cons] at hx ⊢; grind
        have := h1 x hx'
        have hne : x ≠ y := by
          intro e; subst e
          have := (List.nodup_append.mp ndv).2.1
          simp only [List.nodup_append, List.nodup_cons, List.mem_append] at this hx
          grind
        simpa [hne] using this
      have h2' : ∀ z, z ∈ ys → z ∈ a → z ∈ r1 ++ r2 := by
        intro z hz hza
        have := h2 z (by simp [hz]) hza
        have hne : z ≠ y := by intro e; subst e; exact yys hz
        simp only [List.mem_append, List.mem_cons] at this ⊢; grind
      have h3' : ∀ x, x ∈ r1 ++ r2 → x ∈ a := by
        intro x hx; apply h3; simp only [List.mem_append, List.mem_cons] at hx ⊢; grind
      by_cases hhead : (pre ++ (r1 ++ y :: r2))[pre.length]? = some y
      · -- already in place: r1 must be empty
        have hr1 : r1 = [] := by
          rw [getElem?_at_len] at hhead
          cases r1 with
          | nil => rfl
          | cons c cs => simp at hhead; subst hhead; exact absurd (by simp) hyr1
        subst hr1
        obtain ⟨ops', e1, e2⟩ := ih (pre ++ [y]) r2 ops ndb' (by simpa using ndv') (by simpa using h1')
          (by simpa using h2') (by simpa using h3')
        refine ⟨ops', ?_, ?_⟩
        · have hh : (pre ++ y :: r2)[pre.length]? = some y := by simp
          simp only [phase2, hya, if_true, hh, List.nil_append]
          simpa using e1
        · simpa using e2
      · -- move
        obtain ⟨ops', e1, e2⟩ := ih (pre ++ [y]) (r1 ++ r2) (ops ++ [.move y (anchorOf pre)]) ndb' ndv' h1' h2' h3'
        have her : (pre ++ (r1 ++ y :: r2)).erase y = pre ++ (r1 ++ r2) := by
          rw [← List.append_assoc, erase_split y (pre ++ r1) r2 (by simp [ypre, hyr1]), List.append_assoc]
        refine ⟨.move y (anchorOf pre) :: ops', ?_, ?_⟩
        · simp only [phase2, hya, if_true, hhead, if_false, anchor_eq, her, insertAt_left]
          simpa using e1
        · rw [applyU_cons]
          have : applyOp (some (pre ++ (r1 ++ y :: r2))) (.move y (anchorOf pre)) = some (pre ++ y :: (r1 ++ r2)) := by
            simp only [applyOp, Option.bind_some, List.mem_append, List.mem_cons, true_or, or_true, if_true, her]
            exact insertAfter_anchor pre (r1 ++ r2) y ndpre
          rw [this]
          simpa using e2
    · -- create
      have hyr : y ∉ rest := fun h => hya (h3 y h)
      have ndv' : ((pre ++ [y]) ++ rest).Nodup := by
        have := ndv
        simp only [List.nodup_append, List.nodup_cons, List.mem_append, List.mem_cons] at this ⊢
        grind
      have h1' : ∀ x, x ∈ rest → x ∈ ys := by
        intro x hx
        have := h1 x hx
        have hne : x ≠ y := by intro e; subst e; exact hyr hx
        simpa [hne] using this
      have h2' : ∀ z, z ∈ ys → z ∈ a → z ∈ rest := fun z hz hza => h2 z (by simp [hz]) hza
      obtain ⟨ops', e1, e2⟩ := ih (pre ++ [y]) rest (ops ++ [.create y (anchorOf pre)]) ndb' ndv' h1' h2' h3
      refine ⟨.create y (anchorOf pre) :: ops', ?_, ?_⟩
      · simp only [phase2, hya, if_false, anchor_eq, insertAt_left]
        simpa using e1
      · rw [applyU_cons]
        have : applyOp (some (pre ++ rest)) (.create y (anchorOf pre)) = some (pre ++ y :: rest) := by
          simp only [applyOp, Option.bind_some, List.mem_append, ypre, hyr, or_self, if_false]
          exact insertAfter_anchor pre rest y ndpre
        rw [this]
        simpa using e2

end LyModel.Diff.UO
