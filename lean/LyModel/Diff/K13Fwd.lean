import LyModel.Diff.K13Top
import LyModel.Diff.K13Lit
/-!
# C13: a forward specification of `lyd_diff_apply_all` for exact diffs (relative to `P`)

`Acts S P fx inh c e e'` — on EVERY good sibling list whose instance at the place of the diff node `c` is `e` (up to `normN`),
`lyd_diff_apply_r` succeeds, leaves a good list with the same keys, changes nothing but that instance (`Local`), and the instance
becomes `e'` (up to `normN`) — for every sufficient fuel.  `acts_list`: a sibling list of pairwise different nodes that act is
applied node by node; the result is described instance by instance, so the order of the nodes does not matter.
`nodeFwd` / `listFwd`: every exact diff node / sibling list acts, and what it makes of an instance depends on the instance up to
`normN` only (`exactE_normN`: exactness does not look at what `normN` removes).
-/
set_option linter.unusedSimpArgs false
namespace LyModel.Diff.K13
open LyModel LyModel.Tree LyModel.Diff

variable {P : DNode → Bool} {fx : Fixes}

/-! ### exactness (relative to `P`) does not look at what `normN` removes from the data tree -/

theorem goodL_mem {S : Schema} : ∀ {l : List DNode} {x : DNode}, goodL S P l = true → x ∈ l → goodN S P x = true
  | [], _, _, h => by simp at h
  | y :: ys, x, hg, h => by
    simp only [goodL, Bool.and_eq_true] at hg
    rcases List.mem_cons.1 h with rfl | h
    · exact hg.1.1
    · exact goodL_mem hg.2 h

mutual
theorem exactE_normN (S : Schema) : ∀ (d : DNode) (inh : Option Op) (e : Option DNode),
    (∀ x, e = some x → goodN S P x = true ∧ x.sid = d.sid) → exactE S P inh (e.map normN) d = exactE S P inh e d
  | .inner s f m ks, inh, e, h => by
    cases e with
    | none => rfl
    | some x =>
      obtain ⟨hgx, _⟩ := h x rfl
      have hK := exactK_normL S ks (childInhOf (.inner s f m ks) inh) x.kids true (goodN_kids hgx)
      cases hop : effOp (.inner s f m ks) inh with
      | none => simp only [Option.map_some, exactE, hop]
      | some op =>
        cases op <;> simp only [Option.map_some, exactE, hop, dataEq_normN_left, kids_normN, hK]
  | .term s f m v, inh, e, h => by
    cases e with
    | none => rfl
    | some x =>
      obtain ⟨hgx, hsx⟩ := h x rfl
      cases hdom : domB S P (.term s f m v) with
      | false => simp only [Option.map_some, exactE, hdom, Bool.false_and]
      | true =>
        have hd := domB_iff.mp hdom
        have hx := goodN_dom hgx
        have hxt : x.isTerm = true := by
          rw [hx.typed, hsx, ← hd.typed]; rfl
        cases x with
        | inner => simp [DNode.isTerm] at hxt
        | term s' f' m' v' =>
          cases hop : effOp (.term s f m v) inh with
          | none => simp only [Option.map_some, exactE, hop]
          | some op =>
            have hde := dataEq_normN_left (.term s' f' m' v') (.term s f m v)
            simp only [normN] at hde
            cases op <;> simp only [Option.map_some, exactE, hop, hde, normN, DNode.val, DNode.flags]
theorem exactK_normL (S : Schema) : ∀ (D : List DNode) (inh : Option Op) (L : List DNode) (ld : Bool),
    goodL S P L = true → exactK S P inh (normL13 L) ld D = exactK S P inh L ld D
  | [], _, _, _, _ => by simp [exactK]
  | c :: cs, inh, L, ld, hg => by
    rw [exactK, exactK]
    rw [exactK_normL S cs inh L true hg, exactK_normL S cs inh L false hg, find_normL, all_keys_normL,
      exactE_normN S c inh (L.find? (matchP S c)) (by
        intro x hx
        exact ⟨goodL_mem hg (List.mem_of_find?_eq_some hx), matchP_sid (List.find?_some hx)⟩)]
end

/-- an exact sibling list of diff nodes for `L` is exact for every good list with the same observation -/
theorem exactK_congr_norm {S : Schema} {inh : Option Op} {L L' : List DNode} {ld : Bool} {D : List DNode}
    (hg : goodL S P L = true) (hg' : goodL S P L' = true) (h : normL13 L' = normL13 L) :
    exactK S P inh L' ld D = exactK S P inh L ld D := by
  rw [← exactK_normL S D inh L' ld hg', h, exactK_normL S D inh L ld hg]

/-- lookups of lists with the same observation agree up to `normN` -/
theorem look_norm_congr {S : Schema} {L L' : List DNode} (h : normL13 L' = normL13 L) (q : DNode) :
    (look S L' q).map normN = (look S L q).map normN := by
  rw [← find_normL, ← find_normL, h]

/-! ### acting nodes -/

/-- `c` (inherited operation `inh`) takes the instance at its place from `e` to `e'` (both up to `normN`: they are normalised) on
every good sibling list, and changes nothing else -/
def Acts (S : Schema) (P : DNode → Bool) (fx : Fixes) (inh : Option Op) (c : DNode) (e e' : Option DNode) : Prop :=
  ∀ (n : Nat) (hp : Bool) (X : List DNode), c.height ≤ n → goodT S P X = true → KeysBelow S c X →
    (look S X c).map normN = e →
    ∃ X', applyNode S fx n X hp inh c = .ok X' ∧ goodT S P X' = true ∧ keysOf S X' = keysOf S X ∧ Local S P c X X' ∧
      (look S X' c).map normN = e'

/-- what is asked of the nodes of one diff level: instances of the fragment, no keys, pairwise different instances -/
structure Level (S : Schema) (P : DNode → Bool) (T : List DNode) : Prop where
  dom : ∀ c ∈ T, Dom S P c
  nokey : ∀ c ∈ T, S.isKey c.sid = false
  pw : T.Pairwise (fun a b => matchP S a b = false ∧ matchP S b a = false)

theorem Level.nil (S : Schema) : Level S P [] := ⟨by simp, by simp, List.Pairwise.nil⟩

theorem Level.tail {S : Schema} {c : DNode} {cs : List DNode} (h : Level S P (c :: cs)) : Level S P cs :=
  ⟨fun x hx => h.dom x (List.mem_cons_of_mem _ hx), fun x hx => h.nokey x (List.mem_cons_of_mem _ hx),
    (List.pairwise_cons.mp h.pw).2⟩

theorem Level.head_ne {S : Schema} {c : DNode} {cs : List DNode} (h : Level S P (c :: cs)) :
    ∀ c' ∈ cs, matchP S c c' = false := fun c' hc' => ((List.pairwise_cons.mp h.pw).1 c' hc').1

theorem Level.head_ne' {S : Schema} {c : DNode} {cs : List DNode} (h : Level S P (c :: cs)) :
    ∀ c' ∈ cs, matchP S c' c = false := fun c' hc' => ((List.pairwise_cons.mp h.pw).1 c' hc').2

theorem Level.perm {S : Schema} {T T' : List DNode} (hp : T.Perm T') (h : Level S P T) : Level S P T' :=
  ⟨fun c hc => h.dom c (hp.mem_iff.mpr hc), fun c hc => h.nokey c (hp.mem_iff.mpr hc),
    (hp.pairwise_iff (fun {_ _} h => ⟨h.2, h.1⟩)).mp h.pw⟩

theorem Level.cons {S : Schema} {c : DNode} {T : List DNode} (h : Level S P T) (hd : Dom S P c) (hk : S.isKey c.sid = false)
    (h1 : ∀ t ∈ T, matchP S c t = false) (h2 : ∀ t ∈ T, matchP S t c = false) : Level S P (c :: T) :=
  ⟨fun x hx => by rcases List.mem_cons.mp hx with rfl | hx; exact hd; exact h.dom x hx,
    fun x hx => by rcases List.mem_cons.mp hx with rfl | hx; exact hk; exact h.nokey x hx,
    List.Pairwise.cons (fun t ht => ⟨h1 t ht, h2 t ht⟩) h.pw⟩

theorem Level.sublist {S : Schema} {T T' : List DNode} (hs : T'.Sublist T) (h : Level S P T) : Level S P T' :=
  ⟨fun c hc => h.dom c (hs.subset hc), fun c hc => h.nokey c (hs.subset hc), h.pw.sublist hs⟩

/-- a level of acting nodes applied to a good list: the result instance by instance -/
theorem acts_list {S : Schema} (K : KeyOrderOn S P) {inh : Option Op} (E : DNode → Option DNode) :
    ∀ (T : List DNode), Level S P T → ∀ (n : Nat) (hp : Bool) (X : List DNode), heightL T ≤ n → goodT S P X = true →
      (∀ c ∈ T, KeysBelow S c X) → (∀ c ∈ T, Acts S P fx inh c ((look S X c).map normN) (E c)) →
      ∃ X1, applyF S fx n hp inh T X = .ok X1 ∧ goodT S P X1 = true ∧ keysOf S X1 = keysOf S X ∧
        (∀ q, Dom S P q → (∀ c ∈ T, matchP S c q = false) → look S X1 q = look S X q) ∧
        ∀ c ∈ T, (look S X1 c).map normN = E c
  | [], _, n, hp, X, _, hgX, _, _ => ⟨X, rfl, hgX, rfl, fun _ _ _ => rfl, by simp⟩
  | c :: cs, hlv, n, hp, X, hh, hgX, hkb, hact => by
    have hhc : c.height ≤ n := Nat.le_trans (Nat.le_max_left ..) hh
    have hhcs : heightL cs ≤ n := Nat.le_trans (Nat.le_max_right ..) hh
    have hcd := hlv.dom c (List.mem_cons_self ..)
    obtain ⟨X', ha, hgX', hkX', hloc, hval⟩ := hact c (List.mem_cons_self ..) n hp X hhc hgX (hkb c (List.mem_cons_self ..)) rfl
    have hsame : ∀ c' ∈ cs, look S X' c' = look S X c' := fun c' hc' =>
      hloc c' (hlv.dom c' (List.mem_cons_of_mem _ hc')) (hlv.head_ne c' hc')
    obtain ⟨X1, hX1, hgX1, hkX1, hloc1, hval1⟩ := acts_list K E cs hlv.tail n hp X' hhcs hgX'
      (fun c' hc' => by
        intro k hk
        rw [hkX'] at hk
        exact hkb c' (List.mem_cons_of_mem _ hc') k hk)
      (fun c' hc' => by rw [hsame c' hc']; exact hact c' (List.mem_cons_of_mem _ hc'))
    refine ⟨X1, ?_, hgX1, hkX1.trans hkX', ?_, ?_⟩
    · rw [applyF_cons, ha]
      exact hX1
    · intro q hq hall
      rw [hloc1 q hq (fun c' hc' => hall c' (List.mem_cons_of_mem _ hc')), hloc q hq (hall c (List.mem_cons_self ..))]
    · intro c' hc'
      rcases List.mem_cons.mp hc' with rfl | hc'
      · rw [hloc1 c' hcd (fun c'' hc'' => hlv.head_ne' c'' hc'')]
        exact hval
      · exact hval1 c' hc'

/-! ### every exact diff node acts -/

theorem look_none_of_norm {S : Schema} {X : List DNode} {c : DNode} (h : (look S X c).map normN = none) : look S X c = none := by
  cases h' : look S X c with
  | none => rfl
  | some x => simp [h'] at h

theorem look_some_of_norm {S : Schema} {X : List DNode} {c y : DNode} (h : (look S X c).map normN = some y) :
    ∃ x, look S X c = some x ∧ normN x = y := by
  cases h' : look S X c with
  | none => simp [h'] at h
  | some x => exact ⟨x, rfl, by simpa [h'] using h⟩

/-- `create` -/
theorem acts_create {S : Schema} (K : KeyOrderOn S P) {c : DNode} {inh : Option Op} (hex : exactE S P inh none c = true)
    (hop : effOp c inh = some .create) : Acts S P fx inh c none (some (normN c)) := by
  obtain ⟨hd, _, hk⟩ := exactE_base hex
  obtain ⟨_, hpl, hgk⟩ := exactE_create hex hop
  have hgc : goodN S P c = true := goodN_iff.mpr ⟨hd, hgk⟩
  intro n hp X hh hgX hkb hl
  have hl' := look_none_of_norm hl
  have hmk : ∀ x, matchP S (mkCreated c) x = matchP S c x := fun x =>
    matchP_congr_norm (by simpa using hd.ndi) (normN_mkCreated c) rfl
  have hmk' : matchP S c (mkCreated c) = true := by
    rw [matchP_congr_norm hd.ndi rfl (normN_mkCreated c)]
    exact matchP_refl K hd
  obtain ⟨h1, hkk, h2, h3⟩ := fwd_insert K hgX hd hk hkb hl' (by rw [goodN_mkCreated K.pinv]; exact hgc) (by simp) hmk hmk'
  exact ⟨_, apply_create_node K hh hop hpl hgc, h1, hkk, h2, by rw [h3]; simp [normN_mkCreated]⟩

/-- `delete` -/
theorem acts_delete {S : Schema} (K : KeyOrderOn S P) {c y : DNode} {inh : Option Op} (hd : Dom S P c)
    (hk : S.isKey c.sid = false) (hop : effOp c inh = some .delete) : Acts S P fx inh c (some y) none := by
  intro n hp X hh hgX _ hl
  obtain ⟨x, hl', _⟩ := look_some_of_norm hl
  obtain ⟨i, hi, _, hg', hkL, hloc, hnone⟩ := fwd_erase K hgX hd hk hl'
  obtain ⟨k, rfl⟩ : ∃ k, n = k + 1 := ⟨n - 1, by have := height_pos13 c; omega⟩
  refine ⟨X.eraseIdx i, ?_, hg', hkL, hloc, by rw [hnone]; rfl⟩
  rw [applyNode_succ_nuo hd.nuo, hop]
  simp only [hi]

/-- a leaf / leaf-list node whose `termEff` is defined on every version of the instance -/
theorem acts_of_termEff {S : Schema} (K : KeyOrderOn S P) {c : DNode} {inh : Option Op} {e e' : Option DNode} (hd : Dom S P c)
    (ht : c.isTerm = true) (hk : S.isKey c.sid = false)
    (h : ∀ e1 : Option DNode, e1.map normN = e → ∃ e3, termEff S inh c e1 = some e3 ∧ e3.map normN = e') :
    Acts S P fx inh c e e' := by
  intro n hp X hh hgX hkb hl
  obtain ⟨e3, h3, h4⟩ := h (look S X c) hl
  obtain ⟨X', ha, hg', hk', hloc, hl'⟩ := apply_term_eff (fx := fx) (n := n) (hp := hp) K hgX hd ht hk hkb
    (by have := height_pos13 c; omega) h3
  exact ⟨X', ha, hg', hk', hloc, by rw [hl']; exact h4⟩

theorem normN_term_val {x : DNode} {s : Nat} {f : Flags} {v : Bytes} (h : normN x = .term s f [] v) :
    x.isTerm = true ∧ x.sid = s ∧ x.val = v ∧ x.flags.dflt = f.dflt := by
  cases x with
  | inner => simp [normN] at h
  | term s' f' m' v' =>
    simp only [normN, DNode.term.injEq] at h
    obtain ⟨h1, h2, _, h4⟩ := h
    refine ⟨rfl, h1, h4, ?_⟩
    rw [← h2]
    rfl

/-- `replace` of a leaf value -/
theorem acts_replace {S : Schema} (K : KeyOrderOn S P) {c y : DNode} {inh : Option Op} (hd : Dom S P c) (ht : c.isTerm = true)
    (hk : S.isKey c.sid = false) (hop : effOp c inh = some .replace) (hleaf : S.isKind c.sid .leaf = true)
    (hyt : y.isTerm = true) (hys : y.sid = c.sid) (hv : y.val ≠ c.val) :
    Acts S P fx inh c (some y) (some (normN c)) := by
  apply acts_of_termEff K hd ht hk
  intro e1 he1
  cases e1 with
  | none => simp at he1
  | some x =>
    simp only [Option.map_some, Option.some.injEq] at he1
    have hxv : x.val = y.val := by rw [← he1]; simp
    have hxs : x.sid = y.sid := by rw [← he1]; simp
    have hxt : x.isTerm = true := by rw [← isTerm_normN, he1]; exact hyt
    have hne : (x.val == c.val) = false := by
      rw [hxv]; simpa using hv
    refine ⟨some ((x.setVal c.val).setFlags c.flags), ?_, ?_⟩
    · simp [termEff, hop, hleaf, hne]
    · cases x with
      | inner => simp [DNode.isTerm] at hxt
      | term s' f' m' v' =>
        cases c with
        | inner => simp [DNode.isTerm] at ht
        | term s f m v =>
          simp only [DNode.sid] at hxs hys
          simp [DNode.setVal, DNode.setFlags, normN, DNode.flags, DNode.val, hxs, hys]

/-- `none` on a leaf / leaf-list instance: the default flag -/
theorem acts_none_term {S : Schema} (K : KeyOrderOn S P) {c y : DNode} {inh : Option Op} (hd : Dom S P c) (ht : c.isTerm = true)
    (hk : S.isKey c.sid = false) (hop : effOp c inh = some .none) (hyt : y.isTerm = true) (hys : y.sid = c.sid)
    (hv : y.val = c.val) : Acts S P fx inh c (some y) (some (normN c)) := by
  apply acts_of_termEff K hd ht hk
  intro e1 he1
  cases e1 with
  | none => simp at he1
  | some x =>
    simp only [Option.map_some, Option.some.injEq] at he1
    have hxv : x.val = y.val := by rw [← he1]; simp
    have hxs : x.sid = y.sid := by rw [← he1]; simp
    have hxt : x.isTerm = true := by rw [← isTerm_normN, he1]; exact hyt
    refine ⟨some (x.setDflt c.flags.dflt), ?_, ?_⟩
    · simp [termEff, hop]
    · cases x with
      | inner => simp [DNode.isTerm] at hxt
      | term s' f' m' v' =>
        cases c with
        | inner => simp [DNode.isTerm] at ht
        | term s f m v =>
          simp only [DNode.sid, DNode.val] at hxs hys hxv hv
          simp [DNode.setDflt, DNode.setFlags, normN, DNode.flags, hxs, hys, hxv, hv]

/-- what a sibling list of diff children makes of a sibling list of the data tree, up to `normN`: from every good list with the
observation `L0` to a good list with the observation `L1`, keys untouched -/
def ActsL (S : Schema) (P : DNode → Bool) (fx : Fixes) (inh : Option Op) (D : List DNode) (L0 L1 : List DNode) : Prop :=
  ∀ (n : Nat) (hp : Bool) (X : List DNode), heightL D ≤ n → goodT S P X = true → normL13 X = L0 →
    ∃ X1, applyF S fx n hp inh D X = .ok X1 ∧ goodT S P X1 = true ∧ keysOf S X1 = keysOf S X ∧ normL13 X1 = L1

/-- `none` on a container / list instance: the children are applied to its children -/
theorem acts_none_inner {S : Schema} (K : KeyOrderOn S P) {s : Nat} {f : Flags} {m : List Meta} {ks : List DNode} {y : DNode}
    {V : List DNode} {inh : Option Op} (hd : Dom S P (.inner s f m ks)) (hk : S.isKey s = false)
    (hop : effOp (.inner s f m ks) inh = some .none) (hne : (noKeys S ks).isEmpty = false)
    (hkids : ActsL S P fx (childInhOf (.inner s f m ks) inh) (noKeys S ks) y.kids V) :
    Acts S P fx inh (.inner s f m ks) (some y) (some (.inner s {} [] V)) := by
  intro n hp X hh hgX _ hl
  obtain ⟨x, hl', hxy⟩ := look_some_of_norm hl
  have hxm := look_mem hl'
  have hgx : goodN S P x = true := goodL_mem (goodT_goodL hgX) hxm.1
  have hxd : Dom S P x := goodN_dom hgx
  have hxs : x.sid = s := matchP_sid hxm.2
  have hxt : x.isTerm = false := by
    have h2 := hd.typed
    simp only [DNode.isTerm, DNode.sid] at h2
    rw [hxd.typed, hxs, ← h2]
  obtain ⟨k, rfl⟩ : ∃ k, n = k + 1 := ⟨n - 1, by have := height_pos13 (DNode.inner s f m ks); omega⟩
  have hks : heightL (noKeys S ks) ≤ k := Nat.le_trans (heightL_noKeys_le S ks) (height_inner_le hh)
  have hxk : normL13 x.kids = y.kids := by rw [← hxy]; simp
  obtain ⟨K1, hK1, hgK1, hkK1, hnK1⟩ := hkids k true x.kids hks (goodN_kidsT hgx) hxk
  have hgx1 : goodN S P (x.setKids K1) = true := by
    rw [goodN_iff]
    refine ⟨⟨by simpa using hxd.nuo, by simpa using hxd.ndi, by simpa using hxd.typed, by
      rw [K.pinv.pcongr (y := x) (by simp) (val_setKids_inner hxt K1) (by simp only [kids_setKids_inner hxt, hkK1])]
      exact hxd.sat⟩, ?_⟩
    rw [kids_setKids_inner hxt K1]
    exact hgK1
  obtain ⟨i, hi, hix, hg', hkL, hloc, hl2⟩ := fwd_set K hgX hd hk hl' hgx1 (matchP_setKids K hxd hkK1 hxt)
  refine ⟨X.set i (x.setKids K1), ?_, hg', hkL, hloc, ?_⟩
  · rw [applyNode_succ_nuo hd.nuo, hop]
    simp only [hi, hix, hxt, Bool.false_eq_true, ↓reduceIte, kids_inner, hne, hK1, Except.bind]
  · rw [hl2]
    cases x with
    | term => simp [DNode.isTerm] at hxt
    | inner s' f' m' k' =>
      simp only [DNode.sid] at hxs
      simp [DNode.setKids, normN, hnK1, hxs]

/-! ### exact sibling lists -/

theorem dk_sub (S : Schema) (ld : Bool) (D : List DNode) : ∀ c ∈ dk S ld D, c ∈ D := by
  intro c hc
  cases ld
  · simpa [dk] using hc
  · exact (List.dropWhile_sublist _).subset (by simpa [dk, noKeys] using hc)

theorem heightL_dk_le (S : Schema) (ld : Bool) (D : List DNode) : heightL (dk S ld D) ≤ heightL D :=
  heightL_le_of_sublist (dk_sub S ld D)

theorem exactK_level {S : Schema} (K : KeyOrderOn S P) {inh : Option Op} {L : List DNode} : ∀ (ld : Bool) (D : List DNode),
    exactK S P inh L ld D = true → Level S P (dk S ld D)
  | ld, [], _ => by
    have : dk S ld [] = [] := by cases ld <;> simp [dk, noKeys]
    rw [this]; exact Level.nil S
  | ld, c :: cs, h => by
    have h0 := h
    unfold exactK at h
    split at h
    · rename_i hlk
      simp only [Bool.and_eq_true] at hlk
      obtain ⟨rfl, hk⟩ := hlk
      rw [dk_cons_key hk]
      exact exactK_level K true cs h
    · simp only [Bool.and_eq_true] at h
      obtain ⟨⟨⟨hE, _⟩, hdist⟩, hrest⟩ := h
      have hk : S.isKey c.sid = false := (exactE_base hE).2.2
      have hrec := exactK_level K false cs hrest
      have hdk0 : dk S false cs = cs := by simp [dk]
      rw [hdk0] at hrec
      rw [dk_cons_nokey hk]
      refine ⟨?_, ?_, ?_⟩
      · intro c' hc'
        rcases List.mem_cons.mp hc' with rfl | hc'
        · exact (exactE_base hE).1
        · exact hrec.dom c' hc'
      · intro c' hc'
        rcases List.mem_cons.mp hc' with rfl | hc'
        · exact hk
        · exact hrec.nokey c' hc'
      · refine List.Pairwise.cons ?_ hrec.pw
        intro c' hc'
        have h1 : matchP S c c' = false := by simpa using List.all_eq_true.mp hdist c' hc'
        exact ⟨h1, matchP_false_symm K (exactE_base hE).1 (hrec.dom c' hc') h1⟩

theorem keysBelow_congr {S : Schema} {c : DNode} {L X : List DNode} (h : normL13 X = normL13 L) (hk : KeysBelow S c L) :
    KeysBelow S c X := by
  intro k hkm
  have h1 : normL13 (keysOf S X) = normL13 (keysOf S L) := by rw [← keysOf_normL, ← keysOf_normL, h]
  have h2 : normN k ∈ normL13 (keysOf S X) := by rw [normL_eq_map13]; exact List.mem_map_of_mem hkm
  rw [h1, normL_eq_map13] at h2
  obtain ⟨k', hk', hkk⟩ := List.mem_map.mp h2
  have := hk k' hk'
  have hs : k'.sid = k.sid := by
    have := congrArg DNode.sid hkk
    simpa using this
  omega

/-- every exact diff node acts; what it makes of an instance depends on the instance up to `normN` only -/
def NodeFwdSpec (S : Schema) (P : DNode → Bool) (fx : Fixes) (c : DNode) : Prop :=
  ∀ (inh : Option Op) (e : Option DNode), (∀ x, e = some x → goodN S P x = true ∧ x.sid = c.sid) →
    exactE S P inh e c = true → ∃ e', Acts S P fx inh c (e.map normN) e'

/-- every exact sibling list of diff nodes acts -/
def ListFwdSpec (S : Schema) (P : DNode → Bool) (fx : Fixes) (D : List DNode) : Prop :=
  ∀ (inh : Option Op) (L : List DNode) (ld : Bool), goodT S P L = true → exactK S P inh L ld D = true →
    ∃ V, ActsL S P fx inh (dk S ld D) (normL13 L) V

/-- the nodes of an exact sibling list act on the instances of the list they are exact for -/
theorem exactK_acts {S : Schema} {inh : Option Op} {L : List DNode} {ld : Bool} {D : List DNode}
    (hnodes : ∀ c ∈ D, NodeFwdSpec S P fx c) (hgL : goodT S P L = true) (hex : exactK S P inh L ld D = true) :
    ∃ E : DNode → Option DNode, ∀ c ∈ dk S ld D, Acts S P fx inh c ((look S L c).map normN) (E c) := by
  classical
  refine ⟨fun c => if h : ∃ e', Acts S P fx inh c ((look S L c).map normN) e' then Classical.choose h else none, ?_⟩
  intro c hc
  have hE := (exactK_mem ld D hex c hc).1
  have hex' : ∃ e', Acts S P fx inh c ((look S L c).map normN) e' :=
    hnodes c (dk_sub S ld D c hc) inh (look S L c)
      (fun x hx => ⟨goodL_mem (goodT_goodL hgL) (look_mem hx).1, matchP_sid (look_mem hx).2⟩) hE
  simp only [hex', ↓reduceDIte]
  exact Classical.choose_spec hex'

/-- an exact sibling list applied to any good list with the observation of the list it is exact for: instance by instance -/
theorem exactK_apply {S : Schema} (K : KeyOrderOn S P) {inh : Option Op} {L : List DNode} {ld : Bool} {D : List DNode}
    (hgL : goodT S P L = true) (hex : exactK S P inh L ld D = true) {E : DNode → Option DNode}
    (hE : ∀ c ∈ dk S ld D, Acts S P fx inh c ((look S L c).map normN) (E c))
    {n : Nat} {hp : Bool} {X : List DNode} (hh : heightL (dk S ld D) ≤ n) (hgX : goodT S P X = true)
    (hX : normL13 X = normL13 L) :
    ∃ X1, applyF S fx n hp inh (dk S ld D) X = .ok X1 ∧ goodT S P X1 = true ∧ keysOf S X1 = keysOf S X ∧
      (∀ q, Dom S P q → (∀ c ∈ dk S ld D, matchP S c q = false) → look S X1 q = look S X q) ∧
      ∀ c ∈ dk S ld D, (look S X1 c).map normN = E c := by
  apply acts_list K E (dk S ld D) (exactK_level K ld D hex) n hp X hh hgX
  · intro c hc
    exact keysBelow_congr hX (exactK_mem ld D hex c hc).2
  · intro c hc
    rw [look_norm_congr hX c]
    exact hE c hc

/-- two results that agree instance by instance (up to `normN`) have the same observation -/
theorem normL_eq_of_level {S : Schema} (K : KeyOrderOn S P) {T : List DNode} (hT : ∀ c ∈ T, Dom S P c) {X1 X2 X X' : List DNode}
    (hg1 : goodT S P X1 = true) (hg2 : goodT S P X2 = true)
    (hl1 : ∀ q, Dom S P q → (∀ c ∈ T, matchP S c q = false) → look S X1 q = look S X q)
    (hl2 : ∀ q, Dom S P q → (∀ c ∈ T, matchP S c q = false) → look S X2 q = look S X' q)
    (hXX : normL13 X = normL13 X')
    (hv : ∀ c ∈ T, (look S X1 c).map normN = (look S X2 c).map normN) : normL13 X1 = normL13 X2 := by
  apply normL_eq_of_look K (goodT_goodL hg1) (goodT_goodL hg2)
  intro q hq
  by_cases hex : ∃ c ∈ T, matchP S c q = true
  · obtain ⟨c, hc, hcq⟩ := hex
    rw [← look_congr K (goodT_goodL hg1) (hT c hc) hq hcq, ← look_congr K (goodT_goodL hg2) (hT c hc) hq hcq]
    exact hv c hc
  · have hall : ∀ c ∈ T, matchP S c q = false := by
      intro c hc
      cases h : matchP S c q
      · rfl
      · exact absurd ⟨c, hc, h⟩ hex
    rw [hl1 q hq hall, hl2 q hq hall]
    exact look_norm_congr hXX q

theorem listFwd_of_nodes {S : Schema} (K : KeyOrderOn S P) {D : List DNode} (hnodes : ∀ c ∈ D, NodeFwdSpec S P fx c) :
    ListFwdSpec S P fx D := by
  intro inh L ld hgL hex
  obtain ⟨E, hE⟩ := exactK_acts hnodes hgL hex
  obtain ⟨L1, _, hgL1, _, hlocL, hvalL⟩ := exactK_apply (fx := fx) (hp := true) K hgL hex hE (Nat.le_refl _) hgL rfl
  refine ⟨normL13 L1, ?_⟩
  intro n hp X hh hgX hX
  obtain ⟨X1, hX1, hgX1, hkX1, hlocX, hvalX⟩ := exactK_apply (fx := fx) (hp := hp) K hgL hex hE hh hgX hX
  refine ⟨X1, hX1, hgX1, hkX1, ?_⟩
  exact normL_eq_of_level K (exactK_level K ld D hex).dom hgX1 hgL1 hlocX hlocL hX
    (fun c hc => by rw [hvalX c hc, hvalL c hc])

theorem isTerm_of_good_sid {S : Schema} {x c : DNode} (hgx : goodN S P x = true) (hs : x.sid = c.sid) (hd : Dom S P c) :
    x.isTerm = c.isTerm := by
  rw [(goodN_dom hgx).typed, hs, ← hd.typed]

mutual
/-- every exact diff node acts -/
theorem nodeFwd {S : Schema} (K : KeyOrderOn S P) : ∀ c : DNode, NodeFwdSpec S P fx c
  | .inner s f m ks => by
    intro inh e hge hex
    obtain ⟨hd, _, hk⟩ := exactE_base hex
    cases hop : effOp (.inner s f m ks) inh with
    | none =>
      simp only [exactE, hop, Bool.and_eq_true] at hex
      cases e <;> simp at hex
    | some o =>
      cases o with
      | create =>
        obtain ⟨rfl, _⟩ := exactE_create hex hop
        exact ⟨_, acts_create K hex hop⟩
      | delete =>
        obtain ⟨x, rfl, _⟩ := exactE_delete hex hop
        exact ⟨none, acts_delete K hd hk hop⟩
      | replace =>
        simp only [exactE, hop, Bool.and_eq_true] at hex
        cases e <;> simp at hex
      | none =>
        obtain ⟨x, rfl, hne, hexk⟩ := exactE_none_inner hex hop
        obtain ⟨V, hV⟩ := listFwd_of_nodes K (nodesFwd K ks) (childInhOf (.inner s f m ks) inh) x.kids true
          (goodN_kidsT (hge x rfl).1) hexk
        have hV' : ActsL S P fx (childInhOf (.inner s f m ks) inh) (noKeys S ks) (normN x).kids V := by
          simpa [dk] using hV
        exact ⟨_, acts_none_inner (y := normN x) (V := V) K hd hk hop hne hV'⟩
  | .term s f m v => by
    intro inh e hge hex
    obtain ⟨hd, _, hk⟩ := exactE_base hex
    cases hop : effOp (.term s f m v) inh with
    | none =>
      simp only [exactE, hop, Bool.and_eq_true] at hex
      cases e <;> simp at hex
    | some o =>
      cases o with
      | create =>
        obtain ⟨rfl, _⟩ := exactE_create hex hop
        exact ⟨_, acts_create K hex hop⟩
      | delete =>
        obtain ⟨x, rfl, _⟩ := exactE_delete hex hop
        exact ⟨none, acts_delete K hd hk hop⟩
      | replace =>
        obtain ⟨ht, x, rfl, hleaf, _, _, hv⟩ := exactE_replace hex hop
        obtain ⟨hgx, hxs⟩ := hge x rfl
        refine ⟨_, acts_replace (y := normN x) K hd ht hk hop hleaf ?_ (by simpa using hxs) ?_⟩
        · rw [isTerm_normN, isTerm_of_good_sid hgx hxs hd]; exact ht
        · rw [val_normN]; exact fun h => hv h.symm
      | none =>
        obtain ⟨x, rfl, hv, _⟩ := exactE_none_term hex hop rfl
        obtain ⟨hgx, hxs⟩ := hge x rfl
        refine ⟨_, acts_none_term (y := normN x) K hd rfl hk hop ?_ (by simpa using hxs) (by rw [val_normN]; exact hv)⟩
        rw [isTerm_normN, isTerm_of_good_sid hgx hxs hd]; rfl
theorem nodesFwd {S : Schema} (K : KeyOrderOn S P) : ∀ (D : List DNode), ∀ c ∈ D, NodeFwdSpec S P fx c
  | [] => fun _ h => by simp at h
  | c :: cs => List.forall_mem_cons.mpr ⟨nodeFwd K c, nodesFwd K cs⟩
end

/-- every exact sibling list of diff nodes acts -/
theorem listFwd {S : Schema} (K : KeyOrderOn S P) (D : List DNode) : ListFwdSpec S P fx D :=
  listFwd_of_nodes K (nodesFwd K D)

/-- **forward specification of `lyd_diff_apply_all` on exact diffs**: for an exact diff `D` of a good tree `A` there is a tree `V`
(normalised) such that applying `D` to ANY good tree with the observation of `A` — with any sufficient fuel — succeeds and gives a
good tree with the observation `V`. -/
theorem apply_exact_obs {S : Schema} (K : KeyOrderOn S P) {A D : List DNode} (hA : goodT S P A = true)
    (hD : exactDiff S P A D = true) :
    ∃ V, ∀ X, goodT S P X = true → normL13 X = normL13 A → ∃ X1, apply S X D fx = .ok X1 ∧ goodT S P X1 = true ∧ normL13 X1 = V := by
  obtain ⟨V, hV⟩ := listFwd (fx := fx) K D none A false hA hD
  refine ⟨V, fun X hgX hX => ?_⟩
  have hdk : dk S false D = D := by simp [dk]
  rw [hdk] at hV
  obtain ⟨X1, h1, h2, _, h4⟩ := hV (heightL D + 1) false X (Nat.le_succ _) hgX hX
  exact ⟨X1, by rw [apply_eq_applyF]; exact h1, h2, h4⟩

end LyModel.Diff.K13
