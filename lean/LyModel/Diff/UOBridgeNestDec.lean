import LyModel.Diff.UOBridgeNestApply
/-!
# Bridge (C06) — Stage 3b, part 3: the decidable hypothesis `contLL` gives the hypotheses of the container theorem
-/
namespace LyModel.Diff.UOB.NB
open LyModel LyModel.Tree LyModel.Diff LyModel.Diff.UOB
set_option linter.unusedSimpArgs false
set_option linter.unusedVariables false

theorem contCtx_of_kind {S : Schema} {c : Nat} (h : S.kind? c = some .container) : ContCtx S c := by
  refine ⟨h, ?_, ?_⟩
  · unfold Schema.kind? at h
    unfold Schema.isUserOrd
    cases hg : S.get? c with
    | none => rfl
    | some n => simp only [hg, Option.map_some, Option.some.injEq] at h; simp [h]
  · unfold Schema.kind? at h
    unfold Schema.isDupInst
    cases hg : S.get? c with
    | none => rfl
    | some n => simp only [hg, Option.map_some, Option.some.injEq] at h; simp [h]

/-- what `contLL` guarantees -/
theorem contLL_spec {S : Schema} {A B : List DNode} {s : Nat} (h : contLL S A B = some s) :
    ∃ (c : Nat) (f : Flags) (P Q : List DNode) (va vb : List Bytes),
      (S.kind? s = some .leaflist ∧ S.isUserOrd s = true ∧ S.config s = true) ∧ NBCtx S s P Q ∧ ContCtx S c ∧
      S.isKey s = false ∧ (∀ n ∈ P ++ Q, S.isKey n.sid = false) ∧
      A = [cNode c f (nbForest s P Q va)] ∧ B = [cNode c f (nbForest s P Q vb)] ∧ va.Nodup ∧ vb.Nodup ∧ [] ∉ vb := by
  unfold contLL at h
  split at h
  · rename_i c f m ka c' f' m' kb
    split at h
    · rename_i hc
      simp only [Bool.and_eq_true, beq_iff_eq, List.isEmpty_iff] at hc
      obtain ⟨⟨⟨⟨h1, h2⟩, h3⟩, h4⟩, h5⟩ := hc
      subst h1 h2 h3 h4
      split at h
      · rename_i s' hnb
        split at h
        · rename_i hk
          simp only [Option.some.injEq] at h
          subst h
          simp only [Bool.and_eq_true, Bool.not_eq_true', List.all_eq_true] at hk
          obtain ⟨P, Q, va, vb, hs, hN, hA, hB, nda, ndb, hne⟩ := nbLL_spec hnb
          refine ⟨c, f, P, Q, va, vb, hs, hN, contCtx_of_kind h5, hk.1, ?_, by rw [hA]; rfl, by rw [hB]; rfl, nda, ndb, hne⟩
          intro n hn
          have : n ∈ ka ++ kb := by
            rw [hA]
            unfold nbForest
            simp only [List.mem_append] at hn ⊢
            rcases hn with h | h
            · exact Or.inl (Or.inl (Or.inl h))
            · exact Or.inl (Or.inr h)
          exact hk.2 n this
        · simp at h
      · simp at h
    · simp at h
  · simp at h

end LyModel.Diff.UOB.NB
