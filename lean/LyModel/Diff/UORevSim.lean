import LyModel.Diff.UOBridgeLLStep
import LyModel.Diff.Reverse
/-!
# C13 bridge, step (i): the repaired `lyd_diff_reverse_all` on the encodings of user-ordered leaf-list operations

`UOpO`: the operations of the list core on leaf-list values WITH the original anchor (`yang:orig-value`); `enc s` their diff nodes as
`lyd_diff_add` writes them (`UOB.delNode` / `createNode` / `moveNode` of the C06 bridge).  `reverseRepaired_enc`: for a top-level
diff that consists of such nodes of ONE user-ordered configuration leaf-list, `Diff.reverseRepaired` (the DFS loop followed by
`lyd_diff_reverse_userord_r`) yields — node for node — the encodings of the inverse operations in reverse order (`reverseO`), every
node with `LYD_NEW` (the copy `lyd_dup_siblings` makes).  Core Lean only.
-/
namespace LyModel.Diff.UORev
open LyModel LyModel.Tree LyModel.Diff LyModel.Diff.UOB

/-- an operation of the list core on leaf-list values, with the original anchor -/
inductive UOpO where
  | del (k : Bytes) (orig : Option Bytes)
  | create (k : Bytes) (anchor : Option Bytes)
  | move (k : Bytes) (anchor orig : Option Bytes)
  deriving Repr, DecidableEq

def UOpO.forget : UOpO → UOG.UOp Bytes
  | .del k _ => .del k
  | .create k a => .create k a
  | .move k a _ => .move k a

def invOp : UOpO → UOpO
  | .del k o => .create k o
  | .create k a => .del k a
  | .move k a o => .move k o a

/-- inverse operations, reverse order -/
def reverseO (ops : List UOpO) : List UOpO := (ops.map invOp).reverse

/-- the diff node of an operation, with the flags `f` (`{}` in a computed diff, `{ new := true }` in a reversed one) -/
def encF (s : Nat) (f : Flags) : UOpO → DNode
  | .del k o => (delNode s (o.getD []) k).setFlags f
  | .create k a => (createNode s (a.getD []) k).setFlags f
  | .move k a o => (moveNode s (o.getD []) (a.getD []) k).setFlags f

def enc (s : Nat) : UOpO → DNode := encF s {}

/-- a move changes the predecessor (otherwise `lyd_diff_reverse_meta` fails with `LY_ENOT`: finding F15 (d)) -/
def MoveOk : UOpO → Prop
  | .move _ a o => a.getD [] ≠ o.getD []
  | _ => True

/-- the node after the DFS loop of `lyd_diff_reverse_all` -/
def rev1 (s : Nat) : UOpO → DNode
  | .del k o => .term s { new := true } [("orig-value", o.getD []), ("operation", Op.create.bytes)] k
  | .create k a => .term s { new := true } [("value", a.getD []), ("operation", Op.delete.bytes)] k
  | .move k a o => .term s { new := true }
      [("operation", Op.replace.bytes), ("orig-default", boolBytes false), ("orig-value", a.getD []), ("value", o.getD [])] k

structure Ctx (S : Schema) (s : Nat) : Prop where
  kind : S.kind? s = some .leaflist
  uo : S.isUserOrd s = true
  nd : S.isDupInst s = false
  nk : S.isKey s = false

theorem Ctx.nl {S : Schema} {s : Nat} (C : Ctx S s) : S.isKind s .list = false := by simp [Schema.isKind, C.kind]

theorem bs_create : bs "create" = [99, 114, 101, 97, 116, 101] := by decide +kernel
theorem bs_delete : bs "delete" = [100, 101, 108, 101, 116, 101] := by decide +kernel
theorem bs_true : bs "true" = [116, 114, 117, 101] := by decide +kernel

theorem revNode_enc {S : Schema} {s : Nat} (C : Ctx S s) (op : UOpO) (h : MoveOk op) :
    revNode S none (revDup (enc s op)) = .ok (rev1 s op) := by
  cases op with
  | del k o =>
    simp [enc, encF, delNode, DNode.setFlags, revDup, revNode, C.nk, effOp, ownOp, getMeta, Op.bytes, Op.ofBytes, changeOp,
      DNode.setMetas, DNode.metas, eraseMeta, rev1, Op.str, bs_create]
  | create k a =>
    simp [enc, encF, createNode, DNode.setFlags, revDup, revNode, C.nk, effOp, ownOp, getMeta, Op.bytes, Op.ofBytes, changeOp,
      DNode.setMetas, DNode.metas, eraseMeta, rev1, Op.str, bs_delete]
  | move k a o =>
    simp only [MoveOk] at h
    have h' : ¬ (o.getD [] == a.getD []) = true := by simpa using fun e => h e.symm
    simp [enc, encF, moveNode, DNode.setFlags, revDup, revNode, C.nk, effOp, ownOp, getMeta, Op.bytes, Op.ofBytes,
      DNode.setMetas, DNode.metas, rev1, revReplace, C.kind, C.nd, revDefault, boolBytes, Except.bind, revMeta, setMetaVal,
      DNode.sid, DNode.flags, h', bs_true]

theorem revL_enc {S : Schema} {s : Nat} (C : Ctx S s) : ∀ (ops : List UOpO), (∀ op ∈ ops, MoveOk op) →
    revL S none (revDupL (ops.map (enc s))) = .ok (ops.map (rev1 s))
  | [], _ => rfl
  | op :: ops, h => by
    simp [revDupL, revL, revNode_enc C op (h op (by simp)), revL_enc C ops (fun o ho => h o (by simp [ho]))]

/-- the second pass (`lyd_diff_reverse_userord_r`) on one node: the anchor of a reversed delete / create is renamed -/
theorem uoFixNode_rev1 {S : Schema} {s : Nat} (C : Ctx S s) (op : UOpO) :
    uoFixNode S none (rev1 s op) = .ok (encF s { new := true } (invOp op)) := by
  cases op with
  | del k o =>
    simp [rev1, uoFixNode, C.nk, effOp, ownOp, getMeta, Op.bytes, Op.ofBytes, DNode.metas, uoFixCD, C.uo, DNode.sid,
      uoRenameAnchor, uoMetaName, C.nd, C.nl, eraseMeta, DNode.setMetas, DNode.setKids, invOp, encF, createNode, DNode.setFlags]
  | create k a =>
    simp [rev1, uoFixNode, C.nk, effOp, ownOp, getMeta, Op.bytes, Op.ofBytes, DNode.metas, uoFixCD, C.uo, DNode.sid,
      uoRenameAnchor, uoMetaName, C.nd, C.nl, eraseMeta, DNode.setMetas, DNode.setKids, invOp, encF, delNode, DNode.setFlags]
  | move k a o =>
    simp [rev1, uoFixNode, C.nk, effOp, ownOp, getMeta, Op.bytes, Op.ofBytes, DNode.metas, invOp, encF, moveNode,
      DNode.setFlags]

theorem uoFixL_rev1 {S : Schema} {s : Nat} (C : Ctx S s) : ∀ (ops : List UOpO),
    uoFixL S none (ops.map (rev1 s)) = .ok (ops.map fun op => encF s { new := true } (invOp op))
  | [] => rfl
  | op :: ops => by simp [uoFixL, uoFixNode_rev1 C op, uoFixL_rev1 C ops]

/-- a run of instances of one user-ordered schema node is turned around -/
theorem revRunsGo_same {S : Schema} {s : Nat} (huo : S.isUserOrd s = true) : ∀ (l run : List DNode),
    (∀ n ∈ l, n.sid = s) → (∀ n ∈ run, n.sid = s) → revRunsGo S run l = l.reverse ++ run
  | [], run, _, _ => by cases run <;> simp [revRunsGo]
  | x :: xs, [], hl, _ => by
    rw [revRunsGo, revRunsGo_same huo xs [x] (fun n hn => hl n (by simp [hn])) (by simpa using hl x (by simp))]
    simp
  | x :: xs, r :: run, hl, hr => by
    have hx : x.sid = s := hl x (by simp)
    have hrs : r.sid = s := hr r (by simp)
    rw [revRunsGo]
    simp only [hx, hrs, huo, beq_self_eq_true, Bool.and_self, if_true]
    rw [revRunsGo_same huo xs (x :: r :: run) (fun n hn => hl n (by simp [hn]))
      (by intro n hn; simp only [List.mem_cons] at hn; rcases hn with h | h | h
          · exact h ▸ hx
          · exact h ▸ hrs
          · exact hr n (by simp [h]))]
    simp

theorem encF_sid (s : Nat) (f : Flags) (op : UOpO) : (encF s f op).sid = s := by cases op <;> rfl

/-- **Simulation of the repaired reversal.**  For the diff nodes of any list of operations on ONE user-ordered configuration
leaf-list (moves that change the predecessor — otherwise `lyd_diff_reverse_meta` fails, finding F15 (d)):
`lyd_diff_reverse_all` with the second pass yields the diff nodes of the inverse operations in reverse order, as `LYD_NEW` copies. -/
theorem reverseRepaired_enc {S : Schema} {s : Nat} (C : Ctx S s) (ops : List UOpO) (h : ∀ op ∈ ops, MoveOk op) :
    reverseRepaired S (ops.map (enc s)) = .ok ((reverseO ops).map (encF s { new := true })) := by
  unfold reverseRepaired
  rw [revL_enc C ops h]
  cases ops with
  | nil => rfl
  | cons op ops =>
    have hfree : uoFreeL S ((op :: ops).map (rev1 s)) = false := by
      cases op <;> simp [rev1, uoFreeL, uoFreeN, C.nk, C.uo]
    simp only [hfree, Bool.false_eq_true, if_false, uoFixTop, uoFixL_rev1 C (op :: ops), revRuns]
    rw [revRunsGo_same C.uo _ [] (by intro n hn; simp only [List.mem_map] at hn; obtain ⟨o, _, rfl⟩ := hn; exact encF_sid s _ _)
      (by simp)]
    simp [reverseO, List.map_reverse, Function.comp_def]

end LyModel.Diff.UORev
