import LyModel.Diff.UserOrdDel
/-!
# The user-ordered list core of `lyd_diff_siblings_r` / `lyd_diff_apply_r` (C06) — anchors

One user-ordered (leaf-)list in isolation, instances abstracted to their identity (`Nat`: the key of a list instance, the
value of a leaf-list instance).  `diffU a b` is what the two passes of `lyd_diff_siblings_r` generate for this list — first
every `delete` (instances of `a` that are not in `b`), then for each position of `b` a `create` or a `move` anchored at the
instance placed just before it — maintaining the *virtual* first list the way `lyd_diff_userord_attrs` does
(`userord_item->inst`, `pos`).  `applyU` is `lyd_diff_apply_r` + `lyd_diff_insert` for these operations.
(Ported from the design-phase calibration proof; the full tree model is `LyModel.Diff.Model` / `.Apply`.)
Core Lean only.
-/
namespace LyModel.Diff.UO

theorem insertAt_left (pre r : List Nat) (y : Nat) : insertAt (pre ++ r) pre.length y = pre ++ y :: r := by
  simp [insertAt]

theorem getElem?_at_len (pre rest : List Nat) : (pre ++ rest)[pre.length]? = rest.head? := by
  cases rest <;> simp

/-- the anchor libyang records: the element just placed before position `pre.length` -/
def anchorOf (pre : List Nat) : Option Nat := pre.getLast?

theorem anchor_eq (pre rest : List Nat) :
    (if pre.length = 0 then none else (pre ++ rest)[pre.length - 1]?) = anchorOf pre := by
  unfold anchorOf
  rcases List.eq_nil_or_concat pre with h | ⟨p, k, h⟩
  · simp [h]
  · subst h
    simp

theorem insertAfter_anchor (pre r : List Nat) (y : Nat) (nd : pre.Nodup) :
    insertAfter (pre ++ r) (anchorOf pre) y = some (pre ++ y :: r) := by
  unfold anchorOf
  rcases List.eq_nil_or_concat pre with h | ⟨p, k, h⟩
  · simp [h, insertAfter]
  · subst h
    rw [List.concat_eq_append] at nd ⊢
    have hk : k ∉ p := by
      have := List.nodup_append.mp nd
      intro hk; exact this.2.2 k hk k (by simp) rfl
    have e : (p ++ [k]).getLast? = some k := by simp
    simp only [e, insertAfter]
    rw [List.append_assoc, List.singleton_append, insertAfterKey_split k y p r hk]
    simp

end LyModel.Diff.UO
