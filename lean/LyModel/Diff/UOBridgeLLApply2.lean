import LyModel.Diff.UOBridgeLLApply
/-!
# Bridge from the user-ordered list core to the tree model (C06) — part 7: one diff node, and the whole diff

`applyStep` with a diff node that encodes a core operation does to the values of the data siblings what `UOG.applyOp` does;
hence `apply` with the encodings of an operation list is `UOG.applyU`.  Core Lean only.
-/
namespace LyModel.Diff.UOB
open LyModel LyModel.Tree LyModel.Diff
set_option linter.unusedSimpArgs false
set_option linter.unusedVariables false
local instance (priority := high) bytesBEq5 : BEq Bytes := instBEqOfDecidableEq

theorem applyKids_term (S : Schema) (fx : Fixes) (recur : Recur) (d : DNode) (hd : d.kids = []) (inh : Option Op)
    (ks : List DNode) : applyKids S fx recur d inh ks = .ok ks := by
  simp [applyKids, hd, noKeys, pure, Except.pure]

theorem anchorMeta_ll {S : Schema} {s : Nat} (C : LLCtx S s) : anchorMetaName S s = "value" := by
  simp [anchorMetaName, C.nd, C.nl]

theorem decodeAnchor (a : Option Bytes) (ha : a ≠ some []) :
    (if (a.getD []).isEmpty then none else some (a.getD [])) = a := by
  cases a with
  | none => rfl
  | some z => cases z with
    | nil => exact absurd rfl ha
    | cons _ _ => rfl

theorem dataLL_get {s : Nat} {sibs : List DNode} {l : List Bytes} (h : DataLL s sibs l) {k : Bytes} (hk : k ∈ l) :
    ∃ nw, sibs[l.idxOf k]? = some (.term s { new := nw } [] k) := by
  have h1 : (sibs.map (·.val))[l.idxOf k]? = some k := by rw [h.1]; exact idxOf_getElem?_of_mem hk
  rw [List.getElem?_map] at h1
  cases hm : sibs[l.idxOf k]? with
  | none => simp [hm] at h1
  | some m =>
    simp only [hm, Option.map_some, Option.some.injEq] at h1
    obtain ⟨nw, e⟩ := h.2 m (List.mem_of_getElem? hm)
    rw [h1] at e
    exact ⟨nw, by rw [e]⟩

/-- **One diff node.** -/
theorem applyStep_op {S : Schema} {s : Nat} (C : LLCtx S s) (fx : Fixes) (recur : Recur) (hp : Bool) (inh : Option Op) {sibs : List DNode}
    {l l' : List Bytes} (h : DataLL s sibs l) {d : DNode} {op : UOG.UOp Bytes} (hop : IsOpNode s d op)
    (hap : UOG.applyOp (some l) op = some l') :
    ∃ sibs', applyStep S fx recur sibs hp inh d = .ok sibs' ∧ DataLL s sibs' l' := by
  cases hop with
  | del k ov =>
    have he : effOp (delNode s ov k) inh = some .delete := by rfl
    simp only [UOG.applyOp, Option.bind_some] at hap
    by_cases hk : k ∈ l
    · simp only [hk, if_true, Option.some.injEq] at hap
      subst hap
      have hf := findForApply_ll C h (delNode s ov k) rfl
      simp only [delNode, DNode.val, hk, if_true] at hf
      refine ⟨sibs.eraseIdx (l.idxOf k), ?_, h.eraseIdx k⟩
      simp only [applyStep, he]
      simp [applyDelete, delNode, hf]
    · simp [hk] at hap
  | create k a ha =>
    have he : effOp (createNode s (a.getD []) k) inh = some .create := by rfl
    simp only [UOG.applyOp, Option.bind_some] at hap
    by_cases hk : k ∈ l
    · simp [hk] at hap
    · simp only [hk, if_false] at hap
      have hn : ∃ nw, dupSingle S (createNode s (a.getD []) k) = .term s { new := nw } [] (dupSingle S (createNode s (a.getD []) k)).val :=
        ⟨true, rfl⟩
      obtain ⟨sibs', e1, e2⟩ := insertUO_new C hp h (dupSingle S (createNode s (a.getD []) k)) hn a hap
      refine ⟨sibs', ?_, e2⟩
      have hm : getMeta (createNode s (a.getD []) k) "value" = some (a.getD []) := by rfl
      have hsid : (createNode s (a.getD []) k).sid = s := rfl
      have hset : (dupSingle S (createNode s (a.getD []) k)).setKids [] = dupSingle S (createNode s (a.getD []) k) := rfl
      simp only [applyStep, he, hsid, C.uo, applyUO, anchorMeta_ll C, hm, decodeAnchor a ha,
        applyKids_term S fx recur _ (rfl : (createNode s (a.getD []) k).kids = []), bind, Except.bind]
      simp [e1, hset, dupSingle, createNode, DNode.setKids] at *
  | move k ov a ha =>
    have he : effOp (moveNode s ov (a.getD []) k) inh = some .replace := by rfl
    simp only [UOG.applyOp, Option.bind_some] at hap
    by_cases hc : k ∈ l ∧ a ≠ some k ∧ ¬ (a = none ∧ l.head? = some k)
    · rw [if_pos hc] at hap
      obtain ⟨nw, hg⟩ := dataLL_get h hc.1
      have hf := findForApply_ll C h (moveNode s ov (a.getD []) k) rfl
      simp only [moveNode, DNode.val, hc.1, if_true] at hf
      obtain ⟨sibs', e1, e2⟩ := insertUO_move C hp h (.term s { new := nw } [] k) ⟨nw, rfl⟩ hc.1 a hc.2.1 hc.2.2 hap
      refine ⟨sibs', ?_, e2⟩
      have hm : getMeta (moveNode s ov (a.getD []) k) "value" = some (a.getD []) := by rfl
      have hsid : (moveNode s ov (a.getD []) k).sid = s := rfl
      simp only [DNode.val] at e1
      simp only [applyStep, he, hsid, C.uo, applyUO, anchorMeta_ll C, hm, decodeAnchor a ha,
        applyKids_term S fx recur _ (rfl : (moveNode s ov (a.getD []) k).kids = []), bind, Except.bind]
      simp [moveNode, hf, hg, DNode.isTerm, DNode.setDflt, DNode.setFlags, DNode.flags, DNode.setKids, e1]
    · rw [if_neg hc] at hap; simp at hap

/-- **The whole diff.**  `lyd_diff_apply_all` with the encodings of the core operations `ops` = `UOG.applyU … ops`. -/
theorem apply_ops {S : Schema} {s : Nat} (C : LLCtx S s) (fx : Fixes) (fuel : Nat) (hp : Bool) (inh : Option Op) {nodes : List DNode}
    {ops : List (UOG.UOp Bytes)} (hops : OpNodes s nodes ops) :
    ∀ (sibs : List DNode) (l l' : List Bytes), DataLL s sibs l → UOG.applyU l ops = some l' →
      ∃ sibs', nodes.foldlM (fun sibs d => applyNode S fx (fuel + 1) sibs hp inh d) sibs = .ok sibs' ∧
        DataLL s sibs' l' := by
  induction hops with
  | nil =>
    intro sibs l l' h hap
    simp only [UOG.applyU, List.foldl_nil, Option.some.injEq] at hap
    subst hap
    exact ⟨sibs, rfl, h⟩
  | @cons n op ns ops h1 _ ih =>
    intro sibs l l' h hap
    rw [UOG.applyU_cons] at hap
    cases hl1 : UOG.applyOp (some l) op with
    | none => simp [hl1] at hap
    | some l1 =>
      simp only [hl1, Option.bind_some] at hap
      obtain ⟨sibs1, e1, d1⟩ := applyStep_op C fx (applyNode S fx fuel) hp inh h h1 hl1
      obtain ⟨sibs', e2, d2⟩ := ih sibs1 l1 l' d1 hap
      refine ⟨sibs', ?_, d2⟩
      rw [List.foldlM_cons]
      show (applyStep S fx (applyNode S fx fuel) sibs hp inh n >>= _) = _
      rw [e1]
      exact e2

theorem normL_dataLL (S : Schema) (s : Nat) : ∀ (sibs : List DNode) (l : List Bytes), DataLL s sibs l →
    normL S sibs = llForest s l
  | [], l, h => by rw [← h.1]; rfl
  | x :: xs, l, h => by
    obtain ⟨nw, e⟩ := h.2 x (by simp)
    have ht : DataLL s xs (xs.map (·.val)) := ⟨rfl, fun n hn => h.2 n (by simp [hn])⟩
    rw [← h.1, normL, normL_dataLL S s xs _ ht, e]
    rfl

theorem dataLL_llForest (s : Nat) (l : List Bytes) : DataLL s (llForest s l) l := by
  refine ⟨by simp [llForest, Function.comp_def], ?_⟩
  intro n hn
  simp only [llForest, List.mem_map] at hn
  obtain ⟨v, _, rfl⟩ := hn
  exact ⟨false, rfl⟩

end LyModel.Diff.UOB
