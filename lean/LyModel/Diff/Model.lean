import LyModel.Tree.DTree
/-!
# Model of `src/diff.c`: `lyd_diff_siblings` (diff) — C06

One call of `diffSiblings` is one call of `lyd_diff_siblings_r`: the first pass over `first` (delete / replace /
none, recursion into matched inner nodes), the reset of the cached positions, the second pass over `second`
(create, user-ordered create / move).  The user-ordered machinery (`lyd_diff_userord_get/attrs`) keeps, per schema
node, the *virtual* instance list; entries are identified by (tree, index) — the model's pointer identity.

`lyd_diff_add` inserts every operation into the growing diff tree by searching from the diff root.  The model
builds the same tree level by level (`St.out` = the diff siblings of the current level): a matched inner node whose
recursion produced something gets a parent copy (`wrapParent`), created — as in the C — from the tree that the first
operation below it came from, with `yang:operation=none` exactly when `lyd_diff_add` marks it (topmost newly
created parent; see `noneOnParent`), and with the default flag that `lyd_np_cont_dflt_del` leaves.
Core Lean only.
-/
namespace LyModel.Diff
open LyModel LyModel.Tree

/-- Candidate repairs of known findings (`fixes/Fnn.diff`).  All `false` = the pinned tree; the check sets a switch when
`known_findings.json` lists the finding as `fixed`, so that the model follows the repaired code. -/
structure Fixes where
  f120 : Bool := false     -- apply: a user-ordered leaf-list move also applies the default-flag change
  f126 : Bool := false     -- apply: descendants without an operation below a moved instance are skipped
  f128 : Bool := false     -- diff: `*diff` is re-computed after an existing node was moved behind its fellow instances
  deriving Repr, Inhabited

inductive Op where
  | create | delete | replace | none
  deriving Repr, DecidableEq, Inhabited

def Op.str : Op → String
  | .create => "create" | .delete => "delete" | .replace => "replace" | .none => "none"

/-- `lyd_diff_op2str` as bytes (literal lists: they reduce in the kernel, `String.toUTF8` does not) -/
def Op.bytes : Op → Bytes
  | .create => [99, 114, 101, 97, 116, 101]
  | .delete => [100, 101, 108, 101, 116, 101]
  | .replace => [114, 101, 112, 108, 97, 99, 101]
  | .none => [110, 111, 110, 101]

/-- `lyd_diff_str2op` reads the first character only -/
def Op.ofBytes (b : Bytes) : Option Op :=
  match b with
  | 99 :: _ => some .create      -- 'c'
  | 100 :: _ => some .delete     -- 'd'
  | 114 :: _ => some .replace    -- 'r'
  | 110 :: _ => some .none       -- 'n'
  | _ => Option.none

def bs (s : String) : Bytes := bytesOfString s

/-! ## metadata -/
def getMeta (n : DNode) (name : String) : Option Bytes := (n.metas.find? (·.1 == name)).map (·.2)

def eraseMeta (name : String) : List Meta → List Meta
  | [] => []
  | m :: ms => if m.1 == name then ms else m :: eraseMeta name ms

def addMeta (n : DNode) (name : String) (v : Bytes) : DNode := n.setMetas (n.metas ++ [(name, v)])

def addMetaOpt (n : DNode) (name : String) : Option Bytes → DNode
  | some v => addMeta n name v
  | Option.none => n

/-! ## instance comparison -/

def keysEq : List DNode → List DNode → Bool
  | [], [] => true
  | a :: as, b :: bs => a.sid == b.sid && a.val == b.val && keysEq as bs
  | _, _ => false

/-- `lyd_compare_single(a, b, 0) == LY_SUCCESS` -/
def sameInst (S : Schema) (a b : DNode) : Bool :=
  a.sid == b.sid &&
  (match S.kind? a.sid with
   | some .leaf => a.val == b.val
   | some .leaflist => a.val == b.val
   | some .list => if S.nkeys a.sid == 0 then true else keysEq (keysOf S a.kids) (keysOf S b.kids)
   | _ => true)

mutual
/-- `lyd_compare_single(a, b, LYD_COMPARE_FULL_RECURSION) == LY_SUCCESS` (no `LYD_COMPARE_DEFAULTS`): values and
structure, flags and metadata ignored; siblings pairwise (the trees are in canonical order) -/
def fullEq : DNode → DNode → Bool
  | .inner s _ _ k, .inner s' _ _ k' => s == s' && fullEqL k k'
  | .term s _ _ v, .term s' _ _ v' => s == s' && v == v'
  | _, _ => false
def fullEqL : List DNode → List DNode → Bool
  | [], [] => true
  | a :: as, b :: bs => fullEq a b && fullEqL as bs
  | _, _ => false
end

/-- the comparison `lyd_find_sibling_first` uses for a list / leaf-list target -/
def instMatch (S : Schema) (target x : DNode) : Bool :=
  if S.isDupInst target.sid then fullEq x target else sameInst S x target

def findIdxFrom (p : DNode → Nat → Bool) : List DNode → Nat → Option Nat
  | [], _ => Option.none
  | x :: xs, i => if p x i then some i else findIdxFrom p xs (i + 1)

/-- is sibling `x` (at index `i`) what `lyd_find_sibling_first` / the duplicate-instance cache return for `target`? -/
def matchPred (S : Schema) (target : DNode) (used : List Nat) (x : DNode) (i : Nat) : Bool :=
  if S.isKind target.sid .list || S.isKind target.sid .leaflist then
    x.sid == target.sid && instMatch S target x && !(S.isDupInst target.sid && used.contains i)
  else x.sid == target.sid

/-- `lyd_diff_find_match` while *diffing* (the sibling list does not change): `used` is the duplicate-instance cache —
the indices already handed out; a dup-inst target gets the next unused equal instance, any other target the first match.
Returns the match (after the default filter) and the new cache. -/
def findMatch (S : Schema) (sibs : List DNode) (target : DNode) (defaults : Bool) (used : List Nat) :
    Option Nat × List Nat :=
  match findIdxFrom (matchPred S target used) sibs 0 with
  | Option.none => (Option.none, used)
  | some i =>
    let used' := if S.isDupInst target.sid then i :: used else used
    if (sibs[i]?.map (·.flags.dflt)).getD false && !defaults then (Option.none, used') else (some i, used')

/-! ## duplication into the diff -/

mutual
/-- `lyd_dup_single(node, LYD_DUP_RECURSIVE | LYD_DUP_NO_META | LYD_DUP_WITH_FLAGS)`: the children are re-inserted one by
one, so a container copy keeps its default flag only if every copied child has it (`lyd_np_cont_dflt_del`) -/
def dupRec : DNode → DNode
  | .inner s f _ ks =>
    let ks' := dupRecL ks
    .inner s { f with dflt := f.dflt && ks'.all (·.flags.dflt) } [] ks'
  | .term s f _ v => .term s f [] v
def dupRecL : List DNode → List DNode
  | [] => []
  | n :: ns => dupRec n :: dupRecL ns
end

/-- non-recursive copy with flags: a list keeps its keys -/
def dupShallow (S : Schema) : DNode → DNode
  | .inner s f _ ks => .inner s f [] ((keysOf S ks).map fun k => k.setMetas [])
  | .term s f _ v => .term s f [] v

/-! ## list predicates (`lyd_path_list_predicate`) and numbers -/

def quoteOf (v : Bytes) : UInt8 := if v.contains 39 then 34 else 39     -- ' unless the value has one, then "

def keyPredicate (S : Schema) (n : DNode) : Bytes :=
  (keysOf S n.kids).flatMap fun k =>
    let q := quoteOf k.val
    [91] ++ bs (S.name k.sid) ++ [61, q] ++ k.val ++ [q, 93]

def natBytes (n : Nat) : Bytes := bs (toString n)

/-! ## user-ordered virtual lists -/

structure UOItem where
  sid : Nat
  inst : List (Bool × Nat)      -- (from the second tree?, index in that sibling list)
  pos : Nat
  deriving Repr

def uoFind (items : List UOItem) (sid : Nat) : Option UOItem := items.find? (·.sid == sid)

def uoSet (items : List UOItem) (it : UOItem) : List UOItem :=
  if items.any (·.sid == it.sid) then items.map fun x => if x.sid == it.sid then it else x
  else items ++ [it]

/-- indices of the instances of `sid` (`LYD_LIST_FOR_INST`) -/
def instIdxs (sibs : List DNode) (sid : Nat) : List Nat :=
  (sibs.zipIdx.filter fun p => p.1.sid == sid).map (·.2)

/-- `lyd_diff_userord_get` -/
def uoGet (items : List UOItem) (sid : Nat) (first : List DNode) (haveFirst : Bool) : UOItem :=
  match uoFind items sid with
  | some it => it
  | Option.none => { sid := sid, inst := if haveFirst then (instIdxs first sid).map fun i => (false, i) else [], pos := 0 }

structure Attrs where
  op : Op
  origDefault : Option Bytes := Option.none
  origValue : Option Bytes := Option.none
  key : Option Bytes := Option.none
  value : Option Bytes := Option.none
  position : Option Bytes := Option.none
  origKey : Option Bytes := Option.none
  origPosition : Option Bytes := Option.none
  deriving Repr

def idxOfTag (l : List (Bool × Nat)) (t : Bool × Nat) : Nat :=
  match l.findIdx? (· == t) with
  | some i => i
  | Option.none => l.length

def tagNode (first second : List DNode) (t : Bool × Nat) : Option DNode :=
  if t.1 then second[t.2]? else first[t.2]?

def boolBytes (b : Bool) : Bytes := if b then [116, 114, 117, 101] else [102, 97, 108, 115, 101]

/-- `lyd_diff_userord_attrs`.  `fi`/`si`: index of the node of the first / second tree (`none` = NULL).
Returns `none` for `LY_ENOT` (no change) — the position counter has advanced all the same. -/
def userordAttrs (S : Schema) (defaults : Bool) (first second : List DNode) (item : UOItem)
    (fi si : Option Nat) : Option Attrs × UOItem :=
  let sid := item.sid
  let firstPos := match fi with
    | some i => idxOfTag item.inst (false, i)
    | Option.none => 0
  let secondPos := item.pos
  let item := { item with pos := item.pos + 1 }
  let fnode := fi.bind (first[·]?)
  let snode := si.bind (second[·]?)
  let dup := S.isDupInst sid
  let opO : Option Op :=
    match snode, fnode with
    | Option.none, _ => some .delete
    | some _, Option.none => some .create
    | some s, some f =>
      let other := (item.inst[secondPos]?).bind (tagNode first second)
      let same := match other with
        | some o => if dup then fullEq s o else sameInst S s o
        | Option.none => false
      if !same then some .replace
      else if defaults && f.flags.dflt != s.flags.dflt then some .none
      else Option.none
  match opO with
  | Option.none => (Option.none, item)
  | some op =>
    let isLL := S.isKind sid .leaflist
    let isL := S.isKind sid .list
    let rc := op == .replace || op == .create
    let rd := op == .replace || op == .delete
    let prevOf := fun (p : Nat) => (item.inst[p - 1]?).bind (tagNode first second)
    let a : Attrs := {
      op := op
      origDefault := if isLL && (op == .replace || op == .none) then fnode.map (fun f => boolBytes f.flags.dflt) else Option.none
      value := if isLL && !dup && rc then some (if secondPos != 0 then ((prevOf secondPos).map (·.val)).getD [] else []) else Option.none
      origValue := if isLL && !dup && rd then some (if firstPos != 0 then ((prevOf firstPos).map (·.val)).getD [] else []) else Option.none
      key := if isL && !dup && rc then some (if secondPos != 0 then ((prevOf secondPos).map (keyPredicate S)).getD [] else []) else Option.none
      origKey := if isL && !dup && rd then some (if firstPos != 0 then ((prevOf firstPos).map (keyPredicate S)).getD [] else []) else Option.none
      position := if dup && rc then some (if secondPos != 0 then natBytes secondPos else []) else Option.none
      origPosition := if dup && rd then some (if firstPos != 0 then natBytes firstPos else []) else Option.none }
    -- apply the change to the virtual list
    let inst' :=
      match op with
      | .create => (item.inst.take secondPos) ++ [(true, si.getD 0)] ++ item.inst.drop secondPos
      | .delete => item.inst.eraseIdx firstPos
      | .replace =>
        let l := item.inst.eraseIdx firstPos
        (l.take secondPos) ++ [(false, fi.getD 0)] ++ l.drop secondPos
      | .none => item.inst
    (some a, { item with inst := inst' })

/-- `lyd_diff_attrs` (not user-ordered); `none` = `LY_ENOT` -/
def plainAttrs (S : Schema) (defaults : Bool) (f s : Option DNode) : Option Attrs :=
  match s, f with
  | Option.none, _ => some { op := .delete }
  | some _, Option.none => some { op := .create }
  | some s, some f =>
    let flagCh := defaults && f.flags.dflt != s.flags.dflt
    match S.kind? f.sid with
    | some .leaf =>
      if !sameInst S f s then
        some { op := .replace, origDefault := some (boolBytes f.flags.dflt), origValue := some f.val }
      else if flagCh then some { op := .none, origDefault := some (boolBytes f.flags.dflt) }
      else Option.none
    | some .leaflist => if flagCh then some { op := .none, origDefault := some (boolBytes f.flags.dflt) } else Option.none
    | _ => Option.none          -- container: no change; list: its instances never carry the default flag

/-! ## adding a node to one level of the diff (`lyd_diff_add`, last step) -/

/-- `yang:key` / `yang:value` / `yang:position` of a nested user-ordered node below a created subtree
(`lyd_diff_add_create_nested_userord`): computed from the preceding sibling of the copy -/
def nestedMeta (S : Schema) (prev : Option DNode) (posInGroup : Nat) (n : DNode) : DNode :=
  if !S.isUserOrd n.sid then n
  else if S.isDupInst n.sid then addMeta n "position" (if posInGroup > 0 then natBytes posInGroup else [])
  else
    let p := match prev with
      | some p => if p.sid == n.sid then some p else Option.none
      | Option.none => Option.none
    if S.isKind n.sid .list then addMeta n "key" ((p.map (keyPredicate S)).getD [])
    else addMeta n "value" ((p.map (·.val)).getD [])

/-- one sibling list of a created copy: every node gets its nested metadata, `recur` does the children -/
def nestedGo (S : Schema) (recur : List DNode → List DNode) (prev : Option DNode) (cnt : Nat) : List DNode → List DNode
  | [] => []
  | k :: rest =>
    let cnt' := match prev with
      | some p => if p.sid == k.sid then cnt + 1 else 0
      | Option.none => 0
    let k1 := nestedMeta S prev cnt' k
    let k2 := match k1 with
      | .inner s f m kk => DNode.inner s f m (recur kk)
      | t => t
    k2 :: nestedGo S recur (some k) cnt' rest

/-- all descendants of a created copy get their nested metadata (`LYD_TREE_DFS` over the copy, the root excepted) -/
def nestedAll (S : Schema) : (fuel : Nat) → List DNode → List DNode
  | 0, ks => ks
  | fuel + 1, ks => nestedGo S (nestedAll S fuel) Option.none 0 ks

def withAttrs (S : Schema) (n : DNode) (a : Attrs) : DNode :=
  let n := addMeta n "operation" a.op.bytes
  -- all nested user-ordered (leaf-)lists need special metadata for a create
  let n := if a.op == .create then n.setKids (nestedAll S (n.height + 1) n.kids) else n
  let n := addMetaOpt n "orig-default" a.origDefault
  let n := addMetaOpt n "orig-value" a.origValue
  let n := addMetaOpt n "key" a.key
  let n := addMetaOpt n "value" a.value
  let n := addMetaOpt n "position" a.position
  let n := addMetaOpt n "orig-key" a.origKey
  addMetaOpt n "orig-position" a.origPosition

/-- move element `i` behind the last directly following element of the same schema node -/
def moveToGroupEnd (l : List DNode) (i : Nat) : List DNode :=
  match l[i]? with
  | Option.none => l
  | some e =>
    let after := l.drop (i + 1)
    let grp := after.takeWhile (·.sid == e.sid)
    l.take i ++ grp ++ [e] ++ after.drop grp.length

/-- an operation on a descendant already created this diff node (user-ordered instance moved after its content changed):
the operation is replaced, children without an explicit operation keep the old one (`none`) -/
def reuseNode (S : Schema) (e : DNode) (a : Attrs) : DNode :=
  let e1 := e.setMetas (eraseMeta "operation" e.metas)
  let ks := e1.kids.map fun k =>
    if S.isKey k.sid || (getMeta k "operation").isSome then k else addMeta k "operation" Op.none.bytes
  withAttrs S (e1.setKids ks) a

/-- the existing diff node `out[i]` takes the operation; a user-ordered one moves behind its fellow instances -/
def addExisting (S : Schema) (out : List DNode) (node : DNode) (a : Attrs) (i : Nat) : List DNode × Option (Nat × Nat) :=
  match out[i]? with
  | Option.none => (out, some (i, i))
  | some e =>
    let e2 := reuseNode S e a
    let out' := out.set i e2
    if S.isUserOrd node.sid then
      (moveToGroupEnd out' i, some (i, i + ((out'.drop (i + 1)).takeWhile (·.sid == e2.sid)).length))
    else (out', some (i, i))

/-- the copy of `node` that goes into the diff: the whole subtree, except for the move of a configuration user-ordered
list instance ("move applies only to the user-ordered list, no descendants") -/
def newNode (S : Schema) (node : DNode) (a : Attrs) : DNode :=
  let recursive := !(a.op == .replace && S.isUserOrd node.sid && S.config node.sid)
  withAttrs S (if recursive then dupRec node else dupShallow S node) a

/-- The node for `(node, attrs)` at this diff level.  Second component: `none` — a new node was inserted
(`lyd_diff_insert_sibling` at the top level re-computes the first sibling); `some (i, j)` — the existing node `i` was
re-used and now sits at index `j`. -/
def addAt (S : Schema) (out : List DNode) (node : DNode) (a : Attrs) : List DNode × Option (Nat × Nat) :=
  let existing := if S.isDupInst node.sid then Option.none else findIdxFrom (fun x _ => sameInst S x node) out 0
  match existing with
  | some i => addExisting S out node a i
  | Option.none => (insertBySchema (newNode S node a) out, Option.none)

/-! ## one sibling level -/

structure St where
  out : List DNode := []
  uo : List UOItem := []
  used : List Nat := []
  emitted : Bool := false      -- something was added at this level or below: the enclosing parent copy exists
  side : Bool := true          -- tree of the first operation (true = second)
  fd : Nat := 0                -- how many parent copies the first operation created below this level
  ptr : Nat := 0               -- top level only: index of the node `*diff` points to (see `St.add`)
  deriving Repr

def St.emit (st : St) (out' : List DNode) (side : Bool) (fd : Nat) : St :=
  if st.emitted then { st with out := out' } else { st with out := out', emitted := true, side := side, fd := fd }

/-- `lyd_diff_add` at this level.  `*diff` is re-computed (first sibling) whenever a node is inserted at the top level, but
NOT when an existing node is moved behind its fellow instances: if `*diff` pointed to that node it keeps pointing to it, and
`lyd_diff_siblings` hands out a pointer into the middle of the sibling list (finding F128). -/
def St.add (S : Schema) (st : St) (node : DNode) (a : Attrs) (side : Bool) : St :=
  let (out', ev) := addAt S st.out node a
  let ptr' := match ev with
    | Option.none => 0
    | some (i, j) => if st.ptr == i then j else if i < st.ptr && st.ptr ≤ j then st.ptr - 1 else st.ptr
  { st.emit out' side 0 with ptr := ptr' }

/-- does `lyd_diff_add` put `yang:operation=none` on a freshly created parent copy?  Only on the topmost newly created
parent, and — when some ancestor already exists in the diff — only if that parent is the direct parent of the added
node (the `while` loop that looks for "the first duplicated parent" compares with the schema of the topmost missing
one, so it stops at once for longer chains). -/
def noneOnParent (top : Bool) (parentExists : Bool) (fdBelow : Nat) : Bool :=
  top || (parentExists && fdBelow == 0)

/-- parent copy of a matched pair whose recursion produced `sub` -/
def wrapParent (S : Schema) (top : Bool) (st : St) (a b : DNode) (sub : St) : St :=
  if sub.out.isEmpty then st else
  let src := if sub.side then b else a
  let hdr := dupShallow S src
  let metas : List Meta := if noneOnParent top st.emitted sub.fd then [("operation", Op.none.bytes)] else []
  let p := DNode.inner hdr.sid { hdr.flags with dflt := hdr.flags.dflt && sub.out.all (·.flags.dflt) } metas (hdr.kids ++ sub.out)
  { st.emit (insertBySchema p st.out) sub.side (sub.fd + 1) with ptr := 0 }

/-- first pass, user-ordered node `a = first[i]`: only a delete is handled now -/
def phase1UO (S : Schema) (defaults : Bool) (first second : List DNode) (st : St) (a : DNode) (i : Nat)
    (m : Option Nat) : St :=
  let item := uoGet st.uo a.sid first true
  match m with
  | Option.none =>
    let r := userordAttrs S defaults first second item (some i) Option.none
    let st := { st with uo := uoSet st.uo r.2 }
    match r.1 with
    | some atr => st.add S a atr false
    | Option.none => st
  | some _ => { st with uo := uoSet st.uo item }

/-- first pass, any other node: `lyd_diff_attrs` — delete (of `a`) or replace / none (the diff gets the node of the second tree) -/
def phase1Plain (S : Schema) (defaults : Bool) (second : List DNode) (st : St) (a : DNode) (m : Option Nat) : St :=
  match plainAttrs S defaults (some a) (m.bind (second[·]?)) with
  | some atr =>
    if atr.op == .delete then st.add S a atr false
    else match m.bind (second[·]?) with
      | some b => st.add S b atr true
      | Option.none => st
  | Option.none => st

/-- first pass of `lyd_diff_siblings_r`, one node `a = first[i]`: delete / replace / none, then the recursion into the
matched pair (`recur` = `lyd_diff_siblings_r` on the children) -/
def phase1Step (S : Schema) (defaults top : Bool) (recur : List DNode → List DNode → St) (first second : List DNode)
    (st : St) (p : DNode × Nat) : St :=
  let a := p.1
  let i := p.2
  if a.flags.dflt && !defaults then st else
  let fm := findMatch S second a defaults st.used
  let st := { st with used := fm.2 }
  let st := if S.isUserOrd a.sid then phase1UO S defaults first second st a i fm.1
    else phase1Plain S defaults second st a fm.1
  match fm.1.bind (second[·]?) with
  | some b => wrapParent S top st a b (recur (noKeys S a.kids) (noKeys S b.kids))
  | Option.none => st

/-- second pass, one node `b = second[j]`: create, user-ordered create / move -/
def phase2Step (S : Schema) (defaults : Bool) (first second : List DNode) (st : St) (p : DNode × Nat) : St :=
  let b := p.1
  let j := p.2
  if b.flags.dflt && !defaults then st else
  let (m, used') := findMatch S first b defaults st.used
  let st := { st with used := used' }
  if S.isUserOrd b.sid then
    let item := uoGet st.uo b.sid first m.isSome
    let (atrO, item') := userordAttrs S defaults first second item m (some j)
    let st := { st with uo := uoSet st.uo item' }
    match atrO with
    | some atr => st.add S b atr true
    | Option.none => st
  else
    match m with
    | Option.none => st.add S b { op := .create } true
    | some _ => st

/-- between the passes: reset all cached positions; the second pass has its own duplicate-instance cache -/
def resetPhase (st : St) : St :=
  { st with uo := st.uo.map (fun it => { it with pos := 0 }), used := [] }

/-- `lyd_diff_siblings_r(first, second, options, 0, diff)` for one sibling level; `top`: the level of the diff roots -/
def diffSiblings (S : Schema) (defaults : Bool) : (fuel : Nat) → (top : Bool) → (first second : List DNode) → St
  | 0, _, _, _ => {}
  | fuel + 1, top, first, second =>
    let st1 := first.zipIdx.foldl (phase1Step S defaults top (diffSiblings S defaults fuel false) first second) {}
    second.zipIdx.foldl (phase2Step S defaults first second) (resetPhase st1)

/-- `lyd_diff_siblings(first, second, options, &diff)`: all diff siblings, and the index of the one `*diff` points to -/
def diffFull (S : Schema) (defaults : Bool) (first second : List DNode) (fx : Fixes := {}) : List DNode × Nat :=
  let st := diffSiblings S defaults (Nat.max (heightL first) (heightL second) + 1) true first second
  (st.out, if fx.f128 then 0 else st.ptr)

/-- the diff tree (what `lyd_print_all` / a walk from the first sibling sees) -/
def diff (S : Schema) (defaults : Bool) (first second : List DNode) : List DNode :=
  (diffFull S defaults first second).1

/-- the diff as `lyd_diff_apply_all(&data, diff)` walks it: from `*diff` on -/
def diffFromPtr (S : Schema) (defaults : Bool) (first second : List DNode) (fx : Fixes := {}) : List DNode :=
  let r := diffFull S defaults first second fx
  r.1.drop r.2

end LyModel.Diff
