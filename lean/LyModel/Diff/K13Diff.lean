import LyModel.Diff.K13Bridge
import LyModel.Diff.LemmasExact
/-!
# C13 over keyed lists: the nodes of a computed diff satisfy `P` when the nodes of the two trees do

Every node `lyd_diff_siblings` emits on the fragment (`LemmasLevelD2.levelD`) is a copy of a node of one of the two trees —
`lyd_dup_single` of a deleted / created subtree, of a changed leaf, or the shallow copy (list keys included) of a parent — so
a predicate that looks at the schema node, the value and the list keys only (`PInv`) carries over.  With `diff_exact`
(`LemmasExact.exactDiff_diff`) this makes the computed diff exact relative to `P` (`exactDiff_diff`).
-/
set_option linter.unusedSimpArgs false
namespace LyModel.Diff.K13
open LyModel LyModel.Tree LyModel.Diff

variable {P : DNode → Bool}

theorem keyPairs_map_setMetas (l : List DNode) : keyPairs (l.map fun k => k.setMetas []) = keyPairs l := by
  simp [keyPairs, List.map_map, Function.comp_def, setMetas_sid, setMetas_val]

theorem allPN_setMetas_dupRec {S : Schema} (hP : PInv S P) (x : DNode) (m : List Meta) :
    allPN P ((dupRec x).setMetas m) = allPN P x :=
  allPN_congr_norm hP (by rw [normN_setMetas, normN_dupRec])

theorem P_term_metas {S : Schema} (hP : PInv S P) (s : Nat) (f : Flags) (m m' : List Meta) (v : Bytes) :
    P (.term s f m v) = P (.term s f m' v) := hP.pcongr rfl rfl rfl

def AllPGoal (S : Schema) (P : DNode → Bool) (fuelD : Nat) : Prop :=
  ∀ (top : Bool) (as bs : List DNode), wfL S as = true → wfL S bs = true → canonB S as = true → canonB S bs = true →
    allPL P as = true → allPL P bs = true → allPL P (diffSiblings S true fuelD top as bs).out = true

theorem allPGoal_all {S : Schema} (hP : PInv S P) : ∀ (fuelD : Nat), AllPGoal S P fuelD
  | 0 => by intro top as bs _ _ _ _ _ _; simp [diffSiblings, allPL]
  | fuelD + 1 => by
    intro top as bs hwa hwb hca hcb hpa hpb
    have IH := allPGoal_all hP fuelD
    obtain ⟨_, L⟩ := levelD S fuelD top as bs hwa hwb hca hcb
    generalize (diffSiblings S true (fuelD + 1) top as bs).out = out at L
    have hrec0 := diffSiblings_nil S true fuelD false
    rw [allPL_iff_forall]
    intro d hd
    rcases L.sound d hd with ⟨a, ha, hn⟩ | ⟨b, hb, hp, rfl⟩
    · have hwa1 := wfL_mem S as a hwa ha
      have hpa1 : allPN P a = true := allPL_mem hpa ha
      have hnd := plainSid_not_dupInst S a.sid (wfNode_plain S a hwa1)
      cases hn with
      | del hp => rw [allPN_setMetas_dupRec hP]; exact hpa1
      | term b atr hp hat =>
        have hbm := partner_mem S bs a b hp
        have hwb1 := wfL_mem S bs b hwb hbm
        have hpb1 : allPN P b = true := allPL_mem hpb hbm
        have hsb : b.sid = a.sid := kkey_sid S b a (partner_kkey S bs a b hnd hp)
        have hterm : S.isTerm a.sid = true := by
          rcases plainAttrs_cases S a b atr hat with ⟨h, _, _⟩ | ⟨h | h, _, _⟩
          · exact isTerm_of_kind S _ (Or.inl h)
          · exact isTerm_of_kind S _ (Or.inl h.1)
          · exact isTerm_of_kind S _ (Or.inr h)
        obtain ⟨fa, ma, va, hae⟩ := term_of_shape S a (wfNode_shape S a hwa1) hterm
        obtain ⟨fb, mb, vb, hbe⟩ := term_of_shape S b (wfNode_shape S b hwb1) (by rw [hsb]; exact hterm)
        rw [hsb] at hbe
        generalize a.sid = s at hae hbe
        subst hae hbe
        have hdr : dupRec (.term s fb mb vb) = .term s fb [] vb := rfl
        rw [hdr]
        have hpb2 : P (.term s fb mb vb) = true := by simpa [allPN] using hpb1
        rcases plainAttrs_term_cases S s fa fb ma mb va vb atr hat with ⟨_, _, rfl⟩ | ⟨_, rfl⟩
        · rw [withAttrs_replace]
          simp only [allPN]
          exact (P_term_metas hP s fb _ mb vb).trans hpb2
        · rw [withAttrs_none]
          simp only [allPN]
          exact (P_term_metas hP s fb _ mb vb).trans hpb2
      | parent b src f m hp hat hne hsrc htop hm =>
        have hbm := partner_mem S bs a b hp
        have hwb1 := wfL_mem S bs b hwb hbm
        have hpb1 : allPN P b = true := allPL_mem hpb hbm
        have hsb : b.sid = a.sid := kkey_sid S b a (partner_kkey S bs a b hnd hp)
        have hin := inner_of_sub S _ a b hwa1 hwb1 hsb hrec0 hne
        have hsrcw : wfNode S src = true := by rcases hsrc with h | h <;> subst h <;> assumption
        have hsrcp : allPN P src = true := by rcases hsrc with h | h <;> subst h <;> assumption
        have hsrci : S.isInner src.sid = true := by
          rcases hsrc with h | h <;> subst h
          · exact hin
          · rw [hsb]; exact hin
        obtain ⟨fs, ms, kss, hse⟩ := inner_of_shape S src (wfNode_shape S src hsrcw) hsrci
        have hsrcP := (allPN_iff src).1 hsrcp
        -- the sub-diff
        have hsubkey : ∀ x ∈ (subOf S (diffSiblings S true fuelD false) a b).out, S.isKey x.sid = false := by
          intro x hx
          obtain ⟨y, hy, he⟩ := diffSiblings_sids S true fuelD false _ _ x hx
          rw [he]
          rcases List.mem_append.1 hy with hy | hy
          · exact noKeys_notKey S a hwa1 y hy
          · exact noKeys_notKey S b hwb1 y hy
        have hsub : allPL P (subOf S (diffSiblings S true fuelD false) a b).out = true := by
          obtain ⟨fa, ma, ka, hae⟩ := inner_of_shape S a (wfNode_shape S a hwa1) hin
          obtain ⟨fb, mb, kb, hbe⟩ := inner_of_shape S b (wfNode_shape S b hwb1) (by rw [hsb]; exact hin)
          rw [hae] at hwa1 hpa1
          rw [hbe] at hwb1 hpb1
          have hia := wfNode_inner S _ fa ma ka hwa1
          have hib := wfNode_inner S _ fb mb kb hwb1
          have hka : allPL P ka = true := ((allPN_iff _).1 hpa1).2
          have hkb : allPL P kb = true := ((allPN_iff _).1 hpb1).2
          have := IH false (noKeys S ka) (noKeys S kb)
            (wfL_of_forall S _ (fun x hx => wfL_mem S ka x hia.kids ((noKeys_sublist S ka).subset hx)))
            (wfL_of_forall S _ (fun x hx => wfL_mem S kb x hib.kids ((noKeys_sublist S kb).subset hx)))
            (canonB_sublist S (noKeys_sublist S ka) hia.canon) (canonB_sublist S (noKeys_sublist S kb) hib.canon)
            (allPL_of_sub hka (fun x hx => (noKeys_sublist S ka).subset hx))
            (allPL_of_sub hkb (fun x hx => (noKeys_sublist S kb).subset hx))
          rw [hae, hbe]
          simpa [subOf, DNode.kids] using this
        -- the key copies
        have hkc : ∀ x ∈ (dupShallow S src).kids, S.isKey x.sid = true := by
          intro x hx
          rw [dupShallow_kids] at hx
          obtain ⟨y, hy, rfl⟩ := List.mem_map.1 hx
          rw [setMetas_sid]; exact keysOf_all_key S _ y hy
        have hkeys : allPL P (dupShallow S src).kids = true := by
          rw [allPL_iff_forall]
          intro x hx
          rw [dupShallow_kids] at hx
          obtain ⟨y, hy, rfl⟩ := List.mem_map.1 hx
          rw [allPN_congr_norm hP (normN_setMetas y [])]
          exact allPL_mem hsrcP.2 ((List.takeWhile_sublist _).subset hy)
        rw [allPN_iff]
        refine ⟨?_, ?_⟩
        · have hPd : P (.inner (dupShallow S src).sid f m
              ((dupShallow S src).kids ++ (subOf S (diffSiblings S true fuelD false) a b).out)) = P src := by
            apply hP.pcongr
            · exact dupShallow_sid S src
            · rw [hse]; rfl
            show keyPairs (keysOf S ((dupShallow S src).kids ++ _)) = _
            have : keysOf S ((dupShallow S src).kids ++ (subOf S (diffSiblings S true fuelD false) a b).out) =
                (dupShallow S src).kids := takeWhile_append_of _ _ _ hkc hsubkey
            rw [this, dupShallow_kids, keyPairs_map_setMetas]
          exact hPd.trans hsrcP.1
        · show allPL P ((dupShallow S src).kids ++ _) = true
          rw [allPL_append, hkeys, hsub]; rfl
    · show allPN P ((dupRec b).setMetas _) = true
      rw [allPN_setMetas_dupRec hP]; exact allPL_mem hpb hb

/-- the nodes of `diff(A, B)` satisfy `P` when those of `A` and `B` do -/
theorem allPL_diff {S : Schema} (hP : PInv S P) (A B : List DNode) (hA : wfForest S A = true) (hB : wfForest S B = true)
    (hpA : allPL P A = true) (hpB : allPL P B = true) : allPL P (diff S true A B) = true := by
  simp only [wfForest, Bool.and_eq_true] at hA hB
  have := allPGoal_all hP (Nat.max (heightL A) (heightL B) + 1) true A B hA.1.1 hB.1.1 hA.1.2 hB.1.2 hpA hpB
  simpa [diff, diffFull] using this

/-- **`diff_exact` relative to `P`** -/
theorem exactDiff_diff {S : Schema} (hP : PInv S P) (A B : List DNode) (hA : wfForest S A = true) (hB : wfForest S B = true)
    (hpA : allPL P A = true) (hpB : allPL P B = true) : exactDiff S P A (diff S true A B) = true :=
  exactDiff_intro (Diff.exactDiff_diff S A B hA hB) (allPL_diff hP A B hA hB hpA hpB)

theorem goodT_of_wfForest {S : Schema} (A : List DNode) (hA : wfForest S A = true) (hpA : allPL P A = true) :
    goodT S P A = true := goodT_intro (Diff.goodT_of_wfForest S A hA) hpA

end LyModel.Diff.K13
