import LyModel.Diff.UOBridgeLLThm
/-!
# Bridge from the user-ordered list core to the tree model (C06) — Stage 2a, part 1: `lyd_diff_userord_attrs` on one keyed list

The sibling lists are the instances of ONE user-ordered configuration list `s` with a single key (schema node `s + 1`) and no
other children in the instances (`klForest s keys`).  The identity of an instance is its key value; the anchor metadata is
`yang:key` = `lyd_path_list_predicate` of the preceding instance (`keyPredicate`).  Same structure as the leaf-list part
(`UOBridgeLLDiff.lean`).  Core Lean only.
-/
namespace LyModel.Diff.UOB.KL
open LyModel LyModel.Tree LyModel.Diff LyModel.Diff.UOB
set_option linter.unusedSimpArgs false
set_option linter.unusedVariables false

/-- schema facts: `s` is a user-ordered configuration list whose only key is the leaf `s + 1` -/
structure KLCtx (S : Schema) (s : Nat) : Prop where
  kind : S.kind? s = some .list
  uo : S.isUserOrd s = true
  nk : S.nkeys s = 1
  key : S.isKey (s + 1) = true
  keyNoUO : S.isUserOrd (s + 1) = false
  nd : S.isDupInst s = false
  nameOk : 61 ∉ bs (S.name (s + 1))       -- no `=` in the name of the key (a YANG identifier)

theorem KLCtx.l {S : Schema} {s : Nat} (C : KLCtx S s) : S.isKind s .list = true := by
  simp [Schema.isKind, C.kind]
theorem KLCtx.nll {S : Schema} {s : Nat} (C : KLCtx S s) : S.isKind s .leaflist = false := by
  simp [Schema.isKind, C.kind]

/-- the key leaf of an instance -/
def keyLeaf (s : Nat) (k : Bytes) : DNode := .term (s + 1) {} [] k
/-- an instance of the list as `lyd_parse_data` / `lyd_new_list` build it: the key leaf only, no flags, no metadata -/
def klNode (s : Nat) (k : Bytes) : DNode := .inner s {} [] [keyLeaf s k]
/-- a sibling list made of instances of the list `s` only -/
def klForest (s : Nat) (ks : List Bytes) : List DNode := ks.map (klNode s)

/-- the key value of an instance -/
def keyOf (n : DNode) : Bytes :=
  match n.kids with
  | c :: _ => c.val
  | [] => []

/-- the shape of every instance that occurs (data tree or diff): exactly one child, the key leaf without metadata -/
def IsKL (s : Nat) (n : DNode) : Prop := ∃ f m kf k, n = .inner s f m [.term (s + 1) kf [] k]

@[simp] theorem klNode_sid (s : Nat) (v : Bytes) : (klNode s v).sid = s := rfl
@[simp] theorem klNode_key (s : Nat) (v : Bytes) : keyOf (klNode s v) = v := rfl
@[simp] theorem klNode_flags (s : Nat) (v : Bytes) : (klNode s v).flags = {} := rfl
@[simp] theorem klNode_kids (s : Nat) (v : Bytes) : (klNode s v).kids = [keyLeaf s v] := rfl
@[simp] theorem klNode_metas (s : Nat) (v : Bytes) : (klNode s v).metas = [] := rfl
theorem isKL_klNode (s : Nat) (v : Bytes) : IsKL s (klNode s v) := ⟨{}, [], {}, v, rfl⟩
theorem IsKL.sid {s : Nat} {n : DNode} (h : IsKL s n) : n.sid = s := by
  obtain ⟨f, m, kf, k, e⟩ := h; rw [e]; rfl

theorem keysOf_one {S : Schema} {s : Nat} (C : KLCtx S s) (kf : Flags) (m : List Meta) (k : Bytes) :
    keysOf S [DNode.term (s + 1) kf m k] = [DNode.term (s + 1) kf m k] := by
  simp [keysOf, List.takeWhile, DNode.sid, C.key]

theorem noKeys_one {S : Schema} {s : Nat} (C : KLCtx S s) (kf : Flags) (m : List Meta) (k : Bytes) :
    noKeys S [DNode.term (s + 1) kf m k] = [] := by
  simp [noKeys, List.dropWhile, DNode.sid, C.key]

theorem sameInst_kl {S : Schema} {s : Nat} (C : KLCtx S s) (x y : DNode) (hx : IsKL s x) (hy : IsKL s y) :
    sameInst S x y = decide (keyOf x = keyOf y) := by
  obtain ⟨f, m, kf, k, rfl⟩ := hx
  obtain ⟨f', m', kf', k', rfl⟩ := hy
  simp [sameInst, DNode.sid, DNode.kids, C.kind, C.nk, keysOf_one C, keysEq, DNode.val, keyOf, Bool.beq_eq_decide_eq]
  exact decide_eq_decide.mpr Iff.rfl

/-- inside the bridge `==` on byte strings is the one derived from decidable equality -/
local instance (priority := high) bytesBEqK : BEq Bytes := instBEqOfDecidableEq

theorem sameInst_klNode {S : Schema} {s : Nat} (C : KLCtx S s) (x y : Bytes) :
    sameInst S (klNode s x) (klNode s y) = decide (x = y) := sameInst_kl C _ _ (isKL_klNode s x) (isKL_klNode s y)

theorem tagNode_ctag (s : Nat) (va vb : List Bytes) (y : Bytes) (hy : y ∈ va ∨ y ∈ vb) :
    tagNode (klForest s va) (klForest s vb) (ctag va vb y) = some (klNode s y) := by
  unfold ctag tagNode klForest
  by_cases h : y ∈ va
  · simp [h, List.getElem?_map, idxOf_getElem?_of_mem h]
  · simp [h, List.getElem?_map, idxOf_getElem?_of_mem (hy.resolve_left h)]

theorem inst_get (s : Nat) (va vb v : List Bytes) (hv : ∀ y ∈ v, y ∈ va ∨ y ∈ vb) (q : Nat) :
    ((v.map (ctag va vb))[q]?).bind (tagNode (klForest s va) (klForest s vb)) = v[q]?.map (klNode s) := by
  rw [List.getElem?_map]
  cases h : v[q]? with
  | none => rfl
  | some y => simp [tagNode_ctag s va vb y (hv y (List.mem_of_getElem? h))]

/-- `lyd_path_list_predicate` of the instance with key `k`: `[name='k']` -/
def pred (S : Schema) (s : Nat) (k : Bytes) : Bytes := keyPredicate S (klNode s k)

/-- the anchor string: the predicate of the instance placed just before position `p` (empty = first) -/
def anchorStr (S : Schema) (s : Nat) (a : Option Bytes) : Bytes := (a.map (pred S s)).getD []

theorem klForest_get (s : Nat) (vs : List Bytes) (i : Nat) : (klForest s vs)[i]? = vs[i]?.map (klNode s) := by
  simp [klForest]

/-- first pass: an instance of the first tree without a match is deleted -/
theorem attrs_delete {S : Schema} {s : Nat} (C : KLCtx S s) (va vb v : List Bytes) (p i : Nat) (x : Bytes)
    (hv : ∀ y ∈ v, y ∈ va ∨ y ∈ vb) (nda : va.Nodup) (hi : va[i]? = some x) :
    ∃ ov, userordAttrs S true (klForest s va) (klForest s vb) ⟨s, v.map (ctag va vb), p⟩ (some i) none =
      (some { op := .delete, origKey := some ov }, ⟨s, (v.erase x).map (ctag va vb), p + 1⟩) := by
  have hx : x ∈ va := List.mem_of_getElem? hi
  have ht := ctag_first va vb nda hi
  have hidx := idxOfTag_ctag va vb v x hv (Or.inl hx)
  rw [ht] at hidx
  simp only [userordAttrs, Option.bind_none, Option.bind_some, C.nd, C.l, C.nll, hidx, map_eraseIdx, eraseIdx_idxOf]
  simp

/-- second pass: an instance of the second tree without a match is created behind the instance placed before it -/
theorem attrs_create {S : Schema} {s : Nat} (C : KLCtx S s) (va vb v : List Bytes) (p j : Nat) (y : Bytes)
    (hv : ∀ z ∈ v, z ∈ va ∨ z ∈ vb) (ndb : vb.Nodup) (hj : vb[j]? = some y) (hy : y ∉ va) :
    userordAttrs S true (klForest s va) (klForest s vb) ⟨s, v.map (ctag va vb), p⟩ none (some j) =
      (some { op := .create, key := some (anchorStr S s (anchorAt v p)) },
       ⟨s, (UOG.insertAt v p y).map (ctag va vb), p + 1⟩) := by
  have ht := ctag_second va vb ndb hj hy
  simp only [userordAttrs, Option.bind_none, Option.bind_some, C.nd, C.l, C.nll, klForest_get, hj, Option.map_some,
    inst_get s va vb v hv, Option.getD_some, ← ht, insertAt_map]
  unfold anchorAt anchorStr
  by_cases hp : p = 0
  · simp [hp]
  · cases hq : v[p - 1]? <;> simp [hp, hq, pred]

/-- second pass: a matched instance that already is at its place: no operation -/
theorem attrs_keep {S : Schema} {s : Nat} (C : KLCtx S s) (va vb v : List Bytes) (p i j : Nat) (y : Bytes)
    (hv : ∀ z ∈ v, z ∈ va ∨ z ∈ vb) (hi : va[i]? = some y) (hj : vb[j]? = some y) (hp : v[p]? = some y) :
    userordAttrs S true (klForest s va) (klForest s vb) ⟨s, v.map (ctag va vb), p⟩ (some i) (some j) =
      (none, ⟨s, v.map (ctag va vb), p + 1⟩) := by
  simp only [userordAttrs, Option.bind_none, Option.bind_some, C.nd, C.l, C.nll, klForest_get, hi, hj, Option.map_some,
    inst_get s va vb v hv, hp, sameInst_klNode C]
  simp

/-- second pass: a matched instance that is not at its place is moved behind the instance placed before it -/
theorem attrs_move {S : Schema} {s : Nat} (C : KLCtx S s) (va vb v : List Bytes) (p i j : Nat) (y : Bytes)
    (hv : ∀ z ∈ v, z ∈ va ∨ z ∈ vb) (nda : va.Nodup) (hi : va[i]? = some y) (hj : vb[j]? = some y)
    (hp : v[p]? ≠ some y) :
    ∃ ov, userordAttrs S true (klForest s va) (klForest s vb) ⟨s, v.map (ctag va vb), p⟩ (some i) (some j) =
      (some { op := .replace, origKey := some ov, key := some (anchorStr S s (anchorAt v p)) },
       ⟨s, (UOG.insertAt (v.erase y) p y).map (ctag va vb), p + 1⟩) := by
  have hx : y ∈ va := List.mem_of_getElem? hi
  have ht := ctag_first va vb nda hi
  have hidx := idxOfTag_ctag va vb v y hv (Or.inl hx)
  rw [ht] at hidx
  refine ⟨if v.idxOf y = 0 then [] else ((v[v.idxOf y - 1]?).map (fun z => keyPredicate S (klNode s z))).getD [], ?_⟩
  simp only [userordAttrs, Option.bind_none, Option.bind_some, C.nd, C.l, C.nll, klForest_get, hi, hj, Option.map_some,
    inst_get s va vb v hv, hidx, map_eraseIdx, eraseIdx_idxOf, Option.getD_some]
  simp only [← ht, insertAt_map]
  have hne : ∀ z, v[p]? = some z → ¬ (y = z) := by
    intro z hq e; apply hp; rw [hq, e]
  have hanch : (if p = 0 then [] else ((v[p - 1]?).map (fun z => keyPredicate S (klNode s z))).getD []) =
      anchorStr S s (anchorAt v p) := by
    unfold anchorAt anchorStr
    by_cases hp0 : p = 0
    · simp [hp0]
    · cases hq : v[p - 1]? <;> simp [hp0, hq, pred]
  have hcomp : (keyPredicate S ∘ klNode s) = (fun z => keyPredicate S (klNode s z)) := rfl
  cases hq0 : v[p]? with
  | none => simp [← hanch, hcomp]
  | some z => simp [sameInst_klNode C, hne z hq0, ← hanch, hcomp]

/-! ## `lyd_diff_find_match` among the instances -/

theorem matchPred_kl {S : Schema} {s : Nat} (C : KLCtx S s) (x z : Bytes) (used : List Nat) (i : Nat) :
    matchPred S (klNode s x) used (klNode s z) i = decide (z = x) := by
  simp [matchPred, C.l, C.nd, instMatch, sameInst_klNode C]

theorem findIdxFrom_kl {S : Schema} {s : Nat} (C : KLCtx S s) (x : Bytes) (used : List Nat) :
    ∀ (vs : List Bytes) (k : Nat), findIdxFrom (matchPred S (klNode s x) used) (klForest s vs) k =
      if x ∈ vs then some (vs.idxOf x + k) else none
  | [], k => by simp [klForest, findIdxFrom]
  | z :: zs, k => by
    have ih := findIdxFrom_kl C x used zs (k + 1)
    unfold klForest at ih ⊢
    by_cases e : z = x
    · subst e; simp [findIdxFrom, matchPred_kl C, List.idxOf_cons]
    · have e' : (z == x) = false := by simpa using e
      have e2 : ¬ x = z := fun h => e h.symm
      simp only [List.map_cons, findIdxFrom, matchPred_kl C, e, decide_false, Bool.false_eq_true, if_false, ih,
        List.mem_cons, e2, false_or, List.idxOf_cons, e', cond_false]
      split <;> simp <;> omega

theorem findMatch_kl_some {S : Schema} {s : Nat} (C : KLCtx S s) (vs : List Bytes) (x : Bytes) (used : List Nat)
    (hx : x ∈ vs) : findMatch S (klForest s vs) (klNode s x) true used = (some (vs.idxOf x), used) := by
  simp [findMatch, findIdxFrom_kl C, hx, C.nd, klForest_get, idxOf_getElem?_of_mem hx]

theorem findMatch_kl_none {S : Schema} {s : Nat} (C : KLCtx S s) (vs : List Bytes) (x : Bytes) (used : List Nat)
    (hx : x ∉ vs) : findMatch S (klForest s vs) (klNode s x) true used = (none, used) := by
  simp [findMatch, findIdxFrom_kl C, hx]

end LyModel.Diff.UOB.KL
