import LyModel.Diff.MergeDiff
/-!
# Observation of data trees after apply, and the two laws of C13 as executable functions

`dataEqL true` is `lyd_compare_siblings(a, b, LYD_COMPARE_FULL_RECURSION | LYD_COMPARE_DEFAULTS) == LY_SUCCESS` on
canonically ordered trees: structure, values and the default flag of leaves / leaf-list instances; metadata, `LYD_NEW`,
`LYD_WHEN_TRUE` and the default flag of containers are not compared.

When the diffs were computed without `LYD_DIFF_DEFAULTS` they say nothing about default nodes; the harness re-validates
the result (validation removes stale default nodes and adds the missing ones) and compares without the flag.  A valid tree
is a function of its explicit part, so the model compares the explicit parts (`explicitL`): no default-flagged term that
has a default value of its schema node (a default-flagged term with another value — merge can produce one — survives
validation and is compared like an explicit one), no non-presence container without explicit content.
Core Lean only.
-/
namespace LyModel.Diff
open LyModel LyModel.Tree

mutual
def dataEq (dflt : Bool) : DNode → DNode → Bool
  | .inner s _ _ k, .inner s' _ _ k' => s == s' && dataEqL dflt k k'
  | .term s f _ v, .term s' f' _ v' => s == s' && v == v' && (!dflt || f.dflt == f'.dflt)
  | _, _ => false
def dataEqL (dflt : Bool) : List DNode → List DNode → Bool
  | [], [] => true
  | a :: as, b :: bs => dataEq dflt a b && dataEqL dflt as bs
  | _, _ => false
end

/-- `v` is a default value of the leaf / leaf-list `sid` -/
def isSchemaDflt (S : Schema) (sid : Nat) (v : Bytes) : Bool :=
  match S.get? sid with
  | some n => n.dflts.contains v
  | none => false

mutual
/-- the explicit part of a subtree (`none`: nothing explicit in it) -/
def explicit (S : Schema) : DNode → Option DNode
  | .inner s f m ks =>
    let ks' := explicitL S ks
    if S.isNpCont s && ks'.isEmpty then none else some (.inner s f m ks')
  | .term s f m v => if f.dflt && isSchemaDflt S s v then none else some (.term s f m v)
def explicitL (S : Schema) : List DNode → List DNode
  | [] => []
  | n :: ns =>
    match explicit S n with
    | some n' => n' :: explicitL S ns
    | none => explicitL S ns
end

mutual
/-- the complement of `explicit`: the default-flagged terms with a schema default value, under their ancestors (list keys kept) -/
def dfltPart (S : Schema) : DNode → Option DNode
  | .inner s f m ks =>
    let ks' := dfltPartL S ks
    if ks'.isEmpty then none else some (.inner s f m (keysOf S ks ++ ks'))
  | .term s f m v => if f.dflt && isSchemaDflt S s v then some (.term s f m v) else none
def dfltPartL (S : Schema) : List DNode → List DNode
  | [] => []
  | n :: ns =>
    match dfltPart S n with
    | some n' => n' :: dfltPartL S ns
    | none => dfltPartL S ns
end

/-- every node of `xs` has a counterpart (same instance) among `ys`, recursively -/
def subForest (S : Schema) : (fuel : Nat) → List DNode → List DNode → Bool
  | 0, _, _ => false
  | fuel + 1, xs, ys =>
    xs.all fun x =>
      S.isKey x.sid ||
      ys.any fun y => x.sid == y.sid && (if x.isTerm then x.val == y.val else sameInst S x y) && subForest S fuel x.kids y.kids

/-- Without `LYD_DIFF_DEFAULTS`: default nodes in `x` (the tree after apply) that `y` (the wanted tree) does not have.  What
re-validation does with them depends on their `LYD_NEW` flags and on the cases of the choices they belong to
(`lyd_validate_new`), which is not modelled: the verdict is then `unknown`. -/
def staleDefaults (S : Schema) (x y : List DNode) : Bool :=
  !subForest S (heightL x + 1) (dfltPartL S x) y

mutual
/-- like `explicit`, but a leaf with its schema default value counts as absent whether it is flagged or not: after
re-validation an explicit leaf with the default value and the implicit default leaf compare equal (values only) -/
def explicitD (S : Schema) : DNode → Option DNode
  | .inner s f m ks =>
    let ks' := explicitDL S ks
    if S.isNpCont s && ks'.isEmpty then none else some (.inner s f m ks')
  | .term s f m v => if (f.dflt || S.isKind s .leaf) && isSchemaDflt S s v then none else some (.term s f m v)
def explicitDL (S : Schema) : List DNode → List DNode
  | [] => []
  | n :: ns =>
    match explicitD S n with
    | some n' => n' :: explicitDL S ns
    | none => explicitDL S ns
end

/-- equality of data trees at C13's observation point; `dflt`: the diffs were made with `LYD_DIFF_DEFAULTS` -/
def obsEq (S : Schema) (dflt : Bool) (x y : List DNode) : Bool :=
  if dflt then dataEqL true x y else dataEqL false (explicitL S x) (explicitL S y)

/-- the verdict token of the driver: `same | differs | unknown` -/
def obsVerdict (S : Schema) (dflt : Bool) (x y : List DNode) : String :=
  if !obsEq S dflt x y then
    -- the explicit parts differ only in leaves that have their schema default value: depends on re-validation
    if !dflt && dataEqL false (explicitDL S x) (explicitDL S y) then "unknown" else "differs"
  else if !dflt && staleDefaults S x y then "unknown"
  else "same"

/-- `apply` with the error type of this component -/
def applyD (S : Schema) (fx : Fixes) (data d : List DNode) : Except DiffErr (List DNode) :=
  match apply S data d fx with
  | .ok r => .ok r
  | .error e => .error (DiffErr.ofA e)

/-- law 1: the reversed diff of (A, B) applied to B -/
def reverseApply (S : Schema) (dflt : Bool) (A B : List DNode) (fx : Fixes := {}) : Except DiffErr (List DNode) :=
  (reverse S (diff S dflt A B)).bind (applyD S fx B)

/-- law 2: the merge of diff(A, B) and diff(B, C) applied to A -/
def mergeApply (S : Schema) (dflt : Bool) (o : MergeOpts) (A B C : List DNode) (fx : Fixes := {}) :
    Except DiffErr (List DNode) :=
  (mergeDiff o S (diff S dflt A B) (diff S dflt B C)).bind (applyD S fx A)

end LyModel.Diff
