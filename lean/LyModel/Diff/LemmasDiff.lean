import LyModel.Diff.LemmasWF
/-!
# `lyd_diff_siblings_r` on the fragment: the diff of a tree with itself is empty (C06 proofs)
Core Lean only.
-/
namespace LyModel.Diff
open LyModel LyModel.Tree

/-- `lyd_diff_find_match` for a target that is not a duplicate-instance node: the first sibling `lyd_compare_single`
accepts, dropped when it is a default node and defaults are ignored; the cache is not touched -/
theorem findMatch_plain (S : Schema) (sibs : List DNode) (t : DNode) (d : Bool) (used : List Nat)
    (h : S.isDupInst t.sid = false) :
    findMatch S sibs t d used =
      ((sibs.findIdx? (matchK S t)).bind (fun i =>
          if (sibs[i]?.map (·.flags.dflt)).getD false && !d then none else some i), used) := by
  have hf : matchPred S t used = (fun x _ => matchK S t x) := by
    funext x i
    simp [matchPred, matchK, instMatch, h]
  unfold findMatch
  rw [hf, findIdxFrom_zero]
  cases sibs.findIdx? (matchK S t) with
  | none => rfl
  | some i =>
    simp only [Option.bind_some, h, Bool.false_eq_true, if_false]
    split <;> rfl

theorem foldl_fixed {α β : Type} (f : β → α → β) (b : β) : ∀ (l : List α), (∀ x ∈ l, f b x = b) → l.foldl f b = b
  | [], _ => rfl
  | x :: xs, h => by
    simp only [List.foldl_cons, h x (by simp)]
    exact foldl_fixed f b xs (fun y hy => h y (by simp [hy]))

theorem plainAttrs_self (S : Schema) (d : Bool) (a : DNode) : plainAttrs S d (some a) (some a) = none := by
  unfold plainAttrs
  simp only [bne_self_eq_false, Bool.and_false, sameInst_refl, Bool.not_true, Bool.false_eq_true, if_false]
  cases S.kind? a.sid with
  | none => rfl
  | some k => cases k <;> rfl

theorem mem_zipIdx_getElem? {α : Type} (l : List α) (x : α) (i : Nat) (h : (x, i) ∈ l.zipIdx) : l[i]? = some x := by
  have := List.mem_zipIdx h
  simp_all

theorem canonB_sublist (S : Schema) : ∀ {l l' : List DNode}, l'.Sublist l → canonB S l = true → canonB S l' = true
  | _, _, .slnil, h => h
  | _, _, .cons a hs, h => canonB_sublist S hs ((canonB_cons S a _).1 h).2
  | _, _, .cons_cons a hs, h => by
    have h' := (canonB_cons S a _).1 h
    exact (canonB_cons S a _).2 ⟨fun y hy => h'.1 y (hs.subset hy), canonB_sublist S hs h'.2⟩

theorem noKeys_sublist (S : Schema) (ks : List DNode) : (noKeys S ks).Sublist ks := List.dropWhile_sublist _

theorem heightL_mem : ∀ (l : List DNode) (x : DNode), x ∈ l → x.height ≤ heightL l
  | [], _, h => by simp at h
  | n :: ns, x, h => by
    simp only [heightL]
    rcases List.mem_cons.1 h with h | h
    · subst h; exact Nat.le_max_left _ _
    · exact Nat.le_trans (heightL_mem ns x h) (Nat.le_max_right _ _)

theorem heightL_sublist : ∀ {l l' : List DNode}, l'.Sublist l → heightL l' ≤ heightL l
  | _, _, .slnil => Nat.le_refl _
  | _, _, .cons a hs => Nat.le_trans (heightL_sublist hs) (by simp only [heightL]; exact Nat.le_max_right _ _)
  | _, _, .cons_cons a hs => by
    simp only [heightL]
    exact Nat.max_le.2 ⟨Nat.le_max_left _ _, Nat.le_trans (heightL_sublist hs) (Nat.le_max_right _ _)⟩

/-- **the level lemma**: on a well-formed sibling list the diff with itself adds nothing -/
theorem diffSiblings_self (S : Schema) (d : Bool) : ∀ (fuel : Nat) (top : Bool) (l : List DNode),
    wfL S l = true → canonB S l = true → diffSiblings S d fuel top l l = {}
  | 0, _, _, _, _ => rfl
  | fuel + 1, top, l, hw, hc => by
    have hshape : ∀ x ∈ l, shapeOk S x = true := fun x hx => wfNode_shape S x (wfL_mem S l x hw hx)
    have hfind : ∀ (a : DNode) (i : Nat), (a, i) ∈ l.zipIdx →
        findMatch S l a d [] = (if a.flags.dflt && !d then none else some i, []) := by
      intro a i hm
      have hg := mem_zipIdx_getElem? l a i hm
      have hnd := plainSid_not_dupInst S a.sid (wfNode_plain S a (wfL_mem S l a hw (List.mem_of_getElem? hg)))
      rw [findMatch_plain S l a d [] hnd, findIdx_self S l i a hc hshape hg]
      simp [hg]
    -- first pass
    have h1 : l.zipIdx.foldl (phase1Step S d top (diffSiblings S d fuel false) l l) {} = {} := by
      apply foldl_fixed
      intro p hp
      obtain ⟨a, i⟩ := p
      have hg := mem_zipIdx_getElem? l a i hp
      have hwa := wfL_mem S l a hw (List.mem_of_getElem? hg)
      have hnu := plainSid_not_userOrd S a.sid (wfNode_plain S a hwa)
      unfold phase1Step
      by_cases hd : (a.flags.dflt && !d) = true
      · simp [hd]
      · have hpp : phase1Plain S d l {} a (some i) = {} := by
          unfold phase1Plain
          simp only [hg, Option.bind_some, plainAttrs_self]
        simp only [hd, Bool.false_eq_true, if_false, hfind a i hp, hnu, hg, Option.bind_some, hpp]
        -- the recursion into the pair (a, a)
        cases a with
        | term s f m v => simp [wrapParent, noKeys, DNode.kids, diffSiblings_self S d fuel false [] rfl rfl]
        | inner s f m ks =>
          have hi := wfNode_inner S s f m ks hwa
          have hsub := noKeys_sublist S ks
          have hwk : wfL S (noKeys S ks) = true :=
            wfL_of_forall S _ (fun x hx => wfL_mem S ks x hi.kids (hsub.subset hx))
          have := diffSiblings_self S d fuel false (noKeys S ks) hwk (canonB_sublist S hsub hi.canon)
          simp [wrapParent, DNode.kids, this]
    -- second pass
    have h2 : l.zipIdx.foldl (phase2Step S d l l) {} = {} := by
      apply foldl_fixed
      intro p hp
      obtain ⟨b, j⟩ := p
      have hg := mem_zipIdx_getElem? l b j hp
      have hwb := wfL_mem S l b hw (List.mem_of_getElem? hg)
      have hnu := plainSid_not_userOrd S b.sid (wfNode_plain S b hwb)
      unfold phase2Step
      by_cases hd : (b.flags.dflt && !d) = true
      · simp [hd]
      · simp [hd, hfind b j hp, hnu]
    simp only [diffSiblings, h1]
    exact h2

end LyModel.Diff
