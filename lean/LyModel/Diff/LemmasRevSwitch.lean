import LyModel.Diff.Exact13
/-!
# `Diff.reverse` with the repair of finding F15 is the pinned `lyd_diff_reverse_all` on diffs without user-ordered nodes

`Diff.reverse` follows `Generated.Diff13.reverseUserordRepaired` (Diff/Reverse.lean).  The second pass of the repaired code
touches user-ordered nodes only; the DFS loop (`revL`) keeps schema nodes and shape, so for a diff without user-ordered nodes
(`uoFreeL`) — in particular for every exact diff of the C13 fragment (`exactK`) — `reverse` is `revL S none (revDupL D)`
whatever the value of the switch is.  This keeps the C13 theorems about the fragment valid for both values.
-/
namespace LyModel.Diff
open LyModel LyModel.Tree

theorem noUO_setMetas (S : Schema) (x : DNode) (m : List Meta) : uoFreeN S (x.setMetas m) = uoFreeN S x := by
  cases x <;> simp [DNode.setMetas, uoFreeN]
theorem noUO_setFlags (S : Schema) (x : DNode) (f : Flags) : uoFreeN S (x.setFlags f) = uoFreeN S x := by
  cases x <;> simp [DNode.setFlags, uoFreeN]
theorem noUO_setVal (S : Schema) (x : DNode) (v : Bytes) : uoFreeN S (x.setVal v) = uoFreeN S x := by
  cases x <;> simp [DNode.setVal, uoFreeN]
theorem noUO_setDflt (S : Schema) (x : DNode) (b : Bool) : uoFreeN S (x.setDflt b) = uoFreeN S x := by
  simp [DNode.setDflt, noUO_setFlags]
theorem noUO_changeOp (S : Schema) (x : DNode) (op : Op) : uoFreeN S (changeOp x op) = uoFreeN S x := by
  simp [changeOp, noUO_setMetas]

mutual
theorem noUO_revDup (S : Schema) : ∀ x, uoFreeN S (revDup x) = uoFreeN S x
  | .inner s f m ks => by simp [revDup, uoFreeN, noUO_revDupL S ks]
  | .term s f m v => by simp [revDup, uoFreeN]
theorem noUO_revDupL (S : Schema) : ∀ l, uoFreeL S (revDupL l) = uoFreeL S l
  | [] => rfl
  | x :: xs => by simp [revDupL, uoFreeL, noUO_revDup S x, noUO_revDupL S xs]
end

mutual
theorem noUO_removeOp (S : Schema) (op : Op) : ∀ x, uoFreeN S (removeOp op x).1 = uoFreeN S x
  | .inner s f m ks => by
    simp only [removeOp]
    split
    · split
      · rfl
      · simp [uoFreeN, noUO_removeOpL S op ks]
    · simp [uoFreeN, noUO_removeOpL S op ks]
  | .term s f m v => by
    simp only [removeOp]
    split
    · split <;> simp [uoFreeN]
    · rfl
theorem noUO_removeOpL (S : Schema) (op : Op) : ∀ l, uoFreeL S (removeOpL op l).1 = uoFreeL S l
  | [] => rfl
  | k :: ks => by
    simp only [removeOpL]
    split
    · simp [uoFreeL, noUO_removeOp S op k]
    · simp [uoFreeL, noUO_removeOp S op k, noUO_removeOpL S op ks]
end

theorem noUO_map_removeOp (S : Schema) (op : Op) (l : List DNode) :
    uoFreeL S (l.map fun k => (removeOp op k).1) = uoFreeL S l := by
  induction l with
  | nil => rfl
  | cons x xs ih => simp [uoFreeL, noUO_removeOp S op x, ih]

theorem noUO_kids (S : Schema) (x : DNode) (hk : S.isKey x.sid = false) (h : uoFreeN S x = true) : uoFreeL S x.kids = true := by
  cases x with
  | inner s f m ks =>
    simp only [DNode.sid] at hk
    simp only [uoFreeN, hk, Bool.false_or, Bool.and_eq_true] at h; exact h.2
  | term s f m v => rfl

theorem noUO_setKids (S : Schema) (x : DNode) (ks : List DNode) (h : uoFreeN S x = true) (hk : uoFreeL S ks = true) :
    uoFreeN S (x.setKids ks) = true := by
  cases x with
  | inner s f m ks' =>
    simp only [DNode.setKids, uoFreeN, Bool.or_eq_true, Bool.and_eq_true] at h ⊢
    rcases h with h | h
    · exact Or.inl h
    · exact Or.inr ⟨h.1, hk⟩
  | term s f m v => simpa [DNode.setKids] using h

theorem noUO_revValue {S : Schema} {n n' : DNode} (h : revValue n = .ok n') : uoFreeN S n' = uoFreeN S n := by
  unfold revValue at h
  split at h
  · cases h
  · split at h
    · cases h
    · cases h; simp [noUO_setMetas, noUO_setVal]

theorem noUO_revDefault {S : Schema} {n n' : DNode} (h : revDefault n = .ok n') : uoFreeN S n' = uoFreeN S n := by
  unfold revDefault at h
  split at h
  · cases h
  · simp only at h
    split at h
    · cases h; rfl
    · cases h; simp [noUO_setMetas, noUO_setDflt]

theorem noUO_revMeta {S : Schema} {n n' : DNode} {a b : String} (h : revMeta n a b = .ok n') :
    uoFreeN S n' = uoFreeN S n := by
  unfold revMeta at h
  split at h
  · split at h
    · cases h
    · cases h; simp [noUO_setMetas]
  · cases h

theorem noUO_revPos {S : Schema} {n n' : DNode} (h : revPos n = .ok n') : uoFreeN S n' = uoFreeN S n := by
  unfold revPos at h
  split at h
  · unfold revPosition at h
    split at h
    · cases h; simp [noUO_setMetas]
    · cases h
  · exact noUO_revMeta h

theorem noUO_revReplace {S : Schema} {n n' : DNode} (h : revReplace S n = .ok n') : uoFreeN S n' = uoFreeN S n := by
  unfold revReplace at h
  split at h
  · cases hv : revValue n with
    | error e => simp [hv, Except.bind] at h
    | ok n1 =>
      simp only [hv, Except.bind] at h
      rw [noUO_revDefault h, noUO_revValue hv]
  · cases hv : revDefault n with
    | error e => simp [hv, Except.bind] at h
    | ok n1 =>
      simp only [hv, Except.bind] at h
      split at h
      · rw [noUO_revPos h, noUO_revDefault hv]
      · rw [noUO_revMeta h, noUO_revDefault hv]
  · split at h
    · exact noUO_revPos h
    · exact noUO_revMeta h
  · cases h

theorem noUO_revNone {S : Schema} {n n' : DNode} (h : revNone S n = .ok n') : uoFreeN S n' = uoFreeN S n := by
  unfold revNone at h
  split at h
  · exact noUO_revDefault h
  · cases h; rfl

mutual
/-- the DFS loop of `lyd_diff_reverse_all` keeps schema nodes and shape: no user-ordered node appears -/
theorem noUO_revNode (S : Schema) (inh : Option Op) : ∀ (c c' : DNode), revNode S inh c = .ok c' → uoFreeN S c = true →
    uoFreeN S c' = true
  | .inner s f m ks, c', h, hn => by
    simp only [revNode] at h
    split at h
    · cases h; exact hn
    · rename_i hkey
      have hkey' : S.isKey (DNode.inner s f m ks).sid = false := by simpa [DNode.sid] using hkey
      have hks : uoFreeL S ks = true := noUO_kids S _ hkey' hn
      split at h
      · cases h
      · cases h
        exact noUO_setKids S _ _ (by rw [noUO_changeOp]; exact hn) (by rw [noUO_map_removeOp]; exact hks)
      · cases h
        exact noUO_setKids S _ _ (by rw [noUO_changeOp]; exact hn) (by rw [noUO_map_removeOp]; exact hks)
      · split at h
        · cases h
        · rename_i n1 hr
          split at h
          · cases h
          · rename_i ks' hl
            cases h
            exact noUO_setKids S _ _ (by rw [noUO_revReplace hr]; exact hn) (noUO_revL S _ ks ks' hl hks)
      · split at h
        · cases h
        · rename_i ks' hl
          cases h
          exact noUO_setKids S (.inner s f m ks) ks' hn (noUO_revL S _ ks ks' hl hks)
  | .term s f m v, c', h, hn => by
    simp only [revNode] at h
    split at h
    · cases h; exact hn
    · split at h
      · cases h
      · cases h; rw [noUO_changeOp]; exact hn
      · cases h; rw [noUO_changeOp]; exact hn
      · rw [noUO_revReplace h]; exact hn
      · rw [noUO_revNone h]; exact hn
theorem noUO_revL (S : Schema) (inh : Option Op) : ∀ (l l' : List DNode), revL S inh l = .ok l' → uoFreeL S l = true →
    uoFreeL S l' = true
  | [], l', h, _ => by simp only [revL] at h; cases h; rfl
  | n :: ns, l', h, hn => by
    simp only [revL] at h
    split at h
    · cases h
    · rename_i n' hn'
      split at h
      · cases h
      · rename_i ns' hns'
        cases h
        simp only [uoFreeL, Bool.and_eq_true] at hn ⊢
        exact ⟨noUO_revNode S inh n n' hn' hn.1, noUO_revL S inh ns ns' hns' hn.2⟩
end

/-- on a diff without user-ordered nodes `reverse` is the DFS loop alone, for both values of the switch -/
theorem reverse_of_noUO {S : Schema} {D R : List DNode} (hD : uoFreeL S D = true) (h : revL S none (revDupL D) = .ok R) :
    reverse S D = .ok R := by
  have hR : uoFreeL S R = true := noUO_revL S none _ R h (by rw [noUO_revDupL]; exact hD)
  unfold reverse reverseRepaired reversePinned
  split
  · simp [h, hR]
  · exact h

/-! ## an exact diff of the fragment has no user-ordered node -/

mutual
theorem noUO_of_goodN (S : Schema) : ∀ x, goodN S x = true → uoFreeN S x = true
  | .inner s f m ks, h => by
    simp only [goodN, domB, Bool.and_eq_true, DNode.sid] at h
    simp only [uoFreeN, Bool.or_eq_true, Bool.and_eq_true]
    exact Or.inr ⟨h.1.1.1.1, noUO_of_goodL S ks h.1.2⟩
  | .term s f m v, h => by
    simp only [goodN, domB, Bool.and_eq_true, DNode.sid] at h
    simp only [uoFreeN, Bool.or_eq_true]
    exact Or.inr h.1.1
theorem noUO_of_goodL (S : Schema) : ∀ l, goodL S l = true → uoFreeL S l = true
  | [], _ => rfl
  | x :: xs, h => by
    simp only [goodL, Bool.and_eq_true] at h
    simp [uoFreeL, noUO_of_goodN S x h.1.1, noUO_of_goodL S xs h.2]
end

theorem noUO_of_goodT (S : Schema) (l : List DNode) (h : goodT S l = true) : uoFreeL S l = true := by
  simp only [goodT, Bool.and_eq_true] at h
  exact noUO_of_goodL S l h.1

mutual
theorem noUO_of_exactE (S : Schema) (inh : Option Op) (e : Option DNode) : ∀ c, exactE S inh e c = true → uoFreeN S c = true
  | .inner s f m ks, h => by
    simp only [exactE, Bool.and_eq_true] at h
    obtain ⟨⟨⟨hd, _⟩, _⟩, hm⟩ := h
    have hs : (!S.isUserOrd s) = true := by
      simp only [domB, Bool.and_eq_true, DNode.sid] at hd
      exact hd.1.1
    simp only [uoFreeN, Bool.or_eq_true, Bool.and_eq_true]
    refine Or.inr ⟨hs, ?_⟩
    split at hm
    · simp only [Bool.and_eq_true] at hm; exact noUO_of_goodT S ks hm.2
    · simp only [Bool.and_eq_true] at hm; exact noUO_of_goodT S ks hm.2
    · simp only [Bool.and_eq_true] at hm; exact noUO_of_exactK S _ _ true ks hm.2
    · cases hm
  | .term s f m v, h => by
    simp only [exactE, Bool.and_eq_true] at h
    obtain ⟨⟨⟨hd, _⟩, _⟩, _⟩ := h
    simp only [domB, Bool.and_eq_true, DNode.sid] at hd
    simp only [uoFreeN, Bool.or_eq_true]
    exact Or.inr hd.1.1
theorem noUO_of_exactK (S : Schema) (inh : Option Op) (L : List DNode) : ∀ (leading : Bool) (D : List DNode),
    exactK S inh L leading D = true → uoFreeL S D = true
  | _, [], _ => rfl
  | leading, c :: cs, h => by
    simp only [exactK] at h
    split at h
    · rename_i hk
      simp only [Bool.and_eq_true] at hk
      have hc : uoFreeN S c = true := by
        cases c with
        | inner s f m ks => simp only [DNode.sid] at hk; simp [uoFreeN, hk.2]
        | term s f m v => simp only [DNode.sid] at hk; simp [uoFreeN, hk.2]
      simp [uoFreeL, hc, noUO_of_exactK S inh L true cs h]
    · simp only [Bool.and_eq_true] at h
      simp [uoFreeL, noUO_of_exactE S inh _ c h.1.1.1, noUO_of_exactK S inh L false cs h.2]
end

theorem noUO_of_exactDiff {S : Schema} {A D : List DNode} (h : exactDiff S A D = true) : uoFreeL S D = true :=
  noUO_of_exactK S none A false D h

end LyModel.Diff
