import LyModel.Diff.UOBridgeNBFold
/-!
# Bridge (C06) — Stage 3a, part 4: `lyd_diff_siblings` on `P ++ instances ++ Q` = image of the core's `UOG.diffU`
-/
namespace LyModel.Diff.UOB.NB
open LyModel LyModel.Tree LyModel.Diff LyModel.Diff.UOB
set_option linter.unusedSimpArgs false
set_option linter.unusedVariables false
local instance (priority := high) bytesBEqN4 : BEq Bytes := instBEqOfDecidableEq

theorem fold1_inert {S : Schema} {s : Nat} {P Q : List DNode} (N : NBCtx S s P Q) (va vb : List Bytes) (top : Bool)
    (recur : List DNode → List DNode → St) (hrec : (recur [] []).out = []) :
    ∀ (L : List DNode) (k : Nat) (st : St), (∀ a ∈ L, a ∈ P ++ Q) →
      (L.zipIdx k).foldl (phase1Step S true top recur (nbForest s P Q va) (nbForest s P Q vb)) st = st
  | [], _, _, _ => rfl
  | a :: as, k, st, h => by
    rw [List.zipIdx_cons, List.foldl_cons, phase1Step_inert N va vb (h a (by simp)) k st top recur hrec]
    exact fold1_inert N va vb top recur hrec as (k + 1) st (fun b hb => h b (by simp [hb]))

theorem fold2_inert {S : Schema} {s : Nat} {P Q : List DNode} (N : NBCtx S s P Q) (va vb : List Bytes) :
    ∀ (L : List DNode) (k : Nat) (st : St), (∀ a ∈ L, a ∈ P ++ Q) →
      (L.zipIdx k).foldl (phase2Step S true (nbForest s P Q va) (nbForest s P Q vb)) st = st
  | [], _, _, _ => rfl
  | a :: as, k, st, h => by
    rw [List.zipIdx_cons, List.foldl_cons, phase2Step_inert N va vb (h a (by simp)) k st]
    exact fold2_inert N va vb as (k + 1) st (fun b hb => h b (by simp [hb]))

theorem zipIdx_nb (s : Nat) (P Q : List DNode) (vs : List Bytes) :
    (nbForest s P Q vs).zipIdx = P.zipIdx ++ (llForest s vs).zipIdx P.length ++ Q.zipIdx (P.length + vs.length) := by
  unfold nbForest
  simp [List.zipIdx_append, llForest]

theorem filter_sid_none (s : Nat) : ∀ (L : List DNode) (k : Nat), (∀ n ∈ L, n.sid ≠ s) →
    ((L.zipIdx k).filter fun p => p.1.sid == s) = []
  | [], _, _ => rfl
  | a :: as, k, h => by
    have : (a.sid == s) = false := by simpa using h a (by simp)
    simp only [List.zipIdx_cons, List.filter_cons, this, Bool.false_eq_true, if_false]
    exact filter_sid_none s as (k + 1) (fun b hb => h b (by simp [hb]))

theorem initInst_nb {S : Schema} {s : Nat} {P Q : List DNode} (N : NBCtx S s P Q) (va vb : List Bytes) (nda : va.Nodup) :
    (instIdxs (nbForest s P Q va) s).map (fun i => (false, i)) = va.map (ctagO P.length va vb) := by
  unfold instIdxs
  rw [zipIdx_nb, List.filter_append, List.filter_append, filter_sid_none s P 0 N.neP, filter_sid_none s Q _ N.neQ]
  simp only [List.nil_append, List.append_nil]
  rw [instIdxs_ll_aux s va P.length]
  apply List.ext_getElem?
  intro i
  simp only [List.getElem?_map]
  by_cases hi : i < va.length
  · have h1 : va[i]? = some va[i] := List.getElem?_eq_getElem hi
    rw [h1]
    simp [List.getElem?_range', hi, ctagO_first P.length va vb nda h1]
  · have h1 : va[i]? = none := List.getElem?_eq_none (by omega)
    simp [h1, List.getElem?_range', hi]

/-- **Simulation of `lyd_diff_siblings` by the core, with inert neighbours.** -/
theorem diffFull_nb {S : Schema} {s : Nat} (C : LLCtx S s) {P Q : List DNode} (N : NBCtx S s P Q) (fx : Fixes)
    (va vb : List Bytes) (nda : va.Nodup) (ndb : vb.Nodup) (hne : [] ∉ vb) :
    ∃ nodes, diffFull S true (nbForest s P Q va) (nbForest s P Q vb) fx = (nodes, 0) ∧ OpNodes s nodes (UOG.diffU va vb) := by
  unfold diffFull
  generalize Nat.max (heightL (nbForest s P Q va)) (heightL (nbForest s P Q vb)) = fuel
  simp only [diffSiblings]
  have hrec := diffSiblings_nil_out S fuel
  have hP : ∀ a ∈ P, a ∈ P ++ Q := fun a h => by simp [h]
  have hQ : ∀ a ∈ Q, a ∈ P ++ Q := fun a h => by simp [h]
  -- first pass
  rw [zipIdx_nb, List.foldl_append, List.foldl_append, fold1_inert N va vb true _ hrec P 0 {} hP]
  obtain ⟨st1, p1, e1, u1, u1', m1, o1, out1, us1, pt1⟩ :=
    phase1_fold C N va vb nda true (diffSiblings S true fuel false) hrec va [] {} va 0 []
      (by simp) (fun y hy => Or.inl hy)
      (by simp [uoGet, uoFind, initInst_nb N va vb nda]) .nil (by intro n hn; simp at hn) rfl
  simp only [List.length_nil, Nat.add_zero] at e1
  rw [e1, fold1_inert N va vb true _ hrec Q _ st1 hQ]
  have hspec := UOG.phase1_spec vb va [] [] (by simpa using nda)
  simp only [List.nil_append] at hspec
  have hv1 : ∀ z ∈ (UOG.phase1 vb va ([], va)).2, z ∈ vb := by
    rw [hspec]; intro z hz; simpa using (List.mem_filter.mp hz).2
  -- between the passes
  have huo : ∀ hf, uoGet (resetPhase st1).uo s (nbForest s P Q va) hf =
      ⟨s, (UOG.phase1 vb va ([], va)).2.map (ctagO P.length va vb), 0⟩ := by
    intro hf
    cases va with
    | nil =>
      simp only [llForest, List.map_nil, List.zipIdx_nil, List.foldl_nil] at e1
      subst e1
      have hi : instIdxs (nbForest s P Q []) s = [] := by
        have := initInst_nb N [] vb List.nodup_nil
        simpa using this
      cases hf <;> simp [resetPhase, uoGet, uoFind, UOG.phase1, hi]
    | cons a t =>
      have := uoFind_map_pos st1.uo s _ (u1' (by simp))
      exact uoGet_of_find this _ _
  -- second pass
  rw [zipIdx_nb, List.foldl_append, List.foldl_append, fold2_inert N va vb P 0 _ hP]
  obtain ⟨st2, e2, o2, pt2⟩ := phase2_fold C N va vb nda ndb hne vb [] (resetPhase st1) (UOG.phase1 vb va ([], va)).2 0
    (UOG.phase1 vb va ([], va)).1 (by simp) hv1 huo o1
    (by intro n hn; exact ⟨(out1 n hn).1, Or.inl (out1 n hn).2⟩) pt1
  simp only [List.length_nil, Nat.add_zero] at e2
  rw [e2, fold2_inert N va vb Q _ st2 hQ]
  exact ⟨st2.out, by simp [pt2], o2⟩

end LyModel.Diff.UOB.NB
