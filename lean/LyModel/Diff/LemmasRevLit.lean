import LyModel.Diff.LemmasExact
import LyModel.Diff.LemmasCongr
import LyModel.Diff.OrderTheory
import LyModel.Diff.Lemmas13Top
/-!
# The reversed diff applied to the literal second tree (C13 `reverse_apply` on the fragment)

`apply_diff_wf` (C06): `apply A (diff A B)` is `B` up to `normL S`; `reverse_roundtrip` (C13) takes the reversed diff from that
result back to `A`; `apply_congr` carries this over to `B` itself.
Core Lean only.
-/
namespace LyModel.Diff
open LyModel LyModel.Tree

mutual
theorem normR_normNode (S : Schema) : ∀ x, normR S (normNode S x) = normR S x
  | .inner s f m ks => by
    simp only [normNode, normR, normRL_normL S ks]
    cases S.isNpCont s <;> simp
  | .term s f m v => by simp only [normNode, normR]
theorem normRL_normL (S : Schema) : ∀ l, normRL S (normL S l) = normRL S l
  | [] => rfl
  | x :: xs => by simp only [normL, normRL, normR_normNode S x, normRL_normL S xs]
end

/-- equal up to `LYD_NEW` and the default flag of non-presence containers (C06) implies equal up to `normR` -/
theorem normRL_of_normL {S : Schema} {l l' : List DNode} (h : normL S l = normL S l') : normRL S l = normRL S l' := by
  rw [← normRL_normL S l, ← normRL_normL S l', h]

/-- on the fragment `lyd_diff_siblings` returns the first sibling of the diff -/
theorem diffFromPtr_eq_diff (S : Schema) (fx : Fixes) (A B : List DNode) (hA : wfForest S A = true) (hB : wfForest S B = true) :
    diffFromPtr S true A B fx = diff S true A B := by
  simp only [wfForest, Bool.and_eq_true] at hA hB
  obtain ⟨hptr, _⟩ := levelD S (Nat.max (heightL A) (heightL B)) true A B hA.1.1 hB.1.1 hA.1.2 hB.1.2
  unfold diffFromPtr diff diffFull
  simp only [hptr, ite_self, List.drop_zero]

/-- `KeyOrder` is unsatisfiable when the schema has a keyed system-ordered list with a key leaf -/
theorem keyOrder_no_keyed_list' {S : Schema} (K : KeyOrder S) {s k : Nat} (hs : S.isSorted s = true)
    (hl : S.isKind s .list = true) (hk : S.isKey k = true) : False := by
  have hkind : S.kind? s = some .list := isKind_iff.mp hl
  have hnt : S.isTerm s = false := by simp [Schema.isTerm, Schema.isKind, hkind]
  have hnu : S.isUserOrd s = false := by
    unfold Schema.isSorted at hs
    unfold Schema.isUserOrd
    cases hg : S.get? s with
    | none => rfl
    | some n => simp [hg] at hs ⊢; simp [hs.1]
  have hnk : S.nkeys s ≠ 0 := by
    unfold Schema.isSorted at hs
    unfold Schema.isKind Schema.kind? at hl
    unfold Schema.nkeys
    cases hg : S.get? s with
    | none => simp [hg] at hs
    | some n =>
      simp [hg] at hs hl ⊢
      rcases hs.2 with h | h
      · rw [hl] at h; exact absurd h (by decide)
      · exact h.2
  have hnd : S.isDupInst s = false := by
    unfold Schema.isDupInst
    unfold Schema.isKind Schema.kind? at hl
    unfold Schema.nkeys at hnk
    cases hg : S.get? s with
    | none => rfl
    | some n =>
      simp [hg] at hl hnk ⊢
      simp [hl, hnk]
  let x : DNode := .inner s {} [] []
  let y : DNode := .inner s {} [] [.term k {} [] []]
  have hx : Dom S x := ⟨hnu, hnd, by simp [x, DNode.isTerm, DNode.sid, hnt]⟩
  have hy : Dom S y := ⟨hnu, hnd, by simp [y, DNode.isTerm, DNode.sid, hnt]⟩
  have hsame : sameInst S x y = false := by
    simp [sameInst, x, y, DNode.sid, DNode.kids, hkind, hnk, keysOf, hk, keysEq]
  rcases K.total hx hy rfl hs hsame with h | h
  · simp [cmpInst, x, y, DNode.isTerm, DNode.kids, keysOf, cmpKeys] at h
  · simp [cmpInst, x, y, DNode.isTerm, DNode.kids, keysOf, cmpKeys] at h

/-- under `KeyOrder` the instances of well-formed trees that the `sort` callback cannot tell apart are the same instance
(the hypothesis of C06 `apply_diff_partial`) -/
theorem keysDistinguished_of_keyOrder {S : Schema} (K : KeyOrder S) (F : List DNode) (hw : wfL S F = true) :
    KeysDistinguished S F := by
  intro x y hx hy hs hso hc
  have hwx := mem_subnodesL_wf S F hw x hx
  have hwy := mem_subnodesL_wf S F hw y hy
  have hdx : Dom S x := domB_iff.mp (domB_of_wf S x hwx)
  have hdy : Dom S y := domB_iff.mp (domB_of_wf S y hwy)
  rcases isSorted_cases S x.sid hso with ⟨hll, ht⟩ | ⟨hl, hnll, ht⟩
  · -- leaf-list instances
    obtain ⟨fx, mx, vx, hxe⟩ := term_of_shape S x (wfNode_shape S x hwx) ht
    obtain ⟨fy, my, vy, hye⟩ := term_of_shape S y (wfNode_shape S y hwy) (by rw [← hs]; exact ht)
    have hkx : x.kids = [] := by rw [hxe]; rfl
    have hky : y.kids = [] := by rw [hye]; rfl
    refine ⟨by rw [hkx, hky], ?_⟩
    have hxt : x.isTerm = true := by rw [hxe]; rfl
    have hyt : y.isTerm = true := by rw [hye]; rfl
    cases hsame : sameInst S x y with
    | true =>
      have hk : S.kind? x.sid = some .leaflist := isKind_iff.mp hll
      unfold sameInst at hsame
      simp only [hk, Bool.and_eq_true, beq_iff_eq] at hsame
      exact hsame.2
    | false =>
      exfalso
      rcases K.total hdx hdy hs hso hsame with h | h
      · rw [hc] at h; exact absurd h (by decide)
      · have h1 : cmpInst S x y = (S.ty x.sid).cmp x.val y.val := by simp [cmpInst, hxt]
        have h2 : cmpInst S y x = (S.ty x.sid).cmp y.val x.val := by simp [cmpInst, hyt, hs]
        rw [h2, cmp_swap, ← h1, hc] at h
        exact absurd h (by decide)
  · -- keyed list instances: there are none under `KeyOrder`
    exfalso
    obtain ⟨fx, mx, kx, hxe⟩ := inner_of_shape S x (wfNode_shape S x hwx) (by simp [Schema.isInner, hl])
    rw [hxe] at hwx
    have hi := wfNode_inner S _ fx mx kx hwx
    have hn := nkeys_ne_zero S x.sid hl hdx.ndi
    have hks := hi.keysSids hl
    cases hkk : keysOf S kx with
    | nil =>
      rw [hkk] at hks
      have : keySids S x.sid = [] := by simpa using hks.symm
      simp only [keySids, List.map_eq_nil_iff, List.range_eq_nil] at this
      exact hn this
    | cons k rest =>
      have hkey := keysOf_all_key S kx k (by rw [hkk]; simp)
      exact keyOrder_no_keyed_list' K hso hl hkey

/-- the reversed diff of `diff(A, B)` applied to `B` itself gives `A` back, up to `normN` (`dataEqL true`) -/
theorem reverse_apply_literal {S : Schema} {fx : Fixes} (K : KeyOrder S) (A B : List DNode) (hA : wfForest S A = true)
    (hB : wfForest S B = true) :
    ∃ R A', reverse S (diff S true A B) = .ok R ∧ apply S B R fx = .ok A' ∧ normL13 A' = normL13 A := by
  have hk : KeysDistinguished S (A ++ B) := by
    apply keysDistinguished_of_keyOrder K
    have hA' := hA
    have hB' := hB
    simp only [wfForest, Bool.and_eq_true] at hA' hB'
    apply wfL_of_forall
    intro x hx
    rcases List.mem_append.1 hx with hx | hx
    · exact wfL_mem S A x hA'.1.1 hx
    · exact wfL_mem S B x hB'.1.1 hx
  obtain ⟨B', hB', hnB⟩ := apply_diff_wf S fx A B hA hB hk
  rw [diffFromPtr_eq_diff S fx A B hA hB] at hB'
  obtain ⟨B1, R, A1, h1, _, hR, _, h2, h3⟩ :=
    reverse_roundtrip (fx := fx) K (goodT_of_wfForest S A hA) (exactDiff_diff S A B hA hB)
  rw [hB'] at h1
  have hBB : B' = B1 := Except.ok.inj h1
  subst hBB
  have hc := apply_congr S fx B' B R (normRL_of_normL hnB)
  rw [h2] at hc
  cases hr : apply S B R fx with
  | error e => rw [hr] at hc; exact absurd hc (by simp [RelR])
  | ok A2 =>
    rw [hr] at hc
    refine ⟨R, A2, hR, hr, ?_⟩
    have : normRL S A1 = normRL S A2 := hc
    rw [← normL_of_normRL this]
    exact h3

end LyModel.Diff
