import LyModel.Diff.LemmasExact
import LyModel.Diff.LemmasCongr
import LyModel.Diff.OrderTheory
import LyModel.Diff.Lemmas13Top
/-!
# The reversed diff applied to the literal second tree (C13 `reverse_apply` on the fragment)

`apply_diff_wf` (C06): `apply A (diff A B)` is `B` up to `normL S`; `reverse_roundtrip` (C13) takes the reversed diff from that
result back to `A`; `apply_congr` carries this over to `B` itself.
Core Lean only.
-/
set_option linter.unusedSimpArgs false
namespace LyModel.Diff
open LyModel LyModel.Tree

mutual
theorem normR_normNode (S : Schema) : ∀ x, normR S (normNode S x) = normR S x
  | .inner s f m ks => by
    simp only [normNode, normR, normRL_normL S ks]
    cases S.isNpCont s <;> simp
  | .term s f m v => by simp only [normNode, normR]
theorem normRL_normL (S : Schema) : ∀ l, normRL S (normL S l) = normRL S l
  | [] => rfl
  | x :: xs => by simp only [normL, normRL, normR_normNode S x, normRL_normL S xs]
end

/-- equal up to `LYD_NEW` and the default flag of non-presence containers (C06) implies equal up to `normR` -/
theorem normRL_of_normL {S : Schema} {l l' : List DNode} (h : normL S l = normL S l') : normRL S l = normRL S l' := by
  rw [← normRL_normL S l, ← normRL_normL S l', h]

/-- on the fragment `lyd_diff_siblings` returns the first sibling of the diff -/
theorem diffFromPtr_eq_diff (S : Schema) (fx : Fixes) (A B : List DNode) (hA : wfForest S A = true) (hB : wfForest S B = true) :
    diffFromPtr S true A B fx = diff S true A B := by
  simp only [wfForest, Bool.and_eq_true] at hA hB
  obtain ⟨hptr, _⟩ := levelD S (Nat.max (heightL A) (heightL B)) true A B hA.1.1 hB.1.1 hA.1.2 hB.1.2
  unfold diffFromPtr diff diffFull
  simp only [hptr, ite_self, List.drop_zero]

/-- `KeyOrder` is unsatisfiable when the schema has a keyed system-ordered list with a key leaf -/
theorem keyOrder_no_keyed_list' {S : Schema} (K : KeyOrder S) {s k : Nat} (hs : S.isSorted s = true)
    (hl : S.isKind s .list = true) (hk : S.isKey k = true) : False := by
  have hkind : S.kind? s = some .list := isKind_iff.mp hl
  have hnt : S.isTerm s = false := by simp [Schema.isTerm, Schema.isKind, hkind]
  have hnu : S.isUserOrd s = false := by
    unfold Schema.isSorted at hs
    unfold Schema.isUserOrd
    cases hg : S.get? s with
    | none => rfl
    | some n => simp [hg] at hs ⊢; simp [hs.1]
  have hnk : S.nkeys s ≠ 0 := by
    unfold Schema.isSorted at hs
    unfold Schema.isKind Schema.kind? at hl
    unfold Schema.nkeys
    cases hg : S.get? s with
    | none => simp [hg] at hs
    | some n =>
      simp [hg] at hs hl ⊢
      rcases hs.2 with h | h
      · rw [hl] at h; exact absurd h (by decide)
      · exact h.2
  have hnd : S.isDupInst s = false := by
    unfold Schema.isDupInst
    unfold Schema.isKind Schema.kind? at hl
    unfold Schema.nkeys at hnk
    cases hg : S.get? s with
    | none => rfl
    | some n =>
      simp [hg] at hl hnk ⊢
      simp [hl, hnk]
  let x : DNode := .inner s {} [] []
  let y : DNode := .inner s {} [] [.term k {} [] []]
  have hx : Dom S x := ⟨hnu, hnd, by simp [x, DNode.isTerm, DNode.sid, hnt]⟩
  have hy : Dom S y := ⟨hnu, hnd, by simp [y, DNode.isTerm, DNode.sid, hnt]⟩
  have hsame : sameInst S x y = false := by
    simp [sameInst, x, y, DNode.sid, DNode.kids, hkind, hnk, keysOf, hk, keysEq]
  rcases K.total hx hy rfl hs hsame with h | h
  · simp [cmpInst, x, y, DNode.isTerm, DNode.kids, keysOf, cmpKeys] at h
  · simp [cmpInst, x, y, DNode.isTerm, DNode.kids, keysOf, cmpKeys] at h

/-- under `KeyOrder` the instances of well-formed trees that the `sort` callback cannot tell apart are the same instance
(the hypothesis of C06 `apply_diff_partial`) -/
theorem keysDistinguished_of_keyOrder {S : Schema} (K : KeyOrder S) (F : List DNode) (hw : wfL S F = true) :
    KeysDistinguished S F := by
  intro x y hx hy hs hso hc
  have hwx := mem_subnodesL_wf S F hw x hx
  have hwy := mem_subnodesL_wf S F hw y hy
  have hdx : Dom S x := domB_iff.mp (domB_of_wf S x hwx)
  have hdy : Dom S y := domB_iff.mp (domB_of_wf S y hwy)
  rcases isSorted_cases S x.sid hso with ⟨hll, ht⟩ | ⟨hl, hnll, ht⟩
  · -- leaf-list instances
    obtain ⟨fx, mx, vx, hxe⟩ := term_of_shape S x (wfNode_shape S x hwx) ht
    obtain ⟨fy, my, vy, hye⟩ := term_of_shape S y (wfNode_shape S y hwy) (by rw [← hs]; exact ht)
    have hkx : x.kids = [] := by rw [hxe]; rfl
    have hky : y.kids = [] := by rw [hye]; rfl
    refine ⟨by rw [hkx, hky], ?_⟩
    have hxt : x.isTerm = true := by rw [hxe]; rfl
    have hyt : y.isTerm = true := by rw [hye]; rfl
    cases hsame : sameInst S x y with
    | true =>
      have hk : S.kind? x.sid = some .leaflist := isKind_iff.mp hll
      unfold sameInst at hsame
      simp only [hk, Bool.and_eq_true, beq_iff_eq] at hsame
      exact hsame.2
    | false =>
      exfalso
      rcases K.total hdx hdy hs hso hsame with h | h
      · rw [hc] at h; exact absurd h (by decide)
      · have h1 : cmpInst S x y = (S.ty x.sid).cmp x.val y.val := by simp [cmpInst, hxt]
        have h2 : cmpInst S y x = (S.ty x.sid).cmp y.val x.val := by simp [cmpInst, hyt, hs]
        rw [h2, cmp_swap, ← h1, hc] at h
        exact absurd h (by decide)
  · -- keyed list instances: there are none under `KeyOrder`
    exfalso
    obtain ⟨fx, mx, kx, hxe⟩ := inner_of_shape S x (wfNode_shape S x hwx) (by simp [Schema.isInner, hl])
    rw [hxe] at hwx
    have hi := wfNode_inner S _ fx mx kx hwx
    have hn := nkeys_ne_zero S x.sid hl hdx.ndi
    have hks := hi.keysSids hl
    cases hkk : keysOf S kx with
    | nil =>
      rw [hkk] at hks
      have : keySids S x.sid = [] := by simpa using hks.symm
      simp only [keySids, List.map_eq_nil_iff, List.range_eq_nil] at this
      exact hn this
    | cons k rest =>
      have hkey := keysOf_all_key S kx k (by rw [hkk]; simp)
      exact keyOrder_no_keyed_list' K hso hl hkey

/-- the reversed diff of `diff(A, B)` applied to `B` itself gives `A` back, up to `normN` (`dataEqL true`) -/
theorem reverse_apply_literal {S : Schema} {fx : Fixes} (K : KeyOrder S) (A B : List DNode) (hA : wfForest S A = true)
    (hB : wfForest S B = true) :
    ∃ R A', reverse S (diff S true A B) = .ok R ∧ apply S B R fx = .ok A' ∧ normL13 A' = normL13 A := by
  have hk : KeysDistinguished S (A ++ B) := by
    apply keysDistinguished_of_keyOrder K
    have hA' := hA
    have hB' := hB
    simp only [wfForest, Bool.and_eq_true] at hA' hB'
    apply wfL_of_forall
    intro x hx
    rcases List.mem_append.1 hx with hx | hx
    · exact wfL_mem S A x hA'.1.1 hx
    · exact wfL_mem S B x hB'.1.1 hx
  obtain ⟨B', hB', hnB⟩ := apply_diff_wf S fx A B hA hB hk
  rw [diffFromPtr_eq_diff S fx A B hA hB] at hB'
  obtain ⟨B1, R, A1, h1, _, hR, _, h2, h3⟩ :=
    reverse_roundtrip (fx := fx) K (goodT_of_wfForest S A hA) (exactDiff_diff S A B hA hB)
  rw [hB'] at h1
  have hBB : B' = B1 := Except.ok.inj h1
  subst hBB
  have hc := apply_congr S fx B' B R (normRL_of_normL hnB)
  rw [h2] at hc
  cases hr : apply S B R fx with
  | error e => rw [hr] at hc; exact absurd hc (by simp [RelR])
  | ok A2 =>
    rw [hr] at hc
    refine ⟨R, A2, hR, hr, ?_⟩
    have : normRL S A1 = normRL S A2 := hc
    rw [← normL_of_normRL this]
    exact h3

end LyModel.Diff

namespace LyModel.Diff
open LyModel LyModel.Tree

/-! ### exactness does not look at what `normN` removes from the data tree -/

theorem instMatch_normN_right (S : Schema) (d x : DNode) : instMatch S d (normN x) = instMatch S d x := by
  rw [← instMatch_normN S d (normN x), normN_idem, instMatch_normN]

theorem matchP_normN_right (S : Schema) (d x : DNode) : matchP S d (normN x) = matchP S d x := by
  simp only [matchP, sid_normN, instMatch_normN_right]

theorem find_normL (S : Schema) (c : DNode) : ∀ L : List DNode,
    (normL13 L).find? (matchP S c) = (L.find? (matchP S c)).map normN
  | [] => rfl
  | x :: xs => by
    simp only [normL13, List.find?_cons, matchP_normN_right]
    split
    · rfl
    · exact find_normL S c xs

theorem goodL_mem {S : Schema} : ∀ {l : List DNode} {x : DNode}, goodL S l = true → x ∈ l → goodN S x = true
  | [], _, _, h => by simp at h
  | y :: ys, x, hg, h => by
    simp only [goodL, Bool.and_eq_true] at hg
    rcases List.mem_cons.1 h with rfl | h
    · exact hg.1.1
    · exact goodL_mem hg.2 h

theorem dataEq_normN_left (x d : DNode) : dataEq true (normN x) d = dataEq true x d := by
  rw [Bool.eq_iff_iff, dataEq_iff_norm, dataEq_iff_norm, normN_idem]

theorem all_keys_normL (S : Schema) (L : List DNode) (n : Nat) :
    (keysOf S (normL13 L)).all (fun k => decide (k.sid < n)) = (keysOf S L).all (fun k => decide (k.sid < n)) := by
  rw [keysOf_normL, normL_eq_map13, List.all_map]
  apply List.all_congr rfl
  intro y
  simp

mutual
theorem exactE_normN (S : Schema) : ∀ (d : DNode) (inh : Option Op) (e : Option DNode),
    (∀ x, e = some x → goodN S x = true ∧ x.sid = d.sid) → exactE S inh (e.map normN) d = exactE S inh e d
  | .inner s f m ks, inh, e, h => by
    cases e with
    | none => rfl
    | some x =>
      obtain ⟨hgx, _⟩ := h x rfl
      have hK := exactK_normL S ks (childInhOf (.inner s f m ks) inh) x.kids true (goodN_kids hgx)
      cases hop : effOp (.inner s f m ks) inh with
      | none => simp only [Option.map_some, exactE, hop]
      | some op =>
        cases op <;> simp only [Option.map_some, exactE, hop, dataEq_normN_left, kids_normN, hK]
  | .term s f m v, inh, e, h => by
    cases e with
    | none => rfl
    | some x =>
      obtain ⟨hgx, hsx⟩ := h x rfl
      cases hdom : domB S (.term s f m v) with
      | false => simp only [Option.map_some, exactE, hdom, Bool.false_and]
      | true =>
        have hd := domB_iff.mp hdom
        have hx := goodN_dom hgx
        have hxt : x.isTerm = true := by
          rw [hx.typed, hsx, ← hd.typed]; rfl
        cases x with
        | inner => simp [DNode.isTerm] at hxt
        | term s' f' m' v' =>
          cases hop : effOp (.term s f m v) inh with
          | none => simp only [Option.map_some, exactE, hop]
          | some op =>
            have hde := dataEq_normN_left (.term s' f' m' v') (.term s f m v)
            simp only [normN] at hde
            cases op <;> simp only [Option.map_some, exactE, hop, hde, normN, DNode.val, DNode.flags]
theorem exactK_normL (S : Schema) : ∀ (D : List DNode) (inh : Option Op) (L : List DNode) (ld : Bool),
    goodL S L = true → exactK S inh (normL13 L) ld D = exactK S inh L ld D
  | [], _, _, _, _ => by simp [exactK]
  | c :: cs, inh, L, ld, hg => by
    rw [exactK, exactK]
    rw [exactK_normL S cs inh L true hg, exactK_normL S cs inh L false hg, find_normL, all_keys_normL,
      exactE_normN S c inh (L.find? (matchP S c)) (by
        intro x hx
        exact ⟨goodL_mem hg (List.mem_of_find?_eq_some hx), matchP_sid (List.find?_some hx)⟩)]
end

/-- an exact diff for a good tree is an exact diff for every good tree with the same observation -/
theorem exactDiff_congr_norm {S : Schema} {L L' D : List DNode} (hg : goodL S L = true) (hg' : goodL S L' = true)
    (h : normL13 L' = normL13 L) : exactDiff S L' D = exactDiff S L D := by
  unfold exactDiff
  rw [← exactK_normL S D none L' false hg', h, exactK_normL S D none L false hg]

/-- computed diffs chain: `diff(B, C)` is an exact diff for the tree `diff(A, B)` leads to from `A` -/
theorem diff_chain_exact (S : Schema) (fx : Fixes) (A B C : List DNode) (hA : wfForest S A = true) (hB : wfForest S B = true)
    (hC : wfForest S C = true) (hk : KeysDistinguished S (A ++ B)) :
    ∃ B', apply S A (diff S true A B) fx = .ok B' ∧ goodT S B' = true ∧ normL13 B' = normL13 B ∧
      exactDiff S B' (diff S true B C) = true := by
  obtain ⟨B', hB', hnB⟩ := apply_diff_wf S fx A B hA hB hk
  rw [diffFromPtr_eq_diff S fx A B hA hB] at hB'
  have hn : normL13 B' = normL13 B := normL_of_normRL (normRL_of_normL hnB)
  have hgB := goodT_of_wfForest S B hB
  have hgB' : goodT S B' = true := by rw [goodT_congr_norm hn]; exact hgB
  refine ⟨B', hB', hgB', hn, ?_⟩
  rw [exactDiff_congr_norm (goodT_goodL hgB) (goodT_goodL hgB') hn]
  exact exactDiff_diff S B C hB hC

end LyModel.Diff
