import LyModel.Diff.LemmasExact
import LyModel.Diff.LemmasCongr
import LyModel.Diff.OrderTheory
import LyModel.Diff.Lemmas13Top
/-!
# The reversed diff applied to the literal second tree (C13 `reverse_apply` on the fragment)

`apply_diff_wf` (C06): `apply A (diff A B)` is `B` up to `normL S`; `reverse_roundtrip` (C13) takes the reversed diff from that
result back to `A`; `apply_congr` carries this over to `B` itself.
Core Lean only.
-/
namespace LyModel.Diff
open LyModel LyModel.Tree

mutual
theorem normR_normNode (S : Schema) : ∀ x, normR S (normNode S x) = normR S x
  | .inner s f m ks => by
    simp only [normNode, normR, normRL_normL S ks]
    cases S.isNpCont s <;> simp
  | .term s f m v => by simp only [normNode, normR]
theorem normRL_normL (S : Schema) : ∀ l, normRL S (normL S l) = normRL S l
  | [] => rfl
  | x :: xs => by simp only [normL, normRL, normR_normNode S x, normRL_normL S xs]
end

/-- equal up to `LYD_NEW` and the default flag of non-presence containers (C06) implies equal up to `normR` -/
theorem normRL_of_normL {S : Schema} {l l' : List DNode} (h : normL S l = normL S l') : normRL S l = normRL S l' := by
  rw [← normRL_normL S l, ← normRL_normL S l', h]

/-- on the fragment `lyd_diff_siblings` returns the first sibling of the diff -/
theorem diffFromPtr_eq_diff (S : Schema) (fx : Fixes) (A B : List DNode) (hA : wfForest S A = true) (hB : wfForest S B = true) :
    diffFromPtr S true A B fx = diff S true A B := by
  simp only [wfForest, Bool.and_eq_true] at hA hB
  obtain ⟨hptr, _⟩ := levelD S (Nat.max (heightL A) (heightL B)) true A B hA.1.1 hB.1.1 hA.1.2 hB.1.2
  unfold diffFromPtr diff diffFull
  simp only [hptr, ite_self, List.drop_zero]

/-- the reversed diff of `diff(A, B)` applied to `B` itself gives `A` back, up to `normN` (`dataEqL true`) -/
theorem reverse_apply_literal {S : Schema} {fx : Fixes} (K : KeyOrder S) (A B : List DNode) (hA : wfForest S A = true)
    (hB : wfForest S B = true) (hk : KeysDistinguished S (A ++ B)) :
    ∃ R A', reverse S (diff S true A B) = .ok R ∧ apply S B R fx = .ok A' ∧ normL13 A' = normL13 A := by
  obtain ⟨B', hB', hnB⟩ := apply_diff_wf S fx A B hA hB hk
  rw [diffFromPtr_eq_diff S fx A B hA hB] at hB'
  obtain ⟨B1, R, A1, h1, _, hR, _, h2, h3⟩ :=
    reverse_roundtrip (fx := fx) K (goodT_of_wfForest S A hA) (exactDiff_diff S A B hA hB)
  rw [hB'] at h1
  have hBB : B' = B1 := Except.ok.inj h1
  subst hBB
  have hc := apply_congr S fx B' B R (normRL_of_normL hnB)
  rw [h2] at hc
  cases hr : apply S B R fx with
  | error e => rw [hr] at hc; exact absurd hc (by simp [RelR])
  | ok A2 =>
    rw [hr] at hc
    refine ⟨R, A2, hR, hr, ?_⟩
    have : normRL S A1 = normRL S A2 := hc
    rw [← normL_of_normRL this]
    exact h3

end LyModel.Diff
